import JunoModel.C12.ProofsVC
namespace Juno.C12

theorem filter_some {α : Type} (o : Option α) (f : α → Bool) (a : α) (h : o.filter f = some a) :
    o = some a ∧ f a = true := by
  cases o with
  | none => simp at h
  | some x =>
    simp [Option.filter] at h
    obtain ⟨h1, h2⟩ := h
    subst h2; exact ⟨rfl, h1⟩

def SelSpec (env : Env) (m : Machine) (rr : Option Round) : Sel → Prop
  | .firstProposal cp => m.findProposal env m.state.round = some cp ∧ m.uponFirstProposal cp = true
  | .polkaPrevious cp => m.findProposal env m.state.round = some cp ∧ m.uponProposalAndPolkaPrevious cp = true
  | .polkaAny => m.uponPolkaAny = true
  | .polkaCurrent cp => m.findProposal env m.state.round = some cp ∧ m.uponProposalAndPolkaCurrent cp = true
  | .polkaNil => m.uponPolkaNil = true
  | .precommitAny => m.uponPrecommitAny = true
  | .commitValue cp => (∃ r, m.findProposal env r = some cp) ∧ m.uponCommitValue cp = true
  | .skipRound r => rr = some r ∧ m.uponSkipRound r = true
  | .none => True

theorem select_spec (env : Env) (m : Machine) (rr : Option Round) : SelSpec env m rr (m.select env rr) := by
  unfold Machine.select
  simp only
  split
  · rename_i cp h; exact filter_some _ _ _ h
  · split
    · rename_i cp h; exact filter_some _ _ _ h
    · split
      · rename_i h; exact h
      · split
        · rename_i cp h; exact filter_some _ _ _ h
        · split
          · rename_i h; exact h
          · split
            · rename_i h; exact h
            · split
              · rename_i cp h
                have := filter_some _ _ _ h
                refine ⟨?_, this.2⟩
                cases rr with
                | none => exact ⟨_, this.1⟩
                | some r => exact ⟨r, this.1⟩
              · split
                · rename_i r h; exact filter_some _ _ _ h
                · trivial

/-! ## micro-steps: what one rule firing does to the Tendermint variables -/

/-- The variables of Algorithm 1 (plus `started`). -/
structure Core where
  height : Height
  started : Bool
  round : Round
  step : Step
  lockedValue : Option Val
  lockedRound : Round

def Machine.core (m : Machine) : Core :=
  ⟨m.state.height, m.isHeightStarted, m.state.round, m.state.step, m.state.lockedValue, m.state.lockedRound⟩

structure MInv (env : Env) (m : Machine) : Prop where
  vc : VCInv env m.vc
  cur : m.vc.cur = m.state.height

def silentAct : Action → Prop
  | .writeWAL _ => True
  | .schedule _ _ _ => True
  | .triggerSync _ _ => True
  | _ => False

/-- Guard of lines 22–33 over the machine's own vote counter: a non-nil prevote is for the valid
value of the current round's stored proposal, and either the proposal has `validRound = -1` and the
machine is not locked or locked on that value (line 23), or `0 ≤ validRound < round`, the vote
counter holds `2f+1` prevotes for the value in `validRound`, and `lockedRound ≤ validRound` or the
machine is locked on that value (lines 28–29). -/
def PrevoteGuardX (env : Env) (m : Machine) : Option Val → Prop
  | none => True
  | some v => ∃ p, m.vc.getProposal m.state.round = some p ∧ p.value = v ∧ env.valid v = true ∧
      ((p.validRound = -1 ∧ (m.state.lockedRound = -1 ∨ m.state.lockedValue = some v)) ∨
       (0 ≤ p.validRound ∧ p.validRound < m.state.round ∧
         m.vc.hasQuorumForVote p.validRound .prevote (some v) = true ∧
         (m.state.lockedRound ≤ p.validRound ∨ m.state.lockedValue = some v)))

/-- A change of the vote counter caused by a message handed to the machine. -/
inductive VCChange
  | vote (v : Vote) (t : VoteType)
  | proposal (p : Proposal)
  | futureQ (h : Height) (r : Round) (id : Option Val)

def VCChange.apply (env : Env) (vc : VoteCounter) : VCChange → VoteCounter
  | .vote v t => (vc.addVote env v t).1
  | .proposal p => (vc.addProposal env p).1
  | .futureQ h r id => (vc.hasFuturePrecommitQuorum h r id).1

/-- `A`: the messages the environment may hand to the machine in this step. -/
inductive XMicro (env : Env) (A : VCChange → Prop) : Machine → List Action → Machine → Prop
  | silent (m m' : Machine) (acts : List Action) :
      m'.core = m.core → m'.nodeAddr = m.nodeAddr → m'.vc = m.vc → (∀ a ∈ acts, silentAct a) →
      XMicro env A m acts m'
  /-- a received message is stored in the vote counter (nothing else changes) -/
  | recv (m m' : Machine) (c : VCChange) :
      A c → m'.core = m.core → m'.nodeAddr = m.nodeAddr → m'.vc = c.apply env m.vc → XMicro env A m [] m'
  | propose (m m' : Machine) (p : Proposal) :
      m'.core = m.core → m'.nodeAddr = m.nodeAddr → m'.vc = (m.vc.addProposal env p).1 →
      p.height = m.state.height → p.round = m.state.round →
      p.sender = m.nodeAddr → XMicro env A m [.bcastProposal p] m'
  | start (m m' : Machine) (r : Round) :
      m.isHeightStarted = false → 0 ≤ r → m'.nodeAddr = m.nodeAddr → m'.vc = m.vc →
      m'.core = { m.core with started := true, round := r, step := .propose } → XMicro env A m [] m'
  | newRound (m m' : Machine) (r : Round) :
      m.state.round < r → m'.nodeAddr = m.nodeAddr → m'.vc = m.vc →
      m'.core = { m.core with round := r, step := .propose } → XMicro env A m [] m'
  | prevote (m m' : Machine) (id : Option Val) :
      m.state.step = .propose → PrevoteGuardX env m id → m'.nodeAddr = m.nodeAddr →
      m'.vc = (m.vc.addVote env ⟨m.state.height, m.state.round, m.nodeAddr, id⟩ .prevote).1 →
      m'.core = { m.core with step := .prevote } →
      XMicro env A m [.bcastPrevote ⟨m.state.height, m.state.round, m.nodeAddr, id⟩] m'
  | precommitNil (m m' : Machine) :
      m.state.step = .prevote → m'.nodeAddr = m.nodeAddr →
      m'.vc = (m.vc.addVote env ⟨m.state.height, m.state.round, m.nodeAddr, none⟩ .precommit).1 →
      m'.core = { m.core with step := .precommit } →
      XMicro env A m [.bcastPrecommit ⟨m.state.height, m.state.round, m.nodeAddr, none⟩] m'
  | precommitValue (m m' : Machine) (v : Val) :
      m.state.step = .prevote →
      (∃ p, m.vc.getProposal m.state.round = some p ∧ p.value = v ∧ env.valid v = true) →
      m.vc.hasQuorumForVote m.state.round .prevote (some v) = true → m'.nodeAddr = m.nodeAddr →
      m'.vc = (m.vc.addVote env ⟨m.state.height, m.state.round, m.nodeAddr, some v⟩ .precommit).1 →
      m'.core = { m.core with step := .precommit, lockedValue := some v, lockedRound := m.state.round } →
      XMicro env A m [.bcastPrecommit ⟨m.state.height, m.state.round, m.nodeAddr, some v⟩] m'
  | commit (m m' : Machine) (p : Proposal) :
      m.vc.getProposal p.round = some p → env.valid p.value = true →
      m.vc.hasQuorumForVote p.round .precommit (some p.value) = true →
      p.height = m.state.height → p.sender = env.proposer p.height p.round → m'.nodeAddr = m.nodeAddr →
      m'.vc = m.vc.startNewHeight env →
      m'.core = ⟨m.state.height + 1, false, 0, .propose, none, -1⟩ →
      XMicro env A m [.commit p] m'

/-- Side condition of a disciplined micro-step: the Tendermint variables are untouched, or the
height is started before or after it (rules only fire for a started height; `ProcessStart` starts it). -/
def SC (m m1 : Machine) : Prop :=
  m1.core = m.core ∨ m.isHeightStarted = true ∨ m1.isHeightStarted = true

inductive XChain (env : Env) (A : VCChange → Prop) : Machine → List Action → Machine → Prop
  | nil (m : Machine) : XChain env A m [] m
  | cons {m m1 m2 : Machine} {a as : List Action} :
      XMicro env A m a m1 → SC m m1 → XChain env A m1 as m2 → XChain env A m (a ++ as) m2

variable {A : VCChange → Prop}

theorem XChain.one {env : Env} {m m' : Machine} {a : List Action} (h : XMicro env A m a m') (sc : SC m m') :
    XChain env A m a m' := by
  have := XChain.cons h sc (XChain.nil m')
  simpa using this

theorem XChain.append {env : Env} {m m1 m2 : Machine} {a b : List Action}
    (h1 : XChain env A m a m1) (h2 : XChain env A m1 b m2) : XChain env A m (a ++ b) m2 := by
  induction h1 with
  | nil => simpa using h2
  | cons hm sc _ ih => rw [List.append_assoc]; exact XChain.cons hm sc (ih h2)

theorem SC.same {m m1 : Machine} (h : m1.core = m.core) : SC m m1 := Or.inl h
theorem SC.started {m m1 : Machine} (h : m.isHeightStarted = true) : SC m m1 := Or.inr (Or.inl h)

/-! ### the primitives -/

theorem findProposal_some (env : Env) (m : Machine) (r : Round) (cp : CachedProposal)
    (h : m.findProposal env r = some cp) :
    m.vc.getProposal r = some cp.proposal ∧ cp.valid = env.valid cp.proposal.value ∧ cp.id = cp.proposal.value := by
  unfold Machine.findProposal at h
  split at h
  · cases h
  · rename_i p hp
    cases h
    exact ⟨hp, rfl, rfl⟩

theorem lockedIs_iff (s : State) (v : Val) : lockedIs s v = true ↔ s.lockedValue = some v := by
  unfold lockedIs
  cases s.lockedValue <;> simp

theorem sendPrevote_core (env : Env) (m : Machine) (id : Option Val) :
    (m.setStepAndSendPrevote env id).1.core = { m.core with step := .prevote } ∧
    (m.setStepAndSendPrevote env id).1.nodeAddr = m.nodeAddr ∧
    (m.setStepAndSendPrevote env id).2 = .bcastPrevote ⟨m.state.height, m.state.round, m.nodeAddr, id⟩ ∧
    (m.setStepAndSendPrevote env id).1.vc =
      (m.vc.addVote env ⟨m.state.height, m.state.round, m.nodeAddr, id⟩ .prevote).1 := by
  simp [Machine.setStepAndSendPrevote, Machine.core]

theorem sendPrecommit_core (env : Env) (m : Machine) (id : Option Val) :
    (m.setStepAndSendPrecommit env id).1.core = { m.core with step := .precommit } ∧
    (m.setStepAndSendPrecommit env id).1.nodeAddr = m.nodeAddr ∧
    (m.setStepAndSendPrecommit env id).2 = .bcastPrecommit ⟨m.state.height, m.state.round, m.nodeAddr, id⟩ ∧
    (m.setStepAndSendPrecommit env id).1.vc =
      (m.vc.addVote env ⟨m.state.height, m.state.round, m.nodeAddr, id⟩ .precommit).1 := by
  simp [Machine.setStepAndSendPrecommit, Machine.core]

theorem sendPrevote_inv (env : Env) (m : Machine) (id : Option Val) (hi : MInv env m) :
    MInv env (m.setStepAndSendPrevote env id).1 := by
  have := addVote_inv env m.vc ⟨m.state.height, m.state.round, m.nodeAddr, id⟩ .prevote hi.vc
  exact ⟨this.1, by simp [Machine.setStepAndSendPrevote]; rw [this.2.1]; exact hi.cur⟩

theorem sendPrecommit_inv (env : Env) (m : Machine) (id : Option Val) (hi : MInv env m) :
    MInv env (m.setStepAndSendPrecommit env id).1 := by
  have := addVote_inv env m.vc ⟨m.state.height, m.state.round, m.nodeAddr, id⟩ .precommit hi.vc
  exact ⟨this.1, by simp [Machine.setStepAndSendPrecommit]; rw [this.2.1]; exact hi.cur⟩

theorem resetState_core (m : Machine) (r : Round) :
    (m.resetState r).core = { m.core with round := r, step := .propose } ∧
    (m.resetState r).nodeAddr = m.nodeAddr ∧ (m.resetState r).vc = m.vc ∧
    (m.resetState r).state.height = m.state.height := by
  simp [Machine.resetState, State.reset, Machine.core]

theorem resetState_inv (env : Env) (m : Machine) (r : Round) (hi : MInv env m) : MInv env (m.resetState r) :=
  ⟨hi.vc, hi.cur⟩

theorem sendProposal_spec (env : Env) (m : Machine) (v : Val) (hi : MInv env m) :
    XMicro env A m [(m.sendProposal env v).2] (m.sendProposal env v).1 ∧ MInv env (m.sendProposal env v).1 := by
  have := addProposal_inv env m.vc ⟨m.state.height, m.state.round, m.nodeAddr, m.state.validRound, v⟩ hi.vc
  constructor
  · exact XMicro.propose m _ _ (by simp [Machine.sendProposal, Machine.core]) (by simp [Machine.sendProposal]) rfl rfl rfl rfl
  · exact ⟨this.1, by simp [Machine.sendProposal]; rw [this.2.1]; exact hi.cur⟩

/-- `startRound` after the round variables were reset: one proposal or one scheduled timeout. -/
theorem startRound_tail (env : Env) (m : Machine) (r : Round) (hi : MInv env m) :
    XMicro env A (m.resetState r) [(m.startRound env r).2] (m.startRound env r).1 ∧
    MInv env (m.startRound env r).1 := by
  unfold Machine.startRound
  simp only
  have hri := resetState_inv env m r hi
  split
  · split
    · exact sendProposal_spec (A := A) env _ _ hri
    · have h2 : MInv env { m.resetState r with valueCalls := (m.resetState r).valueCalls + 1 } := ⟨hri.vc, hri.cur⟩
      have := sendProposal_spec (A := A) env { m.resetState r with valueCalls := (m.resetState r).valueCalls + 1 }
        (env.appValue (m.resetState r).valueCalls) h2
      refine ⟨?_, this.2⟩
      exact XMicro.propose _ _ _ (by simp [Machine.sendProposal, Machine.core]) (by simp [Machine.sendProposal]) (by simp [Machine.sendProposal]) rfl rfl rfl
  · exact ⟨XMicro.silent _ _ _ rfl rfl rfl (by intro a ha; simp at ha; subst ha; trivial), hri⟩

theorem startRound_chain (env : Env) (m : Machine) (r : Round) (hlt : m.state.round < r)
    (hs : m.isHeightStarted = true) (hi : MInv env m) :
    XChain env A m [(m.startRound env r).2] (m.startRound env r).1 ∧ MInv env (m.startRound env r).1 := by
  have ht := startRound_tail (A := A) env m r hi
  have hr := resetState_core m r
  refine ⟨?_, ht.2⟩
  have h1 : XMicro env A m [] (m.resetState r) := XMicro.newRound m _ r hlt hr.2.1 hr.2.2.1 hr.1
  exact XChain.cons h1 (SC.started hs) (XChain.one ht.1 (SC.started (by simpa [Machine.resetState] using hs)))

theorem step_beq (a b : Step) : (a == b) = true ↔ a = b := by simp

theorem doFirstProposal_spec (env : Env) (m : Machine) (cp : CachedProposal)
    (hf : m.findProposal env m.state.round = some cp) (hu : m.uponFirstProposal cp = true) (hi : MInv env m) :
    XMicro env A m [(m.doFirstProposal env cp).2] (m.doFirstProposal env cp).1 ∧
    MInv env (m.doFirstProposal env cp).1 := by
  obtain ⟨hg, hv, hid⟩ := findProposal_some env m _ cp hf
  unfold Machine.uponFirstProposal at hu
  simp only [Bool.and_eq_true, beq_iff_eq] at hu
  unfold Machine.doFirstProposal
  simp only
  refine ⟨?_, sendPrevote_inv env m _ hi⟩
  have hc := sendPrevote_core env m (if (cp.valid && (m.state.lockedRound == -1 || lockedIs m.state cp.id)) = true then some cp.id else none)
  rw [hc.2.2.1]
  refine XMicro.prevote m _ _ hu.2 ?_ hc.2.1 hc.2.2.2 hc.1
  split
  · rename_i hs
    simp only [Bool.and_eq_true, Bool.or_eq_true, beq_iff_eq, lockedIs_iff] at hs
    refine ⟨cp.proposal, hg, hid.symm, ?_, Or.inl ⟨hu.1, hs.2⟩⟩
    rw [hid, ← hv]; exact hs.1
  · trivial

theorem doPolkaPrevious_spec (env : Env) (m : Machine) (cp : CachedProposal)
    (hf : m.findProposal env m.state.round = some cp) (hu : m.uponProposalAndPolkaPrevious cp = true)
    (hi : MInv env m) :
    XMicro env A m [(m.doProposalAndPolkaPrevious env cp).2] (m.doProposalAndPolkaPrevious env cp).1 ∧
    MInv env (m.doProposalAndPolkaPrevious env cp).1 := by
  obtain ⟨hg, hv, hid⟩ := findProposal_some env m _ cp hf
  unfold Machine.uponProposalAndPolkaPrevious at hu
  simp only [Bool.and_eq_true, beq_iff_eq, decide_eq_true_eq] at hu
  obtain ⟨⟨⟨hq, hst⟩, h0⟩, hlt⟩ := hu
  unfold Machine.doProposalAndPolkaPrevious
  simp only
  refine ⟨?_, sendPrevote_inv env m _ hi⟩
  have hc := sendPrevote_core env m (if (cp.valid && (decide (m.state.lockedRound ≤ cp.proposal.validRound) || lockedIs m.state cp.id)) = true then some cp.id else none)
  rw [hc.2.2.1]
  refine XMicro.prevote m _ _ hst ?_ hc.2.1 hc.2.2.2 hc.1
  split
  · rename_i hs
    simp only [Bool.and_eq_true, Bool.or_eq_true, decide_eq_true_eq, lockedIs_iff] at hs
    refine ⟨cp.proposal, hg, hid.symm, ?_, Or.inr ⟨h0, hlt, hq, hs.2⟩⟩
    rw [hid, ← hv]; exact hs.1
  · trivial

theorem doPolkaCurrent_spec (env : Env) (m : Machine) (cp : CachedProposal)
    (hf : m.findProposal env m.state.round = some cp) (hu : m.uponProposalAndPolkaCurrent cp = true)
    (hi : MInv env m) :
    XMicro env A m (m.doProposalAndPolkaCurrent env cp).2.toList (m.doProposalAndPolkaCurrent env cp).1 ∧
    MInv env (m.doProposalAndPolkaCurrent env cp).1 := by
  obtain ⟨hg, hv, hid⟩ := findProposal_some env m _ cp hf
  unfold Machine.uponProposalAndPolkaCurrent at hu
  simp only [Bool.and_eq_true, decide_eq_true_eq] at hu
  obtain ⟨⟨⟨hq, hval⟩, _⟩, _⟩ := hu
  unfold Machine.doProposalAndPolkaCurrent
  by_cases hst : m.state.step = .prevote
  · simp only [hst, beq_self_eq_true, if_true]
    constructor
    · simp only [Option.toList]
      have := XMicro.precommitValue (env := env) (A := A) m
        ({ (Machine.setStepAndSendPrecommit env { m with state := { m.state with lockedValue := some cp.proposal.value, lockedRound := m.state.round } } (some cp.id)).1 with
            state := { (Machine.setStepAndSendPrecommit env { m with state := { m.state with lockedValue := some cp.proposal.value, lockedRound := m.state.round } } (some cp.id)).1.state with
              validValue := some cp.proposal.value,
              validRound := (Machine.setStepAndSendPrecommit env { m with state := { m.state with lockedValue := some cp.proposal.value, lockedRound := m.state.round } } (some cp.id)).1.state.round,
              lockedValueAndOrValidValueSet := true } })
        cp.id hst ⟨cp.proposal, hg, hid.symm, by rw [hid, ← hv]; exact hval⟩ hq
        (by simp [Machine.setStepAndSendPrecommit])
        (by simp [Machine.setStepAndSendPrecommit, hid])
        (by simp [Machine.setStepAndSendPrecommit, Machine.core, hid])
      simpa [Machine.setStepAndSendPrecommit] using this
    · have h0 : MInv env { m with state := { m.state with lockedValue := some cp.proposal.value, lockedRound := m.state.round } } := ⟨hi.vc, hi.cur⟩
      have h1 := sendPrecommit_inv env _ (some cp.id) h0
      exact ⟨h1.vc, h1.cur⟩
  · have hne : (m.state.step == Step.prevote) = false := by simp [hst]
    simp only [hne]
    exact ⟨XMicro.silent _ _ _ (by simp [Machine.core]) rfl rfl (by intro a ha; simp at ha), ⟨hi.vc, hi.cur⟩⟩


theorem doPolkaAny_spec (env : Env) (m : Machine) (hi : MInv env m) :
    XMicro env A m [m.doPolkaAny.2] m.doPolkaAny.1 ∧ MInv env m.doPolkaAny.1 :=
  ⟨XMicro.silent _ _ _ (by simp [Machine.doPolkaAny, Machine.core]) rfl rfl
    (by intro a ha; simp [Machine.doPolkaAny, Machine.scheduleTimeout] at ha; subst ha; trivial),
   ⟨hi.vc, hi.cur⟩⟩

theorem doPrecommitAny_spec (env : Env) (m : Machine) (hi : MInv env m) :
    XMicro env A m [m.doPrecommitAny.2] m.doPrecommitAny.1 ∧ MInv env m.doPrecommitAny.1 :=
  ⟨XMicro.silent _ _ _ (by simp [Machine.doPrecommitAny, Machine.core]) rfl rfl
    (by intro a ha; simp [Machine.doPrecommitAny, Machine.scheduleTimeout] at ha; subst ha; trivial),
   ⟨hi.vc, hi.cur⟩⟩

theorem doPolkaNil_spec (env : Env) (m : Machine) (hu : m.uponPolkaNil = true) (hi : MInv env m) :
    XMicro env A m [(m.doPolkaNil env).2] (m.doPolkaNil env).1 ∧ MInv env (m.doPolkaNil env).1 := by
  unfold Machine.uponPolkaNil at hu
  simp only [Bool.and_eq_true, beq_iff_eq] at hu
  unfold Machine.doPolkaNil
  have hc := sendPrecommit_core env m none
  refine ⟨?_, sendPrecommit_inv env m none hi⟩
  rw [hc.2.2.1]
  exact XMicro.precommitNil m _ hu.2 hc.2.1 hc.2.2.2 hc.1

theorem doCommitValue_spec (env : Env) (m : Machine) (cp : CachedProposal)
    (hf : ∃ r, m.findProposal env r = some cp) (hu : m.uponCommitValue cp = true) (hi : MInv env m) :
    XMicro env A m [(m.doCommitValue env cp).2] (m.doCommitValue env cp).1 ∧
    MInv env (m.doCommitValue env cp).1 := by
  obtain ⟨r, hf⟩ := hf
  obtain ⟨hg, hv, hid⟩ := findProposal_some env m _ cp hf
  obtain ⟨hr, hh, hs⟩ := getProposal_ok env m.vc hi.vc r cp.proposal hg
  unfold Machine.uponCommitValue at hu
  simp only [Bool.and_eq_true] at hu
  have hn := startNewHeight_inv env m.vc hi.vc
  constructor
  · refine XMicro.commit m _ cp.proposal (by rw [hr]; exact hg) (by rw [← hv]; exact hu.2)
      (by rw [← hid]; exact hu.1) (by rw [hh]; exact hi.cur) (by rw [hh, hr]; exact hs) ?_ ?_ ?_
    · simp [Machine.doCommitValue]
    · simp [Machine.doCommitValue]
    · simp [Machine.doCommitValue, Machine.core, State.reset]
  · refine ⟨hn.1, ?_⟩
    simp only [Machine.doCommitValue, State.reset]
    rw [hn.2, hi.cur]

theorem doSkipRound_spec (env : Env) (m : Machine) (r : Round) (hu : m.uponSkipRound r = true)
    (hs : m.isHeightStarted = true) (hi : MInv env m) :
    XChain env A m [(m.doSkipRound env r).2] (m.doSkipRound env r).1 ∧ MInv env (m.doSkipRound env r).1 := by
  unfold Machine.uponSkipRound at hu
  simp only [Bool.and_eq_true, decide_eq_true_eq] at hu
  exact startRound_chain (A := A) env m r hu.1 hs hi

theorem startRound_started (env : Env) (m : Machine) (r : Round) :
    (m.startRound env r).1.isHeightStarted = m.isHeightStarted := by
  unfold Machine.startRound
  simp only
  split
  · split <;> simp [Machine.sendProposal, Machine.resetState]
  · simp [Machine.resetState]

/-- a rule firing that lets the loop continue leaves the height started -/
theorem process_started (env : Env) (m : Machine) (rr : Option Round) (hs : m.isHeightStarted = true)
    (hc : (m.process env rr).2.2 = true) : (m.process env rr).1.isHeightStarted = true := by
  unfold Machine.process at hc ⊢
  split at hc <;> simp only at hc ⊢
  · simpa [Machine.doFirstProposal, Machine.setStepAndSendPrevote] using hs
  · simpa [Machine.doProposalAndPolkaPrevious, Machine.setStepAndSendPrevote] using hs
  · simpa [Machine.doPolkaAny] using hs
  · unfold Machine.doProposalAndPolkaCurrent
    by_cases hst : (m.state.step == Step.prevote) = true
    · simp only [hst, if_true]; simpa [Machine.setStepAndSendPrecommit] using hs
    · simp only [hst]; simpa using hs
  · simpa [Machine.doPolkaNil, Machine.setStepAndSendPrecommit] using hs
  · simpa [Machine.doPrecommitAny] using hs
  · cases hc
  · rw [Machine.doSkipRound, startRound_started]; exact hs
  · cases hc

/-- One evaluation of `process` (for a started height) is a chain of micro-steps. -/
theorem process_chain (env : Env) (m : Machine) (rr : Option Round) (hs : m.isHeightStarted = true)
    (hi : MInv env m) :
    XChain env A m (m.process env rr).2.1.toList (m.process env rr).1 ∧ MInv env (m.process env rr).1 := by
  have hsel := select_spec env m rr
  have sc : ∀ m1, SC m m1 := fun _ => SC.started hs
  unfold Machine.process
  split <;> rename_i heq <;> rw [heq] at hsel <;> simp only [SelSpec] at hsel
  · have := doFirstProposal_spec (A := A) env m _ hsel.1 hsel.2 hi
    exact ⟨XChain.one this.1 (sc _), this.2⟩
  · have := doPolkaPrevious_spec (A := A) env m _ hsel.1 hsel.2 hi
    exact ⟨XChain.one this.1 (sc _), this.2⟩
  · have := doPolkaAny_spec (A := A) env m hi
    exact ⟨XChain.one this.1 (sc _), this.2⟩
  · have := doPolkaCurrent_spec (A := A) env m _ hsel.1 hsel.2 hi
    exact ⟨XChain.one this.1 (sc _), this.2⟩
  · have := doPolkaNil_spec (A := A) env m hsel hi
    exact ⟨XChain.one this.1 (sc _), this.2⟩
  · have := doPrecommitAny_spec (A := A) env m hi
    exact ⟨XChain.one this.1 (sc _), this.2⟩
  · have := doCommitValue_spec (A := A) env m _ hsel.1 hsel.2 hi
    exact ⟨XChain.one this.1 (sc _), this.2⟩
  · exact doSkipRound_spec (A := A) env m _ hsel.2 hs hi
  · exact ⟨XChain.nil m, hi⟩

theorem loop_chain (env : Env) (rr : Option Round) : ∀ (fuel : Nat) (m : Machine) (acc : List Action),
    m.isHeightStarted = true → MInv env m →
    ∃ out, (Machine.processLoopAux env rr fuel m acc).2.1 = acc ++ out ∧
      XChain env A m out (Machine.processLoopAux env rr fuel m acc).1 ∧
      MInv env (Machine.processLoopAux env rr fuel m acc).1 := by
  intro fuel
  induction fuel with
  | zero => intro m acc _ hi; exact ⟨[], by simp [Machine.processLoopAux], XChain.nil m, hi⟩
  | succ n ih =>
    intro m acc hs hi
    have hp := process_chain (A := A) env m rr hs hi
    have hst := process_started env m rr hs
    unfold Machine.processLoopAux
    generalize hpe : m.process env rr = res at hp hst
    obtain ⟨m', a, cont⟩ := res
    simp only at hp hst ⊢
    cases a with
    | none =>
      simp only [Option.toList] at hp
      cases cont with
      | false => exact ⟨[], by simp, hp.1, hp.2⟩
      | true =>
        simp only [if_true]
        obtain ⟨out, h1, h2, h3⟩ := ih m' acc (hst rfl) hp.2
        exact ⟨out, h1, XChain.append hp.1 h2, h3⟩
    | some x =>
      simp only [Option.toList] at hp
      cases cont with
      | false => exact ⟨[x], by simp, hp.1, hp.2⟩
      | true =>
        simp only [if_true]
        obtain ⟨out, h1, h2, h3⟩ := ih m' (acc ++ [x]) (hst rfl) hp.2
        exact ⟨[x] ++ out, by rw [h1, List.append_assoc], XChain.append hp.1 h2, h3⟩

theorem processLoop_chain (env : Env) (m : Machine) (acts : List Action) (rr : Option Round)
    (hs : m.isHeightStarted = true) (hi : MInv env m) :
    ∃ out, (m.processLoop env acts rr).2 = acts ++ out ∧ XChain env A m out (m.processLoop env acts rr).1 ∧
      MInv env (m.processLoop env acts rr).1 := by
  unfold Machine.processLoop
  exact loop_chain (A := A) env rr loopFuel m acts hs hi

theorem silent_wal (env : Env) (m : Machine) (e : WalEntry) : XMicro env A m [.writeWAL e] m :=
  XMicro.silent m m _ rfl rfl rfl (by intro a ha; simp at ha; subst ha; trivial)

theorem processMessage_chain (env : Env) (m : Machine) (h : Height) (r : Round) (w : WalEntry)
    (hs : m.isHeightStarted = true) (hi : MInv env m) :
    XChain env A m (m.processMessage env h r w).2 (m.processMessage env h r w).1 ∧
      MInv env (m.processMessage env h r w).1 := by
  unfold Machine.processMessage
  split
  · exact ⟨XChain.one (silent_wal (A := A) env m w) (SC.same rfl), hi⟩
  · obtain ⟨out, h1, h2, h3⟩ := processLoop_chain (A := A) env m [.writeWAL w] (some r) hs hi
    rw [h1]
    exact ⟨XChain.cons (silent_wal (A := A) env m w) (SC.same rfl) h2, h3⟩

theorem processStart_chain (env : Env) (m : Machine) (r : Round) (hr : 0 ≤ r) (hi : MInv env m) :
    XChain env A m (m.processStart env r).2 (m.processStart env r).1 ∧ MInv env (m.processStart env r).1 := by
  unfold Machine.processStart
  split
  · exact ⟨XChain.nil m, hi⟩
  · rename_i hs
    simp only
    have hi0 : MInv env { m with isHeightStarted := true } := ⟨hi.vc, hi.cur⟩
    have ht := startRound_tail (A := A) env { m with isHeightStarted := true } r hi0
    have hst : (Machine.startRound env { m with isHeightStarted := true } r).1.isHeightStarted = true := by
      rw [startRound_started]
    obtain ⟨out, h1, h2, h3⟩ := processLoop_chain (A := A) env _ [(Machine.startRound env { m with isHeightStarted := true } r).2] none hst ht.2
    rw [h1]
    refine ⟨?_, h3⟩
    have hstart : XMicro env A m [] (Machine.resetState { m with isHeightStarted := true } r) :=
      XMicro.start m _ r (by simpa using hs) hr (by simp [Machine.resetState]) (by simp [Machine.resetState])
        (by simp [Machine.resetState, State.reset, Machine.core])
    have hw := silent_wal (A := A) env m (.start m.state.height)
    have := XChain.cons hw (SC.same rfl) (XChain.cons hstart (Or.inr (Or.inr (by simp [Machine.resetState])))
      (XChain.cons ht.1 (SC.started (by simp [Machine.resetState])) h2))
    simpa using this

/-- storing a received message in the vote counter is a `recv` micro-step -/
theorem recv_vc (env : Env) (m : Machine) (c : VCChange) (hA : A c) :
    XMicro env A m [] { m with vc := c.apply env m.vc } :=
  XMicro.recv m _ c hA rfl rfl rfl

theorem started_of_not (ok s : Bool) (h : ¬ ((!ok || !s) = true)) : s = true := by
  cases ok <;> cases s <;> simp at h ⊢

theorem processProposal_chain (env : Env) (m : Machine) (p : Proposal) (hA : A (.proposal p)) (hi : MInv env m) :
    XChain env A m (m.processProposal env p).2 (m.processProposal env p).1 ∧
      MInv env (m.processProposal env p).1 := by
  unfold Machine.processProposal
  have ha := addProposal_inv env m.vc p hi.vc
  have hrecv := recv_vc (A := A) env m (.proposal p) hA
  simp only [VCChange.apply] at hrecv
  rcases hres : m.vc.addProposal env p with ⟨vc, ok⟩
  rw [hres] at ha hrecv
  simp only at ha hrecv ⊢
  have hi1 : MInv env { m with vc := vc } := ⟨ha.1, by show vc.cur = m.state.height; rw [ha.2.1]; exact hi.cur⟩
  split
  · exact ⟨XChain.one (hrecv) (SC.same rfl), hi1⟩
  · rename_i hc
    have := processMessage_chain (A := A) env { m with vc := vc } p.height p.round (.proposal p) (started_of_not _ _ hc) hi1
    exact ⟨XChain.cons (hrecv) (SC.same rfl) this.1, this.2⟩

theorem processPrevote_chain (env : Env) (m : Machine) (v : Vote) (hA : A (.vote v .prevote)) (hi : MInv env m) :
    XChain env A m (m.processPrevote env v).2 (m.processPrevote env v).1 ∧
      MInv env (m.processPrevote env v).1 := by
  unfold Machine.processPrevote
  have ha := addVote_inv env m.vc v .prevote hi.vc
  have hrecv := recv_vc (A := A) env m (.vote v .prevote) hA
  simp only [VCChange.apply] at hrecv
  rcases hres : m.vc.addVote env v .prevote with ⟨vc, ok⟩
  rw [hres] at ha hrecv
  simp only at ha hrecv ⊢
  have hi1 : MInv env { m with vc := vc } := ⟨ha.1, by show vc.cur = m.state.height; rw [ha.2.1]; exact hi.cur⟩
  split
  · exact ⟨XChain.one (hrecv) (SC.same rfl), hi1⟩
  · rename_i hc
    have := processMessage_chain (A := A) env { m with vc := vc } v.height v.round (.prevote v) (started_of_not _ _ hc) hi1
    exact ⟨XChain.cons (hrecv) (SC.same rfl) this.1, this.2⟩

theorem processPrecommit_chain (env : Env) (m : Machine) (v : Vote) (hA : A (.vote v .precommit))
    (hA2 : A (.futureQ v.height v.round v.id)) (hi : MInv env m) :
    XChain env A m (m.processPrecommit env v).2 (m.processPrecommit env v).1 ∧
      MInv env (m.processPrecommit env v).1 := by
  unfold Machine.processPrecommit
  have ha := addVote_inv env m.vc v .precommit hi.vc
  have hrecv := recv_vc (A := A) env m (.vote v .precommit) hA
  simp only [VCChange.apply] at hrecv
  rcases hres : m.vc.addVote env v .precommit with ⟨vc, ok⟩
  rw [hres] at ha hrecv
  simp only at ha hrecv ⊢
  have hi1 : MInv env { m with vc := vc } := ⟨ha.1, by show vc.cur = m.state.height; rw [ha.2.1]; exact hi.cur⟩
  split
  · exact ⟨XChain.one (hrecv) (SC.same rfl), hi1⟩
  · rename_i hc
    have hst := started_of_not _ _ hc
    split
    · have hf := hasFuturePrecommitQuorum_inv env vc v.height v.round v.id ha.1
      have hrecv2 := recv_vc (A := A) env { m with vc := vc } (.futureQ v.height v.round v.id) hA2
      simp only [VCChange.apply] at hrecv2
      rcases hres2 : vc.hasFuturePrecommitQuorum v.height v.round v.id with ⟨vc2, fq⟩
      rw [hres2] at hf hrecv2
      simp only at hf hrecv2 ⊢
      have hi2 : MInv env { m with vc := vc2 } :=
        ⟨hf.1, by show vc2.cur = m.state.height; rw [hf.2, ha.2.1]; exact hi.cur⟩
      split
      · refine ⟨?_, ⟨hi2.vc, hi2.cur⟩⟩
        have h1 : XMicro env A { m with vc := vc2 }
            [.writeWAL (.precommit v), .triggerSync (max (m.lastTriggerSync + 1) m.state.height) (max m.lastQuorum v.height)]
            { m with vc := vc2, lastQuorum := max m.lastQuorum v.height, lastTriggerSync := max m.lastQuorum v.height } :=
          XMicro.silent _ _ _ rfl rfl rfl (by intro a ha; simp at ha; rcases ha with ha | ha <;> subst ha <;> trivial)
        exact XChain.cons hrecv (SC.same rfl) (XChain.cons hrecv2 (SC.same rfl) (XChain.one h1 (SC.same rfl)))
      · have := processMessage_chain (A := A) env { m with vc := vc2 } v.height v.round (.precommit v) hst hi2
        exact ⟨XChain.cons hrecv (SC.same rfl) (XChain.cons hrecv2 (SC.same rfl) this.1), this.2⟩
    · have := processMessage_chain (A := A) env { m with vc := vc } v.height v.round (.precommit v) hst hi1
      exact ⟨XChain.cons (hrecv) (SC.same rfl) this.1, this.2⟩

theorem onTimeout_chain (env : Env) (m : Machine) (s : Step) (h : Height) (r : Round)
    (hs : m.isHeightStarted = true) (hi : MInv env m) :
    XChain env A m (m.onTimeout env s h r).2 (m.onTimeout env s h r).1 ∧ MInv env (m.onTimeout env s h r).1 ∧
      (m.onTimeout env s h r).1.isHeightStarted = true := by
  unfold Machine.onTimeout
  cases s with
  | propose =>
    simp only
    split
    · rename_i hc
      simp only [Bool.and_eq_true, beq_iff_eq] at hc
      have hcore := sendPrevote_core env m none
      refine ⟨?_, sendPrevote_inv env m none hi, by simpa [Machine.setStepAndSendPrevote] using hs⟩
      have h2 : XMicro env A m [(m.setStepAndSendPrevote env none).2] (m.setStepAndSendPrevote env none).1 := by
        rw [hcore.2.2.1]; exact XMicro.prevote m _ none hc.2 trivial hcore.2.1 hcore.2.2.2 hcore.1
      exact XChain.cons (silent_wal (A := A) env m _) (SC.same rfl) (XChain.one h2 (SC.started hs))
    · exact ⟨XChain.nil m, hi, hs⟩
  | prevote =>
    simp only
    split
    · rename_i hc
      simp only [Bool.and_eq_true, beq_iff_eq] at hc
      have hcore := sendPrecommit_core env m none
      refine ⟨?_, sendPrecommit_inv env m none hi, by simpa [Machine.setStepAndSendPrecommit] using hs⟩
      have h2 : XMicro env A m [(m.setStepAndSendPrecommit env none).2] (m.setStepAndSendPrecommit env none).1 := by
        rw [hcore.2.2.1]; exact XMicro.precommitNil m _ hc.2 hcore.2.1 hcore.2.2.2 hcore.1
      exact XChain.cons (silent_wal (A := A) env m _) (SC.same rfl) (XChain.one h2 (SC.started hs))
    · exact ⟨XChain.nil m, hi, hs⟩
  | precommit =>
    simp only
    split
    · rename_i hc
      unfold Machine.isSameHeightAndRound at hc
      simp only [Bool.and_eq_true, beq_iff_eq] at hc
      have := startRound_chain (A := A) env m (r + 1) (by omega) hs hi
      exact ⟨XChain.cons (silent_wal (A := A) env m _) (SC.same rfl) this.1, this.2, by rw [startRound_started]; exact hs⟩
    · exact ⟨XChain.nil m, hi, hs⟩

theorem processTimeout_chain (env : Env) (m : Machine) (s : Step) (h : Height) (r : Round)
    (hs : m.isHeightStarted = true) (hi : MInv env m) :
    XChain env A m (m.processTimeout env s h r).2 (m.processTimeout env s h r).1 ∧
      MInv env (m.processTimeout env s h r).1 := by
  unfold Machine.processTimeout
  have h1 := onTimeout_chain (A := A) env m s h r hs hi
  generalize m.onTimeout env s h r = res at h1
  obtain ⟨m', acts⟩ := res
  simp only at h1 ⊢
  split
  · rename_i he
    have : acts = [] := by simpa using he
    subst this
    exact ⟨h1.1, h1.2.1⟩
  · obtain ⟨out, e, h2, h3⟩ := processLoop_chain (A := A) env m' acts none h1.2.2 h1.2.1
    rw [e]
    exact ⟨XChain.append h1.1 h2, h3⟩

/-- The driver's discipline for one input: timeouts are only delivered to a started height and a
height is started in a round `≥ 0` (`driver.listen` calls `ProcessStart(0)` right after construction
and after every commit, before anything else; `ProcessWAL` replays the same calls). -/
def InputOK (m : Machine) : Input → Prop
  | .timeout _ _ _ => m.isHeightStarted = true
  | .wal (.timeout _ _ _) => m.isHeightStarted = true
  | .start r => 0 ≤ r
  | _ => True

/-- The vote-counter changes an input may cause by being stored. -/
def RecvOf : Input → VCChange → Prop
  | .proposal p, c => c = .proposal p
  | .prevote v, c => c = .vote v .prevote
  | .precommit v, c => c = .vote v .precommit ∨ c = .futureQ v.height v.round v.id
  | .sync p vs, c => c = .proposal p ∨ ∃ v ∈ vs, c = .vote v .precommit ∨ c = .futureQ v.height v.round v.id
  | .wal (.proposal p), c => c = .proposal p
  | .wal (.prevote v), c => c = .vote v .prevote
  | .wal (.precommit v), c => c = .vote v .precommit ∨ c = .futureQ v.height v.round v.id
  | _, _ => False

theorem processSyncVotes_chain (env : Env) : ∀ (vs : List Vote) (m : Machine) (acc : List Action),
    (∀ v ∈ vs, A (.vote v .precommit) ∧ A (.futureQ v.height v.round v.id)) → MInv env m →
    ∃ out, (Machine.processSyncVotes env m acc vs).2 = acc ++ out ∧
      XChain env A m out (Machine.processSyncVotes env m acc vs).1 ∧
      MInv env (Machine.processSyncVotes env m acc vs).1 := by
  intro vs
  induction vs with
  | nil => intro m acc _ hi; exact ⟨[], by simp [Machine.processSyncVotes], XChain.nil m, hi⟩
  | cons v rest ih =>
    intro m acc hA hi
    have hv := hA v List.mem_cons_self
    have h1 := processPrecommit_chain (A := A) env m v hv.1 hv.2 hi
    simp only [Machine.processSyncVotes]
    obtain ⟨out, e, h2, h3⟩ := ih (m.processPrecommit env v).1 (acc ++ (m.processPrecommit env v).2)
      (fun w hw => hA w (List.mem_cons_of_mem v hw)) h1.2
    exact ⟨(m.processPrecommit env v).2 ++ out, by rw [e, List.append_assoc], XChain.append h1.1 h2, h3⟩

theorem processSync_chain (env : Env) (m : Machine) (p : Proposal) (vs : List Vote)
    (hA : A (.proposal p)) (hAv : ∀ v ∈ vs, A (.vote v .precommit) ∧ A (.futureQ v.height v.round v.id))
    (hi : MInv env m) :
    XChain env A m (m.processSync env p vs).2 (m.processSync env p vs).1 ∧
      MInv env (m.processSync env p vs).1 := by
  unfold Machine.processSync
  have h1 := processProposal_chain (A := A) env m p hA hi
  obtain ⟨out, e, h2, h3⟩ := processSyncVotes_chain (A := A) env vs (m.processProposal env p).1
    (m.processProposal env p).2 hAv h1.2
  simp only
  rw [e]
  exact ⟨XChain.append h1.1 h2, h3⟩

/-- **Every (disciplined) input is a chain of micro-steps.** -/
theorem step_chain (env : Env) (m : Machine) (i : Input) (hA : ∀ c, RecvOf i c → A c) (hok : InputOK m i)
    (hi : MInv env m) :
    XChain env A m (m.step env i).2 (m.step env i).1 ∧ MInv env (m.step env i).1 := by
  cases i with
  | start r => exact processStart_chain (A := A) env m r hok hi
  | proposal p => exact processProposal_chain (A := A) env m p (hA _ rfl) hi
  | prevote v => exact processPrevote_chain (A := A) env m v (hA _ rfl) hi
  | precommit v => exact processPrecommit_chain (A := A) env m v (hA _ (Or.inl rfl)) (hA _ (Or.inr rfl)) hi
  | timeout s h r => exact processTimeout_chain (A := A) env m s h r hok hi
  | sync p vs =>
    exact processSync_chain (A := A) env m p vs (hA _ (Or.inl rfl))
      (fun v hv => ⟨hA _ (Or.inr ⟨v, hv, Or.inl rfl⟩), hA _ (Or.inr ⟨v, hv, Or.inr rfl⟩)⟩) hi
  | wal e =>
    cases e with
    | start h => exact processStart_chain (A := A) env m 0 (Int.le_refl 0) hi
    | proposal p => exact processProposal_chain (A := A) env m p (hA _ rfl) hi
    | prevote v => exact processPrevote_chain (A := A) env m v (hA _ rfl) hi
    | precommit v => exact processPrecommit_chain (A := A) env m v (hA _ (Or.inl rfl)) (hA _ (Or.inr rfl)) hi
    | timeout s h r => exact processTimeout_chain (A := A) env m s h r hok hi

theorem new_MInv (env : Env) (node : Addr) (h : Height) : MInv env (Machine.new env node h) :=
  ⟨new_inv env h, rfl⟩

end Juno.C12
