/-
C12 — `Exec`: executable transcription of juno's Tendermint state machine
(`consensus/tendermint/*.go`) and vote counter (`consensus/votecounter/*.go`).

Core Lean only (linked into `c12drv`). The model follows the code as it is, function by function;
the Go names are kept. Type parameters are instantiated as:
  * `A` (address)  := Nat,  `V` (value) := Nat,  `H` (hash/id) := Nat with `Hash v = v`
    (the code compares values through their ids only; the id is assumed injective),
  * `Height` := Nat, `Round` := Int (Go `int`: negative rounds are representable and reach the
    vote counter), `VotingPower` := Nat with every sum taken modulo 2^64 (`wordMod`); the thresholds `f`, `q` are computed with
    the 64-bit wrap-around arithmetic of Go's `uint` (`fU`, `qU`).
The three interfaces the state machine is parameterised with (`Validators`, `Application`) are the
record `Env`.
-/
namespace Juno.C12

-- Notations (not `abbrev`s) so that `omega` sees plain `Nat` / `Int` in every hypothesis.
scoped notation "Addr" => Nat
scoped notation "Val" => Nat
scoped notation "Height" => Nat
scoped notation "Round" => Int

inductive Step | propose | prevote | precommit
  deriving DecidableEq, Repr, Inhabited

def Step.rank : Step → Nat
  | .propose => 0
  | .prevote => 1
  | .precommit => 2

inductive VoteType | prevote | precommit
  deriving DecidableEq, Repr

structure Proposal where
  height : Height
  round : Round
  sender : Addr
  validRound : Round
  value : Val
  deriving DecidableEq, Repr

structure Vote where
  height : Height
  round : Round
  sender : Addr
  id : Option Val
  deriving DecidableEq, Repr

inductive WalEntry
  | start (h : Height)
  | proposal (p : Proposal)
  | prevote (v : Vote)
  | precommit (v : Vote)
  | timeout (s : Step) (h : Height) (r : Round)
  deriving DecidableEq, Repr

inductive Action
  | writeWAL (e : WalEntry)
  | bcastProposal (p : Proposal)
  | bcastPrevote (v : Vote)
  | bcastPrecommit (v : Vote)
  | schedule (s : Step) (h : Height) (r : Round)
  | commit (p : Proposal)
  | triggerSync (s e : Height)
  deriving DecidableEq, Repr

/-- `votecounter.Validators` + `tendermint.Application`. `appValue k` is what the `k`-th call of
`Application.Value()` returns. -/
structure Env where
  totalPower : Height → Nat
  power : Height → Addr → Nat
  proposer : Height → Round → Addr
  valid : Val → Bool
  appValue : Nat → Val

/-! ## Thresholds (`vote_counter.go:182,187`) -/

/-- `f`: `(totalVotingPower - 1) / 3` on Go's 64-bit `uint` (wraps for 0). -/
def fU (n : UInt64) : UInt64 := (n - 1) / 3

/-- `q`: `totalVotingPower - totalVotingPower/3` on Go's 64-bit `uint` (= `ceil(2N/3)`, cannot
wrap; the code since repo commit 487454a). -/
def qU (n : UInt64) : UInt64 := n - n / 3

/-- `q` as it was before 487454a: `d := n*2; q := d/3; if d%3 > 0 { q++ }` — the product wraps for
`n ≥ 2^63` (kept for the regression witness `qUOld_wraps`). -/
def qUOld (n : UInt64) : UInt64 :=
  let d := n * 2
  let q := d / 3
  let r := d % 3
  if r > 0 then q + 1 else q

/-- The same formulas over unbounded naturals (what the code computes when nothing wraps). -/
def fN (n : Nat) : Nat := (n - 1) / 3

def qN (n : Nat) : Nat :=
  let d := n * 2
  if d % 3 > 0 then d / 3 + 1 else d / 3

def fOf (n : Nat) : Nat := (fU (UInt64.ofNat n)).toNat
def qOf (n : Nat) : Nat := (qU (UInt64.ofNat n)).toNat

/-- Go's `uint` is 64 bits wide: sums of voting powers wrap around at `2^64` (`b.total += addrPower`,
`b.perVoteType[voteType] += addrPower`, `allVotes.total + uncountedProposerPower`). -/
def wordMod : Nat := 2 ^ 64

/-! ## ballot.go -/

structure BallotSet where
  ballots : List (Addr × Bool × Bool)
  perPrevote : Nat
  perPrecommit : Nat
  total : Nat
  deriving Repr

def BallotSet.empty : BallotSet := ⟨[], 0, 0, 0⟩

def lookupA {β : Type} (k : Nat) : List (Nat × β) → Option β
  | [] => none
  | (k', v) :: rest => if k' = k then some v else lookupA k rest

def setA {β : Type} (k : Nat) (v : β) : List (Nat × β) → List (Nat × β)
  | [] => [(k, v)]
  | (k', v') :: rest => if k' = k then (k, v) :: rest else (k', v') :: setA k v rest

def lookupR {β : Type} (k : Int) : List (Int × β) → Option β
  | [] => none
  | (k', v) :: rest => if k' = k then some v else lookupR k rest

def setR {β : Type} (k : Int) (v : β) : List (Int × β) → List (Int × β)
  | [] => [(k, v)]
  | (k', v') :: rest => if k' = k then (k, v) :: rest else (k', v') :: setR k v rest

def flagOf (t : VoteType) (b : Bool × Bool) : Bool :=
  match t with
  | .prevote => b.1
  | .precommit => b.2

def setFlag (t : VoteType) (b : Bool × Bool) : Bool × Bool :=
  match t with
  | .prevote => (true, b.2)
  | .precommit => (b.1, true)

def BallotSet.per (b : BallotSet) : VoteType → Nat
  | .prevote => b.perPrevote
  | .precommit => b.perPrecommit

/-- `ballotSet.add`: returns the new set and whether the ballot was new for this vote type. -/
def BallotSet.add (b : BallotSet) (a : Addr) (pw : Nat) (t : VoteType) : BallotSet × Bool :=
  let b1 : BallotSet :=
    match lookupA a b.ballots with
    | some _ => b
    | none => { b with ballots := setA a (false, false) b.ballots, total := (b.total + pw) % wordMod }
  let cur := (lookupA a b1.ballots).getD (false, false)
  if flagOf t cur then (b1, false)
  else
    let b2 := { b1 with ballots := setA a (setFlag t cur) b1.ballots }
    match t with
    | .prevote => ({ b2 with perPrevote := (b2.perPrevote + pw) % wordMod }, true)
    | .precommit => ({ b2 with perPrecommit := (b2.perPrecommit + pw) % wordMod }, true)

/-! ## round_data.go -/

structure RoundData where
  proposal : Option Proposal
  uncounted : Nat
  perId : List (Val × BallotSet)
  nilVotes : BallotSet
  allVotes : BallotSet
  deriving Repr

def RoundData.empty : RoundData := ⟨none, 0, [], BallotSet.empty, BallotSet.empty⟩

def RoundData.setProposal (r : RoundData) (p : Proposal) (pw : Nat) : RoundData × Bool :=
  match r.proposal with
  | some _ => (r, false)
  | none =>
    let notVoted :=
      match lookupA p.sender r.allVotes.ballots with
      | none => true
      | some b => !b.1 && !b.2
    ({ r with proposal := some p, uncounted := if notVoted then pw else r.uncounted }, true)

def RoundData.addVote (r : RoundData) (v : Vote) (pw : Nat) (t : VoteType) : RoundData × Bool :=
  let unc :=
    match r.proposal with
    | some p => if r.uncounted > 0 ∧ p.sender = v.sender then 0 else r.uncounted
    | none => r.uncounted
  let (all', _) := r.allVotes.add v.sender pw t
  match v.id with
  | some id =>
    let cur := (lookupA id r.perId).getD BallotSet.empty
    let (bs, isNew) := cur.add v.sender pw t
    ({ r with uncounted := unc, allVotes := all', perId := setA id bs r.perId }, isNew)
  | none =>
    let (bs, isNew) := r.nilVotes.add v.sender pw t
    ({ r with uncounted := unc, allVotes := all', nilVotes := bs }, isNew)

def RoundData.countVote (r : RoundData) (t : VoteType) (id : Option Val) : Nat :=
  match id with
  | some i =>
    match lookupA i r.perId with
    | some bs => bs.per t
    | none => 0
  | none => r.nilVotes.per t

def RoundData.countAny (r : RoundData) (t : VoteType) : Nat := r.allVotes.per t

def RoundData.countFutureMessageSenders (r : RoundData) : Nat :=
  (r.allVotes.total + r.uncounted) % wordMod

/-! ## vote_counter.go -/

abbrev RoundMap := List (Round × RoundData)

structure VoteCounter where
  cur : Height
  totalVP : Nat
  faultyVP : Nat
  quorumVP : Nat
  rounds : RoundMap
  future : List (Height × RoundMap)
  deriving Repr

def VoteCounter.new (env : Env) (h : Height) : VoteCounter :=
  let n := env.totalPower h
  ⟨h, n, fOf n, qOf n, [], []⟩

def VoteCounter.startNewHeight (env : Env) (v : VoteCounter) : VoteCounter :=
  let h := v.cur + 1
  let n := env.totalPower h
  let rounds := (lookupA h v.future).getD []
  { cur := h, totalVP := n, faultyVP := fOf n, quorumVP := qOf n, rounds := rounds,
    future := v.future.filter (fun e => e.1 ≠ h) }

/-- `getRoundData` + an update of the entry it returns (the entry, and for a future height the
height's round map, are created when missing — also when the update then changes nothing).
`none`: the height is below the current one. -/
def VoteCounter.withRoundData (v : VoteCounter) (h : Height) (r : Round)
    (upd : RoundData → RoundData × Bool) : Option (VoteCounter × Bool) :=
  if h < v.cur then none
  else if h = v.cur then
    let rd := (lookupR r v.rounds).getD RoundData.empty
    let (rd', ok) := upd rd
    some ({ v with rounds := setR r rd' v.rounds }, ok)
  else
    let rm := (lookupA h v.future).getD []
    let rd := (lookupR r rm).getD RoundData.empty
    let (rd', ok) := upd rd
    some ({ v with future := setA h (setR r rd' rm) v.future }, ok)

def VoteCounter.addProposal (env : Env) (v : VoteCounter) (p : Proposal) : VoteCounter × Bool :=
  match v.withRoundData p.height p.round (fun rd =>
      if p.sender ≠ env.proposer p.height p.round then (rd, false)
      else rd.setProposal p (env.power p.height p.sender)) with
  | none => (v, false)
  | some r => r

def VoteCounter.addVote (env : Env) (v : VoteCounter) (vote : Vote) (t : VoteType) :
    VoteCounter × Bool :=
  match v.withRoundData vote.height vote.round (fun rd =>
      rd.addVote vote (env.power vote.height vote.sender) t) with
  | none => (v, false)
  | some r => r

def VoteCounter.getProposal (v : VoteCounter) (r : Round) : Option Proposal :=
  match lookupR r v.rounds with
  | some rd => rd.proposal
  | none => none

def VoteCounter.hasQuorumForVote (v : VoteCounter) (r : Round) (t : VoteType) (id : Option Val) :
    Bool :=
  match lookupR r v.rounds with
  | some rd => decide (rd.countVote t id ≥ v.quorumVP)
  | none => false

def VoteCounter.hasQuorumForAny (v : VoteCounter) (r : Round) (t : VoteType) : Bool :=
  match lookupR r v.rounds with
  | some rd => decide (rd.countAny t ≥ v.quorumVP)
  | none => false

/-- `HasFuturePrecommitQuorum`: goes through `getRoundData` (creates the entry) and compares with
the quorum of the CURRENT height. -/
def VoteCounter.hasFuturePrecommitQuorum (v : VoteCounter) (h : Height) (r : Round)
    (id : Option Val) : VoteCounter × Bool :=
  match v.withRoundData h r (fun rd => (rd, decide (rd.countVote .precommit id ≥ v.quorumVP))) with
  | none => (v, false)
  | some x => x

def VoteCounter.hasNonFaultyFutureMessage (v : VoteCounter) (r : Round) : Bool :=
  match lookupR r v.rounds with
  | some rd => decide (rd.countFutureMessageSenders > v.faultyVP)
  | none => false

/-! ## tendermint.go -/

structure State where
  height : Height
  round : Round
  step : Step
  lockedValue : Option Val
  lockedRound : Round
  validValue : Option Val
  validRound : Round
  timeoutPrevoteScheduled : Bool
  timeoutPrecommitScheduled : Bool
  lockedValueAndOrValidValueSet : Bool
  deriving Repr

structure Machine where
  nodeAddr : Addr
  state : State
  vc : VoteCounter
  isHeightStarted : Bool
  lastTriggerSync : Height
  lastQuorum : Height
  valueCalls : Nat
  deriving Repr

def Machine.new (env : Env) (node : Addr) (h : Height) : Machine :=
  { nodeAddr := node,
    state := { height := h, round := 0, step := .propose, lockedValue := none, lockedRound := -1,
               validValue := none, validRound := -1, timeoutPrevoteScheduled := false,
               timeoutPrecommitScheduled := false, lockedValueAndOrValidValueSet := false },
    vc := VoteCounter.new env h, isHeightStarted := false, lastTriggerSync := 0, lastQuorum := 0,
    valueCalls := 0 }

structure CachedProposal where
  proposal : Proposal
  valid : Bool
  id : Val

def State.reset (s : State) (r : Round) : State :=
  { s with round := r, step := .propose, timeoutPrevoteScheduled := false,
           lockedValueAndOrValidValueSet := false, timeoutPrecommitScheduled := false }

def Machine.resetState (m : Machine) (r : Round) : Machine := { m with state := m.state.reset r }

def Machine.scheduleTimeout (m : Machine) (s : Step) : Action :=
  .schedule s m.state.height m.state.round

/-! ## broadcast.go -/

def Machine.sendProposal (env : Env) (m : Machine) (value : Val) : Machine × Action :=
  let p : Proposal := ⟨m.state.height, m.state.round, m.nodeAddr, m.state.validRound, value⟩
  ({ m with vc := (m.vc.addProposal env p).1 }, .bcastProposal p)

def Machine.setStepAndSendPrevote (env : Env) (m : Machine) (id : Option Val) : Machine × Action :=
  let v : Vote := ⟨m.state.height, m.state.round, m.nodeAddr, id⟩
  ({ m with vc := (m.vc.addVote env v .prevote).1, state := { m.state with step := .prevote } },
   .bcastPrevote v)

def Machine.setStepAndSendPrecommit (env : Env) (m : Machine) (id : Option Val) :
    Machine × Action :=
  let v : Vote := ⟨m.state.height, m.state.round, m.nodeAddr, id⟩
  ({ m with vc := (m.vc.addVote env v .precommit).1, state := { m.state with step := .precommit } },
   .bcastPrecommit v)

def Machine.startRound (env : Env) (m : Machine) (r : Round) : Machine × Action :=
  let m := m.resetState r
  if env.proposer m.vc.cur r = m.nodeAddr then
    match m.state.validValue with
    | some v => m.sendProposal env v
    | none =>
      let v := env.appValue m.valueCalls
      ({ m with valueCalls := m.valueCalls + 1 }).sendProposal env v
  else (m, m.scheduleTimeout .propose)

def Machine.findProposal (env : Env) (m : Machine) (r : Round) : Option CachedProposal :=
  match m.vc.getProposal r with
  | none => none
  | some p => some ⟨p, env.valid p.value, p.value⟩

/-! ## the rules (`rule_*.go`) -/

/-- `lockedValue != nil && lockedValue.Hash() == id` -/
def lockedIs (s : State) (id : Val) : Bool :=
  match s.lockedValue with
  | some lv => lv == id
  | none => false

-- line 22
def Machine.uponFirstProposal (m : Machine) (cp : CachedProposal) : Bool :=
  cp.proposal.validRound == -1 && m.state.step == .propose

def Machine.doFirstProposal (env : Env) (m : Machine) (cp : CachedProposal) : Machine × Action :=
  let should := cp.valid && (m.state.lockedRound == -1 || lockedIs m.state cp.id)
  m.setStepAndSendPrevote env (if should then some cp.id else none)

-- line 28
def Machine.uponProposalAndPolkaPrevious (m : Machine) (cp : CachedProposal) : Bool :=
  let vr := cp.proposal.validRound
  m.vc.hasQuorumForVote vr .prevote (some cp.id) && m.state.step == .propose &&
    decide (vr ≥ 0) && decide (vr < m.state.round)

def Machine.doProposalAndPolkaPrevious (env : Env) (m : Machine) (cp : CachedProposal) :
    Machine × Action :=
  let should := cp.valid &&
    (decide (m.state.lockedRound ≤ cp.proposal.validRound) || lockedIs m.state cp.id)
  m.setStepAndSendPrevote env (if should then some cp.id else none)

-- line 34
def Machine.uponPolkaAny (m : Machine) : Bool :=
  m.state.step == .prevote && m.vc.hasQuorumForAny m.state.round .prevote &&
    !m.state.timeoutPrevoteScheduled

def Machine.doPolkaAny (m : Machine) : Machine × Action :=
  let m := { m with state := { m.state with timeoutPrevoteScheduled := true } }
  (m, m.scheduleTimeout .prevote)

-- line 36
def Machine.uponProposalAndPolkaCurrent (m : Machine) (cp : CachedProposal) : Bool :=
  m.vc.hasQuorumForVote m.state.round .prevote (some cp.id) && cp.valid &&
    decide (m.state.step.rank ≥ Step.prevote.rank) && !m.state.lockedValueAndOrValidValueSet

def Machine.doProposalAndPolkaCurrent (env : Env) (m : Machine) (cp : CachedProposal) :
    Machine × Option Action :=
  let (m1, act) :=
    if m.state.step == .prevote then
      let m0 := { m with state := { m.state with lockedValue := some cp.proposal.value,
                                                 lockedRound := m.state.round } }
      let (m1, a) := m0.setStepAndSendPrecommit env (some cp.id)
      (m1, some a)
    else (m, none)
  ({ m1 with state := { m1.state with validValue := some cp.proposal.value,
                                      validRound := m1.state.round,
                                      lockedValueAndOrValidValueSet := true } }, act)

-- line 44
def Machine.uponPolkaNil (m : Machine) : Bool :=
  m.vc.hasQuorumForVote m.state.round .prevote none && m.state.step == .prevote

def Machine.doPolkaNil (env : Env) (m : Machine) : Machine × Action :=
  m.setStepAndSendPrecommit env none

-- line 47
def Machine.uponPrecommitAny (m : Machine) : Bool :=
  m.vc.hasQuorumForAny m.state.round .precommit && !m.state.timeoutPrecommitScheduled

def Machine.doPrecommitAny (m : Machine) : Machine × Action :=
  let m := { m with state := { m.state with timeoutPrecommitScheduled := true } }
  (m, m.scheduleTimeout .precommit)

-- line 49
def Machine.uponCommitValue (m : Machine) (cp : CachedProposal) : Bool :=
  m.vc.hasQuorumForVote cp.proposal.round .precommit (some cp.id) && cp.valid

def Machine.doCommitValue (env : Env) (m : Machine) (cp : CachedProposal) : Machine × Action :=
  let vc := m.vc.startNewHeight env
  let s : State := { m.state with height := m.state.height + 1, lockedRound := -1,
                                  lockedValue := none, validRound := -1, validValue := none }
  ({ m with vc := vc, state := s.reset 0, isHeightStarted := false }, .commit cp.proposal)

-- line 55
def Machine.uponSkipRound (m : Machine) (futureR : Round) : Bool :=
  decide (futureR > m.state.round) && m.vc.hasNonFaultyFutureMessage futureR

def Machine.doSkipRound (env : Env) (m : Machine) (futureR : Round) : Machine × Action :=
  m.startRound env futureR

/-! ## process.go -/

/-- Which rule `process` selects (the `switch` of `process.go:141`, in the code's order), with the
cached proposal the rule works on. -/
inductive Sel
  | firstProposal (cp : CachedProposal)
  | polkaPrevious (cp : CachedProposal)
  | polkaAny
  | polkaCurrent (cp : CachedProposal)
  | polkaNil
  | precommitAny
  | commitValue (cp : CachedProposal)
  | skipRound (r : Round)
  | none

def Machine.select (env : Env) (m : Machine) (rr : Option Round) : Sel :=
  let cached := m.findProposal env m.state.round
  let roundCached :=
    match rr with
    | some r => m.findProposal env r
    | none => cached
  match cached.filter m.uponFirstProposal with
  | some cp => .firstProposal cp
  | none =>
  match cached.filter m.uponProposalAndPolkaPrevious with
  | some cp => .polkaPrevious cp
  | none =>
  if m.uponPolkaAny then .polkaAny else
  match cached.filter m.uponProposalAndPolkaCurrent with
  | some cp => .polkaCurrent cp
  | none =>
  if m.uponPolkaNil then .polkaNil else
  if m.uponPrecommitAny then .precommitAny else
  match roundCached.filter m.uponCommitValue with
  | some cp => .commitValue cp
  | none =>
  match rr.filter m.uponSkipRound with
  | some r => .skipRound r
  | none => .none

/-- One evaluation of `process`: new machine, the action (if any), `shouldContinue`. -/
def Machine.process (env : Env) (m : Machine) (rr : Option Round) :
    Machine × Option Action × Bool :=
  match m.select env rr with
  | .firstProposal cp => let (m', a) := m.doFirstProposal env cp; (m', some a, true)
  | .polkaPrevious cp => let (m', a) := m.doProposalAndPolkaPrevious env cp; (m', some a, true)
  | .polkaAny => let (m', a) := m.doPolkaAny; (m', some a, true)
  | .polkaCurrent cp => let (m', a) := m.doProposalAndPolkaCurrent env cp; (m', a, true)
  | .polkaNil => let (m', a) := m.doPolkaNil env; (m', some a, true)
  | .precommitAny => let (m', a) := m.doPrecommitAny; (m', some a, true)
  | .commitValue cp => let (m', a) := m.doCommitValue env cp; (m', some a, false)
  | .skipRound r => let (m', a) := m.doSkipRound env r; (m', some a, true)
  | .none => (m, none, false)

/-- Upper bound on the number of rule firings of one `processLoop` (see `loop_fuel_enough` in
`Proofs.lean`: the loop always stops by itself before the fuel is used up). -/
def loopFuel : Nat := 16

/-- `processLoop`. The Go loop has no bound; the model's loop carries a fuel and reports whether it
ran out (`false` in the last component = the fuel was exhausted, never the case). -/
def Machine.processLoopAux (env : Env) (rr : Option Round) :
    Nat → Machine → List Action → Machine × List Action × Bool
  | 0, m, acc => (m, acc, false)
  | fuel + 1, m, acc =>
    let (m', a, cont) := m.process env rr
    let acc' := match a with
      | some x => acc ++ [x]
      | none => acc
    if cont then Machine.processLoopAux env rr fuel m' acc' else (m', acc', true)

def Machine.processLoop (env : Env) (m : Machine) (acts : List Action) (rr : Option Round) :
    Machine × List Action :=
  let (m', out, _) := Machine.processLoopAux env rr loopFuel m acts
  (m', out)

def Machine.processStart (env : Env) (m : Machine) (r : Round) : Machine × List Action :=
  if m.isHeightStarted then (m, [])
  else
    let m := { m with isHeightStarted := true }
    let (m', a) := m.startRound env r
    -- `startEntry := wal.Start(s.state.height)`: a copy of the height being started (since
    -- f170e6a; before that the entry aliased the state's height field and showed the height
    -- AFTER a commit inside this call).
    let (m'', acts) := m'.processLoop env [a] none
    (m'', .writeWAL (.start m.state.height) :: acts)

def Machine.processMessage (env : Env) (m : Machine) (h : Height) (r : Round) (w : WalEntry) :
    Machine × List Action :=
  if h ≠ m.state.height then (m, [.writeWAL w])
  else m.processLoop env [.writeWAL w] (some r)

def Machine.processProposal (env : Env) (m : Machine) (p : Proposal) : Machine × List Action :=
  let (vc, ok) := m.vc.addProposal env p
  let m := { m with vc := vc }
  if !ok || !m.isHeightStarted then (m, [])
  else m.processMessage env p.height p.round (.proposal p)

def Machine.processPrevote (env : Env) (m : Machine) (v : Vote) : Machine × List Action :=
  let (vc, ok) := m.vc.addVote env v .prevote
  let m := { m with vc := vc }
  if !ok || !m.isHeightStarted then (m, [])
  else m.processMessage env v.height v.round (.prevote v)

def Machine.processPrecommit (env : Env) (m : Machine) (v : Vote) : Machine × List Action :=
  let (vc, ok) := m.vc.addVote env v .precommit
  let m := { m with vc := vc }
  if !ok || !m.isHeightStarted then (m, [])
  else
    -- hasFuturePrecommitQuorum: `&&` short-circuits, the vote counter is only consulted last
    if v.id.isSome && decide (v.height > m.state.height) && decide (v.height > m.lastTriggerSync)
    then
      let (vc', fq) := m.vc.hasFuturePrecommitQuorum v.height v.round v.id
      let m := { m with vc := vc' }
      if fq then
        -- triggerSync
        let lq := max m.lastQuorum v.height
        let start := max (m.lastTriggerSync + 1) m.state.height
        -- (since b154634 the counted precommit is also written to the WAL)
        ({ m with lastQuorum := lq, lastTriggerSync := lq }, [.writeWAL (.precommit v), .triggerSync start lq])
      else m.processMessage env v.height v.round (.precommit v)
    else m.processMessage env v.height v.round (.precommit v)

/-! ## timeout.go -/

def Machine.isSameHeightAndRound (m : Machine) (h : Height) (r : Round) : Bool :=
  m.state.height == h && m.state.round == r

def Machine.onTimeout (env : Env) (m : Machine) (s : Step) (h : Height) (r : Round) :
    Machine × List Action :=
  match s with
  | .propose =>
    if m.isSameHeightAndRound h r && m.state.step == .propose then
      let (m', a) := m.setStepAndSendPrevote env none
      (m', [.writeWAL (.timeout s h r), a])
    else (m, [])
  | .prevote =>
    if m.isSameHeightAndRound h r && m.state.step == .prevote then
      let (m', a) := m.setStepAndSendPrecommit env none
      (m', [.writeWAL (.timeout s h r), a])
    else (m, [])
  | .precommit =>
    if m.isSameHeightAndRound h r then
      let (m', a) := m.startRound env (r + 1)
      (m', [.writeWAL (.timeout s h r), a])
    else (m, [])

/-- `ProcessTimeout` (the Go `switch` has a fall-through `return nil` for an unknown step value;
the three-valued `Step` of the model has no such value, the driver answers `bad-op` for it). -/
def Machine.processTimeout (env : Env) (m : Machine) (s : Step) (h : Height) (r : Round) :
    Machine × List Action :=
  let (m', acts) := m.onTimeout env s h r
  -- since cd6cea9: `if len(timeoutActions) == 0 { return nil }` — a timeout that does not apply any
  -- more (other height, round or step) is no occasion to run the rules (before, the loop ran anyway)
  if acts.isEmpty then (m', []) else m'.processLoop env acts none

/-- `ProcessSync`: `ProcessProposal` followed by `ProcessPrecommit` of every precommit, actions
concatenated. -/
def Machine.processSyncVotes (env : Env) : Machine → List Action → List Vote → Machine × List Action
  | m, acc, [] => (m, acc)
  | m, acc, v :: rest =>
    let (m', a) := m.processPrecommit env v
    Machine.processSyncVotes env m' (acc ++ a) rest

def Machine.processSync (env : Env) (m : Machine) (p : Proposal) (vs : List Vote) :
    Machine × List Action :=
  let (m1, a1) := m.processProposal env p
  Machine.processSyncVotes env m1 a1 vs

/-- `ProcessWAL`: dispatch on the entry type (`wal.Start` starts round 0). -/
def Machine.processWAL (env : Env) (m : Machine) : WalEntry → Machine × List Action
  | .start _ => m.processStart env 0
  | .proposal p => m.processProposal env p
  | .prevote v => m.processPrevote env v
  | .precommit v => m.processPrecommit env v
  | .timeout s h r => m.processTimeout env s h r

/-! ## inputs as data (for sequences of inputs) -/

inductive Input
  | start (r : Round)
  | proposal (p : Proposal)
  | prevote (v : Vote)
  | precommit (v : Vote)
  | timeout (s : Step) (h : Height) (r : Round)
  | sync (p : Proposal) (vs : List Vote)
  | wal (e : WalEntry)
  deriving Repr

def Machine.step (env : Env) (m : Machine) : Input → Machine × List Action
  | .start r => m.processStart env r
  | .proposal p => m.processProposal env p
  | .prevote v => m.processPrevote env v
  | .precommit v => m.processPrecommit env v
  | .timeout s h r => m.processTimeout env s h r
  | .sync p vs => m.processSync env p vs
  | .wal e => m.processWAL env e

/-- Run a sequence of inputs; returns the final machine and all actions in order. -/
def Machine.run (env : Env) (m : Machine) : List Input → Machine × List Action
  | [] => (m, [])
  | i :: rest =>
    let (m1, a1) := m.step env i
    let (m2, a2) := Machine.run env m1 rest
    (m2, a1 ++ a2)

end Juno.C12
