import JunoModel.C12.ModelTrace
import JunoModel.C12.ProofsTrace
/-!
C12 — the computed trace (`ModelTrace.lean`) is the run: its actions are exactly the output of
`Machine.step` / `Machine.run`, and every element `(m1, acts)` is a guarded micro-step taken FROM
`m1` (the recorded state at the moment of emission), so the guards of lines 22–33 / 36 / 49 hold in
that very state.
-/
namespace Juno.C12

/-- the trace element is a guarded micro-step from its recorded state -/
def Justified (env : Env) (e : TraceElem) : Prop := ∃ m2, XMicro env AnyMsg e.1 e.2 m2

theorem traceActions_cons (e : TraceElem) (t : List TraceElem) :
    traceActions (e :: t) = e.2 ++ traceActions t := by
  simp [traceActions]

theorem traceActions_append (a b : List TraceElem) :
    traceActions (a ++ b) = traceActions a ++ traceActions b := by
  simp [traceActions]

theorem traceActions_nil : traceActions [] = [] := rfl

/-! ### the rule loop -/

theorem process_emit (env : Env) (m : Machine) (rr : Option Round) (hs : m.isHeightStarted = true)
    (hi : MInv env m) : Justified env (m.emitState env rr, (m.process env rr).2.1.toList) := by
  have hsel := select_spec env m rr
  unfold Justified Machine.emitState Machine.process
  cases hx : m.select env rr <;> rw [hx] at hsel <;> simp only [SelSpec] at hsel <;> simp only []
  · exact ⟨_, (doFirstProposal_spec (A := AnyMsg) env m _ hsel.1 hsel.2 hi).1⟩
  · exact ⟨_, (doPolkaPrevious_spec (A := AnyMsg) env m _ hsel.1 hsel.2 hi).1⟩
  · exact ⟨_, (doPolkaAny_spec (A := AnyMsg) env m hi).1⟩
  · exact ⟨_, (doPolkaCurrent_spec (A := AnyMsg) env m _ hsel.1 hsel.2 hi).1⟩
  · exact ⟨_, (doPolkaNil_spec (A := AnyMsg) env m hsel hi).1⟩
  · exact ⟨_, (doPrecommitAny_spec (A := AnyMsg) env m hi).1⟩
  · exact ⟨_, (doCommitValue_spec (A := AnyMsg) env m _ hsel.1 hsel.2 hi).1⟩
  · exact ⟨_, (startRound_tail (A := AnyMsg) env m _ hi).1⟩
  · exact ⟨m, XMicro.silent m m [] rfl rfl rfl (fun a ha => by cases ha)⟩

theorem loopTrace_actions (env : Env) (rr : Option Round) : ∀ (fuel : Nat) (m : Machine) (acc : List Action),
    (Machine.processLoopAux env rr fuel m acc).2.1 = acc ++ traceActions (Machine.loopTrace env rr fuel m) := by
  intro fuel
  induction fuel with
  | zero => intro m acc; simp [Machine.processLoopAux, Machine.loopTrace, traceActions]
  | succ n ih =>
    intro m acc
    unfold Machine.processLoopAux Machine.loopTrace
    generalize m.process env rr = res
    obtain ⟨m', a, cont⟩ := res
    simp only [traceActions_cons]
    cases a <;> cases cont <;> simp [ih, traceActions_nil]

theorem loopTrace_justified (env : Env) (rr : Option Round) : ∀ (fuel : Nat) (m : Machine),
    m.isHeightStarted = true → MInv env m → ∀ e ∈ Machine.loopTrace env rr fuel m, Justified env e := by
  intro fuel
  induction fuel with
  | zero => intro m _ _ e he; simp [Machine.loopTrace] at he
  | succ n ih =>
    intro m hs hi e he
    unfold Machine.loopTrace at he
    simp only [List.mem_cons] at he
    rcases he with he | he
    · rw [he]; exact process_emit env m rr hs hi
    · by_cases hc : (m.process env rr).2.2 = true
      · rw [if_pos hc] at he
        exact ih _ (process_started env m rr hs hc) (process_chain (A := AnyMsg) env m rr hs hi).2 e he
      · rw [if_neg hc] at he; cases he

theorem justified_wal (env : Env) (m : Machine) (w : WalEntry) : Justified env (m, [.writeWAL w]) :=
  ⟨m, silent_wal (A := AnyMsg) env m w⟩

/-! ### the entry points -/

theorem processMessageTrace_ok (env : Env) (m : Machine) (h : Height) (r : Round) (w : WalEntry)
    (hs : m.isHeightStarted = true) (hi : MInv env m) :
    traceActions (m.processMessageTrace env h r w) = (m.processMessage env h r w).2 ∧
    ∀ e ∈ m.processMessageTrace env h r w, Justified env e := by
  unfold Machine.processMessageTrace Machine.processMessage
  split
  · exact ⟨by simp [traceActions], fun e he => by simp at he; rw [he]; exact justified_wal env m w⟩
  · constructor
    · simp only [Machine.processLoop, traceActions_cons]
      rw [loopTrace_actions]
    · intro e he
      simp only [List.mem_cons] at he
      rcases he with he | he
      · rw [he]; exact justified_wal env m w
      · exact loopTrace_justified env _ _ m hs hi e he

theorem processStartTrace_ok (env : Env) (m : Machine) (r : Round) (hi : MInv env m) :
    traceActions (m.processStartTrace env r) = (m.processStart env r).2 ∧
    ∀ e ∈ m.processStartTrace env r, Justified env e := by
  unfold Machine.processStartTrace Machine.processStart
  split
  · exact ⟨rfl, fun e he => by cases he⟩
  · have hi0 : MInv env { m with isHeightStarted := true } := ⟨hi.vc, hi.cur⟩
    have ht := startRound_tail (A := AnyMsg) env { m with isHeightStarted := true } r hi0
    have hst : (Machine.startRound env { m with isHeightStarted := true } r).1.isHeightStarted = true := by
      rw [startRound_started]
    constructor
    · simp only [Machine.processLoop, traceActions_cons]
      rw [loopTrace_actions]; simp
    · intro e he
      simp only [List.mem_cons] at he
      rcases he with he | he | he
      · rw [he]; exact justified_wal env m _
      · rw [he]; exact ⟨_, ht.1⟩
      · exact loopTrace_justified env _ _ _ hst ht.2 e he


theorem processProposalTrace_ok (env : Env) (m : Machine) (p : Proposal) (hi : MInv env m) :
    traceActions (m.processProposalTrace env p) = (m.processProposal env p).2 ∧
    ∀ e ∈ m.processProposalTrace env p, Justified env e := by
  unfold Machine.processProposalTrace Machine.processProposal
  have ha := addProposal_inv env m.vc p hi.vc
  rcases hres : m.vc.addProposal env p with ⟨vc, ok⟩
  rw [hres] at ha
  simp only at ha ⊢
  have hi1 : MInv env { m with vc := vc } := ⟨ha.1, by show vc.cur = m.state.height; rw [ha.2.1]; exact hi.cur⟩
  split
  · exact ⟨rfl, fun e he => by cases he⟩
  · rename_i hc
    exact processMessageTrace_ok env { m with vc := vc } p.height p.round (.proposal p) (started_of_not _ _ hc) hi1

theorem processPrevoteTrace_ok (env : Env) (m : Machine) (v : Vote) (hi : MInv env m) :
    traceActions (m.processPrevoteTrace env v) = (m.processPrevote env v).2 ∧
    ∀ e ∈ m.processPrevoteTrace env v, Justified env e := by
  unfold Machine.processPrevoteTrace Machine.processPrevote
  have ha := addVote_inv env m.vc v .prevote hi.vc
  rcases hres : m.vc.addVote env v .prevote with ⟨vc, ok⟩
  rw [hres] at ha
  simp only at ha ⊢
  have hi1 : MInv env { m with vc := vc } := ⟨ha.1, by show vc.cur = m.state.height; rw [ha.2.1]; exact hi.cur⟩
  split
  · exact ⟨rfl, fun e he => by cases he⟩
  · rename_i hc
    exact processMessageTrace_ok env { m with vc := vc } v.height v.round (.prevote v) (started_of_not _ _ hc) hi1

theorem processPrecommitTrace_ok (env : Env) (m : Machine) (v : Vote) (hi : MInv env m) :
    traceActions (m.processPrecommitTrace env v) = (m.processPrecommit env v).2 ∧
    ∀ e ∈ m.processPrecommitTrace env v, Justified env e := by
  unfold Machine.processPrecommitTrace Machine.processPrecommit
  have ha := addVote_inv env m.vc v .precommit hi.vc
  rcases hres : m.vc.addVote env v .precommit with ⟨vc, ok⟩
  rw [hres] at ha
  simp only at ha ⊢
  have hi1 : MInv env { m with vc := vc } := ⟨ha.1, by show vc.cur = m.state.height; rw [ha.2.1]; exact hi.cur⟩
  split
  · exact ⟨rfl, fun e he => by cases he⟩
  · rename_i hc
    have hst := started_of_not _ _ hc
    split
    · have hf := hasFuturePrecommitQuorum_inv env vc v.height v.round v.id ha.1
      rcases hres2 : vc.hasFuturePrecommitQuorum v.height v.round v.id with ⟨vc2, fq⟩
      rw [hres2] at hf
      simp only at hf ⊢
      have hi2 : MInv env { m with vc := vc2 } :=
        ⟨hf.1, by show vc2.cur = m.state.height; rw [hf.2, ha.2.1]; exact hi.cur⟩
      split
      · refine ⟨by simp [traceActions], ?_⟩
        intro e he
        simp at he; rw [he]
        exact ⟨{ m with vc := vc2, lastQuorum := max m.lastQuorum v.height, lastTriggerSync := max m.lastQuorum v.height },
          XMicro.silent _ _ _ rfl rfl rfl (by intro a ha; simp at ha; rcases ha with ha | ha <;> subst ha <;> trivial)⟩
      · exact processMessageTrace_ok env { m with vc := vc2 } v.height v.round (.precommit v) hst hi2
    · exact processMessageTrace_ok env { m with vc := vc } v.height v.round (.precommit v) hst hi1

theorem onTimeoutTrace_ok (env : Env) (m : Machine) (s : Step) (h : Height) (r : Round) (hi : MInv env m) :
    traceActions (m.onTimeoutTrace env s h r) = (m.onTimeout env s h r).2 ∧
    ∀ e ∈ m.onTimeoutTrace env s h r, Justified env e := by
  unfold Machine.onTimeoutTrace Machine.onTimeout
  cases s with
  | propose =>
    simp only
    split
    · rename_i hc
      simp only [Bool.and_eq_true, beq_iff_eq] at hc
      have hcore := sendPrevote_core env m none
      refine ⟨by simp [traceActions], ?_⟩
      intro e he
      simp only [List.mem_cons, List.mem_nil_iff, or_false] at he
      rcases he with he | he
      · rw [he]; exact justified_wal env m _
      · rw [he, hcore.2.2.1]
        exact ⟨_, XMicro.prevote m _ none hc.2 trivial hcore.2.1 hcore.2.2.2 hcore.1⟩
    · exact ⟨rfl, fun e he => by cases he⟩
  | prevote =>
    simp only
    split
    · rename_i hc
      simp only [Bool.and_eq_true, beq_iff_eq] at hc
      have hcore := sendPrecommit_core env m none
      refine ⟨by simp [traceActions], ?_⟩
      intro e he
      simp only [List.mem_cons, List.mem_nil_iff, or_false] at he
      rcases he with he | he
      · rw [he]; exact justified_wal env m _
      · rw [he, hcore.2.2.1]
        exact ⟨_, XMicro.precommitNil m _ hc.2 hcore.2.1 hcore.2.2.2 hcore.1⟩
    · exact ⟨rfl, fun e he => by cases he⟩
  | precommit =>
    simp only
    split
    · refine ⟨by simp [traceActions], ?_⟩
      intro e he
      simp only [List.mem_cons, List.mem_nil_iff, or_false] at he
      rcases he with he | he
      · rw [he]; exact justified_wal env m _
      · rw [he]; exact ⟨_, (startRound_tail (A := AnyMsg) env m (r + 1) hi).1⟩
    · exact ⟨rfl, fun e he => by cases he⟩

theorem processTimeoutTrace_ok (env : Env) (m : Machine) (s : Step) (h : Height) (r : Round)
    (hs : m.isHeightStarted = true) (hi : MInv env m) :
    traceActions (m.processTimeoutTrace env s h r) = (m.processTimeout env s h r).2 ∧
    ∀ e ∈ m.processTimeoutTrace env s h r, Justified env e := by
  unfold Machine.processTimeoutTrace Machine.processTimeout
  have h1 := onTimeoutTrace_ok env m s h r hi
  have h2 := onTimeout_chain (A := AnyMsg) env m s h r hs hi
  by_cases hemp : (m.onTimeout env s h r).2.isEmpty = true
  · simp only [hemp, if_true]
    exact ⟨by simp [traceActions], fun e he => by cases he⟩
  · have hemp' : (m.onTimeout env s h r).2.isEmpty = false := by simpa using hemp
    simp only [hemp', Bool.false_eq_true, if_false]
    constructor
    · simp only [Machine.processLoop, traceActions_append]
      rw [loopTrace_actions, h1.1]
    · intro e he
      rcases List.mem_append.mp he with he | he
      · exact h1.2 e he
      · exact loopTrace_justified env _ _ _ h2.2.2 h2.2.1 e he

theorem processSyncVotesTrace_ok (env : Env) : ∀ (vs : List Vote) (m : Machine) (acc : List Action),
    MInv env m →
    (Machine.processSyncVotes env m acc vs).2 = acc ++ traceActions (Machine.processSyncVotesTrace env m vs) ∧
    ∀ e ∈ Machine.processSyncVotesTrace env m vs, Justified env e := by
  intro vs
  induction vs with
  | nil => intro m acc _; exact ⟨by simp [Machine.processSyncVotes, Machine.processSyncVotesTrace, traceActions], fun e he => by cases he⟩
  | cons v rest ih =>
    intro m acc hi
    have h1 := processPrecommitTrace_ok env m v hi
    have hi' := (processPrecommit_chain (A := AnyMsg) env m v trivial trivial hi).2
    have h2 := ih (m.processPrecommit env v).1 (acc ++ (m.processPrecommit env v).2) hi'
    simp only [Machine.processSyncVotes, Machine.processSyncVotesTrace, traceActions_append]
    constructor
    · rw [h2.1, h1.1, List.append_assoc]
    · intro e he
      rcases List.mem_append.mp he with he | he
      · exact h1.2 e he
      · exact h2.2 e he

theorem processSyncTrace_ok (env : Env) (m : Machine) (p : Proposal) (vs : List Vote) (hi : MInv env m) :
    traceActions (m.processSyncTrace env p vs) = (m.processSync env p vs).2 ∧
    ∀ e ∈ m.processSyncTrace env p vs, Justified env e := by
  unfold Machine.processSyncTrace Machine.processSync
  have h1 := processProposalTrace_ok env m p hi
  have hi' := (processProposal_chain (A := AnyMsg) env m p trivial hi).2
  have h2 := processSyncVotesTrace_ok env vs (m.processProposal env p).1 (m.processProposal env p).2 hi'
  simp only [traceActions_append]
  constructor
  · rw [h2.1, h1.1]
  · intro e he
    rcases List.mem_append.mp he with he | he
    · exact h1.2 e he
    · exact h2.2 e he

/-- **The computed trace of one input is its output, step by step, each step justified in its own
recorded state.** -/
theorem stepTrace_ok (env : Env) (m : Machine) (i : Input) (hok : InputOK m i) (hi : MInv env m) :
    traceActions (m.stepTrace env i) = (m.step env i).2 ∧ ∀ e ∈ m.stepTrace env i, Justified env e := by
  cases i with
  | start r => exact processStartTrace_ok env m r hi
  | proposal p => exact processProposalTrace_ok env m p hi
  | prevote v => exact processPrevoteTrace_ok env m v hi
  | precommit v => exact processPrecommitTrace_ok env m v hi
  | timeout s h r => exact processTimeoutTrace_ok env m s h r hok hi
  | sync p vs => exact processSyncTrace_ok env m p vs hi
  | wal e =>
    cases e with
    | start h => exact processStartTrace_ok env m 0 hi
    | proposal p => exact processProposalTrace_ok env m p hi
    | prevote v => exact processPrevoteTrace_ok env m v hi
    | precommit v => exact processPrecommitTrace_ok env m v hi
    | timeout s h r => exact processTimeoutTrace_ok env m s h r hok hi

theorem runTrace_ok (env : Env) : ∀ (ins : List Input) (m : Machine), MInv env m → Disciplined env m ins →
    traceActions (m.runTrace env ins) = (m.run env ins).2 ∧ ∀ e ∈ m.runTrace env ins, Justified env e := by
  intro ins
  induction ins with
  | nil => intro m _ _; exact ⟨rfl, fun e he => by cases he⟩
  | cons i rest ih =>
    intro m hi hd
    have h1 := stepTrace_ok env m i hd.1 hi
    have hi' := (step_chain (A := AnyMsg) env m i (fun _ _ => trivial) hd.1 hi).2
    have h2 := ih (m.step env i).1 hi' hd.2
    simp only [Machine.runTrace, Machine.run, traceActions_append]
    constructor
    · rw [h1.1, h2.1]
    · intro e he
      rcases List.mem_append.mp he with he | he
      · exact h1.2 e he
      · exact h2.2 e he

end Juno.C12
