import JunoModel.C12.ModelDriver
import JunoModel.C12.ModelNetwork
import JunoModel.C12.ProofsCommitLast
/-!
C12 — round 5: the WAL entry of an input precedes every broadcast / commit the input causes; what
`driver.execute` therefore has made durable at the moment something leaves the node; a height that
is not started buffers its messages.
-/
namespace Juno.C12

/-! ## the WAL entry comes first -/

/-- Walk an action list the way `driver.execute` does; `j`: a WAL entry of (a part of) the input has
been seen. Every action that requires a WAL flush (broadcasts, commit) must come after one. -/
def flushOK (es : List WalEntry) : Bool → List Action → Bool
  | _, [] => true
  | j, .writeWAL e :: rest => flushOK es (j || es.contains e) rest
  | j, a :: rest => (!a.requiresWALFlush || j) && flushOK es j rest

theorem flushOK_true (es : List WalEntry) : ∀ acts, flushOK es true acts = true := by
  intro acts
  induction acts with
  | nil => rfl
  | cons a rest ih => cases a <;> simp [flushOK, ih]

theorem flushOK_mono (es : List WalEntry) : ∀ acts j, flushOK es false acts = true → flushOK es j acts = true := by
  intro acts j h
  cases j with
  | false => exact h
  | true => exact flushOK_true es acts

theorem flushOK_append (es : List WalEntry) : ∀ a b j, flushOK es j a = true → flushOK es false b = true →
    flushOK es j (a ++ b) = true := by
  intro a
  induction a with
  | nil => intro b j _ hb; exact flushOK_mono es b j hb
  | cons x t ih =>
    intro b j ha hb
    cases x with
    | writeWAL e => simp only [List.cons_append, flushOK] at ha ⊢; exact ih b _ ha hb
    | bcastProposal p => simp only [List.cons_append, flushOK, Bool.and_eq_true] at ha ⊢; exact ⟨ha.1, ih b _ ha.2 hb⟩
    | bcastPrevote p => simp only [List.cons_append, flushOK, Bool.and_eq_true] at ha ⊢; exact ⟨ha.1, ih b _ ha.2 hb⟩
    | bcastPrecommit p => simp only [List.cons_append, flushOK, Bool.and_eq_true] at ha ⊢; exact ⟨ha.1, ih b _ ha.2 hb⟩
    | schedule s h r => simp only [List.cons_append, flushOK, Bool.and_eq_true] at ha ⊢; exact ⟨ha.1, ih b _ ha.2 hb⟩
    | commit p => simp only [List.cons_append, flushOK, Bool.and_eq_true] at ha ⊢; exact ⟨ha.1, ih b _ ha.2 hb⟩
    | triggerSync s e => simp only [List.cons_append, flushOK, Bool.and_eq_true] at ha ⊢; exact ⟨ha.1, ih b _ ha.2 hb⟩

/-- the list is empty or starts with the WAL entry `e` -/
def WalFirst (e : WalEntry) (acts : List Action) : Prop :=
  acts = [] ∨ ∃ rest, acts = Action.writeWAL e :: rest

theorem WalFirst.flushOK {e : WalEntry} {acts : List Action} (h : WalFirst e acts) (es : List WalEntry)
    (he : e ∈ es) : flushOK es false acts = true := by
  rcases h with h | ⟨rest, h⟩
  · subst h; rfl
  · subst h
    have : es.contains e = true := by simpa using he
    simp only [Juno.C12.flushOK, this, Bool.or_true]
    exact flushOK_true es rest

theorem processLoop_prefix (env : Env) (m : Machine) (acts : List Action) (rr : Option Round) :
    ∃ out, (m.processLoop env acts rr).2 = acts ++ out := by
  obtain ⟨out, e, _, _⟩ := loop_commit_last env rr loopFuel m acts
  exact ⟨out, e⟩

theorem processMessage_walFirst (env : Env) (m : Machine) (h : Height) (r : Round) (w : WalEntry) :
    WalFirst w (m.processMessage env h r w).2 := by
  unfold Machine.processMessage
  split
  · exact Or.inr ⟨[], rfl⟩
  · obtain ⟨out, e⟩ := processLoop_prefix env m [.writeWAL w] (some r)
    exact Or.inr ⟨out, by rw [e]; rfl⟩

theorem processProposal_walFirst (env : Env) (m : Machine) (p : Proposal) :
    WalFirst (.proposal p) (m.processProposal env p).2 := by
  unfold Machine.processProposal
  simp only
  split
  · exact Or.inl rfl
  · exact processMessage_walFirst env _ _ _ _

theorem processPrevote_walFirst (env : Env) (m : Machine) (v : Vote) :
    WalFirst (.prevote v) (m.processPrevote env v).2 := by
  unfold Machine.processPrevote
  simp only
  split
  · exact Or.inl rfl
  · exact processMessage_walFirst env _ _ _ _

theorem processPrecommit_walFirst (env : Env) (m : Machine) (v : Vote) :
    WalFirst (.precommit v) (m.processPrecommit env v).2 := by
  unfold Machine.processPrecommit
  simp only
  split
  · exact Or.inl rfl
  · split
    · split
      · exact Or.inr ⟨_, rfl⟩
      · exact processMessage_walFirst env _ _ _ _
    · exact processMessage_walFirst env _ _ _ _

theorem processStart_walFirst (env : Env) (m : Machine) (r : Round) :
    WalFirst (.start m.state.height) (m.processStart env r).2 := by
  unfold Machine.processStart
  split
  · exact Or.inl rfl
  · exact Or.inr ⟨_, rfl⟩

theorem onTimeout_walFirst (env : Env) (m : Machine) (s : Step) (h : Height) (r : Round) :
    WalFirst (.timeout s h r) (m.onTimeout env s h r).2 := by
  unfold Machine.onTimeout
  cases s <;> simp only <;> split
  all_goals first | exact Or.inl rfl | exact Or.inr ⟨_, rfl⟩

theorem processTimeout_walFirst (env : Env) (m : Machine) (s : Step) (h : Height) (r : Round) :
    WalFirst (.timeout s h r) (m.processTimeout env s h r).2 := by
  unfold Machine.processTimeout
  have h1 := onTimeout_walFirst env m s h r
  generalize m.onTimeout env s h r = res at h1
  obtain ⟨m', acts⟩ := res
  simp only at h1 ⊢
  split
  · exact Or.inl rfl
  · rename_i hne
    rcases h1 with h1 | ⟨rest, h1⟩
    · subst h1; simp at hne
    · obtain ⟨out, e⟩ := processLoop_prefix env m' acts none
      exact Or.inr ⟨rest ++ out, by rw [e, h1]; rfl⟩

theorem processSyncVotes_flushOK (env : Env) (es : List WalEntry) : ∀ (vs : List Vote) (m : Machine) (acc : List Action),
    (∀ v ∈ vs, WalEntry.precommit v ∈ es) → flushOK es false acc = true →
    flushOK es false (Machine.processSyncVotes env m acc vs).2 = true := by
  intro vs
  induction vs with
  | nil => intro m acc _ h; exact h
  | cons v rest ih =>
    intro m acc hv h
    simp only [Machine.processSyncVotes]
    apply ih
    · intro w hw; exact hv w (List.mem_cons_of_mem _ hw)
    · exact flushOK_append es _ _ _ h ((processPrecommit_walFirst env m v).flushOK es (hv v List.mem_cons_self))

/-- for every machine state and every input: walking the returned list, every broadcast / commit
comes after the WAL entry of the input (for `ProcessSync`: of one of its parts) -/
theorem step_flushOK (env : Env) (m : Machine) (i : Input) :
    flushOK (walEntriesOf m i) false (m.step env i).2 = true := by
  cases i with
  | start r => exact (processStart_walFirst env m r).flushOK _ (by simp [walEntriesOf, walEntryOf])
  | proposal p => exact (processProposal_walFirst env m p).flushOK _ (by simp [walEntriesOf, walEntryOf])
  | prevote v => exact (processPrevote_walFirst env m v).flushOK _ (by simp [walEntriesOf, walEntryOf])
  | precommit v => exact (processPrecommit_walFirst env m v).flushOK _ (by simp [walEntriesOf, walEntryOf])
  | timeout s h r => exact (processTimeout_walFirst env m s h r).flushOK _ (by simp [walEntriesOf, walEntryOf])
  | sync p vs =>
    simp only [Machine.step, Machine.processSync, walEntriesOf]
    apply processSyncVotes_flushOK
    · intro v hv; exact List.mem_cons_of_mem _ (List.mem_map_of_mem hv)
    · exact (processProposal_walFirst env m p).flushOK _ List.mem_cons_self
  | wal e =>
    cases e with
    | start h => exact (processStart_walFirst env m 0).flushOK _ (by simp [walEntriesOf, walEntryOf])
    | proposal p => exact (processProposal_walFirst env m p).flushOK _ (by simp [walEntriesOf, walEntryOf])
    | prevote v => exact (processPrevote_walFirst env m v).flushOK _ (by simp [walEntriesOf, walEntryOf])
    | precommit v => exact (processPrecommit_walFirst env m v).flushOK _ (by simp [walEntriesOf, walEntryOf])
    | timeout s h r => exact (processTimeout_walFirst env m s h r).flushOK _ (by simp [walEntriesOf, walEntryOf])

/-- the readable form of `flushOK`: whatever precedes a flush-requiring action contains a WAL entry
of the input (or one was seen before: `j`) -/
theorem flushOK_split (es : List WalEntry) : ∀ (acts : List Action) (j : Bool), flushOK es j acts = true →
    ∀ pre a post, acts = pre ++ a :: post → a.requiresWALFlush = true →
      j = true ∨ ∃ e, e ∈ es ∧ Action.writeWAL e ∈ pre := by
  intro acts
  induction acts with
  | nil => intro j _ pre a post h; cases pre <;> simp at h
  | cons x t ih =>
    intro j hok pre a post h hf
    cases pre with
    | nil =>
      simp only [List.nil_append, List.cons.injEq] at h
      obtain ⟨hx, _⟩ := h
      subst hx
      cases x <;> simp_all [flushOK, Action.requiresWALFlush]
    | cons y pre' =>
      simp only [List.cons_append, List.cons.injEq] at h
      obtain ⟨hy, ht⟩ := h
      subst hy
      cases x with
      | writeWAL e =>
        simp only [flushOK] at hok
        rcases ih _ hok pre' a post ht hf with h1 | ⟨e', he', hm⟩
        · simp only [Bool.or_eq_true] at h1
          rcases h1 with h1 | h1
          · exact Or.inl h1
          · exact Or.inr ⟨e, by simpa using h1, List.mem_cons_self⟩
        · exact Or.inr ⟨e', he', List.mem_cons_of_mem _ hm⟩
      | bcastProposal p =>
        simp only [flushOK, Bool.and_eq_true] at hok
        rcases ih _ hok.2 pre' a post ht hf with h1 | ⟨e', he', hm⟩
        · exact Or.inl h1
        · exact Or.inr ⟨e', he', List.mem_cons_of_mem _ hm⟩
      | bcastPrevote p =>
        simp only [flushOK, Bool.and_eq_true] at hok
        rcases ih _ hok.2 pre' a post ht hf with h1 | ⟨e', he', hm⟩
        · exact Or.inl h1
        · exact Or.inr ⟨e', he', List.mem_cons_of_mem _ hm⟩
      | bcastPrecommit p =>
        simp only [flushOK, Bool.and_eq_true] at hok
        rcases ih _ hok.2 pre' a post ht hf with h1 | ⟨e', he', hm⟩
        · exact Or.inl h1
        · exact Or.inr ⟨e', he', List.mem_cons_of_mem _ hm⟩
      | schedule s h r =>
        simp only [flushOK, Bool.and_eq_true] at hok
        rcases ih _ hok.2 pre' a post ht hf with h1 | ⟨e', he', hm⟩
        · exact Or.inl h1
        · exact Or.inr ⟨e', he', List.mem_cons_of_mem _ hm⟩
      | commit p =>
        simp only [flushOK, Bool.and_eq_true] at hok
        rcases ih _ hok.2 pre' a post ht hf with h1 | ⟨e', he', hm⟩
        · exact Or.inl h1
        · exact Or.inr ⟨e', he', List.mem_cons_of_mem _ hm⟩
      | triggerSync s e =>
        simp only [flushOK, Bool.and_eq_true] at hok
        rcases ih _ hok.2 pre' a post ht hf with h1 | ⟨e', he', hm⟩
        · exact Or.inl h1
        · exact Or.inr ⟨e', he', List.mem_cons_of_mem _ hm⟩

theorem step_wal_precedes (env : Env) (m : Machine) (i : Input) (pre : List Action) (a : Action)
    (post : List Action) (h : (m.step env i).2 = pre ++ a :: post) (hf : a.requiresWALFlush = true) :
    ∃ e, e ∈ walEntriesOf m i ∧ Action.writeWAL e ∈ pre := by
  rcases flushOK_split _ _ false (step_flushOK env m i) pre a post h hf with h1 | h1
  · cases h1
  · exact h1

/-! ## what `execute` has made durable when something leaves the node -/

/-- `execute(isReplaying = false)` with the store threaded through: every call paired with the store
as it is when the call is made -/
def execTrace : WalStore → List Action → List (DOp × WalStore)
  | _, [] => []
  | w, a :: rest =>
    let w1 := if a.requiresWALFlush then w.apply .flush else w
    let pre := if a.requiresWALFlush then [(DOp.flush, w)] else []
    match a with
    | .writeWAL e => pre ++ (DOp.set e, w1) :: execTrace (w1.apply (.set e)) rest
    | .bcastProposal _ | .bcastPrevote _ | .bcastPrecommit _ => pre ++ (DOp.bcast a, w1) :: execTrace w1 rest
    | .schedule s h r => pre ++ (DOp.sched s h r, w1) :: execTrace w1 rest
    | .commit p =>
      pre ++ [(DOp.onCommit p, w1), (DOp.delete p.height, w1), (DOp.flush, w1.apply (.delete p.height))]
    | .triggerSync s e => pre ++ (DOp.sync s e, w1) :: execTrace w1 rest

/-- `execTrace` makes exactly the calls of `execute false` -/
theorem execTrace_ops : ∀ (acts : List Action) (w : WalStore),
    (execTrace w acts).map Prod.fst = (execute false acts).1 := by
  intro acts
  induction acts with
  | nil => intro w; rfl
  | cons a rest ih =>
    intro w
    cases a <;> simp [execTrace, execute, Action.requiresWALFlush, ih]

/-- a call through which something leaves the node -/
def DOp.isOutput : DOp → Bool
  | .bcast _ => true
  | .onCommit _ => true
  | _ => false

theorem execTrace_durable (es : List WalEntry) : ∀ (acts : List Action) (w : WalStore) (j : Bool),
    flushOK es j acts = true →
    (j = true → ∃ e, e ∈ es ∧ (e ∈ w.durable ∨ e ∈ w.pending)) →
    ∀ o w', (o, w') ∈ execTrace w acts → o.isOutput = true → ∃ e, e ∈ es ∧ e ∈ w'.durable := by
  intro acts
  induction acts with
  | nil => intro w j _ _ o w' h; cases h
  | cons a rest ih =>
    intro w j hok hj o w' hmem hout
    have flushed : ∀ (w : WalStore), (∃ e, e ∈ es ∧ (e ∈ w.durable ∨ e ∈ w.pending)) →
        ∃ e, e ∈ es ∧ e ∈ (w.apply .flush).durable := by
      intro w ⟨e, he, h⟩
      exact ⟨e, he, by simp only [WalStore.apply, List.mem_append]; exact h⟩
    cases a with
    | writeWAL e0 =>
      simp only [execTrace, Action.requiresWALFlush, Bool.false_eq_true, if_false, List.nil_append,
        List.mem_cons] at hmem
      simp only [flushOK] at hok
      rcases hmem with hmem | hmem
      · cases hmem; cases hout
      · refine ih _ _ hok ?_ o w' hmem hout
        intro hj'
        simp only [Bool.or_eq_true] at hj'
        rcases hj' with hj' | hj'
        · obtain ⟨e, he, h⟩ := hj hj'
          refine ⟨e, he, ?_⟩
          simp only [WalStore.apply, List.mem_append]
          rcases h with h | h
          · exact Or.inl h
          · exact Or.inr (Or.inl h)
        · exact ⟨e0, by simpa using hj', Or.inr (by simp [WalStore.apply])⟩
    | bcastProposal p =>
      simp only [flushOK, Action.requiresWALFlush, Bool.not_true, Bool.false_or, Bool.and_eq_true] at hok
      simp only [execTrace, Action.requiresWALFlush, if_true, List.cons_append, List.nil_append, List.mem_cons] at hmem
      have hd := flushed w (hj hok.1)
      rcases hmem with hmem | hmem | hmem
      · cases hmem; cases hout
      · cases hmem; exact hd
      · refine ih _ _ hok.2 (fun _ => ?_) o w' hmem hout
        obtain ⟨e, he, h⟩ := hd
        exact ⟨e, he, Or.inl h⟩
    | bcastPrevote p =>
      simp only [flushOK, Action.requiresWALFlush, Bool.not_true, Bool.false_or, Bool.and_eq_true] at hok
      simp only [execTrace, Action.requiresWALFlush, if_true, List.cons_append, List.nil_append, List.mem_cons] at hmem
      have hd := flushed w (hj hok.1)
      rcases hmem with hmem | hmem | hmem
      · cases hmem; cases hout
      · cases hmem; exact hd
      · refine ih _ _ hok.2 (fun _ => ?_) o w' hmem hout
        obtain ⟨e, he, h⟩ := hd
        exact ⟨e, he, Or.inl h⟩
    | bcastPrecommit p =>
      simp only [flushOK, Action.requiresWALFlush, Bool.not_true, Bool.false_or, Bool.and_eq_true] at hok
      simp only [execTrace, Action.requiresWALFlush, if_true, List.cons_append, List.nil_append, List.mem_cons] at hmem
      have hd := flushed w (hj hok.1)
      rcases hmem with hmem | hmem | hmem
      · cases hmem; cases hout
      · cases hmem; exact hd
      · refine ih _ _ hok.2 (fun _ => ?_) o w' hmem hout
        obtain ⟨e, he, h⟩ := hd
        exact ⟨e, he, Or.inl h⟩
    | schedule s h r =>
      simp only [flushOK, Action.requiresWALFlush, Bool.not_false, Bool.true_or, Bool.true_and] at hok
      simp only [execTrace, Action.requiresWALFlush, Bool.false_eq_true, if_false, List.nil_append, List.mem_cons] at hmem
      rcases hmem with hmem | hmem
      · cases hmem; cases hout
      · exact ih _ _ hok hj o w' hmem hout
    | commit p =>
      simp only [flushOK, Action.requiresWALFlush, Bool.not_true, Bool.false_or, Bool.and_eq_true] at hok
      simp only [execTrace, Action.requiresWALFlush, if_true, List.cons_append, List.nil_append, List.mem_cons,
        List.mem_nil_iff, or_false] at hmem
      have hd := flushed w (hj hok.1)
      rcases hmem with hmem | hmem | hmem | hmem
      · cases hmem; cases hout
      · cases hmem; exact hd
      · cases hmem; cases hout
      · cases hmem; cases hout
    | triggerSync s e =>
      simp only [flushOK, Action.requiresWALFlush, Bool.not_false, Bool.true_or, Bool.true_and] at hok
      simp only [execTrace, Action.requiresWALFlush, Bool.false_eq_true, if_false, List.nil_append, List.mem_cons] at hmem
      rcases hmem with hmem | hmem
      · cases hmem; cases hout
      · exact ih _ _ hok hj o w' hmem hout

/-- `execute` reports a commit iff the list contains one (`hasCommit` of the driver-loop model) -/
theorem execute_reports_commit (b : Bool) : ∀ acts : List Action, (execute b acts).2 = hasCommit acts := by
  intro acts
  induction acts with
  | nil => rfl
  | cons a rest ih =>
    cases a <;> simp [execute, hasCommit, Action.isCommit] <;> simpa [hasCommit] using ih

/-! ## a height that is not started buffers its messages -/

theorem unstarted_buffers (env : Env) (m : Machine) (h : m.isHeightStarted = false) :
    (∀ p, m.processProposal env p = ({ m with vc := (m.vc.addProposal env p).1 }, [])) ∧
    (∀ v, m.processPrevote env v = ({ m with vc := (m.vc.addVote env v .prevote).1 }, [])) ∧
    (∀ v, m.processPrecommit env v = ({ m with vc := (m.vc.addVote env v .precommit).1 }, [])) := by
  refine ⟨fun p => ?_, fun v => ?_, fun v => ?_⟩
  · simp [Machine.processProposal, h]
  · simp [Machine.processPrevote, h]
  · simp [Machine.processPrecommit, h]

end Juno.C12

namespace Juno.C12

/-! ## regression witness for the defect repaired by cd6cea9 -/

/-- `ProcessTimeout` as it was before cd6cea9: the rule loop also ran for a timeout that
`onTimeout*` ignored (no actions, no WAL entry) -/
def Machine.processTimeoutBefore_cd6cea9 (env : Env) (m : Machine) (s : Step) (h : Height) (r : Round) :
    Machine × List Action :=
  let (m', acts) := m.onTimeout env s h r
  m'.processLoop env acts none

/-- Validator 3 (`exEnv`: four validators of power 1, proposer `(h + r) % 4`). Round 0 ends nil with
only two prevotes for 8 seen; round 1 re-proposes 8 with valid round 0, two prevotes and two
precommits of round 1 arrive; then the third round-0 prevote arrives late: handling it (a message of
round 0) the machine prevotes, locks and precommits 8 in round 1 — its OWN precommit completes the
round-1 quorum, but the commit rule is only evaluated for the round of the message just received: the
commit stays pending. -/
def pendingCommitPrefix : List Input :=
  [ .start 0, .proposal ⟨0, 0, 0, -1, 8⟩, .prevote ⟨0, 0, 0, some 8⟩, .prevote ⟨0, 0, 1, none⟩,
    .timeout .prevote 0 0, .precommit ⟨0, 0, 0, none⟩, .precommit ⟨0, 0, 1, none⟩, .timeout .precommit 0 0,
    .proposal ⟨0, 1, 1, 0, 8⟩, .prevote ⟨0, 1, 0, some 8⟩, .prevote ⟨0, 1, 1, some 8⟩,
    .precommit ⟨0, 1, 0, some 8⟩, .precommit ⟨0, 1, 1, some 8⟩, .prevote ⟨0, 0, 2, some 8⟩ ]

end Juno.C12

namespace Juno.C12

/-! ## lock bookkeeping: every value precommit moves the lock to the current round -/

theorem startRound_not_precommit (env : Env) (m : Machine) (r : Round) (v : Vote) :
    (m.startRound env r).2 ≠ Action.bcastPrecommit v := by
  unfold Machine.startRound
  simp only
  split
  · split <;> simp [Machine.sendProposal]
  · simp [Machine.scheduleTimeout]

/-- One rule firing (any machine state): if it broadcasts a precommit for a value `w`, the machine is
afterwards locked on `w` IN ITS CURRENT ROUND — also when `w` is the value it was already locked on in
an earlier round (re-lock) — and valid value / valid round are `w` and the current round; the vote is
for the current height and round. -/
theorem process_value_precommit_locks (env : Env) (m : Machine) (rr : Option Round) (v : Vote) (w : Val)
    (h : (m.process env rr).2.1 = some (Action.bcastPrecommit v)) (hw : v.id = some w) :
    (m.process env rr).1.state.lockedValue = some w ∧ (m.process env rr).1.state.lockedRound = m.state.round ∧
    (m.process env rr).1.state.validValue = some w ∧ (m.process env rr).1.state.validRound = m.state.round ∧
    v.height = m.state.height ∧ v.round = m.state.round := by
  have hs := select_spec env m rr
  unfold Machine.process at h ⊢
  split at h <;> simp only at h ⊢
  · simp [Machine.doFirstProposal, Machine.setStepAndSendPrevote] at h
  · simp [Machine.doProposalAndPolkaPrevious, Machine.setStepAndSendPrevote] at h
  · simp [Machine.doPolkaAny, Machine.scheduleTimeout] at h
  · rename_i cp hsel
    rw [hsel] at hs
    have hid := (findProposal_some env m _ cp hs.1).2.2
    unfold Machine.doProposalAndPolkaCurrent at h ⊢
    by_cases hst : (m.state.step == Step.prevote) = true
    · simp only [hst, if_true, Machine.setStepAndSendPrecommit, Option.some.injEq, Action.bcastPrecommit.injEq] at h ⊢
      subst h
      simp only [Option.some.injEq] at hw
      subst hw
      simp [hid]
    · simp [hst] at h
  · simp only [Machine.doPolkaNil, Machine.setStepAndSendPrecommit, Option.some.injEq, Action.bcastPrecommit.injEq] at h
    subst h
    cases hw
  · simp [Machine.doPrecommitAny, Machine.scheduleTimeout] at h
  · simp [Machine.doCommitValue] at h
  · exfalso
    simp only [Machine.doSkipRound, Option.some.injEq] at h
    exact startRound_not_precommit env m _ v h
  · cases h

end Juno.C12

namespace Juno.C12

/-- validator 3 (`exEnv`) locks 8 in round 0 (polka of 0, 1 and itself), round 0 ends without decision -/
def relockPrefix : List Input :=
  [ .start 0, .proposal ⟨0, 0, 0, -1, 8⟩, .prevote ⟨0, 0, 0, some 8⟩, .prevote ⟨0, 0, 1, some 8⟩,
    .precommit ⟨0, 0, 0, none⟩, .precommit ⟨0, 0, 1, none⟩, .timeout .precommit 0 0 ]

/-- round 1 passes with nil votes; in round 2 the value 8 is re-proposed (valid round 0) and gets a
polka again: validator 3 precommits 8 in round 2 and its lock moves from round 0 to round 2 -/
def relockSuffix : List Input :=
  [ .timeout .propose 0 1, .prevote ⟨0, 1, 0, none⟩, .prevote ⟨0, 1, 1, none⟩,
    .precommit ⟨0, 1, 0, none⟩, .precommit ⟨0, 1, 1, none⟩, .timeout .precommit 0 1,
    .proposal ⟨0, 2, 2, 0, 8⟩, .prevote ⟨0, 2, 0, some 8⟩, .prevote ⟨0, 2, 1, some 8⟩ ]

end Juno.C12
