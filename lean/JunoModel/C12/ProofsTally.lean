import JunoModel.C12.ProofsVC
import JunoModel.C12.ProofsAbstract
/-! C12 — the vote counter is sound: a tally is the voting power of the DISTINCT senders of the
matching votes, hence at most the weight of the validators that are Byzantine or really sent the
vote (`VCJust`), and a reported quorum is a quorum of the global history. -/
namespace Juno.C12
open Juno.C12.Abs

/-! ## ballot sets: the tally is the power of the distinct senders -/

def tally (pw : Addr → Nat) (t : VoteType) (l : List (Addr × Bool × Bool)) : Nat :=
  (l.map (fun e => if flagOf t e.2 then pw e.1 else 0)).sum

def keysA {β : Type} (l : List (Nat × β)) : List Nat := l.map Prod.fst

theorem lookupA_none_of_not_mem {β : Type} (k : Nat) (l : List (Nat × β)) (h : k ∉ keysA l) :
    lookupA k l = none := by
  induction l with
  | nil => rfl
  | cons x t ih =>
    obtain ⟨k', v⟩ := x
    simp only [keysA, List.map_cons, List.mem_cons, not_or] at h
    simp only [lookupA]
    rw [if_neg (fun e => h.1 e.symm)]
    exact ih h.2

theorem mem_keys_of_lookupA {β : Type} (k : Nat) (l : List (Nat × β)) (v : β) (h : lookupA k l = some v) :
    k ∈ keysA l := by
  apply Classical.byContradiction
  intro hn
  rw [lookupA_none_of_not_mem k l hn] at h; cases h

theorem keysA_setA_mem {β : Type} (k : Nat) (v : β) (l : List (Nat × β)) (h : k ∈ keysA l) :
    keysA (setA k v l) = keysA l := by
  induction l with
  | nil => cases h
  | cons x t ih =>
    obtain ⟨k', v'⟩ := x
    by_cases e : k' = k
    · subst e; simp [setA, keysA]
    · simp only [setA, e, if_false, keysA, List.map_cons]
      simp only [keysA, List.map_cons, List.mem_cons] at h
      rcases h with h | h
      · exact (e h.symm).elim
      · have := ih h; simp only [keysA] at this; rw [this]

theorem keysA_setA_not_mem {β : Type} (k : Nat) (v : β) (l : List (Nat × β)) (h : k ∉ keysA l) :
    keysA (setA k v l) = keysA l ++ [k] := by
  induction l with
  | nil => rfl
  | cons x t ih =>
    obtain ⟨k', v'⟩ := x
    simp only [keysA, List.map_cons, List.mem_cons, not_or] at h
    have e : ¬ k' = k := fun e => h.1 e.symm
    simp only [setA, e, if_false, keysA, List.map_cons, List.cons_append]
    have := ih h.2; simp only [keysA] at this; rw [this]

theorem tally_setA_new (pw : Addr → Nat) (t : VoteType) (a : Addr) (f : Bool × Bool)
    (l : List (Addr × Bool × Bool)) (h : a ∉ keysA l) :
    tally pw t (setA a f l) = tally pw t l + (if flagOf t f then pw a else 0) := by
  induction l with
  | nil => simp [setA, tally]
  | cons x tl ih =>
    obtain ⟨k', v'⟩ := x
    simp only [keysA, List.map_cons, List.mem_cons, not_or] at h
    have e : ¬ k' = a := fun e => h.1 e.symm
    simp only [setA, e, if_false, tally, List.map_cons, List.sum_cons]
    have := ih h.2; simp only [tally] at this; rw [this]; omega

/-- replacing the flags of an existing key (keys distinct) -/
theorem tally_setA_old (pw : Addr → Nat) (t : VoteType) (a : Addr) (f f0 : Bool × Bool)
    (l : List (Addr × Bool × Bool)) (hn : (keysA l).Nodup) (h : lookupA a l = some f0) :
    tally pw t (setA a f l) + (if flagOf t f0 then pw a else 0) =
      tally pw t l + (if flagOf t f then pw a else 0) := by
  induction l with
  | nil => cases h
  | cons x tl ih =>
    obtain ⟨k', v'⟩ := x
    simp only [keysA, List.map_cons, List.nodup_cons] at hn
    by_cases e : k' = a
    · subst e
      simp only [lookupA, if_true] at h
      cases h
      simp only [setA, if_true, tally, List.map_cons, List.sum_cons]
      omega
    · simp only [lookupA, e, if_false] at h
      simp only [setA, e, if_false, tally, List.map_cons, List.sum_cons]
      have := ih hn.2 h; simp only [tally] at this; omega


theorem not_mem_keys_of_lookupA_none {β : Type} (k : Nat) (l : List (Nat × β)) (h : lookupA k l = none) :
    k ∉ keysA l := by
  induction l with
  | nil => simp [keysA]
  | cons x t ih =>
    obtain ⟨k', v⟩ := x
    simp only [lookupA] at h
    by_cases e : k' = k
    · rw [if_pos e] at h; cases h
    · rw [if_neg e] at h
      simp only [keysA, List.map_cons, List.mem_cons, not_or]
      exact ⟨fun x => e x.symm, ih h⟩

structure BSJust (pw : Addr → Nat) (J : Addr → VoteType → Prop) (bs : BallotSet) : Prop where
  nodup : (keysA bs.ballots).Nodup
  pv : bs.perPrevote = tally pw .prevote bs.ballots % wordMod
  pc : bs.perPrecommit = tally pw .precommit bs.ballots % wordMod
  just : ∀ a f, lookupA a bs.ballots = some f → ∀ t, flagOf t f = true → J a t

theorem BSJust_empty (pw : Addr → Nat) (J : Addr → VoteType → Prop) : BSJust pw J BallotSet.empty :=
  ⟨List.nodup_nil, rfl, rfl, fun a f h => by simp [BallotSet.empty, lookupA] at h⟩

theorem flagOf_setFlag_same (t : VoteType) (f : Bool × Bool) : flagOf t (setFlag t f) = true := by
  cases t <;> rfl

theorem flagOf_setFlag_other (t t' : VoteType) (f : Bool × Bool) (h : t' ≠ t) :
    flagOf t' (setFlag t f) = flagOf t' f := by
  cases t <;> cases t' <;> first | rfl | exact (h rfl).elim

/-- setting flag `t` of an existing entry whose flag `t` is off -/
theorem BSJust_setFlag (pw : Addr → Nat) (J : Addr → VoteType → Prop) (bs : BallotSet) (a : Addr)
    (t : VoteType) (f0 : Bool × Bool) (hj : BSJust pw J bs) (hl : lookupA a bs.ballots = some f0)
    (hoff : flagOf t f0 = false) (hJ : J a t) :
    (keysA (setA a (setFlag t f0) bs.ballots)).Nodup ∧
    tally pw t (setA a (setFlag t f0) bs.ballots) = tally pw t bs.ballots + pw a ∧
    (∀ t', t' ≠ t → tally pw t' (setA a (setFlag t f0) bs.ballots) = tally pw t' bs.ballots) ∧
    (∀ a' f, lookupA a' (setA a (setFlag t f0) bs.ballots) = some f → ∀ t', flagOf t' f = true → J a' t') := by
  have hmem := mem_keys_of_lookupA a _ _ hl
  refine ⟨by rw [keysA_setA_mem _ _ _ hmem]; exact hj.nodup, ?_, ?_, ?_⟩
  · have := tally_setA_old pw t a (setFlag t f0) f0 bs.ballots hj.nodup hl
    rw [hoff, flagOf_setFlag_same] at this
    simpa using this
  · intro t' hne
    have := tally_setA_old pw t' a (setFlag t f0) f0 bs.ballots hj.nodup hl
    rw [flagOf_setFlag_other t t' f0 hne] at this
    omega
  · intro a' f hl' t' ht'
    by_cases e : a' = a
    · subst e
      rw [lookupA_setA_same] at hl'; cases hl'
      by_cases et : t' = t
      · subst et; exact hJ
      · rw [flagOf_setFlag_other t t' f0 et] at ht'
        exact hj.just a' f0 hl t' ht'
    · rw [lookupA_setA_other _ _ _ _ e] at hl'
      exact hj.just a' f hl' t' ht'

theorem BSJust_ensure (pw : Addr → Nat) (J : Addr → VoteType → Prop) (bs : BallotSet) (a : Addr) (x : Nat)
    (hj : BSJust pw J bs) (hl : lookupA a bs.ballots = none) :
    BSJust pw J { bs with ballots := setA a (false, false) bs.ballots, total := x } := by
  have hnm := not_mem_keys_of_lookupA_none a _ hl
  refine ⟨?_, ?_, ?_, ?_⟩
  · simp only; rw [keysA_setA_not_mem _ _ _ hnm]
    exact List.nodup_append.mpr ⟨hj.nodup, by simp, by
      intro x hx y hy; simp at hy; subst hy; intro e; subst e; exact hnm hx⟩
  · simp only; rw [tally_setA_new _ _ _ _ _ hnm, hj.pv]; simp [flagOf]
  · simp only; rw [tally_setA_new _ _ _ _ _ hnm, hj.pc]; simp [flagOf]
  · intro a' f hl' t' ht'
    simp only at hl'
    by_cases e : a' = a
    · subst e; rw [lookupA_setA_same] at hl'; cases hl'; cases t' <;> simp [flagOf] at ht'
    · rw [lookupA_setA_other _ _ _ _ e] at hl'; exact hj.just a' f hl' t' ht'

theorem BSJust_flag_pv (pw : Addr → Nat) (J : Addr → VoteType → Prop) (bs : BallotSet) (a : Addr)
    (f0 : Bool × Bool) (hj : BSJust pw J bs) (hl : lookupA a bs.ballots = some f0)
    (hoff : flagOf .prevote f0 = false) (hJ : J a .prevote) :
    BSJust pw J { bs with ballots := setA a (setFlag .prevote f0) bs.ballots, perPrevote := (bs.perPrevote + pw a) % wordMod } := by
  obtain ⟨n1, n2, n3, n4⟩ := BSJust_setFlag pw J bs a .prevote f0 hj hl hoff hJ
  exact ⟨n1, by simp only; rw [n2, hj.pv, Nat.mod_add_mod], by simp only; rw [n3 .precommit (by decide), hj.pc], n4⟩

theorem BSJust_flag_pc (pw : Addr → Nat) (J : Addr → VoteType → Prop) (bs : BallotSet) (a : Addr)
    (f0 : Bool × Bool) (hj : BSJust pw J bs) (hl : lookupA a bs.ballots = some f0)
    (hoff : flagOf .precommit f0 = false) (hJ : J a .precommit) :
    BSJust pw J { bs with ballots := setA a (setFlag .precommit f0) bs.ballots, perPrecommit := (bs.perPrecommit + pw a) % wordMod } := by
  obtain ⟨n1, n2, n3, n4⟩ := BSJust_setFlag pw J bs a .precommit f0 hj hl hoff hJ
  exact ⟨n1, by simp only; rw [n3 .prevote (by decide), hj.pv], by simp only; rw [n2, hj.pc, Nat.mod_add_mod], n4⟩

/-- `ballotSet.add` keeps the ballot set justified. -/
theorem BSJust_add (pw : Addr → Nat) (J : Addr → VoteType → Prop) (bs : BallotSet) (a : Addr)
    (t : VoteType) (hj : BSJust pw J bs) (hJ : J a t) : BSJust pw J (bs.add a (pw a) t).1 := by
  unfold BallotSet.add
  cases hl : lookupA a bs.ballots with
  | some f0 =>
    simp only [hl, Option.getD_some]
    by_cases hon : flagOf t f0 = true
    · simp only [hon, if_true]; exact hj
    · have hoff : flagOf t f0 = false := by simpa using hon
      simp only [hoff]
      cases t with
      | prevote => exact BSJust_flag_pv pw J bs a f0 hj hl hoff hJ
      | precommit => exact BSJust_flag_pc pw J bs a f0 hj hl hoff hJ
  | none =>
    simp only [lookupA_setA_same, Option.getD_some]
    have hj1 := BSJust_ensure pw J bs a ((bs.total + pw a) % wordMod) hj hl
    have hl1 : lookupA a ({ bs with ballots := setA a (false, false) bs.ballots, total := (bs.total + pw a) % wordMod } : BallotSet).ballots
        = some (false, false) := lookupA_setA_same _ _ _
    cases t with
    | prevote =>
      simp only [flagOf]
      exact BSJust_flag_pv pw J _ a (false, false) hj1 hl1 rfl hJ
    | precommit =>
      simp only [flagOf]
      exact BSJust_flag_pc pw J _ a (false, false) hj1 hl1 rfl hJ


/-! ### the tally is bounded by the weight of the justified senders -/

theorem wsumL_insert (vals : List Addr) (pw : Addr → Nat) (Q : Addr → Prop) (a : Addr)
    (hn : vals.Nodup) (hq : ¬ Q a) :
    wsumL vals pw (fun x => Q x ∨ x = a) = wsumL vals pw Q + (if a ∈ vals then pw a else 0) := by
  induction vals with
  | nil => simp [wsumL_nil]
  | cons v t ih =>
    simp only [List.nodup_cons] at hn
    have iht := ih hn.2
    by_cases e : v = a
    · subst e
      have hnt : ¬ v ∈ t := hn.1
      rw [wsumL_cons_pos (P := fun x => Q x ∨ x = v) (h := Or.inr rfl), wsumL_cons_neg (P := Q) (h := hq), iht]
      simp [hnt]; omega
    · have hmem : (a ∈ v :: t) ↔ a ∈ t := by
        simp only [List.mem_cons]; constructor
        · intro h; rcases h with h | h
          · exact (e h.symm).elim
          · exact h
        · intro h; exact Or.inr h
      by_cases hv : Q v
      · rw [wsumL_cons_pos (P := fun x => Q x ∨ x = a) (h := Or.inl hv), wsumL_cons_pos (P := Q) (h := hv), iht]
        simp only [hmem]; omega
      · rw [wsumL_cons_neg (P := fun x => Q x ∨ x = a) (h := fun x => x.elim hv e), wsumL_cons_neg (P := Q) (h := hv), iht]
        simp only [hmem]

theorem tally_le_wsum (vals : List Addr) (pw : Addr → Nat) (t : VoteType) (hn : vals.Nodup)
    (hz : ∀ a, a ∉ vals → pw a = 0) :
    ∀ (l : List (Addr × Bool × Bool)), (keysA l).Nodup →
      tally pw t l ≤ wsumL vals pw (fun x => ∃ f, lookupA x l = some f ∧ flagOf t f = true) := by
  intro l
  induction l with
  | nil => intro _; simp [tally]
  | cons e tl ih =>
    obtain ⟨a, f⟩ := e
    intro hk
    simp only [keysA, List.map_cons, List.nodup_cons] at hk
    have iht := ih hk.2
    have hnq : ¬ (∃ f, lookupA a tl = some f ∧ flagOf t f = true) := by
      intro ⟨f', h1, _⟩; exact hk.1 (mem_keys_of_lookupA a tl f' h1)
    simp only [tally, List.map_cons, List.sum_cons]
    by_cases hf : flagOf t f = true
    · -- the head contributes: Q = Q' ∪ {a}
      have hmono : wsumL vals pw (fun x => (∃ f, lookupA x tl = some f ∧ flagOf t f = true) ∨ x = a) ≤
          wsumL vals pw (fun x => ∃ f', lookupA x ((a, f) :: tl) = some f' ∧ flagOf t f' = true) := by
        apply wsumL_mono
        intro x _ hx
        rcases hx with ⟨f', h1, h2⟩ | hx
        · by_cases e : a = x
          · subst e; exact (hnq ⟨f', h1, h2⟩).elim
          · exact ⟨f', by simp only [lookupA, e, if_false]; exact h1, h2⟩
        · subst hx; exact ⟨f, by simp [lookupA], hf⟩
      rw [wsumL_insert vals pw _ a hn hnq] at hmono
      simp only [hf, if_true]
      have : tally pw t tl = (tl.map (fun e => if flagOf t e.2 = true then pw e.1 else 0)).sum := rfl
      by_cases hm : a ∈ vals
      · simp only [hm, if_true] at hmono; omega
      · have := hz a hm; omega
    · have hmono : wsumL vals pw (fun x => ∃ f, lookupA x tl = some f ∧ flagOf t f = true) ≤
          wsumL vals pw (fun x => ∃ f', lookupA x ((a, f) :: tl) = some f' ∧ flagOf t f' = true) := by
        apply wsumL_mono
        intro x _ ⟨f', h1, h2⟩
        by_cases e : a = x
        · subst e; exact (hnq ⟨f', h1, h2⟩).elim
        · exact ⟨f', by simp only [lookupA, e, if_false]; exact h1, h2⟩
      simp only [hf]
      have : tally pw t tl = (tl.map (fun e => if flagOf t e.2 = true then pw e.1 else 0)).sum := rfl
      simp only [Bool.false_eq_true, if_false, Nat.zero_add]
      omega

/-- The number the vote counter compares with the quorum is at most the voting power of the
validators justified for that vote. -/
theorem BSJust_per_le (vals : List Addr) (pw : Addr → Nat) (J : Addr → VoteType → Prop) (bs : BallotSet)
    (t : VoteType) (hn : vals.Nodup) (hz : ∀ a, a ∉ vals → pw a = 0) (hj : BSJust pw J bs) :
    bs.per t ≤ wsumL vals pw (fun a => J a t) := by
  have h1 := tally_le_wsum vals pw t hn hz bs.ballots hj.nodup
  have h2 : wsumL vals pw (fun x => ∃ f, lookupA x bs.ballots = some f ∧ flagOf t f = true) ≤
      wsumL vals pw (fun a => J a t) := by
    apply wsumL_mono
    intro x _ ⟨f, h1, h2⟩
    exact hj.just x f h1 t h2
  have h3 : bs.per t ≤ tally pw t bs.ballots := by
    cases t
    · show bs.perPrevote ≤ _; rw [hj.pv]; exact Nat.mod_le _ _
    · show bs.perPrecommit ≤ _; rw [hj.pc]; exact Nat.mod_le _ _
  omega

open Juno.C12.Abs

/-- vote `(h, r, id)` of type `t` by `a` is justified: `a` is Byzantine or really sent it -/
def VJ (E : AEnv) (H : Hist) (h : Height) (r : Round) (id : Option Val) (a : Addr) : VoteType → Prop
  | .prevote => E.byz a ∨ H.prevote a h r id
  | .precommit => E.byz a ∨ H.precommit a h r id

theorem VJ_mono (E : AEnv) {H H' : Hist} (hle : H.le H') {h r id a t} (hv : VJ E H h r id a t) :
    VJ E H' h r id a t := by
  cases t <;> simp only [VJ] at hv ⊢
  · exact hv.imp (fun x => x) (hle.prevote _ _ _ _)
  · exact hv.imp (fun x => x) (hle.precommit _ _ _ _)

theorem BSJust_mono (pw : Addr → Nat) {J J' : Addr → VoteType → Prop} (hJ : ∀ a t, J a t → J' a t)
    {bs : BallotSet} (hj : BSJust pw J bs) : BSJust pw J' bs :=
  ⟨hj.nodup, hj.pv, hj.pc, fun a f hl t ht => hJ a t (hj.just a f hl t ht)⟩

structure RDJust (E : AEnv) (H : Hist) (h : Height) (r : Round) (rd : RoundData) : Prop where
  perId : ∀ id bs, lookupA id rd.perId = some bs → BSJust (E.power h) (VJ E H h r (some id)) bs
  nil : BSJust (E.power h) (VJ E H h r none) rd.nilVotes
  prop : ∀ p, rd.proposal = some p → E.byz p.sender ∨ H.proposal p.sender p.height p.round p.value

theorem RDJust_mono (E : AEnv) {H H' : Hist} (hle : H.le H') {h r rd} (hj : RDJust E H h r rd) :
    RDJust E H' h r rd :=
  ⟨fun id bs hl => BSJust_mono _ (fun _ _ => VJ_mono E hle) (hj.perId id bs hl),
   BSJust_mono _ (fun _ _ => VJ_mono E hle) hj.nil,
   fun p hp => (hj.prop p hp).imp (fun x => x) (hle.proposal _ _ _ _)⟩

theorem RDJust_empty (E : AEnv) (H : Hist) (h : Height) (r : Round) : RDJust E H h r RoundData.empty :=
  ⟨fun id bs hl => by simp [RoundData.empty, lookupA] at hl, BSJust_empty _ _,
   fun p hp => by simp [RoundData.empty] at hp⟩

theorem RDJust_addVote (E : AEnv) (H : Hist) (h : Height) (r : Round) (rd : RoundData) (v : Vote)
    (t : VoteType) (hj : RDJust E H h r rd) (hv : VJ E H h r v.id v.sender t) :
    RDJust E H h r (rd.addVote v (E.power h v.sender) t).1 := by
  unfold RoundData.addVote
  cases hid : v.id with
  | none =>
    simp only
    rw [hid] at hv
    refine ⟨hj.perId, ?_, hj.prop⟩
    exact BSJust_add (E.power h) _ rd.nilVotes v.sender t hj.nil hv
  | some id =>
    simp only
    rw [hid] at hv
    refine ⟨?_, hj.nil, hj.prop⟩
    intro id' bs hl
    by_cases e : id' = id
    · subst e
      rw [lookupA_setA_same] at hl; cases hl
      have hcur : BSJust (E.power h) (VJ E H h r (some id')) ((lookupA id' rd.perId).getD BallotSet.empty) := by
        cases e2 : lookupA id' rd.perId with
        | none => exact BSJust_empty _ _
        | some b => exact hj.perId id' b e2
      exact BSJust_add (E.power h) _ _ v.sender t hcur hv
    · rw [lookupA_setA_other _ _ _ _ e] at hl
      exact hj.perId id' bs hl

theorem RDJust_setProposal (E : AEnv) (H : Hist) (h : Height) (r : Round) (rd : RoundData) (p : Proposal)
    (pw : Nat) (hj : RDJust E H h r rd)
    (hp : E.byz p.sender ∨ H.proposal p.sender p.height p.round p.value) :
    RDJust E H h r (rd.setProposal p pw).1 := by
  unfold RoundData.setProposal
  split
  · exact hj
  · refine ⟨hj.perId, hj.nil, ?_⟩
    intro q hq
    simp at hq; subst hq; exact hp

/-! ### generic invariant of the round maps -/

def RMAll (Pd : Height → Round → RoundData → Prop) (h : Height) (rm : RoundMap) : Prop :=
  ∀ r rd, lookupR r rm = some rd → Pd h r rd

structure VCAll (Pd : Height → Round → RoundData → Prop) (vc : VoteCounter) : Prop where
  cur : RMAll Pd vc.cur vc.rounds
  fut : ∀ h rm, lookupA h vc.future = some rm → RMAll Pd h rm

theorem RMAll_setR (Pd : Height → Round → RoundData → Prop) (h : Height) (rm : RoundMap) (r : Round)
    (rd : RoundData) (hi : RMAll Pd h rm) (hok : Pd h r rd) : RMAll Pd h (setR r rd rm) := by
  intro r2 rd2 hl
  by_cases e : r2 = r
  · subst e; rw [lookupR_setR_same] at hl; cases hl; exact hok
  · rw [lookupR_setR_other _ _ _ _ e] at hl; exact hi r2 rd2 hl

theorem VCAll_withRoundData (Pd : Height → Round → RoundData → Prop)
    (hempty : ∀ h r, Pd h r RoundData.empty)
    (vc vc' : VoteCounter) (h : Height) (r : Round) (upd : RoundData → RoundData × Bool) (ok : Bool)
    (hupd : ∀ rd, Pd h r rd → Pd h r (upd rd).1)
    (hi : VCAll Pd vc) (hw : vc.withRoundData h r upd = some (vc', ok)) : VCAll Pd vc' := by
  have getD_ok : ∀ rm, RMAll Pd h rm → Pd h r ((lookupR r rm).getD RoundData.empty) := by
    intro rm hrm
    cases e : lookupR r rm with
    | none => exact hempty h r
    | some rd => exact hrm r rd e
  unfold VoteCounter.withRoundData at hw
  split at hw
  · cases hw
  · split at hw
    · rename_i _ heq
      simp only [Option.some.injEq, Prod.mk.injEq] at hw
      obtain ⟨rfl, _⟩ := hw
      subst heq
      exact ⟨RMAll_setR Pd _ _ r _ hi.cur (hupd _ (getD_ok _ hi.cur)), hi.fut⟩
    · simp only [Option.some.injEq, Prod.mk.injEq] at hw
      obtain ⟨rfl, _⟩ := hw
      refine ⟨hi.cur, ?_⟩
      intro h2 rm2 hl
      by_cases e : h2 = h
      · subst e
        rw [lookupA_setA_same] at hl; cases hl
        have hrm : RMAll Pd h2 ((lookupA h2 vc.future).getD []) := by
          cases e2 : lookupA h2 vc.future with
          | none => intro r rd hl; simp [lookupR] at hl
          | some rm => exact hi.fut h2 rm e2
        exact RMAll_setR Pd _ _ r _ hrm (hupd _ (getD_ok _ hrm))
      · rw [lookupA_setA_other _ _ _ _ e] at hl; exact hi.fut h2 rm2 hl

theorem VCAll_startNewHeight (Pd : Height → Round → RoundData → Prop) (env : Env) (vc : VoteCounter)
    (hi : VCAll Pd vc) : VCAll Pd (vc.startNewHeight env) := by
  unfold VoteCounter.startNewHeight
  refine ⟨?_, ?_⟩
  · simp only
    cases e : lookupA (vc.cur + 1) vc.future with
    | none => intro r rd hl; simp [lookupR] at hl
    | some rm => exact hi.fut _ rm e
  · intro h rm hl
    simp only at hl
    by_cases e : h = vc.cur + 1
    · subst e
      exfalso
      have : ∀ (l : List (Nat × RoundMap)), lookupA (vc.cur + 1) (l.filter (fun e => e.1 ≠ vc.cur + 1)) = none := by
        intro l
        induction l with
        | nil => simp [lookupA]
        | cons x t ih =>
          obtain ⟨k', v'⟩ := x
          by_cases hk : k' = vc.cur + 1
          · rw [List.filter_cons_of_neg (by simp [hk])]; exact ih
          · rw [List.filter_cons_of_pos (by simp [hk])]; simp only [lookupA, hk, if_false]; exact ih
      rw [this] at hl; cases hl
    · rw [lookupA_filter_ne _ _ _ e] at hl
      exact hi.fut h rm hl


/-! ### the vote counter of a machine is justified by the global history -/

def VCJust (E : AEnv) (H : Hist) (vc : VoteCounter) : Prop := VCAll (RDJust E H) vc

theorem VCJust_mono (E : AEnv) {H H' : Hist} (hle : H.le H') {vc : VoteCounter} (hj : VCJust E H vc) :
    VCJust E H' vc :=
  ⟨fun r rd hl => RDJust_mono E hle (hj.cur r rd hl),
   fun h rm hl r rd hl2 => RDJust_mono E hle (hj.fut h rm hl r rd hl2)⟩

theorem VCJust_new (E : AEnv) (H : Hist) (env : Env) (h : Height) : VCJust E H (VoteCounter.new env h) :=
  ⟨fun r rd hl => by simp [VoteCounter.new, lookupR] at hl,
   fun h rm hl => by simp [VoteCounter.new, lookupA] at hl⟩

theorem VCJust_addVote (E : AEnv) (H : Hist) (env : Env) (vc : VoteCounter) (v : Vote) (t : VoteType)
    (hpw : env.power v.height v.sender = E.power v.height v.sender)
    (hj : VCJust E H vc) (hv : VJ E H v.height v.round v.id v.sender t) :
    VCJust E H (vc.addVote env v t).1 := by
  unfold VoteCounter.addVote
  split
  · exact hj
  · rename_i x heq
    obtain ⟨vc', ok⟩ := x
    refine VCAll_withRoundData (RDJust E H) (RDJust_empty E H) vc vc' _ _ _ ok ?_ hj heq
    intro rd hrd
    rw [hpw]
    exact RDJust_addVote E H _ _ rd v t hrd hv

theorem VCJust_addProposal (E : AEnv) (H : Hist) (env : Env) (vc : VoteCounter) (p : Proposal)
    (hj : VCJust E H vc) (hp : E.byz p.sender ∨ H.proposal p.sender p.height p.round p.value) :
    VCJust E H (vc.addProposal env p).1 := by
  unfold VoteCounter.addProposal
  split
  · exact hj
  · rename_i x heq
    obtain ⟨vc', ok⟩ := x
    refine VCAll_withRoundData (RDJust E H) (RDJust_empty E H) vc vc' _ _ _ ok ?_ hj heq
    intro rd hrd
    split
    · exact hrd
    · exact RDJust_setProposal E H _ _ rd p _ hrd hp

theorem VCJust_futureQ (E : AEnv) (H : Hist) (vc : VoteCounter) (h : Height) (r : Round) (id : Option Val)
    (hj : VCJust E H vc) : VCJust E H (vc.hasFuturePrecommitQuorum h r id).1 := by
  unfold VoteCounter.hasFuturePrecommitQuorum
  split
  · exact hj
  · rename_i x heq
    obtain ⟨vc', ok⟩ := x
    exact VCAll_withRoundData (RDJust E H) (RDJust_empty E H) vc vc' _ _ _ ok (fun rd hrd => hrd) hj heq

theorem VCJust_startNewHeight (E : AEnv) (H : Hist) (env : Env) (vc : VoteCounter) (hj : VCJust E H vc) :
    VCJust E H (vc.startNewHeight env) :=
  VCAll_startNewHeight (RDJust E H) env vc hj

/-- What the environment of the executable machine and the abstract environment must agree on. -/
structure EnvOK (E : AEnv) (env : Env) (X : Addr → Prop := fun _ => False) : Prop where
  valid : E.valid = env.valid
  proposer : E.proposer = env.proposer
  /-- `X`: sender addresses whose messages never reach the machine (the driver drops them, e.g. the
  sync pseudo-sender on the gossip path, d65a60f); the machine's `Validators` may give them any power -/
  power : ∀ h a, ¬ X a → env.power h a = E.power h a
  total : ∀ h, env.totalPower h = E.N h
  fits : ∀ h, E.N h < 2 ^ 64
  nodup : E.vals.Nodup
  zero : ∀ h a, a ∉ E.vals → E.power h a = 0

/-- A quorum reported by a justified vote counter is a quorum of the global history. -/
theorem VCJust_quorum {X : Addr → Prop} (E : AEnv) (H : Hist) (env : Env) (ok : EnvOK E env X) (wf : E.WF) (vc : VoteCounter)
    (hq : vc.quorumVP = qOf (env.totalPower vc.cur)) (hj : VCJust E H vc) (r : Round) (t : VoteType) (v : Val)
    (hh : vc.hasQuorumForVote r t (some v) = true) :
    qN (E.N vc.cur) ≤ E.wsum vc.cur (fun a => VJ E H vc.cur r (some v) a t) := by
  unfold VoteCounter.hasQuorumForVote at hh
  have hqv : vc.quorumVP = qN (E.N vc.cur) := by
    rw [hq, ok.total, qOf_eq _ (ok.fits _)]
  have hpos : 0 < qN (E.N vc.cur) := qN_pos _ (wf.pos _)
  split at hh
  · rename_i rd hl
    simp only [decide_eq_true_eq] at hh
    have hrd := hj.cur r rd hl
    unfold RoundData.countVote at hh
    simp only at hh
    split at hh
    · rename_i bs hb
      have := BSJust_per_le E.vals (E.power vc.cur) _ bs t ok.nodup (ok.zero _) (hrd.perId v bs hb)
      unfold AEnv.wsum
      omega
    · omega
  · cases hh

theorem VCJust_polka {X : Addr → Prop} (E : AEnv) (H : Hist) (env : Env) (ok : EnvOK E env X) (wf : E.WF) (vc : VoteCounter)
    (hq : vc.quorumVP = qOf (env.totalPower vc.cur)) (hj : VCJust E H vc) (r : Round) (v : Val)
    (hh : vc.hasQuorumForVote r .prevote (some v) = true) : Polka E H vc.cur r v :=
  VCJust_quorum E H env ok wf vc hq hj r .prevote v hh

theorem VCJust_pcq {X : Addr → Prop} (E : AEnv) (H : Hist) (env : Env) (ok : EnvOK E env X) (wf : E.WF) (vc : VoteCounter)
    (hq : vc.quorumVP = qOf (env.totalPower vc.cur)) (hj : VCJust E H vc) (r : Round) (v : Val)
    (hh : vc.hasQuorumForVote r .precommit (some v) = true) : PCQuorum E H vc.cur r v :=
  VCJust_quorum E H env ok wf vc hq hj r .precommit v hh

theorem VCJust_prop (E : AEnv) (H : Hist) (vc : VoteCounter) (hj : VCJust E H vc) (r : Round) (p : Proposal)
    (hg : vc.getProposal r = some p) : E.byz p.sender ∨ H.proposal p.sender p.height p.round p.value := by
  unfold VoteCounter.getProposal at hg
  split at hg
  · rename_i rd hl; exact (hj.cur r rd hl).prop p hg
  · cases hg


end Juno.C12
