import JunoModel.C12.Model
/-!
C12 — the ACTUAL trace of the executable machine: for every input, the list of emitting steps, each
as (state of the machine at the moment of emission, actions emitted by that step), computed by the
same functions as `Machine.step` (no relation, no existential). `ProofsRunTrace.lean` proves that
the concatenated actions are exactly the output of `Machine.step`/`run` and that every element is a
guarded micro-step from ITS recorded state. Core Lean only, executable.
-/
namespace Juno.C12

abbrev TraceElem := Machine × List Action

/-- state in which the action of one `process` iteration is emitted (`startRound` resets the round
variables before it proposes / schedules) -/
def Machine.emitState (env : Env) (m : Machine) (rr : Option Round) : Machine :=
  match m.select env rr with
  | .skipRound r => m.resetState r
  | _ => m

def Machine.loopTrace (env : Env) (rr : Option Round) : Nat → Machine → List TraceElem
  | 0, _ => []
  | fuel + 1, m =>
    let r := m.process env rr
    (m.emitState env rr, r.2.1.toList) :: (if r.2.2 then Machine.loopTrace env rr fuel r.1 else [])

def Machine.processStartTrace (env : Env) (m : Machine) (r : Round) : List TraceElem :=
  if m.isHeightStarted then []
  else
    let m0 := { m with isHeightStarted := true }
    let s := m0.startRound env r
    (m, [.writeWAL (.start m.state.height)]) :: (m0.resetState r, [s.2]) ::
      Machine.loopTrace env none loopFuel s.1

def Machine.processMessageTrace (env : Env) (m : Machine) (h : Height) (r : Round) (w : WalEntry) :
    List TraceElem :=
  if h ≠ m.state.height then [(m, [.writeWAL w])]
  else (m, [.writeWAL w]) :: Machine.loopTrace env (some r) loopFuel m

def Machine.processProposalTrace (env : Env) (m : Machine) (p : Proposal) : List TraceElem :=
  let r := m.vc.addProposal env p
  let m := { m with vc := r.1 }
  if !r.2 || !m.isHeightStarted then [] else m.processMessageTrace env p.height p.round (.proposal p)

def Machine.processPrevoteTrace (env : Env) (m : Machine) (v : Vote) : List TraceElem :=
  let r := m.vc.addVote env v .prevote
  let m := { m with vc := r.1 }
  if !r.2 || !m.isHeightStarted then [] else m.processMessageTrace env v.height v.round (.prevote v)

def Machine.processPrecommitTrace (env : Env) (m : Machine) (v : Vote) : List TraceElem :=
  let r := m.vc.addVote env v .precommit
  let m := { m with vc := r.1 }
  if !r.2 || !m.isHeightStarted then []
  else
    if v.id.isSome && decide (v.height > m.state.height) && decide (v.height > m.lastTriggerSync)
    then
      let f := m.vc.hasFuturePrecommitQuorum v.height v.round v.id
      let m := { m with vc := f.1 }
      if f.2 then
        [(m, [.writeWAL (.precommit v),
              .triggerSync (max (m.lastTriggerSync + 1) m.state.height) (max m.lastQuorum v.height)])]
      else m.processMessageTrace env v.height v.round (.precommit v)
    else m.processMessageTrace env v.height v.round (.precommit v)

def Machine.onTimeoutTrace (env : Env) (m : Machine) (s : Step) (h : Height) (r : Round) :
    List TraceElem :=
  match s with
  | .propose =>
    if m.isSameHeightAndRound h r && m.state.step == .propose then
      [(m, [.writeWAL (.timeout s h r)]), (m, [(m.setStepAndSendPrevote env none).2])]
    else []
  | .prevote =>
    if m.isSameHeightAndRound h r && m.state.step == .prevote then
      [(m, [.writeWAL (.timeout s h r)]), (m, [(m.setStepAndSendPrecommit env none).2])]
    else []
  | .precommit =>
    if m.isSameHeightAndRound h r then
      [(m, [.writeWAL (.timeout s h r)]), (m.resetState (r + 1), [(m.startRound env (r + 1)).2])]
    else []

def Machine.processTimeoutTrace (env : Env) (m : Machine) (s : Step) (h : Height) (r : Round) :
    List TraceElem :=
  if (m.onTimeout env s h r).2.isEmpty then []
  else m.onTimeoutTrace env s h r ++ Machine.loopTrace env none loopFuel (m.onTimeout env s h r).1

def Machine.processSyncVotesTrace (env : Env) : Machine → List Vote → List TraceElem
  | _, [] => []
  | m, v :: rest =>
    m.processPrecommitTrace env v ++ Machine.processSyncVotesTrace env (m.processPrecommit env v).1 rest

def Machine.processSyncTrace (env : Env) (m : Machine) (p : Proposal) (vs : List Vote) : List TraceElem :=
  m.processProposalTrace env p ++ Machine.processSyncVotesTrace env (m.processProposal env p).1 vs

def Machine.stepTrace (env : Env) (m : Machine) : Input → List TraceElem
  | .start r => m.processStartTrace env r
  | .proposal p => m.processProposalTrace env p
  | .prevote v => m.processPrevoteTrace env v
  | .precommit v => m.processPrecommitTrace env v
  | .timeout s h r => m.processTimeoutTrace env s h r
  | .sync p vs => m.processSyncTrace env p vs
  | .wal (.start _) => m.processStartTrace env 0
  | .wal (.proposal p) => m.processProposalTrace env p
  | .wal (.prevote v) => m.processPrevoteTrace env v
  | .wal (.precommit v) => m.processPrecommitTrace env v
  | .wal (.timeout s h r) => m.processTimeoutTrace env s h r

/-- The trace of a whole run: every emitting step with the machine state it was taken in. -/
def Machine.runTrace (env : Env) (m : Machine) : List Input → List TraceElem
  | [] => []
  | i :: rest => m.stepTrace env i ++ Machine.runTrace env (m.step env i).1 rest

def traceActions (t : List TraceElem) : List Action := t.flatMap Prod.snd

end Juno.C12
