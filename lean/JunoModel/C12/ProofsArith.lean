import JunoModel.C12.Model
/-! C12 — arithmetic of the thresholds `f`, `q` (`vote_counter.go:182,187`). -/
namespace Juno.C12

theorem qN_ceil (n : Nat) : 2 * n ≤ 3 * qN n ∧ 3 * qN n < 2 * n + 3 := by
  unfold qN; simp only; split <;> omega

theorem fN_floor (n : Nat) (h : 0 < n) : 3 * fN n < n ∧ n ≤ 3 * fN n + 3 := by
  unfold fN; omega

theorem quorum_intersection_nat (n : Nat) (h : 0 < n) : n + fN n < 2 * qN n := by
  have := qN_ceil n; have := fN_floor n h; omega

theorem qN_le (n : Nat) : qN n ≤ n := by
  have := qN_ceil n; omega

theorem qN_pos (n : Nat) (h : 0 < n) : 0 < qN n := by
  have := qN_ceil n; omega

theorem fOf_eq (n : Nat) (h0 : 0 < n) (h : n < 2 ^ 64) : fOf n = fN n := by
  unfold fOf fU fN
  have : (UInt64.ofNat n - 1) = UInt64.ofNat (n - 1) := by
    apply UInt64.toNat_inj.mp
    simp [UInt64.toNat_sub, UInt64.toNat_ofNat]
    omega
  rw [this]
  simp [UInt64.toNat_div, UInt64.toNat_ofNat]
  omega

theorem qOf_eq (n : Nat) (h : n < 2 ^ 63) : qOf n = qN n := by
  unfold qOf qU qN
  simp only
  have hd : (UInt64.ofNat n * 2).toNat = n * 2 := by
    simp [UInt64.toNat_mul, UInt64.toNat_ofNat]; omega
  have hr : ((UInt64.ofNat n * 2) % 3).toNat = n * 2 % 3 := by
    rw [UInt64.toNat_mod, hd]; rfl
  have hq : ((UInt64.ofNat n * 2) / 3).toNat = n * 2 / 3 := by
    rw [UInt64.toNat_div, hd]; rfl
  have hlt : ((UInt64.ofNat n * 2) % 3 > 0) ↔ (n * 2 % 3 > 0) := by
    rw [gt_iff_lt, UInt64.lt_iff_toNat_lt, hr]; rfl
  by_cases hc : n * 2 % 3 > 0
  · rw [if_pos (hlt.mpr hc), if_pos hc, UInt64.toNat_add, hq]
    simp; omega
  · rw [if_neg (fun x => hc (hlt.mp x)), if_neg hc, hq]

theorem qUFix_eq (n : Nat) (h : n < 2 ^ 64) : (qUFix (UInt64.ofNat n)).toNat = qN n := by
  unfold qUFix qN
  have h1 : (UInt64.ofNat n).toNat = n := by simp; omega
  have hle : UInt64.ofNat n / 3 ≤ UInt64.ofNat n := by
    rw [UInt64.le_iff_toNat_le, UInt64.toNat_div, h1]
    show n / 3 ≤ n
    omega
  rw [UInt64.toNat_sub_of_le _ _ hle, UInt64.toNat_div, h1]
  show n - n / 3 = _
  simp only; split <;> omega

theorem qU_wraps : qU (UInt64.ofNat (2 ^ 63)) = 0 := by
  unfold qU; simp only
  have hd : UInt64.ofNat (2^63) * 2 = 0 := by
    apply UInt64.toNat_inj.mp
    simp
  rw [hd]; rfl

theorem qOf_wraps : qOf (2 ^ 63) = 0 := by
  unfold qOf; rw [qU_wraps]; rfl

end Juno.C12
