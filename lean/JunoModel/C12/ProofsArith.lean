import JunoModel.C12.Model
/-! C12 — arithmetic of the thresholds `f`, `q` (`vote_counter.go:182,187`). -/
namespace Juno.C12

theorem qN_ceil (n : Nat) : 2 * n ≤ 3 * qN n ∧ 3 * qN n < 2 * n + 3 := by
  unfold qN; simp only; split <;> omega

theorem fN_floor (n : Nat) (h : 0 < n) : 3 * fN n < n ∧ n ≤ 3 * fN n + 3 := by
  unfold fN; omega

theorem quorum_intersection_nat (n : Nat) (h : 0 < n) : n + fN n < 2 * qN n := by
  have := qN_ceil n; have := fN_floor n h; omega

theorem qN_le (n : Nat) : qN n ≤ n := by
  have := qN_ceil n; omega

theorem qN_pos (n : Nat) (h : 0 < n) : 0 < qN n := by
  have := qN_ceil n; omega

theorem fOf_eq (n : Nat) (h0 : 0 < n) (h : n < 2 ^ 64) : fOf n = fN n := by
  unfold fOf fU fN
  have : (UInt64.ofNat n - 1) = UInt64.ofNat (n - 1) := by
    apply UInt64.toNat_inj.mp
    simp [UInt64.toNat_sub, UInt64.toNat_ofNat]
    omega
  rw [this]
  simp [UInt64.toNat_div, UInt64.toNat_ofNat]
  omega

theorem qOf_eq (n : Nat) (h : n < 2 ^ 64) : qOf n = qN n := by
  unfold qOf qU qN
  have h1 : (UInt64.ofNat n).toNat = n := by simp; omega
  have hle : UInt64.ofNat n / 3 ≤ UInt64.ofNat n := by
    rw [UInt64.le_iff_toNat_le, UInt64.toNat_div, h1]
    show n / 3 ≤ n
    omega
  rw [UInt64.toNat_sub_of_le _ _ hle, UInt64.toNat_div, h1]
  show n - n / 3 = _
  simp only; split <;> omega

/-- regression witness for the defect repaired by 487454a: the former formula gave `q = 0` for
`N = 2^63` -/
theorem qUOld_wraps : qUOld (UInt64.ofNat (2 ^ 63)) = 0 := by
  unfold qUOld; simp only
  have hd : UInt64.ofNat (2^63) * 2 = 0 := by
    apply UInt64.toNat_inj.mp
    simp
  rw [hd]; rfl

end Juno.C12
