import JunoModel.C12.ModelAbstract
import JunoModel.C12.ProofsArith
/-!
C12 — proofs about `Abstract`: weighted quorum intersection, the per-process invariants
(one vote per round, precommit justified by a polka, the lock invariant, the unlock fact), and
agreement + validity for every reachable state.
-/
namespace Juno.C12.Abs
open Juno.C12

section wsum
variable (E : AEnv) (h : Height)

theorem wsumL_nil (pw : Addr → Nat) (P : Addr → Prop) : wsumL [] pw P = 0 := rfl

theorem wsumL_cons (a : Addr) (t : List Addr) (pw : Addr → Nat) (P : Addr → Prop) :
    wsumL (a :: t) pw P = (@ite Nat (P a) (Classical.propDecidable (P a)) (pw a) 0) + wsumL t pw P := by
  simp [wsumL]

theorem wsumL_cons_pos (a : Addr) (t : List Addr) (pw : Addr → Nat) (P : Addr → Prop) (h : P a) :
    wsumL (a :: t) pw P = pw a + wsumL t pw P := by
  rw [wsumL_cons]; simp [h]

theorem wsumL_cons_neg (a : Addr) (t : List Addr) (pw : Addr → Nat) (P : Addr → Prop) (h : ¬ P a) :
    wsumL (a :: t) pw P = wsumL t pw P := by
  rw [wsumL_cons]; simp [h]

theorem wsumL_mono (l : List Addr) (pw : Addr → Nat) (P Q : Addr → Prop) (hpq : ∀ a ∈ l, P a → Q a) :
    wsumL l pw P ≤ wsumL l pw Q := by
  induction l with
  | nil => simp [wsumL_nil]
  | cons a t ih =>
    have h1 := ih (fun b hb => hpq b (List.mem_cons_of_mem a hb))
    have h2 := hpq a List.mem_cons_self
    by_cases hp : P a
    · have hq := h2 hp
      rw [wsumL_cons_pos _ _ _ _ hp, wsumL_cons_pos _ _ _ _ hq]; omega
    · rw [wsumL_cons_neg _ _ _ _ hp]
      by_cases hq : Q a
      · rw [wsumL_cons_pos _ _ _ _ hq]; omega
      · rw [wsumL_cons_neg _ _ _ _ hq]; omega

theorem wsumL_add (l : List Addr) (pw : Addr → Nat) (P Q : Addr → Prop) :
    wsumL l pw P + wsumL l pw Q = wsumL l pw (fun a => P a ∨ Q a) + wsumL l pw (fun a => P a ∧ Q a) := by
  induction l with
  | nil => simp [wsumL_nil]
  | cons a t ih =>
    by_cases hp : P a <;> by_cases hq : Q a
    · rw [wsumL_cons_pos _ _ _ _ hp, wsumL_cons_pos _ _ _ _ hq,
        wsumL_cons_pos (P := fun a => P a ∨ Q a) (h := (Or.inl hp)), wsumL_cons_pos (P := fun a => P a ∧ Q a) (h := ⟨hp, hq⟩)]; omega
    · rw [wsumL_cons_pos _ _ _ _ hp, wsumL_cons_neg _ _ _ _ hq,
        wsumL_cons_pos (P := fun a => P a ∨ Q a) (h := (Or.inl hp)), wsumL_cons_neg (P := fun a => P a ∧ Q a) (h := (fun x => hq x.2))]; omega
    · rw [wsumL_cons_neg _ _ _ _ hp, wsumL_cons_pos _ _ _ _ hq,
        wsumL_cons_pos (P := fun a => P a ∨ Q a) (h := (Or.inr hq)), wsumL_cons_neg (P := fun a => P a ∧ Q a) (h := (fun x => hp x.1))]; omega
    · rw [wsumL_cons_neg _ _ _ _ hp, wsumL_cons_neg _ _ _ _ hq,
        wsumL_cons_neg (P := fun a => P a ∨ Q a) (h := (fun x => x.elim hp hq)), wsumL_cons_neg (P := fun a => P a ∧ Q a) (h := (fun x => hp x.1))]; omega

theorem wsum_mono (P Q : Addr → Prop) (hpq : ∀ a ∈ E.vals, P a → Q a) : E.wsum h P ≤ E.wsum h Q := by
  unfold AEnv.wsum; exact wsumL_mono _ _ _ _ hpq

theorem wsum_le_N (P : Addr → Prop) : E.wsum h P ≤ E.N h :=
  wsum_mono E h P _ (fun _ _ _ => trivial)

theorem wsum_add (P Q : Addr → Prop) :
    E.wsum h P + E.wsum h Q = E.wsum h (fun a => P a ∨ Q a) + E.wsum h (fun a => P a ∧ Q a) := by
  unfold AEnv.wsum; exact wsumL_add _ _ _ _

/-- QI: two sets of validators of power ≥ q share a correct validator. -/
theorem quorum_intersect (wf : E.WF) (P Q : Addr → Prop)
    (hP : qN (E.N h) ≤ E.wsum h P) (hQ : qN (E.N h) ≤ E.wsum h Q) :
    ∃ a, a ∈ E.vals ∧ P a ∧ Q a ∧ ¬ E.byz a := by
  apply Classical.byContradiction
  intro hne
  have hall : ∀ a ∈ E.vals, (P a ∧ Q a) → E.byz a := by
    intro a ha hpq
    apply Classical.byContradiction
    intro hb
    exact hne ⟨a, ha, hpq.1, hpq.2, hb⟩
  have h1 := wsum_mono E h _ _ hall
  have h2 := wf.byzBound h
  have h3 := wsum_add E h P Q
  have h4 := wsum_le_N E h (fun a => P a ∨ Q a)
  have h5 := quorum_intersection_nat (E.N h) (wf.pos h)
  omega

/-- A set of power ≥ q contains a correct validator. -/
theorem quorum_has_correct (wf : E.WF) (P : Addr → Prop) (hP : qN (E.N h) ≤ E.wsum h P) :
    ∃ a, a ∈ E.vals ∧ P a ∧ ¬ E.byz a := by
  obtain ⟨a, ha, hp, _, hb⟩ := quorum_intersect E h wf P P hP hP
  exact ⟨a, ha, hp, hb⟩
end wsum

/-! ## histories grow -/

structure Hist.le (H H' : Hist) : Prop where
  proposal : ∀ a h r v, H.proposal a h r v → H'.proposal a h r v
  prevote : ∀ a h r v, H.prevote a h r v → H'.prevote a h r v
  precommit : ∀ a h r v, H.precommit a h r v → H'.precommit a h r v
  decision : ∀ a h r v, H.decision a h r v → H'.decision a h r v

theorem Hist.le_refl (H : Hist) : H.le H := ⟨fun _ _ _ _ x => x, fun _ _ _ _ x => x, fun _ _ _ _ x => x, fun _ _ _ _ x => x⟩

theorem Polka_mono (E : AEnv) {H H' : Hist} (hle : H.le H') {h r v} (hp : Polka E H h r v) :
    Polka E H' h r v := by
  unfold Polka at *
  refine Nat.le_trans hp (wsum_mono E h _ _ ?_)
  intro a _ hx
  cases hx with
  | inl hb => exact Or.inl hb
  | inr hv => exact Or.inr (hle.prevote _ _ _ _ hv)

theorem PCQuorum_mono (E : AEnv) {H H' : Hist} (hle : H.le H') {h r v} (hp : PCQuorum E H h r v) :
    PCQuorum E H' h r v := by
  unfold PCQuorum at *
  refine Nat.le_trans hp (wsum_mono E h _ _ ?_)
  intro a _ hx
  cases hx with
  | inl hb => exact Or.inl hb
  | inr hv => exact Or.inr (hle.precommit _ _ _ _ hv)

theorem le_addProposal (H : Hist) (p h r v) : H.le (addProposal H p h r v) :=
  ⟨fun _ _ _ _ x => Or.inl x, fun _ _ _ _ x => x, fun _ _ _ _ x => x, fun _ _ _ _ x => x⟩
theorem le_addPrevote (H : Hist) (p h r v) : H.le (addPrevote H p h r v) :=
  ⟨fun _ _ _ _ x => x, fun _ _ _ _ x => Or.inl x, fun _ _ _ _ x => x, fun _ _ _ _ x => x⟩
theorem le_addPrecommit (H : Hist) (p h r v) : H.le (addPrecommit H p h r v) :=
  ⟨fun _ _ _ _ x => x, fun _ _ _ _ x => x, fun _ _ _ _ x => Or.inl x, fun _ _ _ _ x => x⟩
theorem le_addDecision (H : Hist) (p h r v) : H.le (addDecision H p h r v) :=
  ⟨fun _ _ _ _ x => x, fun _ _ _ _ x => x, fun _ _ _ _ x => x, fun _ _ _ _ x => Or.inl x⟩

/-! ## the per-process invariant -/

def BelowPV (l : LState) (h : Height) (r : Round) : Prop :=
  h < l.height ∨ (h = l.height ∧ l.started = true ∧ (r < l.round ∨ (r = l.round ∧ l.step ≠ .propose)))

def BelowPC (l : LState) (h : Height) (r : Round) : Prop :=
  h < l.height ∨ (h = l.height ∧ l.started = true ∧ (r < l.round ∨ (r = l.round ∧ l.step = .precommit)))

/-- Lock invariant of a correct process at its current height: either it is not locked and has
not precommitted a value, or it is locked on `lv` in `lockedRound`, has seen a polka for it there,
and every value it precommitted at this height is from a round `≤ lockedRound` (equal to `lv` if
from `lockedRound` itself). -/
def LockInv (E : AEnv) (H : Hist) (p : Addr) (l : LState) : Prop :=
  (l.lockedRound = -1 ∧ l.lockedValue = none ∧ ∀ r v, ¬ H.precommit p l.height r (some v)) ∨
  (∃ lv, l.lockedValue = some lv ∧ 0 ≤ l.lockedRound ∧ l.lockedRound ≤ l.round ∧
      (l.lockedRound = l.round → l.step = .precommit) ∧ l.started = true ∧
      Polka E H l.height l.lockedRound lv ∧
      ∀ r v, H.precommit p l.height r (some v) → r ≤ l.lockedRound ∧ (r = l.lockedRound → v = lv))

structure PInv (E : AEnv) (s : Sys) (p : Addr) : Prop where
  round_nonneg : 0 ≤ (s.loc p).round
  pv_below : ∀ h r id, s.hist.prevote p h r id → BelowPV (s.loc p) h r
  pc_below : ∀ h r id, s.hist.precommit p h r id → BelowPC (s.loc p) h r
  pv_unique : ∀ h r id id', s.hist.prevote p h r id → s.hist.prevote p h r id' → id = id'
  pc_unique : ∀ h r id id', s.hist.precommit p h r id → s.hist.precommit p h r id' → id = id'
  pc_polka : ∀ h r v, s.hist.precommit p h r (some v) → Polka E s.hist h r v
  lock : LockInv E s.hist p (s.loc p)
  unlock : ∀ h r r' v v', s.hist.prevote p h r' (some v') → s.hist.precommit p h r (some v) →
    r < r' → v ≠ v' → ∃ vr, r ≤ vr ∧ vr < r' ∧ Polka E s.hist h vr v'
  decided : ∀ h r v, s.hist.decision p h r v → PCQuorum E s.hist h r v ∧ E.valid v = true ∧
    (E.byz (E.proposer h r) ∨ s.hist.proposal (E.proposer h r) h r v)

def Inv (E : AEnv) (s : Sys) : Prop := ∀ p, ¬ E.byz p → PInv E s p

theorem setLoc_same (s : Sys) (p : Addr) (l : LState) : setLoc s p l p = l := by simp [setLoc]
theorem setLoc_other (s : Sys) (p : Addr) (l : LState) (a : Addr) (h : a ≠ p) : setLoc s p l a = s.loc a := by
  simp [setLoc, h]

theorem LockInv_mono (E : AEnv) {H H' : Hist} (hle : H.le H') {p : Addr} {l : LState}
    (hpc : ∀ r v, H'.precommit p l.height r (some v) → H.precommit p l.height r (some v))
    (hl : LockInv E H p l) : LockInv E H' p l := by
  cases hl with
  | inl h1 => exact Or.inl ⟨h1.1, h1.2.1, fun r v hx => h1.2.2 r v (hpc r v hx)⟩
  | inr h2 =>
    obtain ⟨lv, a, b, c, d, e, f, g⟩ := h2
    exact Or.inr ⟨lv, a, b, c, d, e, Polka_mono E hle f, fun r v hx => g r v (hpc r v hx)⟩

/-- A step that leaves `q`'s local state and `q`'s own votes/decisions untouched preserves `q`'s
invariant (quorum facts only grow). -/
theorem PInv_frame (E : AEnv) {s s' : Sys} {q : Addr} (hle : s.hist.le s'.hist)
    (hloc : s'.loc q = s.loc q)
    (hpv : ∀ h r id, s'.hist.prevote q h r id → s.hist.prevote q h r id)
    (hpc : ∀ h r id, s'.hist.precommit q h r id → s.hist.precommit q h r id)
    (hdec : ∀ h r v, s'.hist.decision q h r v → s.hist.decision q h r v)
    (hi : PInv E s q) : PInv E s' q := by
  constructor
  · rw [hloc]; exact hi.round_nonneg
  · intro h r id hx; rw [hloc]; exact hi.pv_below h r id (hpv _ _ _ hx)
  · intro h r id hx; rw [hloc]; exact hi.pc_below h r id (hpc _ _ _ hx)
  · intro h r id id' hx hy; exact hi.pv_unique h r id id' (hpv _ _ _ hx) (hpv _ _ _ hy)
  · intro h r id id' hx hy; exact hi.pc_unique h r id id' (hpc _ _ _ hx) (hpc _ _ _ hy)
  · intro h r v hx; exact Polka_mono E hle (hi.pc_polka h r v (hpc _ _ _ hx))
  · rw [hloc]; exact LockInv_mono E hle (fun r v hx => hpc _ _ _ hx) hi.lock
  · intro h r r' v v' hx hy hlt hne
    obtain ⟨vr, a, b, c⟩ := hi.unlock h r r' v v' (hpv _ _ _ hx) (hpc _ _ _ hy) hlt hne
    exact ⟨vr, a, b, Polka_mono E hle c⟩
  · intro h r v hx
    obtain ⟨a, b, c⟩ := hi.decided h r v (hdec _ _ _ hx)
    refine ⟨PCQuorum_mono E hle a, b, ?_⟩
    cases c with
    | inl cb => exact Or.inl cb
    | inr cp => exact Or.inr (hle.proposal _ _ _ _ cp)


/-- Main lemma: once a quorum has precommitted `v` in round `r`, no later (or the same) round has
a polka for another value. -/
theorem no_conflicting_polka (E : AEnv) (wf : E.WF) (s : Sys) (hinv : Inv E s)
    (h : Height) (r : Round) (v : Val) (hq : PCQuorum E s.hist h r v) :
    ∀ (n : Nat) (r' : Int), r ≤ r' → r' ≤ r + (n : Int) → ∀ v', v' ≠ v → ¬ Polka E s.hist h r' v' := by
  intro n
  induction n with
  | zero =>
    intro r' hle hn v' hne hp
    have hrr : r' = r := by omega
    subst hrr
    -- a correct member of the precommit quorum has seen a polka for v in r
    obtain ⟨c, _, hc, hcb⟩ := quorum_has_correct E h wf _ hq
    have hcpc : s.hist.precommit c h r' (some v) := hc.resolve_left hcb
    have hpv := (hinv c hcb).pc_polka h r' v hcpc
    obtain ⟨d, _, hd1, hd2, hdb⟩ := quorum_intersect E h wf _ _ hpv hp
    have e := (hinv d hdb).pv_unique h r' _ _ (hd1.resolve_left hdb) (hd2.resolve_left hdb)
    exact hne (Option.some.inj e).symm
  | succ n ih =>
    intro r' hle hn v' hne hp
    by_cases hrr : r' = r
    · exact ih r' hle (by omega) v' hne hp
    · have hlt : r < r' := by omega
      obtain ⟨c, _, hc1, hc2, hcb⟩ := quorum_intersect E h wf _ _ hq hp
      have hpc := hc1.resolve_left hcb
      have hpv := hc2.resolve_left hcb
      obtain ⟨vr, h1, h2, h3⟩ := (hinv c hcb).unlock h r r' v v' hpv hpc hlt (fun e => hne e.symm)
      exact ih vr h1 (by omega) v' hne h3

theorem agreement_of_inv (E : AEnv) (wf : E.WF) (s : Sys) (hinv : Inv E s)
    (p p' : Addr) (hp : ¬ E.byz p) (hp' : ¬ E.byz p') (h : Height) (r r' : Round) (v v' : Val)
    (hd : s.hist.decision p h r v) (hd' : s.hist.decision p' h r' v') : v = v' := by
  apply Classical.byContradiction
  intro hne
  obtain ⟨hq, _, _⟩ := (hinv p hp).decided h r v hd
  obtain ⟨hq', _, _⟩ := (hinv p' hp').decided h r' v' hd'
  -- a quorum of precommits contains a correct validator, who has seen a polka
  have polkaOf : ∀ r v, PCQuorum E s.hist h r v → Polka E s.hist h r v := by
    intro r v hq
    obtain ⟨c, _, hc, hcb⟩ := quorum_has_correct E h wf _ hq
    exact (hinv c hcb).pc_polka h r v (hc.resolve_left hcb)
  by_cases hle : r ≤ r'
  · exact no_conflicting_polka E wf s hinv h r v hq (r' - r).toNat r' hle (by omega) v'
      (fun e => hne e.symm) (polkaOf r' v' hq')
  · exact no_conflicting_polka E wf s hinv h r' v' hq' (r - r').toNat r (by omega) (by omega) v
      hne (polkaOf r v hq)


/-! ## every transition preserves the invariant -/

theorem inv_init (E : AEnv) (h0 : Addr → Height) : Inv E (Sys.init h0) := by
  intro p _
  constructor
  · simp [Sys.init, initL]
  · intro h r id hx; exact hx.elim
  · intro h r id hx; exact hx.elim
  · intro h r id id' hx; exact hx.elim
  · intro h r id id' hx; exact hx.elim
  · intro h r v hx; exact hx.elim
  · exact Or.inl ⟨rfl, rfl, fun r v hx => hx⟩
  · intro h r r' v v' hx; exact hx.elim
  · intro h r v hx; exact hx.elim

theorem inv_start (E : AEnv) (s : Sys) (p : Addr) (l : LState) (r : Round)
    (hl : s.loc p = l) (hs : l.started = false) (hr : 0 ≤ r) (hi : PInv E s p) :
    PInv E ⟨s.hist, setLoc s p { l with started := true, round := r, step := .propose }⟩ p := by
  subst hl
  constructor
  · simp [setLoc_same]; exact hr
  · intro h r0 id hx
    have := hi.pv_below h r0 id hx
    simp only [setLoc_same, BelowPV] at *
    rcases this with a | ⟨_, b, _⟩
    · exact Or.inl a
    · rw [hs] at b; cases b
  · intro h r0 id hx
    have := hi.pc_below h r0 id hx
    simp only [setLoc_same, BelowPC] at *
    rcases this with a | ⟨_, b, _⟩
    · exact Or.inl a
    · rw [hs] at b; cases b
  · exact hi.pv_unique
  · exact hi.pc_unique
  · exact hi.pc_polka
  · simp only [setLoc_same]
    rcases hi.lock with a | ⟨lv, _, _, _, _, e, _⟩
    · exact Or.inl a
    · rw [hs] at e; cases e
  · exact hi.unlock
  · exact hi.decided

theorem inv_newRound (E : AEnv) (s : Sys) (p : Addr) (l : LState) (r' : Round)
    (hl : s.loc p = l) (hs : l.started = true) (hr : l.round < r') (hi : PInv E s p) :
    PInv E ⟨s.hist, setLoc s p { l with round := r', step := .propose }⟩ p := by
  subst hl
  have hrn := hi.round_nonneg
  constructor
  · simp only [setLoc_same]; omega
  · intro h r0 id hx
    have := hi.pv_below h r0 id hx
    simp only [setLoc_same, BelowPV] at *
    rcases this with a | ⟨a, b, c⟩
    · exact Or.inl a
    · refine Or.inr ⟨a, b, Or.inl ?_⟩; omega
  · intro h r0 id hx
    have := hi.pc_below h r0 id hx
    simp only [setLoc_same, BelowPC] at *
    rcases this with a | ⟨a, b, c⟩
    · exact Or.inl a
    · refine Or.inr ⟨a, b, Or.inl ?_⟩; omega
  · exact hi.pv_unique
  · exact hi.pc_unique
  · exact hi.pc_polka
  · simp only [setLoc_same]
    rcases hi.lock with a | ⟨lv, a, b, c, d, e, f, g⟩
    · exact Or.inl a
    · refine Or.inr ⟨lv, a, b, ?_, ?_, e, f, g⟩
      · show (s.loc p).lockedRound ≤ r'; omega
      · intro hh; exfalso; have : (s.loc p).lockedRound = r' := hh; omega
  · exact hi.unlock
  · exact hi.decided


theorem inv_prevote (E : AEnv) (s : Sys) (p : Addr) (l : LState) (id : Option Val)
    (hl : s.loc p = l) (hs : l.started = true) (hst : l.step = .propose)
    (hg : PrevoteGuard E s.hist l id) (hi : PInv E s p) :
    PInv E ⟨addPrevote s.hist p l.height l.round id, setLoc s p { l with step := .prevote }⟩ p := by
  subst hl
  have hle := le_addPrevote s.hist p (s.loc p).height (s.loc p).round id
  -- an old prevote is never at the current (height, round) because step = propose
  have hfresh : ∀ id', ¬ s.hist.prevote p (s.loc p).height (s.loc p).round id' := by
    intro id' hx
    have := hi.pv_below _ _ _ hx
    simp only [BelowPV] at this
    rcases this with a | ⟨_, _, c | ⟨_, c⟩⟩
    · omega
    · omega
    · exact c hst
  constructor
  · simp only [setLoc_same]; exact hi.round_nonneg
  · intro h r0 id0 hx
    simp only [setLoc_same, BelowPV]
    rcases hx with hx | ⟨_, rfl, rfl, _⟩
    · have := hi.pv_below h r0 id0 hx
      simp only [BelowPV] at this
      rcases this with a | ⟨a, b, c | ⟨c, _⟩⟩
      · exact Or.inl a
      · exact Or.inr ⟨a, b, Or.inl c⟩
      · exact Or.inr ⟨a, b, Or.inr ⟨c, by simp⟩⟩
    · exact Or.inr ⟨rfl, hs, Or.inr ⟨rfl, by simp⟩⟩
  · intro h r0 id0 hx
    have := hi.pc_below h r0 id0 hx
    simp only [setLoc_same, BelowPC] at *
    rcases this with a | ⟨a, b, c | ⟨_, c⟩⟩
    · exact Or.inl a
    · exact Or.inr ⟨a, b, Or.inl c⟩
    · rw [hst] at c; cases c
  · intro h r0 id1 id2 hx hy
    rcases hx with hx | ⟨_, rfl, rfl, rfl⟩ <;> rcases hy with hy | ⟨_, hh, hr, rfl⟩
    · exact hi.pv_unique h r0 id1 id2 hx hy
    · subst hh; subst hr; exact (hfresh _ hx).elim
    · exact (hfresh _ hy).elim
    · rfl
  · exact hi.pc_unique
  · intro h r0 v hx; exact Polka_mono E hle (hi.pc_polka h r0 v hx)
  · simp only [setLoc_same]
    rcases hi.lock with a | ⟨lv, a, b, c, d, e, f, g⟩
    · exact Or.inl a
    · refine Or.inr ⟨lv, a, b, c, ?_, e, Polka_mono E hle f, g⟩
      intro hh; have := d hh; rw [hst] at this; cases this
  · intro h r r' v v' hx hy hlt hne
    rcases hx with hx | ⟨_, rfl, rfl, hid⟩
    · obtain ⟨vr, a, b, c⟩ := hi.unlock h r r' v v' hx hy hlt hne
      exact ⟨vr, a, b, Polka_mono E hle c⟩
    · subst hid
      simp only [PrevoteGuard] at hg
      rcases hi.lock with ⟨_, _, a⟩ | ⟨lv, a, b, c, d, e, f, g⟩
      · exact (a r v hy).elim
      · obtain ⟨g1, g2⟩ := g r v hy
        rcases hg with g0 | g0 | ⟨vr, x, y, z⟩
        · omega
        · rw [a] at g0
          have hlv : lv = v' := Option.some.inj g0
          subst hlv
          refine ⟨(s.loc p).lockedRound, g1, ?_, Polka_mono E hle f⟩
          have : (s.loc p).lockedRound ≠ (s.loc p).round := by
            intro hh; have := d hh; rw [hst] at this; cases this
          omega
        · exact ⟨vr, by omega, y, Polka_mono E hle z⟩
  · intro h r v hx
    obtain ⟨a, b, c⟩ := hi.decided h r v hx
    exact ⟨PCQuorum_mono E hle a, b, c⟩


/-- an old precommit at the current height is from an earlier round when step = prevote -/
theorem old_precommit_lt (E : AEnv) (s : Sys) (p : Addr) (hst : (s.loc p).step = .prevote) (hi : PInv E s p) :
    ∀ r0 id', s.hist.precommit p (s.loc p).height r0 id' → r0 < (s.loc p).round := by
  intro r0 id' hx
  have := hi.pc_below _ _ _ hx
  simp only [BelowPC] at this
  rcases this with a | ⟨_, _, c | ⟨_, c⟩⟩
  · omega
  · exact c
  · rw [hst] at c; cases c

theorem inv_precommit_gen (E : AEnv) (s : Sys) (p : Addr) (l' : LState) (id : Option Val)
    (hst : (s.loc p).step = .prevote)
    (e1 : l'.height = (s.loc p).height) (e2 : l'.started = true) (e3 : l'.round = (s.loc p).round)
    (e4 : l'.step = .precommit)
    (hg : ∀ v, id = some v → Polka E s.hist (s.loc p).height (s.loc p).round v) (hi : PInv E s p)
    (hlock : LockInv E (addPrecommit s.hist p (s.loc p).height (s.loc p).round id) p l') :
    PInv E ⟨addPrecommit s.hist p (s.loc p).height (s.loc p).round id, setLoc s p l'⟩ p := by
  have hle := le_addPrecommit s.hist p (s.loc p).height (s.loc p).round id
  have hrn := hi.round_nonneg
  have hold := old_precommit_lt E s p hst hi
  constructor
  · simp only [setLoc_same]; rw [e3]; exact hrn
  · intro h r0 id0 hx
    have := hi.pv_below h r0 id0 hx
    simp only [setLoc_same, BelowPV] at *
    rw [e1, e2, e3, e4]
    rcases this with a | ⟨a, b, c | ⟨c, _⟩⟩
    · exact Or.inl a
    · exact Or.inr ⟨a, rfl, Or.inl c⟩
    · exact Or.inr ⟨a, rfl, Or.inr ⟨c, by simp⟩⟩
  · intro h r0 id0 hx
    simp only [setLoc_same, BelowPC]
    rw [e1, e2, e3, e4]
    rcases hx with hx | ⟨_, rfl, rfl, _⟩
    · have := hi.pc_below h r0 id0 hx
      simp only [BelowPC] at this
      rcases this with a | ⟨a, b, c | ⟨c, _⟩⟩
      · exact Or.inl a
      · exact Or.inr ⟨a, rfl, Or.inl c⟩
      · exact Or.inr ⟨a, rfl, Or.inr ⟨c, rfl⟩⟩
    · exact Or.inr ⟨rfl, rfl, Or.inr ⟨rfl, rfl⟩⟩
  · exact hi.pv_unique
  · intro h r0 id1 id2 hx hy
    rcases hx with hx | ⟨_, rfl, rfl, rfl⟩ <;> rcases hy with hy | ⟨_, hh, hr, rfl⟩
    · exact hi.pc_unique h r0 id1 id2 hx hy
    · subst hh; subst hr; have := hold _ _ hx; omega
    · have := hold _ _ hy; omega
    · rfl
  · intro h r0 v hx
    rcases hx with hx | ⟨_, rfl, rfl, hid⟩
    · exact Polka_mono E hle (hi.pc_polka h r0 v hx)
    · exact Polka_mono E hle (hg v hid.symm)
  · simp only [setLoc_same]; exact hlock
  · intro h r r' v v' hx hy hlt hne
    rcases hy with hy | ⟨_, rfl, rfl, _⟩
    · obtain ⟨vr, a, b, c⟩ := hi.unlock h r r' v v' hx hy hlt hne
      exact ⟨vr, a, b, Polka_mono E hle c⟩
    · -- a prevote of p at the current height in a round above the current one does not exist
      have := hi.pv_below _ _ _ hx
      simp only [BelowPV] at this
      rcases this with a | ⟨_, _, c | ⟨c, _⟩⟩ <;> omega
  · intro h r v hx
    obtain ⟨a, b, c⟩ := hi.decided h r v hx
    exact ⟨PCQuorum_mono E hle a, b, c⟩

theorem inv_precommitNil (E : AEnv) (s : Sys) (p : Addr) (l : LState)
    (hl : s.loc p = l) (hs : l.started = true) (hst : l.step = .prevote) (hi : PInv E s p) :
    PInv E ⟨addPrecommit s.hist p l.height l.round none, setLoc s p { l with step := .precommit }⟩ p := by
  subst hl
  have hle := le_addPrecommit s.hist p (s.loc p).height (s.loc p).round none
  refine inv_precommit_gen E s p _ none hst rfl hs rfl rfl (fun v hv => by cases hv) hi ?_
  rcases hi.lock with ⟨a, b, c⟩ | ⟨lv, a, b, c, d, e, f, g⟩
  · refine Or.inl ⟨a, b, ?_⟩
    intro r v hx
    rcases hx with hx | ⟨_, _, _, hh⟩
    · exact c r v hx
    · cases hh
  · refine Or.inr ⟨lv, a, b, c, fun _ => rfl, e, Polka_mono E hle f, ?_⟩
    intro r v hx
    rcases hx with hx | ⟨_, _, _, hh⟩
    · exact g r v hx
    · cases hh

theorem inv_precommitValue (E : AEnv) (s : Sys) (p : Addr) (l : LState) (v : Val)
    (hl : s.loc p = l) (hs : l.started = true) (hst : l.step = .prevote)
    (hg : Polka E s.hist l.height l.round v) (hi : PInv E s p) :
    PInv E ⟨addPrecommit s.hist p l.height l.round (some v),
            setLoc s p { l with step := .precommit, lockedValue := some v, lockedRound := l.round }⟩ p := by
  subst hl
  have hle := le_addPrecommit s.hist p (s.loc p).height (s.loc p).round (some v)
  have hold := old_precommit_lt E s p hst hi
  refine inv_precommit_gen E s p _ (some v) hst rfl hs rfl rfl
    (fun w hw => by cases hw; exact hg) hi ?_
  refine Or.inr ⟨v, rfl, hi.round_nonneg, Int.le_refl _, fun _ => rfl, hs, Polka_mono E hle hg, ?_⟩
  intro r w hx
  rcases hx with hx | ⟨_, _, hr, hh⟩
  · have := hold _ _ hx
    simp only
    exact ⟨by omega, fun e => by omega⟩
  · subst hr; exact ⟨Int.le_refl _, fun _ => (Option.some.inj hh)⟩

theorem inv_commit (E : AEnv) (s : Sys) (p : Addr) (l : LState) (r : Round) (v : Val)
    (hl : s.loc p = l) (hq : PCQuorum E s.hist l.height r v) (hv : E.valid v = true)
    (hp : E.byz (E.proposer l.height r) ∨ s.hist.proposal (E.proposer l.height r) l.height r v)
    (hi : PInv E s p) :
    PInv E ⟨addDecision s.hist p l.height r v, setLoc s p (initL (l.height + 1))⟩ p := by
  subst hl
  have hle := le_addDecision s.hist p (s.loc p).height r v
  constructor
  · simp [setLoc_same, initL]
  · intro h r0 id0 hx
    have := hi.pv_below h r0 id0 hx
    simp only [setLoc_same, BelowPV, initL] at *
    rcases this with a | ⟨a, _, _⟩ <;> exact Or.inl (by omega)
  · intro h r0 id0 hx
    have := hi.pc_below h r0 id0 hx
    simp only [setLoc_same, BelowPC, initL] at *
    rcases this with a | ⟨a, _, _⟩ <;> exact Or.inl (by omega)
  · exact hi.pv_unique
  · exact hi.pc_unique
  · intro h r0 w hx; exact Polka_mono E hle (hi.pc_polka h r0 w hx)
  · simp only [setLoc_same]
    refine Or.inl ⟨rfl, rfl, ?_⟩
    intro r0 w hx
    have := hi.pc_below _ _ _ hx
    simp only [BelowPC, initL] at this
    rcases this with a | ⟨a, _, _⟩ <;> omega
  · intro h r0 r' w w' hx hy hlt hne
    obtain ⟨vr, a, b, c⟩ := hi.unlock h r0 r' w w' hx hy hlt hne
    exact ⟨vr, a, b, Polka_mono E hle c⟩
  · intro h r1 w hx
    rcases hx with hx | ⟨_, rfl, rfl, rfl⟩
    · obtain ⟨a, b, c⟩ := hi.decided h r1 w hx
      exact ⟨PCQuorum_mono E hle a, b, c⟩
    · exact ⟨PCQuorum_mono E hle hq, hv, hp⟩


/-- other processes keep their invariant when `p` moves -/
theorem inv_other (E : AEnv) (s : Sys) (H' : Hist) (p q : Addr) (l' : LState) (hq : q ≠ p)
    (hle : s.hist.le H')
    (hpv : ∀ h r id, H'.prevote q h r id → s.hist.prevote q h r id)
    (hpc : ∀ h r id, H'.precommit q h r id → s.hist.precommit q h r id)
    (hdec : ∀ h r v, H'.decision q h r v → s.hist.decision q h r v)
    (hi : PInv E s q) : PInv E ⟨H', setLoc s p l'⟩ q :=
  PInv_frame E (s' := ⟨H', setLoc s p l'⟩) hle (setLoc_other s p l' q hq) hpv hpc hdec hi

theorem inv_step (E : AEnv) (s s' : Sys) (hstep : Step E s s') (hinv : Inv E s) : Inv E s' := by
  intro q hqb
  have hiq := hinv q hqb
  cases hstep with
  | start p l r hb hl hs hr =>
    by_cases hqp : q = p
    · subst hqp; exact inv_start E s q l r hl hs hr hiq
    · exact inv_other E s s.hist p q _ hqp (Hist.le_refl _) (fun _ _ _ x => x) (fun _ _ _ x => x) (fun _ _ _ x => x) hiq
  | newRound p l r' hb hl hs hr =>
    by_cases hqp : q = p
    · subst hqp; exact inv_newRound E s q l r' hl hs hr hiq
    · exact inv_other E s s.hist p q _ hqp (Hist.le_refl _) (fun _ _ _ x => x) (fun _ _ _ x => x) (fun _ _ _ x => x) hiq
  | propose p l v hb hl =>
    exact PInv_frame E (s' := ⟨addProposal s.hist p l.height l.round v, s.loc⟩) (le_addProposal _ _ _ _ _) rfl
      (fun _ _ _ x => x) (fun _ _ _ x => x) (fun _ _ _ x => x) hiq
  | prevote p l id hb hl hs hst hg =>
    by_cases hqp : q = p
    · subst hqp; exact inv_prevote E s q l id hl hs hst hg hiq
    · refine inv_other E s _ p q _ hqp (le_addPrevote _ _ _ _ _) ?_ (fun _ _ _ x => x) (fun _ _ _ x => x) hiq
      intro h r id' hx
      rcases hx with hx | ⟨a, _⟩
      · exact hx
      · exact (hqp a).elim
  | precommitNil p l hb hl hs hst =>
    by_cases hqp : q = p
    · subst hqp; exact inv_precommitNil E s q l hl hs hst hiq
    · refine inv_other E s _ p q _ hqp (le_addPrecommit _ _ _ _ _) (fun _ _ _ x => x) ?_ (fun _ _ _ x => x) hiq
      intro h r id' hx
      rcases hx with hx | ⟨a, _⟩
      · exact hx
      · exact (hqp a).elim
  | precommitValue p l v hb hl hs hst hg =>
    by_cases hqp : q = p
    · subst hqp; exact inv_precommitValue E s q l v hl hs hst hg hiq
    · refine inv_other E s _ p q _ hqp (le_addPrecommit _ _ _ _ _) (fun _ _ _ x => x) ?_ (fun _ _ _ x => x) hiq
      intro h r id' hx
      rcases hx with hx | ⟨a, _⟩
      · exact hx
      · exact (hqp a).elim
  | commit p l r v hb hl hs hq hv hp =>
    by_cases hqp : q = p
    · subst hqp; exact inv_commit E s q l r v hl hq hv hp hiq
    · refine inv_other E s _ p q _ hqp (le_addDecision _ _ _ _ _) (fun _ _ _ x => x) (fun _ _ _ x => x) ?_ hiq
      intro h r1 w hx
      rcases hx with hx | ⟨a, _⟩
      · exact hx
      · exact (hqp a).elim

theorem inv_reach (E : AEnv) (h0 : Addr → Height) (s : Sys) (hr : Reach E h0 s) : Inv E s := by
  induction hr with
  | init => exact inv_init E h0
  | step _ hs ih => exact inv_step E _ _ hs ih


end Juno.C12.Abs
