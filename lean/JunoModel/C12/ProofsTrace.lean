import JunoModel.C12.ProofsExec
/-! C12 — trace invariants of `Exec`: one prevote / precommit per (height, round) over whole runs;
emission-time guards of every broadcast (lock rule, commit rule). -/
namespace Juno.C12

/-! ## one prevote and one precommit per (height, round) -/

def pvSlot : Action → Option (Height × Round)
  | .bcastPrevote v => some (v.height, v.round)
  | _ => none

def pcSlot : Action → Option (Height × Round)
  | .bcastPrecommit v => some (v.height, v.round)
  | _ => none

def pvSlots (log : List Action) : List (Height × Round) := log.filterMap pvSlot
def pcSlots (log : List Action) : List (Height × Round) := log.filterMap pcSlot

def BelowPVx (c : Core) (h : Height) (r : Round) : Prop :=
  h < c.height ∨ (h = c.height ∧ c.started = true ∧ (r < c.round ∨ (r = c.round ∧ c.step ≠ .propose)))

def BelowPCx (c : Core) (h : Height) (r : Round) : Prop :=
  h < c.height ∨ (h = c.height ∧ c.started = true ∧ (r < c.round ∨ (r = c.round ∧ c.step = .precommit)))

/-- no restriction on the messages handed to the machine -/
def AnyMsg : VCChange → Prop := fun _ => True

variable {A : VCChange → Prop}

structure TInv (m : Machine) (log : List Action) : Prop where
  pv : ∀ s ∈ pvSlots log, BelowPVx m.core s.1 s.2
  pc : ∀ s ∈ pcSlots log, BelowPCx m.core s.1 s.2
  pvN : (pvSlots log).Nodup
  pcN : (pcSlots log).Nodup

theorem slots_silent (acts : List Action) (h : ∀ a ∈ acts, silentAct a) :
    pvSlots acts = [] ∧ pcSlots acts = [] := by
  induction acts with
  | nil => exact ⟨rfl, rfl⟩
  | cons a t ih =>
    have ha := h a List.mem_cons_self
    have ht := ih (fun b hb => h b (List.mem_cons_of_mem a hb))
    have h1 : pvSlot a = none ∧ pcSlot a = none := by
      cases a <;> simp [silentAct] at ha <;> exact ⟨rfl, rfl⟩
    constructor
    · show List.filterMap pvSlot (a :: t) = []
      rw [List.filterMap_cons, h1.1]; exact ht.1
    · show List.filterMap pcSlot (a :: t) = []
      rw [List.filterMap_cons, h1.2]; exact ht.2

theorem pvSlots_append (a b : List Action) : pvSlots (a ++ b) = pvSlots a ++ pvSlots b := by
  simp [pvSlots, List.filterMap_append]
theorem pcSlots_append (a b : List Action) : pcSlots (a ++ b) = pcSlots a ++ pcSlots b := by
  simp [pcSlots, List.filterMap_append]

/-- re-targeting the invariant to a new core when no new votes are emitted -/
theorem TInv_move (m m' : Machine) (log acts : List Action)
    (hs : pvSlots acts = [] ∧ pcSlots acts = [])
    (hpv : ∀ h r, BelowPVx m.core h r → BelowPVx m'.core h r)
    (hpc : ∀ h r, BelowPCx m.core h r → BelowPCx m'.core h r)
    (hi : TInv m log) : TInv m' (log ++ acts) := by
  constructor
  · intro s hs'; rw [pvSlots_append, hs.1, List.append_nil] at hs'; exact hpv _ _ (hi.pv s hs')
  · intro s hs'; rw [pcSlots_append, hs.2, List.append_nil] at hs'; exact hpc _ _ (hi.pc s hs')
  · rw [pvSlots_append, hs.1, List.append_nil]; exact hi.pvN
  · rw [pcSlots_append, hs.2, List.append_nil]; exact hi.pcN

theorem micro_TInv (env : Env) (m m' : Machine) (a log : List Action)
    (hm : XMicro env A m a m') (sc : SC m m') (hi : TInv m log) : TInv m' (log ++ a) := by
  cases hm with
  | silent _ _ hc _ _ hs =>
    exact TInv_move m m' log a (slots_silent a hs) (by rw [hc]; intros; assumption) (by rw [hc]; intros; assumption) hi
  | recv _ c _ hc _ _ =>
    exact TInv_move m m' log _ ⟨rfl, rfl⟩ (by rw [hc]; intros; assumption) (by rw [hc]; intros; assumption) hi
  | propose _ p hc _ _ _ _ _ =>
    exact TInv_move m m' log _ ⟨rfl, rfl⟩ (by rw [hc]; intros; assumption) (by rw [hc]; intros; assumption) hi
  | start _ r hs _ _ _ hc =>
    have hst : m.core.started = false := hs
    refine TInv_move m m' log [] ⟨rfl, rfl⟩ ?_ ?_ hi
    · intro h r0 hb; rw [hc]
      rcases hb with a | ⟨_, b, _⟩
      · exact Or.inl a
      · rw [hst] at b; cases b
    · intro h r0 hb; rw [hc]
      rcases hb with a | ⟨_, b, _⟩
      · exact Or.inl a
      · rw [hst] at b; cases b
  | newRound _ r hlt _ _ hc =>
    have hr : m.core.round < r := hlt
    refine TInv_move m m' log [] ⟨rfl, rfl⟩ ?_ ?_ hi
    · intro h r0 hb; rw [hc]
      rcases hb with a | ⟨a, b, c⟩
      · exact Or.inl a
      · refine Or.inr ⟨a, b, Or.inl ?_⟩
        show r0 < r
        rcases c with c | ⟨c, _⟩ <;> omega
    · intro h r0 hb; rw [hc]
      rcases hb with a | ⟨a, b, c⟩
      · exact Or.inl a
      · refine Or.inr ⟨a, b, Or.inl ?_⟩
        show r0 < r
        rcases c with c | ⟨c, _⟩ <;> omega
  | prevote _ id hst _ _ _ hc =>
    have hstep : m.core.step = .propose := hst
    have hstarted : m.core.started = true := by
      rcases sc with h | h | h
      · rw [hc] at h
        have : Step.prevote = m.core.step := congrArg Core.step h
        rw [hstep] at this; cases this
      · exact h
      · have : m'.core.started = true := h
        rw [hc] at this; exact this
    have hfresh : (m.state.height, m.state.round) ∉ pvSlots log := by
      intro hin
      rcases hi.pv _ hin with a | ⟨_, _, c | ⟨_, c⟩⟩
      · exact Nat.lt_irrefl _ a
      · exact Int.lt_irrefl _ c
      · exact c hstep
    constructor
    · intro s hs'
      rw [pvSlots_append] at hs'
      rcases List.mem_append.mp hs' with h1 | h1
      · have := hi.pv s h1
        rw [hc]
        rcases this with a | ⟨a, b, c | ⟨c, _⟩⟩
        · exact Or.inl a
        · exact Or.inr ⟨a, b, Or.inl c⟩
        · exact Or.inr ⟨a, b, Or.inr ⟨c, by simp⟩⟩
      · simp [pvSlots, pvSlot] at h1; subst h1
        rw [hc]; exact Or.inr ⟨rfl, hstarted, Or.inr ⟨rfl, by simp⟩⟩
    · intro s hs'
      rw [pcSlots_append] at hs'
      simp only [pcSlots, pcSlot, List.filterMap_cons, List.filterMap_nil, List.append_nil] at hs'
      have := hi.pc s hs'
      rw [hc]
      rcases this with a | ⟨a, b, c | ⟨_, c⟩⟩
      · exact Or.inl a
      · exact Or.inr ⟨a, b, Or.inl c⟩
      · rw [hstep] at c; cases c
    · rw [pvSlots_append]
      simp only [pvSlots, pvSlot, List.filterMap_cons, List.filterMap_nil]
      exact List.nodup_append.mpr ⟨hi.pvN, by simp, by
        intro x hx y hy; simp at hy; subst hy; intro e; subst e; exact hfresh hx⟩
    · rw [pcSlots_append]
      simp only [pcSlots, pcSlot, List.filterMap_cons, List.filterMap_nil, List.append_nil]
      exact hi.pcN
  | precommitNil _ hst _ _ hc =>
    have hstep : m.core.step = .prevote := hst
    have hstarted : m.core.started = true := by
      rcases sc with h | h | h
      · rw [hc] at h
        have : Step.precommit = m.core.step := congrArg Core.step h
        rw [hstep] at this; cases this
      · exact h
      · have : m'.core.started = true := h
        rw [hc] at this; exact this
    have hfresh : (m.state.height, m.state.round) ∉ pcSlots log := by
      intro hin
      rcases hi.pc _ hin with a | ⟨_, _, c | ⟨_, c⟩⟩
      · exact Nat.lt_irrefl _ a
      · exact Int.lt_irrefl _ c
      · rw [hstep] at c; cases c
    constructor
    · intro s hs'
      rw [pvSlots_append] at hs'
      simp only [pvSlots, pvSlot, List.filterMap_cons, List.filterMap_nil, List.append_nil] at hs'
      have := hi.pv s hs'
      rw [hc]
      rcases this with a | ⟨a, b, c | ⟨c, _⟩⟩
      · exact Or.inl a
      · exact Or.inr ⟨a, b, Or.inl c⟩
      · exact Or.inr ⟨a, b, Or.inr ⟨c, by simp⟩⟩
    · intro s hs'
      rw [pcSlots_append] at hs'
      rcases List.mem_append.mp hs' with h1 | h1
      · have := hi.pc s h1
        rw [hc]
        rcases this with a | ⟨a, b, c | ⟨c, _⟩⟩
        · exact Or.inl a
        · exact Or.inr ⟨a, b, Or.inl c⟩
        · exact Or.inr ⟨a, b, Or.inr ⟨c, rfl⟩⟩
      · simp [pcSlots, pcSlot] at h1; subst h1
        rw [hc]; exact Or.inr ⟨rfl, hstarted, Or.inr ⟨rfl, rfl⟩⟩
    · rw [pvSlots_append]
      simp only [pvSlots, pvSlot, List.filterMap_cons, List.filterMap_nil, List.append_nil]
      exact hi.pvN
    · rw [pcSlots_append]
      simp only [pcSlots, pcSlot, List.filterMap_cons, List.filterMap_nil]
      exact List.nodup_append.mpr ⟨hi.pcN, by simp, by
        intro x hx y hy; simp at hy; subst hy; intro e; subst e; exact hfresh hx⟩
  | precommitValue _ v hst _ _ _ _ hc =>
    have hstep : m.core.step = .prevote := hst
    have hstarted : m.core.started = true := by
      rcases sc with h | h | h
      · rw [hc] at h
        have : Step.precommit = m.core.step := congrArg Core.step h
        rw [hstep] at this; cases this
      · exact h
      · have : m'.core.started = true := h
        rw [hc] at this; exact this
    have hfresh : (m.state.height, m.state.round) ∉ pcSlots log := by
      intro hin
      rcases hi.pc _ hin with a | ⟨_, _, c | ⟨_, c⟩⟩
      · exact Nat.lt_irrefl _ a
      · exact Int.lt_irrefl _ c
      · rw [hstep] at c; cases c
    constructor
    · intro s hs'
      rw [pvSlots_append] at hs'
      simp only [pvSlots, pvSlot, List.filterMap_cons, List.filterMap_nil, List.append_nil] at hs'
      have := hi.pv s hs'
      rw [hc]
      rcases this with a | ⟨a, b, c | ⟨c, _⟩⟩
      · exact Or.inl a
      · exact Or.inr ⟨a, b, Or.inl c⟩
      · exact Or.inr ⟨a, b, Or.inr ⟨c, by simp⟩⟩
    · intro s hs'
      rw [pcSlots_append] at hs'
      rcases List.mem_append.mp hs' with h1 | h1
      · have := hi.pc s h1
        rw [hc]
        rcases this with a | ⟨a, b, c | ⟨c, _⟩⟩
        · exact Or.inl a
        · exact Or.inr ⟨a, b, Or.inl c⟩
        · exact Or.inr ⟨a, b, Or.inr ⟨c, rfl⟩⟩
      · simp [pcSlots, pcSlot] at h1; subst h1
        rw [hc]; exact Or.inr ⟨rfl, hstarted, Or.inr ⟨rfl, rfl⟩⟩
    · rw [pvSlots_append]
      simp only [pvSlots, pvSlot, List.filterMap_cons, List.filterMap_nil, List.append_nil]
      exact hi.pvN
    · rw [pcSlots_append]
      simp only [pcSlots, pcSlot, List.filterMap_cons, List.filterMap_nil]
      exact List.nodup_append.mpr ⟨hi.pcN, by simp, by
        intro x hx y hy; simp at hy; subst hy; intro e; subst e; exact hfresh hx⟩
  | commit _ p _ _ _ _ _ _ _ hc =>
    refine TInv_move m m' log _ ⟨rfl, rfl⟩ ?_ ?_ hi
    · intro h r0 hb; rw [hc]
      rcases hb with a | ⟨a, _, _⟩
      · exact Or.inl (Nat.lt_succ_of_lt a)
      · exact Or.inl (by show h < m.state.height + 1; have : m.core.height = m.state.height := rfl; omega)
    · intro h r0 hb; rw [hc]
      rcases hb with a | ⟨a, _, _⟩
      · exact Or.inl (Nat.lt_succ_of_lt a)
      · exact Or.inl (by show h < m.state.height + 1; have : m.core.height = m.state.height := rfl; omega)

theorem chain_TInv (env : Env) (m m' : Machine) (acts : List Action) (hc : XChain env A m acts m') :
    ∀ log, TInv m log → TInv m' (log ++ acts) := by
  induction hc with
  | nil => intro log hi; simpa using hi
  | cons hm sc _ ih =>
    intro log hi
    rw [← List.append_assoc]
    exact ih _ (micro_TInv (A := A) env _ _ _ _ hm sc hi)

/-- A run obeys the driver's discipline if every timeout is delivered to a started height. -/
def Disciplined (env : Env) : Machine → List Input → Prop
  | _, [] => True
  | m, i :: rest => InputOK m i ∧ Disciplined env (m.step env i).1 rest

/-- **A disciplined run is a chain of micro-steps.** -/
theorem run_chain (env : Env) (hA : ∀ c, A c) : ∀ (ins : List Input) (m : Machine), MInv env m → Disciplined env m ins →
    XChain env A m (m.run env ins).2 (m.run env ins).1 ∧ MInv env (m.run env ins).1 := by
  intro ins
  induction ins with
  | nil => intro m hi _; exact ⟨XChain.nil m, hi⟩
  | cons i rest ih =>
    intro m hi hd
    have h1 := step_chain (A := A) env m i (fun c _ => hA c) hd.1 hi
    have h2 := ih (m.step env i).1 h1.2 hd.2
    simp only [Machine.run]
    exact ⟨XChain.append h1.1 h2.1, h2.2⟩

theorem TInv_new (env : Env) (node : Addr) (h : Height) : TInv (Machine.new env node h) [] :=
  ⟨fun s hs => by simp [pvSlots] at hs, fun s hs => by simp [pcSlots] at hs, List.nodup_nil, List.nodup_nil⟩

theorem run_no_double_vote (env : Env) (node : Addr) (h0 : Height) (ins : List Input)
    (hd : Disciplined env (Machine.new env node h0) ins) :
    (pvSlots ((Machine.new env node h0).run env ins).2).Nodup ∧
    (pcSlots ((Machine.new env node h0).run env ins).2).Nodup := by
  have hc := run_chain (A := AnyMsg) env (fun _ => trivial) ins _ (new_MInv env node h0) hd
  have := chain_TInv (A := AnyMsg) env _ _ _ hc.1 [] (TInv_new env node h0)
  simp only [List.nil_append] at this
  exact ⟨this.pvN, this.pcN⟩

/-- every action of a chain is emitted by one of its micro-steps; the chain splits around it -/
theorem chain_split (env : Env) (m m' : Machine) (acts : List Action) (hc : XChain env A m acts m')
    (a : Action) (ha : a ∈ acts) :
    ∃ pre mic post m1 m2, XChain env A m pre m1 ∧ XMicro env A m1 mic m2 ∧ SC m1 m2 ∧ a ∈ mic ∧
      XChain env A m2 post m' ∧ acts = pre ++ mic ++ post := by
  induction hc with
  | nil => cases ha
  | @cons m0 m1 m2 mic as hm sc htail ih =>
    rcases List.mem_append.mp ha with h | h
    · exact ⟨[], mic, as, m0, m1, XChain.nil _, hm, sc, h, htail, by simp⟩
    · obtain ⟨pre, mic', post, n1, n2, h1, h2, h3, h4, h5, h6⟩ := ih h
      refine ⟨mic ++ pre, mic', post, n1, n2, XChain.cons hm sc h1, h2, h3, h4, h5, ?_⟩
      rw [h6]; simp

/-- a prevote action can only come from a `prevote` micro-step -/
theorem micro_prevote (env : Env) (m m' : Machine) (mic : List Action) (hm : XMicro env A m mic m')
    (v : Vote) (hv : Action.bcastPrevote v ∈ mic) :
    v = ⟨m.state.height, m.state.round, m.nodeAddr, v.id⟩ ∧ m.state.step = .propose ∧
      PrevoteGuardX env m v.id := by
  cases hm with
  | silent _ _ _ _ _ hs => exact (hs _ hv).elim
  | recv _ c _ _ _ _ => cases hv
  | propose _ p _ _ _ _ _ _ => simp at hv
  | start _ r _ _ _ _ _ => cases hv
  | newRound _ r _ _ _ _ => cases hv
  | prevote _ id hst hg _ _ _ =>
    simp at hv; subst hv; exact ⟨rfl, hst, hg⟩
  | precommitNil _ _ _ _ _ => simp at hv
  | precommitValue _ w _ _ _ _ _ _ => simp at hv
  | commit _ p _ _ _ _ _ _ _ _ => simp at hv

theorem micro_precommit (env : Env) (m m' : Machine) (mic : List Action) (hm : XMicro env A m mic m')
    (v : Vote) (hv : Action.bcastPrecommit v ∈ mic) :
    v = ⟨m.state.height, m.state.round, m.nodeAddr, v.id⟩ ∧ m.state.step = .prevote ∧
      (∀ w, v.id = some w → (∃ p, m.vc.getProposal m.state.round = some p ∧ p.value = w ∧ env.valid w = true) ∧
        m.vc.hasQuorumForVote m.state.round .prevote (some w) = true ∧
        m'.state.lockedValue = some w ∧ m'.state.lockedRound = m.state.round) := by
  cases hm with
  | silent _ _ _ _ _ hs => exact (hs _ hv).elim
  | recv _ c _ _ _ _ => cases hv
  | propose _ p _ _ _ _ _ _ => simp at hv
  | start _ r _ _ _ _ _ => cases hv
  | newRound _ r _ _ _ _ => cases hv
  | prevote _ id _ _ _ _ _ => simp at hv
  | precommitNil _ hst _ _ _ =>
    simp at hv; subst hv; exact ⟨rfl, hst, fun w hw => by cases hw⟩
  | precommitValue _ w hst hp hq _ _ hc =>
    simp at hv; subst hv
    refine ⟨rfl, hst, fun w' hw => ?_⟩
    cases hw
    have h1 : m'.core.lockedValue = some w := by rw [hc]
    have h2 : m'.core.lockedRound = m.state.round := by rw [hc]
    exact ⟨hp, hq, h1, h2⟩
  | commit _ p _ _ _ _ _ _ _ _ => simp at hv

theorem micro_commit (env : Env) (m m' : Machine) (mic : List Action) (hm : XMicro env A m mic m')
    (p : Proposal) (hv : Action.commit p ∈ mic) :
    m.vc.getProposal p.round = some p ∧ env.valid p.value = true ∧
      m.vc.hasQuorumForVote p.round .precommit (some p.value) = true ∧
      p.height = m.state.height ∧ p.sender = env.proposer p.height p.round ∧
      m'.state.height = m.state.height + 1 := by
  cases hm with
  | silent _ _ _ _ _ hs => exact (hs _ hv).elim
  | recv _ c _ _ _ _ => cases hv
  | propose _ q _ _ _ _ _ _ => simp at hv
  | start _ r _ _ _ _ _ => cases hv
  | newRound _ r _ _ _ _ => cases hv
  | prevote _ id _ _ _ _ _ => simp at hv
  | precommitNil _ _ _ _ _ => simp at hv
  | precommitValue _ w _ _ _ _ _ _ => simp at hv
  | commit _ q h1 h2 h3 h4 h5 _ _ hc =>
    simp at hv; subst hv
    have : m'.core.height = m.state.height + 1 := by rw [hc]
    exact ⟨h1, h2, h3, h4, h5, this⟩



/-- Action `a` of a run from `m0` to `mf` with output `acts` was emitted by a micro-step taken in
machine state `m1` (the state at the moment of emission), leading to `m2`. -/
def EmittedAt (env : Env) (m0 mf : Machine) (acts : List Action) (a : Action) (m1 m2 : Machine) : Prop :=
  ∃ pre mic post, XChain env AnyMsg m0 pre m1 ∧ XMicro env AnyMsg m1 mic m2 ∧ SC m1 m2 ∧ a ∈ mic ∧
    XChain env AnyMsg m2 post mf ∧ acts = pre ++ mic ++ post

theorem run_emitted (env : Env) (node : Addr) (h0 : Height) (ins : List Input)
    (hd : Disciplined env (Machine.new env node h0) ins) (a : Action)
    (ha : a ∈ ((Machine.new env node h0).run env ins).2) :
    ∃ m1 m2, EmittedAt env (Machine.new env node h0) ((Machine.new env node h0).run env ins).1
      ((Machine.new env node h0).run env ins).2 a m1 m2 := by
  have hc := run_chain (A := AnyMsg) env (fun _ => trivial) ins _ (new_MInv env node h0) hd
  obtain ⟨pre, mic, post, m1, m2, h1, h2, h3, h4, h5, h6⟩ := chain_split (A := AnyMsg) env _ _ _ hc.1 a ha
  exact ⟨m1, m2, pre, mic, post, h1, h2, h3, h4, h5, h6⟩

/-! ### the discipline is needed: concrete runs of the model without it -/

def exEnv : Env :=
  { totalPower := fun _ => 4, power := fun _ a => if a < 4 then 1 else 0,
    proposer := fun h r => ((Int.ofNat h + r) % 4).toNat, valid := fun v => v % 4 != 3,
    appValue := fun k => 400 + 4 * k }

/-- Validator 3, height 0, never started until the last input. Since cd6cea9 a timeout that does
not apply (other height, round or step) does nothing at all; a timeout that MATCHES the (not started)
height, round and step is still acted upon: `ProcessTimeout` does not look at `isHeightStarted`. -/
def exUndisciplined : List Input :=
  [ .proposal ⟨0, 0, 0, -1, 8⟩,    -- buffered by the vote counter (height not started: no action)
    .timeout .propose 0 0,          -- acted upon although the height is not started: prevote nil in (0,0)
    .start 0 ]                      -- round 0 is (re)started, step propose: line 22 prevotes 8 in (0,0)

/-- a disciplined run in which the validator locks, commits, and goes on to the next height -/
def exDisciplined : List Input :=
  [ .start 0, .proposal ⟨0, 0, 0, -1, 8⟩, .prevote ⟨0, 0, 0, some 8⟩, .prevote ⟨0, 0, 2, some 8⟩,
    .precommit ⟨0, 0, 0, some 8⟩, .precommit ⟨0, 0, 2, some 8⟩, .start 0, .timeout .propose 1 0 ]


/-! ### a non-member address with quorum power (the sync pseudo-sender of `consensus/mock.go`) -/

/-- four validators of power 1, N = 4, and address 9 — not a validator — with power 4, as
`mockValidators.ValidatorVotingPower` gives to `SyncProtocolPrecommitSender` -/
def envPseudo : Env :=
  { totalPower := fun _ => 4, power := fun _ a => if a = 9 then 4 else if a < 4 then 1 else 0,
    proposer := fun _ r => if r = 0 then 0 else 3, valid := fun _ => true, appValue := fun k => 100 + k }

/-- validator 1: the round-0 proposal of validator 0, then ONE precommit carrying sender 9 -/
def pseudoA : List Input := [.start 0, .proposal ⟨0, 0, 0, -1, 8⟩, .precommit ⟨0, 0, 9, some 8⟩]
/-- validator 2: the round-1 proposal of validator 3, then ONE precommit carrying sender 9 -/
def pseudoB : List Input := [.start 0, .proposal ⟨0, 1, 3, -1, 12⟩, .precommit ⟨0, 1, 9, some 12⟩]

end Juno.C12
