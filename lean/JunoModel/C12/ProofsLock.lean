import JunoModel.C12.ProofsTrace
/-!
C12 — round 5: the machine's lock IS the last value precommit it broadcast at its height — for every
disciplined run (induction over the chain of micro-steps). This ties the field the guard of lines
28/29 reads (`lockedRound`) to what the harness' oracle keeps as its OWN record of the lock (the
precommits the machine emitted), re-locks on the same value included.
-/
namespace Juno.C12

variable {A : VCChange → Prop}

structure LInv (m : Machine) (log : List Action) : Prop where
  /-- no value precommit of the current height was broadcast in a round after `lockedRound` -/
  le : ∀ v w, Action.bcastPrecommit v ∈ log → v.height = m.state.height → v.id = some w →
    v.round ≤ m.state.lockedRound
  /-- the precommit that took the lock is in the log -/
  mem : ∀ w, m.state.lockedValue = some w →
    Action.bcastPrecommit ⟨m.state.height, m.state.lockedRound, m.nodeAddr, some w⟩ ∈ log
  unl : m.state.lockedValue = Option.none → m.state.lockedRound = -1

theorem mem_pcSlots (log : List Action) (v : Vote) (h : Action.bcastPrecommit v ∈ log) :
    (v.height, v.round) ∈ pcSlots log :=
  List.mem_filterMap.mpr ⟨_, h, rfl⟩

/-- nothing about the lock changes and the new actions contain no value precommit -/
theorem LInv_move (m m' : Machine) (log acts : List Action)
    (hh : m'.state.height = m.state.height) (hv : m'.state.lockedValue = m.state.lockedValue)
    (hr : m'.state.lockedRound = m.state.lockedRound) (hn : m'.nodeAddr = m.nodeAddr)
    (ha : ∀ v, Action.bcastPrecommit v ∈ acts → v.id = Option.none) (hi : LInv m log) : LInv m' (log ++ acts) := by
  constructor
  · intro v w hv' hvh hw
    rw [hh] at hvh; rw [hr]
    rcases List.mem_append.mp hv' with h | h
    · exact hi.le v w h hvh hw
    · rw [ha v h] at hw; cases hw
  · intro w hw
    rw [hv] at hw; rw [hh, hr, hn]
    exact List.mem_append_left _ (hi.mem w hw)
  · intro h; rw [hv] at h; rw [hr]; exact hi.unl h

theorem micro_LInv (env : Env) (m m' : Machine) (a log : List Action)
    (hm : XMicro env A m a m') (hT : TInv m log) (hi : LInv m log) : LInv m' (log ++ a) := by
  cases hm with
  | silent _ _ hc hn _ hs =>
    exact LInv_move m m' log a (congrArg Core.height hc) (congrArg Core.lockedValue hc) (congrArg Core.lockedRound hc) hn
      (fun v hv => (hs _ hv).elim) hi
  | recv _ c _ hc hn _ =>
    exact LInv_move m m' log [] (congrArg Core.height hc) (congrArg Core.lockedValue hc) (congrArg Core.lockedRound hc) hn
      (fun v hv => by cases hv) hi
  | propose _ p hc hn _ _ _ _ =>
    exact LInv_move m m' log _ (congrArg Core.height hc) (congrArg Core.lockedValue hc) (congrArg Core.lockedRound hc) hn
      (fun v hv => by simp at hv) hi
  | start _ r _ _ hn _ hc =>
    exact LInv_move m m' log [] (congrArg Core.height hc) (congrArg Core.lockedValue hc) (congrArg Core.lockedRound hc) hn
      (fun v hv => by cases hv) hi
  | newRound _ r _ hn _ hc =>
    exact LInv_move m m' log [] (congrArg Core.height hc) (congrArg Core.lockedValue hc) (congrArg Core.lockedRound hc) hn
      (fun v hv => by cases hv) hi
  | prevote _ id _ _ hn _ hc =>
    exact LInv_move m m' log _ (congrArg Core.height hc) (congrArg Core.lockedValue hc) (congrArg Core.lockedRound hc) hn
      (fun v hv => by simp at hv) hi
  | precommitNil _ _ hn _ hc =>
    exact LInv_move m m' log _ (congrArg Core.height hc) (congrArg Core.lockedValue hc) (congrArg Core.lockedRound hc) hn
      (fun v hv => by simp at hv; subst hv; rfl) hi
  | precommitValue _ w hst _ _ hn _ hc =>
    have hh : m'.state.height = m.state.height := congrArg Core.height hc
    have hv : m'.state.lockedValue = some w := congrArg Core.lockedValue hc
    have hr : m'.state.lockedRound = m.state.round := congrArg Core.lockedRound hc
    have hstep : m.core.step = .prevote := hst
    constructor
    · intro v w' hv' hvh _
      rw [hh] at hvh; rw [hr]
      rcases List.mem_append.mp hv' with h | h
      · rcases hT.pc _ (mem_pcSlots log v h) with a | ⟨_, _, c | ⟨_, c⟩⟩
        · have : v.height < m.state.height := a
          omega
        · exact Int.le_of_lt c
        · rw [hstep] at c; cases c
      · simp at h; subst h; exact Int.le_refl _
    · intro w' hw'
      rw [hv] at hw'
      cases hw'
      rw [hh, hr, hn]
      exact List.mem_append_right _ (by simp)
    · intro h; rw [hv] at h; cases h
  | commit _ p _ _ _ _ _ hn _ hc =>
    have hh : m'.state.height = m.state.height + 1 := congrArg Core.height hc
    have hv : m'.state.lockedValue = Option.none := congrArg Core.lockedValue hc
    have hr : m'.state.lockedRound = -1 := congrArg Core.lockedRound hc
    constructor
    · intro v w hv' hvh _
      rw [hh] at hvh
      rcases List.mem_append.mp hv' with h | h
      · exfalso
        rcases hT.pc _ (mem_pcSlots log v h) with a | ⟨a, _, _⟩
        · have : v.height < m.state.height := a
          omega
        · have : v.height = m.state.height := a
          omega
      · simp at h
    · intro w hw; rw [hv] at hw; cases hw
    · intro _; exact hr

theorem chain_TLInv (env : Env) (m m' : Machine) (acts : List Action) (hc : XChain env A m acts m') :
    ∀ log, TInv m log → LInv m log → TInv m' (log ++ acts) ∧ LInv m' (log ++ acts) := by
  induction hc with
  | nil => intro log hT hL; simpa using ⟨hT, hL⟩
  | cons hm sc _ ih =>
    intro log hT hL
    rw [← List.append_assoc]
    exact ih _ (micro_TInv (A := A) env _ _ _ _ hm sc hT) (micro_LInv (A := A) env _ _ _ _ hm hT hL)

theorem LInv_new (env : Env) (node : Addr) (h : Height) : LInv (Machine.new env node h) [] :=
  ⟨fun v w hv => (by cases hv), fun w hw => (by simp [Machine.new] at hw), fun _ => rfl⟩

theorem chain_nodeAddr (env : Env) (m m' : Machine) (acts : List Action) (hc : XChain env A m acts m') :
    m'.nodeAddr = m.nodeAddr := by
  induction hc with
  | nil => rfl
  | cons hm _ _ ih =>
    rw [ih]
    cases hm <;> assumption

theorem run_lock_is_last_value_precommit (env : Env) (node : Addr) (h0 : Height) (ins : List Input)
    (hd : Disciplined env (Machine.new env node h0) ins) :
    LInv ((Machine.new env node h0).run env ins).1 ((Machine.new env node h0).run env ins).2 ∧
    ((Machine.new env node h0).run env ins).1.nodeAddr = node := by
  have hc := run_chain (A := AnyMsg) env (fun _ => trivial) ins _ (new_MInv env node h0) hd
  have := chain_TLInv (A := AnyMsg) env _ _ _ hc.1 [] (TInv_new env node h0) (LInv_new env node h0)
  simp only [List.nil_append] at this
  exact ⟨this.2, chain_nodeAddr (A := AnyMsg) env _ _ _ hc.1⟩

end Juno.C12
