import JunoModel.C12.ProofsArith
import JunoModel.Generated.Arith
import JunoModel.C12.ProofsAbstract
import JunoModel.C12.ProofsTrace
import JunoModel.C12.ProofsFuel
import JunoModel.C12.ProofsRefine
import JunoModel.C12.ProofsNonVacuity
import JunoModel.C12.ProofsNetwork
import JunoModel.C12.ProofsNonVacuityNet
import JunoModel.C12.ProofsRunTrace
import JunoModel.C12.ProofsCommitLast
import JunoModel.C12.ProofsDriver
import JunoModel.C12.ProofsLock
import JunoModel.C12.ProofsHandover
/-!
C12 — property theorems (statements only; the proofs are in `Proofs*.lean`).

Layers: `Exec` (`Model.lean`) is the executable transcription of juno's state machine and vote
counter, compared action-for-action with the real code by the harness. `Abstract`
(`ModelAbstract.lean`) is the Tendermint algorithm over a global message history with weighted
validators and a Byzantine set; `agreement` is proved there for every reachable state, i.e. for all
schedules, timeouts and Byzantine behaviours.
-/
namespace Juno.C12.Props
open Juno.C12 Juno.C12.Abs

/-! ## thresholds -/

/-- Quorum arithmetic on the code's formulas `f = (N-1)/3`, `q = ceil(2N/3)`, for ALL total powers
`N > 0` (unbounded naturals): two quorums overlap in more than `f`, a quorum is attainable, `f` is
less than a third of `N` (so a set of power `f+1` contains a correct validator whenever the faulty
power is at most `f`). -/
theorem quorum_intersection (N : Nat) (h : 0 < N) :
    N + fN N < 2 * qN N ∧ qN N ≤ N ∧ 3 * fN N < N :=
  ⟨quorum_intersection_nat N h, qN_le N, (fN_floor N h).1⟩

/-- The 64-bit code (`fU`, `qU`: Go `uint` arithmetic) computes exactly these formulas on the whole
`uint64` range (since the repair 487454a `q = N - N/3` cannot wrap). -/
theorem thresholds_no_wrap (N : Nat) (h0 : 0 < N) (h : N < 2 ^ 64) :
    fOf N = fN N ∧ qOf N = qN N :=
  ⟨fOf_eq N h0 h, qOf_eq N h⟩

/-- The model's thresholds ARE the code's: `fU`/`qU` equal the definitions that `/verif/gen`
regenerates from `consensus/votecounter/vote_counter.go` on every run (a source edit of `f` or `q`
makes this stop compiling; `Tie/Quorum.lean` proves quorum intersection over the regenerated
definitions). -/
theorem thresholds_are_the_regenerated_code (n : UInt64) :
    fU n = Juno.Generated.vcF n ∧ qU n = Juno.Generated.vcQ n :=
  ⟨rfl, rfl⟩

/-- Regression witness for the repaired defect (fixed: 487454a): the former formula
`d := 2N; q := d/3 (+1)` wrapped, `q(2^63) = 0`. -/
theorem quorum_formula_before_487454a_wrapped : qUOld (UInt64.ofNat (2 ^ 63)) = 0 := qUOld_wraps

/-- The error branch `N = 0` (excluded by `0 < N` above; the code does not reject it): `q = 0`, so
every existing round entry is a quorum, and `f` wraps to `(2^64-1)/3`. A `Validators` with total
power 0 is outside the property's premise. -/
theorem thresholds_at_zero_total : qU 0 = 0 ∧ fU 0 = 6148914691236517205 := by decide

/-- Weighted quorum intersection: with Byzantine power at most `f`, two validator sets of power at
least `q` share a CORRECT validator. -/
theorem weighted_quorums_share_correct_validator (E : AEnv) (wf : E.WF) (h : Height)
    (P Q : Addr → Prop) (hP : qN (E.N h) ≤ E.wsum h P) (hQ : qN (E.N h) ≤ E.wsum h Q) :
    ∃ a, a ∈ E.vals ∧ P a ∧ Q a ∧ ¬ E.byz a :=
  quorum_intersect E h wf P Q hP hQ

/-! ## Abstract: agreement and validity for all schedules and Byzantine behaviours -/

/-- **Agreement.** In every reachable state of the abstract system — any interleaving of the
correct processes' transitions, timeouts and round changes at arbitrary moments, Byzantine
validators of total power `≤ f` behaving arbitrarily (they are counted in every quorum as having
sent every message) — two correct processes that decided at the same height decided the same
value. -/
theorem agreement (E : AEnv) (wf : E.WF) (h0 : Addr → Height) (s : Sys) (hr : Reach E h0 s)
    (p p' : Addr) (hp : ¬ E.byz p) (hp' : ¬ E.byz p') (h : Height) (r r' : Round) (v v' : Val)
    (hd : s.hist.decision p h r v) (hd' : s.hist.decision p' h r' v') : v = v' :=
  agreement_of_inv E wf s (inv_reach E h0 s hr) p p' hp hp' h r r' v v' hd hd'

/-- A correct process sends at most one prevote and at most one precommit per height and round. -/
theorem one_vote_per_round_abstract (E : AEnv) (h0 : Addr → Height) (s : Sys) (hr : Reach E h0 s)
    (p : Addr) (hp : ¬ E.byz p) (h : Height) (r : Round) (id id' : Option Val) :
    (s.hist.prevote p h r id → s.hist.prevote p h r id' → id = id') ∧
    (s.hist.precommit p h r id → s.hist.precommit p h r id' → id = id') :=
  ⟨(inv_reach E h0 s hr p hp).pv_unique h r id id', (inv_reach E h0 s hr p hp).pc_unique h r id id'⟩

/-- A correct process that precommitted `v` in round `r` prevotes another value `v'` in a later
round `r'` only if a polka for `v'` exists in some round `vr` with `r ≤ vr < r'` (lock rule). -/
theorem lock_respected_abstract (E : AEnv) (h0 : Addr → Height) (s : Sys) (hr : Reach E h0 s)
    (p : Addr) (hp : ¬ E.byz p) (h : Height) (r r' : Round) (v v' : Val)
    (hpv : s.hist.prevote p h r' (some v')) (hpc : s.hist.precommit p h r (some v))
    (hlt : r < r') (hne : v ≠ v') : ∃ vr, r ≤ vr ∧ vr < r' ∧ Polka E s.hist h vr v' :=
  (inv_reach E h0 s hr p hp).unlock h r r' v v' hpv hpc hlt hne

/-! ## Exec: the executable transcription of juno's state machine

`Disciplined env m ins`: the input sequence obeys the protocol of `driver.listen` — a timeout is
only delivered to a started height (`ProcessStart` is called right after construction and right
after every commit, before anything else). Everything else is arbitrary: any messages from any
senders for any heights and rounds, duplicated, reordered, timeouts of any (height, round, step),
start rounds of any value. -/

/-- **One vote per round.** For every disciplined input sequence the machine broadcasts at most one
prevote and at most one precommit per (height, round): the lists of (height, round) slots of all
prevotes, resp. precommits, emitted during the whole run have no duplicates. -/
theorem no_double_vote (env : Env) (node : Addr) (h0 : Height) (ins : List Input)
    (hd : Disciplined env (Machine.new env node h0) ins) :
    (pvSlots ((Machine.new env node h0).run env ins).2).Nodup ∧
    (pcSlots ((Machine.new env node h0).run env ins).2).Nodup :=
  run_no_double_vote env node h0 ins hd

/- The discipline cannot be dropped (robustness lead, see notes/C12.md): `ProcessTimeout` does not
check `isHeightStarted`, so a timeout that matches the height, round and step of a height that is not
started (delivered between construction / a commit and `ProcessStart`) is acted upon, and
`ProcessStart` later resets round and step. (Since cd6cea9 a timeout that does NOT match no longer
runs the rules; the matching one still does.) Witness on the model (the same inputs give the same
actions on the real state machine, see the harness' `lead` case): validator 3 prevotes `nil` AND `8`
in (height 0, round 0). -/
theorem timeout_before_start_breaks_one_vote :
    Action.bcastPrevote ⟨0, 0, 3, some 8⟩ ∈ ((Machine.new exEnv 3 0).run exEnv exUndisciplined).2 ∧
    Action.bcastPrevote ⟨0, 0, 3, none⟩ ∈ ((Machine.new exEnv 3 0).run exEnv exUndisciplined).2 := by
  decide

/-- The computed trace `runTrace` (`ModelTrace.lean`: for every emitting step of the run, the state
of the machine at that moment and the actions it emitted — a function, no existential) IS the run:
its actions, concatenated, are exactly the output of `Machine.run`. -/
theorem run_trace_is_the_run (env : Env) (node : Addr) (h0 : Height) (ins : List Input)
    (hd : Disciplined env (Machine.new env node h0) ins) :
    traceActions ((Machine.new env node h0).runTrace env ins) = ((Machine.new env node h0).run env ins).2 :=
  (runTrace_ok env ins _ (new_MInv env node h0) hd).1

/-- **Lock rule.** For every step `(m1, acts)` of the ACTUAL trace of a disciplined run and every
prevote among `acts`: the machine was, in `m1` — the recorded state at the moment of emission — in
step `propose`, the vote carries `m1`'s height, round and address, and the guard of lines 22–33
(`PrevoteGuardX`) held IN `m1`: a non-nil prevote is for the valid value of the proposal stored for
the current round, and the machine is not locked, or locked on that value, or — the unlock
condition of line 28 — the proposal's valid round `vr` satisfies `lockedRound ≤ vr < round` and
`m1`'s vote counter holds `2f+1` prevotes for the value in `vr`. -/
theorem lock_respected (env : Env) (node : Addr) (h0 : Height) (ins : List Input)
    (hd : Disciplined env (Machine.new env node h0) ins) (m1 : Machine) (acts : List Action)
    (he : (m1, acts) ∈ (Machine.new env node h0).runTrace env ins) (v : Vote)
    (hv : Action.bcastPrevote v ∈ acts) :
    v = ⟨m1.state.height, m1.state.round, m1.nodeAddr, v.id⟩ ∧ m1.state.step = .propose ∧
      PrevoteGuardX env m1 v.id := by
  obtain ⟨m2, hm⟩ := (runTrace_ok env ins _ (new_MInv env node h0) hd).2 _ he
  exact micro_prevote (A := AnyMsg) env m1 m2 acts hm v hv

/-- Every non-nil precommit of the actual trace was emitted in a state `m1` with `step = prevote`,
for the valid value of the proposal stored in `m1` for the current round, with `2f+1` prevotes for
it in `m1`'s vote counter (line 36). -/
theorem precommit_justified (env : Env) (node : Addr) (h0 : Height) (ins : List Input)
    (hd : Disciplined env (Machine.new env node h0) ins) (m1 : Machine) (acts : List Action)
    (he : (m1, acts) ∈ (Machine.new env node h0).runTrace env ins) (v : Vote)
    (hv : Action.bcastPrecommit v ∈ acts) :
    v = ⟨m1.state.height, m1.state.round, m1.nodeAddr, v.id⟩ ∧ m1.state.step = .prevote ∧
      (∀ w, v.id = some w →
        (∃ p, m1.vc.getProposal m1.state.round = some p ∧ p.value = w ∧ env.valid w = true) ∧
        m1.vc.hasQuorumForVote m1.state.round .prevote (some w) = true) := by
  obtain ⟨m2, hm⟩ := (runTrace_ok env ins _ (new_MInv env node h0) hd).2 _ he
  obtain ⟨a, b, c⟩ := micro_precommit (A := AnyMsg) env m1 m2 acts hm v hv
  exact ⟨a, b, fun w hw => ⟨(c w hw).1, (c w hw).2.1⟩⟩

/-- **Validity of decisions (Exec).** Every committed proposal `p` of the actual trace was, in the
state `m1` in which the commit was emitted, the proposal stored in the vote counter for its round
(it passed `AddProposal`: first proposal seen for that round, `sender` field = the round's proposer
of ITS height), is for `m1`'s height, is valid for the application, and has `2f+1` precommits for
its id in its round in `m1`'s vote counter (line 49). -/
theorem decided_was_proposed_and_valid (env : Env) (node : Addr) (h0 : Height) (ins : List Input)
    (hd : Disciplined env (Machine.new env node h0) ins) (m1 : Machine) (acts : List Action)
    (he : (m1, acts) ∈ (Machine.new env node h0).runTrace env ins) (p : Proposal)
    (hv : Action.commit p ∈ acts) :
    m1.vc.getProposal p.round = some p ∧ env.valid p.value = true ∧
      m1.vc.hasQuorumForVote p.round .precommit (some p.value) = true ∧
      p.height = m1.state.height ∧ p.sender = env.proposer p.height p.round := by
  obtain ⟨m2, hm⟩ := (runTrace_ok env ins _ (new_MInv env node h0) hd).2 _ he
  obtain ⟨a, b, c, d, e, _⟩ := micro_commit (A := AnyMsg) env m1 m2 acts hm p hv
  exact ⟨a, b, c, d, e⟩

/-- The model's rule loop carries a fuel of 16 firings; it is never used up (each continuing rule
firing decreases a measure bounded by 11), so the model's `processLoop` is the Go loop and the Go
loop terminates. -/
theorem loop_fuel_enough (env : Env) (rr : Option Round) (m : Machine) (acc : List Action) :
    (Machine.processLoopAux env rr loopFuel m acc).2.2 = true :=
  loop_fuel_enough' env rr m acc

/-- **A Commit is the last action of every list a call returns**, and the height is then not
started — for every machine state and every input, no hypothesis. This is what makes the driver
model's `hasCommit` (a Commit anywhere in the list) equal to what `driver.execute` reports (it returns
at the first Commit and drops the rest of the list: there is no rest; in `ProcessSync` the precommits
after a commit are ignored because the height is not started). -/
theorem commit_is_the_last_action (env : Env) (m : Machine) (i : Input) :
    (∀ pre post p, (m.step env i).2 = pre ++ Action.commit p :: post → post = []) ∧
    ((∃ p, Action.commit p ∈ (m.step env i).2) → (m.step env i).1.isHeightStarted = false) :=
  step_commit_last env m i

/-- **The vote counter is sound.** If every ballot and proposal in the machine's vote counter is
justified by the global history (`Sim.just`: its sender is Byzantine or really sent it), then every
quorum the vote counter reports is a quorum of the global history in the sense of `Abstract`
(tally = power of the DISTINCT senders ≤ weight of the justified validators), and stored proposals
were sent or come from a Byzantine proposer. Needs `EnvOK`: same powers/proposer/validity, validator
list without duplicates, power 0 outside it, total power = sum < 2^64 (fits Go's `uint`). -/
theorem vote_counter_sound {X : Addr → Prop} (E : AEnv) (env : Env) (ok : EnvOK E env X) (wf : E.WF) (s : Sys) (m : Machine)
    (hsim : Sim E env s m) : VCSound E s m :=
  Sim_sound E env ok wf s m hsim

/-- **Exec refines Abstract.** Let `m` be the executable machine of a correct validator, related to
the abstract system state `s` by `Sim` (abstract local state = the machine's Tendermint variables;
vote counter justified by the history). For every input `i` that obeys the driver's discipline
(`InputOK`) and is authentic (`AuthC`: a message from a correct sender was really sent by it — the
network may delay, drop, duplicate and reorder, Byzantine senders may send anything; votes of the
excluded senders `X`, e.g. the sync pseudo-sender, never reach the machine: `NotExcl`), the machine's
step is matched by finitely many transitions of THAT validator in the abstract system: the
simulation holds again, no other process is touched, the history only grows, and every proposal,
prevote, precommit and commit the machine emitted is recorded in the history. -/
theorem exec_refines_abstract {X : Addr → Prop} (E : AEnv) (env : Env) (ok : EnvOK E env X) (wf : E.WF)
    (s : Sys) (m : Machine) (i : Input) (hb : ¬ E.byz m.nodeAddr) (hX : ¬ X m.nodeAddr)
    (hsim : Sim E env s m) (hok : InputOK m i)
    (hauth : ∀ c, RecvOf i c → AuthC E s.hist c ∧ NotExcl X c) :
    ∃ s', Steps E s s' ∧ Sim E env s' (m.step env i).1 ∧ (m.step env i).1.nodeAddr = m.nodeAddr ∧
      (∀ q, q ≠ m.nodeAddr → s'.loc q = s.loc q) ∧ s.hist.le s'.hist ∧
      Recorded (m.step env i).2 m.nodeAddr s'.hist ∧
      HistFrom s.hist s'.hist m.nodeAddr (m.step env i).2 :=
  step_sim E env ok wf s m i hb hX hsim hok hauth

/-! ## The composed system: executable machines inside the driver's loop, over an adversarial network

`Net` (`ModelNetwork.lean`): every correct validator is a `DNode` = the executable machine + the
position of `driver.Driver.listen` in its loop (`needStart`: at the loop head, next call is
`ProcessStart(0)`; otherwise one event — any timeout, any deliverable message, a sync result — is
fed and `needStart` becomes "the returned actions contain a Commit", exactly what `execute` reports).
A message is deliverable iff its sender is Byzantine or the sender's machine broadcast it; it may be
delivered any number of times, in any order, or never. Validator powers, thresholds and proposers
may differ from height to height (`Env` is indexed by the height). Hypotheses (`NetOK`): Byzantine
power ≤ f at every height, N > 0 (`WF`), and the `Validators`/`Application` every machine is given
agree with the abstract environment (`EnvOK`) — except on the excluded senders `N.excl`, whose gossiped
messages `listen` drops (`Passes`: the sync pseudo-sender, d65a60f) and under which nobody runs a
validator. NO discipline hypothesis: it is proved. -/

/-- **The driver's loop keeps the discipline**: whenever the driver is inside its inner loop (about
to feed a timeout or a message) the state machine's height is started — so `ProcessTimeout` is
never called on an unstarted height, which is the hypothesis of `no_double_vote` (and the situation
of the lead `timeout_before_start_breaks_one_vote` cannot arise through `listen`). -/
theorem driver_loop_keeps_discipline (N : NetEnv) (ok : NetOK N) (net : Net) (hr : NetReach N net)
    (p : Addr) (hp : ¬ N.E.byz p) (hn : (net.node p).needStart = false) :
    (net.node p).m.isHeightStarted = true :=
  net_discipline N ok net hr p hp hn

/-- **Agreement for the network of executable machines**, all schedules, all Byzantine behaviours,
across heights: two Commit actions ever emitted by the machines of two correct validators for the
same height carry the same value. -/
theorem network_agreement (N : NetEnv) (ok : NetOK N) (net : Net) (hr : NetReach N net)
    (p p' : Addr) (hp : ¬ N.E.byz p) (hp' : ¬ N.E.byz p') (q q' : Proposal)
    (hq : Action.commit q ∈ (net.node p).out) (hq' : Action.commit q' ∈ (net.node p').out)
    (hh : q.height = q'.height) : q.value = q'.value :=
  net_agreement N ok net hr p p' hp hp' q q' hq hq' hh

/-- **Validity.** Every committed value is valid for the application, the committed proposal's
sender is the proposer of ITS height and round (per-height proposer schedule), and that proposer —
unless it is Byzantine — really BROADCAST a proposal with this value for this height and round
(its machine's output contains it). -/
theorem network_validity (N : NetEnv) (ok : NetOK N) (net : Net) (hr : NetReach N net)
    (p : Addr) (hp : ¬ N.E.byz p) (q : Proposal) (hq : Action.commit q ∈ (net.node p).out) :
    N.E.valid q.value = true ∧ q.sender = N.E.proposer q.height q.round ∧
    (N.E.byz q.sender ∨ ∃ q', Action.bcastProposal q' ∈ (net.node q.sender).out ∧
      q'.height = q.height ∧ q'.round = q.round ∧ q'.value = q.value ∧ q'.sender = q.sender) :=
  net_validity N ok net hr p hp q hq

/-- **Lock rule for the composed system.** If the machine of a correct validator broadcast a
precommit for `v` in round `r` and a prevote for another value `v'` in a later round `r'` of the same
height, then validators holding a quorum of the voting power — Byzantine ones, or correct ones whose
machines really broadcast it (`NetPolka`) — prevoted `v'` in some round `vr` with `r ≤ vr < r'`: the
unlock condition. No discipline hypothesis. -/
theorem network_lock_respected (N : NetEnv) (ok : NetOK N) (net : Net) (hr : NetReach N net)
    (p : Addr) (hp : ¬ N.E.byz p) (h : Height) (r r' : Round) (v v' : Val)
    (hpc : Action.bcastPrecommit ⟨h, r, p, some v⟩ ∈ (net.node p).out)
    (hpv : Action.bcastPrevote ⟨h, r', p, some v'⟩ ∈ (net.node p).out)
    (hlt : r < r') (hne : v ≠ v') : ∃ vr, r ≤ vr ∧ vr < r' ∧ NetPolka N net h vr v' :=
  net_lock_respected N ok net hr p hp h r r' v v' hpc hpv hlt hne

/-- **Agreement for the configuration the repository ships** (since b29aadf + d65a60f). `NetOK` does
not ask the machines' `Validators` to give the excluded senders `N.excl` power 0 (`EnvOK … N.excl`):
`mockValidators` gives the sync pseudo-sender power `N` — block sync needs it — and that is harmless
because `driver.listen` drops every gossiped message carrying that sender (`Passes`), nobody runs a
validator under it (`excl ⊆ byz`), and every other non-member has power 0. `N4` (non-vacuity section)
is an instance of exactly that shape. Block sync itself stays outside (`IsEvent`). -/
theorem agreement_with_shipped_validators (N : NetEnv) (ok : NetOK N) (net : Net)
    (hr : NetReach N net) (p p' : Addr) (hp : ¬ N.E.byz p) (hp' : ¬ N.E.byz p') (q q' : Proposal)
    (hq : Action.commit q ∈ (net.node p).out) (hq' : Action.commit q' ∈ (net.node p').out)
    (hh : q.height = q'.height) : q.value = q'.value :=
  net_agreement N ok net hr p p' hp hp' q q' hq hq' hh

/-- Regression witness for the defect repaired by d65a60f (and b29aadf): the STATE MACHINE ALONE, with
a `Validators` that gives a non-member quorum power (`envPseudo`: the pseudo-sender), is not safe —
with NO faulty validator, two correct validators that saw two genuine proposals and ONE precommit each
carrying the pseudo-sender's address commit DIFFERENT values at height 0. Before d65a60f
`driver.listen` let such a gossiped precommit through; the harness still feeds one to the real driver
on every run and reports `sync-pseudo-sender-precommit-accepted-on-gossip-path` if it commits. -/
theorem agreement_failed_with_sync_pseudo_sender_before_d65a60f :
    Action.commit ⟨0, 0, 0, -1, 8⟩ ∈ ((Machine.new envPseudo 1 0).run envPseudo pseudoA).2 ∧
    Action.commit ⟨0, 1, 3, -1, 12⟩ ∈ ((Machine.new envPseudo 2 0).run envPseudo pseudoB).2 := by
  decide

/-- A correct validator's machine never emits two different prevotes, nor two different precommits,
for one height and round — in the composed system, without any assumption on the call order. -/
theorem network_no_conflicting_votes (N : NetEnv) (ok : NetOK N) (net : Net) (hr : NetReach N net)
    (p : Addr) (hp : ¬ N.E.byz p) (v v' : Vote) (hh : v.height = v'.height) (hrd : v.round = v'.round) :
    (Action.bcastPrevote v ∈ (net.node p).out → Action.bcastPrevote v' ∈ (net.node p).out → v.id = v'.id) ∧
    (Action.bcastPrecommit v ∈ (net.node p).out → Action.bcastPrecommit v' ∈ (net.node p).out → v.id = v'.id) :=
  net_one_vote N ok net hr p hp v v' hh hrd


/-! ## the action glue and `driver.execute` (round 5)

`Action.requiresWALFlush` and `execute` (`ModelDriver.lean`) transcribe
`consensus/types/actions/actions.go` and `Driver.execute`: the WAL is flushed right before every
broadcast and before a commit; `WriteWAL` entries only become durable with such a flush. The real
driver's calls on the WAL store, the broadcasters and the commit listener are compared with
`execute`'s on every run (driver traces). -/

/-- **The WAL entry comes first.** For every machine state and every input: whatever precedes a
broadcast or a Commit in the returned action list contains the `WriteWAL` entry of the input that
caused it (`walEntriesOf`: the message / timeout itself, `Start` of the height being started; for
`ProcessSync` the entry of one of its parts). No hypothesis — also for inputs outside the driver's
discipline and for heights that are not started. -/
theorem wal_entry_precedes_every_broadcast_and_commit (env : Env) (m : Machine) (i : Input)
    (pre : List Action) (a : Action) (post : List Action)
    (h : (m.step env i).2 = pre ++ a :: post) (hf : a.requiresWALFlush = true) :
    ∃ e, e ∈ walEntriesOf m i ∧ Action.writeWAL e ∈ pre :=
  step_wal_precedes env m i pre a post h hf

/-- For a single-part input the list is empty or STARTS with the entry of the input. -/
theorem wal_entry_is_the_first_action (env : Env) (m : Machine) :
    (∀ r, WalFirst (.start m.state.height) (m.step env (.start r)).2) ∧
    (∀ p, WalFirst (.proposal p) (m.step env (.proposal p)).2) ∧
    (∀ v, WalFirst (.prevote v) (m.step env (.prevote v)).2) ∧
    (∀ v, WalFirst (.precommit v) (m.step env (.precommit v)).2) ∧
    (∀ s h r, WalFirst (.timeout s h r) (m.step env (.timeout s h r)).2) :=
  ⟨processStart_walFirst env m, processProposal_walFirst env m, processPrevote_walFirst env m,
   processPrecommit_walFirst env m, processTimeout_walFirst env m⟩

/-- **Nothing leaves the node before its cause is durable.** Run `driver.execute` (not replaying) on
the action list of ANY call of the state machine, from any WAL store state `w`: at the moment of every
broadcast and of the commit delivery (`OnCommit`) the DURABLE part of the store contains a WAL entry
of the input that caused it. (`execTrace` pairs each call `execute` makes with the store at that
moment; `execTrace_is_execute` below: it makes exactly `execute`'s calls.) -/
theorem execute_makes_the_cause_durable_before_any_output (env : Env) (m : Machine) (i : Input)
    (w : WalStore) (o : DOp) (w' : WalStore) (hm : (o, w') ∈ execTrace w (m.step env i).2)
    (ho : o.isOutput = true) : ∃ e, e ∈ walEntriesOf m i ∧ e ∈ w'.durable :=
  execTrace_durable _ _ w false (step_flushOK env m i) (fun h => by cases h) o w' hm ho

theorem execTrace_is_execute (acts : List Action) (w : WalStore) :
    (execTrace w acts).map Prod.fst = (execute false acts).1 :=
  execTrace_ops acts w

/-- What `execute` returns is what the driver-loop model uses (`hasCommit`: a Commit anywhere in the
list) — for every list and both modes. -/
theorem execute_reports_commit_iff_the_list_has_one (replaying : Bool) (acts : List Action) :
    (execute replaying acts).2 = hasCommit acts :=
  execute_reports_commit replaying acts

/-- **Lock bookkeeping, re-lock included.** One rule firing from ANY machine state: if it broadcasts a
precommit for a value `w`, the machine is afterwards locked on `w` in its CURRENT round — also when
`w` is the value it was already locked on in an earlier round (a validator locked on `(w, r)` that
sees a polka for `w` in `r' > r` moves `lockedRound` to `r'`) — with `validValue = w`,
`validRound =` the current round; the vote carries the current height and round. Together with
`lock_respected` (the guard of line 28/29 reads exactly this `lockedRound`) and, for the composed
system, `network_lock_respected` (stated over the precommits the machine BROADCAST, not over the
field). -/
theorem value_precommit_moves_the_lock (env : Env) (m : Machine) (rr : Option Round) (v : Vote) (w : Val)
    (h : (m.process env rr).2.1 = some (Action.bcastPrecommit v)) (hw : v.id = some w) :
    (m.process env rr).1.state.lockedValue = some w ∧ (m.process env rr).1.state.lockedRound = m.state.round ∧
    (m.process env rr).1.state.validValue = some w ∧ (m.process env rr).1.state.validRound = m.state.round ∧
    v.height = m.state.height ∧ v.round = m.state.round :=
  process_value_precommit_locks env m rr v w h hw

/-- **The lock is the last value precommit** (all disciplined runs, induction over the run). At the end
of every disciplined run of the machine: (1) if it is locked on `w`, it BROADCAST the precommit for `w`
in `lockedRound` of its height; (2) every value precommit it broadcast at its height is for a round
`≤ lockedRound` — with `no_double_vote` (one precommit per round): the lock is exactly the LAST value
precommit of the height, re-locks on the same value included; (3) not locked ⇒ `lockedRound = -1`, so
by (2) it broadcast no value precommit at this height in a round `≥ 0`. This is the oracle's own record
of the lock (built from the emitted precommits) proved equal to the field the guard of line 29 reads. -/
theorem lock_is_the_last_value_precommit (env : Env) (node : Addr) (h0 : Height) (ins : List Input)
    (hd : Disciplined env (Machine.new env node h0) ins) :
    let mf := ((Machine.new env node h0).run env ins).1
    let out := ((Machine.new env node h0).run env ins).2
    (∀ w, mf.state.lockedValue = some w →
      Action.bcastPrecommit ⟨mf.state.height, mf.state.lockedRound, node, some w⟩ ∈ out) ∧
    (∀ v w, Action.bcastPrecommit v ∈ out → v.height = mf.state.height → v.id = some w →
      v.round ≤ mf.state.lockedRound) ∧
    (mf.state.lockedValue = none → mf.state.lockedRound = -1) := by
  have h := run_lock_is_last_value_precommit env node h0 ins hd
  refine ⟨fun w hw => ?_, h.1.le, h.1.unl⟩
  have := h.1.mem w hw
  rw [h.2] at this
  exact this

/-- **A height that is not started buffers its messages**: `ProcessProposal/Prevote/Precommit` on a
height that is not started (between a commit and `ProcessStart`; during WAL replay: messages logged
for a height before its `Start` entry) return no action, change nothing but the vote counter, and the
vote counter is updated exactly as for a started height (`AddProposal` / `AddPrevote` / `AddPrecommit`
come first in the guard) — `ProcessStart`'s rule loop then runs over them. -/
theorem unstarted_height_buffers_messages (env : Env) (m : Machine) (h : m.isHeightStarted = false) :
    (∀ p, m.step env (.proposal p) = ({ m with vc := (m.vc.addProposal env p).1 }, [])) ∧
    (∀ v, m.step env (.prevote v) = ({ m with vc := (m.vc.addVote env v .prevote).1 }, [])) ∧
    (∀ v, m.step env (.precommit v) = ({ m with vc := (m.vc.addVote env v .precommit).1 }, [])) :=
  unstarted_buffers env m h

/-- Regression witness for the defect repaired by cd6cea9 (found by C13): `ProcessTimeout` ran the
rule loop also for a timeout it ignored. After `pendingCommitPrefix` (the machine's own round-1
precommit completes a quorum while it handles a round-0 message: the commit rule is not evaluated for
round 1) the obsolete propose timer of round 1 returned `[Commit]` — a commit with NO WAL entry in
front of it, against `wal_entry_precedes_every_broadcast_and_commit`; the code as it is returns
nothing. The harness replays this history on the real machine on every run. -/
theorem ignored_timeout_took_pending_commit_before_cd6cea9 :
    (((Machine.new exEnv 3 0).run exEnv pendingCommitPrefix).1.processTimeoutBefore_cd6cea9 exEnv .propose 0 1).2
      = [Action.commit ⟨0, 1, 1, 0, 8⟩] ∧
    (((Machine.new exEnv 3 0).run exEnv pendingCommitPrefix).1.step exEnv (.timeout .propose 0 1)).2 = [] := by
  decide


/-! ## round 6: replay = live for messages that arrive before their height is started

`VoteCounter.addEntry` / `feed` (`ProofsHandover.lean`): what giving a WAL message entry (proposal,
prevote, precommit) to the state machine does to the vote counter. The harness compares the real vote
counter (all private fields) with the model's in exactly these positions (`placement`, `earlyreplay`
families). -/

/-- **The hand-over commutes with counting.** For ANY vote counter and any list of proposals / prevotes
/ precommits of the NEXT height (any senders, rounds, duplicates, equivocations, refused ones):
counting them in the future-height buffer and then handing over (`StartNewHeight`) gives exactly the
vote counter obtained by handing over first and counting them at the then-current height — every
field: round entries, tallies, ballot sets, `uncountedProposerPower`, thresholds, remaining buffer. -/
theorem next_height_handover_commutes (env : Env) (v : VoteCounter) (es : List WalEntry)
    (h : ∀ e ∈ es, e.isMsgOf (v.cur + 1)) :
    (v.feed env es).startNewHeight env = (v.startNewHeight env).feed env es :=
  feed_handover env es v h

/-- **Messages two or more heights ahead survive a hand-over.** Counting a message of a height beyond the
next one and handing over commute as well: the buffer of that height stays in the future-height map,
with exactly the contents it would have had if the message had arrived after the hand-over. (A
`StartNewHeight` that empties the whole map instead of removing the adopted height breaks this; the WAL
still holds the entries, so a restarted node counts them and votes differently: `earlyreplay`, depth 2.) -/
theorem far_future_message_survives_handover (env : Env) (v : VoteCounter) (e : WalEntry) (h : Height)
    (hh : h > v.cur + 1) (he : e.isMsgOf h) :
    (v.addEntry env e).startNewHeight env = (v.startNewHeight env).addEntry env e :=
  addEntry_handover_far env v e h hh he

/-- **An early message is logged and buffered, nothing else** (live side). A started machine that is
given a message of the next height through any entry point: the vote counter is updated by
`AddProposal/AddPrevote/AddPrecommit` (whether accepted or refused), the Tendermint state does not
move, and the returned list contains no broadcast and no commit (only the WAL entry and possibly a
`TriggerSync`). -/
theorem early_message_is_logged_and_buffered (env : Env) (m : Machine) (hs : m.isHeightStarted = true)
    (hc : m.vc.cur = m.state.height) (e : WalEntry) (he : e.isMsgOf (m.state.height + 1)) :
    (m.step env (.wal e)).1.vc = m.vc.addEntry env e ∧ (m.step env (.wal e)).1.state = m.state ∧
    (m.step env (.wal e)).1.isHeightStarted = true ∧
    (∀ a ∈ (m.step env (.wal e)).2, a.requiresWALFlush = false) :=
  early_entry_live env m hs hc e he

/-- The accepted ones ARE logged: for an accepted proposal / prevote of another height the list is
exactly the WAL entry (so it is in the log a restarted node replays); a refused message leaves nothing. -/
theorem early_message_reaches_the_wal (env : Env) (m : Machine) (hs : m.isHeightStarted = true) :
    (∀ p, p.height ≠ m.state.height → (m.vc.addProposal env p).2 = true →
      (m.step env (.proposal p)).2 = [.writeWAL (.proposal p)]) ∧
    (∀ v, v.height ≠ m.state.height → (m.vc.addVote env v .prevote).2 = true →
      (m.step env (.prevote v)).2 = [.writeWAL (.prevote v)]) ∧
    (∀ v, m.vc.cur = m.state.height → v.height > m.state.height → (m.vc.addVote env v .precommit).2 = true →
      ((m.step env (.precommit v)).2 = [.writeWAL (.precommit v)] ∨
       ∃ s e, (m.step env (.precommit v)).2 = [.writeWAL (.precommit v), .triggerSync s e])) :=
  ⟨fun p hp hok => by
      show (m.processProposal env p).2 = _
      rw [(Juno.C12.early_message_is_logged_and_buffered env m hs).1 p hp hok],
   fun v hv hok => by
      show (m.processPrevote env v).2 = _
      rw [(Juno.C12.early_message_is_logged_and_buffered env m hs).2 v hv hok],
   fun v hc hv hok => (early_precommit_is_logged_and_buffered env m hs hc v hv hok).2.2.2⟩

/-- **replay = live.** `m`: a started machine at height `h` whose future buffer is still empty; `es`:
any messages of height `h+1`. LIVE: `m` is given `es`, then the commit rule fires (`doCommitValue`).
REPLAY: a machine created at `h+1` (what a restart builds from the chain height) is given the same
entries in front of the `Start` entry, as the WAL store returns them. Both machines then have the SAME
vote counter and the SAME Tendermint state and are not started — so `ProcessStart(0)`, the next call in
both worlds, evaluates the rules over identical data: what the node voted before the crash is what it
votes after it. (A guard `!isHeightStarted || !AddX(p)` breaks `early_entry_replayed`, the replay half.) -/
theorem replay_rebuilds_the_live_machine (env : Env) (m : Machine) (es : List WalEntry) (cp : CachedProposal)
    (hs : m.isHeightStarted = true) (hc : m.vc.cur = m.state.height) (hf : m.vc.future = [])
    (he : ∀ e ∈ es, e.isMsgOf (m.state.height + 1)) :
    let live := ((m.run env (es.map .wal)).1.doCommitValue env cp).1
    let rep := ((Machine.new env m.nodeAddr (m.state.height + 1)).run env (es.map .wal)).1
    live.vc = rep.vc ∧ live.state = rep.state ∧ live.isHeightStarted = false ∧ rep.isHeightStarted = false :=
  Juno.C12.replay_rebuilds_the_live_machine env m es cp hs hc hf he

/-! ## non-vacuity -/

-- a disciplined run of the model that locks, commits and starts the next height
example : Disciplined exEnv (Machine.new exEnv 1 0) exDisciplined := by
  simp only [exDisciplined, Disciplined, InputOK, and_true, true_and]; decide
example : Action.commit ⟨0, 0, 0, -1, 8⟩ ∈ ((Machine.new exEnv 1 0).run exEnv exDisciplined).2 := by decide
example : Action.bcastPrecommit ⟨0, 0, 1, some 8⟩ ∈ ((Machine.new exEnv 1 0).run exEnv exDisciplined).2 := by
  decide
example : Action.bcastPrevote ⟨1, 0, 1, some 400⟩ ∈ ((Machine.new exEnv 1 0).run exEnv exDisciplined).2 := by
  decide
-- the hypotheses of `agreement` are satisfiable, and a decision is reachable
example : E4.WF := E4_wf
example : ∃ s, Reach E4 (fun _ => 0) s ∧ s.hist.decision 0 0 0 8 := E4_run_decides
-- the hypotheses of `exec_refines_abstract` are satisfiable: matching environments, initial simulation
example : EnvOK E4 env4 (fun a => a = 9) := env4_ok
example : NetOK N4 := N4_ok
-- a reachable state of the composed system in which a machine has committed
example : ∃ net, NetReach N4 net ∧ Action.commit ⟨0, 0, 0, -1, 8⟩ ∈ (net.node 0).out := N4_run_commits
-- two distinct correct validators commit at one height; `Sim` holds at a non-initial state
example : ∃ net, NetReach N4 net ∧
    Action.commit ⟨0, 0, 0, -1, 8⟩ ∈ (net.node 0).out ∧ Action.commit ⟨0, 0, 0, -1, 8⟩ ∈ (net.node 1).out ∧
    (net.node 0).m.state.height = 1 ∧ ∃ s, Sim N4.E (N4.envOf 0) s (net.node 0).m := N4_run_two_commit
-- the trace of a disciplined run is not empty and contains the state in which the lock was taken
example : ((Machine.new exEnv 1 0).runTrace exEnv exDisciplined).length = 21 := by decide
example : Sim E4 env4 (Sys.init (fun _ => 0)) (Machine.new env4 1 0) := Sim_init E4 env4 (fun _ => 0) 1
-- thresholds
example : fN 4 = 1 ∧ qN 4 = 3 ∧ fN 7 = 2 ∧ qN 7 = 5 ∧ fN 10 = 3 ∧ qN 10 = 7 := by decide

-- round 5: an input whose list has a broadcast behind its WAL entry; `execute` flushes in between
example : (((Machine.new exEnv 1 0).run exEnv [.start 0]).1.step exEnv (.proposal ⟨0, 0, 0, -1, 8⟩)).2 =
    [.writeWAL (.proposal ⟨0, 0, 0, -1, 8⟩), .bcastPrevote ⟨0, 0, 1, some 8⟩] := by decide
example : (execute false [.writeWAL (.proposal ⟨0, 0, 0, -1, 8⟩), .bcastPrevote ⟨0, 0, 1, some 8⟩]).1 =
    [.set (.proposal ⟨0, 0, 0, -1, 8⟩), .flush, .bcast (.bcastPrevote ⟨0, 0, 1, some 8⟩)] := by decide
-- a machine that is not started exists and buffers: the proposal is in its vote counter afterwards
example : (Machine.new exEnv 1 0).isHeightStarted = false ∧
    (((Machine.new exEnv 1 0).step exEnv (.proposal ⟨0, 0, 0, -1, 8⟩)).1.vc.getProposal 0).isSome = true := by decide
-- a re-lock: validator 3 locked on 8 in round 0 sees a polka for 8 in round 1: its lock moves to round 1
example : (((Machine.new exEnv 3 0).run exEnv pendingCommitPrefix).1.state.lockedValue,
           ((Machine.new exEnv 3 0).run exEnv pendingCommitPrefix).1.state.lockedRound) = (some 8, 1) := by decide
example : (((Machine.new exEnv 3 0).run exEnv relockPrefix).1.state.lockedRound = 0) ∧
    (((Machine.new exEnv 3 0).run exEnv (relockPrefix ++ relockSuffix)).1.state.lockedRound = 2) ∧
    Action.bcastPrecommit ⟨0, 2, 3, some 8⟩ ∈ ((Machine.new exEnv 3 0).run exEnv (relockPrefix ++ relockSuffix)).2 := by decide
-- `lock_is_the_last_value_precommit` on a disciplined run with a re-lock (rounds 0 and 2)
example : Disciplined exEnv (Machine.new exEnv 3 0) (relockPrefix ++ relockSuffix) := by
  simp only [relockPrefix, relockSuffix, List.cons_append, List.nil_append, Disciplined, InputOK, and_true, true_and]; decide

-- round 6: validator 1 at height 0 (started) is given the proposal of (1,0) and two prevotes early; live
-- hand-over = replay on a fresh machine at height 1: the proposal and a tally of 2 are there in both
example : ((Machine.new exEnv 1 0).run exEnv [.start 0]).1.isHeightStarted = true ∧
    ((Machine.new exEnv 1 0).run exEnv [.start 0]).1.vc.future = [] ∧
    ((Machine.new exEnv 1 0).run exEnv [.start 0]).1.vc.cur = ((Machine.new exEnv 1 0).run exEnv [.start 0]).1.state.height := by
  decide
example : ∀ e ∈ earlyEntries, e.isMsgOf (((Machine.new exEnv 1 0).run exEnv [.start 0]).1.state.height + 1) := by
  decide
example : ((((Machine.new exEnv 1 1).run exEnv (earlyEntries.map .wal)).1.vc.getProposal 0).isSome = true) ∧
    (((Machine.new exEnv 1 1).run exEnv (earlyEntries.map .wal)).1.vc.hasQuorumForAny 0 .prevote = false) ∧
    ((((Machine.new exEnv 1 0).run exEnv [.start 0]).1.vc.feed exEnv earlyEntries).startNewHeight exEnv).getProposal 0
      = ((Machine.new exEnv 1 1).run exEnv (earlyEntries.map .wal)).1.vc.getProposal 0 := by decide
-- a prevote two heights ahead is still in the buffer after the hand-over
example : (lookupA 2 (((VoteCounter.new exEnv 0).addEntry exEnv (.prevote ⟨2, 0, 0, some 16⟩)).startNewHeight exEnv).future).isSome = true := by
  decide

end Juno.C12.Props
