import JunoModel.C12.ProofsArith
/-!
C12 — property theorems (statements only; the proofs are in `Proofs*.lean`).
-/
namespace Juno.C12.Props
open Juno.C12

/-- Quorum arithmetic on the code's formulas, for ALL total powers `N > 0` (no wrap-around):
two quorums overlap in more than `f`, a quorum is attainable, `f` is less than a third. -/
theorem quorum_intersection (N : Nat) (h : 0 < N) :
    N + fN N < 2 * qN N ∧ qN N ≤ N ∧ 3 * fN N < N :=
  ⟨quorum_intersection_nat N h, qN_le N, (fN_floor N h).1⟩

/-- The 64-bit code computes exactly these formulas as long as `2*N` does not wrap. -/
theorem thresholds_no_wrap (N : Nat) (h0 : 0 < N) (h : N < 2 ^ 63) :
    fOf N = fN N ∧ qOf N = qN N :=
  ⟨fOf_eq N h0 (by omega), qOf_eq N h⟩

end Juno.C12.Props
