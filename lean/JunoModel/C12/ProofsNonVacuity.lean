import JunoModel.C12.ProofsAbstract
import JunoModel.C12.ProofsTally
/-! C12 — non-vacuity of the abstract system: a well-formed environment and a run with a decision. -/
namespace Juno.C12.Abs
open Juno.C12

/-! ## non-vacuity of the abstract system: a well-formed environment and a run with a decision -/

/-- four validators of power 1, validator 3 Byzantine, validator 0 proposes, everything valid;
address 9 — not a validator — plays the sync pseudo-sender: nobody runs a machine under it (it is
declared Byzantine, power 0 in the validator set) -/
def E4 : AEnv :=
  { vals := [0, 1, 2, 3], power := fun _ a => if a < 4 then 1 else 0, byz := fun a => a = 3 ∨ a = 9,
    proposer := fun _ _ => 0, valid := fun _ => true }

theorem wsumL_cons_ge (a : Addr) (t : List Addr) (pw : Addr → Nat) (P : Addr → Prop) :
    wsumL t pw P ≤ wsumL (a :: t) pw P := by
  rw [wsumL_cons]; omega

theorem E4_N (h : Height) : E4.N h = 4 := by
  simp only [AEnv.N, AEnv.wsum, E4]
  rw [wsumL_cons_pos _ _ _ _ trivial, wsumL_cons_pos _ _ _ _ trivial, wsumL_cons_pos _ _ _ _ trivial,
    wsumL_cons_pos _ _ _ _ trivial, wsumL_nil]
  decide

theorem E4_wf : E4.WF := by
  constructor
  · intro h; rw [E4_N]; omega
  · intro h
    rw [E4_N]
    simp only [AEnv.wsum, E4]
    rw [wsumL_cons_neg _ _ _ _ (by decide), wsumL_cons_neg _ _ _ _ (by decide),
      wsumL_cons_neg _ _ _ _ (by decide), wsumL_cons_pos (P := fun a => a = 3 ∨ a = 9) (h := Or.inl rfl), wsumL_nil]
    decide

/-- validators 0, 1 and 3 make a quorum -/
theorem E4_quorum (h : Height) (P : Addr → Prop) (h0 : P 0) (h1 : P 1) (h3 : P 3) :
    qN (E4.N h) ≤ E4.wsum h P := by
  rw [E4_N]
  simp only [AEnv.wsum, E4]
  have := wsumL_cons_ge 2 [3] (fun a => if a < 4 then 1 else 0) P
  rw [wsumL_cons_pos _ _ _ _ h0, wsumL_cons_pos _ _ _ _ h1]
  rw [wsumL_cons_pos _ _ _ _ h3, wsumL_nil] at this
  have hq : qN 4 = 3 := by decide
  have e0 : (if (0:Nat) < 4 then 1 else 0) = 1 := by decide
  have e1 : (if (1:Nat) < 4 then 1 else 0) = 1 := by decide
  have e3 : (if (3:Nat) < 4 then 1 else 0) = 1 := by decide
  rw [e3] at this
  rw [e0, e1]
  omega

end Juno.C12.Abs

namespace Juno.C12.Abs
open Juno.C12

/-- A run of the abstract system in which validator 0 decides value 8 at height 0: validators 0
and 1 start, 0 proposes, both prevote and (seeing a polka that includes the Byzantine validator 3)
lock and precommit, then 0 commits. -/
theorem E4_run_decides : ∃ s, Reach E4 (fun _ => 0) s ∧ s.hist.decision 0 0 0 8 := by
  have nb0 : ¬ E4.byz 0 := by show ¬ (0 = 3 ∨ 0 = 9); decide
  have nb1 : ¬ E4.byz 1 := by show ¬ (1 = 3 ∨ 1 = 9); decide
  have b3 : E4.byz 3 := Or.inl rfl
  have r1 := Reach.step (Reach.init (E := E4) (h0 := fun _ => 0)) (Step.start _ 0 _ 0 nb0 rfl rfl (by decide))
  have r2 := Reach.step r1 (Step.start _ 1 _ 0 nb1 rfl rfl (by decide))
  have r3 := Reach.step r2 (Step.propose _ 0 _ 8 nb0 rfl)
  have r4 := Reach.step r3 (Step.prevote _ 0 _ (some 8) nb0 rfl rfl rfl (Or.inl rfl))
  have r5 := Reach.step r4 (Step.prevote _ 1 _ (some 8) nb1 rfl rfl rfl (Or.inl rfl))
  have r6 := Reach.step r5 (Step.precommitValue _ 0 _ 8 nb0 rfl rfl rfl
    (E4_quorum _ _ (Or.inr (Or.inl (Or.inr ⟨rfl, rfl, rfl, rfl⟩))) (Or.inr (Or.inr ⟨rfl, rfl, rfl, rfl⟩)) (Or.inl b3)))
  have r7 := Reach.step r6 (Step.precommitValue _ 1 _ 8 nb1 rfl rfl rfl
    (E4_quorum _ _ (Or.inr (Or.inl (Or.inr ⟨rfl, rfl, rfl, rfl⟩))) (Or.inr (Or.inr ⟨rfl, rfl, rfl, rfl⟩)) (Or.inl b3)))
  have r8 := Reach.step r7 (Step.commit _ 0 _ 0 8 nb0 rfl rfl
    (E4_quorum _ _ (Or.inr (Or.inl (Or.inr ⟨rfl, rfl, rfl, rfl⟩))) (Or.inr (Or.inr ⟨rfl, rfl, rfl, rfl⟩)) (Or.inl b3))
    rfl (Or.inr (Or.inr ⟨rfl, rfl, rfl, rfl⟩)))
  exact ⟨_, r8, Or.inr ⟨rfl, rfl, rfl, rfl⟩⟩

end Juno.C12.Abs

namespace Juno.C12
open Juno.C12.Abs

/-- an executable environment matching `E4`, of the shape of the repository's `mockValidators`
(since b29aadf): power 1 for the four members, 0 for everybody else — except the sync pseudo-sender
(address 9 here), which has power N = 4 -/
def env4 : Env :=
  { totalPower := fun _ => 4, power := fun _ a => if a = 9 then 4 else if a < 4 then 1 else 0, proposer := fun _ _ => 0,
    valid := fun _ => true, appValue := fun k => 8 + 4 * k }

/-- `env4` agrees with `E4` on every address except the excluded pseudo-sender -/
theorem env4_ok : EnvOK E4 env4 (fun a => a = 9) := by
  refine ⟨rfl, rfl, fun _ a hx => by show (if a = 9 then 4 else if a < 4 then 1 else 0) = _; rw [if_neg hx]; rfl, fun h => by rw [E4_N]; rfl, fun h => by rw [E4_N]; decide, by decide, ?_⟩
  intro h a ha
  simp only [E4, List.mem_cons, List.not_mem_nil, or_false, not_or] at ha
  show (if a < 4 then 1 else 0) = 0
  have : ¬ a < 4 := by omega
  simp [this]

end Juno.C12
