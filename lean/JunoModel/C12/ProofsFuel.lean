import JunoModel.C12.ProofsExec
/-! C12 — the fuel of the model's rule loop is never exhausted (the model loop = the Go loop). -/
namespace Juno.C12

/-! ## the rule loop stops by itself -/

def b2n (b : Bool) : Nat := if b then 0 else 1

def muV (round : Int) (rank : Nat) (f1 f2 f3 : Bool) (rr : Option Int) : Nat :=
  (match rr with
   | some r => if round < r then 6 else 0
   | none => 0) + (2 - rank) + b2n f1 + b2n f2 + b2n f3

/-- Measure that every continuing rule firing decreases. -/
def mu (m : Machine) (rr : Option Round) : Nat :=
  muV m.state.round m.state.step.rank m.state.timeoutPrevoteScheduled m.state.timeoutPrecommitScheduled
    m.state.lockedValueAndOrValidValueSet rr

theorem muV_le (r : Int) (k : Nat) (f1 f2 f3 : Bool) (rr : Option Int) : muV r k f1 f2 f3 rr ≤ 11 := by
  unfold muV b2n
  cases rr <;> cases f1 <;> cases f2 <;> cases f3 <;> simp <;> (try split) <;> omega

theorem mu_le (m : Machine) (rr : Option Round) : mu m rr ≤ 11 := muV_le _ _ _ _ _ _

theorem muV_rank (r : Int) (k1 k2 : Nat) (f1 f2 f3 : Bool) (rr : Option Int) (h : k1 < k2) (h2 : k2 ≤ 2) :
    muV r k2 f1 f2 f3 rr < muV r k1 f1 f2 f3 rr := by
  unfold muV; omega

theorem muV_f1 (r : Int) (k : Nat) (f2 f3 : Bool) (rr : Option Int) :
    muV r k true f2 f3 rr < muV r k false f2 f3 rr := by
  unfold muV b2n; simp

theorem muV_f2 (r : Int) (k : Nat) (f1 f3 : Bool) (rr : Option Int) :
    muV r k f1 true f3 rr < muV r k f1 false f3 rr := by
  unfold muV b2n; simp

theorem muV_f3 (r : Int) (k1 k2 : Nat) (f1 f2 : Bool) (rr : Option Int) (h : k1 ≤ k2) :
    muV r k2 f1 f2 true rr < muV r k1 f1 f2 false rr := by
  unfold muV b2n; simp; omega

theorem muV_skip (r0 r : Int) (k : Nat) (f1 f2 f3 : Bool) (h : r0 < r) :
    muV r 0 false false false (some r) < muV r0 k f1 f2 f3 (some r) := by
  unfold muV b2n; simp [h]; omega

theorem startRound_state (env : Env) (m : Machine) (r : Round) :
    (m.startRound env r).1.state = m.state.reset r := by
  unfold Machine.startRound
  simp only
  split
  · split <;> simp [Machine.sendProposal, Machine.resetState]
  · simp [Machine.resetState]

theorem process_decreases (env : Env) (m : Machine) (rr : Option Round)
    (hc : (m.process env rr).2.2 = true) : mu (m.process env rr).1 rr < mu m rr := by
  have hsel := select_spec env m rr
  unfold Machine.process at hc ⊢
  split at hc <;> rename_i heq <;> rw [heq] at hsel <;> simp only [SelSpec] at hsel <;> simp only at hc ⊢
  · -- line 22
    have hu := hsel.2
    unfold Machine.uponFirstProposal at hu
    simp only [Bool.and_eq_true, beq_iff_eq] at hu
    show muV m.state.round (Step.rank .prevote) _ _ _ rr < muV m.state.round m.state.step.rank _ _ _ rr
    rw [hu.2]; exact muV_rank _ _ _ _ _ _ _ (by decide) (by decide)
  · have hu := hsel.2
    unfold Machine.uponProposalAndPolkaPrevious at hu
    simp only [Bool.and_eq_true, beq_iff_eq, decide_eq_true_eq] at hu
    show muV m.state.round (Step.rank .prevote) _ _ _ rr < muV m.state.round m.state.step.rank _ _ _ rr
    rw [hu.1.1.2]; exact muV_rank _ _ _ _ _ _ _ (by decide) (by decide)
  · have hu := hsel
    unfold Machine.uponPolkaAny at hu
    simp only [Bool.and_eq_true, beq_iff_eq, Bool.not_eq_true'] at hu
    show muV m.state.round m.state.step.rank true _ _ rr < muV m.state.round m.state.step.rank m.state.timeoutPrevoteScheduled _ _ rr
    rw [hu.2]; exact muV_f1 _ _ _ _ _
  · have hu := hsel.2
    unfold Machine.uponProposalAndPolkaCurrent at hu
    simp only [Bool.and_eq_true, decide_eq_true_eq, Bool.not_eq_true'] at hu
    unfold Machine.doProposalAndPolkaCurrent
    by_cases hst : (m.state.step == Step.prevote) = true
    · simp only [hst, if_true]
      show muV m.state.round (Step.rank .precommit) _ _ true rr < muV m.state.round m.state.step.rank _ _ m.state.lockedValueAndOrValidValueSet rr
      rw [hu.2]; exact muV_f3 _ _ _ _ _ _ (by cases m.state.step <;> decide)
    · simp only [hst]
      show muV m.state.round m.state.step.rank _ _ true rr < muV m.state.round m.state.step.rank _ _ m.state.lockedValueAndOrValidValueSet rr
      rw [hu.2]; exact muV_f3 _ _ _ _ _ _ (Nat.le_refl _)
  · have hu := hsel
    unfold Machine.uponPolkaNil at hu
    simp only [Bool.and_eq_true, beq_iff_eq] at hu
    show muV m.state.round (Step.rank .precommit) _ _ _ rr < muV m.state.round m.state.step.rank _ _ _ rr
    rw [hu.2]; exact muV_rank _ _ _ _ _ _ _ (by decide) (by decide)
  · have hu := hsel
    unfold Machine.uponPrecommitAny at hu
    simp only [Bool.and_eq_true, Bool.not_eq_true'] at hu
    show muV m.state.round m.state.step.rank _ true _ rr < muV m.state.round m.state.step.rank _ m.state.timeoutPrecommitScheduled _ rr
    rw [hu.2]; exact muV_f2 _ _ _ _ _
  · cases hc
  · have hu := hsel.2
    unfold Machine.uponSkipRound at hu
    simp only [Bool.and_eq_true, decide_eq_true_eq] at hu
    rw [hsel.1]
    simp only [Machine.doSkipRound, mu, startRound_state, State.reset]
    exact muV_skip _ _ _ _ _ _ hu.1
  · cases hc

theorem loop_terminates (env : Env) (rr : Option Round) : ∀ (fuel : Nat) (m : Machine) (acc : List Action),
    mu m rr < fuel → (Machine.processLoopAux env rr fuel m acc).2.2 = true := by
  intro fuel
  induction fuel with
  | zero => intro m acc h; omega
  | succ n ih =>
    intro m acc h
    unfold Machine.processLoopAux
    have hd := process_decreases env m rr
    generalize m.process env rr = res at hd
    obtain ⟨m', a, cont⟩ := res
    simp only at hd ⊢
    cases cont with
    | false => simp
    | true =>
      simp only [if_true]
      exact ih m' _ (by have := hd rfl; omega)

/-- The fuel of the model's `processLoop` is never used up: the model's loop is the Go loop. -/
theorem loop_fuel_enough' (env : Env) (rr : Option Round) (m : Machine) (acc : List Action) :
    (Machine.processLoopAux env rr loopFuel m acc).2.2 = true :=
  loop_terminates env rr loopFuel m acc (by have := mu_le m rr; unfold loopFuel; omega)

end Juno.C12
