import JunoModel.Common.Proto
import JunoModel.C12.Model
import JunoModel.C12.ModelDriver
/-!
Line-protocol driver for the C12 `Exec` model (`lake build c12drv`). Several machines live side by
side (one per simulated validator), each with its own `Env`.

Requests (numbers decimal, rounds may be negative, ids `nil` or decimal):
  new  <mid> <node> <height> <total> <rot> <validMod> <validRem> <valBase> <valStep> <propMul> <powers,> <proposers,> <altTotal> <altPowers,> <shipped: 0 = off, 1+k = mock shape with power k for non-members>
  sync <mid> <h> <r> <sender> <validRound> <value> (<h> <r> <sender> <id>)*   -- ProcessSync
  wal  <mid> start <h> | prop … | pv … | pc … | to …                          -- ProcessWAL
  start <mid> <round>
  prop <mid> <h> <r> <sender> <validRound> <value>
  pv   <mid> <h> <r> <sender> <id>
  pc   <mid> <h> <r> <sender> <id>
  to   <mid> <step 0|1|2> <h> <r>
  height <mid>
  fq <N>                      -- the thresholds f and q on 64-bit unsigned arithmetic
  exec <replaying 0|1> <action>*   -- `driver.execute` on an action list (actions in the answer format):
                                      the calls it makes (flush | set:<W..> | out:<B..> | sched:<T..> |
                                      commit:<C..> | delete:<h> | sync:<S..>) and `# 0|1` (commit executed)
  state <mid>                 -- the whole machine state (Tendermint variables + vote counter), canonical
  replay <mid> <W:..>*        -- `driver.replay` of the loaded entries on machine <mid>: the entries fed to
                                 ProcessWAL `# ` the calls made while executing the results `# ` final height
Answer of an input: `<actions> # <rules fired>`, both space separated, `-` when empty.
-/
open Juno.Proto Juno.C12

structure Slot where
  mid : Nat
  env : Env
  m : Machine

abbrev DState := List Slot

def parseList (s : String) : Option (List Nat) :=
  if s == "-" then some [] else (s.splitOn ",").mapM (fun w => w.toNat?)

/-- address the harness uses for `consensus/sync.SyncProtocolPrecommitSender` -/
def pseudoSender : Nat := 1048576

/-- Validator set of height `h`: `powers`/`total`, or — for odd heights when `altPowers` is not
empty — `altPowers`/`altTotal` (validator sets that change from height to height). With `shipped`
the shape of the only `Validators` in the repository (`consensus/mock.go` since b29aadf): power 1 for
the members, 0 for every other address, power `total` for the sync pseudo-sender. -/
def mkEnv (total rot vMod vRem vBase vStep pMul : Nat) (powers tbl : List Nat) (altTotal : Nat)
    (altPowers : List Nat) (shipped : Bool) (nonMember : Nat := 0) : Env :=
  let useAlt (h : Nat) : Bool := !altPowers.isEmpty && h % 2 == 1
  { totalPower := fun h => if useAlt h then altTotal else total,
    power := fun h a =>
      if shipped then (if a = pseudoSender then total else if a < powers.length then 1 else nonMember)
      else
        let ps := if useAlt h then altPowers else powers
        if a < ps.length then ps.getD ((a + rot * h) % ps.length) 0 else 0,
    proposer := fun h r =>
      if tbl.isEmpty then 0
      else tbl.getD (((Int.ofNat (h * pMul) + r) % (Int.ofNat tbl.length)).toNat) 0,
    valid := fun v => if vMod = 0 then true else v % vMod != vRem,
    appValue := fun k => vBase + k * vStep }

def showId : Option Val → String
  | none => "nil"
  | some v => toString v

def showStep (s : Step) : String := toString s.rank

def showProposal (p : Proposal) : String :=
  s!"{p.height}:{p.round}:{p.sender}:{p.validRound}:{p.value}"

def showVote (v : Vote) : String := s!"{v.height}:{v.round}:{v.sender}:{showId v.id}"

def showWal : WalEntry → String
  | .start h => s!"W:S:{h}"
  | .proposal p => "W:P:" ++ showProposal p
  | .prevote v => "W:V:" ++ showVote v
  | .precommit v => "W:C:" ++ showVote v
  | .timeout s h r => s!"W:T:{showStep s}:{h}:{r}"

def showAction : Action → String
  | .writeWAL e => showWal e
  | .bcastProposal p => "BP:" ++ showProposal p
  | .bcastPrevote v => "BV:" ++ showVote v
  | .bcastPrecommit v => "BC:" ++ showVote v
  | .schedule s h r => s!"T:{showStep s}:{h}:{r}"
  | .commit p => "C:" ++ showProposal p
  | .triggerSync s e => s!"S:{s}:{e}"

def showList (xs : List String) : String :=
  if xs.isEmpty then "-" else " ".intercalate xs

def selTag : Sel → String
  | .firstProposal _ => "L22"
  | .polkaPrevious _ => "L28"
  | .polkaAny => "L34"
  | .polkaCurrent _ => "L36"
  | .polkaNil => "L44"
  | .precommitAny => "L47"
  | .commitValue _ => "L49"
  | .skipRound _ => "L55"
  | .none => "-"

/-- The rules a `processLoop` started in `m` fires (for the harness' coverage histogram only). -/
def loopRules (env : Env) (rr : Option Round) : Nat → Machine → List String
  | 0, _ => ["FUEL"]
  | fuel + 1, m =>
    match m.select env rr with
    | .none => []
    | s =>
      let (m', _, cont) := m.process env rr
      selTag s :: (if cont then loopRules env rr fuel m' else [])

/-- The machine as it is when the input's `processLoop` starts, if the input reaches the loop. -/
def preLoop (env : Env) (m : Machine) : Input → Option (Machine × Option Round)
  | .start r =>
    if m.isHeightStarted then none
    else some ((({ m with isHeightStarted := true } : Machine).startRound env r).1, none)
  | .proposal p =>
    let (vc, ok) := m.vc.addProposal env p
    if ok && m.isHeightStarted && p.height == m.state.height then some ({ m with vc := vc }, some p.round)
    else none
  | .prevote v =>
    let (vc, ok) := m.vc.addVote env v .prevote
    if ok && m.isHeightStarted && v.height == m.state.height then some ({ m with vc := vc }, some v.round)
    else none
  | .precommit v =>
    let (vc, ok) := m.vc.addVote env v .precommit
    if ok && m.isHeightStarted && v.height == m.state.height then some ({ m with vc := vc }, some v.round)
    else none
  | .timeout s h r => some ((m.onTimeout env s h r).1, none)
  | .sync _ _ => none
  | .wal _ => none

/-- `ProcessWAL` is a dispatch: its rule trace is the one of the call it dispatches to. -/
def unWal : Input → Input
  | .wal (.start _) => .start 0
  | .wal (.proposal p) => .proposal p
  | .wal (.prevote v) => .prevote v
  | .wal (.precommit v) => .precommit v
  | .wal (.timeout s h r) => .timeout s h r
  | i => i

def findSlot (st : DState) (mid : Nat) : Option Slot := st.find? (fun s => s.mid == mid)

def putSlot (st : DState) (s : Slot) : DState := s :: st.filter (fun x => x.mid != s.mid)

def loopFuelOk (env : Env) (m : Machine) (i : Input) : Bool :=
  match preLoop env m (unWal i) with
  | none => true
  | some (m0, rr) => (Machine.processLoopAux env rr loopFuel m0 []).2.2

def runInput (st : DState) (mid : String) (i : Input) : DState × String :=
  match mid.toNat? with
  | none => (st, "bad-op")
  | some mid =>
    match findSlot st mid with
    | none => (st, "bad-op")
    | some s =>
      let (m', acts) := s.m.step s.env i
      let rules := match preLoop s.env s.m (unWal i) with
        | none => []
        | some (m0, rr) => loopRules s.env rr loopFuel m0
      if !loopFuelOk s.env s.m i then (st, "fuel-exhausted") else
      (putSlot st { s with m := m' }, showList (acts.map showAction) ++ " # " ++ showList rules)

def parseId (s : String) : Option (Option Val) :=
  if s == "nil" then some none else s.toNat?.map some

def parseStep (s : String) : Option Step :=
  match s with
  | "0" => some .propose
  | "1" => some .prevote
  | "2" => some .precommit
  | _ => none

/-- precommits of a `sync` request: groups of four words `h r sender id` -/
def parseVotes : List String → Option (List Vote)
  | [] => some []
  | h :: r :: s :: id :: rest =>
    match h.toNat?, r.toInt?, s.toNat?, parseId id, parseVotes rest with
    | some h, some r, some s, some id, some vs => some (⟨h, r, s, id⟩ :: vs)
    | _, _, _, _, _ => none
  | _ => none


/-! ### `exec`: `driver.execute` on a list of actions given in the answer format -/

def parseVoteW : List String → Option Vote
  | [h, r, s, id] =>
    match h.toNat?, r.toInt?, s.toNat?, parseId id with
    | some h, some r, some s, some id => some ⟨h, r, s, id⟩
    | _, _, _, _ => none
  | _ => none

def parseProposalW : List String → Option Proposal
  | [h, r, s, vr, v] =>
    match h.toNat?, r.toInt?, s.toNat?, vr.toInt?, v.toNat? with
    | some h, some r, some s, some vr, some v => some ⟨h, r, s, vr, v⟩
    | _, _, _, _, _ => none
  | _ => none

def parseAction (w : String) : Option Action :=
  match w.splitOn ":" with
  | ["W", "S", h] => h.toNat?.map (fun h => .writeWAL (.start h))
  | "W" :: "P" :: rest => (parseProposalW rest).map (fun p => .writeWAL (.proposal p))
  | "W" :: "V" :: rest => (parseVoteW rest).map (fun v => .writeWAL (.prevote v))
  | "W" :: "C" :: rest => (parseVoteW rest).map (fun v => .writeWAL (.precommit v))
  | ["W", "T", s, h, r] =>
    match parseStep s, h.toNat?, r.toInt? with
    | some s, some h, some r => some (.writeWAL (.timeout s h r))
    | _, _, _ => none
  | "BP" :: rest => (parseProposalW rest).map .bcastProposal
  | "BV" :: rest => (parseVoteW rest).map .bcastPrevote
  | "BC" :: rest => (parseVoteW rest).map .bcastPrecommit
  | ["T", s, h, r] =>
    match parseStep s, h.toNat?, r.toInt? with
    | some s, some h, some r => some (.schedule s h r)
    | _, _, _ => none
  | "C" :: rest => (parseProposalW rest).map .commit
  | ["S", s, e] =>
    match s.toNat?, e.toNat? with
    | some s, some e => some (.triggerSync s e)
    | _, _ => none
  | _ => none

def showDOp : DOp → String
  | .flush => "flush"
  | .set e => "set:" ++ showWal e
  | .bcast a => "out:" ++ showAction a
  | .sched s h r => s!"sched:T:{showStep s}:{h}:{r}"
  | .onCommit p => "commit:C:" ++ showProposal p
  | .delete h => s!"delete:{h}"
  | .sync s e => s!"sync:S:{s}:{e}"

/-! ### `state`: canonical dump of a machine (maps sorted by key) -/

def sortBy {α : Type} (lt : α → α → Bool) (xs : List α) : List α :=
  xs.foldl (fun acc x =>
    let rec ins : List α → List α
      | [] => [x]
      | y :: ys => if lt x y then x :: y :: ys else y :: ins ys
    ins acc) []

def showBool (b : Bool) : String := if b then "1" else "0"

def showBallots (b : BallotSet) : String :=
  let bs := sortBy (fun (x y : Addr × Bool × Bool) => x.1 < y.1) b.ballots
  s!"{b.total}/{b.perPrevote}/{b.perPrecommit}[" ++
    ",".intercalate (bs.map (fun x => s!"{x.1}:{showBool x.2.1}{showBool x.2.2}")) ++ "]"

def showRoundData (rd : RoundData) : String :=
  let p := match rd.proposal with
    | none => "-"
    | some p => showProposal p
  let ids := sortBy (fun (x y : Val × BallotSet) => x.1 < y.1) rd.perId
  s!"p={p};u={rd.uncounted};nil={showBallots rd.nilVotes};all={showBallots rd.allVotes};ids=" ++
    "|".intercalate (ids.map (fun x => s!"{x.1}~{showBallots x.2}"))

def showRoundMap (rm : RoundMap) : String :=
  let rs := sortBy (fun (x y : Round × RoundData) => x.1 < y.1) rm
  "{" ++ " ".intercalate (rs.map (fun x => s!"r{x.1}<{showRoundData x.2}>")) ++ "}"

def showMachine (m : Machine) : String :=
  let s := m.state
  let fut := sortBy (fun (x y : Height × RoundMap) => x.1 < y.1) m.vc.future
  s!"h={s.height} r={s.round} st={showStep s.step} lv={showId s.lockedValue} lr={s.lockedRound} " ++
  s!"vv={showId s.validValue} vr={s.validRound} f={showBool s.timeoutPrevoteScheduled}{showBool s.timeoutPrecommitScheduled}{showBool s.lockedValueAndOrValidValueSet} " ++
  s!"started={showBool m.isHeightStarted} lts={m.lastTriggerSync} lq={m.lastQuorum} " ++
  s!"vc={m.vc.cur}/{m.vc.totalVP}/{m.vc.faultyVP}/{m.vc.quorumVP} cur={showRoundMap m.vc.rounds} fut=" ++
  "[" ++ " ".intercalate (fut.map (fun x => s!"h{x.1}{showRoundMap x.2}")) ++ "]"

def step (st : DState) (line : String) : DState × String :=
  match words line with
  | ["new", mid, node, h, total, rot, vMod, vRem, vBase, vStep, pMul, powers, tbl, altTotal, altPowers, shipped] =>
    match mid.toNat?, node.toNat?, h.toNat?, total.toNat?, rot.toNat?, vMod.toNat?, vRem.toNat?,
          vBase.toNat?, vStep.toNat?, pMul.toNat?, parseList powers, parseList tbl, altTotal.toNat?,
          parseList altPowers, shipped.toNat? with
    | some mid, some node, some h, some total, some rot, some vMod, some vRem, some vBase,
      some vStep, some pMul, some powers, some tbl, some altTotal, some altPowers, some shipped =>
      let env := mkEnv total rot vMod vRem vBase vStep pMul powers tbl altTotal altPowers (shipped != 0) (shipped - 1)
      (putSlot st ⟨mid, env, Machine.new env node h⟩, "ok")
    | _, _, _, _, _, _, _, _, _, _, _, _, _, _, _ => (st, "bad-op")
  | ["start", mid, r] =>
    match r.toInt? with
    | some r => runInput st mid (.start r)
    | none => (st, "bad-op")
  | ["prop", mid, h, r, s, vr, v] =>
    match h.toNat?, r.toInt?, s.toNat?, vr.toInt?, v.toNat? with
    | some h, some r, some s, some vr, some v => runInput st mid (.proposal ⟨h, r, s, vr, v⟩)
    | _, _, _, _, _ => (st, "bad-op")
  | ["pv", mid, h, r, s, id] =>
    match h.toNat?, r.toInt?, s.toNat?, parseId id with
    | some h, some r, some s, some id => runInput st mid (.prevote ⟨h, r, s, id⟩)
    | _, _, _, _ => (st, "bad-op")
  | ["pc", mid, h, r, s, id] =>
    match h.toNat?, r.toInt?, s.toNat?, parseId id with
    | some h, some r, some s, some id => runInput st mid (.precommit ⟨h, r, s, id⟩)
    | _, _, _, _ => (st, "bad-op")
  | ["to", mid, sp, h, r] =>
    match parseStep sp, h.toNat?, r.toInt? with
    | some sp, some h, some r => runInput st mid (.timeout sp h r)
    | _, _, _ => (st, "bad-op")
  | "sync" :: mid :: h :: r :: s :: vr :: v :: rest =>
    match h.toNat?, r.toInt?, s.toNat?, vr.toInt?, v.toNat?, parseVotes rest with
    | some h, some r, some s, some vr, some v, some vs => runInput st mid (.sync ⟨h, r, s, vr, v⟩ vs)
    | _, _, _, _, _, _ => (st, "bad-op")
  | ["wal", mid, "start", h] =>
    match h.toNat? with
    | some h => runInput st mid (.wal (.start h))
    | none => (st, "bad-op")
  | ["wal", mid, "prop", h, r, s, vr, v] =>
    match h.toNat?, r.toInt?, s.toNat?, vr.toInt?, v.toNat? with
    | some h, some r, some s, some vr, some v => runInput st mid (.wal (.proposal ⟨h, r, s, vr, v⟩))
    | _, _, _, _, _ => (st, "bad-op")
  | ["wal", mid, "pv", h, r, s, id] =>
    match h.toNat?, r.toInt?, s.toNat?, parseId id with
    | some h, some r, some s, some id => runInput st mid (.wal (.prevote ⟨h, r, s, id⟩))
    | _, _, _, _ => (st, "bad-op")
  | ["wal", mid, "pc", h, r, s, id] =>
    match h.toNat?, r.toInt?, s.toNat?, parseId id with
    | some h, some r, some s, some id => runInput st mid (.wal (.precommit ⟨h, r, s, id⟩))
    | _, _, _, _ => (st, "bad-op")
  | ["wal", mid, "to", sp, h, r] =>
    match parseStep sp, h.toNat?, r.toInt? with
    | some sp, some h, some r => runInput st mid (.wal (.timeout sp h r))
    | _, _, _ => (st, "bad-op")
  | ["height", mid] =>
    match mid.toNat? with
    | some mid =>
      match findSlot st mid with
      | some s => (st, toString s.m.state.height)
      | none => (st, "bad-op")
    | none => (st, "bad-op")
  | "exec" :: b :: ws =>
    match ws.mapM parseAction with
    | some acts =>
      if b == "0" || b == "1" then
        let (ops, c) := execute (b == "1") acts
        (st, showList (ops.map showDOp) ++ " # " ++ showBool c)
      else (st, "bad-op")
    | none => (st, "bad-op")
  | "replay" :: mid :: ws =>
    match mid.toNat?, ws.mapM parseAction with
    | some mid, some acts =>
      match findSlot st mid, acts.mapM (fun a => match a with | .writeWAL e => some e | _ => none) with
      | some s, some es =>
        let (m', ops, fed) := replay s.env s.m es
        (putSlot st { s with m := m' },
         showList (fed.map showWal) ++ " # " ++ showList (ops.map showDOp) ++ " # " ++ toString m'.state.height)
      | _, _ => (st, "bad-op")
    | _, _ => (st, "bad-op")
  | ["state", mid] =>
    match mid.toNat? with
    | some mid =>
      match findSlot st mid with
      | some s => (st, showMachine s.m)
      | none => (st, "bad-op")
    | none => (st, "bad-op")
  | ["fq", n] =>
    match n.toNat? with
    | some n =>
      if n < 2 ^ 64 then (st, s!"{fOf n} {qOf n}") else (st, "bad-op")
    | none => (st, "bad-op")
  | _ => (st, "bad-op")

def main : IO Unit := loop step []
