import JunoModel.C12.Model
/-! C12 — vote counter lemmas: association lists; every stored proposal comes from the proposer of its round. -/
namespace Juno.C12

/-! ## association lists -/

theorem lookupR_setR_same {β : Type} (k : Int) (v : β) (l : List (Int × β)) :
    lookupR k (setR k v l) = some v := by
  induction l with
  | nil => simp [setR, lookupR]
  | cons x t ih =>
    obtain ⟨k', v'⟩ := x
    by_cases h : k' = k <;> simp [setR, lookupR, h, ih]

theorem lookupR_setR_other {β : Type} (k k2 : Int) (v : β) (l : List (Int × β)) (hne : k2 ≠ k) :
    lookupR k2 (setR k v l) = lookupR k2 l := by
  induction l with
  | nil => simp [setR, lookupR]; intro h; exact (hne h.symm).elim
  | cons x t ih =>
    obtain ⟨k', v'⟩ := x
    by_cases h : k' = k
    · subst h; simp [setR, lookupR]
      by_cases h2 : k' = k2
      · exact (hne h2.symm).elim
      · simp [h2]
    · simp [setR, lookupR, h]
      by_cases h2 : k' = k2 <;> simp [h2, ih]

theorem lookupA_setA_same {β : Type} (k : Nat) (v : β) (l : List (Nat × β)) :
    lookupA k (setA k v l) = some v := by
  induction l with
  | nil => simp [setA, lookupA]
  | cons x t ih =>
    obtain ⟨k', v'⟩ := x
    by_cases h : k' = k <;> simp [setA, lookupA, h, ih]

theorem lookupA_setA_other {β : Type} (k k2 : Nat) (v : β) (l : List (Nat × β)) (hne : k2 ≠ k) :
    lookupA k2 (setA k v l) = lookupA k2 l := by
  induction l with
  | nil => simp [setA, lookupA]; intro h; exact (hne h.symm).elim
  | cons x t ih =>
    obtain ⟨k', v'⟩ := x
    by_cases h : k' = k
    · subst h; simp [setA, lookupA]
      by_cases h2 : k' = k2
      · exact (hne h2.symm).elim
      · simp [h2]
    · simp [setA, lookupA, h]
      by_cases h2 : k' = k2 <;> simp [h2, ih]

theorem lookupA_filter_ne {β : Type} (k k2 : Nat) (l : List (Nat × β)) (hne : k2 ≠ k) :
    lookupA k2 (l.filter (fun e => e.1 ≠ k)) = lookupA k2 l := by
  induction l with
  | nil => simp [lookupA]
  | cons x t ih =>
    obtain ⟨k', v'⟩ := x
    by_cases h : k' = k
    · subst h
      have : k' ≠ k2 := fun e => hne e.symm
      rw [List.filter_cons_of_neg (by simp)]
      simp only [lookupA, this, if_false]; exact ih
    · rw [List.filter_cons_of_pos (by simp [h])]
      by_cases h2 : k' = k2
      · simp [lookupA, h2]
      · simp only [lookupA, h2, if_false]; exact ih

/-! ## stored proposals come from the proposer of their round -/

def PropOK (env : Env) (h : Height) (r : Round) (rd : RoundData) : Prop :=
  ∀ p, rd.proposal = some p → p.round = r ∧ p.height = h ∧ p.sender = env.proposer h r

def RMInv (env : Env) (h : Height) (rm : RoundMap) : Prop :=
  ∀ r rd, lookupR r rm = some rd → PropOK env h r rd

structure VCInv (env : Env) (vc : VoteCounter) : Prop where
  cur : RMInv env vc.cur vc.rounds
  fut : ∀ h rm, lookupA h vc.future = some rm → RMInv env h rm
  q : vc.quorumVP = qOf (env.totalPower vc.cur)

theorem PropOK_empty (env : Env) (h : Height) (r : Round) : PropOK env h r RoundData.empty := by
  intro p hp; simp [RoundData.empty] at hp

theorem RMInv_nil (env : Env) (h : Height) : RMInv env h [] := by
  intro r rd hl; simp [lookupR] at hl

theorem RMInv_setR (env : Env) (h : Height) (rm : RoundMap) (r : Round) (rd : RoundData)
    (hi : RMInv env h rm) (hok : PropOK env h r rd) : RMInv env h (setR r rd rm) := by
  intro r2 rd2 hl
  by_cases e : r2 = r
  · subst e; rw [lookupR_setR_same] at hl; cases hl; exact hok
  · rw [lookupR_setR_other _ _ _ _ e] at hl; exact hi r2 rd2 hl

theorem getD_PropOK (env : Env) (h : Height) (rm : RoundMap) (r : Round) (hi : RMInv env h rm) :
    PropOK env h r ((lookupR r rm).getD RoundData.empty) := by
  cases e : lookupR r rm with
  | none => exact PropOK_empty env h r
  | some rd => exact hi r rd e

theorem withRoundData_inv (env : Env) (vc vc' : VoteCounter) (h : Height) (r : Round)
    (upd : RoundData → RoundData × Bool) (ok : Bool)
    (hupd : ∀ rd, PropOK env h r rd → PropOK env h r (upd rd).1)
    (hi : VCInv env vc) (hw : vc.withRoundData h r upd = some (vc', ok)) :
    VCInv env vc' ∧ vc'.cur = vc.cur ∧ vc'.quorumVP = vc.quorumVP ∧ vc'.faultyVP = vc.faultyVP := by
  unfold VoteCounter.withRoundData at hw
  split at hw
  · cases hw
  · split at hw
    · rename_i _ heq
      simp only [Option.some.injEq, Prod.mk.injEq] at hw
      obtain ⟨rfl, _⟩ := hw
      refine ⟨⟨?_, hi.fut, hi.q⟩, rfl, rfl, rfl⟩
      subst heq
      exact RMInv_setR env _ _ r _ hi.cur (hupd _ (getD_PropOK env _ _ r hi.cur))
    · simp only [Option.some.injEq, Prod.mk.injEq] at hw
      obtain ⟨rfl, _⟩ := hw
      refine ⟨⟨hi.cur, ?_, hi.q⟩, rfl, rfl, rfl⟩
      intro h2 rm2 hl
      by_cases e : h2 = h
      · subst e
        rw [lookupA_setA_same] at hl; cases hl
        have hrm : RMInv env h2 ((lookupA h2 vc.future).getD []) := by
          cases e2 : lookupA h2 vc.future with
          | none => exact RMInv_nil env h2
          | some rm => exact hi.fut h2 rm e2
        exact RMInv_setR env _ _ r _ hrm (hupd _ (getD_PropOK env _ _ r hrm))
      · rw [lookupA_setA_other _ _ _ _ e] at hl; exact hi.fut h2 rm2 hl

theorem addVote_rd_proposal (rd : RoundData) (v : Vote) (pw : Nat) (t : VoteType) :
    (rd.addVote v pw t).1.proposal = rd.proposal := by
  unfold RoundData.addVote
  cases v.id <;> simp

theorem addVote_inv (env : Env) (vc : VoteCounter) (v : Vote) (t : VoteType) (hi : VCInv env vc) :
    VCInv env (vc.addVote env v t).1 ∧ (vc.addVote env v t).1.cur = vc.cur ∧
    (vc.addVote env v t).1.quorumVP = vc.quorumVP ∧ (vc.addVote env v t).1.faultyVP = vc.faultyVP := by
  unfold VoteCounter.addVote
  split
  · exact ⟨hi, rfl, rfl, rfl⟩
  · rename_i r heq
    obtain ⟨vc', ok⟩ := r
    exact withRoundData_inv env vc vc' _ _ _ ok
      (fun rd hok p hp => hok p (by rw [addVote_rd_proposal] at hp; exact hp)) hi heq

theorem setProposal_ok (env : Env) (rd : RoundData) (p : Proposal) (pw : Nat)
    (hs : p.sender = env.proposer p.height p.round) (hok : PropOK env p.height p.round rd) :
    PropOK env p.height p.round (rd.setProposal p pw).1 := by
  unfold RoundData.setProposal
  split
  · exact hok
  · intro q hq
    simp at hq; subst hq
    exact ⟨rfl, rfl, hs⟩

theorem addProposal_inv (env : Env) (vc : VoteCounter) (p : Proposal) (hi : VCInv env vc) :
    VCInv env (vc.addProposal env p).1 ∧ (vc.addProposal env p).1.cur = vc.cur ∧
    (vc.addProposal env p).1.quorumVP = vc.quorumVP ∧ (vc.addProposal env p).1.faultyVP = vc.faultyVP := by
  unfold VoteCounter.addProposal
  split
  · exact ⟨hi, rfl, rfl, rfl⟩
  · rename_i r heq
    obtain ⟨vc', ok⟩ := r
    refine withRoundData_inv env vc vc' _ _ _ ok ?_ hi heq
    intro rd hok
    by_cases hs : p.sender = env.proposer p.height p.round
    · simp only [hs, ne_eq, not_true_eq_false, if_false]
      exact setProposal_ok env rd p _ hs hok
    · simp only [ne_eq, hs, not_false_eq_true, if_true]; exact hok

theorem hasFuturePrecommitQuorum_inv (env : Env) (vc : VoteCounter) (h : Height) (r : Round)
    (id : Option Val) (hi : VCInv env vc) :
    VCInv env (vc.hasFuturePrecommitQuorum h r id).1 ∧ (vc.hasFuturePrecommitQuorum h r id).1.cur = vc.cur := by
  unfold VoteCounter.hasFuturePrecommitQuorum
  split
  · exact ⟨hi, rfl⟩
  · rename_i x heq
    obtain ⟨vc', ok⟩ := x
    have := withRoundData_inv env vc vc' _ _ _ ok (fun rd hok => hok) hi heq
    exact ⟨this.1, this.2.1⟩

theorem startNewHeight_inv (env : Env) (vc : VoteCounter) (hi : VCInv env vc) :
    VCInv env (vc.startNewHeight env) ∧ (vc.startNewHeight env).cur = vc.cur + 1 := by
  unfold VoteCounter.startNewHeight
  refine ⟨⟨?_, ?_, rfl⟩, rfl⟩
  · simp only
    cases e : lookupA (vc.cur + 1) vc.future with
    | none => exact RMInv_nil env _
    | some rm => exact hi.fut _ rm e
  · intro h rm hl
    simp only at hl
    by_cases e : h = vc.cur + 1
    · subst e
      -- the entry of the new height was removed
      exfalso
      have : ∀ (l : List (Nat × RoundMap)), lookupA (vc.cur + 1) (l.filter (fun e => e.1 ≠ vc.cur + 1)) = none := by
        intro l
        induction l with
        | nil => simp [lookupA]
        | cons x t ih =>
          obtain ⟨k', v'⟩ := x
          by_cases hk : k' = vc.cur + 1
          · rw [List.filter_cons_of_neg (by simp [hk])]; exact ih
          · rw [List.filter_cons_of_pos (by simp [hk])]; simp only [lookupA, hk, if_false]; exact ih
      rw [this] at hl; cases hl
    · rw [lookupA_filter_ne _ _ _ e] at hl
      exact hi.fut h rm hl

theorem new_inv (env : Env) (h : Height) : VCInv env (VoteCounter.new env h) :=
  ⟨RMInv_nil env _, fun h rm hl => by simp [VoteCounter.new, lookupA] at hl, rfl⟩

theorem getProposal_ok (env : Env) (vc : VoteCounter) (hi : VCInv env vc) (r : Round) (p : Proposal)
    (hg : vc.getProposal r = some p) :
    p.round = r ∧ p.height = vc.cur ∧ p.sender = env.proposer vc.cur r := by
  unfold VoteCounter.getProposal at hg
  split at hg
  · rename_i rd heq
    exact hi.cur r rd heq p hg
  · cases hg


end Juno.C12
