import JunoModel.C12.ModelDriver
/-!
C12 — round 6: the hand-over of buffered next-height messages (`VoteCounter.StartNewHeight`) commutes
with `AddProposal` / `AddPrevote` / `AddPrecommit`: a message of height `cur+1` that is counted while
the vote counter is still at `cur` (live: the validator has not committed yet) leaves, after the
hand-over, exactly the vote counter that results from counting it after the hand-over (replay: a
restarted machine is created at `cur+1` and is fed the entries logged before the `Start` entry of that
height). "replay = live" for the vote counter.
-/
namespace Juno.C12

theorem lookupA_setA_selfH {β : Type} (k : Nat) (x : β) (l : List (Nat × β)) :
    lookupA k (setA k x l) = some x := by
  induction l with
  | nil => simp [setA, lookupA]
  | cons e rest ih =>
    obtain ⟨k', v'⟩ := e
    by_cases hk : k' = k
    · simp [setA, lookupA, hk]
    · simp [setA, lookupA, hk, ih]

theorem filter_setA_neH' {β : Type} (k : Nat) (x : β) (l : List (Nat × β)) :
    (setA k x l).filter (fun e => !decide (e.1 = k)) = l.filter (fun e => !decide (e.1 = k)) := by
  induction l with
  | nil => simp [setA]
  | cons e rest ih =>
    obtain ⟨k', v'⟩ := e
    by_cases hk : k' = k
    · simp [setA, hk]
    · simp only [setA, hk, if_false, List.filter_cons, decide_false, Bool.not_false, if_true, ih]

theorem filter_setA_neH {β : Type} (k : Nat) (x : β) (l : List (Nat × β)) :
    (setA k x l).filter (fun e => e.1 ≠ k) = l.filter (fun e => e.1 ≠ k) := by
  simpa using filter_setA_neH' k x l

/-- The core: `getRoundData` + update on the buffer of height `cur+1`, then the hand-over, is the
hand-over followed by the same `getRoundData` + update on the current height. -/
theorem withRoundData_handover (env : Env) (v : VoteCounter) (r : Round)
    (upd : RoundData → RoundData × Bool) :
    (v.withRoundData (v.cur + 1) r upd).map (fun x => (x.1.startNewHeight env, x.2)) =
      (v.startNewHeight env).withRoundData (v.cur + 1) r upd := by
  have h1 : ¬ (v.cur + 1 < v.cur) := by omega
  have h2 : ¬ (v.cur + 1 = v.cur) := by omega
  simp only [VoteCounter.withRoundData, h1, h2, if_false, VoteCounter.startNewHeight,
    Nat.lt_irrefl, if_true, Option.map_some]
  simp [lookupA_setA_selfH, filter_setA_neH']

theorem addVote_handover (env : Env) (v : VoteCounter) (vote : Vote) (t : VoteType)
    (hh : vote.height = v.cur + 1) :
    (((v.addVote env vote t).1.startNewHeight env), (v.addVote env vote t).2) =
      (v.startNewHeight env).addVote env vote t := by
  have h := withRoundData_handover env v vote.round
    (fun rd => rd.addVote vote (env.power vote.height vote.sender) t)
  unfold VoteCounter.addVote
  rw [hh] at *
  rw [← h]
  cases hw : v.withRoundData (v.cur + 1) vote.round
      (fun rd => rd.addVote vote (env.power (v.cur + 1) vote.sender) t) with
  | some x => rfl
  | none =>
    -- impossible: `cur+1` is not below `cur`
    exfalso
    have h1 : ¬ (v.cur + 1 < v.cur) := by omega
    simp [VoteCounter.withRoundData, h1] at hw

theorem addProposal_handover (env : Env) (v : VoteCounter) (p : Proposal)
    (hh : p.height = v.cur + 1) :
    (((v.addProposal env p).1.startNewHeight env), (v.addProposal env p).2) =
      (v.startNewHeight env).addProposal env p := by
  have h := withRoundData_handover env v p.round
    (fun rd => if p.sender ≠ env.proposer p.height p.round then (rd, false)
      else rd.setProposal p (env.power p.height p.sender))
  unfold VoteCounter.addProposal
  rw [hh] at *
  rw [← h]
  cases hw : v.withRoundData (v.cur + 1) p.round
      (fun rd => if p.sender ≠ env.proposer (v.cur + 1) p.round then (rd, false)
        else rd.setProposal p (env.power (v.cur + 1) p.sender)) with
  | some x => rfl
  | none =>
    exfalso
    have h1 : ¬ (v.cur + 1 < v.cur) := by omega
    simp [VoteCounter.withRoundData, h1] at hw

/-- What a WAL entry does to the vote counter when the state machine is given it (`Start` and
`Timeout` entries do not touch it). -/
def VoteCounter.addEntry (env : Env) (v : VoteCounter) : WalEntry → VoteCounter
  | .proposal p => (v.addProposal env p).1
  | .prevote x => (v.addVote env x .prevote).1
  | .precommit x => (v.addVote env x .precommit).1
  | .start _ => v
  | .timeout _ _ _ => v

def VoteCounter.feed (env : Env) (v : VoteCounter) (es : List WalEntry) : VoteCounter :=
  es.foldl (VoteCounter.addEntry env) v

/-- a message entry (proposal / prevote / precommit) of height `h` -/
def WalEntry.isMsgOf (h : Height) : WalEntry → Prop
  | .proposal p => p.height = h
  | .prevote x => x.height = h
  | .precommit x => x.height = h
  | .start _ => False
  | .timeout _ _ _ => False

theorem startNewHeight_cur (env : Env) (v : VoteCounter) : (v.startNewHeight env).cur = v.cur + 1 := rfl

theorem addEntry_cur (env : Env) (v : VoteCounter) (e : WalEntry) : (v.addEntry env e).cur = v.cur := by
  have hw : ∀ (h : Height) (r : Round) (upd : RoundData → RoundData × Bool) x,
      v.withRoundData h r upd = some x → x.1.cur = v.cur := by
    intro h r upd x hx
    unfold VoteCounter.withRoundData at hx
    split at hx
    · cases hx
    · split at hx <;> (cases hx; rfl)
  cases e with
  | proposal p =>
    simp only [VoteCounter.addEntry, VoteCounter.addProposal]
    split
    · rfl
    · next x hx => exact hw _ _ _ _ hx
  | prevote x =>
    simp only [VoteCounter.addEntry, VoteCounter.addVote]
    split
    · rfl
    · next y hy => exact hw _ _ _ _ hy
  | precommit x =>
    simp only [VoteCounter.addEntry, VoteCounter.addVote]
    split
    · rfl
    · next y hy => exact hw _ _ _ _ hy
  | start _ => rfl
  | timeout _ _ _ => rfl

theorem addEntry_handover (env : Env) (v : VoteCounter) (e : WalEntry) (he : e.isMsgOf (v.cur + 1)) :
    (v.addEntry env e).startNewHeight env = (v.startNewHeight env).addEntry env e := by
  cases e with
  | proposal p => exact congrArg Prod.fst (addProposal_handover env v p he)
  | prevote x => exact congrArg Prod.fst (addVote_handover env v x .prevote he)
  | precommit x => exact congrArg Prod.fst (addVote_handover env v x .precommit he)
  | start _ => cases he
  | timeout _ _ _ => cases he

theorem feed_handover (env : Env) (es : List WalEntry) :
    ∀ (v : VoteCounter), (∀ e ∈ es, e.isMsgOf (v.cur + 1)) →
      (v.feed env es).startNewHeight env = (v.startNewHeight env).feed env es := by
  induction es with
  | nil => intro v _; rfl
  | cons e rest ih =>
    intro v h
    have he := h e (List.mem_cons_self ..)
    have hr : ∀ x ∈ rest, x.isMsgOf ((v.addEntry env e).cur + 1) := by
      intro x hx; rw [addEntry_cur]; exact h x (List.mem_cons_of_mem _ hx)
    show ((v.addEntry env e).feed env rest).startNewHeight env = _
    rw [ih _ hr, addEntry_handover env v e he]
    rfl

/-- the hand-over of a vote counter that buffered nothing is the vote counter a restarted machine is
created with (`votecounter.New` at the next height) -/
theorem startNewHeight_of_empty_buffer (env : Env) (v : VoteCounter) (h : v.future = []) :
    v.startNewHeight env = VoteCounter.new env (v.cur + 1) := by
  simp [VoteCounter.startNewHeight, VoteCounter.new, h, lookupA]

/-! ## the machine's side: what an early message does live -/

/-- A started machine that is given a proposal / prevote of ANOTHER height (`AddX` accepted it: a
future height): the only effects are the vote counter's and the WAL entry — no rule runs. -/
theorem early_message_is_logged_and_buffered (env : Env) (m : Machine) (hs : m.isHeightStarted = true) :
    (∀ p, p.height ≠ m.state.height → (m.vc.addProposal env p).2 = true →
      m.processProposal env p = ({ m with vc := (m.vc.addProposal env p).1 }, [.writeWAL (.proposal p)])) ∧
    (∀ v, v.height ≠ m.state.height → (m.vc.addVote env v .prevote).2 = true →
      m.processPrevote env v = ({ m with vc := (m.vc.addVote env v .prevote).1 }, [.writeWAL (.prevote v)])) := by
  refine ⟨fun p hp hok => ?_, fun v hv hok => ?_⟩
  · simp [Machine.processProposal, Machine.processMessage, hs, hok, hp]
  · simp [Machine.processPrevote, Machine.processMessage, hs, hok, hv]

/-- … and a message that `AddX` refuses (old height, wrong proposer, duplicate) leaves no trace in the
actions at all. -/
theorem refused_message_is_silent (env : Env) (m : Machine) :
    (∀ p, (m.vc.addProposal env p).2 = false →
      m.processProposal env p = ({ m with vc := (m.vc.addProposal env p).1 }, [])) ∧
    (∀ v, (m.vc.addVote env v .prevote).2 = false →
      m.processPrevote env v = ({ m with vc := (m.vc.addVote env v .prevote).1 }, [])) ∧
    (∀ v, (m.vc.addVote env v .precommit).2 = false →
      m.processPrecommit env v = ({ m with vc := (m.vc.addVote env v .precommit).1 }, [])) := by
  refine ⟨fun p hok => ?_, fun v hok => ?_, fun v hok => ?_⟩
  · simp [Machine.processProposal, hok]
  · simp [Machine.processPrevote, hok]
  · simp [Machine.processPrecommit, hok]

/-- the commit rule hands the vote counter over (`doCommitValue` calls `StartNewHeight`) and leaves the
machine at the next height, not started -/
theorem commit_hands_over (env : Env) (m : Machine) (cp : CachedProposal) :
    (m.doCommitValue env cp).1.vc = m.vc.startNewHeight env ∧
    (m.doCommitValue env cp).1.state.height = m.state.height + 1 ∧
    (m.doCommitValue env cp).1.isHeightStarted = false := ⟨rfl, rfl, rfl⟩

theorem setA_lookupA_sameH {β : Type} (k : Nat) (x : β) (l : List (Nat × β))
    (h : lookupA k l = some x) : setA k x l = l := by
  induction l with
  | nil => simp [lookupA] at h
  | cons e rest ih =>
    obtain ⟨k', v'⟩ := e
    by_cases hk : k' = k
    · simp [lookupA, hk] at h; simp [setA, hk, h]
    · simp [lookupA, hk] at h; simp [setA, hk, ih h]

theorem lookupR_setR_selfH {β : Type} (k : Int) (x : β) (l : List (Int × β)) :
    lookupR k (setR k x l) = some x := by
  induction l with
  | nil => simp [setR, lookupR]
  | cons e rest ih =>
    obtain ⟨k', v'⟩ := e
    by_cases hk : k' = k
    · simp [setR, lookupR, hk]
    · simp [setR, lookupR, hk, ih]

theorem setR_lookupR_sameH {β : Type} (k : Int) (x : β) (l : List (Int × β))
    (h : lookupR k l = some x) : setR k x l = l := by
  induction l with
  | nil => simp [lookupR] at h
  | cons e rest ih =>
    obtain ⟨k', v'⟩ := e
    by_cases hk : k' = k
    · simp [lookupR, hk] at h; simp [setR, hk, h]
    · simp [lookupR, hk] at h; simp [setR, hk, ih h]

/-- `HasFuturePrecommitQuorum` right after `AddPrecommit` of the same (future) height and round: the
entry exists already, `getRoundData` creates nothing — the vote counter is unchanged. -/
theorem hasFuturePrecommitQuorum_after_add (env : Env) (vc : VoteCounter) (v : Vote)
    (hf : v.height > vc.cur) (id : Option Val) :
    ((vc.addVote env v .precommit).1.hasFuturePrecommitQuorum v.height v.round id).1 =
      (vc.addVote env v .precommit).1 := by
  have h1 : ¬ (v.height < vc.cur) := by omega
  have h2 : ¬ (v.height = vc.cur) := by omega
  simp only [VoteCounter.addVote, VoteCounter.withRoundData, h1, h2, if_false,
    VoteCounter.hasFuturePrecommitQuorum, lookupA_setA_selfH, Option.getD_some, lookupR_setR_selfH]
  have e1 := fun (x : RoundData) (rm : RoundMap) => setR_lookupR_sameH v.round x (setR v.round x rm)
    (lookupR_setR_selfH v.round x rm)
  simp only [e1]
  have e2 := fun (x : RoundMap) (l : List (Height × RoundMap)) => setA_lookupA_sameH v.height x (setA v.height x l)
    (lookupA_setA_selfH v.height x l)
  simp only [e2]

/-- A started machine that is given a precommit of a FUTURE height: the vote counter counts it, the
Tendermint state does not move, no rule runs; the list is the WAL entry, followed by a `TriggerSync`
when the future height has a precommit quorum. -/
theorem early_precommit_is_logged_and_buffered (env : Env) (m : Machine) (hs : m.isHeightStarted = true)
    (hc : m.vc.cur = m.state.height) (v : Vote) (hv : v.height > m.state.height)
    (hok : (m.vc.addVote env v .precommit).2 = true) :
    (m.processPrecommit env v).1.vc = (m.vc.addVote env v .precommit).1 ∧
    (m.processPrecommit env v).1.state = m.state ∧
    (m.processPrecommit env v).1.isHeightStarted = true ∧
    ((m.processPrecommit env v).2 = [.writeWAL (.precommit v)] ∨
      ∃ s e, (m.processPrecommit env v).2 = [.writeWAL (.precommit v), .triggerSync s e]) := by
  have hne : v.height ≠ m.state.height := by omega
  have hq := hasFuturePrecommitQuorum_after_add env m.vc v (by omega) v.id
  unfold Machine.processPrecommit
  simp only [hok, hs, Bool.not_true, Bool.or_self, Bool.false_eq_true, if_false]
  split
  · split
    · exact ⟨hq, rfl, rfl, Or.inr ⟨_, _, rfl⟩⟩
    · simp [Machine.processMessage, hne, hq]
  · simp [Machine.processMessage, hne]

/-! ## composition: the machine right after a live commit = the restarted machine after replay -/

/-- one early entry, live (through `ProcessWAL`, which is `ProcessProposal/Prevote/Precommit`) -/
theorem early_entry_live (env : Env) (m : Machine) (hs : m.isHeightStarted = true)
    (hc : m.vc.cur = m.state.height) (e : WalEntry) (he : e.isMsgOf (m.state.height + 1)) :
    (m.processWAL env e).1.vc = m.vc.addEntry env e ∧ (m.processWAL env e).1.state = m.state ∧
    (m.processWAL env e).1.isHeightStarted = true ∧
    (∀ a ∈ (m.processWAL env e).2, a.requiresWALFlush = false) := by
  cases e with
  | start _ => cases he
  | timeout _ _ _ => cases he
  | proposal p =>
    have hp : p.height ≠ m.state.height := by have : p.height = m.state.height + 1 := he; omega
    cases hok : (m.vc.addProposal env p).2 with
    | true =>
      rw [show m.processWAL env (.proposal p) = m.processProposal env p from rfl, (early_message_is_logged_and_buffered env m hs).1 p hp hok]
      exact ⟨rfl, rfl, hs, by simp [Action.requiresWALFlush]⟩
    | false =>
      rw [show m.processWAL env (.proposal p) = m.processProposal env p from rfl, (refused_message_is_silent env m).1 p hok]
      exact ⟨rfl, rfl, hs, by simp⟩
  | prevote v =>
    have hp : v.height ≠ m.state.height := by have : v.height = m.state.height + 1 := he; omega
    cases hok : (m.vc.addVote env v .prevote).2 with
    | true =>
      rw [show m.processWAL env (.prevote v) = m.processPrevote env v from rfl, (early_message_is_logged_and_buffered env m hs).2 v hp hok]
      exact ⟨rfl, rfl, hs, by simp [Action.requiresWALFlush]⟩
    | false =>
      rw [show m.processWAL env (.prevote v) = m.processPrevote env v from rfl, (refused_message_is_silent env m).2.1 v hok]
      exact ⟨rfl, rfl, hs, by simp⟩
  | precommit v =>
    have hp : v.height > m.state.height := by have : v.height = m.state.height + 1 := he; omega
    cases hok : (m.vc.addVote env v .precommit).2 with
    | true =>
      obtain ⟨a, b, c, d⟩ := early_precommit_is_logged_and_buffered env m hs hc v hp hok
      refine ⟨a, b, c, ?_⟩
      show ∀ a ∈ (m.processPrecommit env v).2, _
      rcases d with d | ⟨s, e, d⟩ <;> (rw [d]; simp [Action.requiresWALFlush])
    | false =>
      rw [show m.processWAL env (.precommit v) = m.processPrecommit env v from rfl, (refused_message_is_silent env m).2.2 v hok]
      exact ⟨rfl, rfl, hs, by simp⟩

/-- one entry in front of the `Start` entry, on replay (height not started) -/
theorem early_entry_replayed (env : Env) (m : Machine) (hs : m.isHeightStarted = false)
    (e : WalEntry) (he : ∃ h, e.isMsgOf h) :
    (m.processWAL env e).1.vc = m.vc.addEntry env e ∧ (m.processWAL env e).1.state = m.state ∧
    (m.processWAL env e).1.isHeightStarted = false ∧ (m.processWAL env e).2 = [] := by
  obtain ⟨h, he⟩ := he
  have hb : (∀ p, m.processProposal env p = ({ m with vc := (m.vc.addProposal env p).1 }, [])) ∧
    (∀ v, m.processPrevote env v = ({ m with vc := (m.vc.addVote env v .prevote).1 }, [])) ∧
    (∀ v, m.processPrecommit env v = ({ m with vc := (m.vc.addVote env v .precommit).1 }, [])) := by
    refine ⟨fun p => ?_, fun v => ?_, fun v => ?_⟩
    · simp [Machine.processProposal, hs]
    · simp [Machine.processPrevote, hs]
    · simp [Machine.processPrecommit, hs]
  cases e with
  | start _ => cases he
  | timeout _ _ _ => cases he
  | proposal p => rw [show m.processWAL env (.proposal p) = m.processProposal env p from rfl, hb.1 p]; exact ⟨rfl, rfl, hs, rfl⟩
  | prevote v => rw [show m.processWAL env (.prevote v) = m.processPrevote env v from rfl, hb.2.1 v]; exact ⟨rfl, rfl, hs, rfl⟩
  | precommit v => rw [show m.processWAL env (.precommit v) = m.processPrecommit env v from rfl, hb.2.2 v]; exact ⟨rfl, rfl, hs, rfl⟩

theorem run_early_live (env : Env) (es : List WalEntry) :
    ∀ (m : Machine), m.isHeightStarted = true → m.vc.cur = m.state.height →
      (∀ e ∈ es, e.isMsgOf (m.state.height + 1)) →
      (m.run env (es.map .wal)).1.vc = m.vc.feed env es ∧ (m.run env (es.map .wal)).1.state = m.state ∧
      (m.run env (es.map .wal)).1.isHeightStarted = true ∧
      (∀ a ∈ (m.run env (es.map .wal)).2, a.requiresWALFlush = false) := by
  induction es with
  | nil => intro m hs _ _; exact ⟨rfl, rfl, hs, by simp [Machine.run]⟩
  | cons e rest ih =>
    intro m hs hc h
    obtain ⟨a, b, c, d⟩ := early_entry_live env m hs hc e (h e (List.mem_cons_self ..))
    have hc' : (m.processWAL env e).1.vc.cur = (m.processWAL env e).1.state.height := by
      rw [a, b, addEntry_cur, hc]
    have hr : ∀ x ∈ rest, x.isMsgOf ((m.processWAL env e).1.state.height + 1) := by
      intro x hx; rw [b]; exact h x (List.mem_cons_of_mem _ hx)
    obtain ⟨a', b', c', d'⟩ := ih _ c hc' hr
    simp only [List.map_cons, Machine.run, Machine.step]
    refine ⟨?_, ?_, c', ?_⟩
    · rw [a', a]; rfl
    · rw [b', b]
    · intro x hx
      rcases List.mem_append.mp hx with hx | hx
      · exact d x hx
      · exact d' x hx

theorem run_early_replayed (env : Env) (es : List WalEntry) :
    ∀ (m : Machine), m.isHeightStarted = false → (∀ e ∈ es, ∃ h, e.isMsgOf h) →
      (m.run env (es.map .wal)).1.vc = m.vc.feed env es ∧ (m.run env (es.map .wal)).1.state = m.state ∧
      (m.run env (es.map .wal)).1.isHeightStarted = false ∧ (m.run env (es.map .wal)).2 = [] := by
  induction es with
  | nil => intro m hs _; exact ⟨rfl, rfl, hs, rfl⟩
  | cons e rest ih =>
    intro m hs h
    obtain ⟨a, b, c, d⟩ := early_entry_replayed env m hs e (h e (List.mem_cons_self ..))
    obtain ⟨a', b', c', d'⟩ := ih _ c (fun x hx => h x (List.mem_cons_of_mem _ hx))
    simp only [List.map_cons, Machine.run, Machine.step]
    refine ⟨?_, ?_, c', ?_⟩
    · rw [a', a]; rfl
    · rw [b', b]
    · rw [d, d']; rfl

/-- **replay = live.** `m`: a started machine at height `h` that has buffered nothing yet; `es`: any
proposals / prevotes / precommits of height `h+1` (accepted or refused, duplicates, equivocations, any
senders and rounds). LIVE: `m` is given `es` (nothing but WAL entries and `TriggerSync` comes back: no
rule runs), then commits. REPLAY: a machine created at `h+1` (what a restart builds) is given the same
entries before `Start` (the position the WAL store returns them in). Both machines have the SAME vote
counter and the SAME Tendermint state, and both are not started: `ProcessStart(0)` — the next call in
both worlds — runs the rules over identical data. -/
theorem replay_rebuilds_the_live_machine (env : Env) (m : Machine) (es : List WalEntry) (cp : CachedProposal)
    (hs : m.isHeightStarted = true) (hc : m.vc.cur = m.state.height) (hf : m.vc.future = [])
    (he : ∀ e ∈ es, e.isMsgOf (m.state.height + 1)) :
    let live := ((m.run env (es.map .wal)).1.doCommitValue env cp).1
    let rep := ((Machine.new env m.nodeAddr (m.state.height + 1)).run env (es.map .wal)).1
    live.vc = rep.vc ∧ live.state = rep.state ∧ live.isHeightStarted = false ∧ rep.isHeightStarted = false := by
  obtain ⟨a, b, _, _⟩ := run_early_live env es m hs hc he
  obtain ⟨a', b', c', _⟩ := run_early_replayed env es (Machine.new env m.nodeAddr (m.state.height + 1)) rfl
    (fun e h => ⟨_, he e h⟩)
  refine ⟨?_, ?_, rfl, c'⟩
  · show ((m.run env (es.map .wal)).1.vc).startNewHeight env = _
    rw [a, a', feed_handover env es m.vc (by rw [hc]; exact he), startNewHeight_of_empty_buffer env m.vc hf, hc]
    rfl
  · rw [b']
    simp only [Machine.doCommitValue, b]
    rfl

/-! ## messages two or more heights ahead stay buffered across a hand-over -/

theorem lookupA_setA_neH {β : Type} (k h : Nat) (hk : k ≠ h) (x : β) (l : List (Nat × β)) :
    lookupA k (setA h x l) = lookupA k l := by
  induction l with
  | nil => simp [setA, lookupA]; omega
  | cons e rest ih =>
    obtain ⟨k', v'⟩ := e
    by_cases h2 : k' = h
    · subst h2
      have : ¬ k' = k := fun h => hk h.symm
      simp [setA, lookupA, this]
    · by_cases h1 : k' = k
      · subst h1; simp [setA, h2, lookupA]
      · simp [setA, h2, lookupA, h1, ih]

theorem lookupA_filterB_ne {β : Type} (k h : Nat) (hk : h ≠ k) (l : List (Nat × β)) :
    lookupA h (l.filter (fun e => !decide (e.1 = k))) = lookupA h l := by
  induction l with
  | nil => rfl
  | cons e rest ih =>
    obtain ⟨k', v'⟩ := e
    by_cases h1 : k' = k
    · subst h1
      have : ¬ k' = h := fun h => hk h.symm
      simp [List.filter_cons, lookupA, this, ih]
    · by_cases h2 : k' = h
      · subst h2; simp [List.filter_cons, h1, lookupA]
      · simp [List.filter_cons, h1, lookupA, h2, ih]

theorem filter_setA_commH {β : Type} (k h : Nat) (hk : h ≠ k) (x : β) (l : List (Nat × β)) :
    (setA h x l).filter (fun e => !decide (e.1 = k)) = setA h x (l.filter (fun e => !decide (e.1 = k))) := by
  induction l with
  | nil => simp [setA, hk]
  | cons e rest ih =>
    obtain ⟨k', v'⟩ := e
    by_cases h2 : k' = h
    · subst h2; simp [setA, List.filter_cons, hk]
    · by_cases h1 : k' = k
      · subst h1; simp [setA, h2, List.filter_cons, ih]
      · simp [setA, h2, List.filter_cons, h1, ih]

/-- `getRoundData` + update on the buffer of a height beyond the next one commutes with the hand-over: the
buffer stays in the future-height map, untouched. -/
theorem withRoundData_handover_far (env : Env) (v : VoteCounter) (h : Height) (hh : h > v.cur + 1) (r : Round)
    (upd : RoundData → RoundData × Bool) :
    (v.withRoundData h r upd).map (fun x => (x.1.startNewHeight env, x.2)) =
      (v.startNewHeight env).withRoundData h r upd := by
  have h1 : ¬ (h < v.cur) := by omega
  have h2 : ¬ (h = v.cur) := by omega
  have h3 : ¬ (h < v.cur + 1) := by omega
  have h4 : ¬ (h = v.cur + 1) := by omega
  have h5 : v.cur + 1 ≠ h := by omega
  simp only [VoteCounter.withRoundData, h1, h2, h3, h4, if_false, VoteCounter.startNewHeight, Option.map_some]
  simp [lookupA_filterB_ne _ _ h4, filter_setA_commH _ _ h4, lookupA_setA_neH _ _ h5]

theorem addEntry_handover_far (env : Env) (v : VoteCounter) (e : WalEntry) (h : Height) (hh : h > v.cur + 1)
    (he : e.isMsgOf h) :
    (v.addEntry env e).startNewHeight env = (v.startNewHeight env).addEntry env e := by
  cases e with
  | start _ => cases he
  | timeout _ _ _ => cases he
  | proposal p =>
    have hp : p.height = h := he
    have hw := withRoundData_handover_far env v p.height (by omega) p.round
      (fun rd => if p.sender ≠ env.proposer p.height p.round then (rd, false)
        else rd.setProposal p (env.power p.height p.sender))
    simp only [VoteCounter.addEntry, VoteCounter.addProposal]
    rw [← hw]
    cases hx : v.withRoundData p.height p.round
      (fun rd => if p.sender ≠ env.proposer p.height p.round then (rd, false)
        else rd.setProposal p (env.power p.height p.sender)) with
    | some x => rfl
    | none =>
      exfalso
      have h1 : ¬ (p.height < v.cur) := by omega
      simp [VoteCounter.withRoundData, h1] at hx
      split at hx <;> cases hx
  | prevote x =>
    have hp : x.height = h := he
    have hw := withRoundData_handover_far env v x.height (by omega) x.round
      (fun rd => rd.addVote x (env.power x.height x.sender) .prevote)
    simp only [VoteCounter.addEntry, VoteCounter.addVote]
    rw [← hw]
    cases hx : v.withRoundData x.height x.round (fun rd => rd.addVote x (env.power x.height x.sender) .prevote) with
    | some y => rfl
    | none =>
      exfalso
      have h1 : ¬ (x.height < v.cur) := by omega
      simp [VoteCounter.withRoundData, h1] at hx
      split at hx <;> cases hx
  | precommit x =>
    have hp : x.height = h := he
    have hw := withRoundData_handover_far env v x.height (by omega) x.round
      (fun rd => rd.addVote x (env.power x.height x.sender) .precommit)
    simp only [VoteCounter.addEntry, VoteCounter.addVote]
    rw [← hw]
    cases hx : v.withRoundData x.height x.round (fun rd => rd.addVote x (env.power x.height x.sender) .precommit) with
    | some y => rfl
    | none =>
      exfalso
      have h1 : ¬ (x.height < v.cur) := by omega
      simp [VoteCounter.withRoundData, h1] at hx
      split at hx <;> cases hx

/-- non-vacuity data: proposal of (1,0) by its proposer (validator 1 in `exEnv`: `(h+r) % 4`) and two prevotes -/
def earlyEntries : List WalEntry :=
  [.proposal ⟨1, 0, 1, -1, 16⟩, .prevote ⟨1, 0, 0, some 16⟩, .prevote ⟨1, 0, 2, some 16⟩, .prevote ⟨1, 0, 2, some 16⟩,
   .precommit ⟨1, 0, 0, none⟩]

instance (h : Height) (e : WalEntry) : Decidable (e.isMsgOf h) := by
  cases e <;> simp only [WalEntry.isMsgOf] <;> infer_instance

end Juno.C12
