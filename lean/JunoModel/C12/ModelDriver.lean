import JunoModel.C12.Model
/-!
C12 — `driver.execute` / `driver.replay` and the action glue of `consensus/types/actions/actions.go`
(round 5). Core Lean only (linked into `c12drv`).

`Action.requiresWALFlush` transcribes the seven `RequiresWALFlush` methods. `execute` transcribes
`Driver.execute` as the SEQUENCE OF CALLS it makes on the WAL store, the broadcasters, the timers and
the commit listener (`DOp`), so that the real driver can be compared call by call:

    for _, action := range resultActions {
        if !isReplaying && action.RequiresWALFlush() { db.Flush() }
        switch action {
        case WriteWAL:   if !isReplaying { db.SetWALEntry(entry) }
        case Broadcast*: broadcaster.Broadcast(msg)
        case ScheduleTimeout: scheduleTimeout
        case Commit:     return true, commit(action)   // OnCommit; DeleteWALEntries(h); Flush  — the rest is dropped
        case TriggerSync: triggerSync
        }
    }
    return false

`WalStore` is the store as the driver sees it (`walstore.TendermintWALStore`): entries handed to
`SetWALEntry` are `pending` until the next `Flush`, only `durable` entries survive a crash;
`DeleteWALEntries(h)` drops everything up to height `h`; `LoadAllEntries` yields by height, then in
insertion order.
-/
namespace Juno.C12

/-- `actions.go`: `RequiresWALFlush` — true for what leaves the node (broadcasts) and for a commit. -/
def Action.requiresWALFlush : Action → Bool
  | .writeWAL _ => false
  | .bcastProposal _ => true
  | .bcastPrevote _ => true
  | .bcastPrecommit _ => true
  | .schedule _ _ _ => false
  | .commit _ => true
  | .triggerSync _ _ => false

/-- one call `execute` makes on its collaborators -/
inductive DOp
  | flush
  | set (e : WalEntry)
  | bcast (a : Action)
  | sched (s : Step) (h : Height) (r : Round)
  | onCommit (p : Proposal)
  | delete (h : Height)
  | sync (s e : Height)
  deriving DecidableEq, Repr

/-- `Driver.execute`: the calls made for an action list, and whether a Commit was executed. -/
def execute (isReplaying : Bool) : List Action → List DOp × Bool
  | [] => ([], false)
  | a :: rest =>
    let pre := if !isReplaying && a.requiresWALFlush then [DOp.flush] else []
    match a with
    | .writeWAL e =>
      let (ops, c) := execute isReplaying rest
      (pre ++ (if !isReplaying then [DOp.set e] else []) ++ ops, c)
    | .bcastProposal _ | .bcastPrevote _ | .bcastPrecommit _ =>
      let (ops, c) := execute isReplaying rest
      (pre ++ [DOp.bcast a] ++ ops, c)
    | .schedule s h r =>
      let (ops, c) := execute isReplaying rest
      (pre ++ [DOp.sched s h r] ++ ops, c)
    | .commit p => (pre ++ [DOp.onCommit p, DOp.delete p.height, DOp.flush], true)
    | .triggerSync s e =>
      let (ops, c) := execute isReplaying rest
      (pre ++ [DOp.sync s e] ++ ops, c)

def WalEntry.height : WalEntry → Height
  | .start h => h
  | .proposal p => p.height
  | .prevote v => v.height
  | .precommit v => v.height
  | .timeout _ h _ => h

structure WalStore where
  durable : List WalEntry
  pending : List WalEntry
  deriving Repr

def WalStore.empty : WalStore := ⟨[], []⟩

/-- effect of one call on the store (`Flush`, `SetWALEntry`, `DeleteWALEntries`; the others do not
touch it). `DeleteWALEntries` is itself a record that becomes effective with the next flush; the
driver flushes right after it, so it is applied to both parts at once. -/
def WalStore.apply (w : WalStore) : DOp → WalStore
  | .flush => ⟨w.durable ++ w.pending, []⟩
  | .set e => { w with pending := w.pending ++ [e] }
  | .delete h => ⟨w.durable.filter (fun e => e.height > h), w.pending.filter (fun e => e.height > h)⟩
  | _ => w

def WalStore.applyAll (w : WalStore) : List DOp → WalStore
  | [] => w
  | o :: rest => WalStore.applyAll (w.apply o) rest

/-- what a restarted process finds: the durable part only -/
def WalStore.crash (w : WalStore) : WalStore := ⟨w.durable, []⟩

/-- insertion of `e` behind the entries of heights `≤ e.height` (stable sort by height) -/
def insertByHeight (e : WalEntry) : List WalEntry → List WalEntry
  | [] => [e]
  | x :: rest => if x.height ≤ e.height then x :: insertByHeight e rest else e :: x :: rest

/-- `LoadAllEntries`: by height, then insertion order -/
def loadAll (es : List WalEntry) : List WalEntry := es.foldl (fun acc e => insertByHeight e acc) []

/-- `Driver.replay`: every loaded entry whose height is not below the machine's CURRENT height goes
through `ProcessWAL`, the actions through `execute(isReplaying = true)`. Returns the machine, the
calls made on the collaborators, and the inputs that reached the machine. -/
def replay (env : Env) : Machine → List WalEntry → Machine × List DOp × List WalEntry
  | m, [] => (m, [], [])
  | m, e :: rest =>
    if e.height < m.state.height then replay env m rest
    else
      let (m', acts) := m.processWAL env e
      let (m'', ops, fed) := replay env m' rest
      (m'', (execute true acts).1 ++ ops, e :: fed)

/-- The WAL entry the state machine writes for an input (`none`: the input has several parts —
`ProcessSync` — each with its own entry). `ProcessStart` logs the height being started. -/
def walEntryOf (m : Machine) : Input → Option WalEntry
  | .start _ => some (.start m.state.height)
  | .proposal p => some (.proposal p)
  | .prevote v => some (.prevote v)
  | .precommit v => some (.precommit v)
  | .timeout s h r => some (.timeout s h r)
  | .wal (.start _) => some (.start m.state.height)
  | .wal e => some e
  | .sync _ _ => none

/-- the entries of all parts of an input -/
def walEntriesOf (m : Machine) : Input → List WalEntry
  | .sync p vs => .proposal p :: vs.map .precommit
  | i => (walEntryOf m i).toList

end Juno.C12
