import JunoModel.C18.ModelPruner
/-! C18 helper lemmas: the history pruner's cutoff. -/
namespace Juno.C18.Pruner

theorem cutoff_fixed_ok (cfg : Cfg) (hz : cfg.zeroCutoffRuns = false) (hb : cfg.cutoffBelowPruned = false)
    (i : In) (hp : i.pinnedCut = none) (hpr : i.pruned ≤ i.height) (c : Nat) (h : cutoff cfg i = some c) :
    0 < c ∧ i.pruned ≤ c ∧ c ≤ i.height ∧ setupOk i c = true := by
  unfold cutoff at h
  rw [hp] at h
  simp only [hz, hb, Bool.not_false, Bool.true_and] at h
  by_cases hge : min i.l1 i.height < i.retained
  · simp [hge] at h
  · simp only [hge, if_false] at h
    have hpiv : min i.l1 i.height ≤ i.height := Nat.min_le_right _ _
    by_cases hgt : i.pruned > min i.l1 i.height - i.retained
    · simp only [hgt, decide_true, if_true] at h
      by_cases h0 : i.pruned = 0
      · simp [h0] at h
      · simp only [beq_iff_eq, h0, if_false] at h
        injection h with h
        subst h
        refine ⟨by omega, Nat.le_refl _, hpr, ?_⟩
        simp [setupOk, restorerSeed, h0]; omega
    · simp only [hgt, decide_false, Bool.false_eq_true, if_false] at h
      by_cases h0 : min i.l1 i.height - i.retained = 0
      · simp [h0] at h
      · simp only [beq_iff_eq, h0, if_false] at h
        injection h with h
        subst h
        refine ⟨by omega, by omega, by omega, ?_⟩
        simp [setupOk, restorerSeed, h0]
        constructor <;> omega

theorem cutoff_partial (cfg : Cfg) (i : In) (c : Nat) (_h : cutoff cfg i = some c)
    (hc : 0 < c) (hp : i.pruned ≤ c) (hh : c ≤ i.height) : setupOk i c = true := by
  have : c ≠ 0 := by omega
  simp [setupOk, restorerSeed, this, hp]
  omega

end Juno.C18.Pruner
