import JunoModel.C18.ModelPruner
/-! C18 helper lemmas: the history pruner's cutoff. -/
namespace Juno.C18.Pruner

theorem cutoff_fixed_ok (cfg : Cfg) (hz : cfg.zeroCutoffRuns = false) (hb : cfg.cutoffBelowPruned = false)
    (i : In) (hp : i.pinnedCut = none) (hpr : i.pruned ≤ i.height) (c : Nat) (h : cutoff cfg i = some c) :
    0 < c ∧ i.pruned ≤ c ∧ c ≤ i.height ∧ setupOk i c = true := by
  unfold cutoff at h
  rw [hp] at h
  simp only [hz, hb, Bool.not_false, Bool.true_and, Bool.false_eq_true, if_false] at h
  have hpiv : min i.l1 i.height ≤ i.height := Nat.min_le_right _ _
  generalize hf : max (if min i.l1 i.height < i.retained then 0 else min i.l1 i.height - i.retained) i.pruned = fl at h
  have hfl : i.pruned ≤ fl ∧ fl ≤ i.height := by
    rw [← hf]
    refine ⟨Nat.le_max_right _ _, Nat.max_le.mpr ⟨?_, hpr⟩⟩
    split <;> omega
  by_cases h0 : fl = 0
  · simp [h0] at h
  · simp only [beq_iff_eq, h0, if_false] at h
    injection h with h
    subst h
    refine ⟨by omega, hfl.1, hfl.2, ?_⟩
    simp [setupOk, restorerSeed, h0, hfl.1]
    omega

theorem cutoff_partial (cfg : Cfg) (i : In) (c : Nat) (_h : cutoff cfg i = some c)
    (hc : 0 < c) (hp : i.pruned ≤ c) (hh : c ≤ i.height) : setupOk i c = true := by
  have : c ≠ 0 := by omega
  simp [setupOk, restorerSeed, this, hp]
  omega

/-- Disk state after a run that finished the pruner (whether or not the runner recorded it): every
kept block has its history in the live buckets, the scratch namespace is empty. -/
def Finished (c h : Nat) (d : Disk) : Prop := d.scratch = [] ∧ ∀ b, c ≤ b → b ≤ h → b ∈ d.live

theorem mem_window {l : List Nat} {lo h b : Nat} (hb : b ∈ l) (h1 : lo ≤ b) (h2 : b ≤ h) :
    b ∈ l.filter (fun b => decide (lo ≤ b ∧ b ≤ h)) :=
  List.mem_filter.mpr ⟨hb, by simp [h1, h2]⟩

theorem finish_live (guard : Bool) (c h : Nat) (tok : Token) (d : Disk) (hs : d.scratch = []) (b : Nat)
    (hc : c ≤ b) (hh : b ≤ h) (hb : b ∈ d.live)
    (hok : tok.2 ≠ 0 ∨ (tok.1 ≤ h ∧ (if guard && decide (c < tok.1) && d.scratch.isEmpty then c else max c tok.1) ≤ b)) :
    b ∈ (finish guard c h tok d).live := by
  unfold finish
  by_cases hr : tok.2 = 0
  · cases hok with
    | inl h1 => exact absurd hr h1
    | inr h1 =>
      simp only [hr, if_true, h1.1, hs, List.nil_append]
      refine mem_window (mem_window hb ?_ hh) ?_ hh
      · simpa [hs] using h1.2
      · simp; omega
  · simp only [hr, if_false]
    exact List.mem_append.mpr (Or.inl hb)

theorem finish_guarded_keeps (c h : Nat) (tok : Token) (d : Disk) (hd : Finished c h d)
    (htok : tok.2 = 0 → tok.1 ≤ h) (b : Nat) (hc : c ≤ b) (hh : b ≤ h) :
    b ∈ (finish true c h tok d).live := by
  obtain ⟨hs, hl⟩ := hd
  refine finish_live true c h tok d hs b hc hh (hl b hc hh) ?_
  by_cases hr : tok.2 = 0
  · refine Or.inr ⟨htok hr, ?_⟩
    by_cases hcs : c < tok.1
    · simp [hs, hcs]; exact hc
    · simp [hcs]; omega
  · exact Or.inl hr

theorem finish_partial (guard : Bool) (c h : Nat) (tok : Token) (d : Disk) (hd : Finished c h d)
    (hfresh : tok.1 ≤ c ∨ tok.2 ≠ 0) (b : Nat) (hc : c ≤ b) (hh : b ≤ h) :
    b ∈ (finish guard c h tok d).live := by
  obtain ⟨hs, hl⟩ := hd
  refine finish_live guard c h tok d hs b hc hh (hl b hc hh) ?_
  cases hfresh with
  | inr h1 => exact Or.inl h1
  | inl h1 =>
    refine Or.inr ⟨by omega, ?_⟩
    have hn : ¬ c < tok.1 := by omega
    simp [hn]; omega

end Juno.C18.Pruner
