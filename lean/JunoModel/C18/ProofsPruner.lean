import JunoModel.C18.ModelPruner
/-! C18 helper lemmas: the history pruner's cutoff. -/
namespace Juno.C18.Pruner

theorem cutoff_fixed_ok (cfg : Cfg) (hz : cfg.zeroCutoffRuns = false) (hb : cfg.cutoffBelowPruned = false)
    (i : In) (hp : i.pinnedCut = none) (hpr : i.pruned ≤ i.height) (c : Nat) (h : cutoff cfg i = some c) :
    0 < c ∧ i.pruned ≤ c ∧ c ≤ i.height ∧ setupOk i c = true := by
  unfold cutoff at h
  rw [hp] at h
  simp only [hz, hb, Bool.not_false, Bool.true_and, Bool.false_eq_true, if_false] at h
  have hpiv : min i.l1 i.height ≤ i.height := Nat.min_le_right _ _
  generalize hf : max (if min i.l1 i.height < i.retained then 0 else min i.l1 i.height - i.retained) i.pruned = fl at h
  have hfl : i.pruned ≤ fl ∧ fl ≤ i.height := by
    rw [← hf]
    refine ⟨Nat.le_max_right _ _, Nat.max_le.mpr ⟨?_, hpr⟩⟩
    split <;> omega
  by_cases h0 : fl = 0
  · simp [h0] at h
  · simp only [beq_iff_eq, h0, if_false] at h
    injection h with h
    subst h
    refine ⟨by omega, hfl.1, hfl.2, ?_⟩
    simp [setupOk, restorerSeed, h0, hfl.1]
    omega

theorem cutoff_partial (cfg : Cfg) (i : In) (c : Nat) (_h : cutoff cfg i = some c)
    (hc : 0 < c) (hp : i.pruned ≤ c) (hh : c ≤ i.height) : setupOk i c = true := by
  have : c ≠ 0 := by omega
  simp [setupOk, restorerSeed, this, hp]
  omega

end Juno.C18.Pruner
