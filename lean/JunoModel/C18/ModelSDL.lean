/-
C18 — model of the state-diff-length backfill migration (migration/statedifflength/*.go): for every
retained block, `BlockCommitments.StateDiffLength := StateUpdate.StateDiff.Length()`; resumable
through a checkpoint (next block) that is returned only on a graceful interruption.
Core Lean only (linked into the driver).

Abstractions: a block is (records present?, length of its stored state diff, stored
StateDiffLength); the reader/committer pipeline is modelled by its effect — the source hands out
blocks `start, start+1, …` in order, a cancellation stops it after `k` blocks and everything handed
out is committed; when the process dies any subset of the handed-out blocks may be committed.
-/
namespace Juno.C18.SDL

structure Blk where
  present : Bool     -- commitments and state update stored (false: pruned, or above the chain)
  diffLen : Nat      -- StateDiff.Length() of the stored state update
  stored : Nat       -- BlockCommitments.StateDiffLength
  deriving Repr, DecidableEq

structure Db where
  height : Option Nat
  blk : Nat → Blk

/-- `pruner.OldestRetainedBlock`: first key of the BlockCommitments bucket. -/
def oldest (db : Db) (h : Nat) : Option Nat :=
  (List.range (h + 1)).find? (fun b => (db.blk b).present)

/-- What `Migrate` returned: `(nil, nil)`; `(checkpoint, nil)`; `(nil, err)`; or the process died. -/
inductive Ret | done | rerun (next : Nat) | failed | crashed
  deriving Repr, DecidableEq

inductive Step
  /-- run to the end (`none`) or cancelled after `k` blocks were handed out (`some k`) -/
  | pass (emit : Option Nat)
  /-- the process dies: of the `emit` blocks handed out those selected were committed -/
  | crash (emit : Option Nat) (sel : List Bool)
  /-- a batch write fails: `(nil, err)`; of the `emit` blocks handed out those selected were committed -/
  | writeFail (emit : Option Nat) (sel : List Bool)

/-- `backfillBlock` on the selected blocks of `[start, start+e)`. -/
def applyPass (db : Db) (start h : Nat) (sel : Nat → Bool) : Db :=
  { db with blk := fun b =>
      if start ≤ b ∧ b ≤ h ∧ sel (b - start) = true ∧ (db.blk b).present = true then
        { db.blk b with stored := (db.blk b).diffLen }
      else db.blk b }

/-- Does a handed-out block lack its commitments / state update (pipeline error)? -/
def passFails (db : Db) (start h e : Nat) : Bool :=
  (List.range (h + 1)).any (fun b => decide (start ≤ b) && decide (b - start < e) && !(db.blk b).present)

/-- `Migrator.Migrate` with `m.nextBlock = next` (restored by `Before` from the saved checkpoint,
0 on a fresh run). -/
def migrate (db : Db) (next : Nat) (st : Step) : Db × Ret :=
  match db.height with
  | none => (db, .done)                                  -- empty database
  | some h =>
    match oldest db h with
    | none => (db, .failed)                              -- "finding oldest retained block"
    | some o =>
      let start := max next o
      if start > h then (db, .done) else
      let all := h - start + 1
      match st with
      | .pass emit =>
        let e := min (emit.getD all) all
        if passFails db start h e then (db, .failed) else
        let db' := applyPass db start h (fun i => decide (i < e))
        if e < all then (db', .rerun (start + e)) else (db', .done)
      | .crash emit sel =>
        let e := min (emit.getD all) all
        (applyPass db start h (fun i => decide (i < e) && sel.getD i false), .crashed)
      | .writeFail emit sel =>
        let e := min (emit.getD all) all
        (applyPass db start h (fun i => decide (i < e) && sel.getD i false), .failed)

/-- The runner's handling of the return value: the checkpoint is saved on `(state, nil)`, cleared
with the applied bit on `(nil, nil)`, kept as it was when the process died or `Migrate` failed. -/
def nextCheckpoint (next : Nat) : Ret → Nat
  | .rerun n => n
  | _ => next

/-- A sequence of `Migrate` calls as the runner makes them across restarts. -/
def attempts : Db → Nat → List Step → Db × Nat
  | db, next, [] => (db, next)
  | db, next, s :: r =>
    let (db', ret) := migrate db next s
    attempts db' (nextCheckpoint next ret) r

end Juno.C18.SDL
