import JunoModel.C18.ProofsRunner
/-! C18 helper lemmas: which migration the error of `Run` names (`stopIdx`, `runStopIdx`). -/
namespace Juno.C18

/-- `runMigration` never stops the loop with "ok": it returns nil (`none`) or an error / death. -/
theorem runMigration_ne_ok (cfg : Cfg) (env : Env) (last : SV) (i : Nat) (s : RunSt) :
    (runMigration cfg env last i s).2 ≠ some .ok := by
  unfold runMigration
  simp only []
  repeat' split
  all_goals simp

theorem RM_some_cur {cfg : Cfg} {env : Env} {last : SV} {i : Nat} {s s' : RunSt} {r : Result}
    (h : RM cfg env last i s s' (some r)) : s'.cur = s.cur ∧ ∀ e, e ∈ s.log → e ∈ s'.log := by
  cases h with
  | stop r evs hdisk hcur hlog hq hci => exact ⟨hcur, fun e he => by rw [hlog]; exact List.mem_append_right _ he⟩
  | save _ st c hst hdisk hcur hlog hr => exact ⟨hcur, fun e he => by rw [hlog]; simp [he]⟩

/-- The migration named by `Run`'s error is in the target, was pending, is still not applied, the
result is an error (never nil), and every target migration below it is applied or in progress. -/
theorem stopIdx_spec (cfg : Cfg) (env : Env) (T cur0 : SV) (d : Disk) : ∀ (l : List Nat) (s : RunSt),
    LoopInv cfg env T cur0 d l s → ∀ i, stopIdx cfg env T l s = some i →
    T.has i = true ∧ cur0.has i = false ∧ (runLoop cfg env T l s).1.cur.has i = false ∧
    (runLoop cfg env T l s).2 ≠ .ok ∧
    (∀ k, k < i → T.has k = true →
      (runLoop cfg env T l s).1.cur.has k = true ∨ InProg (runLoop cfg env T l s).1.log k) := by
  intro l
  induction l with
  | nil => intro s _ i h; simp [stopIdx] at h
  | cons j rest ih =>
    intro s h i hi
    simp only [stopIdx] at hi
    simp only [runLoop]
    split at hi
    · cases hi
    split at hi
    · cases hi
    rename_i hnd hnc
    simp only [hnd, hnc, Bool.false_eq_true, if_false]
    have hrm := runMigration_shape cfg env T j s
    have hne := runMigration_ne_ok cfg env T j s
    have hstep := loop_step cfg env T cur0 d j rest s _ _ h hrm
    have hsorted := List.pairwise_cons.mp h.sorted
    split at hi
    · rename_i s1 r1 heq
      injection hi with hi
      subst hi
      rw [heq] at hrm hne
      simp only []
      have hc := RM_some_cur hrm
      have hp := h.pend j List.mem_cons_self
      refine ⟨hp.1, hp.2.2, by rw [hc.1]; exact hp.2.1, fun e => hne (by rw [e]), ?_⟩
      intro k hk hT
      rcases h.cover k hT with h1 | h1 | h1
      · exact .inl (by rw [hc.1]; exact h1)
      · exact .inr (h1.mono hc.2)
      · rcases List.mem_cons.mp h1 with rfl | h1
        · omega
        · have := hsorted.1 k h1; omega
    · rename_i s1 heq
      rw [heq] at hstep
      exact ih s1 hstep i hi

/-- The same for a whole `Run`, in terms of the disk it leaves. -/
theorem run_stop (cfg : Cfg) (reg : Registry) (env : Env) (d : Disk) (i : Nat)
    (hi : runStopIdx cfg reg env d = some i) :
    reg.target.has i = true ∧ d.cur.has i = false ∧ (run cfg reg env d).1.disk.cur.has i = false ∧
    (run cfg reg env d).2 ≠ .ok ∧
    (∀ k, k < i → reg.target.has k = true →
      (run cfg reg env d).1.disk.cur.has k = true ∨ InProg (run cfg reg env d).1.log k) := by
  have h0 : env.crashAt ≠ 0 := by
    intro e; unfold runStopIdx at hi; simp [RunSt.dead, e] at hi
  have hf : env.failAt ≠ 1 := by
    intro e; unfold runStopIdx at hi; simp [RunSt.dead, RunSt.writeFails, e] at hi
  have hmd := (run_Q cfg reg env d h0 hf).md
  have hcur : (run cfg reg env d).1.disk.cur = (run cfg reg env d).1.cur := (disk_cur_of_md hmd).1
  rw [hcur]
  unfold runStopIdx at hi
  unfold run
  have hd : ¬ (env.crashAt ≤ 0) := by omega
  have hwf : (env.failAt == 0 + 1) = false := by simp [hf]
  simp only [RunSt.dead, RunSt.writeFails, hwf, hd, decide_false, Bool.false_eq_true, if_false] at hi ⊢
  have hq1 : RunQ cfg env reg.target d.cur d
      { (RunSt.tickEv ⟨d, d.metaD.cur, 0, []⟩ (.metaWrite ⟨d.metaD.cur, reg.target⟩)) with
        disk := { d with md := some ⟨d.metaD.cur, reg.target⟩ } } := by
    refine ⟨rfl, ?_, ?_, ?_, ?_, ?_, ?_, ?_⟩
    · intro j hj; exact .inl hj
    · intro j hj; exact hj
    · intro j hj; simp [RunSt.tickEv] at hj
    · intro j hj; simp at hj
    · intro j hj hj0; simp [RunSt.tickEv] at hj; rw [Disk.cur] at hj0; rw [hj] at hj0; cases hj0
    · intro j c hj; simp [RunSt.tickEv] at hj
    · simp [RunSt.tickEv, callIdxs]
  split at hi
  · cases hi
  split at hi
  · cases hi
  rename_i h1 h2
  simp only [h1, h2, Bool.false_eq_true, if_false]
  refine stopIdx_spec cfg env reg.target d.cur d _ _ ?_ i hi
  refine ⟨hq1, SV.iter_sorted _, ?_, ?_, ?_⟩
  · intro j hj
    have := (SV.mem_iter _ _).mp hj
    rw [SV.has_diff] at this
    simp only [Bool.and_eq_true, Bool.not_eq_true'] at this
    exact ⟨this.1, this.2, this.2⟩
  · intro k hk
    by_cases hc : SV.has d.metaD.cur k = true
    · exact .inl hc
    · refine .inr (.inr ((SV.mem_iter _ _).mpr ?_))
      rw [SV.has_diff]; simp [hk, hc]
  · intro j hj; simp [RunSt.tickEv, callIdxs] at hj

/-! ## `SchemaVersion.String` -/

theorem SV.digits_length (s : SV) : (SV.digits s).length = 64 := by simp [SV.digits]

/-- Digit `63 - i` (counted from the left) is `'1'` iff migration `i` is in the set. -/
theorem SV.digits_get (s : SV) (i : Nat) (hi : i < 64) :
    (SV.digits s)[63 - i]? = some (if SV.has s i then '1' else '0') := by
  have hr : (List.range 64).reverse[63 - i]? = some i := by
    rw [List.getElem?_reverse (by simp; omega)]
    simp only [List.length_range]
    rw [List.getElem?_range (by omega)]
    congr 1; omega
  simp only [SV.digits, List.getElem?_map, hr, Option.map_some, SV.has_eq]

/-- The printed digits determine the value. -/
theorem SV.digits_inj (a b : SV) (h : SV.digits a = SV.digits b) : a = b := by
  apply SV.ext_has
  intro j
  by_cases hj : j < 64
  · have ha := SV.digits_get a j hj
    have hb := SV.digits_get b j hj
    rw [h, hb] at ha
    cases h1 : SV.has a j <;> cases h2 : SV.has b j <;> simp_all
  · have h1 : SV.has a j = false := by
      cases h : SV.has a j with
      | false => rfl
      | true => exact absurd (SV.has_lt h) hj
    have h2 : SV.has b j = false := by
      cases h : SV.has b j with
      | false => rfl
      | true => exact absurd (SV.has_lt h) hj
    rw [h1, h2]

/-! ## `LastTargetVersion`: the record of what was opted into -/

/-- After one start the recorded last target is what it was (refused / unreadable metadata / death or
failed write before the first write) or exactly this start's target (first write done). -/
theorem start_last (cfg : Cfg) (d : Disk) (st : Start) :
    (start cfg d st).1.last = d.last ∨
    (newRunner cfg st.reg d = .ok ∧ st.env.crashAt ≠ 0 ∧ st.env.failAt ≠ 1 ∧ st.env.metaReadFails = false ∧
      (start cfg d st).1.last = st.reg.target) := by
  rcases start_cases cfg d st with ⟨h1, _⟩ | ⟨hn, hc, hf, s, hq, h1, _⟩
  · exact .inl (by rw [h1])
  · by_cases hmr : st.env.metaReadFails = true
    · left; unfold start; simp [hmr]
    · exact .inr ⟨hn, hc, hf, by simpa using hmr, by rw [h1]; exact (disk_cur_of_md hq.md).2⟩

/-- Repaired `NewRunner`: the recorded last target never loses a bit, over any history. -/
theorem starts_last_mono (cfg : Cfg) (hfix : cfg.ignoreUnknownLast = false) (sts : List Start) :
    ∀ (d : Disk) (j : Nat), d.last.has j = true → (starts cfg d sts).1.last.has j = true := by
  induction sts with
  | nil => intro d j h; exact h
  | cons st rest ih =>
    intro d j h
    simp only [starts]
    apply ih
    rcases start_last cfg d st with h1 | ⟨hn, _, _, _, h1⟩
    · rw [h1]; exact h
    · rw [h1]
      have h2 := ((newRunner_ok_iff cfg st.reg d).mp hn).1
      exact (validateNoOptOut_fixed cfg hfix _ _ _).mp h2 j h

end Juno.C18
