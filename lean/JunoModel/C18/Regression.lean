import JunoModel.C18.Props
/-!
C18 — statements about code variants that no longer exist in /repo (NOT obligations of the check;
kept because they document what held before each fix and are still kernel-checked when the library is
built): the former `_partial` theorems. `cfg` flags `true` = the code before the named commit.
-/
namespace Juno.C18.Regression
open Juno.C18 Juno.C18.Props

open BlockTx

/-- PARTIAL (pinned runner). What is missing from `applied_implies_complete`: a migration is
also recorded as applied when `Migrate` returned `(nil, err)` with `errors.Is(err, ctx.Err())`
after a cancellation (lead L9). Equivalently: the full statement holds for every history in which
no migration returns that pair. -/
theorem applied_implies_complete_partial (cfg : Cfg) (d : Disk) (sts : List Start) (j : Nat)
    (h : (starts cfg d sts).1.cur.has j = true) :
    d.cur.has j = true ∨ Completed (starts cfg d sts).2 j ∨ NilCtx (starts cfg d sts).2 j := by
  rcases starts_applied cfg sts d j h with h1 | h1 | ⟨_, h1⟩
  · exact .inl h1
  · exact .inr (.inl h1)
  · exact .inr (.inr h1)


/-- PARTIAL (pinned `NewRunner`). Missing: previously targeted migrations with an index beyond this
binary's registry are not looked at. -/
theorem downgrade_and_optout_refused_partial (cfg : Cfg) (hpin : cfg.ignoreUnknownLast = true) (reg : Registry) (d : Disk) :
    newRunner cfg reg d = .ok ↔
      (∀ j, d.cur.has j = true → reg.target.has j = true) ∧
      (∀ j, j < reg.length → d.last.has j = true → reg.target.has j = true) := by
  rw [newRunner_ok_iff, validateNoOptOut_pinned cfg hpin, validateNoVersionDowngrade_iff]
  exact ⟨fun h => ⟨h.2, h.1⟩, fun h => ⟨h.2, h.1⟩⟩


/-- CURRENT code (resume fix b4577f2 applied, `overwriteMigrated = false`; either variant of the
final step). From every image satisfying `Inv` and under EVERY interruption pattern — cancellation,
death with any subset of batches committed, failed batch writes — `Inv` is kept, an undisturbed
rerun returns `(nil, nil)`, and whenever `Migrate` returns `(nil, nil)` every block WITH
transactions reads through the current accessors as its original content with no old entry left;
a block without transactions reads as the empty block or (the remaining known finding) as "not
found". -/
theorem blocktx_preserves_nonempty (cfg : BlockTx.Cfg) (hA : cfg.overwriteMigrated = false)
    (orig : Orig) (h : Nat) (db : Db) (hw : WFOrig orig) (hi : Inv orig h db)
    (att : List (List Step)) (steps : List Step) :
    Inv orig h (attempts cfg db att) ∧
    (migrate cfg (attempts cfg db att) []).2 = .done ∧
    ((migrate cfg (attempts cfg db att) steps).2 = .done → ∀ b, b ≤ h →
      (orig b ≠ ([], []) → view ((migrate cfg (attempts cfg db att) steps).1.blk b) = some (orig b) ∧
        oldView ((migrate cfg (attempts cfg db att) steps).1.blk b) = ([], [])) ∧
      (orig b = ([], []) → view ((migrate cfg (attempts cfg db att) steps).1.blk b) = none ∨
        view ((migrate cfg (attempts cfg db att) steps).1.blk b) = some ([], []))) := by
  have ha := (attempts_inv hA hw att db hi).1
  refine ⟨ha, migrate_uninterrupted_any hA hw ha, ?_⟩
  intro hd b hb
  have hm := (migrate_done_any hA hw ha steps hd).2 b hb
  refine ⟨fun hne => ?_, fun he => ?_⟩
  · have := hm.1 hne
    exact ⟨this.2.2.2, by simp [oldView, this.2.1, this.2.2.1]⟩
  · rcases hm.2 he with m | u
    · right; rw [← he]; exact m.2.2.2
    · rcases u.2.2.2 with u0 | u0
      · left; exact u0
      · right; rw [← he]; exact u0


/-- PARTIAL, CURRENT code (`overwriteMigrated = false`, either variant of the final step): any
interruption pattern followed by an undisturbed rerun returns `(nil, nil)` and reaches the database of
an undisturbed run on every block WITH transactions and above the height; on a block without
transactions the two databases agree except for the combined entry, which is absent or empty in
either. What is missing from "the same final database": the entry of empty blocks (next theorem). -/
theorem blocktx_resume_same_result_partial (cfg : BlockTx.Cfg) (hA : cfg.overwriteMigrated = false)
    (orig : Orig) (h : Nat) (db : Db) (hw : WFOrig orig) (hi : Inv orig h db) (att : List (List Step)) :
    (migrate cfg (attempts cfg db att) []).2 = .done ∧ (migrate cfg db []).2 = .done ∧
    (∀ k, h < k → (migrate cfg (attempts cfg db att) []).1.blk k = (migrate cfg db []).1.blk k) ∧
    ∀ k, k ≤ h →
      (orig k ≠ ([], []) → (migrate cfg (attempts cfg db att) []).1.blk k = (migrate cfg db []).1.blk k) ∧
      (orig k = ([], []) →
        SameButBlob ((migrate cfg (attempts cfg db att) []).1.blk k) ((migrate cfg db []).1.blk k) ∧
        (((migrate cfg (attempts cfg db att) []).1.blk k).blob = none ∨
          ((migrate cfg (attempts cfg db att) []).1.blk k).blob = some ([], [])) ∧
        (((migrate cfg db []).1.blk k).blob = none ∨ ((migrate cfg db []).1.blk k).blob = some ([], []))) :=
  resume_data_partial hA hw hi att


/-- PARTIAL (pinned migration). What is missing from `blocktx_preserves`: (a) interruptions are
restricted to cancellation (`Graceful`: no crash — after a crash an already migrated range can lie
behind an unmigrated one and is overwritten, see `blocktx_resume_overwrites_before_b4577f2`); (b) only
blocks WITH transactions are covered (empty blocks may be left without an entry, see
`blocktx_empty_block_unreadable_pinned`). From the previous-layout database, after any number of
cancelled runs, a run that returns `(nil, nil)` leaves every non-empty block readable with its
original content. -/
theorem blocktx_preserves_partial (cfg : BlockTx.Cfg) (hB : cfg.skipUnstoredEmpty = true) (orig : Orig) (h : Nat)
    (db : Db) (hw : WFOrig orig) (ha : AllOld orig h db) (att : List (List Step)) (steps : List Step)
    (hg : ∀ s ∈ att, ∀ st ∈ s, Graceful st) (hgs : ∀ st ∈ steps, Graceful st)
    (hd : (migrate cfg (attempts cfg db att) steps).2 = .done) (b : Nat) (hb : b ≤ h)
    (hne : orig b ≠ ([], [])) :
    view ((migrate cfg (attempts cfg db att) steps).1.blk b) = some (orig b) := by
  obtain ⟨p, hp⟩ := attempts_pinv hB hw att db 0 ha.pinv hg
  exact ((migrate_pinv hB hw hp steps hgs).2 hd b hb hne).2.2.2


/-- PARTIAL (current code): the set-up steps can run when the cutoff happens to be positive and not
below the pruned prefix. -/
theorem pruner_cutoff_sound_partial (cfg : Pruner.Cfg) (i : Pruner.In) (c : Nat) (h : Pruner.cutoff cfg i = some c)
    (hc : 0 < c) (hp : i.pruned ≤ c) (hh : c ≤ i.height) : Pruner.setupOk i c = true :=
  Pruner.cutoff_partial cfg i c h hc hp hh


/-- PARTIAL (current code, and the patched one): no loss when the stored token is not a stager-phase
token above the cutoff (no token / stager at or below the cutoff / restorer phase). -/
theorem pruner_stale_token_sound_partial (guard : Bool) (c h : Nat) (tok : Pruner.Token) (d : Pruner.Disk)
    (hd : Pruner.Finished c h d) (hfresh : tok.1 ≤ c ∨ tok.2 ≠ 0) (b : Nat) (hc : c ≤ b) (hh : b ≤ h) :
    b ∈ (Pruner.finish guard c h tok d).live :=
  Pruner.finish_partial guard c h tok d hd hfresh b hc hh


end Juno.C18.Regression
