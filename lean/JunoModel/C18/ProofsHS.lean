import JunoModel.C18.ModelHS
/-! C18 helper lemmas: the head-state migration. -/
namespace Juno.C18.HS

/-- The deprecated fields of a contract as the previous layout stored them. -/
structure OrigA where
  cls : Nat
  nonce : Option Nat
  height : Nat

/-- The consolidated record the migration must produce. -/
def expected (o : OrigA) : Nat × Nat × Nat := (o.nonce.getD 0, o.cls, o.height)

/-- An account is either untouched (all deprecated fields, no record) or has exactly the expected
record, each deprecated field being still there or already wiped. -/
def AInv (o : OrigA) (k : Acct) : Prop :=
  (k.contract = none ∧ k.cls = some o.cls ∧ k.nonce = o.nonce ∧ k.height = some o.height) ∨
  (k.contract = some (expected o) ∧ (k.cls = some o.cls ∨ k.cls = none) ∧
    (k.nonce = o.nonce ∨ k.nonce = none) ∧ (k.height = some o.height ∨ k.height = none))

def Inv (orig : Nat → OrigA) (db : Db) : Prop := ∀ a, a < db.n → AInv (orig a) (db.acct a)

theorem ingest_ok {o : OrigA} {k : Acct} (h : AInv o k) :
    ∃ k', ingest k = .ok k' ∧ AInv o k' ∧ k'.contract = some (expected o) ∧
      k'.cls = k.cls ∧ k'.nonce = k.nonce ∧ k'.height = k.height := by
  rcases h with ⟨h1, h2, h3, h4⟩ | ⟨h1, h2, h3, h4⟩
  · refine ⟨{ k with contract := some (expected o) }, ?_, .inr ⟨rfl, .inl h2, .inl h3, .inl h4⟩, rfl, rfl, rfl, rfl⟩
    simp [ingest, h1, h2, h4, h3, expected]
  · exact ⟨k, by simp [ingest, h1], .inr ⟨h1, h2, h3, h4⟩, h1, rfl, rfl, rfl⟩

theorem applyPass_inv {orig : Nat → OrigA} {db : Db} (hi : Inv orig db) (sel : Nat → Bool) :
    Inv orig (applyPass db sel) := by
  intro a ha
  have ha' : a < db.n := ha
  simp only [applyPass]
  split
  · obtain ⟨k', hk, hinv, _⟩ := ingest_ok (hi a ha')
    rw [hk]; exact hinv
  · exact hi a ha'

theorem passFails_inv {orig : Nat → OrigA} {db : Db} (hi : Inv orig db) (e : Nat) : passFails db e = false := by
  unfold passFails
  rw [List.any_eq_false]
  intro a ha
  have han : a < db.n := by
    have := (List.mem_filter.mp ha).1
    exact List.mem_range.mp this
  obtain ⟨k', hk, _⟩ := ingest_ok (hi a han)
  rw [hk]; simp

/-- After every pending address has been ingested every account has its record. -/
theorem fullPass_all {orig : Nat → OrigA} {db : Db} (hi : Inv orig db) (a : Nat) (ha : a < db.n) :
    ((applyPass db (fun _ => true)).acct a).contract = some (expected (orig a)) ∧
    AInv (orig a) ((applyPass db (fun _ => true)).acct a) := by
  have hinv := applyPass_inv hi (fun _ => true) a ha
  refine ⟨?_, hinv⟩
  simp only [applyPass]
  by_cases hc : (db.acct a).cls.isSome = true
  · simp only [ha, hc, and_self, if_true]
    obtain ⟨k', hk, _, h3, _⟩ := ingest_ok (hi a ha)
    rw [hk]; exact h3
  · have hneg : ¬ (a < db.n ∧ (db.acct a).cls.isSome = true ∧ True) := fun h => hc h.2.1
    rw [if_neg hneg]
    rcases hi a ha with ⟨_, h2, _⟩ | ⟨h1, _⟩
    · rw [h2] at hc; simp at hc
    · exact h1

theorem wipe_inv {orig : Nat → OrigA} {db : Db}
    (hall : ∀ a, a < db.n → (db.acct a).contract = some (expected (orig a)) ∧ AInv (orig a) (db.acct a)) (k : Nat) :
    Inv orig (wipe db k) ∧ ∀ a, a < db.n → ((wipe db k).acct a).contract = some (expected (orig a)) := by
  constructor
  · intro a ha
    have ha' : a < db.n := ha
    obtain ⟨hc, hinv⟩ := hall a ha'
    simp only [wipe, ha', if_true]
    rcases hinv with ⟨h1, _⟩ | ⟨h1, h2, h3, h4⟩
    · rw [hc] at h1; cases h1
    · refine .inr ⟨h1, ?_, ?_, ?_⟩
      · by_cases hk : k ≥ 1 <;> simp [hk, h2]
      · by_cases hk : k ≥ 2 <;> simp [hk, h3]
      · by_cases hk : k ≥ 3 <;> simp [hk, h4]
  · intro a ha
    simp only [wipe, ha, if_true]
    exact (hall a ha).1

/-- Fully migrated: every account has its expected record and no deprecated field. -/
def Done (orig : Nat → OrigA) (db : Db) : Prop :=
  ∀ a, a < db.n → db.acct a = ⟨none, none, none, some (expected (orig a))⟩

theorem wipe3_done {orig : Nat → OrigA} {db : Db}
    (hall : ∀ a, a < db.n → (db.acct a).contract = some (expected (orig a)) ∧ AInv (orig a) (db.acct a)) :
    Done orig (wipe db 3) := by
  intro a ha
  have ha' : a < db.n := ha
  have hc := (hall a ha').1
  simp only [wipe, ha', if_true]
  cases hk : db.acct a with | mk c n h ct =>
  rw [hk] at hc
  simp only at hc
  simp [hc]

theorem n_applyPass (db : Db) (sel : Nat → Bool) : (applyPass db sel).n = db.n := rfl
theorem n_wipe (db : Db) (k : Nat) : (wipe db k).n = db.n := rfl

/-- One `Migrate` call under any interruption keeps `Inv`; it never fails on its own; `(nil, nil)`
means fully migrated. -/
theorem migrate_sound {orig : Nat → OrigA} {db : Db} (hi : Inv orig db) (st : Step) :
    Inv orig (migrate db st).1 ∧ (migrate db st).1.n = db.n ∧
    ((migrate db st).2 = .done → Done orig (migrate db st).1) ∧
    (∀ a, db.n ≤ a → (migrate db st).1.acct a = db.acct a) := by
  have hframeP : ∀ sel a, db.n ≤ a → (applyPass db sel).acct a = db.acct a := by
    intro sel a ha
    have : ¬ a < db.n := by omega
    simp [applyPass, this]
  have hframeW : ∀ (d : Db) k a, d.n ≤ a → (wipe d k).acct a = d.acct a := by
    intro d k a ha
    have : ¬ a < d.n := by omega
    simp [wipe, this]
  have hfull := fun a (ha : a < (applyPass db (fun _ => true)).n) => fullPass_all hi a ha
  unfold migrate
  cases st with
  | crash emit sel =>
    simp only []
    exact ⟨applyPass_inv hi _, rfl, by simp, by intro a ha; exact hframeP _ a ha⟩
  | writeFail emit sel =>
    simp only []
    exact ⟨applyPass_inv hi _, rfl, by simp, by intro a ha; exact hframeP _ a ha⟩
  | pass emit =>
    simp only [passFails_inv hi, Bool.false_eq_true, if_false]
    split
    · exact ⟨applyPass_inv hi _, rfl, by simp, by intro a ha; simp only []; exact hframeP _ a ha⟩
    · refine ⟨(wipe_inv hfull 3).1, rfl, fun _ => wipe3_done hfull, ?_⟩
      intro a ha
      show (wipe (applyPass db fun _ => true) 3).acct a = db.acct a
      rw [hframeW (applyPass db fun _ => true) 3 a ha, hframeP _ a ha]
  | crashWipe k =>
    simp only [passFails_inv hi, Bool.false_eq_true, if_false]
    refine ⟨(wipe_inv hfull _).1, rfl, by simp, ?_⟩
    intro a ha
    show (wipe (applyPass db fun _ => true) (min k 2)).acct a = db.acct a
    rw [hframeW (applyPass db fun _ => true) _ a ha, hframeP _ a ha]
  | failWipe k =>
    simp only [passFails_inv hi, Bool.false_eq_true, if_false]
    refine ⟨(wipe_inv hfull _).1, rfl, by simp, ?_⟩
    intro a ha
    show (wipe (applyPass db fun _ => true) (min k 2)).acct a = db.acct a
    rw [hframeW (applyPass db fun _ => true) _ a ha, hframeP _ a ha]

theorem attempts_sound {orig : Nat → OrigA} : ∀ (steps : List Step) (db : Db), Inv orig db →
    Inv orig (attempts db steps) ∧ (attempts db steps).n = db.n ∧
    (∀ a, db.n ≤ a → (attempts db steps).acct a = db.acct a) := by
  intro steps
  induction steps with
  | nil => intro db hi; exact ⟨hi, rfl, fun _ _ => rfl⟩
  | cons s r ih =>
    intro db hi
    simp only [attempts]
    have h1 := migrate_sound hi s
    have h2 := ih _ h1.1
    exact ⟨h2.1, h2.2.1.trans h1.2.1, fun a ha => by rw [h2.2.2 a (by rw [h1.2.1]; exact ha), h1.2.2.2 a ha]⟩

theorem migrate_undisturbed_done {orig : Nat → OrigA} {db : Db} (hi : Inv orig db) :
    (migrate db (.pass none)).2 = .done := by
  unfold migrate
  simp only [passFails_inv hi, Bool.false_eq_true, if_false, Option.getD_none, Nat.min_self, Nat.lt_irrefl]

/-- The fully migrated database. -/
def migrated (orig : Nat → OrigA) (db : Db) : Db :=
  { db with acct := fun a => if a < db.n then ⟨none, none, none, some (expected (orig a))⟩ else db.acct a }

theorem eq_migrated {orig : Nat → OrigA} {db db' : Db} (hn : db'.n = db.n) (hd : Done orig db')
    (hf : ∀ a, db.n ≤ a → db'.acct a = db.acct a) : db' = migrated orig db := by
  cases db' with | mk n' a' =>
  simp only at hn
  subst hn
  have : a' = (migrated orig db).acct := by
    funext a
    simp only [migrated]
    by_cases ha : a < db.n
    · simp only [ha, if_true]; exact hd a ha
    · simp only [ha, if_false]; exact hf a (by omega)
  rw [this]; rfl

/-- Any interruption pattern followed by an undisturbed rerun returns `(nil, nil)` with exactly
the fully migrated database — the database of an undisturbed run. -/
theorem resume_hs {orig : Nat → OrigA} {db : Db} (hi : Inv orig db) (steps : List Step) :
    (migrate (attempts db steps) (.pass none)).2 = .done ∧
    (migrate (attempts db steps) (.pass none)).1 = migrated orig db := by
  have ha := attempts_sound steps db hi
  have hd := migrate_undisturbed_done ha.1
  have hm := migrate_sound ha.1 (.pass none)
  refine ⟨hd, eq_migrated (hm.2.1.trans ha.2.1) (hm.2.2.1 hd) ?_⟩
  intro a hge
  rw [hm.2.2.2 a (by rw [ha.2.1]; exact hge), ha.2.2 a hge]

/-- headstate returns its resume state (with the wrapped context error) only when the source was cut
short by a cancellation (`pass (some k)`). -/
theorem migrate_rerun_cancelled (db : Db) (st : Step) (hr : (migrate db st).2 = .rerun) :
    ∃ k, st = .pass (some k) := by
  unfold migrate at hr
  cases st with
  | pass emit =>
    cases emit with
    | some k => exact ⟨k, rfl⟩
    | none =>
      exfalso
      simp only [Option.getD_none, Nat.min_self, Nat.lt_irrefl, if_false] at hr
      repeat' split at hr
      all_goals simp at hr
  | crash emit sel => exfalso; simp at hr
  | writeFail emit sel => exfalso; simp at hr
  | crashWipe k =>
    exfalso; simp only at hr
    repeat' split at hr
    all_goals simp at hr
  | failWipe k =>
    exfalso; simp only at hr
    repeat' split at hr
    all_goals simp at hr

end Juno.C18.HS
