import JunoModel.C18.Model
/-! C18 helper lemmas: the `SchemaVersion` bit operations are set operations on indices `< 64`. -/
namespace Juno.C18
namespace SV

theorem one_shl_getLsbD (i j : Nat) :
    ((1#64) <<< i).getLsbD j = (decide (j = i) && decide (i < 64)) := by
  simp [BitVec.getLsbD_shiftLeft]
  by_cases h : j = i
  · subst h; simp
  · simp [h]
    intro h1 h2
    omega

/-- `Has` (written with a mask, as in the source) is the bit test. -/
theorem has_eq (s : SV) (i : Nat) : has s i = s.getLsbD i := by
  unfold has
  by_cases hb : s.getLsbD i
  · have hi : i < 64 := BitVec.lt_of_getLsbD hb
    simp [hb]
    intro h
    have := congrArg (fun v => v.getLsbD i) h
    simp [hi] at this
    rw [BitVec.getLsbD_eq_getElem hi] at hb
    simp_all
  · simp [hb]
    apply BitVec.eq_of_getLsbD_eq
    intro j hj
    rw [BitVec.getLsbD_and, one_shl_getLsbD]
    by_cases h : j = i
    · subst h; simp [hb]
    · simp [h]

theorem has_lt {s : SV} {i : Nat} (h : has s i = true) : i < 64 := by
  rw [has_eq] at h; exact BitVec.lt_of_getLsbD h

theorem has_zero (i : Nat) : has (0#64) i = false := by simp [has_eq]

theorem has_set (s : SV) (i j : Nat) :
    has (set s i) j = (has s j || (decide (j = i) && decide (i < 64))) := by
  simp only [has_eq, set, BitVec.getLsbD_or, one_shl_getLsbD]

theorem has_diff (a b : SV) (j : Nat) : has (diff a b) j = (has a j && !has b j) := by
  simp only [has_eq, diff, BitVec.getLsbD_and, BitVec.getLsbD_not]
  by_cases hj : j < 64
  · simp [hj]
  · have : a.getLsbD j = false := BitVec.getLsbD_of_ge a j (by omega)
    simp [this]

theorem has_union (a b : SV) (j : Nat) : has (union a b) j = (has a j || has b j) := by
  simp only [has_eq, union, BitVec.getLsbD_or]

theorem has_or (a b : SV) (j : Nat) : has (a ||| b) j = (has a j || has b j) := has_union a b j

theorem eq_zero_iff (s : SV) : s = 0#64 ↔ ∀ j, has s j = false := by
  constructor
  · intro h j; subst h; exact has_zero j
  · intro h
    apply BitVec.eq_of_getLsbD_eq
    intro j _
    have := h j
    rw [has_eq] at this
    simp [this]

theorem ext_has {a b : SV} (h : ∀ j, has a j = has b j) : a = b := by
  apply BitVec.eq_of_getLsbD_eq
  intro j _
  have := h j
  simpa [has_eq] using this

/-- `Contains` is set inclusion. -/
theorem contains_iff (a b : SV) : contains a b = true ↔ ∀ j, has b j = true → has a j = true := by
  unfold contains
  rw [beq_iff_eq, eq_zero_iff]
  constructor
  · intro h j hb
    have := h j
    rw [has_diff, hb] at this
    simpa using this
  · intro h j
    rw [has_diff]
    by_cases hb : has b j = true
    · simp [h j hb]
    · simp [hb]

/-- `Iter` yields exactly the set bits … -/
theorem mem_iter (s : SV) (j : Nat) : j ∈ iter s ↔ has s j = true := by
  unfold iter
  rw [List.mem_filter, has_eq]
  constructor
  · intro h; exact h.2
  · intro h; exact ⟨List.mem_range.mpr (BitVec.lt_of_getLsbD h), h⟩

/-- … in strictly ascending order (so each once). -/
theorem iter_sorted (s : SV) : (iter s).Pairwise (· < ·) := by
  unfold iter
  exact List.Pairwise.filter _ List.pairwise_lt_range

theorem iter_nil_iff (s : SV) : iter s = [] ↔ s = 0#64 := by
  rw [eq_zero_iff]
  constructor
  · intro h j
    cases hj : has s j
    · rfl
    · have := (mem_iter s j).mpr hj
      rw [h] at this
      cases this
  · intro h
    apply List.eq_nil_iff_forall_not_mem.mpr
    intro j hj
    have := (mem_iter s j).mp hj
    rw [h j] at this
    cases this

/-- `tzAux s fuel i` finds the least set bit at or above `i` within `fuel` steps. -/
theorem tzAux_spec (s : SV) : ∀ (fuel i : Nat), (∃ j, i ≤ j ∧ j < i + fuel ∧ s.getLsbD j = true) →
    s.getLsbD (tzAux s fuel i) = true ∧ i ≤ tzAux s fuel i ∧ ∀ k, i ≤ k → k < tzAux s fuel i → s.getLsbD k = false := by
  intro fuel
  induction fuel with
  | zero => intro i ⟨j, h1, h2, _⟩; omega
  | succ n ih =>
    intro i ⟨j, h1, h2, h3⟩
    simp only [tzAux]
    by_cases hb : s.getLsbD i = true
    · rw [if_pos hb]
      exact ⟨hb, Nat.le_refl _, fun k h4 h5 => by omega⟩
    · rw [if_neg hb]
      have hji : j ≠ i := by intro e; subst e; exact hb h3
      obtain ⟨a, b, c⟩ := ih (i + 1) ⟨j, by omega, by omega, h3⟩
      refine ⟨a, by omega, ?_⟩
      intro k h4 h5
      by_cases hk : k = i
      · subst hk; simpa using hb
      · exact c k (by omega) h5

theorem tz_spec (s : SV) (hs : s ≠ 0#64) :
    s.getLsbD (tz s) = true ∧ ∀ k, k < tz s → s.getLsbD k = false := by
  have : ∃ j, s.getLsbD j = true := by
    apply Classical.byContradiction
    intro hne
    apply hs
    apply BitVec.eq_of_getLsbD_eq
    intro j _
    have : ¬ s.getLsbD j = true := fun h => hne ⟨j, h⟩
    simpa using this
  obtain ⟨j, hj⟩ := this
  have hj64 : j < 64 := BitVec.lt_of_getLsbD hj
  obtain ⟨a, _, c⟩ := tzAux_spec s 64 0 ⟨j, by omega, by omega, hj⟩
  exact ⟨a, fun k hk => c k (by omega) hk⟩

/-- Two strictly ascending lists with the same members are equal. -/
theorem eq_of_sorted_of_mem_iff : ∀ (l1 l2 : List Nat), l1.Pairwise (· < ·) → l2.Pairwise (· < ·) →
    (∀ x, x ∈ l1 ↔ x ∈ l2) → l1 = l2 := by
  intro l1
  induction l1 with
  | nil =>
    intro l2 _ _ h
    cases l2 with
    | nil => rfl
    | cons b r => exact absurd ((h b).mpr List.mem_cons_self) (by simp)
  | cons a r ih =>
    intro l2 h1 h2 h
    cases l2 with
    | nil => exact absurd ((h a).mp List.mem_cons_self) (by simp)
    | cons b r2 =>
      have p1 := List.pairwise_cons.mp h1
      have p2 := List.pairwise_cons.mp h2
      have hab : a = b := by
        have ha := (h a).mp List.mem_cons_self
        have hb := (h b).mpr List.mem_cons_self
        rcases List.mem_cons.mp ha with e | e
        · exact e
        · rcases List.mem_cons.mp hb with e2 | e2
          · exact e2.symm
          · have := p2.1 a e; have := p1.1 b e2; omega
      subst hab
      congr 1
      apply ih r2 p1.2 p2.2
      intro x
      constructor
      · intro hx
        have := (h x).mp (List.mem_cons_of_mem _ hx)
        rcases List.mem_cons.mp this with e | e
        · subst e; have := p1.1 x hx; omega
        · exact e
      · intro hx
        have := (h x).mpr (List.mem_cons_of_mem _ hx)
        rcases List.mem_cons.mp this with e | e
        · subst e; have := p2.1 x hx; omega
        · exact e


theorem shr_getLsbD (s : SV) (k i : Nat) : (s >>> k).getLsbD i = s.getLsbD (k + i) := by
  simp [BitVec.getLsbD_ushiftRight]

theorem iterLoop_spec (s : SV) : ∀ (fuel : Nat) (n : SV) (offset idx : Nat),
    offset ≤ idx → n = s >>> (idx - offset) → n ≠ 0#64 → offset = tz n → 64 - idx ≤ fuel →
    (iterLoop fuel n offset idx).Pairwise (· < ·) ∧
    ∀ j, j ∈ iterLoop fuel n offset idx ↔ (idx ≤ j ∧ s.getLsbD j = true) := by
  intro fuel
  induction fuel with
  | zero =>
    intro n offset idx hoff hn hne hoffs hfuel
    -- idx < 64 because bit idx of s is set
    have ht := tz_spec n hne
    rw [← hoffs, hn, shr_getLsbD] at ht
    have : idx - offset + offset = idx := by omega
    rw [this] at ht
    have := BitVec.lt_of_getLsbD ht.1
    omega
  | succ f ih =>
    intro n offset idx hoff hn hne hoffs hfuel
    have ht := tz_spec n hne
    rw [← hoffs] at ht
    have hbit : s.getLsbD idx = true := by
      have := ht.1
      rw [hn, shr_getLsbD] at this
      have e : idx - offset + offset = idx := by omega
      rw [e] at this; exact this
    have hidx : idx < 64 := BitVec.lt_of_getLsbD hbit
    have hn' : n >>> (offset + 1) = s >>> (idx + 1) := by
      rw [hn, ← BitVec.shiftRight_add]
      congr 1; omega
    simp only [iterLoop, hidx, if_true]
    split
    · -- nothing above idx
      rename_i hz
      have hz : s >>> (idx + 1) = 0#64 := by rw [← hn']; simpa using hz
      refine ⟨by simp, ?_⟩
      intro j
      simp only [List.mem_singleton]
      constructor
      · intro e; subst e; exact ⟨Nat.le_refl _, hbit⟩
      · intro ⟨h1, h2⟩
        apply Classical.byContradiction
        intro hne2
        have hgt : idx + 1 ≤ j := by omega
        have := shr_getLsbD s (idx + 1) (j - (idx + 1))
        rw [hz] at this
        have e : idx + 1 + (j - (idx + 1)) = j := by omega
        rw [e, h2] at this
        simp at this
    · rename_i hnz
      have hnz' : n >>> (offset + 1) ≠ 0#64 := by simpa using hnz
      have ht' := tz_spec _ hnz'
      obtain ⟨hs, hm⟩ := ih (n >>> (offset + 1)) (tz (n >>> (offset + 1))) (idx + tz (n >>> (offset + 1)) + 1)
        (by omega) (by rw [hn']; congr 1; omega) hnz' rfl (by omega)
      refine ⟨List.pairwise_cons.mpr ⟨?_, hs⟩, ?_⟩
      · intro j hj
        have := (hm j).mp hj
        omega
      · intro j
        rw [List.mem_cons, hm j]
        constructor
        · rintro (e | ⟨h1, h2⟩)
          · subst e; exact ⟨Nat.le_refl _, hbit⟩
          · exact ⟨by omega, h2⟩
        · intro ⟨h1, h2⟩
          by_cases e : j = idx
          · exact .inl e
          · refine .inr ⟨?_, h2⟩
            apply Classical.byContradiction
            intro hlt
            have hk : j - (idx + 1) < tz (n >>> (offset + 1)) := by omega
            have := ht'.2 _ hk
            rw [hn', shr_getLsbD] at this
            have e2 : idx + 1 + (j - (idx + 1)) = j := by omega
            rw [e2, h2] at this
            cases this

/-- `Iter` as written in version.go (trailing-zeros walk with shifts) yields exactly the set bits
in ascending order. -/
theorem iterGo_eq_iter (s : SV) : iterGo s = iter s := by
  unfold iterGo
  split
  · rename_i hz
    have : s = 0#64 := by simpa using hz
    rw [(iter_nil_iff s).mpr this]
  · rename_i hnz
    have hne : s ≠ 0#64 := by simpa using hnz
    obtain ⟨hs, hm⟩ := iterLoop_spec s 64 s (tz s) (tz s) (Nat.le_refl _) (by simp) hne rfl (by omega)
    apply eq_of_sorted_of_mem_iff _ _ hs (iter_sorted s)
    intro j
    rw [hm j, mem_iter, has_eq]
    constructor
    · intro h; exact h.2
    · intro h
      refine ⟨?_, h⟩
      apply Classical.byContradiction
      intro hlt
      have := (tz_spec s hne).2 j (by omega)
      rw [h] at this; cases this


end SV

/-! ### the registry's target -/

theorem has_targetAux (es : List Entry) (k : Nat) (acc : SV) (j : Nat) (hk : k + es.length ≤ 64) :
    SV.has (targetAux es k acc) j =
      (SV.has acc j || (decide (k ≤ j) && (es[j - k]?.map Entry.inTarget).getD false)) := by
  induction es generalizing k acc with
  | nil => simp [targetAux]
  | cons e es ih =>
    simp only [targetAux]
    rw [ih (k + 1) _ (by simp at hk ⊢; omega)]
    by_cases hjk : j = k
    · subst hjk
      have : ¬ (j + 1 ≤ j) := by omega
      by_cases he : e.inTarget
      · have h64 : j < 64 := by simp at hk; omega
        simp [he, SV.has_set, this, h64]
      · simp [he, this]
    · by_cases hlt : k ≤ j
      · have h1 : k + 1 ≤ j := by omega
        have h2 : j - k = (j - (k + 1)) + 1 := by omega
        by_cases he : e.inTarget
        · simp [he, SV.has_set, hjk, hlt, h1, h2]
        · simp [he, hlt, h1, h2]
      · have h1 : ¬ (k + 1 ≤ j) := by omega
        by_cases he : e.inTarget
        · simp [he, SV.has_set, hjk, hlt, h1]
        · simp [he, hlt, h1]

/-- Bit `j` of the target is set iff migration `j` is registered and mandatory or enabled. -/
theorem has_target (r : Registry) (hr : r.ok = true) (j : Nat) :
    SV.has r.target j = (r[j]?.map Entry.inTarget).getD false := by
  unfold Registry.target
  rw [has_targetAux r 0 _ j (by simpa [Registry.ok] using hr)]
  simp [SV.has_zero]

/-- The target only has bits below the number of registered migrations. -/
theorem target_lt (r : Registry) (hr : r.ok = true) {j : Nat} (h : SV.has r.target j = true) :
    j < r.length := by
  rw [has_target r hr] at h
  cases hj : r[j]? with
  | none => simp [hj] at h
  | some e => exact (List.getElem?_eq_some_iff.mp hj).1

end Juno.C18
