import JunoModel.C18.Model
/-! C18 helper lemmas: the `SchemaVersion` bit operations are set operations on indices `< 64`. -/
namespace Juno.C18
namespace SV

theorem one_shl_getLsbD (i j : Nat) :
    ((1#64) <<< i).getLsbD j = (decide (j = i) && decide (i < 64)) := by
  simp [BitVec.getLsbD_shiftLeft]
  by_cases h : j = i
  · subst h; simp
  · simp [h]
    intro h1 h2
    omega

/-- `Has` (written with a mask, as in the source) is the bit test. -/
theorem has_eq (s : SV) (i : Nat) : has s i = s.getLsbD i := by
  unfold has
  by_cases hb : s.getLsbD i
  · have hi : i < 64 := BitVec.lt_of_getLsbD hb
    simp [hb]
    intro h
    have := congrArg (fun v => v.getLsbD i) h
    simp [hi] at this
    rw [BitVec.getLsbD_eq_getElem hi] at hb
    simp_all
  · simp [hb]
    apply BitVec.eq_of_getLsbD_eq
    intro j hj
    rw [BitVec.getLsbD_and, one_shl_getLsbD]
    by_cases h : j = i
    · subst h; simp [hb]
    · simp [h]

theorem has_lt {s : SV} {i : Nat} (h : has s i = true) : i < 64 := by
  rw [has_eq] at h; exact BitVec.lt_of_getLsbD h

theorem has_zero (i : Nat) : has (0#64) i = false := by simp [has_eq]

theorem has_set (s : SV) (i j : Nat) :
    has (set s i) j = (has s j || (decide (j = i) && decide (i < 64))) := by
  simp only [has_eq, set, BitVec.getLsbD_or, one_shl_getLsbD]

theorem has_diff (a b : SV) (j : Nat) : has (diff a b) j = (has a j && !has b j) := by
  simp only [has_eq, diff, BitVec.getLsbD_and, BitVec.getLsbD_not]
  by_cases hj : j < 64
  · simp [hj]
  · have : a.getLsbD j = false := BitVec.getLsbD_of_ge a j (by omega)
    simp [this]

theorem has_union (a b : SV) (j : Nat) : has (union a b) j = (has a j || has b j) := by
  simp only [has_eq, union, BitVec.getLsbD_or]

theorem has_or (a b : SV) (j : Nat) : has (a ||| b) j = (has a j || has b j) := has_union a b j

theorem eq_zero_iff (s : SV) : s = 0#64 ↔ ∀ j, has s j = false := by
  constructor
  · intro h j; subst h; exact has_zero j
  · intro h
    apply BitVec.eq_of_getLsbD_eq
    intro j _
    have := h j
    rw [has_eq] at this
    simp [this]

theorem ext_has {a b : SV} (h : ∀ j, has a j = has b j) : a = b := by
  apply BitVec.eq_of_getLsbD_eq
  intro j _
  have := h j
  simpa [has_eq] using this

/-- `Contains` is set inclusion. -/
theorem contains_iff (a b : SV) : contains a b = true ↔ ∀ j, has b j = true → has a j = true := by
  unfold contains
  rw [beq_iff_eq, eq_zero_iff]
  constructor
  · intro h j hb
    have := h j
    rw [has_diff, hb] at this
    simpa using this
  · intro h j
    rw [has_diff]
    by_cases hb : has b j = true
    · simp [h j hb]
    · simp [hb]

/-- `Iter` yields exactly the set bits … -/
theorem mem_iter (s : SV) (j : Nat) : j ∈ iter s ↔ has s j = true := by
  unfold iter
  rw [List.mem_filter, has_eq]
  constructor
  · intro h; exact h.2
  · intro h; exact ⟨List.mem_range.mpr (BitVec.lt_of_getLsbD h), h⟩

/-- … in strictly ascending order (so each once). -/
theorem iter_sorted (s : SV) : (iter s).Pairwise (· < ·) := by
  unfold iter
  exact List.Pairwise.filter _ List.pairwise_lt_range

theorem iter_nil_iff (s : SV) : iter s = [] ↔ s = 0#64 := by
  rw [eq_zero_iff]
  constructor
  · intro h j
    cases hj : has s j
    · rfl
    · have := (mem_iter s j).mpr hj
      rw [h] at this
      cases this
  · intro h
    apply List.eq_nil_iff_forall_not_mem.mpr
    intro j hj
    have := (mem_iter s j).mp hj
    rw [h j] at this
    cases this

end SV

/-! ### the registry's target -/

theorem has_targetAux (es : List Entry) (k : Nat) (acc : SV) (j : Nat) (hk : k + es.length ≤ 64) :
    SV.has (targetAux es k acc) j =
      (SV.has acc j || (decide (k ≤ j) && (es[j - k]?.map Entry.inTarget).getD false)) := by
  induction es generalizing k acc with
  | nil => simp [targetAux]
  | cons e es ih =>
    simp only [targetAux]
    rw [ih (k + 1) _ (by simp at hk ⊢; omega)]
    by_cases hjk : j = k
    · subst hjk
      have : ¬ (j + 1 ≤ j) := by omega
      by_cases he : e.inTarget
      · have h64 : j < 64 := by simp at hk; omega
        simp [he, SV.has_set, this, h64]
      · simp [he, this]
    · by_cases hlt : k ≤ j
      · have h1 : k + 1 ≤ j := by omega
        have h2 : j - k = (j - (k + 1)) + 1 := by omega
        by_cases he : e.inTarget
        · simp [he, SV.has_set, hjk, hlt, h1, h2]
        · simp [he, hlt, h1, h2]
      · have h1 : ¬ (k + 1 ≤ j) := by omega
        by_cases he : e.inTarget
        · simp [he, SV.has_set, hjk, hlt, h1]
        · simp [he, hlt, h1]

/-- Bit `j` of the target is set iff migration `j` is registered and mandatory or enabled. -/
theorem has_target (r : Registry) (hr : r.ok = true) (j : Nat) :
    SV.has r.target j = (r[j]?.map Entry.inTarget).getD false := by
  unfold Registry.target
  rw [has_targetAux r 0 _ j (by simpa [Registry.ok] using hr)]
  simp [SV.has_zero]

/-- The target only has bits below the number of registered migrations. -/
theorem target_lt (r : Registry) (hr : r.ok = true) {j : Nat} (h : SV.has r.target j = true) :
    j < r.length := by
  rw [has_target r hr] at h
  cases hj : r[j]? with
  | none => simp [hj] at h
  | some e => exact (List.getElem?_eq_some_iff.mp hj).1

end Juno.C18
