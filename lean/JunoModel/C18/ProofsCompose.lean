import JunoModel.C18.ModelCompose
import JunoModel.C18.ProofsOpen
import JunoModel.C18.ProofsBlockTx
import JunoModel.C18.ProofsSDL
import JunoModel.C18.ProofsHS
/-! C18 helper lemmas: the runner composed with a data migration (`cstart`, `cstarts`). -/
namespace Juno.C18

/-! ## What the log says about the script -/

/-- `apply j` / `save j t` in the log: what `Migrate` of `j` had returned, and that it was called. -/
structure BehQ (cfg : Cfg) (env : Env) (s : RunSt) : Prop where
  apply_beh : ∀ j, Event.apply j ∈ s.log → (env.beh j).st = none ∧
      ((env.beh j).err = .none ∨ (cfg.markOnNilCtx = true ∧ (env.beh j).err = .ctx)) ∧ ∃ c, Event.call j c ∈ s.log
  save_beh : ∀ j t, Event.save j t ∈ s.log → (env.beh j).st = some t ∧ ∃ c, Event.call j c ∈ s.log

theorem RM_behQ {cfg : Cfg} {env : Env} {last : SV} {i : Nat} {s s' : RunSt} {r : Option Result}
    (hs : RM cfg env last i s s' r) (h : BehQ cfg env s) : BehQ cfg env s' := by
  cases hs with
  | stop r evs hdisk hcur hlog hq hci =>
    have hmono : ∀ e, e ∈ s.log → e ∈ s'.log := by intro e he; rw [hlog]; exact List.mem_append_right _ he
    refine ⟨?_, ?_⟩
    · intro j hj
      rw [hlog] at hj
      rcases List.mem_append.mp hj with hj | hj
      · exact absurd (hq _ hj) (by simp [Quiet])
      · obtain ⟨h1, h2, c, h3⟩ := h.apply_beh j hj
        exact ⟨h1, h2, c, hmono _ h3⟩
    · intro j t hj
      rw [hlog] at hj
      rcases List.mem_append.mp hj with hj | hj
      · exact absurd (hq _ hj) (by simp [Quiet])
      · obtain ⟨h1, c, h3⟩ := h.save_beh j t hj
        exact ⟨h1, c, hmono _ h3⟩
  | save _ st c hst hdisk hcur hlog hr =>
    have hmono : ∀ e, e ∈ s.log → e ∈ s'.log := by intro e he; rw [hlog]; simp [he]
    refine ⟨?_, ?_⟩
    · intro j hj
      rw [hlog] at hj
      simp only [List.mem_cons, reduceCtorEq, false_or] at hj
      obtain ⟨h1, h2, c', h3⟩ := h.apply_beh j hj
      exact ⟨h1, h2, c', hmono _ h3⟩
    · intro j t hj
      rw [hlog] at hj
      simp only [List.mem_cons, reduceCtorEq, false_or, Event.save.injEq] at hj
      rcases hj with ⟨rfl, rfl⟩ | hj
      · exact ⟨hst, s.cur, by rw [hlog]; simp⟩
      · obtain ⟨h1, c', h3⟩ := h.save_beh j t hj
        exact ⟨h1, c', hmono _ h3⟩
  | apply c hst herr hdisk hcur hlog =>
    have hmono : ∀ e, e ∈ s.log → e ∈ s'.log := by intro e he; rw [hlog]; simp [he]
    refine ⟨?_, ?_⟩
    · intro j hj
      rw [hlog] at hj
      simp only [List.mem_cons, reduceCtorEq, false_or, Event.apply.injEq] at hj
      rcases hj with rfl | hj
      · refine ⟨hst, ?_, s.cur, by rw [hlog]; simp⟩
        rcases herr with h1 | ⟨h1, h2, _⟩
        · exact .inl h1
        · exact .inr ⟨h1, h2⟩
      · obtain ⟨h1, h2, c', h3⟩ := h.apply_beh j hj
        exact ⟨h1, h2, c', hmono _ h3⟩
    · intro j t hj
      rw [hlog] at hj
      simp only [List.mem_cons, reduceCtorEq, false_or] at hj
      obtain ⟨h1, c', h3⟩ := h.save_beh j t hj
      exact ⟨h1, c', hmono _ h3⟩

theorem run_behQ (cfg : Cfg) (reg : Registry) (env : Env) (d : Disk) : BehQ cfg env (run cfg reg env d).1 := by
  have h0 : BehQ cfg env ⟨d, d.metaD.cur, 0, []⟩ :=
    ⟨fun _ h => (List.not_mem_nil h).elim, fun _ _ h => (List.not_mem_nil h).elim⟩
  unfold run
  simp only []
  split
  · exact h0
  split
  · exact h0
  have h1 : BehQ cfg env { (RunSt.tickEv ⟨d, d.metaD.cur, 0, []⟩ (.metaWrite ⟨d.metaD.cur, reg.target⟩)) with
        disk := { d with md := some ⟨d.metaD.cur, reg.target⟩ } } := by
    refine ⟨?_, ?_⟩
    · intro j h; simp [RunSt.tickEv] at h
    · intro j t h; simp [RunSt.tickEv] at h
  split
  · exact h1
  split
  · exact h1
  · exact runLoop_inv cfg env reg.target (Q := BehQ cfg env) (Inv := fun _ s => BehQ cfg env s) (fun _ _ h => h)
      (fun i rest s s' r h hrm => by
        have := RM_behQ hrm h
        cases r <;> exact this) _ _ h1

theorem start_beh (cfg : Cfg) (d : Disk) (st : Start) :
    (∀ j, Event.apply j ∈ (start cfg d st).2.1 → (st.env.beh j).st = none ∧
      ((st.env.beh j).err = .none ∨ (cfg.markOnNilCtx = true ∧ (st.env.beh j).err = .ctx)) ∧
      ∃ c, Event.call j c ∈ (start cfg d st).2.1) ∧
    (∀ j t, Event.save j t ∈ (start cfg d st).2.1 → (st.env.beh j).st = some t ∧
      ∃ c, Event.call j c ∈ (start cfg d st).2.1) := by
  unfold start
  by_cases hmr : st.env.metaReadFails = true
  · simp [hmr]
  have hmr' : st.env.metaReadFails = false := by simpa using hmr
  rw [hmr']
  cases newRunner cfg st.reg d with
  | ok =>
    have h := run_behQ cfg st.reg st.env d
    exact ⟨h.apply_beh, h.save_beh⟩
  | optOut => exact ⟨fun _ h => (List.not_mem_nil h).elim, fun _ _ h => (List.not_mem_nil h).elim⟩
  | downgrade => exact ⟨fun _ h => (List.not_mem_nil h).elim, fun _ _ h => (List.not_mem_nil h).elim⟩

theorem calledIn_iff (i : Nat) (log : List Event) : calledIn i log = true ↔ ∃ c, Event.call i c ∈ log := by
  simp only [calledIn, List.any_eq_true]
  constructor
  · rintro ⟨e, he, h⟩
    cases e <;> simp at h
    subst h; exact ⟨_, he⟩
  · rintro ⟨c, hc⟩; exact ⟨_, hc, by simp⟩

/-- The applied bit of `j` after a start: it was set before, or `apply j` is in the log. -/
theorem start_bit (cfg : Cfg) (d : Disk) (st : Start) (j : Nat) (h : (start cfg d st).1.cur.has j = true) :
    d.cur.has j = true ∨ Event.apply j ∈ (start cfg d st).2.1 := by
  rcases start_cases cfg d st with ⟨h1, _⟩ | ⟨_, _, _, s, hq, h1, h2⟩
  · rw [h1] at h; exact .inl h
  · rw [h1, (disk_cur_of_md hq.md).1] at h
    rcases hq.cur_sub j h with h3 | ⟨_, h3⟩
    · exact .inl h3
    · exact .inr (h2 ▸ h3)

/-! ## Soundness of a data migration relative to the token the runner keeps -/

/-- What a data model has to guarantee for the composition: `Inv db tok` — the database is sound
with respect to the stored resume token `tok`; whatever one `Before`+`Migrate` does it stays sound
for the OLD token (death, error, failed save), becomes sound for the returned state, and
`(nil, nil)` means the migration's work is complete (and sound for "no token"). -/
structure DataMig.Sound {σ : Type} (M : DataMig σ) (Inv : σ → Option Bytes → Prop) (Done : σ → Prop) : Prop where
  keep : ∀ db tok s, Inv db tok → Inv (M.exec db tok s).1 tok
  saved : ∀ db tok s t, Inv db tok → (M.exec db tok s).2.st = some t → Inv (M.exec db tok s).1 (some t)
  complete : ∀ db tok s, Inv db tok → (M.exec db tok s).2.st = none → (M.exec db tok s).2.err = .none →
    Done (M.exec db tok s).1 ∧ Inv (M.exec db tok s).1 none

/-- The invariant of the composition: the data is sound for the stored token, and the applied
bit implies that the migration's work is complete. -/
def CInv {σ : Type} (Inv : σ → Option Bytes → Prop) (Done : σ → Prop) (i : Nat) (d : Disk) (db : σ) : Prop :=
  Inv db (d.ist i) ∧ (d.cur.has i = true → Done db)

theorem cstart_sound {σ : Type} {M : DataMig σ} {Inv : σ → Option Bytes → Prop} {Done : σ → Prop}
    (hS : M.Sound Inv Done) (cfg : Cfg) (hfix : cfg.markOnNilCtx = false) (i : Nat) (d : Disk) (db : σ)
    (st : Start) (step : M.Step) (h : CInv Inv Done i d db) :
    CInv Inv Done i (cstart M cfg i d db st step).1 (cstart M cfg i d db st step).2.1 := by
  unfold cstart
  simp only []
  generalize hst' : (⟨st.reg, { st.env with beh := fun j => if j = i then (M.exec db (d.ist i) step).2 else st.env.beh j }⟩ : Start) = st'
  have hbeh : st'.env.beh i = (M.exec db (d.ist i) step).2 := by rw [← hst']; simp
  have htok := start_tokens cfg d st'
  have hb := start_beh cfg d st'
  have hcalls := (start_calls cfg d st').2
  by_cases hc : calledIn i (start cfg d st').2.1 = true
  · -- `Migrate` was called: the data moved
    simp only [hc, if_true]
    obtain ⟨c, hcall⟩ := (calledIn_iff i _).mp hc
    have hnot : d.cur.has i = false := (hcalls i c hcall).2.1
    by_cases ha : Event.apply i ∈ (start cfg d st').2.1
    · obtain ⟨h1, h2, _⟩ := hb.1 i ha
      rw [hbeh] at h1 h2
      have herr : (M.exec db (d.ist i) step).2.err = .none := by
        rcases h2 with h2 | ⟨h2, _⟩
        · exact h2
        · rw [hfix] at h2; cases h2
      have := hS.complete db (d.ist i) step h.1 h1 herr
      refine ⟨?_, fun _ => this.1⟩
      rw [htok.2.1 i ha]; exact this.2
    · have hbit : (start cfg d st').1.cur.has i = true → False := by
        intro hb'
        rcases start_bit cfg d st' i hb' with h3 | h3
        · rw [hnot] at h3; cases h3
        · exact ha h3
      by_cases hs : ∃ t, Event.save i t ∈ (start cfg d st').2.1
      · obtain ⟨t, hs⟩ := hs
        obtain ⟨h1, _⟩ := hb.2 i t hs
        rw [hbeh] at h1
        refine ⟨?_, fun hb' => (hbit hb').elim⟩
        rw [htok.2.2.1 i t hs]
        exact hS.saved db (d.ist i) step t h.1 h1
      · have hns : ∀ t, Event.save i t ∉ (start cfg d st').2.1 := fun t ht => hs ⟨t, ht⟩
        refine ⟨?_, fun hb' => (hbit hb').elim⟩
        rw [htok.2.2.2 i ha hns]
        exact hS.keep db (d.ist i) step h.1
  · -- `Migrate` was not called: nothing saved, nothing applied, the data is where it was
    have hc' : calledIn i (start cfg d st').2.1 = false := by simpa using hc
    simp only [hc', Bool.false_eq_true, if_false]
    have hnc : ∀ c, Event.call i c ∉ (start cfg d st').2.1 := fun c hcc => hc ((calledIn_iff i _).mpr ⟨c, hcc⟩)
    have ha : Event.apply i ∉ (start cfg d st').2.1 := by
      intro ha
      obtain ⟨_, _, c, hcc⟩ := hb.1 i ha
      exact hnc c hcc
    have hns : ∀ t, Event.save i t ∉ (start cfg d st').2.1 := by
      intro t ht
      obtain ⟨_, c, hcc⟩ := hb.2 i t ht
      exact hnc c hcc
    refine ⟨?_, ?_⟩
    · rw [htok.2.2.2 i ha hns]; exact h.1
    · intro hb'
      rcases start_bit cfg d st' i hb' with h3 | h3
      · exact h.2 h3
      · exact absurd h3 ha

theorem cstarts_sound {σ : Type} {M : DataMig σ} {Inv : σ → Option Bytes → Prop} {Done : σ → Prop}
    (hS : M.Sound Inv Done) (cfg : Cfg) (hfix : cfg.markOnNilCtx = false) (i : Nat) :
    ∀ (l : List (Start × M.Step)) (d : Disk) (db : σ), CInv Inv Done i d db →
      CInv Inv Done i (cstarts M cfg i d db l).1 (cstarts M cfg i d db l).2 := by
  intro l
  induction l with
  | nil => intro d db h; exact h
  | cons a rest ih =>
    intro d db h
    obtain ⟨st, step⟩ := a
    simp only [cstarts]
    exact ih _ _ (cstart_sound hS cfg hfix i d db st step h)

/-! ## The three instances -/

namespace SDL

theorem toNat_ofNat_mod (x : Nat) : (UInt8.ofNat (x % 256)).toNat = x % 256 := by
  simp [UInt8.toNat_ofNat']

/-- `Before(encodeResume n)` restores `n`, for every `uint64`. -/
theorem before_encodeResume (n : Nat) (hn : n < 2 ^ 64) : before (some (encodeResume n)) = some n := by
  simp only [before, encodeResume, List.length_cons, List.length_nil, decodeBE, List.foldl_cons, List.foldl_nil,
    toNat_ofNat_mod]
  simp only [show (0 + 1 + 1 + 1 + 1 + 1 + 1 + 1 + 1 = 0) = False from by simp, if_false,
    show (0 + 1 + 1 + 1 + 1 + 1 + 1 + 1 + 1 ≠ 8) = False from by simp, Option.some.injEq]
  omega

theorem migrate_rerun_le {db : Db} {h next m : Nat} {st : Step} (hh : db.height = some h)
    (hr : (migrate db next st).2 = .rerun m) : m ≤ h := by
  unfold migrate at hr
  rw [hh] at hr
  simp only [] at hr
  split at hr
  · cases hr
  · split at hr
    · cases hr
    · rename_i hstart
      cases st with
      | pass emit =>
        simp only [] at hr
        split at hr
        · cases hr
        · split at hr
          · rename_i he
            injection hr with hr
            omega
          · cases hr
      | crash emit sel => cases hr
      | writeFail emit sel => cases hr

/-- The composition invariant of statedifflength: the retained blocks have their records, the chain
height fits a `uint64` checkpoint, the stored token decodes, and every retained block below the
decoded checkpoint is backfilled. -/
def CInvTok (h o : Nat) (db : Db) (tok : Option Bytes) : Prop :=
  Retained db h o ∧ h + 1 < 2 ^ 64 ∧ ∃ n, before tok = some n ∧ Good db o n

theorem sdlMig_sound (h o : Nat) : sdlMig.Sound (CInvTok h o) (fun db => Good db o (h + 1)) := by
  refine ⟨?_, ?_, ?_⟩
  · rintro db tok s ⟨hr, hh, n, hb, hg⟩
    simp only [sdlMig, hb]
    have hm := migrate_sound hr hg s
    exact ⟨hm.1.retained hr, hh, n, hb, hm.1.good hg⟩
  · rintro db tok s t ⟨hr, hh, n, hb, hg⟩ hst
    simp only [sdlMig, hb, sdlRet] at hst ⊢
    have hm := migrate_sound hr hg s
    cases hret : (migrate db n s).2 with
    | rerun m =>
      rw [hret] at hst
      simp only [Option.some.injEq] at hst
      subst hst
      have hle := migrate_rerun_le hr.1 hret
      refine ⟨hm.1.retained hr, hh, m, before_encodeResume m (by omega), ?_⟩
      have := hm.2.1
      rw [hret] at this
      exact this
    | done => rw [hret] at hst; cases hst
    | failed => rw [hret] at hst; cases hst
    | crashed => rw [hret] at hst; cases hst
  · rintro db tok s ⟨hr, hh, n, hb, hg⟩ hst herr
    simp only [sdlMig, hb, sdlRet] at hst herr ⊢
    have hm := migrate_sound hr hg s
    cases hret : (migrate db n s).2 with
    | done =>
      refine ⟨hm.2.2.1 hret, hm.1.retained hr, hh, 0, rfl, ?_⟩
      intro b _ hb0; omega
    | rerun m => rw [hret] at hst; cases hst
    | failed => rw [hret] at herr; cases herr
    | crashed => rw [hret] at herr; cases herr

end SDL

theorem btMig_sound (cfg : BlockTx.Cfg) (hA : cfg.overwriteMigrated = false) (hB : cfg.skipUnstoredEmpty = false)
    (orig : BlockTx.Orig) (h : Nat) (hw : BlockTx.WFOrig orig) :
    (btMig cfg).Sound (fun db _ => BlockTx.Inv orig h db) (BlockTx.AllMigrated orig h) := by
  refine ⟨?_, ?_, ?_⟩
  · intro db tok s hi
    exact (BlockTx.migrate_inv hA hw hi s).1
  · intro db tok s t hi _
    exact (BlockTx.migrate_inv hA hw hi s).1
  · intro db tok s hi hst herr
    simp only [btMig, btRet] at hst herr ⊢
    cases hret : (BlockTx.migrate cfg db s).2 with
    | done => exact ⟨BlockTx.migrate_done_allMigrated hA hB hw hi s hret, (BlockTx.migrate_inv hA hw hi s).1⟩
    | rerun => rw [hret] at hst; cases hst
    | failed => rw [hret] at hst; cases hst
    | crashed => rw [hret] at hst; cases hst
    | diverged => rw [hret] at hst; cases hst
    | failedNil => rw [hret] at herr; cases herr

theorem hsMig_sound (orig : Nat → HS.OrigA) (n : Nat) :
    hsMig.Sound (fun db _ => HS.Inv orig db ∧ db.n = n) (fun db => HS.Done orig db ∧ db.n = n) := by
  refine ⟨?_, ?_, ?_⟩
  · intro db tok s hi
    have := HS.migrate_sound hi.1 s
    exact ⟨this.1, this.2.1.trans hi.2⟩
  · intro db tok s t hi _
    have := HS.migrate_sound hi.1 s
    exact ⟨this.1, this.2.1.trans hi.2⟩
  · intro db tok s hi hst herr
    have hm := HS.migrate_sound hi.1 s
    simp only [hsMig, hsRet] at hst herr ⊢
    cases hret : (HS.migrate db s).2 with
    | done => exact ⟨⟨hm.2.2.1 hret, hm.2.1.trans hi.2⟩, hm.1, hm.2.1.trans hi.2⟩
    | rerun => rw [hret] at hst; cases hst
    | failed => rw [hret] at hst; cases hst
    | crashed => rw [hret] at hst; cases hst

end Juno.C18
