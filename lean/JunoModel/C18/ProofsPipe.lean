import JunoModel.C18.ModelPipe
/-! C18 helper lemmas: what an accepted pipeline run guarantees. -/
namespace Juno.C18.Pipe

theorem valid_parts {conc : Nat} {o : Obs} (h : valid conc o = true) :
    o.perWorker.length = conc ∧ o.sent ≤ o.n ∧ (o.isDone = true ↔ o.sent = o.n) ∧
    (∀ w ∈ o.perWorker, sortedAsc w = true) ∧
    (∀ i, i < o.sent → (all o).count i = 1) ∧ (∀ x ∈ all o, x < o.sent) ∧
    (∀ c ∈ o.doneCalls, c = 1) ∧ o.doneCalls.length = conc := by
  unfold valid at h
  simp only [Bool.and_eq_true, beq_iff_eq, decide_eq_true_eq, List.all_eq_true, List.mem_range] at h
  obtain ⟨⟨⟨⟨⟨⟨⟨h1, h2⟩, h3⟩, h4⟩, h5⟩, h6⟩, h7⟩, h8⟩ := h
  refine ⟨h1, h3, ?_, h5, h6, h7, h8, h2⟩
  rw [h4]; simp

theorem nodup_of_count_le_one : ∀ (l : List Nat), (∀ a, l.count a ≤ 1) → l.Nodup := by
  intro l
  induction l with
  | nil => intro _; exact List.nodup_nil
  | cons a r ih =>
    intro h
    refine List.nodup_cons.mpr ⟨?_, ih ?_⟩
    · intro ha
      have h1 := h a
      rw [List.count_cons_self] at h1
      have := List.count_pos_iff.mpr ha
      omega
    · intro b
      have h1 := h b
      rw [List.count_cons] at h1
      omega

theorem nodup_of_valid {conc : Nat} {o : Obs} (h : valid conc o = true) : (all o).Nodup := by
  obtain ⟨_, _, _, _, h5, h6, _, _⟩ := valid_parts h
  apply nodup_of_count_le_one
  intro a
  by_cases ha : a ∈ all o
  · rw [h5 a (h6 a ha)]; exact Nat.le_refl 1
  · rw [List.count_eq_zero_of_not_mem ha]; omega

theorem mem_iff_of_valid {conc : Nat} {o : Obs} (h : valid conc o = true) (i : Nat) :
    i ∈ all o ↔ i < o.sent := by
  obtain ⟨_, _, _, _, h5, h6, _, _⟩ := valid_parts h
  constructor
  · exact h6 i
  · intro hi
    have := h5 i hi
    exact List.count_pos_iff.mp (by omega)

theorem sortedAsc_pairwise : ∀ (l : List Nat), sortedAsc l = true → l.Pairwise (· < ·) := by
  intro l
  induction l with
  | nil => intro _; exact List.Pairwise.nil
  | cons a r ih =>
    intro h
    cases r with
    | nil => simp
    | cons b r2 =>
      simp only [sortedAsc, Bool.and_eq_true, decide_eq_true_eq] at h
      have hr := ih h.2
      refine List.pairwise_cons.mpr ⟨?_, hr⟩
      intro x hx
      rcases List.mem_cons.mp hx with rfl | hx
      · exact h.1
      · have := (List.pairwise_cons.mp hr).1 x hx; omega

/-- What an accepted observation guarantees (a lemma about the ACCEPTOR; that pipeline.go only
produces accepted observations is established by running it, not proved). -/
theorem valid_guarantees (conc : Nat) (o : Obs) (h : valid conc o = true) :
    (all o).Nodup ∧ (∀ i, i ∈ all o ↔ i < o.sent) ∧
    (∀ w ∈ o.perWorker, w.Pairwise (· < ·)) ∧ (o.isDone = true ↔ o.sent = o.n) ∧ o.sent ≤ o.n ∧
    (∀ c ∈ o.doneCalls, c = 1) := by
  obtain ⟨_, h2, h3, h4, _, _, h7, _⟩ := valid_parts h
  exact ⟨nodup_of_valid h, mem_iff_of_valid h, fun w hw => sortedAsc_pairwise w (h4 w hw), h3, h2, h7⟩

example : valid 2 ⟨5, 3, false, [[0, 2], [1]], [1, 1]⟩ = true := by decide
example : valid 2 ⟨5, 3, false, [[0, 2], [1, 2]], [1, 1]⟩ = false := by decide

end Juno.C18.Pipe
