import JunoModel.C18.Model
import JunoModel.C18.ModelBlockTx
import JunoModel.C18.ModelSDL
import JunoModel.C18.ModelHS
/-
C18 — the runner model COMPOSED with the data models: migration `i` of the registry is no longer an
arbitrary script (`Env.beh i`) but one of the modelled migrations acting on its database; what the
runner sees (`Before` fails / the pair `Migrate` returns) is computed from the data model's return
and from the resume token the runner hands over. Also here: the resume-token codec of the
state-diff-length migration (statedifflength/migrator.go `Before`, `encodeResume`).
Core Lean only (linked into the driver).
-/
namespace Juno.C18

/-! ## statedifflength: the checkpoint codec -/

namespace SDL

/-- `encodeResume`: `binary.BigEndian.PutUint64` of the next block (a `uint64`). -/
def encodeResume (n : Nat) : Bytes :=
  [UInt8.ofNat (n / 72057594037927936 % 256), UInt8.ofNat (n / 281474976710656 % 256),
   UInt8.ofNat (n / 1099511627776 % 256), UInt8.ofNat (n / 4294967296 % 256),
   UInt8.ofNat (n / 16777216 % 256), UInt8.ofNat (n / 65536 % 256),
   UInt8.ofNat (n / 256 % 256), UInt8.ofNat (n % 256)]

/-- `binary.BigEndian.Uint64`. -/
def decodeBE (b : Bytes) : Nat := b.foldl (fun acc x => acc * 256 + x.toNat) 0

/-- `Migrator.Before(state)`: the checkpoint `m.nextBlock`; `none` = "invalid intermediate state
size". The runner passes `nil` when nothing is stored. -/
def before : Option Bytes → Option Nat
  | none => some 0
  | some b =>
    if b.length = 0 then some 0                       -- len(state) == 0: fresh run
    else if b.length ≠ 8 then none                    -- != intermediateStateSize
    else some (decodeBE b)

end SDL

/-! ## A data migration as the runner sees it -/

/-- A modelled migration: `exec db tok step` = `Before(tok)` followed (if it succeeds) by `Migrate`
on database `db` while the environment does `step`; the result is the database afterwards and what
the runner observes. When `Before` fails the database is returned unchanged and the error class is
irrelevant (the runner returns before looking at it; `.other` by convention). -/
structure DataMig (σ : Type) where
  Step : Type
  exec : σ → Option Bytes → Step → σ × MigStep

/-- What statedifflength's `Migrate` hands to the runner: `(nil, nil)` / `(encodeResume next, nil)` /
`(nil, err)`. A process that dies inside `Migrate` returns nothing; the runner model then never
looks at the script (`crashAt`). -/
def sdlRet : SDL.Ret → MigStep
  | .done => ⟨false, none, .none⟩
  | .rerun n => ⟨false, some (SDL.encodeResume n), .none⟩
  | .failed => ⟨false, none, .other⟩
  | .crashed => ⟨false, none, .other⟩

def sdlMig : DataMig SDL.Db where
  Step := SDL.Step
  exec := fun db tok s =>
    match SDL.before tok with
    | none => (db, ⟨true, none, .other⟩)
    | some next => ((SDL.migrate db next s).1, sdlRet (SDL.migrate db next s).2)

/-- blocktransactions: `(shouldNotRerun, nil)` / `(shouldRerun = []byte{}, nil)` / `(shouldRerun, err)` /
`(shouldNotRerun, err)` (only when `clearOldBuckets` fails after the back-fill). -/
def btRet : BlockTx.Ret → MigStep
  | .done => ⟨false, none, .none⟩
  | .rerun => ⟨false, some [], .none⟩
  | .failedNil => ⟨false, none, .other⟩
  | _ => ⟨false, some [], .other⟩

/-- blocktransactions: `Before` ignores the token. -/
def btMig (cfg : BlockTx.Cfg) : DataMig BlockTx.Db where
  Step := List BlockTx.Step
  exec := fun db _ s => ((BlockTx.migrate cfg db s).1, btRet (BlockTx.migrate cfg db s).2)

/-- headstate: `(nil, nil)` / `(shouldRerun, wrapped ctx.Err())` / `(_, other error)`. -/
def hsRet : HS.Ret → MigStep
  | .done => ⟨false, none, .none⟩
  | .rerun => ⟨false, some [], .ctx⟩
  | _ => ⟨false, some [], .other⟩

/-- headstate: `Before` ignores the token. -/
def hsMig : DataMig HS.Db where
  Step := HS.Step
  exec := fun db _ s => ((HS.migrate db s).1, hsRet (HS.migrate db s).2)

/-- How the runner reacts to what a migration returned (runner.go `runMigration` after `Migrate`):
mark applied; save the state; or return the error. `cancelled`: `ctx.Err() != nil` at that moment. -/
inductive Reaction | apply | save (st : Bytes) | error | beforeError
  deriving Repr, DecidableEq

def reaction (cfg : Cfg) (r : MigStep) (cancelled : Bool) : Reaction :=
  if r.beforeFails then .beforeError else
  if r.err != .none && !(r.err == .ctx && cancelled) then .error else
  match r.st with
  | some st => .save st
  | none => if r.err != .none && !cfg.markOnNilCtx then .error else .apply

/-! ## One start with migration `i` bound to a data migration -/

/-- Was `Migrate` of migration `i` called in this log? -/
def calledIn (i : Nat) (log : List Event) : Bool :=
  log.any (fun e => match e with | .call j _ => j == i | _ => false)

/-- One start (`NewRunner` + `Run`) in which migration `i` is the data migration `M` acting on
`db` (the other migrations follow the script of `st.env`, as do cancellation, death and failed
writes of the runner). `Before` of `i` receives the token stored on `d` (theorem `token_threading`).
The data moves iff the runner really called `Migrate` of `i`; if the process dies inside `Migrate`
the data effect of `step` stands although the runner never sees the return. -/
def cstart {σ : Type} (M : DataMig σ) (cfg : Cfg) (i : Nat) (d : Disk) (db : σ) (st : Start) (step : M.Step) :
    Disk × σ × List Event :=
  let out := M.exec db (d.ist i) step
  let st' : Start := ⟨st.reg, { st.env with beh := fun j => if j = i then out.2 else st.env.beh j }⟩
  let res := start cfg d st'
  (res.1, if calledIn i res.2.1 then out.1 else db, res.2.1)

/-- Any number of such starts. -/
def cstarts {σ : Type} (M : DataMig σ) (cfg : Cfg) (i : Nat) : Disk → σ → List (Start × M.Step) → Disk × σ
  | d, db, [] => (d, db)
  | d, db, (st, step) :: rest =>
    let r := cstart M cfg i d db st step
    cstarts M cfg i r.1 r.2.1 rest

end Juno.C18
