import JunoModel.C18.ProofsRunner
/-! C18 helper lemmas: which error `NewRunner` returns (`validateNoOptOutV`, `newRunnerV`) — the flag-list
loop of `validateNoOptOut` with its `break`, and the link with the accept/refuse decision `newRunner`. -/
namespace Juno.C18

/-- The flag loop in closed form: the named flags are the leading attempts below the registry
size; `errNewerDatabase` iff no flag was named when an attempt beyond the registry is met. -/
theorem optOutFlagLoop_eq (count : Nat) : ∀ (l acc : List Nat),
    optOutFlagLoop count l acc =
      if (acc ++ l.takeWhile (· < count)).isEmpty && !(l.dropWhile (· < count)).isEmpty then none
      else some (acc ++ l.takeWhile (· < count)) := by
  intro l
  induction l with
  | nil => intro acc; simp [optOutFlagLoop]
  | cons a rest ih =>
    intro acc
    simp only [optOutFlagLoop]
    by_cases ha : a ≥ count
    · have hlt : ¬ a < count := by omega
      simp only [ha, if_true, List.takeWhile_cons, List.dropWhile_cons, hlt, decide_false,
        Bool.false_eq_true, if_false, List.append_nil]
      cases acc <;> simp
    · have hlt : a < count := by omega
      simp only [ha, if_false, List.takeWhile_cons, List.dropWhile_cons, hlt, decide_true, if_true]
      rw [ih]
      simp

/-- On an ascending list, the leading elements below a bound are all the elements below it. -/
theorem takeWhile_lt_eq_filter (count : Nat) : ∀ (l : List Nat), l.Pairwise (· < ·) →
    l.takeWhile (· < count) = l.filter (· < count) := by
  intro l
  induction l with
  | nil => intro _; rfl
  | cons a rest ih =>
    intro h
    have hs := List.pairwise_cons.mp h
    by_cases ha : a < count
    · simp [List.takeWhile_cons, List.filter_cons, ha, ih hs.2]
    · simp only [List.takeWhile_cons, List.filter_cons, ha, decide_false, Bool.false_eq_true, if_false]
      symm
      rw [List.filter_eq_nil_iff]
      intro b hb
      have := hs.1 b hb
      simp; omega

/-- The migrations an opt-out error names: previously targeted, not in this target, registered in
this binary — in ascending order. -/
def namedOptOuts (target last : SV) (count : Nat) : List Nat :=
  (SV.iter (SV.diff last target)).filter (· < count)

theorem mem_namedOptOuts (target last : SV) (count j : Nat) :
    j ∈ namedOptOuts target last count ↔ (j < count ∧ last.has j = true ∧ target.has j = false) := by
  simp only [namedOptOuts, List.mem_filter, SV.mem_iter, SV.has_diff, Bool.and_eq_true, Bool.not_eq_true',
    decide_eq_true_eq]
  constructor
  · rintro ⟨⟨h1, h2⟩, h3⟩; exact ⟨h3, h1, h2⟩
  · rintro ⟨h3, h1, h2⟩; exact ⟨⟨h1, h2⟩, h3⟩

theorem namedOptOuts_sorted (target last : SV) (count : Nat) : (namedOptOuts target last count).Pairwise (· < ·) :=
  (SV.iter_sorted _).filter _

/-- `validateNoOptOut` of the current tree in closed form. -/
theorem validateNoOptOutV_eq (target last : SV) (count : Nat) :
    validateNoOptOutV target last count =
      if SV.diff last target = 0#64 then .ok
      else if namedOptOuts target last count = [] then .newer
      else .optOut (namedOptOuts target last count) := by
  unfold validateNoOptOutV
  simp only []
  by_cases h0 : SV.diff last target = 0#64
  · simp [h0]
  · have hb : (SV.diff last target == 0#64) = false := by simpa using h0
    simp only [hb, Bool.false_eq_true, if_false, h0]
    rw [optOutFlagLoop_eq, takeWhile_lt_eq_filter count _ (SV.iter_sorted _)]
    simp only [List.nil_append]
    have hfold : List.filter (fun x => decide (x < count)) (SV.iter (SV.diff last target)) =
        namedOptOuts target last count := rfl
    rw [hfold]
    by_cases hn : namedOptOuts target last count = []
    · have hne : SV.iter (SV.diff last target) ≠ [] := fun e => h0 ((SV.iter_nil_iff _).mp e)
      have hdrop : (List.dropWhile (fun x => decide (x < count)) (SV.iter (SV.diff last target))) ≠ [] := by
        intro hd
        have h1 := List.takeWhile_append_dropWhile (p := fun x => decide (x < count)) (l := SV.iter (SV.diff last target))
        rw [hd, List.append_nil, takeWhile_lt_eq_filter count _ (SV.iter_sorted _), hfold] at h1
        exact hne (h1 ▸ hn)
      have hc : ((namedOptOuts target last count).isEmpty &&
          !(List.dropWhile (fun x => decide (x < count)) (SV.iter (SV.diff last target))).isEmpty) = true := by
        rw [hn]
        cases hdw : List.dropWhile (fun x => decide (x < count)) (SV.iter (SV.diff last target)) with
        | nil => exact absurd hdw hdrop
        | cons _ _ => rfl
      rw [if_pos hc, if_pos hn]
    · have hc : ¬ ((namedOptOuts target last count).isEmpty &&
          !(List.dropWhile (fun x => decide (x < count)) (SV.iter (SV.diff last target))).isEmpty) = true := by
        cases h : namedOptOuts target last count with
        | nil => exact absurd h hn
        | cons _ _ => simp
      rw [if_neg hc, if_neg hn]
      cases h : namedOptOuts target last count with
      | nil => exact absurd h hn
      | cons _ _ => rfl

/-- `NewRunner` of the current tree in closed form: accepted iff applied and previously targeted
migrations are all in the target (`Contains`); otherwise the opt-out error naming exactly the known
migrations that were opted out of, or — when there is none — `errNewerDatabase`. -/
theorem newRunnerV_eq (reg : Registry) (d : Disk) :
    newRunnerV reg d =
      if SV.contains reg.target d.cur = true ∧ SV.contains reg.target d.last = true then .ok
      else if namedOptOuts reg.target d.last reg.length = [] then .newer
      else .optOut (namedOptOuts reg.target d.last reg.length) := by
  unfold newRunnerV
  simp only []
  have hlast : d.metaD.last = d.last := rfl
  have hcur : d.metaD.cur = d.cur := rfl
  rw [validateNoOptOutV_eq, hlast, hcur]
  have hcl : SV.contains reg.target d.last = true ↔ SV.diff d.last reg.target = 0#64 := by
    simp [SV.contains]
  by_cases h0 : SV.diff d.last reg.target = 0#64
  · have hnamed : namedOptOuts reg.target d.last reg.length = [] := by
      simp [namedOptOuts, h0, (SV.iter_nil_iff _).mpr rfl]
    have hl := hcl.mpr h0
    simp only [h0, if_true, hl, and_true, hnamed]
    unfold validateNoVersionDowngrade
    cases SV.contains reg.target d.cur <;> simp
  · have hl : ¬ SV.contains reg.target d.last = true := fun h => h0 (hcl.mp h)
    simp only [h0, if_false, hl, and_false]
    by_cases hn : namedOptOuts reg.target d.last reg.length = []
    · simp [hn]
    · simp [hn]

/-- The error-returning transcription and the accept/refuse model agree on acceptance. -/
theorem newRunnerV_ok_iff (reg : Registry) (d : Disk) :
    newRunnerV reg d = .ok ↔ newRunner Cfg.fixed reg d = .ok := by
  rw [newRunnerV_eq, newRunner_ok_iff, validateNoOptOut_fixed Cfg.fixed rfl, validateNoVersionDowngrade_iff,
    ← SV.contains_iff, ← SV.contains_iff]
  by_cases h : SV.contains reg.target d.cur = true ∧ SV.contains reg.target d.last = true
  · simp only [h, and_self, if_true]
  · simp only [h, if_false]
    constructor
    · intro hh; split at hh <;> cases hh
    · intro hh; exact absurd ⟨hh.2, hh.1⟩ h

/-! ## Read faults of the runner -/

/-- The migration an event is about. -/
def Event.idx : Event → Option Nat
  | .metaWrite _ => none
  | .before i _ => some i
  | .call i _ => some i
  | .ret i _ _ _ => some i
  | .save i _ => some i
  | .apply i => some i

/-- No event of the log is about a migration whose resume token could not be read. -/
def NoReadFailed (env : Env) (log : List Event) : Prop :=
  ∀ e ∈ log, ∀ j, e.idx = some j → env.istReadFails j = false

theorem runMigration_readfail (cfg : Cfg) (env : Env) (last : SV) (i : Nat) (s : RunSt)
    (h : env.istReadFails i = true) :
    (runMigration cfg env last i s).1 = s ∧ (runMigration cfg env last i s).2 ≠ none := by
  unfold runMigration
  simp only [h, if_true]
  split <;> simp

theorem RM_noReadFailed {cfg : Cfg} {env : Env} {last : SV} {i : Nat} {s s' : RunSt} {r : Option Result}
    (hs : RM cfg env last i s s' r) (hrf : env.istReadFails i = false) (h : NoReadFailed env s.log) :
    NoReadFailed env s'.log := by
  cases hs with
  | stop r evs hdisk hcur hlog hq hci =>
    intro e he j hj
    rw [hlog] at he
    rcases List.mem_append.mp he with he | he
    · have := hq e he
      cases e <;> simp only [Quiet] at this <;> simp only [Event.idx, Option.some.injEq, reduceCtorEq] at hj
      · obtain ⟨rfl, _⟩ := this; subst hj; exact hrf
      · obtain ⟨rfl, _⟩ := this; subst hj; exact hrf
      · subst this; subst hj; exact hrf
    · exact h e he j hj
  | save _ st c hst hdisk hcur hlog hr' =>
    intro e he j hj
    rw [hlog] at he
    simp only [List.mem_cons] at he
    rcases he with rfl | rfl | rfl | rfl | he
    · simp only [Event.idx, Option.some.injEq] at hj; subst hj; exact hrf
    · simp only [Event.idx, Option.some.injEq] at hj; subst hj; exact hrf
    · simp only [Event.idx, Option.some.injEq] at hj; subst hj; exact hrf
    · simp only [Event.idx, Option.some.injEq] at hj; subst hj; exact hrf
    · exact h e he j hj
  | apply c hst herr hdisk hcur hlog =>
    intro e he j hj
    rw [hlog] at he
    simp only [List.mem_cons] at he
    rcases he with rfl | rfl | rfl | rfl | he
    · simp only [Event.idx, Option.some.injEq] at hj; subst hj; exact hrf
    · simp only [Event.idx, Option.some.injEq] at hj; subst hj; exact hrf
    · simp only [Event.idx, Option.some.injEq] at hj; subst hj; exact hrf
    · simp only [Event.idx, Option.some.injEq] at hj; subst hj; exact hrf
    · exact h e he j hj

theorem runLoop_noReadFailed (cfg : Cfg) (env : Env) (last : SV) : ∀ (l : List Nat) (s : RunSt),
    NoReadFailed env s.log → NoReadFailed env (runLoop cfg env last l s).1.log := by
  intro l
  induction l with
  | nil => intro s h; simp only [runLoop]; exact h
  | cons i rest ih =>
    intro s h
    simp only [runLoop]
    split
    · exact h
    split
    · exact h
    by_cases hr : env.istReadFails i = true
    · have h1 := runMigration_readfail cfg env last i s hr
      split
      · rename_i s' r heq
        have : s' = s := by have := h1.1; rw [heq] at this; exact this
        rw [this]; exact h
      · rename_i s' heq
        have := h1.2; rw [heq] at this; exact absurd rfl this
    · have hrf : env.istReadFails i = false := by simpa using hr
      have hnew := RM_noReadFailed (runMigration_shape cfg env last i s) hrf h
      split
      · rename_i s' r heq
        rw [heq] at hnew; exact hnew
      · rename_i s' heq
        rw [heq] at hnew; exact ih s' hnew

theorem run_noReadFailed (cfg : Cfg) (reg : Registry) (env : Env) (d : Disk) :
    NoReadFailed env (run cfg reg env d).1.log := by
  have h0 : NoReadFailed env ([] : List Event) := fun e he => (List.not_mem_nil he).elim
  have h1 : ∀ m, NoReadFailed env [Event.metaWrite m] := by
    intro m e he j hj
    simp only [List.mem_singleton] at he
    subst he
    simp [Event.idx] at hj
  unfold run
  simp only []
  split
  · exact h0
  split
  · exact h0
  split
  · exact h1 _
  split
  · exact h1 _
  · exact runLoop_noReadFailed cfg env reg.target _ _ (h1 _)

/-- A start never touches a migration whose stored resume token it cannot read: no `Before`, no
`Migrate`, nothing saved, not applied; token and bit are what they were. A start that cannot read
the metadata does nothing at all. -/
theorem start_readfail (cfg : Cfg) (d : Disk) (st : Start) :
    (st.env.metaReadFails = true → start cfg d st = (d, [], some .errRead)) ∧
    (∀ j, st.env.istReadFails j = true →
      (∀ e ∈ (start cfg d st).2.1, e.idx ≠ some j) ∧
      (start cfg d st).1.ist j = d.ist j ∧ (start cfg d st).1.cur.has j = d.cur.has j) := by
  refine ⟨fun h => by simp [start, h], ?_⟩
  intro j hj
  have hlog : ∀ e ∈ (start cfg d st).2.1, e.idx ≠ some j := by
    intro e he hidx
    have hno : NoReadFailed st.env (start cfg d st).2.1 := by
      unfold start
      by_cases hmr : st.env.metaReadFails = true
      · simp only [hmr, if_true]; exact fun e he => (List.not_mem_nil he).elim
      simp only [hmr, Bool.false_eq_true, if_false]
      cases newRunner cfg st.reg d with
      | ok => exact run_noReadFailed cfg st.reg st.env d
      | optOut => exact fun e he => (List.not_mem_nil he).elim
      | downgrade => exact fun e he => (List.not_mem_nil he).elim
    have := hno e he j hidx
    rw [hj] at this; cases this
  have hnoapply : Event.apply j ∉ (start cfg d st).2.1 := fun h => hlog _ h rfl
  have hnosave : ∀ t, Event.save j t ∉ (start cfg d st).2.1 := fun t h => hlog _ h rfl
  refine ⟨hlog, (start_tokens cfg d st).2.2.2 j hnoapply hnosave, ?_⟩
  rcases start_cases cfg d st with ⟨h1, _⟩ | ⟨_, _, _, s, hq, h1, h2⟩
  · rw [h1]
  · rw [h1, (disk_cur_of_md hq.md).1]
    cases h0 : d.cur.has j with
    | true => exact hq.cur_mono j h0
    | false =>
      cases h3 : s.cur.has j with
      | false => rfl
      | true =>
        rcases hq.cur_sub j h3 with h4 | ⟨_, h4⟩
        · rw [h0] at h4; cases h4
        · rw [← h2] at h4; exact absurd h4 hnoapply

/-! ## Histories -/

theorem starts_append_disk (cfg : Cfg) : ∀ (pre mid : List Start) (d : Disk),
    (starts cfg d (pre ++ mid)).1 = (starts cfg (starts cfg d pre).1 mid).1 := by
  intro pre
  induction pre with
  | nil => intro mid d; rfl
  | cons st rest ih => intro mid d; simp only [List.cons_append, starts]; exact ih mid _

/-- Once a migration is recorded as applied it is never called again, in any later start of any
history. -/
theorem no_call_after_applied (cfg : Cfg) (d : Disk) (pre mid : List Start) (st : Start) (j : Nat)
    (h : (starts cfg d pre).1.cur.has j = true) (c : SV) :
    Event.call j c ∉ (start cfg (starts cfg d (pre ++ mid)).1 st).2.1 := by
  intro hc
  have hbit : (starts cfg d (pre ++ mid)).1.cur.has j = true := by
    rw [starts_append_disk]; exact starts_mono cfg mid _ j h
  have := ((start_calls cfg _ st).2 j c hc).2.1
  rw [hbit] at this; cases this

end Juno.C18
