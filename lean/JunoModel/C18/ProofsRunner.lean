import JunoModel.C18.ProofsSV
/-! C18 helper lemmas: the runner (`runMigration`, `runLoop`, `run`, `start`, `starts`). -/
namespace Juno.C18

/-- Events a `runMigration i` may add without changing anything persistent. -/
def Quiet (i : Nat) (cur : SV) (tok : Option Bytes) : Event → Prop
  | .before j st => j = i ∧ st = tok
  | .call j c => j = i ∧ c = cur
  | .ret j _ _ _ => j = i
  | _ => False

/-- Indices of the `Migrate` calls recorded in a log (newest first). -/
def callIdxs (log : List Event) : List Nat :=
  log.filterMap (fun e => match e with | .call j _ => some j | _ => none)

theorem callIdxs_append (a b : List Event) : callIdxs (a ++ b) = callIdxs a ++ callIdxs b := by
  simp [callIdxs, List.filterMap_append]

theorem mem_callIdxs {log : List Event} {j : Nat} : j ∈ callIdxs log ↔ ∃ c, Event.call j c ∈ log := by
  simp only [callIdxs, List.mem_filterMap]
  constructor
  · rintro ⟨e, he, h⟩
    cases e <;> simp at h
    subst h; exact ⟨_, he⟩
  · rintro ⟨c, hc⟩; exact ⟨_, hc, rfl⟩

/-- The three shapes of one `runMigration`. -/
inductive RM (cfg : Cfg) (env : Env) (last : SV) (i : Nat) (s : RunSt) : RunSt → Option Result → Prop
  | stop (s' : RunSt) (r : Result) (evs : List Event) :
      s'.disk = s.disk → s'.cur = s.cur → s'.log = evs ++ s.log → (∀ e ∈ evs, Quiet i s.cur (s.disk.ist i) e) →
      (callIdxs evs = [] ∨ callIdxs evs = [i]) →
      RM cfg env last i s s' (some r)
  | save (s' : RunSt) (r : Option Result) (st : Bytes) (c : Bool) :
      (env.beh i).st = some st →
      s'.disk = s.disk.setIst i (some st) → s'.cur = s.cur →
      s'.log = .save i st :: .ret i (some st) (env.beh i).err c :: .call i s.cur :: .before i (s.disk.ist i) :: s.log →
      (r = none → c = false ∧ (env.beh i).err = .none) →
      RM cfg env last i s s' r
  | apply (s' : RunSt) (c : Bool) :
      (env.beh i).st = none →
      ((env.beh i).err = .none ∨ (cfg.markOnNilCtx = true ∧ (env.beh i).err = .ctx ∧ c = true)) →
      s'.disk = { (s.disk.setIst i none) with md := some ⟨SV.set s.cur i, last⟩ } →
      s'.cur = SV.set s.cur i →
      s'.log = .apply i :: .ret i none (env.beh i).err c :: .call i s.cur :: .before i (s.disk.ist i) :: s.log →
      RM cfg env last i s s' none

theorem runMigration_shape (cfg : Cfg) (env : Env) (last : SV) (i : Nat) (s : RunSt) :
    RM cfg env last i s (runMigration cfg env last i s).1 (runMigration cfg env last i s).2 := by
  unfold runMigration
  simp only []
  split
  · exact .stop _ _ [] rfl rfl rfl (by simp) (by simp [callIdxs])
  split
  · exact .stop _ _ [] rfl rfl rfl (by simp) (by simp [callIdxs])
  split
  · exact .stop _ _ [.before i (s.disk.ist i)] rfl rfl rfl (by simp [Quiet]) (by simp [callIdxs])
  split
  · exact .stop _ _ [.before i (s.disk.ist i)] rfl rfl rfl (by simp [Quiet]) (by simp [callIdxs])
  split
  · exact .stop _ _ [.call i s.cur, .before i (s.disk.ist i)] rfl rfl rfl (by simp [Quiet]) (by simp [callIdxs])
  split
  · exact .stop _ _ [.ret i _ _ _, .call i s.cur, .before i (s.disk.ist i)] rfl rfl rfl (by simp [Quiet]) (by simp [callIdxs])
  split
  · rename_i st heq
    split
    · exact .stop _ _ [.ret i _ _ _, .call i s.cur, .before i (s.disk.ist i)] rfl rfl rfl (by simp [Quiet]) (by simp [callIdxs])
    refine .save _ _ st (decide (env.cancelAt ≤ s.tick + 1 + 1)) heq rfl rfl (by simp only [RunSt.tickEv, RunSt.cancelled, heq] <;> rfl) ?_
    intro h
    simp only [RunSt.cancelled, RunSt.tickEv] at h ⊢
    by_cases hc : env.cancelAt ≤ s.tick + 1 + 1 + 1
    · simp [hc] at h
    · have hc2 : ¬ env.cancelAt ≤ s.tick + 1 + 1 := by omega
      refine ⟨by simp; omega, ?_⟩
      rename_i hne _
      cases herr : (env.beh i).err <;> simp_all [RunSt.cancelled, RunSt.tickEv]
  · rename_i heq
    split
    · exact .stop _ _ [.ret i _ _ _, .call i s.cur, .before i (s.disk.ist i)] rfl rfl rfl (by simp [Quiet]) (by simp [callIdxs])
    · rename_i h2
      split
      · exact .stop _ _ [.ret i _ _ _, .call i s.cur, .before i (s.disk.ist i)] rfl rfl rfl (by simp [Quiet]) (by simp [callIdxs])
      refine .apply _ (decide (env.cancelAt ≤ s.tick + 1 + 1)) heq ?_ rfl rfl (by simp only [RunSt.tickEv, RunSt.cancelled, heq] <;> rfl)
      cases herr : (env.beh i).err <;> simp_all [RunSt.cancelled, RunSt.tickEv]
      exact of_decide_eq_true ‹_›

/-- Induction principle for the `for … range pending.Iter()` loop. -/
theorem runLoop_inv (cfg : Cfg) (env : Env) (last : SV) {Q : RunSt → Prop} {Inv : List Nat → RunSt → Prop}
    (hQ : ∀ l s, Inv l s → Q s)
    (hstep : ∀ i rest s s' r, Inv (i :: rest) s → RM cfg env last i s s' r →
      (match r with | none => Inv rest s' | some _ => Q s')) :
    ∀ l s, Inv l s → Q (runLoop cfg env last l s).1 := by
  intro l
  induction l with
  | nil => intro s h; simp only [runLoop]; exact hQ _ _ h
  | cons i rest ih =>
    intro s h
    simp only [runLoop]
    split
    · exact hQ _ _ h
    split
    · exact hQ _ _ h
    have hs := hstep i rest s _ _ h (runMigration_shape cfg env last i s)
    split
    · rename_i s' r heq
      rw [heq] at hs
      exact hs
    · rename_i s' heq
      rw [heq] at hs
      exact ih s' hs

/-- Migration `i` returned a resume state while the context was live (the run goes on with the
next migration although `i` is not applied). -/
def InProg (log : List Event) (i : Nat) : Prop := ∃ st, Event.ret i (some st) .none false ∈ log

theorem InProg.mono {l l' : List Event} {i : Nat} (h : InProg l i) (hl : ∀ e, e ∈ l → e ∈ l') : InProg l' i := by
  obtain ⟨st, h⟩ := h
  exact ⟨st, hl _ h⟩

/-- Everything that holds of a `Run` once it has done its first write. -/
structure RunQ (cfg : Cfg) (env : Env) (T cur0 : SV) (d : Disk) (s : RunSt) : Prop where
  md : s.disk.md = some ⟨s.cur, T⟩
  cur_sub : ∀ j, s.cur.has j = true → cur0.has j = true ∨ (T.has j = true ∧ Event.apply j ∈ s.log)
  cur_mono : ∀ j, cur0.has j = true → s.cur.has j = true
  apply_ret : ∀ j, Event.apply j ∈ s.log → ∃ c, Event.ret j none (env.beh j).err c ∈ s.log ∧
      ((env.beh j).err = .none ∨ (cfg.markOnNilCtx = true ∧ (env.beh j).err = .ctx ∧ c = true))
  ist_frame : ∀ j, s.disk.ist j ≠ d.ist j → T.has j = true ∧ cur0.has j = false
  ist_clear : ∀ j, s.cur.has j = true → cur0.has j = false → s.disk.ist j = none
  calls : ∀ j c, Event.call j c ∈ s.log → T.has j = true ∧ c.has j = false ∧
      (∀ i, c.has i = true → s.cur.has i = true) ∧ (∀ i, cur0.has i = true → c.has i = true) ∧
      (∀ i, i < j → T.has i = true → c.has i = true ∨ InProg s.log i)
  callsDesc : (callIdxs s.log).Pairwise (· > ·)

structure LoopInv (cfg : Cfg) (env : Env) (T cur0 : SV) (d : Disk) (rest : List Nat) (s : RunSt) : Prop where
  q : RunQ cfg env T cur0 d s
  sorted : rest.Pairwise (· < ·)
  pend : ∀ j ∈ rest, T.has j = true ∧ s.cur.has j = false ∧ cur0.has j = false
  cover : ∀ k, T.has k = true → s.cur.has k = true ∨ InProg s.log k ∨ k ∈ rest
  below : ∀ j ∈ callIdxs s.log, ∀ k ∈ rest, j < k

theorem loop_step (cfg : Cfg) (env : Env) (T cur0 : SV) (d : Disk) (i : Nat) (rest : List Nat)
    (s s' : RunSt) (r : Option Result)
    (h : LoopInv cfg env T cur0 d (i :: rest) s) (hrm : RM cfg env T i s s' r) :
    (match (generalizing := false) r with
      | none => LoopInv cfg env T cur0 d rest s' | some _ => RunQ cfg env T cur0 d s') := by
  have hsorted := List.pairwise_cons.mp h.sorted
  have hi := h.pend i (List.mem_cons_self)
  have hlt : ∀ k, k < i → k ∉ (i :: rest) := by
    intro k hk hmem
    rcases List.mem_cons.mp hmem with rfl | hmem
    · omega
    · have := hsorted.1 k hmem; omega
  -- the `call i s.cur` event satisfies the `calls` clause w.r.t. any later state
  have hcall : ∀ (lg : List Event), (∀ e, e ∈ s.log → e ∈ lg) →
      (∀ k, k < i → T.has k = true → s.cur.has k = true ∨ InProg lg k) := by
    intro lg hl k hk hT
    rcases h.cover k hT with hc | hp | hm
    · exact .inl hc
    · exact .inr (hp.mono hl)
    · exact absurd hm (hlt k hk)
  have hdesc_i : (i :: callIdxs s.log).Pairwise (· > ·) :=
    List.pairwise_cons.mpr ⟨fun j hj => h.below j hj i List.mem_cons_self, h.q.callsDesc⟩
  have hbelow_i : ∀ j ∈ i :: callIdxs s.log, ∀ k ∈ rest, j < k := by
    intro j hj k hk
    rcases List.mem_cons.mp hj with rfl | hj
    · exact hsorted.1 k hk
    · exact h.below j hj k (List.mem_cons_of_mem _ hk)
  cases hrm with
  | stop r evs hdisk hcur hlog hq hci =>
    have hmono : ∀ e, e ∈ s.log → e ∈ s'.log := by intro e he; rw [hlog]; exact List.mem_append_right _ he
    show RunQ cfg env T cur0 d s'
    refine ⟨by rw [hdisk, hcur]; exact h.q.md, ?_, ?_, ?_, ?_, ?_, ?_, ?_⟩
    · intro j hj; rw [hcur] at hj
      rcases h.q.cur_sub j hj with h1 | ⟨h1, h2⟩
      · exact .inl h1
      · exact .inr ⟨h1, hmono _ h2⟩
    · intro j hj; rw [hcur]; exact h.q.cur_mono j hj
    · intro j hj
      rw [hlog] at hj
      rcases List.mem_append.mp hj with hj | hj
      · exact absurd (hq _ hj) (by simp [Quiet])
      · obtain ⟨c, hc, hh⟩ := h.q.apply_ret j hj
        exact ⟨c, hmono _ hc, hh⟩
    · intro j hj; rw [hdisk] at hj; exact h.q.ist_frame j hj
    · intro j hj hj0; rw [hcur] at hj; rw [hdisk]; exact h.q.ist_clear j hj hj0
    · intro j c hj
      rw [hlog] at hj
      rcases List.mem_append.mp hj with hj | hj
      · have := hq _ hj
        simp only [Quiet] at this
        obtain ⟨rfl, rfl⟩ := this
        refine ⟨hi.1, hi.2.1, ?_, h.q.cur_mono, ?_⟩
        · intro k hk; rw [hcur]; exact hk
        · intro k hk hT; exact hcall s'.log hmono k hk hT
      · obtain ⟨h1, h2, h3, h3', h4⟩ := h.q.calls j c hj
        refine ⟨h1, h2, ?_, h3', ?_⟩
        · intro k hk; rw [hcur]; exact h3 k hk
        · intro k hk hT
          rcases h4 k hk hT with h5 | h5
          · exact .inl h5
          · exact .inr (h5.mono hmono)
    · rw [hlog, callIdxs_append]
      rcases hci with hci | hci
      · rw [hci]; exact h.q.callsDesc
      · rw [hci]; exact hdesc_i
  | save _ st c hst hdisk hcur hlog hr =>
    have hmono : ∀ e, e ∈ s.log → e ∈ s'.log := by
      intro e he; rw [hlog]; simp [he]
    have hq' : RunQ cfg env T cur0 d s' := by
      refine ⟨by rw [hdisk, hcur]; exact h.q.md, ?_, ?_, ?_, ?_, ?_, ?_, ?_⟩
      · intro j hj; rw [hcur] at hj
        rcases h.q.cur_sub j hj with h1 | ⟨h1, h2⟩
        · exact .inl h1
        · exact .inr ⟨h1, hmono _ h2⟩
      · intro j hj; rw [hcur]; exact h.q.cur_mono j hj
      · intro j hj
        rw [hlog] at hj
        simp only [List.mem_cons, reduceCtorEq, false_or] at hj
        obtain ⟨c', hc, hh⟩ := h.q.apply_ret j hj
        exact ⟨c', hmono _ hc, hh⟩
      · intro j hj
        by_cases hji : j = i
        · subst hji; exact ⟨hi.1, hi.2.2⟩
        · rw [hdisk] at hj; simp only [Disk.setIst, hji, if_false] at hj; exact h.q.ist_frame j hj
      · intro j hj hj0
        rw [hcur] at hj
        have hji : j ≠ i := by intro e; subst e; rw [hi.2.1] at hj; cases hj
        rw [hdisk]; simp only [Disk.setIst, hji, if_false]; exact h.q.ist_clear j hj hj0
      · intro j c' hj
        rw [hlog] at hj
        simp only [List.mem_cons, reduceCtorEq, false_or, Event.call.injEq] at hj
        rcases hj with ⟨rfl, rfl⟩ | hj
        · refine ⟨hi.1, hi.2.1, ?_, h.q.cur_mono, ?_⟩
          · intro k hk; rw [hcur]; exact hk
          · intro k hk hT; exact hcall s'.log hmono k hk hT
        · obtain ⟨h1, h2, h3, h3', h4⟩ := h.q.calls j c' hj
          refine ⟨h1, h2, ?_, h3', ?_⟩
          · intro k hk; rw [hcur]; exact h3 k hk
          · intro k hk hT
            rcases h4 k hk hT with h5 | h5
            · exact .inl h5
            · exact .inr (h5.mono hmono)
      · have : callIdxs s'.log = i :: callIdxs s.log := by rw [hlog]; simp [callIdxs]
        rw [this]; exact hdesc_i
    cases r with
    | some _ => exact hq'
    | none =>
      have hc : c = false := (hr rfl).1
      have herr0 : (env.beh i).err = .none := (hr rfl).2
      subst hc
      have hci' : callIdxs s'.log = i :: callIdxs s.log := by rw [hlog]; simp [callIdxs]
      refine ⟨hq', hsorted.2, ?_, ?_, by rw [hci']; exact hbelow_i⟩
      · intro j hj
        have := h.pend j (List.mem_cons_of_mem _ hj)
        rw [hcur]; exact this
      · intro k hT
        rcases h.cover k hT with hc | hp | hm
        · exact .inl (by rw [hcur]; exact hc)
        · exact .inr (.inl (hp.mono hmono))
        · rcases List.mem_cons.mp hm with rfl | hm
          · refine .inr (.inl ⟨st, ?_⟩)
            rw [hlog, herr0]; simp
          · exact .inr (.inr hm)
  | apply c hst herr hdisk hcur hlog =>
    have hmono : ∀ e, e ∈ s.log → e ∈ s'.log := by
      intro e he; rw [hlog]; simp [he]
    have hi64 : i < 64 := SV.has_lt hi.1
    have hcur' : ∀ j, s'.cur.has j = (s.cur.has j || decide (j = i)) := by
      intro j; rw [hcur, SV.has_set]; simp [hi64]
    show LoopInv cfg env T cur0 d rest s'
    have hq' : RunQ cfg env T cur0 d s' := by
      refine ⟨by rw [hdisk, hcur], ?_, ?_, ?_, ?_, ?_, ?_, ?_⟩
      · intro j hj; rw [hcur'] at hj
        by_cases hji : j = i
        · subst hji; exact .inr ⟨hi.1, by rw [hlog]; simp⟩
        · simp only [hji, decide_false, Bool.or_false] at hj
          rcases h.q.cur_sub j hj with h1 | ⟨h1, h2⟩
          · exact .inl h1
          · exact .inr ⟨h1, hmono _ h2⟩
      · intro j hj; rw [hcur']; simp [h.q.cur_mono j hj]
      · intro j hj
        rw [hlog] at hj
        simp only [List.mem_cons, reduceCtorEq, false_or, Event.apply.injEq] at hj
        rcases hj with rfl | hj
        · exact ⟨c, by rw [hlog]; simp, herr⟩
        · obtain ⟨c', hc, hh⟩ := h.q.apply_ret j hj
          exact ⟨c', hmono _ hc, hh⟩
      · intro j hj
        by_cases hji : j = i
        · subst hji; exact ⟨hi.1, hi.2.2⟩
        · rw [hdisk] at hj; simp only [Disk.setIst, hji, if_false] at hj; exact h.q.ist_frame j hj
      · intro j hj hj0
        rw [hcur'] at hj
        by_cases hji : j = i
        · subst hji; rw [hdisk]; simp [Disk.setIst]
        · simp only [hji, decide_false, Bool.or_false] at hj
          rw [hdisk]; simp only [Disk.setIst, hji, if_false]; exact h.q.ist_clear j hj hj0
      · intro j c' hj
        rw [hlog] at hj
        simp only [List.mem_cons, reduceCtorEq, false_or, Event.call.injEq] at hj
        rcases hj with ⟨rfl, rfl⟩ | hj
        · refine ⟨hi.1, hi.2.1, ?_, h.q.cur_mono, ?_⟩
          · intro k hk; rw [hcur']; simp [hk]
          · intro k hk hT; exact hcall s'.log hmono k hk hT
        · obtain ⟨h1, h2, h3, h3', h4⟩ := h.q.calls j c' hj
          refine ⟨h1, h2, ?_, h3', ?_⟩
          · intro k hk; rw [hcur']; simp [h3 k hk]
          · intro k hk hT
            rcases h4 k hk hT with h5 | h5
            · exact .inl h5
            · exact .inr (h5.mono hmono)
      · have : callIdxs s'.log = i :: callIdxs s.log := by rw [hlog]; simp [callIdxs]
        rw [this]; exact hdesc_i
    have hci' : callIdxs s'.log = i :: callIdxs s.log := by rw [hlog]; simp [callIdxs]
    refine ⟨hq', hsorted.2, ?_, ?_, by rw [hci']; exact hbelow_i⟩
    · intro j hj
      have := h.pend j (List.mem_cons_of_mem _ hj)
      have hji : j ≠ i := by have := hsorted.1 j hj; omega
      rw [hcur']; simp [hji, this]
    · intro k hT
      rcases h.cover k hT with hc | hp | hm
      · exact .inl (by rw [hcur']; simp [hc])
      · exact .inr (.inl (hp.mono hmono))
      · rcases List.mem_cons.mp hm with rfl | hm
        · exact .inl (by rw [hcur']; simp)
        · exact .inr (.inr hm)


def Disk.cur (d : Disk) : SV := d.metaD.cur
def Disk.last (d : Disk) : SV := d.metaD.last

/-- A process that dies before its first write, or whose first write fails, changes nothing. -/
theorem run_crash0 (cfg : Cfg) (reg : Registry) (env : Env) (d : Disk) (h0 : env.crashAt = 0 ∨ env.failAt = 1) :
    (run cfg reg env d).1.disk = d ∧ (run cfg reg env d).1.log = [] := by
  unfold run
  rcases h0 with h0 | h0
  · simp [RunSt.dead, h0]
  · by_cases hd : env.crashAt ≤ 0
    · simp [RunSt.dead, hd]
    · simp [RunSt.dead, hd, RunSt.writeFails, h0]

/-- After its first write a `Run` satisfies `RunQ`. -/
theorem run_Q (cfg : Cfg) (reg : Registry) (env : Env) (d : Disk) (h0 : env.crashAt ≠ 0) (hf : env.failAt ≠ 1) :
    RunQ cfg env reg.target d.cur d (run cfg reg env d).1 := by
  unfold run
  have hd : ¬ (env.crashAt ≤ 0) := by omega
  have hwf : (env.failAt == 0 + 1) = false := by simp [hf]
  simp only [RunSt.dead, RunSt.writeFails, hwf, hd, decide_false, Bool.false_eq_true, if_false]
  have hq1 : RunQ cfg env reg.target d.cur d
      { (RunSt.tickEv ⟨d, d.metaD.cur, 0, []⟩ (.metaWrite ⟨d.metaD.cur, reg.target⟩)) with
        disk := { d with md := some ⟨d.metaD.cur, reg.target⟩ } } := by
    refine ⟨rfl, ?_, ?_, ?_, ?_, ?_, ?_, ?_⟩
    · intro j hj; exact .inl hj
    · intro j hj; exact hj
    · intro j hj; simp [RunSt.tickEv] at hj
    · intro j hj; simp at hj
    · intro j hj hj0; simp [RunSt.tickEv] at hj; rw [Disk.cur] at hj0; rw [hj] at hj0; cases hj0
    · intro j c hj; simp [RunSt.tickEv] at hj
    · simp [RunSt.tickEv, callIdxs]
  split
  · exact hq1
  split
  · exact hq1
  · refine runLoop_inv cfg env reg.target (Q := RunQ cfg env reg.target d.cur d)
      (Inv := LoopInv cfg env reg.target d.cur d) (fun l s h => h.q)
      (fun i rest s s' r h hrm => loop_step cfg env reg.target d.cur d i rest s s' r h hrm) _ _ ?_
    refine ⟨hq1, SV.iter_sorted _, ?_, ?_, ?_⟩
    · intro j hj
      have := (SV.mem_iter _ _).mp hj
      rw [SV.has_diff] at this
      simp only [Bool.and_eq_true, Bool.not_eq_true'] at this
      exact ⟨this.1, this.2, this.2⟩
    · intro k hk
      by_cases hc : SV.has d.metaD.cur k = true
      · exact .inl hc
      · refine .inr (.inr ((SV.mem_iter _ _).mpr ?_))
        rw [SV.has_diff]; simp [hk, hc]
    · intro j hj; simp [RunSt.tickEv, callIdxs] at hj


theorem disk_cur_of_md {d : Disk} {c l : SV} (h : d.md = some ⟨c, l⟩) : d.cur = c ∧ d.last = l := by
  simp [Disk.cur, Disk.last, Disk.metaD, h]

/-- What one start does: nothing at all (refused, or died before the first write), or a `Run`
satisfying `RunQ`. -/
theorem start_cases (cfg : Cfg) (d : Disk) (st : Start) :
    ((start cfg d st).1 = d ∧ (start cfg d st).2.1 = []) ∨
    (newRunner cfg st.reg d = .ok ∧ st.env.crashAt ≠ 0 ∧ st.env.failAt ≠ 1 ∧
      ∃ s, RunQ cfg st.env st.reg.target d.cur d s ∧ (start cfg d st).1 = s.disk ∧ (start cfg d st).2.1 = s.log) := by
  unfold start
  by_cases hmr : st.env.metaReadFails = true
  · left; simp [hmr]
  simp only [hmr, Bool.false_eq_true, if_false]
  cases hn : newRunner cfg st.reg d with
  | optOut => exact .inl ⟨rfl, rfl⟩
  | downgrade => exact .inl ⟨rfl, rfl⟩
  | ok =>
    by_cases h0 : st.env.crashAt = 0 ∨ st.env.failAt = 1
    · have := run_crash0 cfg st.reg st.env d h0
      exact .inl ⟨this.1, this.2⟩
    · have h1 : st.env.crashAt ≠ 0 := fun e => h0 (.inl e)
      have h2 : st.env.failAt ≠ 1 := fun e => h0 (.inr e)
      exact .inr ⟨rfl, h1, h2, _, run_Q cfg st.reg st.env d h1 h2, rfl, rfl⟩

/-- `Migrate` of `j` returned `(nil, nil)`. -/
def Completed (log : List Event) (j : Nat) : Prop := ∃ c, Event.ret j none .none c ∈ log
/-- `Migrate` of `j` returned `(nil, err)` with `errors.Is(err, ctx.Err())` after cancellation. -/
def NilCtx (log : List Event) (j : Nat) : Prop := Event.ret j none .ctx true ∈ log

theorem start_applied (cfg : Cfg) (d : Disk) (st : Start) (j : Nat)
    (h : (start cfg d st).1.cur.has j = true) :
    d.cur.has j = true ∨ Completed (start cfg d st).2.1 j ∨
      (cfg.markOnNilCtx = true ∧ NilCtx (start cfg d st).2.1 j) := by
  rcases start_cases cfg d st with ⟨h1, _⟩ | ⟨_, _, _, s, hq, h1, h2⟩
  · rw [h1] at h; exact .inl h
  · rw [h1, (disk_cur_of_md hq.md).1] at h
    rcases hq.cur_sub j h with h3 | ⟨_, h3⟩
    · exact .inl h3
    · obtain ⟨c, hc, hh⟩ := hq.apply_ret j h3
      rw [h2]
      rcases hh with hh | ⟨hm, hh, hc'⟩
      · rw [hh] at hc; exact .inr (.inl ⟨c, hc⟩)
      · rw [hh, hc'] at hc; exact .inr (.inr ⟨hm, hc⟩)

theorem starts_applied (cfg : Cfg) (sts : List Start) : ∀ (d : Disk) (j : Nat),
    (starts cfg d sts).1.cur.has j = true →
    d.cur.has j = true ∨ Completed (starts cfg d sts).2 j ∨
      (cfg.markOnNilCtx = true ∧ NilCtx (starts cfg d sts).2 j) := by
  induction sts with
  | nil => intro d j h; exact .inl h
  | cons st rest ih =>
    intro d j h
    simp only [starts] at h ⊢
    rcases ih _ j h with h1 | ⟨c, h1⟩ | ⟨hm, h1⟩
    · rcases start_applied cfg d st j h1 with h2 | ⟨c, h2⟩ | ⟨hm, h2⟩
      · exact .inl h2
      · exact .inr (.inl ⟨c, List.mem_append_right _ h2⟩)
      · exact .inr (.inr ⟨hm, List.mem_append_right _ h2⟩)
    · exact .inr (.inl ⟨c, List.mem_append_left _ h1⟩)
    · exact .inr (.inr ⟨hm, List.mem_append_left _ h1⟩)

/-- The applied bit and the resume token exclude each other. -/
def Disk.Clean (d : Disk) : Prop := ∀ j, d.cur.has j = true → d.ist j = none

theorem start_clean (cfg : Cfg) (d : Disk) (st : Start) (h : d.Clean) : (start cfg d st).1.Clean := by
  rcases start_cases cfg d st with ⟨h1, _⟩ | ⟨_, _, _, s, hq, h1, _⟩
  · rw [h1]; exact h
  · rw [h1]
    intro j hj
    rw [(disk_cur_of_md hq.md).1] at hj
    cases h0 : d.cur.has j with
    | false => exact hq.ist_clear j hj h0
    | true =>
      have : s.disk.ist j = d.ist j := by
        apply Classical.byContradiction
        intro hne
        have := (hq.ist_frame j hne).2
        rw [h0] at this; cases this
      rw [this]; exact h j h0

theorem starts_clean (cfg : Cfg) (sts : List Start) : ∀ d : Disk, d.Clean → (starts cfg d sts).1.Clean := by
  induction sts with
  | nil => intro d h; exact h
  | cons st rest ih => intro d h; simp only [starts]; exact ih _ (start_clean cfg d st h)

/-- Bits are never cleared. -/
theorem start_mono (cfg : Cfg) (d : Disk) (st : Start) (j : Nat) (h : d.cur.has j = true) :
    (start cfg d st).1.cur.has j = true := by
  rcases start_cases cfg d st with ⟨h1, _⟩ | ⟨_, _, _, s, hq, h1, _⟩
  · rw [h1]; exact h
  · rw [h1, (disk_cur_of_md hq.md).1]; exact hq.cur_mono j h


theorem optOutLoop_eq_zero (n : Nat) : ∀ (l : List Nat), l.Pairwise (· < ·) →
    (optOutLoop n l = 0 ↔ ∀ j ∈ l, n ≤ j) := by
  intro l hl
  cases l with
  | nil => simp [optOutLoop]
  | cons a rest =>
    have hs := List.pairwise_cons.mp hl
    simp only [optOutLoop]
    by_cases ha : a ≥ n
    · simp only [ha, if_true, true_iff]
      intro j hj
      rcases List.mem_cons.mp hj with rfl | hj
      · exact ha
      · have := hs.1 j hj; omega
    · simp only [ha, if_false]
      constructor
      · intro h; omega
      · intro h; exact absurd (h a List.mem_cons_self) ha

/-- `validateNoOptOut` as pinned: only the bits below the registry size are looked at. -/
theorem validateNoOptOut_pinned (cfg : Cfg) (hc : cfg.ignoreUnknownLast = true) (T last : SV) (n : Nat) :
    validateNoOptOut cfg T last n = true ↔ ∀ j, j < n → last.has j = true → T.has j = true := by
  unfold validateNoOptOut
  simp only [hc, if_true]
  split
  · rename_i h
    have h0 := (SV.eq_zero_iff _).mp (by simpa using h)
    simp only [true_iff]
    intro j _ hl
    have := h0 j
    rw [SV.has_diff, hl] at this
    simpa using this
  · rw [beq_iff_eq, optOutLoop_eq_zero n _ (SV.iter_sorted _)]
    constructor
    · intro h j hj hl
      cases hT : T.has j with
      | true => rfl
      | false =>
        have := h j ((SV.mem_iter _ _).mpr (by rw [SV.has_diff, hl, hT]; rfl))
        omega
    · intro h j hj
      have := (SV.mem_iter _ _).mp hj
      rw [SV.has_diff] at this
      simp only [Bool.and_eq_true, Bool.not_eq_true'] at this
      apply Classical.byContradiction
      intro hlt
      have h2 := h j (by omega) this.1
      rw [this.2] at h2
      cases h2

/-- `validateNoOptOut` repaired: every bit of the last target must be in the target. -/
theorem validateNoOptOut_fixed (cfg : Cfg) (hc : cfg.ignoreUnknownLast = false) (T last : SV) (n : Nat) :
    validateNoOptOut cfg T last n = true ↔ ∀ j, last.has j = true → T.has j = true := by
  unfold validateNoOptOut
  simp only [hc]
  split
  · rename_i h
    have h0 := (SV.eq_zero_iff _).mp (by simpa using h)
    simp only [true_iff]
    intro j hl
    have := h0 j
    rw [SV.has_diff, hl] at this
    simpa using this
  · rename_i h
    simp only [Bool.false_eq_true, if_false, false_iff]
    intro hall
    apply h
    rw [beq_iff_eq, SV.eq_zero_iff]
    intro j
    rw [SV.has_diff]
    cases hl : last.has j with
    | false => rfl
    | true => simp [hall j hl]

theorem validateNoVersionDowngrade_iff (cur T : SV) :
    validateNoVersionDowngrade cur T = true ↔ ∀ j, cur.has j = true → T.has j = true :=
  SV.contains_iff T cur

theorem newRunner_ok_iff (cfg : Cfg) (reg : Registry) (d : Disk) :
    newRunner cfg reg d = .ok ↔
      (validateNoOptOut cfg reg.target d.last reg.length = true ∧
       validateNoVersionDowngrade d.cur reg.target = true) := by
  unfold newRunner Disk.last Disk.cur
  simp only []
  cases h1 : validateNoOptOut cfg reg.target d.metaD.last reg.length <;>
    cases h2 : validateNoVersionDowngrade d.metaD.cur reg.target <;> simp


/-- An undisturbed environment: every migration completes, nobody cancels, nothing dies. A `Run`
makes at most 1 + 3·64 ticks. -/
structure Env.Undisturbed (env : Env) : Prop where
  beh : ∀ i, env.beh i = ⟨false, none, .none⟩
  noCancel : 200 ≤ env.cancelAt
  noCrash : 200 ≤ env.crashAt
  noFail : env.failAt = 0
  noReadFail : ∀ i, env.istReadFails i = false

def applyAll (last : SV) (l : List Nat) (s : RunSt) : RunSt :=
  l.foldl (fun s i =>
    { disk := { (s.disk.setIst i none) with md := some ⟨SV.set s.cur i, last⟩ },
      cur := SV.set s.cur i, tick := s.tick + 3,
      log := .apply i :: .ret i none .none false :: .call i s.cur :: .before i (s.disk.ist i) :: s.log }) s

theorem runMigration_clean (cfg : Cfg) (env : Env) (last : SV) (i : Nat) (s : RunSt)
    (hb : env.beh i = ⟨false, none, .none⟩) (hc : s.tick + 3 ≤ env.cancelAt) (hd : s.tick + 3 ≤ env.crashAt)
    (hf : env.failAt = 0) (hr : env.istReadFails i = false) :
    runMigration cfg env last i s = (applyAll last [i] s, none) := by
  have h1 : ¬ env.crashAt ≤ s.tick := by omega
  have h2 : ¬ env.crashAt ≤ s.tick + 1 := by omega
  have h3 : ¬ env.crashAt ≤ s.tick + 1 + 1 := by omega
  have h4 : ¬ env.cancelAt ≤ s.tick + 1 + 1 := by omega
  simp [runMigration, applyAll, RunSt.dead, RunSt.cancelled, RunSt.tickEv, RunSt.writeFails, hf, hb, hr, h1, h2, h3, h4]

theorem applyAll_tick (last : SV) (l : List Nat) (s : RunSt) : (applyAll last l s).tick = s.tick + 3 * l.length := by
  induction l generalizing s with
  | nil => simp [applyAll]
  | cons a r ih =>
    have : applyAll last (a :: r) s = applyAll last r (applyAll last [a] s) := by simp [applyAll]
    rw [this, ih]; simp [applyAll]; omega

theorem runLoop_clean (cfg : Cfg) (env : Env) (last : SV) (hb : ∀ i, env.beh i = ⟨false, none, .none⟩)
    (hf : env.failAt = 0) (hr : ∀ i, env.istReadFails i = false) :
    ∀ (l : List Nat) (s : RunSt), s.tick + 3 * l.length < env.cancelAt → s.tick + 3 * l.length < env.crashAt →
    runLoop cfg env last l s = (applyAll last l s, .ok) := by
  intro l
  induction l with
  | nil =>
    intro s hc hd
    have h1 : ¬ env.crashAt ≤ s.tick := by simp at hd; omega
    have h2 : ¬ env.cancelAt ≤ s.tick := by simp at hc; omega
    simp [runLoop, applyAll, RunSt.dead, RunSt.cancelled, h1, h2]
  | cons a r ih =>
    intro s hc hd
    simp only [List.length_cons] at hc hd
    have h1 : ¬ env.crashAt ≤ s.tick := by omega
    have h2 : ¬ env.cancelAt ≤ s.tick := by omega
    simp only [runLoop, RunSt.dead, RunSt.cancelled, h1, h2, decide_false, Bool.false_eq_true, if_false]
    rw [runMigration_clean cfg env last a s (hb a) (by omega) (by omega) hf (hr a)]
    simp only []
    have ht : (applyAll last [a] s).tick = s.tick + 3 := by simp [applyAll]
    rw [ih _ (by rw [ht]; omega) (by rw [ht]; omega)]
    simp [applyAll]

theorem applyAll_cur (last : SV) (l : List Nat) (s : RunSt) (j : Nat) (hl : ∀ i ∈ l, i < 64) :
    (applyAll last l s).cur.has j = (s.cur.has j || decide (j ∈ l)) := by
  induction l generalizing s with
  | nil => simp [applyAll]
  | cons a r ih =>
    have : applyAll last (a :: r) s = applyAll last r (applyAll last [a] s) := by simp [applyAll]
    rw [this, ih _ (fun i hi => hl i (List.mem_cons_of_mem _ hi))]
    have ha := hl a List.mem_cons_self
    simp only [applyAll, List.foldl, SV.has_set, ha, decide_true, Bool.and_true, List.mem_cons]
    by_cases h1 : j = a <;> by_cases h2 : j ∈ r <;> simp [h1, h2]

theorem applyAll_md (last : SV) (l : List Nat) (s : RunSt) (h : s.disk.md = some ⟨s.cur, last⟩) :
    (applyAll last l s).disk.md = some ⟨(applyAll last l s).cur, last⟩ := by
  induction l generalizing s with
  | nil => simpa [applyAll] using h
  | cons a r ih =>
    have : applyAll last (a :: r) s = applyAll last r (applyAll last [a] s) := by simp [applyAll]
    rw [this]; apply ih; simp [applyAll]

theorem applyAll_ist (last : SV) (l : List Nat) (s : RunSt) (j : Nat) :
    (applyAll last l s).disk.ist j = if j ∈ l then none else s.disk.ist j := by
  induction l generalizing s with
  | nil => simp [applyAll]
  | cons a r ih =>
    have : applyAll last (a :: r) s = applyAll last r (applyAll last [a] s) := by simp [applyAll]
    rw [this, ih]
    by_cases h2 : j ∈ r
    · simp [h2]
    · by_cases h1 : j = a
      · simp [h1, h2, applyAll, Disk.setIst]
      · simp [h1, h2, applyAll, Disk.setIst]

/-- An undisturbed `Run` applies the whole target. -/
theorem run_undisturbed (cfg : Cfg) (reg : Registry) (env : Env) (d : Disk) (hu : env.Undisturbed) :
    (run cfg reg env d).2 = .ok ∧
    (run cfg reg env d).1.disk.md = some ⟨d.cur ||| reg.target, reg.target⟩ ∧
    (∀ j, (run cfg reg env d).1.disk.ist j =
      if reg.target.has j = true ∧ d.cur.has j = false then none else d.ist j) := by
  have hc0 : ¬ env.crashAt ≤ 0 := by have := hu.noCrash; omega
  have hc1 : ¬ env.crashAt ≤ 0 + 1 := by have := hu.noCrash; omega
  unfold run
  have hwf : (env.failAt == 0 + 1) = false := by simp [hu.noFail]
  simp only [RunSt.dead, RunSt.tickEv, RunSt.writeFails, hwf, hc0, hc1, decide_false, Bool.false_eq_true, if_false]
  split
  · rename_i hp
    have h0 := (SV.eq_zero_iff _).mp (by simpa using hp)
    have hsub : ∀ j, reg.target.has j = true → d.cur.has j = true := by
      intro j hj
      have := h0 j
      rw [SV.has_diff, hj] at this
      simpa [Disk.cur] using this
    refine ⟨rfl, ?_, ?_⟩
    · have : d.cur ||| reg.target = d.cur := by
        apply SV.ext_has; intro j; rw [SV.has_or]
        cases hT : reg.target.has j
        · simp
        · simp [hsub j hT]
      simp only [Disk.cur] at this ⊢
      rw [this]
    · intro j
      have : ¬ (reg.target.has j = true ∧ d.cur.has j = false) := by
        intro ⟨h1, h2⟩; rw [hsub j h1] at h2; cases h2
      simp [this]
  · have hlen : (SV.iter (SV.diff reg.target d.metaD.cur)).length ≤ 64 := by
      unfold SV.iter
      exact Nat.le_trans (List.length_filter_le _ _) (by simp)
    have := hu.noCancel
    have := hu.noCrash
    rw [runLoop_clean cfg env reg.target hu.beh hu.noFail hu.noReadFail _ _ (by simp; omega) (by simp; omega)]
    have hl : ∀ i ∈ SV.iter (SV.diff reg.target d.metaD.cur), i < 64 := fun i hi => SV.has_lt ((SV.mem_iter _ _).mp hi)
    refine ⟨rfl, ?_, ?_⟩
    · rw [applyAll_md _ _ _ rfl]
      congr 2
      apply SV.ext_has; intro j
      rw [applyAll_cur _ _ _ _ hl, SV.has_or]
      simp only [Disk.cur]
      cases hc : d.metaD.cur.has j
      · cases hT : reg.target.has j
        · simp [SV.mem_iter, SV.has_diff, hc, hT]
        · simp [SV.mem_iter, SV.has_diff, hc, hT]
      · simp
    · intro j
      rw [applyAll_ist]
      simp only [SV.mem_iter, SV.has_diff, Disk.cur, Bool.and_eq_true, Bool.not_eq_true']
      rfl


/-- An accepted database has every last-target bit below the registry size in the target. -/
theorem accepted_last (cfg : Cfg) (reg : Registry) (d : Disk) (h : newRunner cfg reg d = .ok) :
    ∀ j, j < reg.length → d.last.has j = true → reg.target.has j = true := by
  have h1 := ((newRunner_ok_iff cfg reg d).mp h).1
  cases hc : cfg.ignoreUnknownLast with
  | true => exact (validateNoOptOut_pinned cfg hc _ _ _).mp h1
  | false => intro j _ hj; exact (validateNoOptOut_fixed cfg hc _ _ _).mp h1 j hj

theorem accepted_cur (cfg : Cfg) (reg : Registry) (d : Disk) (h : newRunner cfg reg d = .ok) :
    ∀ j, d.cur.has j = true → reg.target.has j = true :=
  (validateNoVersionDowngrade_iff _ _).mp ((newRunner_ok_iff cfg reg d).mp h).2

theorem starts_mono (cfg : Cfg) (sts : List Start) : ∀ (d : Disk) (j : Nat), d.cur.has j = true →
    (starts cfg d sts).1.cur.has j = true := by
  induction sts with
  | nil => intro d j h; exact h
  | cons st rest ih => intro d j h; simp only [starts]; exact ih _ j (start_mono cfg d st j h)

/-- Any history of interrupted starts followed by an undisturbed start reaches the
metadata of an undisturbed start on the original database, with no resume token left for the target. -/
theorem resume_runner (cfg : Cfg) (d0 : Disk) (sts : List Start) (regF : Registry) (envF : Env)
    (hclean : d0.Clean) (hu : envF.Undisturbed)
    (hacc : newRunner cfg regF (starts cfg d0 sts).1 = .ok) :
    (run cfg regF envF (starts cfg d0 sts).1).2 = .ok ∧
    (run cfg regF envF (starts cfg d0 sts).1).1.disk.md = some ⟨d0.cur ||| regF.target, regF.target⟩ ∧
    (∀ j, regF.target.has j = true → (run cfg regF envF (starts cfg d0 sts).1).1.disk.ist j = none) := by
  have hrun := run_undisturbed cfg regF envF (starts cfg d0 sts).1 hu
  have hcl := starts_clean cfg sts d0 hclean
  refine ⟨hrun.1, ?_, ?_⟩
  · rw [hrun.2.1]
    congr 2
    apply SV.ext_has; intro j
    rw [SV.has_or, SV.has_or]
    cases hT : regF.target.has j
    · simp only [Bool.or_false]
      cases h1 : (starts cfg d0 sts).1.cur.has j
      · cases h0 : d0.cur.has j
        · rfl
        · rw [starts_mono cfg sts d0 j h0] at h1; cases h1
      · have := accepted_cur cfg regF _ hacc j h1
        rw [hT] at this; cases this
    · simp
  · intro j hT
    rw [hrun.2.2 j]
    cases h1 : (starts cfg d0 sts).1.cur.has j
    · simp [hT]
    · simp [hT]; exact hcl j h1

/-- Order facts of one start (a `Run` from an accepted database). -/
theorem start_calls (cfg : Cfg) (d : Disk) (st : Start) :
    (callIdxs (start cfg d st).2.1).Pairwise (· > ·) ∧
    ∀ j c, Event.call j c ∈ (start cfg d st).2.1 →
      st.reg.target.has j = true ∧ d.cur.has j = false ∧ c.has j = false ∧
      (∀ i, i < j → st.reg.target.has i = true → c.has i = true ∨ InProg (start cfg d st).2.1 i) := by
  rcases start_cases cfg d st with ⟨_, h2⟩ | ⟨_, _, _, s, hq, _, h2⟩
  · rw [h2]; simp [callIdxs]
  · rw [h2]
    refine ⟨hq.callsDesc, ?_⟩
    intro j c hj
    obtain ⟨h1, h3, _, h5, h6⟩ := hq.calls j c hj
    refine ⟨h1, ?_, h3, h6⟩
    cases h0 : d.cur.has j with
    | false => rfl
    | true => rw [h5 j h0] at h3; cases h3


/-- Resume tokens of one `Run`: what `Before` received and what is stored afterwards. -/
structure TokQ (d : Disk) (s : RunSt) : Prop where
  before_tok : ∀ j st, Event.before j st ∈ s.log → st = d.ist j
  apply_tok : ∀ j, Event.apply j ∈ s.log → s.disk.ist j = none
  save_tok : ∀ j st, Event.save j st ∈ s.log → s.disk.ist j = some st
  keep_tok : ∀ j, Event.apply j ∉ s.log → (∀ st, Event.save j st ∉ s.log) → s.disk.ist j = d.ist j

structure TokInv (d : Disk) (rest : List Nat) (s : RunSt) : Prop where
  q : TokQ d s
  nodup : rest.Nodup
  fresh : ∀ j ∈ rest, Event.apply j ∉ s.log ∧ (∀ st, Event.save j st ∉ s.log)

theorem tok_step (cfg : Cfg) (env : Env) (last : SV) (d : Disk) (i : Nat) (rest : List Nat)
    (s s' : RunSt) (r : Option Result)
    (h : TokInv d (i :: rest) s) (hrm : RM cfg env last i s s' r) :
    (match (generalizing := false) r with
      | none => TokInv d rest s' | some _ => TokQ d s') := by
  have hnd := List.nodup_cons.mp h.nodup
  have hfi := h.fresh i List.mem_cons_self
  have htok : s.disk.ist i = d.ist i := h.q.keep_tok i hfi.1 hfi.2
  have hrest : ∀ j ∈ rest, j ≠ i := fun j hj e => hnd.1 (e ▸ hj)
  cases hrm with
  | stop r evs hdisk hcur hlog hq hci =>
    show TokQ d s'
    have hnew : ∀ e ∈ evs, (∀ j, e ≠ Event.apply j) ∧ (∀ j st, e ≠ Event.save j st) := by
      intro e he
      have := hq e he
      cases e <;> simp [Quiet] at this ⊢
    refine ⟨?_, ?_, ?_, ?_⟩
    · intro j st hj
      rw [hlog] at hj
      rcases List.mem_append.mp hj with hj | hj
      · have := hq _ hj
        simp only [Quiet] at this
        obtain ⟨rfl, rfl⟩ := this
        exact htok
      · exact h.q.before_tok j st hj
    · intro j hj
      rw [hlog] at hj
      rcases List.mem_append.mp hj with hj | hj
      · exact absurd rfl ((hnew _ hj).1 j)
      · rw [hdisk]; exact h.q.apply_tok j hj
    · intro j st hj
      rw [hlog] at hj
      rcases List.mem_append.mp hj with hj | hj
      · exact absurd rfl ((hnew _ hj).2 j st)
      · rw [hdisk]; exact h.q.save_tok j st hj
    · intro j h1 h2
      rw [hdisk]
      refine h.q.keep_tok j (fun hm => h1 ?_) (fun st hm => h2 st ?_)
      · rw [hlog]; exact List.mem_append_right _ hm
      · rw [hlog]; exact List.mem_append_right _ hm
  | save _ st c hst hdisk hcur hlog hr =>
    have hq' : TokQ d s' := by
      refine ⟨?_, ?_, ?_, ?_⟩
      · intro j t hj
        rw [hlog] at hj
        simp only [List.mem_cons, reduceCtorEq, false_or, Event.before.injEq] at hj
        rcases hj with ⟨rfl, rfl⟩ | hj
        · exact htok
        · exact h.q.before_tok j t hj
      · intro j hj
        rw [hlog] at hj
        simp only [List.mem_cons, reduceCtorEq, false_or] at hj
        have hji : j ≠ i := fun e => hfi.1 (e ▸ hj)
        rw [hdisk]; simp only [Disk.setIst, hji, if_false]; exact h.q.apply_tok j hj
      · intro j t hj
        rw [hlog] at hj
        simp only [List.mem_cons, reduceCtorEq, false_or, or_false, Event.save.injEq] at hj
        rcases hj with ⟨rfl, rfl⟩ | hj
        · rw [hdisk]; simp [Disk.setIst]
        · have hji : j ≠ i := fun e => hfi.2 t (e ▸ hj)
          rw [hdisk]; simp only [Disk.setIst, hji, if_false]; exact h.q.save_tok j t hj
      · intro j h1 h2
        have hji : j ≠ i := by
          intro e; subst e
          exact h2 st (by rw [hlog]; simp)
        rw [hdisk]; simp only [Disk.setIst, hji, if_false]
        refine h.q.keep_tok j (fun hm => h1 ?_) (fun t hm => h2 t ?_)
        · rw [hlog]; simp [hm]
        · rw [hlog]; simp [hm]
    cases r with
    | some _ => exact hq'
    | none =>
      refine ⟨hq', hnd.2, ?_⟩
      intro j hj
      have hji := hrest j hj
      have hf := h.fresh j (List.mem_cons_of_mem _ hj)
      rw [hlog]
      refine ⟨?_, ?_⟩
      · simp only [List.mem_cons, reduceCtorEq, false_or]; exact hf.1
      · intro t
        simp only [List.mem_cons, reduceCtorEq, false_or, or_false, Event.save.injEq, not_or, not_and]
        exact ⟨fun e => absurd e hji, hf.2 t⟩
  | apply c hst herr hdisk hcur hlog =>
    show TokInv d rest s'
    have hq' : TokQ d s' := by
      refine ⟨?_, ?_, ?_, ?_⟩
      · intro j t hj
        rw [hlog] at hj
        simp only [List.mem_cons, reduceCtorEq, false_or, Event.before.injEq] at hj
        rcases hj with ⟨rfl, rfl⟩ | hj
        · exact htok
        · exact h.q.before_tok j t hj
      · intro j hj
        rw [hlog] at hj
        simp only [List.mem_cons, reduceCtorEq, false_or, Event.apply.injEq] at hj
        rcases hj with rfl | hj
        · rw [hdisk]; simp [Disk.setIst]
        · have hji : j ≠ i := fun e => hfi.1 (e ▸ hj)
          rw [hdisk]; simp only [Disk.setIst, hji, if_false]; exact h.q.apply_tok j hj
      · intro j t hj
        rw [hlog] at hj
        simp only [List.mem_cons, reduceCtorEq, false_or] at hj
        have hji : j ≠ i := fun e => hfi.2 t (e ▸ hj)
        rw [hdisk]; simp only [Disk.setIst, hji, if_false]; exact h.q.save_tok j t hj
      · intro j h1 h2
        have hji : j ≠ i := by
          intro e; subst e
          exact h1 (by rw [hlog]; simp)
        rw [hdisk]; simp only [Disk.setIst, hji, if_false]
        refine h.q.keep_tok j (fun hm => h1 ?_) (fun t hm => h2 t ?_)
        · rw [hlog]; simp [hm]
        · rw [hlog]; simp [hm]
    refine ⟨hq', hnd.2, ?_⟩
    intro j hj
    have hji := hrest j hj
    have hf := h.fresh j (List.mem_cons_of_mem _ hj)
    rw [hlog]
    refine ⟨?_, ?_⟩
    · simp only [List.mem_cons, reduceCtorEq, false_or, Event.apply.injEq, not_or]
      exact ⟨hji, hf.1⟩
    · intro t
      simp only [List.mem_cons, reduceCtorEq, false_or]; exact hf.2 t


theorem run_tokens (cfg : Cfg) (reg : Registry) (env : Env) (d : Disk) : TokQ d (run cfg reg env d).1 := by
  have h0 : TokQ d ⟨d, d.metaD.cur, 0, []⟩ :=
    ⟨fun _ _ h => (List.not_mem_nil h).elim, fun _ h => (List.not_mem_nil h).elim, fun _ _ h => (List.not_mem_nil h).elim, fun _ _ _ => rfl⟩
  unfold run
  simp only []
  split
  · exact h0
  split
  · exact h0
  have h1 : TokQ d { (RunSt.tickEv ⟨d, d.metaD.cur, 0, []⟩ (.metaWrite ⟨d.metaD.cur, reg.target⟩)) with
        disk := { d with md := some ⟨d.metaD.cur, reg.target⟩ } } := by
    refine ⟨?_, ?_, ?_, fun _ _ _ => rfl⟩
    · intro j st h; simp [RunSt.tickEv] at h
    · intro j h; simp [RunSt.tickEv] at h
    · intro j st h; simp [RunSt.tickEv] at h
  split
  · exact h1
  split
  · exact h1
  · refine runLoop_inv cfg env reg.target (Q := TokQ d) (Inv := TokInv d) (fun l s h => h.q)
      (fun i rest s s' r h hrm => tok_step cfg env reg.target d i rest s s' r h hrm) _ _ ?_
    refine ⟨h1, (SV.iter_sorted _).imp (fun h => Nat.ne_of_lt h), ?_⟩
    intro j _
    simp [RunSt.tickEv]

/-- Token threading for one start: `Before` receives exactly the token stored on the disk the
start found; afterwards the stored token of a migration is gone if it was applied, is the state
`Migrate` returned if one was saved, and is untouched otherwise (refused database, death or failed
write before the save, error, not reached). -/
theorem start_tokens (cfg : Cfg) (d : Disk) (st : Start) :
    (∀ j t, Event.before j t ∈ (start cfg d st).2.1 → t = d.ist j) ∧
    (∀ j, Event.apply j ∈ (start cfg d st).2.1 → (start cfg d st).1.ist j = none) ∧
    (∀ j t, Event.save j t ∈ (start cfg d st).2.1 → (start cfg d st).1.ist j = some t) ∧
    (∀ j, Event.apply j ∉ (start cfg d st).2.1 → (∀ t, Event.save j t ∉ (start cfg d st).2.1) →
      (start cfg d st).1.ist j = d.ist j) := by
  unfold start
  by_cases hmr : st.env.metaReadFails = true
  · simp [hmr]
  simp only [hmr, Bool.false_eq_true, if_false]
  cases hn : newRunner cfg st.reg d with
  | optOut => exact ⟨fun _ _ h => (List.not_mem_nil h).elim, fun _ h => (List.not_mem_nil h).elim, fun _ _ h => (List.not_mem_nil h).elim, fun _ _ _ => rfl⟩
  | downgrade => exact ⟨fun _ _ h => (List.not_mem_nil h).elim, fun _ h => (List.not_mem_nil h).elim, fun _ _ h => (List.not_mem_nil h).elim, fun _ _ _ => rfl⟩
  | ok =>
    have h := run_tokens cfg st.reg st.env d
    exact ⟨h.before_tok, h.apply_tok, h.save_tok, h.keep_tok⟩

end Juno.C18
