import JunoModel.C18.ProofsSV
/-! C18 helper lemmas: the runner (`runMigration`, `runLoop`, `run`, `start`, `starts`). -/
namespace Juno.C18

/-- Events a `runMigration i` may add without changing anything persistent. -/
def Quiet (i : Nat) (cur : SV) : Event → Prop
  | .before j _ => j = i
  | .call j c => j = i ∧ c = cur
  | .ret j _ _ _ => j = i
  | _ => False

/-- Indices of the `Migrate` calls recorded in a log (newest first). -/
def callIdxs (log : List Event) : List Nat :=
  log.filterMap (fun e => match e with | .call j _ => some j | _ => none)

theorem callIdxs_append (a b : List Event) : callIdxs (a ++ b) = callIdxs a ++ callIdxs b := by
  simp [callIdxs, List.filterMap_append]

theorem mem_callIdxs {log : List Event} {j : Nat} : j ∈ callIdxs log ↔ ∃ c, Event.call j c ∈ log := by
  simp only [callIdxs, List.mem_filterMap]
  constructor
  · rintro ⟨e, he, h⟩
    cases e <;> simp at h
    subst h; exact ⟨_, he⟩
  · rintro ⟨c, hc⟩; exact ⟨_, hc, rfl⟩

/-- The three shapes of one `runMigration`. -/
inductive RM (cfg : Cfg) (env : Env) (last : SV) (i : Nat) (s : RunSt) : RunSt → Option Result → Prop
  | stop (s' : RunSt) (r : Result) (evs : List Event) :
      s'.disk = s.disk → s'.cur = s.cur → s'.log = evs ++ s.log → (∀ e ∈ evs, Quiet i s.cur e) →
      (callIdxs evs = [] ∨ callIdxs evs = [i]) →
      RM cfg env last i s s' (some r)
  | save (s' : RunSt) (r : Option Result) (st : Bytes) (c : Bool) :
      (env.beh i).st = some st →
      s'.disk = s.disk.setIst i (some st) → s'.cur = s.cur →
      s'.log = .save i st :: .ret i (some st) (env.beh i).err c :: .call i s.cur :: .before i (s.disk.ist i) :: s.log →
      (r = none → c = false) →
      RM cfg env last i s s' r
  | apply (s' : RunSt) (c : Bool) :
      (env.beh i).st = none →
      ((env.beh i).err = .none ∨ (cfg.markOnNilCtx = true ∧ (env.beh i).err = .ctx ∧ c = true)) →
      s'.disk = { (s.disk.setIst i none) with md := some ⟨SV.set s.cur i, last⟩ } →
      s'.cur = SV.set s.cur i →
      s'.log = .apply i :: .ret i none (env.beh i).err c :: .call i s.cur :: .before i (s.disk.ist i) :: s.log →
      RM cfg env last i s s' none

theorem runMigration_shape (cfg : Cfg) (env : Env) (last : SV) (i : Nat) (s : RunSt) :
    RM cfg env last i s (runMigration cfg env last i s).1 (runMigration cfg env last i s).2 := by
  unfold runMigration
  simp only []
  split
  · exact .stop _ _ [] rfl rfl rfl (by simp) (by simp [callIdxs])
  split
  · exact .stop _ _ [.before i (s.disk.ist i)] rfl rfl rfl (by simp [Quiet]) (by simp [callIdxs])
  split
  · exact .stop _ _ [.before i (s.disk.ist i)] rfl rfl rfl (by simp [Quiet]) (by simp [callIdxs])
  split
  · exact .stop _ _ [.call i s.cur, .before i (s.disk.ist i)] rfl rfl rfl (by simp [Quiet]) (by simp [callIdxs])
  split
  · exact .stop _ _ [.ret i _ _ _, .call i s.cur, .before i (s.disk.ist i)] rfl rfl rfl (by simp [Quiet]) (by simp [callIdxs])
  split
  · rename_i st heq
    refine .save _ _ st (decide (env.cancelAt ≤ s.tick + 1 + 1)) heq rfl rfl (by simp only [RunSt.tickEv, RunSt.cancelled, heq] <;> rfl) ?_
    intro h
    simp only [RunSt.cancelled, RunSt.tickEv] at h ⊢
    by_cases hc : env.cancelAt ≤ s.tick + 1 + 1 + 1
    · simp [hc] at h
    · simp; omega
  · rename_i heq
    split
    · exact .stop _ _ [.ret i _ _ _, .call i s.cur, .before i (s.disk.ist i)] rfl rfl rfl (by simp [Quiet]) (by simp [callIdxs])
    · rename_i h2
      refine .apply _ (decide (env.cancelAt ≤ s.tick + 1 + 1)) heq ?_ rfl rfl (by simp only [RunSt.tickEv, RunSt.cancelled, heq] <;> rfl)
      cases herr : (env.beh i).err <;> simp_all [RunSt.cancelled, RunSt.tickEv]
      exact of_decide_eq_true ‹_›

/-- Induction principle for the `for … range pending.Iter()` loop. -/
theorem runLoop_inv (cfg : Cfg) (env : Env) (last : SV) {Q : RunSt → Prop} {Inv : List Nat → RunSt → Prop}
    (hQ : ∀ l s, Inv l s → Q s)
    (hstep : ∀ i rest s s' r, Inv (i :: rest) s → RM cfg env last i s s' r →
      (match r with | none => Inv rest s' | some _ => Q s')) :
    ∀ l s, Inv l s → Q (runLoop cfg env last l s).1 := by
  intro l
  induction l with
  | nil => intro s h; simp only [runLoop]; exact hQ _ _ h
  | cons i rest ih =>
    intro s h
    simp only [runLoop]
    split
    · exact hQ _ _ h
    split
    · exact hQ _ _ h
    have hs := hstep i rest s _ _ h (runMigration_shape cfg env last i s)
    split
    · rename_i s' r heq
      rw [heq] at hs
      exact hs
    · rename_i s' heq
      rw [heq] at hs
      exact ih s' hs

/-- Migration `i` returned a resume state while the context was live (the run goes on with the
next migration although `i` is not applied). -/
def InProg (log : List Event) (i : Nat) : Prop := ∃ st e, Event.ret i (some st) e false ∈ log

theorem InProg.mono {l l' : List Event} {i : Nat} (h : InProg l i) (hl : ∀ e, e ∈ l → e ∈ l') : InProg l' i := by
  obtain ⟨st, e, h⟩ := h
  exact ⟨st, e, hl _ h⟩

/-- Everything that holds of a `Run` once it has done its first write. -/
structure RunQ (cfg : Cfg) (env : Env) (T cur0 : SV) (d : Disk) (s : RunSt) : Prop where
  md : s.disk.md = some ⟨s.cur, T⟩
  cur_sub : ∀ j, s.cur.has j = true → cur0.has j = true ∨ (T.has j = true ∧ Event.apply j ∈ s.log)
  cur_mono : ∀ j, cur0.has j = true → s.cur.has j = true
  apply_ret : ∀ j, Event.apply j ∈ s.log → ∃ c, Event.ret j none (env.beh j).err c ∈ s.log ∧
      ((env.beh j).err = .none ∨ (cfg.markOnNilCtx = true ∧ (env.beh j).err = .ctx ∧ c = true))
  ist_frame : ∀ j, s.disk.ist j ≠ d.ist j → T.has j = true ∧ cur0.has j = false
  ist_clear : ∀ j, s.cur.has j = true → cur0.has j = false → s.disk.ist j = none
  calls : ∀ j c, Event.call j c ∈ s.log → T.has j = true ∧ c.has j = false ∧
      (∀ i, c.has i = true → s.cur.has i = true) ∧ (∀ i, cur0.has i = true → c.has i = true) ∧
      (∀ i, i < j → T.has i = true → c.has i = true ∨ InProg s.log i)
  callsDesc : (callIdxs s.log).Pairwise (· > ·)

structure LoopInv (cfg : Cfg) (env : Env) (T cur0 : SV) (d : Disk) (rest : List Nat) (s : RunSt) : Prop where
  q : RunQ cfg env T cur0 d s
  sorted : rest.Pairwise (· < ·)
  pend : ∀ j ∈ rest, T.has j = true ∧ s.cur.has j = false ∧ cur0.has j = false
  cover : ∀ k, T.has k = true → s.cur.has k = true ∨ InProg s.log k ∨ k ∈ rest
  below : ∀ j ∈ callIdxs s.log, ∀ k ∈ rest, j < k

theorem loop_step (cfg : Cfg) (env : Env) (T cur0 : SV) (d : Disk) (i : Nat) (rest : List Nat)
    (s s' : RunSt) (r : Option Result)
    (h : LoopInv cfg env T cur0 d (i :: rest) s) (hrm : RM cfg env T i s s' r) :
    (match r with | none => LoopInv cfg env T cur0 d rest s' | some _ => RunQ cfg env T cur0 d s') := by
  have hsorted := List.pairwise_cons.mp h.sorted
  have hi := h.pend i (List.mem_cons_self)
  have hlt : ∀ k, k < i → k ∉ (i :: rest) := by
    intro k hk hmem
    rcases List.mem_cons.mp hmem with rfl | hmem
    · omega
    · have := hsorted.1 k hmem; omega
  -- the `call i s.cur` event satisfies the `calls` clause w.r.t. any later state
  have hcall : ∀ (lg : List Event), (∀ e, e ∈ s.log → e ∈ lg) →
      (∀ k, k < i → T.has k = true → s.cur.has k = true ∨ InProg lg k) := by
    intro lg hl k hk hT
    rcases h.cover k hT with hc | hp | hm
    · exact .inl hc
    · exact .inr (hp.mono hl)
    · exact absurd hm (hlt k hk)
  have hdesc_i : (i :: callIdxs s.log).Pairwise (· > ·) :=
    List.pairwise_cons.mpr ⟨fun j hj => h.below j hj i List.mem_cons_self, h.q.callsDesc⟩
  have hbelow_i : ∀ j ∈ i :: callIdxs s.log, ∀ k ∈ rest, j < k := by
    intro j hj k hk
    rcases List.mem_cons.mp hj with rfl | hj
    · exact hsorted.1 k hk
    · exact h.below j hj k (List.mem_cons_of_mem _ hk)
  cases hrm with
  | stop r evs hdisk hcur hlog hq hci =>
    have hmono : ∀ e, e ∈ s.log → e ∈ s'.log := by intro e he; rw [hlog]; exact List.mem_append_right _ he
    show RunQ cfg env T cur0 d s'
    refine ⟨by rw [hdisk, hcur]; exact h.q.md, ?_, ?_, ?_, ?_, ?_, ?_, ?_⟩
    · intro j hj; rw [hcur] at hj
      rcases h.q.cur_sub j hj with h1 | ⟨h1, h2⟩
      · exact .inl h1
      · exact .inr ⟨h1, hmono _ h2⟩
    · intro j hj; rw [hcur]; exact h.q.cur_mono j hj
    · intro j hj
      rw [hlog] at hj
      rcases List.mem_append.mp hj with hj | hj
      · exact absurd (hq _ hj) (by simp [Quiet])
      · obtain ⟨c, hc, hh⟩ := h.q.apply_ret j hj
        exact ⟨c, hmono _ hc, hh⟩
    · intro j hj; rw [hdisk] at hj; exact h.q.ist_frame j hj
    · intro j hj hj0; rw [hcur] at hj; rw [hdisk]; exact h.q.ist_clear j hj hj0
    · intro j c hj
      rw [hlog] at hj
      rcases List.mem_append.mp hj with hj | hj
      · have := hq _ hj
        simp only [Quiet] at this
        obtain ⟨rfl, rfl⟩ := this
        refine ⟨hi.1, hi.2.1, ?_, h.q.cur_mono, ?_⟩
        · intro k hk; rw [hcur]; exact hk
        · intro k hk hT; exact hcall s'.log hmono k hk hT
      · obtain ⟨h1, h2, h3, h3', h4⟩ := h.q.calls j c hj
        refine ⟨h1, h2, ?_, h3', ?_⟩
        · intro k hk; rw [hcur]; exact h3 k hk
        · intro k hk hT
          rcases h4 k hk hT with h5 | h5
          · exact .inl h5
          · exact .inr (h5.mono hmono)
    · rw [hlog, callIdxs_append]
      rcases hci with hci | hci
      · rw [hci]; exact h.q.callsDesc
      · rw [hci]; exact hdesc_i
  | save _ st c hst hdisk hcur hlog hr =>
    have hmono : ∀ e, e ∈ s.log → e ∈ s'.log := by
      intro e he; rw [hlog]; simp [he]
    have hq' : RunQ cfg env T cur0 d s' := by
      refine ⟨by rw [hdisk, hcur]; exact h.q.md, ?_, ?_, ?_, ?_, ?_, ?_, ?_⟩
      · intro j hj; rw [hcur] at hj
        rcases h.q.cur_sub j hj with h1 | ⟨h1, h2⟩
        · exact .inl h1
        · exact .inr ⟨h1, hmono _ h2⟩
      · intro j hj; rw [hcur]; exact h.q.cur_mono j hj
      · intro j hj
        rw [hlog] at hj
        simp only [List.mem_cons, reduceCtorEq, false_or] at hj
        obtain ⟨c', hc, hh⟩ := h.q.apply_ret j hj
        exact ⟨c', hmono _ hc, hh⟩
      · intro j hj
        by_cases hji : j = i
        · subst hji; exact ⟨hi.1, hi.2.2⟩
        · rw [hdisk] at hj; simp only [Disk.setIst, hji, if_false] at hj; exact h.q.ist_frame j hj
      · intro j hj hj0
        rw [hcur] at hj
        have hji : j ≠ i := by intro e; subst e; rw [hi.2.1] at hj; cases hj
        rw [hdisk]; simp only [Disk.setIst, hji, if_false]; exact h.q.ist_clear j hj hj0
      · intro j c' hj
        rw [hlog] at hj
        simp only [List.mem_cons, reduceCtorEq, false_or, Event.call.injEq] at hj
        rcases hj with ⟨rfl, rfl⟩ | hj
        · refine ⟨hi.1, hi.2.1, ?_, h.q.cur_mono, ?_⟩
          · intro k hk; rw [hcur]; exact hk
          · intro k hk hT; exact hcall s'.log hmono k hk hT
        · obtain ⟨h1, h2, h3, h3', h4⟩ := h.q.calls j c' hj
          refine ⟨h1, h2, ?_, h3', ?_⟩
          · intro k hk; rw [hcur]; exact h3 k hk
          · intro k hk hT
            rcases h4 k hk hT with h5 | h5
            · exact .inl h5
            · exact .inr (h5.mono hmono)
      · have : callIdxs s'.log = i :: callIdxs s.log := by rw [hlog]; simp [callIdxs]
        rw [this]; exact hdesc_i
    cases r with
    | some _ => exact hq'
    | none =>
      have hc : c = false := hr rfl
      subst hc
      have hci' : callIdxs s'.log = i :: callIdxs s.log := by rw [hlog]; simp [callIdxs]
      refine ⟨hq', hsorted.2, ?_, ?_, by rw [hci']; exact hbelow_i⟩
      · intro j hj
        have := h.pend j (List.mem_cons_of_mem _ hj)
        rw [hcur]; exact this
      · intro k hT
        rcases h.cover k hT with hc | hp | hm
        · exact .inl (by rw [hcur]; exact hc)
        · exact .inr (.inl (hp.mono hmono))
        · rcases List.mem_cons.mp hm with rfl | hm
          · refine .inr (.inl ⟨st, (env.beh k).err, ?_⟩)
            rw [hlog]; simp
          · exact .inr (.inr hm)
  | apply c hst herr hdisk hcur hlog =>
    have hmono : ∀ e, e ∈ s.log → e ∈ s'.log := by
      intro e he; rw [hlog]; simp [he]
    have hi64 : i < 64 := SV.has_lt hi.1
    have hcur' : ∀ j, s'.cur.has j = (s.cur.has j || decide (j = i)) := by
      intro j; rw [hcur, SV.has_set]; simp [hi64]
    show LoopInv cfg env T cur0 d rest s'
    have hq' : RunQ cfg env T cur0 d s' := by
      refine ⟨by rw [hdisk, hcur], ?_, ?_, ?_, ?_, ?_, ?_, ?_⟩
      · intro j hj; rw [hcur'] at hj
        by_cases hji : j = i
        · subst hji; exact .inr ⟨hi.1, by rw [hlog]; simp⟩
        · simp only [hji, decide_false, Bool.or_false] at hj
          rcases h.q.cur_sub j hj with h1 | ⟨h1, h2⟩
          · exact .inl h1
          · exact .inr ⟨h1, hmono _ h2⟩
      · intro j hj; rw [hcur']; simp [h.q.cur_mono j hj]
      · intro j hj
        rw [hlog] at hj
        simp only [List.mem_cons, reduceCtorEq, false_or, Event.apply.injEq] at hj
        rcases hj with rfl | hj
        · exact ⟨c, by rw [hlog]; simp, herr⟩
        · obtain ⟨c', hc, hh⟩ := h.q.apply_ret j hj
          exact ⟨c', hmono _ hc, hh⟩
      · intro j hj
        by_cases hji : j = i
        · subst hji; exact ⟨hi.1, hi.2.2⟩
        · rw [hdisk] at hj; simp only [Disk.setIst, hji, if_false] at hj; exact h.q.ist_frame j hj
      · intro j hj hj0
        rw [hcur'] at hj
        by_cases hji : j = i
        · subst hji; rw [hdisk]; simp [Disk.setIst]
        · simp only [hji, decide_false, Bool.or_false] at hj
          rw [hdisk]; simp only [Disk.setIst, hji, if_false]; exact h.q.ist_clear j hj hj0
      · intro j c' hj
        rw [hlog] at hj
        simp only [List.mem_cons, reduceCtorEq, false_or, Event.call.injEq] at hj
        rcases hj with ⟨rfl, rfl⟩ | hj
        · refine ⟨hi.1, hi.2.1, ?_, h.q.cur_mono, ?_⟩
          · intro k hk; rw [hcur']; simp [hk]
          · intro k hk hT; exact hcall s'.log hmono k hk hT
        · obtain ⟨h1, h2, h3, h3', h4⟩ := h.q.calls j c' hj
          refine ⟨h1, h2, ?_, h3', ?_⟩
          · intro k hk; rw [hcur']; simp [h3 k hk]
          · intro k hk hT
            rcases h4 k hk hT with h5 | h5
            · exact .inl h5
            · exact .inr (h5.mono hmono)
      · have : callIdxs s'.log = i :: callIdxs s.log := by rw [hlog]; simp [callIdxs]
        rw [this]; exact hdesc_i
    have hci' : callIdxs s'.log = i :: callIdxs s.log := by rw [hlog]; simp [callIdxs]
    refine ⟨hq', hsorted.2, ?_, ?_, by rw [hci']; exact hbelow_i⟩
    · intro j hj
      have := h.pend j (List.mem_cons_of_mem _ hj)
      have hji : j ≠ i := by have := hsorted.1 j hj; omega
      rw [hcur']; simp [hji, this]
    · intro k hT
      rcases h.cover k hT with hc | hp | hm
      · exact .inl (by rw [hcur']; simp [hc])
      · exact .inr (.inl (hp.mono hmono))
      · rcases List.mem_cons.mp hm with rfl | hm
        · exact .inl (by rw [hcur']; simp)
        · exact .inr (.inr hm)


end Juno.C18
