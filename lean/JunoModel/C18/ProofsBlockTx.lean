import JunoModel.C18.ModelBlockTx
/-! C18 helper lemmas: the block-transactions migration. -/
namespace Juno.C18.BlockTx

/-- The original content of every block: what the previous layout held before any migration. -/
abbrev Orig := Nat → Content

/-- Every transaction has its receipt. -/
def WFOrig (orig : Orig) : Prop := ∀ b, (orig b).1.length = (orig b).2.length

/-- Block whose old entries are intact (for an empty block: nothing stored in the old buckets). The
new entry is absent, or — after a partial batch written when a later block of the range failed to
ingest — already present with the same content. -/
def Unmigrated (o : Content) (k : Blk) : Prop :=
  k.hdr = some o.1.length ∧ k.otx = o.1 ∧ k.orc = o.2 ∧ (k.blob = none ∨ k.blob = some o)

/-- Block in the current layout with exactly its original content, no old entries left. -/
def Migrated (o : Content) (k : Blk) : Prop :=
  k.hdr = some o.1.length ∧ k.otx = [] ∧ k.orc = [] ∧ k.blob = some o

theorem Migrated.eq {o : Content} {k : Blk} (h : Migrated o k) : k = ⟨some o.1.length, [], [], some o⟩ := by
  obtain ⟨h1, h2, h3, h4⟩ := h
  cases k; simp_all

theorem ingest_unmigrated (cfg : Cfg) (o : Content) (k : Blk) (hw : o.1.length = o.2.length)
    (h : Unmigrated o k) : ∃ k', ingestBlk cfg k = .ok k' ∧ Migrated o k' := by
  obtain ⟨h1, h2, h3, h4⟩ := h
  refine ⟨⟨some o.1.length, [], [], some o⟩, ?_, rfl, rfl, rfl, rfl⟩
  unfold ingestBlk
  rw [h1]
  simp only [h2, h3]
  cases ho : o.1 with
  | nil =>
    have : o.2 = [] := by rw [ho] at hw; exact List.length_eq_zero_iff.mp hw.symm
    have ho' : o = ([], []) := Prod.ext ho this
    rcases h4 with h4 | h4
    · simp [ho, this, h4]
      rw [Prod.ext_iff]; simp [ho, this]
    · rw [h4, ho']
      cases cfg.overwriteMigrated <;> simp
  | cons a r =>
    cases ho2 : o.2 with
    | nil => rw [ho, ho2] at hw; simp at hw
    | cons a2 r2 =>
      rw [ho, ho2] at hw
      simp [hw]
      rw [Prod.ext_iff]; simp [ho, ho2]

theorem ingest_migrated_fixed (cfg : Cfg) (hc : cfg.overwriteMigrated = false) (o : Content) (k : Blk)
    (h : Migrated o k) : ingestBlk cfg k = .ok k := by
  obtain ⟨h1, h2, h3, h4⟩ := h
  unfold ingestBlk
  rw [h1]
  cases k
  simp_all

theorem ingest_migrated_pinned (cfg : Cfg) (hc : cfg.overwriteMigrated = true) (o : Content) (k : Blk)
    (h : Migrated o k) : ingestBlk cfg k = .ok { k with blob := some ([], []) } := by
  obtain ⟨h1, h2, h3, h4⟩ := h
  unfold ingestBlk
  rw [h1]
  cases k
  simp_all

theorem firstBlock_none {db : Db} {h : Nat} {p : Blk → Bool} (hn : firstBlock db h p = none) :
    ∀ b, b ≤ h → p (db.blk b) = false := by
  intro b hb
  unfold firstBlock at hn
  have := List.find?_eq_none.mp hn b (List.mem_range.mpr (by omega))
  simpa using this

theorem firstBlock_some {db : Db} {h t : Nat} {p : Blk → Bool} (hs : firstBlock db h p = some t) :
    t ≤ h ∧ p (db.blk t) = true ∧ ∀ b, b < t → p (db.blk b) = false := by
  unfold firstBlock at hs
  obtain ⟨hp, as, bs, hsplit, has⟩ := List.find?_eq_some_iff_append.mp hs
  have hmem : t ∈ List.range (h + 1) := by rw [hsplit]; simp
  have hth : t ≤ h := by have := List.mem_range.mp hmem; omega
  refine ⟨hth, hp, ?_⟩
  intro b hb
  have hbm : b ∈ List.range (h + 1) := List.mem_range.mpr (by omega)
  rw [hsplit] at hbm
  have hpw : (as ++ t :: bs).Pairwise (· < ·) := by rw [← hsplit]; exact List.pairwise_lt_range
  rcases List.mem_append.mp hbm with h1 | h1
  · have := has b h1; simpa using this
  · rcases List.mem_cons.mp h1 with h2 | h2
    · omega
    · have := (List.pairwise_cons.mp (List.pairwise_append.mp hpw).2.1).1 b h2
      omega

theorem find?_congr' {l : List Nat} {p q : Nat → Bool} (h : ∀ x ∈ l, p x = q x) : l.find? p = l.find? q := by
  induction l with
  | nil => rfl
  | cons a r ih =>
    simp only [List.find?_cons]
    rw [h a List.mem_cons_self, ih (fun x hx => h x (List.mem_cons_of_mem _ hx))]

theorem firstBlock_congr {db : Db} {h : Nat} {p q : Blk → Bool}
    (hpq : ∀ b, b ≤ h → p (db.blk b) = q (db.blk b)) : firstBlock db h p = firstBlock db h q := by
  unfold firstBlock
  apply find?_congr'
  intro b hb
  exact hpq b (by have := List.mem_range.mp hb; omega)

theorem unmigrated_noOld_empty' {o : Content} {k : Blk} (hw : o.1.length = o.2.length)
    (hu : Unmigrated o k) (hno : k.otx = []) : o = ([], []) := by
  have h1 : o.1 = [] := by rw [← hu.2.1]; exact hno
  have h2 : o.2 = [] := by rw [h1] at hw; exact List.length_eq_zero_iff.mp hw.symm
  exact Prod.ext h1 h2

/-- Every block up to the chain height is either still in the previous layout or migrated, with
its original content: no block is lost, duplicated or altered. Every crash image of the repaired
migration satisfies this. -/
def Inv (orig : Orig) (h : Nat) (db : Db) : Prop :=
  db.height = some h ∧ ∀ b, b ≤ h → Unmigrated (orig b) (db.blk b) ∨ Migrated (orig b) (db.blk b)

theorem old_agree {o : Content} {k : Blk} (hw : o.1.length = o.2.length)
    (h : Unmigrated o k ∨ Migrated o k) : (!k.otx.isEmpty) = (!k.orc.isEmpty) := by
  rcases h with ⟨_, h2, h3, _⟩ | ⟨_, h2, h3, _⟩
  · rw [h2, h3]
    cases h1 : o.1 <;> cases h2 : o.2 <;> simp_all
  · rw [h2, h3]

/-- Under `Inv`, `getFirstBlockToMigrate` never reports "different first block". -/
theorem getFirst_inv {orig : Orig} {h : Nat} {db : Db} (hw : WFOrig orig) (hi : Inv orig h db) :
    getFirst db h = .ok ((firstBlock db h (fun k => !k.otx.isEmpty)).map (fun t => t - t % batchSize)) := by
  unfold getFirst
  have : firstBlock db h (fun k => !k.orc.isEmpty) = firstBlock db h (fun k => !k.otx.isEmpty) :=
    firstBlock_congr (fun b hb => (old_agree (hw b) (hi.2 b hb)).symm)
  rw [this]
  cases firstBlock db h (fun k => !k.otx.isEmpty) with
  | none => rfl
  | some t => simp

theorem ingest_ok_fixed {cfg : Cfg} (hc : cfg.overwriteMigrated = false) {o : Content} {k : Blk}
    (hw : o.1.length = o.2.length) (h : Unmigrated o k ∨ Migrated o k) :
    ∃ k', ingestBlk cfg k = .ok k' ∧ Migrated o k' := by
  rcases h with h | h
  · exact ingest_unmigrated cfg o k hw h
  · exact ⟨k, ingest_migrated_fixed cfg hc o k h, h⟩

theorem applyPass_height (cfg : Cfg) (db : Db) (f h : Nat) (sel : Nat → Bool) :
    (applyPass cfg db f h sel).height = db.height := rfl

/-- A pass of the repaired migration (any set of committed ranges) keeps `Inv`. -/
theorem applyPass_inv {cfg : Cfg} (hc : cfg.overwriteMigrated = false) {orig : Orig} {h : Nat} {db : Db}
    (hw : WFOrig orig) (hi : Inv orig h db) (f : Nat) (sel : Nat → Bool) :
    Inv orig h (applyPass cfg db f h sel) := by
  refine ⟨hi.1, ?_⟩
  intro b hb
  simp only [applyPass]
  split
  · obtain ⟨k', hk, hm⟩ := ingest_ok_fixed hc (hw b) (hi.2 b hb)
    rw [hk]; exact .inr hm
  · exact hi.2 b hb

theorem passFails_fixed {cfg : Cfg} (hc : cfg.overwriteMigrated = false) {orig : Orig} {h : Nat} {db : Db}
    (hw : WFOrig orig) (hi : Inv orig h db) (f e : Nat) : passFails cfg db f h e = false := by
  unfold passFails
  rw [List.any_eq_false]
  intro b hb
  have hbh : b ≤ h := by have := List.mem_range.mp hb; omega
  obtain ⟨k', hk, _⟩ := ingest_ok_fixed hc (hw b) (hi.2 b hbh)
  rw [hk]; simp

/-- The repaired final step turns an image without old entries into the fully migrated database. -/
theorem backfill_inv {orig : Orig} {h : Nat} {db : Db} (hw : WFOrig orig) (hi : Inv orig h db)
    (hno : ∀ b, b ≤ h → (db.blk b).otx.isEmpty = true) :
    ∃ db', backfill db h = .ok db' ∧ db'.height = some h ∧ (∀ b, b ≤ h → Migrated (orig b) (db'.blk b)) ∧
      (∀ b, h < b → db'.blk b = db.blk b) := by
  have hempty : ∀ b, b ≤ h → Unmigrated (orig b) (db.blk b) → orig b = ([], []) ∧ (db.blk b).hdr = some 0 := by
    intro b hb hu
    have h1 := hno b hb
    rw [hu.2.1] at h1
    have h2 : (orig b).1 = [] := by simpa using h1
    have h3 : (orig b).2 = [] := by
      have := hw b; rw [h2] at this; exact List.length_eq_zero_iff.mp this.symm
    exact ⟨Prod.ext h2 h3, by rw [hu.1, h2]; rfl⟩
  unfold backfill
  have hany : (List.range (h + 1)).any (fun b => (db.blk b).blob.isNone && (db.blk b).hdr != some 0) = false := by
    rw [List.any_eq_false]
    intro b hb
    have hbh : b ≤ h := by have := List.mem_range.mp hb; omega
    rcases hi.2 b hbh with hu | hm
    · simp [(hempty b hbh hu).2]
    · simp [hm.2.2.2]
  rw [hany]
  refine ⟨_, rfl, hi.1, ?_, ?_⟩
  · intro b hb
    simp only [hb, true_and]
    rcases hi.2 b hb with hu | hm
    · have he := hempty b hb hu
      have hotx : (db.blk b).otx = [] := by have := hu.2.1; rw [he.1] at this; exact this
      have horc : (db.blk b).orc = [] := by have := hu.2.2.1; rw [he.1] at this; exact this
      rcases hu.2.2.2 with hb0 | hb0
      · simp only [hb0, Option.isNone_none, if_true]
        exact ⟨by rw [he.2, he.1]; rfl, hotx, horc, by rw [he.1]⟩
      · simp only [hb0, Option.isNone_some, Bool.false_eq_true, if_false]
        exact ⟨by rw [he.2, he.1]; rfl, hotx, horc, hb0⟩
    · simp only [hm.2.2.2, Option.isNone_some, Bool.false_eq_true, if_false]; exact hm
  · intro b hb
    have : ¬ b ≤ h := by omega
    simp [this]


/-- Nothing above the chain height is touched. -/
theorem applyPass_frame (cfg : Cfg) (db : Db) (f h : Nat) (sel : Nat → Bool) (b : Nat) (hb : h < b) :
    (applyPass cfg db f h sel).blk b = db.blk b := by
  have : ¬ (f ≤ b ∧ b ≤ h ∧ sel ((b - f) / batchSize) = true) := by omega
  simp [applyPass, this]

theorem backfill_frame {db db' : Db} {h : Nat} (hb : backfill db h = .ok db') (b : Nat) (hlt : h < b) :
    db'.blk b = db.blk b ∧ db'.height = db.height := by
  unfold backfill at hb
  split at hb
  · cases hb
  · injection hb with hb
    subst hb
    have : ¬ b ≤ h := by omega
    simp [this]

/-- The partial batch written after an ingest error only ADDS new entries: the old transaction and
receipt entries of every block — in particular of the blocks of the range that were not reached —
are exactly what they were. -/
theorem applyPartial_keeps_old (cfg : Cfg) (db : Db) (f h r k b : Nat) :
    ((applyPartial cfg db f h r k).blk b).otx = (db.blk b).otx ∧
    ((applyPartial cfg db f h r k).blk b).orc = (db.blk b).orc ∧
    ((applyPartial cfg db f h r k).blk b).hdr = (db.blk b).hdr := by
  simp only [applyPartial]
  split
  · split <;> exact ⟨rfl, rfl, rfl⟩
  · exact ⟨rfl, rfl, rfl⟩

theorem applyPartial_inv {cfg : Cfg} (hc : cfg.overwriteMigrated = false) {orig : Orig} {h : Nat} {db : Db}
    (hw : WFOrig orig) (hi : Inv orig h db) (f r k : Nat) :
    Inv orig h (applyPartial cfg db f h r k) ∧
    (∀ b, h < b → (applyPartial cfg db f h r k).blk b = db.blk b) := by
  refine ⟨⟨hi.1, ?_⟩, ?_⟩
  · intro b hb
    simp only [applyPartial]
    split
    · obtain ⟨k', hk, hm⟩ := ingest_ok_fixed hc (hw b) (hi.2 b hb)
      rw [hk]
      simp only []
      rcases hi.2 b hb with hu | hmig
      · exact .inl ⟨hu.1, hu.2.1, hu.2.2.1, .inr hm.2.2.2⟩
      · have : k' = db.blk b := by
          have := ingest_migrated_fixed cfg hc _ _ hmig
          rw [this] at hk; injection hk with hk; exact hk.symm
        rw [this]; exact .inr hmig
    · exact hi.2 b hb
  · intro b hb
    have : ¬ (f + r * batchSize ≤ b ∧ b < f + r * batchSize + k ∧ b < f + (r + 1) * batchSize ∧ b ≤ h) := by omega
    simp [applyPartial, this]

theorem partials_inv {cfg : Cfg} (hc : cfg.overwriteMigrated = false) {orig : Orig} {h : Nat}
    (hw : WFOrig orig) (f : Nat) : ∀ (partials : List (Nat × Nat)) (db : Db), Inv orig h db →
    Inv orig h (partials.foldl (fun d p => applyPartial cfg d f h p.1 p.2) db) ∧
    (∀ b, h < b → (partials.foldl (fun d p => applyPartial cfg d f h p.1 p.2) db).blk b = db.blk b) := by
  intro partials
  induction partials with
  | nil => intro db hi; exact ⟨hi, fun _ _ => rfl⟩
  | cons p rest ih =>
    intro db hi
    simp only [List.foldl]
    have h1 := applyPartial_inv (cfg := cfg) hc hw hi f p.1 p.2
    have h2 := ih _ h1.1
    exact ⟨h2.1, fun b hb => by rw [h2.2 b hb, h1.2 b hb]⟩

/-- One loop iteration of the repaired migration keeps `Inv`, whatever the environment does. -/
theorem iteration_inv {cfg : Cfg} (hc : cfg.overwriteMigrated = false) {orig : Orig} {h : Nat} {db : Db}
    (hw : WFOrig orig) (hi : Inv orig h db) (st : Step) :
    Inv orig h (iteration cfg db h st).1 ∧ (∀ b, h < b → (iteration cfg db h st).1.blk b = db.blk b) := by
  have hbf : (∀ b, b ≤ h → (db.blk b).otx.isEmpty = true) →
      ∀ db', backfill db h = .ok db' → Inv orig h db' ∧ (∀ b, h < b → db'.blk b = db.blk b) := by
    intro hno db' hdb'
    obtain ⟨db'', h1, h2, h3, h4⟩ := backfill_inv hw hi hno
    rw [h1] at hdb'
    injection hdb' with hdb'
    subst hdb'
    exact ⟨⟨h2, fun b hb => .inr (h3 b hb)⟩, h4⟩
  unfold iteration
  cases st with
  | cancelHead => exact ⟨hi, fun _ _ => rfl⟩
  | pass emit =>
    simp only [getFirst_inv hw hi]
    cases hf : firstBlock db h (fun k => !k.otx.isEmpty) with
    | none =>
      simp only [Option.map_none]
      split
      · exact ⟨hi, fun _ _ => rfl⟩
      · split
        · rename_i db' hdb'
          exact hbf (fun b hb => by simpa using firstBlock_none hf b hb) db' hdb'
        · exact ⟨hi, fun _ _ => rfl⟩
    | some t =>
      simp only [Option.map_some, passFails_fixed hc hw hi, Bool.false_eq_true, if_false]
      split
      · exact ⟨applyPass_inv hc hw hi _ _, by intro b hb; simp only [Option.map_some]; exact applyPass_frame _ _ _ _ _ b hb⟩
      · exact ⟨applyPass_inv hc hw hi _ _, by intro b hb; simp only [Option.map_some]; exact applyPass_frame _ _ _ _ _ b hb⟩
  | crash emit sel =>
    simp only [getFirst_inv hw hi]
    cases hf : firstBlock db h (fun k => !k.otx.isEmpty) with
    | none => exact ⟨hi, fun _ _ => rfl⟩
    | some t => exact ⟨applyPass_inv hc hw hi _ _, by intro b hb; simp only [Option.map_some]; exact applyPass_frame _ _ _ _ _ b hb⟩
  | ingestError emit sel partials =>
    simp only [getFirst_inv hw hi]
    cases hf : firstBlock db h (fun k => !k.otx.isEmpty) with
    | none => exact ⟨hi, fun _ _ => rfl⟩
    | some t =>
      simp only [Option.map_some]
      have h1 := applyPass_inv (cfg := cfg) hc hw hi (t - t % batchSize)
        (fun i => decide (i < min (emit.getD (numRanges (t - t % batchSize) h)) (numRanges (t - t % batchSize) h)) &&
          !(partials.any (fun p => p.1 == i)) && selOf sel i)
      have hf1 : ∀ b, h < b → (applyPass cfg db (t - t % batchSize) h
          (fun i => decide (i < min (emit.getD (numRanges (t - t % batchSize) h)) (numRanges (t - t % batchSize) h)) &&
            !(partials.any (fun p => p.1 == i)) && selOf sel i)).blk b = db.blk b :=
        fun b hb => applyPass_frame _ _ _ _ _ b hb
      exact partials_inv hc hw (t - t % batchSize) partials _ h1 |>.imp_right
        (fun hfr b hb => by rw [hfr b hb]; exact hf1 b hb)
  | writeFail emit sel =>
    simp only [getFirst_inv hw hi]
    cases hf : firstBlock db h (fun k => !k.otx.isEmpty) with
    | none => exact ⟨hi, fun _ _ => rfl⟩
    | some t => exact ⟨applyPass_inv hc hw hi _ _, by intro b hb; simp only [Option.map_some]; exact applyPass_frame _ _ _ _ _ b hb⟩
  | crashFinal =>
    simp only [getFirst_inv hw hi]
    cases hf : firstBlock db h (fun k => !k.otx.isEmpty) with
    | none => exact ⟨hi, fun _ _ => rfl⟩
    | some t => exact ⟨hi, fun _ _ => rfl⟩
  | passSkip emit sel =>
    simp only [getFirst_inv hw hi]
    cases hf : firstBlock db h (fun k => !k.otx.isEmpty) with
    | none =>
      simp only [Option.map_none]
      split
      · exact ⟨hi, fun _ _ => rfl⟩
      · split
        · rename_i db' hdb'
          exact hbf (fun b hb => by simpa using firstBlock_none hf b hb) db' hdb'
        · exact ⟨hi, fun _ _ => rfl⟩
    | some t =>
      simp only [Option.map_some, passFails_fixed hc hw hi, Bool.false_eq_true, if_false]
      split
      · exact ⟨applyPass_inv hc hw hi _ _, by intro b hb; simp only [Option.map_some]; exact applyPass_frame _ _ _ _ _ b hb⟩
      · exact ⟨applyPass_inv hc hw hi _ _, by intro b hb; simp only [Option.map_some]; exact applyPass_frame _ _ _ _ _ b hb⟩
  | crashClear =>
    simp only [getFirst_inv hw hi]
    cases hf : firstBlock db h (fun k => !k.otx.isEmpty) with
    | none =>
      simp only [Option.map_none]
      split
      · exact ⟨hi, fun _ _ => rfl⟩
      · split
        · rename_i db' hdb'
          exact hbf (fun b hb => by simpa using firstBlock_none hf b hb) db' hdb'
        · exact ⟨hi, fun _ _ => rfl⟩
    | some t => exact ⟨hi, fun _ _ => rfl⟩
  | failClear =>
    simp only [getFirst_inv hw hi]
    cases hf : firstBlock db h (fun k => !k.otx.isEmpty) with
    | none =>
      simp only [Option.map_none]
      split
      · exact ⟨hi, fun _ _ => rfl⟩
      · split
        · rename_i db' hdb'
          exact hbf (fun b hb => by simpa using firstBlock_none hf b hb) db' hdb'
        · exact ⟨hi, fun _ _ => rfl⟩
    | some t => exact ⟨hi, fun _ _ => rfl⟩


theorem rangeHasOld_false {db : Db} {f h i b : Nat} (hr : rangeHasOld db f h i = false) (hb : b ≤ h) (hf : f ≤ b)
    (hi : (b - f) / batchSize = i) : (db.blk b).otx = [] ∧ (db.blk b).orc = [] := by
  unfold rangeHasOld at hr
  rw [List.any_eq_false] at hr
  have := hr b (List.mem_range.mpr (by omega))
  simp only [hf, hi, decide_true, Bool.true_and, Bool.or_eq_true, Bool.not_eq_true', not_or, Bool.not_eq_false] at this
  exact ⟨List.isEmpty_iff.mp this.1, List.isEmpty_iff.mp this.2⟩

/-- A pass with elided batches (`passSkip`) differs from the pass of the current committer (`pass`) only on
blocks WITHOUT transactions, and there only in that the block is left as it was (its empty entry is not
written yet); the return class is the same. So eliding never concerns a block that holds data. -/
theorem passSkip_vs_pass {cfg : Cfg} (hc : cfg.overwriteMigrated = false) {orig : Orig} {h : Nat} {db : Db}
    (hw : WFOrig orig) (hi : Inv orig h db) (emit : Option Nat) (sel : List Bool) :
    (iteration cfg db h (.passSkip emit sel)).2 = (iteration cfg db h (.pass emit)).2 ∧
    ∀ b, (iteration cfg db h (.passSkip emit sel)).1.blk b = (iteration cfg db h (.pass emit)).1.blk b ∨
      (b ≤ h ∧ orig b = ([], []) ∧ (iteration cfg db h (.passSkip emit sel)).1.blk b = db.blk b) := by
  unfold iteration
  simp only [getFirst_inv hw hi]
  cases hf : firstBlock db h (fun k => !k.otx.isEmpty) with
  | none => exact ⟨rfl, fun b => .inl rfl⟩
  | some t =>
    simp only [Option.map_some, passFails_fixed hc hw hi, Bool.false_eq_true, if_false]
    refine ⟨by split <;> rfl, fun b => ?_⟩
    have key : (applyPass cfg db (t - t % batchSize) h (fun i =>
          decide (i < min (emit.getD (numRanges (t - t % batchSize) h)) (numRanges (t - t % batchSize) h)) &&
            (selOf sel i || rangeHasOld db (t - t % batchSize) h i))).blk b =
        (applyPass cfg db (t - t % batchSize) h (fun i =>
          decide (i < min (emit.getD (numRanges (t - t % batchSize) h)) (numRanges (t - t % batchSize) h)))).blk b ∨
        (b ≤ h ∧ orig b = ([], []) ∧ (applyPass cfg db (t - t % batchSize) h (fun i =>
          decide (i < min (emit.getD (numRanges (t - t % batchSize) h)) (numRanges (t - t % batchSize) h)) &&
            (selOf sel i || rangeHasOld db (t - t % batchSize) h i))).blk b = db.blk b) := by
      simp only [applyPass]
      by_cases hfb : t - t % batchSize ≤ b ∧ b ≤ h
      · by_cases he : (b - (t - t % batchSize)) / batchSize <
            min (emit.getD (numRanges (t - t % batchSize) h)) (numRanges (t - t % batchSize) h)
        · by_cases hk : (selOf sel ((b - (t - t % batchSize)) / batchSize) ||
              rangeHasOld db (t - t % batchSize) h ((b - (t - t % batchSize)) / batchSize)) = true
          · left; simp only [hfb.1, hfb.2, he, hk, decide_true, Bool.and_self, and_self, if_true]
          · have hk' : (selOf sel ((b - (t - t % batchSize)) / batchSize) ||
                rangeHasOld db (t - t % batchSize) h ((b - (t - t % batchSize)) / batchSize)) = false := by simpa using hk
            have hro := (Bool.or_eq_false_iff.mp hk').2
            obtain ⟨ho1, ho2⟩ := rangeHasOld_false hro hfb.2 hfb.1 rfl
            rcases hi.2 b hfb.2 with hu | hm
            · right
              refine ⟨hfb.2, unmigrated_noOld_empty' (hw b) hu ho1, ?_⟩
              simp only [hfb.1, hfb.2, he, hk', decide_true, Bool.and_false, Bool.false_eq_true, and_false, if_false]
            · left
              simp only [hfb.1, hfb.2, he, hk', decide_true, Bool.and_false, Bool.false_eq_true, and_false, if_false,
                and_self, if_true]
              rw [ingest_migrated_fixed cfg hc _ _ hm]
        · left; simp only [he, decide_false, Bool.false_and, Bool.false_eq_true, and_false, if_false]
      · left
        have h1 : ¬ (t - t % batchSize ≤ b ∧ b ≤ h ∧ (decide ((b - (t - t % batchSize)) / batchSize <
            min (emit.getD (numRanges (t - t % batchSize) h)) (numRanges (t - t % batchSize) h)) &&
            (selOf sel ((b - (t - t % batchSize)) / batchSize) ||
              rangeHasOld db (t - t % batchSize) h ((b - (t - t % batchSize)) / batchSize))) = true) :=
          fun hx => hfb ⟨hx.1, hx.2.1⟩
        have h2 : ¬ (t - t % batchSize ≤ b ∧ b ≤ h ∧ decide ((b - (t - t % batchSize)) / batchSize <
            min (emit.getD (numRanges (t - t % batchSize) h)) (numRanges (t - t % batchSize) h)) = true) :=
          fun hx => hfb ⟨hx.1, hx.2.1⟩
        simp only [h1, h2, if_false]
    split <;> exact key

theorem migrateLoop_inv {cfg : Cfg} (hc : cfg.overwriteMigrated = false) {orig : Orig} {h : Nat}
    (hw : WFOrig orig) : ∀ (fuel : Nat) (db : Db) (steps : List Step), Inv orig h db →
    Inv orig h (migrateLoop cfg h fuel db steps).1 ∧
      (∀ b, h < b → (migrateLoop cfg h fuel db steps).1.blk b = db.blk b) := by
  intro fuel
  induction fuel with
  | zero => intro db steps hi; exact ⟨hi, fun _ _ => rfl⟩
  | succ n ih =>
    intro db steps hi
    simp only [migrateLoop]
    have key : ∀ st rest, Inv orig h (match iteration cfg db h st with
        | (db', some r) => (db', r)
        | (db', none) => migrateLoop cfg h n db' rest).1 ∧
        (∀ b, h < b → (match iteration cfg db h st with
        | (db', some r) => (db', r)
        | (db', none) => migrateLoop cfg h n db' rest).1.blk b = db.blk b) := by
      intro st rest
      have h1 := iteration_inv hc hw hi st
      split
      · rename_i db' r heq
        rw [heq] at h1; exact h1
      · rename_i db' heq
        rw [heq] at h1
        have h2 := ih db' rest h1.1
        exact ⟨h2.1, fun b hb => by rw [h2.2 b hb, h1.2 b hb]⟩
    cases steps with
    | nil => exact key _ _
    | cons s r => exact key _ _

/-- `Migrate` of the repaired code keeps `Inv` under every interruption pattern. -/
theorem migrate_inv {cfg : Cfg} (hc : cfg.overwriteMigrated = false) {orig : Orig} {h : Nat} {db : Db}
    (hw : WFOrig orig) (hi : Inv orig h db) (steps : List Step) :
    Inv orig h (migrate cfg db steps).1 ∧ (∀ b, h < b → (migrate cfg db steps).1.blk b = db.blk b) := by
  unfold migrate
  rw [hi.1]
  exact migrateLoop_inv hc hw 3 db steps hi

/-- All blocks migrated. -/
def AllMigrated (orig : Orig) (h : Nat) (db : Db) : Prop :=
  db.height = some h ∧ ∀ b, b ≤ h → Migrated (orig b) (db.blk b)

theorem iteration_done {cfg : Cfg} (hc : cfg.overwriteMigrated = false) (hs : cfg.skipUnstoredEmpty = false)
    {orig : Orig} {h : Nat} {db : Db} (hw : WFOrig orig) (hi : Inv orig h db) (st : Step)
    (hd : (iteration cfg db h st).2 = some .done) : AllMigrated orig h (iteration cfg db h st).1 := by
  unfold iteration at hd ⊢
  cases st with
  | cancelHead => simp at hd
  | pass emit =>
    simp only [getFirst_inv hw hi] at hd ⊢
    cases hf : firstBlock db h (fun k => !k.otx.isEmpty) with
    | none =>
      simp only [hf, Option.map_none, hs, Bool.false_eq_true, if_false] at hd ⊢
      obtain ⟨db'', h1, h2, h3, _⟩ := backfill_inv hw hi (fun b hb => by simpa using firstBlock_none hf b hb)
      rw [h1]
      exact ⟨h2, h3⟩
    | some t =>
      simp only [hf, Option.map_some, passFails_fixed hc hw hi, Bool.false_eq_true, if_false] at hd
      split at hd <;> simp at hd
  | crash emit sel =>
    simp only [getFirst_inv hw hi] at hd
    cases hf : firstBlock db h (fun k => !k.otx.isEmpty) <;> simp [hf] at hd
  | ingestError emit sel partials =>
    simp only [getFirst_inv hw hi] at hd
    cases hf : firstBlock db h (fun k => !k.otx.isEmpty) <;> simp [hf] at hd
  | writeFail emit sel =>
    simp only [getFirst_inv hw hi] at hd
    cases hf : firstBlock db h (fun k => !k.otx.isEmpty) <;> simp [hf] at hd
  | crashFinal =>
    simp only [getFirst_inv hw hi] at hd
    cases hf : firstBlock db h (fun k => !k.otx.isEmpty) <;> simp [hf] at hd
  | passSkip emit sel =>
    simp only [getFirst_inv hw hi] at hd ⊢
    cases hf : firstBlock db h (fun k => !k.otx.isEmpty) with
    | none =>
      simp only [hf, Option.map_none, hs, Bool.false_eq_true, if_false] at hd ⊢
      obtain ⟨db'', h1, h2, h3, _⟩ := backfill_inv hw hi (fun b hb => by simpa using firstBlock_none hf b hb)
      rw [h1]
      exact ⟨h2, h3⟩
    | some t =>
      simp only [hf, Option.map_some, passFails_fixed hc hw hi, Bool.false_eq_true, if_false] at hd
      split at hd <;> simp at hd
  | crashClear =>
    simp only [getFirst_inv hw hi] at hd
    cases hf : firstBlock db h (fun k => !k.otx.isEmpty) with
    | none =>
      simp only [hf, Option.map_none, hs, Bool.false_eq_true, if_false] at hd
      split at hd <;> simp at hd
    | some t => simp [hf] at hd
  | failClear =>
    simp only [getFirst_inv hw hi] at hd
    cases hf : firstBlock db h (fun k => !k.otx.isEmpty) with
    | none =>
      simp only [hf, Option.map_none, hs, Bool.false_eq_true, if_false] at hd
      split at hd <;> simp at hd
    | some t => simp [hf] at hd

theorem migrateLoop_done {cfg : Cfg} (hc : cfg.overwriteMigrated = false) (hs : cfg.skipUnstoredEmpty = false)
    {orig : Orig} {h : Nat} (hw : WFOrig orig) : ∀ (fuel : Nat) (db : Db) (steps : List Step), Inv orig h db →
    (migrateLoop cfg h fuel db steps).2 = .done → AllMigrated orig h (migrateLoop cfg h fuel db steps).1 := by
  intro fuel
  induction fuel with
  | zero => intro db steps hi hd; simp [migrateLoop] at hd
  | succ n ih =>
    intro db steps hi
    simp only [migrateLoop]
    have key : ∀ st rest, (match iteration cfg db h st with
        | (db', some r) => (db', r)
        | (db', none) => migrateLoop cfg h n db' rest).2 = .done →
        AllMigrated orig h (match iteration cfg db h st with
        | (db', some r) => (db', r)
        | (db', none) => migrateLoop cfg h n db' rest).1 := by
      intro st rest
      have h1 := iteration_inv hc hw hi st
      have h2 := iteration_done hc hs hw hi st
      split
      · rename_i db' r heq
        rw [heq] at h2
        intro hd
        simp only at hd
        subst hd
        exact h2 rfl
      · rename_i db' heq
        rw [heq] at h1
        exact ih db' rest h1.1
    cases steps with
    | nil => exact key _ _
    | cons s r => exact key _ _


theorem firstBlock_eq_none {db : Db} {h : Nat} {p : Blk → Bool} (hn : ∀ b, b ≤ h → p (db.blk b) = false) :
    firstBlock db h p = none := by
  unfold firstBlock
  apply List.find?_eq_none.mpr
  intro b hb
  have := hn b (by have := List.mem_range.mp hb; omega)
  simp [this]

/-- After a complete pass no old entry is left. -/
theorem fullPass_noOld {cfg : Cfg} (hc : cfg.overwriteMigrated = false) {orig : Orig} {h t : Nat} {db : Db}
    (hw : WFOrig orig) (hi : Inv orig h db) (hf : firstBlock db h (fun k => !k.otx.isEmpty) = some t) :
    ∀ b, b ≤ h → (!((applyPass cfg db (t - t % batchSize) h
        (fun i => decide (i < numRanges (t - t % batchSize) h))).blk b).otx.isEmpty) = false := by
  intro b hb
  have hfs := firstBlock_some hf
  simp only [applyPass]
  by_cases hfb : t - t % batchSize ≤ b
  · have hsel : (b - (t - t % batchSize)) / batchSize < numRanges (t - t % batchSize) h := by
      unfold numRanges
      have : (b - (t - t % batchSize)) / batchSize ≤ (h - (t - t % batchSize)) / batchSize :=
        Nat.div_le_div_right (by omega)
      omega
    simp only [hfb, hb, hsel, decide_true, and_self, if_true]
    obtain ⟨k', hk, hm⟩ := ingest_ok_fixed hc (hw b) (hi.2 b hb)
    rw [hk]; simp [hm.2.1]
  · have hbt : b < t := by omega
    simp only [hfb, false_and, if_false]
    exact hfs.2.2 b hbt

theorem migrate_uninterrupted {cfg : Cfg} (hc : cfg.overwriteMigrated = false) (hs : cfg.skipUnstoredEmpty = false)
    {orig : Orig} {h : Nat} {db : Db} (hw : WFOrig orig) (hi : Inv orig h db) :
    (migrate cfg db []).2 = .done := by
  -- an iteration on an image without old entries returns `done`
  have hfinal : ∀ db1 : Db, Inv orig h db1 → firstBlock db1 h (fun k => !k.otx.isEmpty) = none →
      (iteration cfg db1 h (.pass none)).2 = some .done := by
    intro db1 hi1 hf1
    unfold iteration
    simp only [getFirst_inv hw hi1, hf1, Option.map_none, hs, Bool.false_eq_true, if_false]
    obtain ⟨db'', h1, _⟩ := backfill_inv hw hi1 (fun b hb => by simpa using firstBlock_none hf1 b hb)
    rw [h1]
  unfold migrate
  rw [hi.1]
  simp only [migrateLoop]
  cases hf : firstBlock db h (fun k => !k.otx.isEmpty) with
  | none =>
    have := hfinal db hi hf
    split
    · rename_i db' r heq
      rw [heq] at this
      simp only at this ⊢
      injection this
    · rename_i db' heq
      rw [heq] at this
      cases this
  | some t =>
    have hit : iteration cfg db h (.pass none) =
        (applyPass cfg db (t - t % batchSize) h (fun i => decide (i < numRanges (t - t % batchSize) h)), none) := by
      unfold iteration
      simp only [getFirst_inv hw hi, hf, Option.map_some, passFails_fixed hc hw hi, Bool.false_eq_true, if_false,
        Option.getD_none, Nat.min_self, Nat.lt_irrefl]
    rw [hit]
    simp only []
    have hi1 := applyPass_inv (cfg := cfg) hc hw hi (t - t % batchSize) (fun i => decide (i < numRanges (t - t % batchSize) h))
    have hf1 : firstBlock (applyPass cfg db (t - t % batchSize) h (fun i => decide (i < numRanges (t - t % batchSize) h))) h
        (fun k => !k.otx.isEmpty) = none :=
      firstBlock_eq_none (p := fun k => !k.otx.isEmpty) (fullPass_noOld hc hw hi hf)
    have := hfinal _ hi1 hf1
    split
    · rename_i db' r heq
      rw [heq] at this
      simp only at this ⊢
      injection this
    · rename_i db' heq
      rw [heq] at this
      cases this


/-- `(shouldRerun, nil)` comes out of a loop iteration only when the environment's step is a cancellation. -/
theorem iteration_rerun_cancels (cfg : Cfg) (db : Db) (h : Nat) (st : Step)
    (hr : (iteration cfg db h st).2 = some .rerun) : st.cancels = true := by
  unfold iteration at hr
  cases st with
  | cancelHead => rfl
  | pass emit =>
    cases emit with
    | some k => rfl
    | none =>
      exfalso
      simp only [Option.getD_none, Nat.min_self, Nat.lt_irrefl, if_false] at hr
      repeat' split at hr
      all_goals simp at hr
  | passSkip emit sel =>
    cases emit with
    | some k => rfl
    | none =>
      exfalso
      simp only [Option.getD_none, Nat.min_self, Nat.lt_irrefl, if_false] at hr
      repeat' split at hr
      all_goals simp at hr
  | crash emit sel =>
    exfalso; simp only at hr
    repeat' split at hr
    all_goals simp at hr
  | writeFail emit sel =>
    exfalso; simp only at hr
    repeat' split at hr
    all_goals simp at hr
  | ingestError emit sel partials =>
    exfalso; simp only at hr
    repeat' split at hr
    all_goals simp at hr
  | crashFinal =>
    exfalso; simp only at hr
    repeat' split at hr
    all_goals simp at hr
  | crashClear =>
    exfalso; simp only at hr
    repeat' split at hr
    all_goals simp at hr
  | failClear =>
    exfalso; simp only at hr
    repeat' split at hr
    all_goals simp at hr

theorem migrateLoop_rerun_cancels (cfg : Cfg) (h : Nat) : ∀ (fuel : Nat) (db : Db) (steps : List Step),
    (migrateLoop cfg h fuel db steps).2 = .rerun → ∃ st ∈ steps, st.cancels = true := by
  intro fuel
  induction fuel with
  | zero => intro db steps hr; simp [migrateLoop] at hr
  | succ n ih =>
    intro db steps hr
    simp only [migrateLoop] at hr
    cases steps with
    | nil =>
      simp only at hr
      split at hr
      · rename_i db' r heq
        simp only at hr
        subst hr
        have := iteration_rerun_cancels cfg db h (.pass none) (by rw [heq])
        cases this
      · obtain ⟨st, hst, _⟩ := ih _ [] hr
        cases hst
    | cons s rest =>
      simp only at hr
      split at hr
      · rename_i db' r heq
        simp only at hr
        subst hr
        exact ⟨s, List.mem_cons_self, iteration_rerun_cancels cfg db h s (by rw [heq])⟩
      · obtain ⟨st, hst, hc⟩ := ih _ rest hr
        exact ⟨st, List.mem_cons_of_mem _ hst, hc⟩

/-- `Migrate` of block-transactions returns `(shouldRerun, nil)` only in a call during which the context
was cancelled (the model's step list contains a cancellation). -/
theorem migrate_rerun_cancels (cfg : Cfg) (db : Db) (steps : List Step)
    (hr : (migrate cfg db steps).2 = .rerun) : ∃ st ∈ steps, st.cancels = true := by
  unfold migrate at hr
  split at hr
  · cases hr
  · exact migrateLoop_rerun_cancels cfg _ 3 db steps hr

/-- A sequence of `Migrate` calls, each with its own interruption pattern (cancelled, crashed, …),
every one starting from the database the previous one left. -/
def attempts (cfg : Cfg) : Db → List (List Step) → Db
  | db, [] => db
  | db, s :: r => attempts cfg (migrate cfg db s).1 r

theorem attempts_inv {cfg : Cfg} (hc : cfg.overwriteMigrated = false) {orig : Orig} {h : Nat}
    (hw : WFOrig orig) : ∀ (att : List (List Step)) (db : Db), Inv orig h db →
    Inv orig h (attempts cfg db att) ∧ (∀ b, h < b → (attempts cfg db att).blk b = db.blk b) := by
  intro att
  induction att with
  | nil => intro db hi; exact ⟨hi, fun _ _ => rfl⟩
  | cons s r ih =>
    intro db hi
    simp only [attempts]
    have h1 := migrate_inv hc hw hi s
    have h2 := ih _ h1.1
    exact ⟨h2.1, fun b hb => by rw [h2.2 b hb, h1.2 b hb]⟩

theorem allMigrated_unique {orig : Orig} {h : Nat} {a b : Db} (ha : AllMigrated orig h a)
    (hb : AllMigrated orig h b) (hab : ∀ k, h < k → a.blk k = b.blk k) : a = b := by
  cases a with | mk ah ab =>
  cases b with | mk bh bb =>
  have h1 : ah = bh := by have := ha.1; have := hb.1; simp_all
  have h2 : ab = bb := by
    funext k
    by_cases hk : k ≤ h
    · have e1 := (ha.2 k hk).eq
      have e2 := (hb.2 k hk).eq
      simp only at e1 e2
      rw [e1, e2]
    · exact hab k (by omega)
  rw [h1, h2]

theorem migrate_done_allMigrated {cfg : Cfg} (hc : cfg.overwriteMigrated = false) (hs : cfg.skipUnstoredEmpty = false)
    {orig : Orig} {h : Nat} {db : Db} (hw : WFOrig orig) (hi : Inv orig h db) (steps : List Step)
    (hd : (migrate cfg db steps).2 = .done) : AllMigrated orig h (migrate cfg db steps).1 := by
  unfold migrate at hd ⊢
  rw [hi.1] at hd ⊢
  exact migrateLoop_done hc hs hw 3 db steps hi hd

/-- Any interruption pattern followed by an undisturbed rerun reaches the database of an
undisturbed run. -/
theorem resume_data {cfg : Cfg} (hc : cfg.overwriteMigrated = false) (hs : cfg.skipUnstoredEmpty = false)
    {orig : Orig} {h : Nat} {db : Db} (hw : WFOrig orig) (hi : Inv orig h db) (att : List (List Step)) :
    (migrate cfg (attempts cfg db att) []).2 = .done ∧
    (migrate cfg (attempts cfg db att) []).1 = (migrate cfg db []).1 := by
  have ha := attempts_inv hc hw att db hi
  have d1 := migrate_uninterrupted hc hs hw ha.1
  have d0 := migrate_uninterrupted hc hs hw hi
  refine ⟨d1, ?_⟩
  apply allMigrated_unique (migrate_done_allMigrated hc hs hw ha.1 [] d1) (migrate_done_allMigrated hc hs hw hi [] d0)
  intro k hk
  rw [(migrate_inv hc hw ha.1 []).2 k hk, ha.2 k hk, (migrate_inv hc hw hi []).2 k hk]


/-- Images reachable by graceful interruptions only (cancellation): the migrated blocks are the
ones below a batch-aligned mark `p`, except that empty blocks below the mark may have nothing
stored at all. -/
def PInv (orig : Orig) (h p : Nat) (db : Db) : Prop :=
  db.height = some h ∧ p % batchSize = 0 ∧
  ∀ b, b ≤ h →
    (b < p → (Migrated (orig b) (db.blk b) ∨ (orig b = ([], []) ∧ Unmigrated (orig b) (db.blk b)))) ∧
    (p ≤ b → Unmigrated (orig b) (db.blk b))

theorem PInv.inv {orig : Orig} {h p : Nat} {db : Db} (hp : PInv orig h p db) : Inv orig h db := by
  refine ⟨hp.1, ?_⟩
  intro b hb
  by_cases hlt : b < p
  · rcases (hp.2.2 b hb).1 hlt with h1 | ⟨_, h1⟩
    · exact .inr h1
    · exact .inl h1
  · exact .inl ((hp.2.2 b hb).2 (by omega))

/-- Cancellation only (no crash). -/
def Graceful : Step → Prop
  | .cancelHead => True
  | .pass _ => True
  | _ => False

theorem unmigrated_noOld_empty {o : Content} {k : Blk} (hw : o.1.length = o.2.length)
    (hu : Unmigrated o k) (hno : (!k.otx.isEmpty) = false) : o = ([], []) := by
  have h1 : o.1 = [] := by
    have := hu.2.1; rw [this] at hno; simpa using hno
  have h2 : o.2 = [] := by rw [h1] at hw; exact List.length_eq_zero_iff.mp hw.symm
  exact Prod.ext h1 h2

theorem iteration_pinv {cfg : Cfg} (hs : cfg.skipUnstoredEmpty = true) {orig : Orig} {h p : Nat} {db : Db}
    (hw : WFOrig orig) (hp : PInv orig h p db) (st : Step) (hg : Graceful st) :
    (∃ p', PInv orig h p' (iteration cfg db h st).1) ∧
    ((iteration cfg db h st).2 = some .done →
      ∀ b, b ≤ h → orig b ≠ ([], []) → Migrated (orig b) ((iteration cfg db h st).1.blk b)) := by
  have hi := hp.inv
  unfold iteration
  cases st with
  | cancelHead => exact ⟨⟨p, hp⟩, by simp⟩
  | crash _ _ => cases hg
  | writeFail _ _ => cases hg
  | ingestError _ _ _ => cases hg
  | crashFinal => cases hg
  | passSkip _ _ => cases hg
  | crashClear => cases hg
  | failClear => cases hg
  | pass emit =>
    simp only [getFirst_inv hw hi]
    cases hf : firstBlock db h (fun k => !k.otx.isEmpty) with
    | none =>
      simp only [Option.map_none, hs, if_true]
      refine ⟨⟨p, hp⟩, ?_⟩
      intro _ b hb hne
      have hno := firstBlock_none hf b hb
      by_cases hlt : b < p
      · rcases (hp.2.2 b hb).1 hlt with h1 | ⟨h1, _⟩
        · exact h1
        · exact absurd h1 hne
      · exact absurd (unmigrated_noOld_empty (hw b) ((hp.2.2 b hb).2 (by omega)) hno) hne
    | some t =>
      have hfs := firstBlock_some hf
      have htp : p ≤ t := by
        apply Classical.byContradiction
        intro hlt
        have hlt : t < p := by omega
        rcases (hp.2.2 t hfs.1).1 hlt with h1 | ⟨h0, h1⟩
        · have := hfs.2.1; rw [h1.2.1] at this; simp at this
        · have := hfs.2.1; rw [h1.2.1, h0] at this; simp at this
      have hpm := hp.2.1
      have hfp : p ≤ t - t % batchSize := by
        simp only [batchSize] at hpm ⊢; omega
      have hfm : (t - t % batchSize) % batchSize = 0 := by simp only [batchSize]; omega
      -- no block of an emitted range fails: they are all unmigrated
      have hpf : ∀ e, passFails cfg db (t - t % batchSize) h e = false := by
        intro e
        unfold passFails
        rw [List.any_eq_false]
        intro b hb
        have hbh : b ≤ h := by have := List.mem_range.mp hb; omega
        by_cases hfb : t - t % batchSize ≤ b
        · obtain ⟨k', hk, _⟩ := ingest_unmigrated cfg (orig b) (db.blk b) (hw b) ((hp.2.2 b hbh).2 (by omega))
          rw [hk]; simp
        · simp [hfb]
      simp only [Option.map_some, hpf, Bool.false_eq_true, if_false]
      -- the image after the pass
      have hpass : ∀ e, PInv orig h ((t - t % batchSize) + batchSize * e)
          (applyPass cfg db (t - t % batchSize) h (fun i => decide (i < e))) := by
        intro e
        refine ⟨hp.1, by simp only [batchSize] at hfm ⊢; omega, ?_⟩
        intro b hb
        simp only [applyPass]
        by_cases hfb : t - t % batchSize ≤ b
        · have hun := (hp.2.2 b hb).2 (by omega)
          by_cases hsel : (b - (t - t % batchSize)) / batchSize < e
          · simp only [hfb, hb, hsel, decide_true, and_self, if_true]
            obtain ⟨k', hk, hm⟩ := ingest_unmigrated cfg (orig b) (db.blk b) (hw b) hun
            rw [hk]
            refine ⟨fun _ => .inl hm, ?_⟩
            intro hge
            exfalso
            have : (b - (t - t % batchSize)) / batchSize * batchSize ≤ b - (t - t % batchSize) := Nat.div_mul_le_self _ _
            simp only [batchSize] at *
            omega
          · simp only [hsel, decide_false, Bool.false_eq_true, and_false, if_false]
            refine ⟨?_, fun _ => hun⟩
            intro hlt
            exfalso
            have : b - (t - t % batchSize) < batchSize * ((b - (t - t % batchSize)) / batchSize + 1) := Nat.lt_mul_div_succ _ (by simp [batchSize])
            simp only [batchSize] at *
            have h2 : (b - (t - t % 10)) / 10 + 1 ≤ e := by omega
            have h3 : 10 * ((b - (t - t % 10)) / 10 + 1) ≤ 10 * e := Nat.mul_le_mul_left 10 h2
            omega
        · simp only [hfb, false_and, if_false]
          have hbt : b < t := by omega
          have hno := hfs.2.2 b hbt
          refine ⟨fun _ => ?_, fun hge => absurd hge (by omega)⟩
          by_cases hlt : b < p
          · exact (hp.2.2 b hb).1 hlt
          · have hun := (hp.2.2 b hb).2 (by omega)
            exact .inr ⟨unmigrated_noOld_empty (hw b) hun hno, hun⟩
      split
      · exact ⟨⟨_, hpass _⟩, by simp⟩
      · exact ⟨⟨_, hpass _⟩, by simp⟩


theorem migrateLoop_pinv {cfg : Cfg} (hs : cfg.skipUnstoredEmpty = true) {orig : Orig} {h : Nat}
    (hw : WFOrig orig) : ∀ (fuel : Nat) (db : Db) (steps : List Step) (p : Nat), PInv orig h p db →
    (∀ st ∈ steps, Graceful st) →
    (∃ p', PInv orig h p' (migrateLoop cfg h fuel db steps).1) ∧
    ((migrateLoop cfg h fuel db steps).2 = .done →
      ∀ b, b ≤ h → orig b ≠ ([], []) → Migrated (orig b) ((migrateLoop cfg h fuel db steps).1.blk b)) := by
  intro fuel
  induction fuel with
  | zero => intro db steps p hp _; exact ⟨⟨p, hp⟩, by simp [migrateLoop]⟩
  | succ n ih =>
    intro db steps p hp hg
    simp only [migrateLoop]
    have key : ∀ st rest, Graceful st → (∀ s ∈ rest, Graceful s) →
        (∃ p', PInv orig h p' (match iteration cfg db h st with
          | (db', some r) => (db', r)
          | (db', none) => migrateLoop cfg h n db' rest).1) ∧
        ((match iteration cfg db h st with
          | (db', some r) => (db', r)
          | (db', none) => migrateLoop cfg h n db' rest).2 = .done →
          ∀ b, b ≤ h → orig b ≠ ([], []) → Migrated (orig b) ((match iteration cfg db h st with
          | (db', some r) => (db', r)
          | (db', none) => migrateLoop cfg h n db' rest).1.blk b)) := by
      intro st rest hgs hgr
      have h1 := iteration_pinv hs hw hp st hgs
      split
      · rename_i db' r heq
        rw [heq] at h1
        refine ⟨h1.1, ?_⟩
        intro hd
        simp only at hd
        subst hd
        exact h1.2 rfl
      · rename_i db' heq
        rw [heq] at h1
        obtain ⟨p', hp'⟩ := h1.1
        exact ih db' rest p' hp' hgr
    cases steps with
    | nil => exact key _ _ trivial (by simp)
    | cons s r => exact key _ _ (hg s List.mem_cons_self) (fun x hx => hg x (List.mem_cons_of_mem _ hx))

theorem migrate_pinv {cfg : Cfg} (hs : cfg.skipUnstoredEmpty = true) {orig : Orig} {h p : Nat} {db : Db}
    (hw : WFOrig orig) (hp : PInv orig h p db) (steps : List Step) (hg : ∀ st ∈ steps, Graceful st) :
    (∃ p', PInv orig h p' (migrate cfg db steps).1) ∧
    ((migrate cfg db steps).2 = .done →
      ∀ b, b ≤ h → orig b ≠ ([], []) → Migrated (orig b) ((migrate cfg db steps).1.blk b)) := by
  unfold migrate
  rw [hp.1]
  exact migrateLoop_pinv hs hw 3 db steps p hp hg

theorem attempts_pinv {cfg : Cfg} (hs : cfg.skipUnstoredEmpty = true) {orig : Orig} {h : Nat}
    (hw : WFOrig orig) : ∀ (att : List (List Step)) (db : Db) (p : Nat), PInv orig h p db →
    (∀ steps ∈ att, ∀ st ∈ steps, Graceful st) → ∃ p', PInv orig h p' (attempts cfg db att) := by
  intro att
  induction att with
  | nil => intro db p hp _; exact ⟨p, hp⟩
  | cons s r ih =>
    intro db p hp hg
    simp only [attempts]
    obtain ⟨p', hp'⟩ := (migrate_pinv hs hw hp s (hg s List.mem_cons_self)).1
    exact ih _ p' hp' (fun x hx => hg x (List.mem_cons_of_mem _ hx))

/-- The database as the previous layout wrote it. -/
def AllOld (orig : Orig) (h : Nat) (db : Db) : Prop :=
  db.height = some h ∧ ∀ b, b ≤ h → Unmigrated (orig b) (db.blk b)

theorem AllOld.pinv {orig : Orig} {h : Nat} {db : Db} (ha : AllOld orig h db) : PInv orig h 0 db :=
  ⟨ha.1, by simp, fun b hb => ⟨fun hlt => absurd hlt (by omega), fun _ => ha.2 b hb⟩⟩

theorem AllOld.inv {orig : Orig} {h : Nat} {db : Db} (ha : AllOld orig h db) : Inv orig h db :=
  ha.pinv.inv


/-- Every block with transactions is migrated; an empty block is migrated or has nothing stored. -/
def NonEmptyMigrated (orig : Orig) (h : Nat) (db : Db) : Prop :=
  db.height = some h ∧ ∀ b, b ≤ h →
    (orig b ≠ ([], []) → Migrated (orig b) (db.blk b)) ∧
    (orig b = ([], []) → Migrated (orig b) (db.blk b) ∨ Unmigrated (orig b) (db.blk b))

theorem noOld_nonEmptyMigrated {orig : Orig} {h : Nat} {db : Db} (hw : WFOrig orig) (hi : Inv orig h db)
    (hno : ∀ b, b ≤ h → (!(db.blk b).otx.isEmpty) = false) : NonEmptyMigrated orig h db := by
  refine ⟨hi.1, ?_⟩
  intro b hb
  rcases hi.2 b hb with hu | hm
  · have he := unmigrated_noOld_empty (hw b) hu (hno b hb)
    exact ⟨fun hne => absurd he hne, fun _ => .inr hu⟩
  · exact ⟨fun _ => hm, fun _ => .inl hm⟩

theorem AllMigrated.nonEmpty {orig : Orig} {h : Nat} {db : Db} (ha : AllMigrated orig h db) :
    NonEmptyMigrated orig h db :=
  ⟨ha.1, fun b hb => ⟨fun _ => ha.2 b hb, fun _ => .inl (ha.2 b hb)⟩⟩

theorem iteration_done_any {cfg : Cfg} (hc : cfg.overwriteMigrated = false)
    {orig : Orig} {h : Nat} {db : Db} (hw : WFOrig orig) (hi : Inv orig h db) (st : Step)
    (hd : (iteration cfg db h st).2 = some .done) : NonEmptyMigrated orig h (iteration cfg db h st).1 := by
  cases hs : cfg.skipUnstoredEmpty with
  | false => exact (iteration_done hc hs hw hi st hd).nonEmpty
  | true =>
    unfold iteration at hd ⊢
    cases st with
    | cancelHead => simp at hd
    | pass emit =>
      simp only [getFirst_inv hw hi] at hd ⊢
      cases hf : firstBlock db h (fun k => !k.otx.isEmpty) with
      | none =>
        simp only [Option.map_none, hs, if_true]
        exact noOld_nonEmptyMigrated hw hi (fun b hb => firstBlock_none hf b hb)
      | some t =>
        simp only [hf, Option.map_some, passFails_fixed hc hw hi, Bool.false_eq_true, if_false] at hd
        split at hd <;> simp at hd
    | crash emit sel =>
      simp only [getFirst_inv hw hi] at hd
      cases hf : firstBlock db h (fun k => !k.otx.isEmpty) <;> simp [hf] at hd
    | ingestError emit sel partials =>
      simp only [getFirst_inv hw hi] at hd
      cases hf : firstBlock db h (fun k => !k.otx.isEmpty) <;> simp [hf] at hd
    | writeFail emit sel =>
      simp only [getFirst_inv hw hi] at hd
      cases hf : firstBlock db h (fun k => !k.otx.isEmpty) <;> simp [hf] at hd
    | crashFinal =>
      simp only [getFirst_inv hw hi] at hd
      cases hf : firstBlock db h (fun k => !k.otx.isEmpty) <;> simp [hf] at hd
    | passSkip emit sel =>
      simp only [getFirst_inv hw hi] at hd ⊢
      cases hf : firstBlock db h (fun k => !k.otx.isEmpty) with
      | none =>
        simp only [Option.map_none, hs, if_true]
        exact noOld_nonEmptyMigrated hw hi (fun b hb => firstBlock_none hf b hb)
      | some t =>
        simp only [hf, Option.map_some, passFails_fixed hc hw hi, Bool.false_eq_true, if_false] at hd
        split at hd <;> simp at hd
    | crashClear =>
      simp only [getFirst_inv hw hi] at hd
      cases hf : firstBlock db h (fun k => !k.otx.isEmpty) <;> simp [hf, hs] at hd
    | failClear =>
      simp only [getFirst_inv hw hi] at hd
      cases hf : firstBlock db h (fun k => !k.otx.isEmpty) <;> simp [hf, hs] at hd

theorem migrateLoop_done_any {cfg : Cfg} (hc : cfg.overwriteMigrated = false)
    {orig : Orig} {h : Nat} (hw : WFOrig orig) : ∀ (fuel : Nat) (db : Db) (steps : List Step), Inv orig h db →
    (migrateLoop cfg h fuel db steps).2 = .done → NonEmptyMigrated orig h (migrateLoop cfg h fuel db steps).1 := by
  intro fuel
  induction fuel with
  | zero => intro db steps hi hd; simp [migrateLoop] at hd
  | succ n ih =>
    intro db steps hi
    simp only [migrateLoop]
    have key : ∀ st rest, (match iteration cfg db h st with
        | (db', some r) => (db', r)
        | (db', none) => migrateLoop cfg h n db' rest).2 = .done →
        NonEmptyMigrated orig h (match iteration cfg db h st with
        | (db', some r) => (db', r)
        | (db', none) => migrateLoop cfg h n db' rest).1 := by
      intro st rest
      have h1 := iteration_inv hc hw hi st
      have h2 := iteration_done_any hc hw hi st
      split
      · rename_i db' r heq
        rw [heq] at h2
        intro hd
        simp only at hd
        subst hd
        exact h2 rfl
      · rename_i db' heq
        rw [heq] at h1
        exact ih db' rest h1.1
    cases steps with
    | nil => exact key _ _
    | cons s r => exact key _ _

theorem migrate_done_any {cfg : Cfg} (hc : cfg.overwriteMigrated = false)
    {orig : Orig} {h : Nat} {db : Db} (hw : WFOrig orig) (hi : Inv orig h db) (steps : List Step)
    (hd : (migrate cfg db steps).2 = .done) : NonEmptyMigrated orig h (migrate cfg db steps).1 := by
  unfold migrate at hd ⊢
  rw [hi.1] at hd ⊢
  exact migrateLoop_done_any hc hw 3 db steps hi hd

/-- Left alone, `Migrate` returns `(nil, nil)` from every image satisfying `Inv` (either variant of
the final step). -/
theorem migrate_uninterrupted_any {cfg : Cfg} (hc : cfg.overwriteMigrated = false)
    {orig : Orig} {h : Nat} {db : Db} (hw : WFOrig orig) (hi : Inv orig h db) :
    (migrate cfg db []).2 = .done := by
  cases hs : cfg.skipUnstoredEmpty with
  | false => exact migrate_uninterrupted hc hs hw hi
  | true =>
    have hfinal : ∀ db1 : Db, Inv orig h db1 → firstBlock db1 h (fun k => !k.otx.isEmpty) = none →
        (iteration cfg db1 h (.pass none)).2 = some .done := by
      intro db1 hi1 hf1
      unfold iteration
      simp only [getFirst_inv hw hi1, hf1, Option.map_none, hs, if_true]
    unfold migrate
    rw [hi.1]
    simp only [migrateLoop]
    cases hf : firstBlock db h (fun k => !k.otx.isEmpty) with
    | none =>
      have := hfinal db hi hf
      split
      · rename_i db' r heq
        rw [heq] at this
        simp only at this ⊢
        injection this
      · rename_i db' heq
        rw [heq] at this
        cases this
    | some t =>
      have hit : iteration cfg db h (.pass none) =
          (applyPass cfg db (t - t % batchSize) h (fun i => decide (i < numRanges (t - t % batchSize) h)), none) := by
        unfold iteration
        simp only [getFirst_inv hw hi, hf, Option.map_some, passFails_fixed hc hw hi, Bool.false_eq_true, if_false,
          Option.getD_none, Nat.min_self, Nat.lt_irrefl]
      rw [hit]
      simp only []
      have hi1 := applyPass_inv (cfg := cfg) hc hw hi (t - t % batchSize) (fun i => decide (i < numRanges (t - t % batchSize) h))
      have hf1 : firstBlock (applyPass cfg db (t - t % batchSize) h (fun i => decide (i < numRanges (t - t % batchSize) h))) h
          (fun k => !k.otx.isEmpty) = none :=
        firstBlock_eq_none (p := fun k => !k.otx.isEmpty) (fullPass_noOld hc hw hi hf)
      have := hfinal _ hi1 hf1
      split
      · rename_i db' r heq
        rw [heq] at this
        simp only at this ⊢
        injection this
      · rename_i db' heq
        rw [heq] at this
        cases this


/-- Two blocks agree except possibly for the combined entry. -/
def SameButBlob (x y : Blk) : Prop := x.hdr = y.hdr ∧ x.otx = y.otx ∧ x.orc = y.orc

theorem nonEmptyMigrated_agree {orig : Orig} {h : Nat} {a b : Db}
    (ha : NonEmptyMigrated orig h a) (hb : NonEmptyMigrated orig h b) (k : Nat) (hk : k ≤ h) :
    (orig k ≠ ([], []) → a.blk k = b.blk k) ∧
    (orig k = ([], []) → SameButBlob (a.blk k) (b.blk k) ∧
      ((a.blk k).blob = none ∨ (a.blk k).blob = some ([], [])) ∧
      ((b.blk k).blob = none ∨ (b.blk k).blob = some ([], []))) := by
  refine ⟨fun hne => ?_, fun he => ?_⟩
  · rw [((ha.2 k hk).1 hne).eq, ((hb.2 k hk).1 hne).eq]
  · have shape : ∀ (x : Blk), (Migrated (orig k) x ∨ Unmigrated (orig k) x) →
        x.hdr = some 0 ∧ x.otx = [] ∧ x.orc = [] ∧ (x.blob = none ∨ x.blob = some ([], [])) := by
      intro x hx
      rcases hx with m | u
      · refine ⟨by rw [m.1, he]; rfl, m.2.1, m.2.2.1, .inr (by rw [m.2.2.2, he])⟩
      · refine ⟨by rw [u.1, he]; rfl, by rw [u.2.1, he], by rw [u.2.2.1, he], ?_⟩
        rcases u.2.2.2 with u0 | u0
        · exact .inl u0
        · exact .inr (by rw [u0, he])
    obtain ⟨a1, a2, a3, a4⟩ := shape _ ((ha.2 k hk).2 he)
    obtain ⟨b1, b2, b3, b4⟩ := shape _ ((hb.2 k hk).2 he)
    exact ⟨⟨by rw [a1, b1], by rw [a2, b2], by rw [a3, b3]⟩, a4, b4⟩

/-- Current code: any interruption pattern followed by an undisturbed rerun reaches the database of
an undisturbed run EXCEPT for the combined entry of empty blocks, which is present (empty) or absent
depending on the history. -/
theorem resume_data_partial {cfg : Cfg} (hc : cfg.overwriteMigrated = false)
    {orig : Orig} {h : Nat} {db : Db} (hw : WFOrig orig) (hi : Inv orig h db) (att : List (List Step)) :
    (migrate cfg (attempts cfg db att) []).2 = .done ∧ (migrate cfg db []).2 = .done ∧
    (∀ k, h < k → (migrate cfg (attempts cfg db att) []).1.blk k = (migrate cfg db []).1.blk k) ∧
    ∀ k, k ≤ h →
      (orig k ≠ ([], []) → (migrate cfg (attempts cfg db att) []).1.blk k = (migrate cfg db []).1.blk k) ∧
      (orig k = ([], []) →
        SameButBlob ((migrate cfg (attempts cfg db att) []).1.blk k) ((migrate cfg db []).1.blk k) ∧
        (((migrate cfg (attempts cfg db att) []).1.blk k).blob = none ∨
          ((migrate cfg (attempts cfg db att) []).1.blk k).blob = some ([], [])) ∧
        (((migrate cfg db []).1.blk k).blob = none ∨ ((migrate cfg db []).1.blk k).blob = some ([], []))) := by
  have ha := attempts_inv hc hw att db hi
  have d1 := migrate_uninterrupted_any hc hw ha.1
  have d0 := migrate_uninterrupted_any hc hw hi
  refine ⟨d1, d0, ?_, ?_⟩
  · intro k hk
    rw [(migrate_inv hc hw ha.1 []).2 k hk, ha.2 k hk, (migrate_inv hc hw hi []).2 k hk]
  · intro k hk
    exact nonEmptyMigrated_agree (migrate_done_any hc hw ha.1 [] d1) (migrate_done_any hc hw hi [] d0) k hk


end Juno.C18.BlockTx
