import JunoModel.C18.Model
import JunoModel.C18.ModelBlockTx
namespace Juno.C18.Props
open Juno.C18

/-- placeholder while the proofs are being written -/
theorem target_nil : Registry.target [] = 0#64 := rfl

end Juno.C18.Props
