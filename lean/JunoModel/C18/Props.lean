import JunoModel.C18.ProofsRunner
import JunoModel.C18.ProofsOpen
import JunoModel.C18.ProofsBlockTx
import JunoModel.C18.ProofsSDL
import JunoModel.C18.ProofsHS
import JunoModel.C18.ProofsPipe
import JunoModel.C18.ProofsPruner
import JunoModel.C18.ProofsCompose
import JunoModel.C18.ProofsWhy
import JunoModel.C18.ProofsNode
/-!
C18 — property theorems (statements only; helper lemmas are in `ProofsSV`, `ProofsRunner`, `ProofsOpen`
(NewRunner's errors, read faults, histories), `ProofsBlockTx`, `ProofsSDL`, `ProofsHS`, `ProofsPipe`, `ProofsPruner`,
`ProofsCompose` (runner × data model), `ProofsWhy` (round 5: the index `Run`'s error names, `String`, the last-target
record over histories)). Every theorem in this module is an obligation listed in evidence/C18.json.

THE MODEL IS THE CURRENT TREE (all recorded C18 defects are repaired in /repo: b4577f2, 69981ea,
edddfcf, 197b4fe, 2d815bd, 322dd0d, 459a03c, dfe482d, 00e70b8, 1b3416d). The models still carry one
flag per repaired defect (`Cfg`, `BlockTx.Cfg`, `Pruner.Cfg`, the `guard` of `Pruner.finish`): `false`
(`Cfg.fixed`, the default of the driver — the harness has no way to select another variant) is the
code as it is; `true` is the code BEFORE the named commit and exists only so that the regression
witnesses `*_before_<sha>` can be stated: each is the proved negation of the full statement on the
old variant, with the concrete witness the harness replays against the real code (a regression of
the fix makes that replay an unlisted VIOLATION). Theorems about what still held on the old
variants (`_partial`) are not obligations any more; they live in `Regression.lean`.
-/
namespace Juno.C18.Props
open Juno.C18

/-! ## `SchemaVersion` is a set of migration indices -/

/-- `Has`, `Set`, `Difference`, `Contains`, `Iter` are membership, insertion (of an index < 64),
set difference, inclusion and ascending enumeration. -/
theorem schemaVersion_set_semantics (a b : SV) (i j : Nat) :
    SV.has (SV.set a i) j = (SV.has a j || (decide (j = i) && decide (i < 64))) ∧
    SV.has (SV.diff a b) j = (SV.has a j && !SV.has b j) ∧
    (SV.contains a b = true ↔ ∀ k, SV.has b k = true → SV.has a k = true) ∧
    (j ∈ SV.iter a ↔ SV.has a j = true) ∧ (SV.iter a).Pairwise (· < ·) :=
  ⟨SV.has_set a i j, SV.has_diff a b j, SV.contains_iff a b, SV.mem_iter a j, SV.iter_sorted a⟩

/-- `Iter` as written in version.go (trailing-zeros walk: `offset`, `n >>= offset+1`, `idx += offset+1`)
yields exactly the set bits in ascending order, for every 64-bit value. -/
theorem iter_transcription_correct (s : SV) : SV.iterGo s = SV.iter s :=
  SV.iterGo_eq_iter s

/-- The target has bit `j` iff migration `j` is registered and mandatory or enabled. -/
theorem target_spec (r : Registry) (hr : r.ok = true) (j : Nat) :
    SV.has r.target j = (r[j]?.map Entry.inTarget).getD false :=
  has_target r hr j

/-- `String` (`fmt.Sprintf("SchemaVersion(0b%064b)", sv)`, what the logs and error texts show): always 64
binary digits, digit `63 - i` from the left is `1` exactly when migration `i` is in the set, and the
printed digits determine the value (two different versions never print alike). -/
theorem schemaVersion_string_faithful (a b : SV) (i : Nat) (hi : i < 64) :
    (SV.digits a).length = 64 ∧
    (SV.digits a)[63 - i]? = some (if SV.has a i then '1' else '0') ∧
    (SV.digits a = SV.digits b → a = b) ∧
    SV.toStr a = "SchemaVersion(0b" ++ String.ofList (SV.digits a) ++ ")" :=
  ⟨SV.digits_length a, SV.digits_get a i hi, SV.digits_inj a b, rfl⟩

/-! ## A migration is recorded as applied only after it has completed -/

/-- FULL STRENGTH (repaired runner: `markOnNilCtx = false`). For every initial disk, every history
of starts (any registries, any behaviour of the migrations, cancellation and crash at any tick):
a migration recorded as applied at the end was applied at the beginning or its `Migrate` returned
`(nil, nil)` during the history. -/
theorem applied_implies_complete (cfg : Cfg) (hfix : cfg.markOnNilCtx = false) (d : Disk)
    (sts : List Start) (j : Nat) (h : (starts cfg d sts).1.cur.has j = true) :
    d.cur.has j = true ∨ Completed (starts cfg d sts).2 j := by
  rcases starts_applied cfg sts d j h with h1 | h1 | ⟨h1, _⟩
  · exact .inl h1
  · exact .inr h1
  · rw [hfix] at h1; cases h1

/-- … and IN THE SAME START (the reviewer's item (b), exported from the loop invariant `BehQ`): whenever a
start records migration `j` as applied (`apply j` in its log: the commit of the bit together with the
deletion of the token), `Migrate` of `j` was called in THAT start and returned `(nil, nil)` in it —
never on the strength of a return of an earlier start, a stored token, or another migration's return. -/
theorem applied_in_the_start_that_completed_it (cfg : Cfg) (hfix : cfg.markOnNilCtx = false) (d : Disk)
    (st : Start) (j : Nat) (h : Event.apply j ∈ (start cfg d st).2.1) :
    (st.env.beh j).st = none ∧ (st.env.beh j).err = .none ∧ (∃ c, Event.call j c ∈ (start cfg d st).2.1) ∧
    d.cur.has j = false := by
  obtain ⟨h1, h2, c, h3⟩ := (start_beh cfg d st).1 j h
  refine ⟨h1, ?_, ⟨c, h3⟩, ((start_calls cfg d st).2 j c h3).2.1⟩
  rcases h2 with h2 | ⟨h2, _⟩
  · exact h2
  · rw [hfix] at h2; cases h2

/-- One mandatory migration that blocks until cancellation (tick 3 = its `Migrate` call) and
returns `(nil, wrapped ctx.Err())`. -/
def l9Start : Start := ⟨[⟨false, false⟩], ⟨fun _ => ⟨false, none, .ctx⟩, 3, 999, 0, false, fun _ => false⟩⟩
def freshDisk : Disk := ⟨none, fun _ => none⟩

/-- REGRESSION WITNESS for the defect fixed by 69981ea (the model's `markOnNilCtx = true` variant no
longer exists in /repo): the bit is set although
`Migrate` never returned `(nil, nil)`. -/
theorem applied_without_completion_before_69981ea :
    (starts Cfg.pinned freshDisk [l9Start]).1.cur.has 0 = true ∧ freshDisk.cur.has 0 = false ∧
    ¬ Completed (starts Cfg.pinned freshDisk [l9Start]).2 0 := by
  refine ⟨by decide, by decide, ?_⟩
  rintro ⟨c, hc⟩
  cases c <;> revert hc <;> decide

/-- The applied bit is committed atomically with the deletion of the resume token: if no applied
migration has a token initially, none has after any history. -/
theorem applied_clears_intermediate_state (cfg : Cfg) (d : Disk) (sts : List Start) (hd : d.Clean) :
    (starts cfg d sts).1.Clean :=
  starts_clean cfg sts d hd

/-- Reachability: every disk produced from a fresh database by any history of starts (cancelled,
crashed, failed writes, any registries) satisfies the exclusion invariant that `resume_same_result`
assumes of its initial disk. -/
theorem reachable_disk_clean (cfg : Cfg) (sts : List Start) : (starts cfg freshDisk sts).1.Clean :=
  starts_clean cfg sts freshDisk (fun j h => by
    have : freshDisk.cur = 0#64 := rfl
    rw [this, SV.has_zero] at h; cases h)

/-- Applied bits are never cleared. -/
theorem applied_is_permanent (cfg : Cfg) (d : Disk) (sts : List Start) (j : Nat)
    (h : d.cur.has j = true) : (starts cfg d sts).1.cur.has j = true :=
  starts_mono cfg sts d j h

/-! ## Each pending migration runs once and in order -/

/-- In one start (from ANY disk, so from every reachable one): the `Migrate` calls happen in
strictly increasing index order (hence each at most once per run); a migration is called only if
it is in the target and was not applied at the start (hence never again once applied) nor at the
moment of the call; and when migration `j` is called, every target migration `i < j` is applied at
that moment — unless `i` returned a resume state WITHOUT an error while the context was still live
(`InProg`; round 5: narrowed from "a resume state with any error class" — a state returned together
with an error and a live context stops the run, so it can never precede a later call). -/
theorem once_in_order (cfg : Cfg) (d : Disk) (st : Start) :
    (callIdxs (start cfg d st).2.1).Pairwise (· > ·) ∧
    ∀ j c, Event.call j c ∈ (start cfg d st).2.1 →
      st.reg.target.has j = true ∧ d.cur.has j = false ∧ c.has j = false ∧
      (∀ i, i < j → st.reg.target.has i = true → c.has i = true ∨ InProg (start cfg d st).2.1 i) :=
  start_calls cfg d st

/-- Consequence for migrations that return `(state, nil)` only when cancelled (all migrations
registered in node/migration.go do: blocktransactions from `ctx.Done()` / a source cut short,
statedifflength and the pruner from `!res.IsDone`, headstate never — it returns the state with the
wrapped context error): strictly in order. Round 5: the hypothesis speaks only of returns WITHOUT an
error (`.none`); what a migration returns together with an error is irrelevant for the order. -/
theorem in_order_when_state_only_on_cancel (cfg : Cfg) (d : Disk) (st : Start)
    (hwb : ∀ i s c, Event.ret i (some s) .none c ∈ (start cfg d st).2.1 → c = true)
    (j : Nat) (c : SV) (hc : Event.call j c ∈ (start cfg d st).2.1) (i : Nat) (hi : i < j)
    (ht : st.reg.target.has i = true) : c.has i = true := by
  rcases (start_calls cfg d st).2 j c hc |>.2.2.2 i hi ht with h | ⟨s, h⟩
  · exact h
  · have := hwb i s false h; cases this

/-- ONCE, over whole histories: as soon as a migration is recorded as applied (after any prefix `pre` of
the history) its `Migrate` is never called again — in no later start, whatever happens in between
(`mid`: restarts with other registries, crashes, cancellations, failed writes and reads). -/
theorem applied_migration_never_called_again (cfg : Cfg) (d : Disk) (pre mid : List Start) (st : Start) (j : Nat)
    (h : (starts cfg d pre).1.cur.has j = true) (c : SV) :
    Event.call j c ∉ (start cfg (starts cfg d (pre ++ mid)).1 st).2.1 :=
  no_call_after_applied cfg d pre mid st j h c

/-- WHICH MIGRATION `Run`'S ERROR NAMES ("running migration at index i: …"; both variants, every registry,
script, cancellation / death / failed-write / failed-read tick): the index is that of a migration of the
target that was pending at the start and is STILL not recorded as applied; `Run` did not return nil;
and every target migration below it is applied or (contract of the runner) returned `(state, nil)`
with a live context. So the error never points at a migration that is done, and nothing above the
named index has been touched (`once_in_order`). -/
theorem run_error_names_the_migration_that_stopped (cfg : Cfg) (reg : Registry) (env : Env) (d : Disk) (i : Nat)
    (hi : runStopIdx cfg reg env d = some i) :
    reg.target.has i = true ∧ d.cur.has i = false ∧ (run cfg reg env d).1.disk.cur.has i = false ∧
    (run cfg reg env d).2 ≠ .ok ∧
    (∀ k, k < i → reg.target.has k = true →
      (run cfg reg env d).1.disk.cur.has k = true ∨ InProg (run cfg reg env d).1.log k) :=
  run_stop cfg reg env d i hi

/-- Two mandatory migrations; the first returns `(state, nil)` with a live context. -/
def inProgStart : Start := ⟨[⟨false, false⟩, ⟨false, false⟩], ⟨fun i => if i = 0 then ⟨false, some [], .none⟩ else ⟨false, none, .none⟩, 999, 999, 0, false, fun _ => false⟩⟩

/-- Without that hypothesis the order can be broken (this is the runner's documented contract,
runner_test.go "Migration with intermediate state", not a defect of a registered migration):
migration 1 is called and applied while migration 0 is still in progress. -/
theorem out_of_order_when_state_returned_live :
    Event.call 1 (0#64) ∈ (start Cfg.pinned freshDisk inProgStart).2.1 ∧
    (start Cfg.pinned freshDisk inProgStart).1.cur = 2#64 := by decide

/-! ## Downgrade and opt-out are refused -/

/-- FULL STRENGTH (repaired `NewRunner`: `ignoreUnknownLast = false`): a database is accepted iff
every applied migration and every previously targeted (opted-into) migration is in this binary's
target. -/
theorem downgrade_and_optout_refused (cfg : Cfg) (hfix : cfg.ignoreUnknownLast = false) (reg : Registry) (d : Disk) :
    newRunner cfg reg d = .ok ↔
      (∀ j, d.cur.has j = true → reg.target.has j = true) ∧
      (∀ j, d.last.has j = true → reg.target.has j = true) := by
  rw [newRunner_ok_iff, validateNoOptOut_fixed cfg hfix, validateNoVersionDowngrade_iff]
  exact ⟨fun h => ⟨h.2, h.1⟩, fun h => ⟨h.2, h.1⟩⟩

/-- REGRESSION WITNESS for the defect fixed by edddfcf: a newer binary targeted
migration 2 (LastTarget = 0b111) and has not completed it (Current = 0b011); the binary with two
migrations accepts the database. -/
theorem unknown_last_target_accepted_before_edddfcf :
    newRunner Cfg.pinned [⟨false, false⟩, ⟨false, false⟩] ⟨some ⟨3#64, 7#64⟩, fun _ => none⟩ = .ok ∧
    SV.has (7#64) 2 = true ∧ (Registry.target [⟨false, false⟩, ⟨false, false⟩]).has 2 = false := by decide

/-- A binary that lacks an applied migration (index beyond its registry) refuses the database,
in both variants; and a refused database is left untouched. -/
theorem missing_applied_migration_refused (cfg : Cfg) (reg : Registry) (hr : reg.ok = true) (d : Disk) (j : Nat)
    (hj : d.cur.has j = true) (hlen : reg.length ≤ j) (st : Start) (hst : st.reg = reg) :
    newRunner cfg reg d ≠ .ok ∧ (start cfg d st).1 = d := by
  have hno : newRunner cfg reg d ≠ .ok := by
    intro h
    have := target_lt reg hr (accepted_cur cfg reg d h j hj)
    omega
  refine ⟨hno, ?_⟩
  unfold start
  rw [hst]
  by_cases hmr : st.env.metaReadFails = true
  · simp [hmr]
  · have hmr' : st.env.metaReadFails = false := by simpa using hmr
    rw [hmr']
    cases h : newRunner cfg reg d with
    | ok => exact absurd h hno
    | optOut => rfl
    | downgrade => rfl

/-- THE OPT-IN RECORD. A start that was accepted, could read the metadata and got its first write
through (did not die before it, the write did not fail) leaves `LastTargetVersion` = its target —
whatever happens afterwards in that start (failing migrations, cancellation, death, failed writes). -/
theorem last_target_recorded_by_first_write (cfg : Cfg) (d : Disk) (st : Start)
    (hok : newRunner cfg st.reg d = .ok) (hc : st.env.crashAt ≠ 0) (hf : st.env.failAt ≠ 1)
    (hm : st.env.metaReadFails = false) : (start cfg d st).1.last = st.reg.target := by
  rcases start_last cfg d st with h | ⟨_, _, _, _, h⟩
  · -- the other branch of `start_last` is excluded by the hypotheses: the run satisfies `RunQ`
    unfold start
    rw [hm, hok]
    exact (disk_cur_of_md (run_Q cfg st.reg st.env d hc hf).md).2
  · exact h

/-- "… or previously opted into", over HISTORIES (repaired `NewRunner`): once a start whose target
contains migration `j` has recorded its target, every binary / configuration that is accepted after
ANY further history (`mid`: restarts with other registries, crashes, cancellations, faults) has `j` in
its target — an optional migration that was enabled once can never be dropped again, a binary that
lacks it is refused. -/
theorem opted_in_migration_required_by_every_later_binary (cfg : Cfg) (hfix : cfg.ignoreUnknownLast = false)
    (d : Disk) (st : Start) (mid : List Start) (regF : Registry) (j : Nat)
    (hok : newRunner cfg st.reg d = .ok) (hc : st.env.crashAt ≠ 0) (hf : st.env.failAt ≠ 1)
    (hm : st.env.metaReadFails = false) (hj : st.reg.target.has j = true)
    (hacc : newRunner cfg regF (starts cfg (start cfg d st).1 mid).1 = .ok) : regF.target.has j = true := by
  have h1 : (start cfg d st).1.last.has j = true := by
    rw [last_target_recorded_by_first_write cfg d st hok hc hf hm]; exact hj
  have h2 := starts_last_mono cfg hfix mid _ j h1
  exact ((downgrade_and_optout_refused cfg hfix regF _).mp hacc).2 j h2

/-- THE STEPS AROUND THE RUNNER (node/migration.go `migrateIfNeeded`, tied at source level: `nodePlan`). When
the deprecated migrations or the L1-head fetch fail, the runner is never built: its records are
untouched and no migration is called; otherwise the start IS the runner's start (`start`: every runner
theorem applies unchanged, with or without the status server); and whenever the runner is reached
in prune mode an L1 head is stored (the prune migration never starts without one). -/
theorem node_wiring_only_adds_refusals (cfg : Cfg) (ne : NodeEnv) (d : Disk) (st : Start) :
    ((nodeStart cfg ne d st).2.2 = .deprecatedFailed ∨ (nodeStart cfg ne d st).2.2 = .l1HeadFailed →
      (nodeStart cfg ne d st).1 = d ∧ (nodeStart cfg ne d st).2.1 = []) ∧
    ((nodeStart cfg ne d st).2.2 ≠ .deprecatedFailed → (nodeStart cfg ne d st).2.2 ≠ .l1HeadFailed →
      (nodeStart cfg ne d st).1 = (start cfg d st).1 ∧ (nodeStart cfg ne d st).2.1 = (start cfg d st).2.1 ∧
      ne.deprecatedFails = false ∧ (ne.prune = true → fetchL1HeadIfMissing ne = true)) := by
  unfold nodeStart
  by_cases h1 : ne.deprecatedFails = true
  · simp [h1]
  · by_cases h2 : (ne.prune && !fetchL1HeadIfMissing ne) = true
    · simp [h1, h2]
    · have h1' : ne.deprecatedFails = false := by simpa using h1
      simp only [h1, h2, Bool.false_eq_true, if_false]
      rcases hs : start cfg d st with ⟨d', l, r⟩
      cases r with
      | none =>
        simp only [reduceCtorEq, false_or, false_implies, ne_eq, not_false_eq_true, true_implies, true_and, h1']
        intro hp; simpa [hp] using h2
      | some r =>
        simp only [reduceCtorEq, false_or, false_implies, ne_eq, not_false_eq_true, true_implies, true_and, h1']
        intro hp; simpa [hp] using h2

/-- WHICH ERROR `NewRunner` returns (current tree; `validateNoOptOut` transcribed with its flag list and
its `break`, then `validateNoVersionDowngrade`): it accepts exactly when the accept/refuse model
does; the opt-out error names — in ascending order, never an empty list — exactly the migrations
that were previously targeted, are not in this target and are registered in this binary; and
`errNewerDatabase` is returned exactly when the database is refused although no migration of
this binary was opted out of (what is missing is a migration this binary does not have). -/
theorem open_error_names_exactly_the_opted_out_flags (reg : Registry) (d : Disk) :
    (newRunnerV reg d = .ok ↔ newRunner Cfg.fixed reg d = .ok) ∧
    (∀ l, newRunnerV reg d = .optOut l →
      l ≠ [] ∧ l.Pairwise (· < ·) ∧
      ∀ j, j ∈ l ↔ (j < reg.length ∧ d.last.has j = true ∧ reg.target.has j = false)) ∧
    (newRunnerV reg d = .newer ↔
      newRunner Cfg.fixed reg d ≠ .ok ∧ ∀ j, j < reg.length → d.last.has j = true → reg.target.has j = true) := by
  have hok := newRunnerV_ok_iff reg d
  refine ⟨hok, ?_, ?_⟩
  · intro l hl
    rw [newRunnerV_eq] at hl
    split at hl
    · cases hl
    · split at hl
      · cases hl
      · rename_i hne
        injection hl with hl
        subst hl
        exact ⟨hne, namedOptOuts_sorted _ _ _, fun j => mem_namedOptOuts _ _ _ j⟩
  · have hnamed : namedOptOuts reg.target d.last reg.length = [] ↔
        ∀ j, j < reg.length → d.last.has j = true → reg.target.has j = true := by
      constructor
      · intro h j h1 h2
        cases h3 : reg.target.has j with
        | true => rfl
        | false =>
          have := (mem_namedOptOuts reg.target d.last reg.length j).mpr ⟨h1, h2, h3⟩
          rw [h] at this; cases this
      · intro h
        cases hn : namedOptOuts reg.target d.last reg.length with
        | nil => rfl
        | cons a r =>
          have := (mem_namedOptOuts reg.target d.last reg.length a).mp (by rw [hn]; exact List.mem_cons_self)
          rw [h a this.1 this.2.1] at this
          cases this.2.2
    have hne : newRunner Cfg.fixed reg d ≠ .ok ↔ newRunnerV reg d ≠ .ok := not_congr hok.symm
    rw [hne, ← hnamed, newRunnerV_eq]
    split
    · simp
    · split
      · rename_i h; simp [h]
      · rename_i h; simp [h]

/-- The flags the opt-out error names are the right ones: with a configuration that keeps what was
enabled and enables the named migrations, the opt-out error does not come back (the database is
accepted, or — if it also records a migration this binary does not have — refused as newer). -/
theorem enabling_named_flags_clears_optout (reg reg' : Registry) (d : Disk) (l : List Nat)
    (h : newRunnerV reg d = .optOut l) (hlen : reg'.length = reg.length)
    (hkeep : ∀ j, reg.target.has j = true → reg'.target.has j = true)
    (hen : ∀ j ∈ l, reg'.target.has j = true) :
    ∀ l', newRunnerV reg' d ≠ .optOut l' := by
  intro l' h'
  have h1 := (open_error_names_exactly_the_opted_out_flags reg d).2.1 l h
  have h2 := (open_error_names_exactly_the_opted_out_flags reg' d).2.1 l' h'
  cases l' with
  | nil => exact h2.1 rfl
  | cons a r =>
    have ha := (h2.2.2 a).mp List.mem_cons_self
    have hnt : reg.target.has a = false := by
      cases h3 : reg.target.has a with
      | false => rfl
      | true => rw [hkeep a h3] at ha; cases ha.2.2
    have hmem : a ∈ l := (h1.2.2 a).mpr ⟨hlen ▸ ha.1, ha.2.1, hnt⟩
    rw [hen a hmem] at ha
    cases ha.2.2

/-- READ FAULTS (both variants; every registry, script, cancellation / death / failed-write tick). A
start that cannot read the schema metadata (an error other than "not found") does nothing. A start that
cannot read the stored resume token of migration `j` never calls `Before` or `Migrate` of `j`, saves
nothing for it and does not apply it: token and applied bit of `j` are exactly what they were — an
unreadable token is never taken for "no token". -/
theorem read_error_is_not_progress (cfg : Cfg) (d : Disk) (st : Start) :
    (st.env.metaReadFails = true → start cfg d st = (d, [], some .errRead)) ∧
    (∀ j, st.env.istReadFails j = true →
      (∀ e ∈ (start cfg d st).2.1, e.idx ≠ some j) ∧
      (start cfg d st).1.ist j = d.ist j ∧ (start cfg d st).1.cur.has j = d.cur.has j) :=
  start_readfail cfg d st

/-! ## Resume: any interruption pattern followed by reruns reaches the result of an undisturbed run -/

/-- Runner level, both variants. For every history of starts (cancelled / crashed at any tick,
migrations failing or returning resume states, optional migrations switched between restarts)
after which an undisturbed start is accepted: it returns nil, the metadata is exactly that of an
undisturbed start on the original disk (`Current = Current₀ ∪ Target`, `LastTarget = Target`) and no
resume token is left for any migration of the target. -/
theorem undisturbed_start_after_history_applies_target (cfg : Cfg) (d0 : Disk) (sts : List Start) (regF : Registry) (envF : Env)
    (hclean : d0.Clean) (hu : envF.Undisturbed)
    (hacc : newRunner cfg regF (starts cfg d0 sts).1 = .ok) :
    (run cfg regF envF (starts cfg d0 sts).1).2 = .ok ∧
    (run cfg regF envF (starts cfg d0 sts).1).1.disk.md = some ⟨d0.cur ||| regF.target, regF.target⟩ ∧
    (∀ j, regF.target.has j = true → (run cfg regF envF (starts cfg d0 sts).1).1.disk.ist j = none) :=
  resume_runner cfg d0 sts regF envF hclean hu hacc

/-- The same metadata as the undisturbed start on the original disk (the case `sts = []`). -/
theorem undisturbed_start_result (cfg : Cfg) (d0 : Disk) (regF : Registry) (envF : Env) (hu : envF.Undisturbed) :
    (run cfg regF envF d0).2 = .ok ∧
    (run cfg regF envF d0).1.disk.md = some ⟨d0.cur ||| regF.target, regF.target⟩ :=
  ⟨(run_undisturbed cfg regF envF d0 hu).1, (run_undisturbed cfg regF envF d0 hu).2.1⟩

/-- TOKEN THREADING (both variants; every registry, script, cancellation / death / failed-write
tick). In one start `Before` of migration `j` receives exactly the token the start found on disk
for `j`; after the start the stored token of `j` is absent if `j` was applied, is the state `Migrate`
returned if the runner saved one, and is what it was before in every other case (database refused,
death or failed write before the save, `Migrate` failed, `j` not reached). -/
theorem token_threading (cfg : Cfg) (d : Disk) (st : Start) :
    (∀ j t, Event.before j t ∈ (start cfg d st).2.1 → t = d.ist j) ∧
    (∀ j, Event.apply j ∈ (start cfg d st).2.1 → (start cfg d st).1.ist j = none) ∧
    (∀ j t, Event.save j t ∈ (start cfg d st).2.1 → (start cfg d st).1.ist j = some t) ∧
    (∀ j, Event.apply j ∉ (start cfg d st).2.1 → (∀ t, Event.save j t ∉ (start cfg d st).2.1) →
      (start cfg d st).1.ist j = d.ist j) :=
  start_tokens cfg d st

/-- Consequence across a restart: what `Before` of `j` receives in the NEXT start is the state the
previous start saved for `j`; or, if the previous start saved nothing for `j` and did not apply it,
what the previous start's `Before` would have received itself. This is the runner behaviour
`SDL.nextCheckpoint` / `SDL.attempts` (and the other data models' `attempts`) assume. -/
theorem token_handed_to_next_start (cfg : Cfg) (d : Disk) (st1 st2 : Start) (j : Nat) (t2 : Option Bytes)
    (hb : Event.before j t2 ∈ (start cfg (start cfg d st1).1 st2).2.1) :
    (∀ t, Event.save j t ∈ (start cfg d st1).2.1 → t2 = some t) ∧
    (Event.apply j ∉ (start cfg d st1).2.1 → (∀ t, Event.save j t ∉ (start cfg d st1).2.1) → t2 = d.ist j) := by
  have h2 := (start_tokens cfg (start cfg d st1).1 st2).1 j t2 hb
  have h1 := start_tokens cfg d st1
  exact ⟨fun t ht => by rw [h2, h1.2.2.1 j t ht], fun ha hs => by rw [h2, h1.2.2.2 j ha hs]⟩

/-! ## The block-transactions migration -/

open BlockTx

/-- CURRENT code (`overwriteMigrated = false`: b4577f2; `skipUnstoredEmpty = false`: the back-fill of
empty blocks, 1b3416d). For every chain (any height, empty blocks anywhere), from
every image in which each block is either still in the previous layout or migrated — in
particular the previous-layout database and every crash image — and for every sequence of
`Migrate` calls interrupted in any way (cancellation at the loop head or in the source after any
number of ranges, death with any subset of the emitted ranges committed, death before the final
step, failed writes, read errors with partial batches, and since round 5: death / a failed
`DeletePrefix` AFTER the back-fill batch, and passes in which the write of batches holding nothing to
migrate was elided): no block is ever lost or altered (`Inv` holds throughout); an undisturbed rerun returns
`(nil, nil)`; and the final database is the database of an undisturbed run on the original
image, block for block. -/
theorem blocktx_resume_same_result (cfg : BlockTx.Cfg) (hA : cfg.overwriteMigrated = false)
    (hB : cfg.skipUnstoredEmpty = false) (orig : Orig) (h : Nat) (db : Db) (hw : WFOrig orig)
    (hi : Inv orig h db) (att : List (List Step)) :
    Inv orig h (attempts cfg db att) ∧
    (migrate cfg (attempts cfg db att) []).2 = .done ∧
    (migrate cfg (attempts cfg db att) []).1 = (migrate cfg db []).1 :=
  ⟨(attempts_inv hA hw att db hi).1, resume_data hA hB hw hi att⟩

/-- CURRENT code. Whenever `Migrate` returns `(nil, nil)` — after any
interruption history — every block up to the chain height is readable through the current
accessors with exactly its original transactions and receipts, and no old entry is left.
Together with `applied_implies_complete`: the bit is set only on such a database. -/
theorem blocktx_preserves (cfg : BlockTx.Cfg) (hA : cfg.overwriteMigrated = false)
    (hB : cfg.skipUnstoredEmpty = false) (orig : Orig) (h : Nat) (db : Db) (hw : WFOrig orig)
    (hi : Inv orig h db) (att : List (List Step)) (steps : List Step)
    (hd : (migrate cfg (attempts cfg db att) steps).2 = .done) (b : Nat) (hb : b ≤ h) :
    view ((migrate cfg (attempts cfg db att) steps).1.blk b) = some (orig b) ∧
    oldView ((migrate cfg (attempts cfg db att) steps).1.blk b) = ([], []) := by
  have hm := (migrate_done_allMigrated hA hB hw (attempts_inv hA hw att db hi).1 steps hd).2 b hb
  exact ⟨hm.2.2.2, by simp [oldView, hm.2.1, hm.2.2.1]⟩

/-- Reachability: the database as the previous layout wrote it satisfies `Inv` (so do, by
`blocktx_resume_same_result`, all images reachable from it). -/
theorem blocktx_previous_layout_inv (orig : Orig) (h : Nat) (db : Db) (ha : AllOld orig h db) : Inv orig h db :=
  ha.inv

/-- THE COMMITTER MAY ELIDE BATCHES THAT HOLD NOTHING TO MIGRATE (round 5; the step alphabet of the theorems
above contains `passSkip`, and `crashClear` / `failClear` for death / a failed `DeletePrefix` after the
back-fill batch). A pass in which the write of any set of batches without old entries was skipped
returns what the pass of the current committer returns, and the two databases differ at most on blocks
WITHOUT transactions, which are then simply left as they were (no entry yet — the final back-fill
writes it): a block that holds transactions is never concerned. Hence such a committer reaches the
same final database (`blocktx_resume_same_result` quantifies over these steps too). -/
theorem blocktx_elided_batches_hold_no_data (cfg : BlockTx.Cfg) (hA : cfg.overwriteMigrated = false)
    (orig : Orig) (h : Nat) (db : Db) (hw : WFOrig orig) (hi : Inv orig h db) (emit : Option Nat) (sel : List Bool) :
    (iteration cfg db h (.passSkip emit sel)).2 = (iteration cfg db h (.pass emit)).2 ∧
    ∀ b, (iteration cfg db h (.passSkip emit sel)).1.blk b = (iteration cfg db h (.pass emit)).1.blk b ∨
      (b ≤ h ∧ orig b = ([], []) ∧ (iteration cfg db h (.passSkip emit sel)).1.blk b = db.blk b) :=
  passSkip_vs_pass hA hw hi emit sel

/-- Blocks 0–9 and 20 with one transaction, blocks 10–19 empty. -/
def gapDb : Db :=
  ⟨some 20, fun b => if b < 10 ∨ b = 20 then ⟨some 1, [1], [101], none⟩ else ⟨some 0, [], [], none⟩⟩

/-- REGRESSION WITNESS for the defect fixed by 1b3416d — negation of "reaches the same final database"
on the variant without the back-fill (`⟨false, true⟩`): an undisturbed run stores the empty entry of block 10 (its range
lies inside the pass); after a death with the first and the third range committed the rerun finds
old entries only at block 20, passes over range 20 alone, returns `(nil, nil)` — and block 10 has no
entry: the two final databases differ. -/
theorem blocktx_resume_not_deterministic_before_1b3416d :
    (migrate ⟨false, true⟩ gapDb []).2 = .done ∧
    ((migrate ⟨false, true⟩ gapDb []).1.blk 10).blob = some ([], []) ∧
    (migrate ⟨false, true⟩ (attempts ⟨false, true⟩ gapDb [[.crash none [true, false, true]]]) []).2 = .done ∧
    ((migrate ⟨false, true⟩ (attempts ⟨false, true⟩ gapDb [[.crash none [true, false, true]]]) []).1.blk 10).blob = none := by
  decide

/-- Blocks 0–9 in the previous layout, blocks 10–19 already migrated (a crash image of the pinned
code: the batch holding range 10–19 was committed, the one holding range 0–9 was not). -/
def holeDb : Db :=
  ⟨some 19, fun b => if b < 10 then ⟨some 1, [1], [101], none⟩ else ⟨some 1, [], [], some ([1], [101])⟩⟩

/-- REGRESSION WITNESS for the defect fixed by b4577f2: the image satisfies `Inv`, the rerun returns
`(nil, nil)`, and block 10 reads as an empty block: its transaction and receipt are lost. -/
theorem blocktx_resume_overwrites_before_b4577f2 :
    Inv (fun _ => ([1], [101])) 19 holeDb ∧
    (migrate BlockTx.Cfg.pinned holeDb []).2 = .done ∧
    view ((migrate BlockTx.Cfg.pinned holeDb []).1.blk 10) = some ([], []) := by
  refine ⟨⟨rfl, ?_⟩, by decide, by decide⟩
  intro b hb
  by_cases h : b < 10
  · left; simp [holeDb, h, Unmigrated]
  · right; simp [holeDb, h, Migrated]

/-- Blocks 0–9 empty (nothing stored, they read as empty lists in the previous layout), block 10
with one transaction. -/
def leadingEmptyDb : Db :=
  ⟨some 10, fun b => if b < 10 then ⟨some 0, [], [], none⟩ else ⟨some 1, [1], [101], none⟩⟩

/-- REGRESSION WITNESS for the defect fixed by 1b3416d: the uninterrupted migration of a previous-layout
database returns `(nil, nil)` and block 0 is "not found" through the current accessors. -/
theorem blocktx_empty_block_unreadable_before_1b3416d :
    AllOld (fun b => if b < 10 then ([], []) else ([1], [101])) 10 leadingEmptyDb ∧
    (migrate BlockTx.Cfg.pinned leadingEmptyDb []).2 = .done ∧
    view ((migrate BlockTx.Cfg.pinned leadingEmptyDb []).1.blk 0) = none ∧
    oldView (leadingEmptyDb.blk 0) = ([], []) := by
  refine ⟨⟨rfl, ?_⟩, by decide, by decide, by decide⟩
  intro b hb
  by_cases h : b < 10
  · simp [leadingEmptyDb, h, Unmigrated]
  · simp [leadingEmptyDb, h, Unmigrated]

/-- An empty database (no chain height) is complete at once and untouched. -/
theorem blocktx_empty_database (cfg : BlockTx.Cfg) (db : Db) (hh : db.height = none) (steps : List Step) :
    migrate cfg db steps = (db, .done) := by
  unfold migrate; rw [hh]

/-! ## The state-diff-length backfill -/

/-- For every database whose retained blocks `[o, h]` have their records, every checkpoint `next`
below which everything is already backfilled (0 on a fresh run), and whatever the environment does
during one `Migrate` call (cancelled after any number of blocks, death with any subset of the
handed-out blocks committed): only `StateDiffLength` of retained blocks changes, and only to the
block's state-diff length; the checkpoint the runner keeps afterwards is sound (every retained
block below it is backfilled — after a death that is the OLD checkpoint); `(nil, nil)` means every
retained block is backfilled; the migration fails only when a batch write or a read fails (`writeFail`:
an error inside the pipeline with any subset of the handed-out blocks committed). -/
theorem statedifflength_checkpoint_sound (db : SDL.Db) (h o next : Nat) (hr : SDL.Retained db h o)
    (hg : SDL.Good db o next) (st : SDL.Step) :
    SDL.Step' db (SDL.migrate db next st).1 o h ∧
    SDL.Good (SDL.migrate db next st).1 o (SDL.nextCheckpoint next (SDL.migrate db next st).2) ∧
    ((SDL.migrate db next st).2 = .done → SDL.Good (SDL.migrate db next st).1 o (h + 1)) ∧
    ((SDL.migrate db next st).2 = .failed → ∃ e sel, st = .writeFail e sel) :=
  SDL.migrate_sound hr hg st

/-- Any sequence of interrupted `Migrate` calls (the runner threading the checkpoint) followed by an
undisturbed one returns `(nil, nil)` and reaches exactly the database in which every retained block
carries its state-diff length and nothing else changed — the database of an undisturbed run. -/
theorem statedifflength_resume_same_result (db : SDL.Db) (h o next : Nat) (hr : SDL.Retained db h o)
    (hg : SDL.Good db o next) (steps : List SDL.Step) :
    (SDL.migrate (SDL.attempts db next steps).1 (SDL.attempts db next steps).2 (.pass none)).2 = .done ∧
    (SDL.migrate (SDL.attempts db next steps).1 (SDL.attempts db next steps).2 (.pass none)).1 =
      SDL.backfilled db o h :=
  SDL.resume_sdl hr hg steps

/-! ## Runner × data migration: "recorded as applied" means the data is migrated -/

/-- COMPOSITION, block-transactions (current code). Migration `i` of the registry IS the modelled
block-transactions migration acting on `db` (everything else — the other migrations, cancellation,
death, failed writes and read faults of the runner — stays an arbitrary script). For every history of
starts, each with its own interruption pattern inside the migration: no block is lost, and whenever
the runner's applied bit of `i` is set, every block up to the chain height reads through the current
accessors with exactly its original content and no old entry is left. -/
theorem applied_bit_means_blocktx_migrated (cfg : Cfg) (hfix : cfg.markOnNilCtx = false) (bcfg : BlockTx.Cfg)
    (hA : bcfg.overwriteMigrated = false) (hB : bcfg.skipUnstoredEmpty = false) (orig : Orig) (h : Nat)
    (hw : WFOrig orig) (i : Nat) (d : Disk) (db : Db) (hi : Inv orig h db) (hbit : d.cur.has i = false)
    (l : List (Start × List Step)) :
    Inv orig h (cstarts (btMig bcfg) cfg i d db l).2 ∧
    ((cstarts (btMig bcfg) cfg i d db l).1.cur.has i = true → ∀ b, b ≤ h →
      view ((cstarts (btMig bcfg) cfg i d db l).2.blk b) = some (orig b) ∧
      oldView ((cstarts (btMig bcfg) cfg i d db l).2.blk b) = ([], [])) := by
  have hc := cstarts_sound (btMig_sound bcfg hA hB orig h hw) cfg hfix i l d db
    ⟨hi, fun hb => by rw [hbit] at hb; cases hb⟩
  refine ⟨hc.1, fun hb b hbh => ?_⟩
  have hm := (hc.2 hb).2 b hbh
  exact ⟨hm.2.2.2, by simp [oldView, hm.2.1, hm.2.2.1]⟩

/-- COMPOSITION, state-diff-length: the checkpoint travels as the 8-byte token the runner stores
(`encodeResume` / `Before`). For every history of starts: the stored token always decodes, every retained
block below the decoded checkpoint is backfilled, and whenever the applied bit is set every
retained block carries its state-diff length. -/
theorem applied_bit_means_statedifflength_backfilled (cfg : Cfg) (hfix : cfg.markOnNilCtx = false)
    (i : Nat) (d : Disk) (db : SDL.Db) (h o : Nat) (hr : SDL.Retained db h o) (hh : h + 1 < 2 ^ 64)
    (htok : d.ist i = none) (hbit : d.cur.has i = false) (l : List (Start × SDL.Step)) :
    (∃ n, SDL.before ((cstarts sdlMig cfg i d db l).1.ist i) = some n ∧ SDL.Good (cstarts sdlMig cfg i d db l).2 o n) ∧
    ((cstarts sdlMig cfg i d db l).1.cur.has i = true → SDL.Good (cstarts sdlMig cfg i d db l).2 o (h + 1)) := by
  have hc := cstarts_sound (SDL.sdlMig_sound h o) cfg hfix i l d db
    ⟨⟨hr, hh, 0, by rw [htok]; rfl, fun b _ hb => by omega⟩, fun hb => by rw [hbit] at hb; cases hb⟩
  exact ⟨hc.1.2.2, hc.2⟩

/-- COMPOSITION, head-state: whenever the applied bit is set every account has its consolidated
record and the deprecated buckets are empty; before that no account has lost a field. -/
theorem applied_bit_means_headstate_consolidated (cfg : Cfg) (hfix : cfg.markOnNilCtx = false)
    (i : Nat) (d : Disk) (orig : Nat → HS.OrigA) (db : HS.Db) (hi : HS.Inv orig db) (hbit : d.cur.has i = false)
    (l : List (Start × HS.Step)) :
    HS.Inv orig (cstarts hsMig cfg i d db l).2 ∧
    ((cstarts hsMig cfg i d db l).1.cur.has i = true → HS.Done orig (cstarts hsMig cfg i d db l).2) := by
  have hc := cstarts_sound (hsMig_sound orig db.n) cfg hfix i l d db
    ⟨⟨hi, rfl⟩, fun hb => by rw [hbit] at hb; cases hb⟩
  exact ⟨hc.1.1, fun hb => (hc.2 hb).1⟩

/-- THE HYPOTHESIS OF `in_order_when_state_only_on_cancel`, DISCHARGED FOR THE MODELLED MIGRATIONS (what the
runner sees is `btRet` / `sdlRet` / `hsRet` of the data model's return). block-transactions hands the
runner `(state, nil)` only from a call whose environment contains a cancellation step (`ctx.Done()`
at the loop head, or the source cut short); statedifflength only when its source was cut short;
headstate never (its resume state always comes with the wrapped context error). So between these
migrations the order is strict. What remains an assumption: that the models' cancellation steps happen
only when the runner's own context is cancelled (they transcribe `<-ctx.Done()` of that context), and the
history pruner (no step model). -/
theorem resume_state_without_error_only_when_cancelled :
    (∀ (cfg : BlockTx.Cfg) (db : BlockTx.Db) (steps : List BlockTx.Step) (t : Bytes),
      (btRet (BlockTx.migrate cfg db steps).2).st = some t → (btRet (BlockTx.migrate cfg db steps).2).err = .none →
      ∃ s ∈ steps, s.cancels = true) ∧
    (∀ (db : SDL.Db) (next : Nat) (st : SDL.Step) (t : Bytes),
      (sdlRet (SDL.migrate db next st).2).st = some t → ∃ k, st = .pass (some k)) ∧
    (∀ (db : HS.Db) (st : HS.Step) (t : Bytes),
      (hsRet (HS.migrate db st).2).st = some t → (hsRet (HS.migrate db st).2).err ≠ .none) := by
  refine ⟨?_, ?_, ?_⟩
  · intro cfg db steps t h1 h2
    cases hr : (BlockTx.migrate cfg db steps).2 <;> rw [hr] at h1 h2 <;> simp [btRet] at h1 h2
    exact BlockTx.migrate_rerun_cancels cfg db steps hr
  · intro db next st t h1
    cases hr : (SDL.migrate db next st).2 <;> rw [hr] at h1 <;> simp [sdlRet] at h1
    exact SDL.migrate_rerun_cancelled db next st _ hr
  · intro db st t h1
    cases hr : (HS.migrate db st).2 <;> rw [hr] at h1 <;> simp [hsRet] at h1 ⊢

/-- DERIVED LOOKUPS. The buckets hash → (block, index) and L1 message hash → transaction hash are not named
by the block-transactions migration at all (frame: the harness checks after every observed `Migrate`
that no key outside the three buckets of the migration changed). For any lookup table `lk` that was
right about the previous layout (`lk x = (b, i)` ⇒ transaction `x` is the `i`-th of block `b`), after
ANY interruption history followed by a completed run the same entry resolves through the current
accessors to the same transaction, with its own receipt at the same index. -/
theorem blocktx_lookups_resolve_after_migration (cfg : BlockTx.Cfg) (hA : cfg.overwriteMigrated = false)
    (hB : cfg.skipUnstoredEmpty = false) (orig : Orig) (h : Nat) (db : Db) (hw : WFOrig orig)
    (hi : Inv orig h db) (att : List (List Step)) (steps : List Step)
    (hd : (migrate cfg (attempts cfg db att) steps).2 = .done)
    (lk : Item → Option (Nat × Nat))
    (hlk : ∀ x b i, lk x = some (b, i) → b ≤ h ∧ (orig b).1[i]? = some x) (x : Item) (b i : Nat)
    (hx : lk x = some (b, i)) :
    ∃ c, view ((migrate cfg (attempts cfg db att) steps).1.blk b) = some c ∧ c.1[i]? = some x ∧
      c.2[i]? = (orig b).2[i]? := by
  obtain ⟨hb, hxi⟩ := hlk x b i hx
  exact ⟨orig b, (blocktx_preserves cfg hA hB orig h db hw hi att steps hd b hb).1, hxi, rfl⟩

/-- The checkpoint codec of statedifflength: `Before(encodeResume n)` restores `n` for every `uint64`;
no token and the empty token mean block 0; any other length is rejected. -/
theorem statedifflength_token_codec (n : Nat) (hn : n < 2 ^ 64) (b : Bytes) :
    SDL.before (some (SDL.encodeResume n)) = some n ∧ SDL.before none = some 0 ∧ SDL.before (some []) = some 0 ∧
    (b.length ≠ 0 → b.length ≠ 8 → SDL.before (some b) = none) := by
  refine ⟨SDL.before_encodeResume n hn, rfl, rfl, fun h0 h8 => ?_⟩
  simp [SDL.before, h0, h8]

/-! ## The history pruner's cutoff -/

/-- FULL STRENGTH (both guards: cutoff 0 ⇒ nothing to prune — applied in /repo by 322dd0d; cutoff never
below the pruned prefix — proposed-fixes/C18-historyprunner-cutoff-guards.diff, PENDING): on a
start without resume state, whenever the pruner decides to prune, the cutoff is positive, not below
the prefix that is already pruned, not above the chain height, and both set-up steps can run (the
stager only touches blocks that still have their state update; the restorer's seed block
`cutoff - 1` exists). CURRENT code (322dd0d, dfe482d); the harness compares the cutoff of the real
migration with `Pruner.cutoff Cfg.fixed` on a grid of configurations. -/
theorem pruner_cutoff_sound (cfg : Pruner.Cfg) (hz : cfg.zeroCutoffRuns = false) (hb : cfg.cutoffBelowPruned = false)
    (i : Pruner.In) (hp : i.pinnedCut = none) (hpr : i.pruned ≤ i.height) (c : Nat)
    (h : Pruner.cutoff cfg i = some c) :
    0 < c ∧ i.pruned ≤ c ∧ c ≤ i.height ∧ Pruner.setupOk i c = true :=
  Pruner.cutoff_fixed_ok cfg hz hb i hp hpr c h

/-- REGRESSION WITNESS for the defect fixed by 322dd0d — pivot = retainedBlocks (7 blocks, L1 head 4,
retained 4): cutoff 0 is taken as a real cutoff, the restorer's seed block is 2^64-1. -/
theorem pruner_cutoff_zero_before_322dd0d :
    Pruner.cutoff Pruner.Cfg.pinned ⟨6, 4, 4, 0, none⟩ = some 0 ∧ Pruner.setupOk ⟨6, 4, 4, 0, none⟩ 0 = false ∧
    Pruner.cutoff Pruner.Cfg.fixed ⟨6, 4, 4, 0, none⟩ = none := by
  decide

/-- REGRESSION WITNESSES for the defect fixed by dfe482d (the cutoff is recomputed from the configuration
alone after a dead run): (1) a dead run pruned up to block 14 and the restart is configured with retained 9
(20 blocks, L1 head 17): cutoff 8 lies below the pruned prefix, the stager fails; (2) a dead run pruned up
to block 1 (and wiped the reverse lookups) and the restart's retention exceeds the pivot: "nothing to
prune", the migration is recorded as applied with the lookups gone. The current decision gives 14 and 1. -/
theorem pruner_cutoff_ignores_pruned_prefix_before_dfe482d :
    Pruner.cutoff ⟨false, true⟩ ⟨19, 17, 9, 14, none⟩ = some 8 ∧ Pruner.setupOk ⟨19, 17, 9, 14, none⟩ 8 = false ∧
    Pruner.cutoff Pruner.Cfg.fixed ⟨19, 17, 9, 14, none⟩ = some 14 ∧
    Pruner.cutoff ⟨false, true⟩ ⟨31, 5, 8, 1, none⟩ = none ∧ Pruner.cutoff Pruner.Cfg.fixed ⟨31, 5, 8, 1, none⟩ = some 1 := by
  decide

/-- The pruner's resume token vs. a death between the pruner's last commit and the runner's commit.
`Pruner.Finished c h d`: the disk after a run that finished the pruner with cutoff `c` (history of every
kept block live, scratch wiped) — and the runner did NOT record it, so whatever token an earlier
cancellation stored is still there. CURRENT code (00e70b8: a stager-phase token above the cutoff with
an empty scratch namespace ⇒ restage from the cutoff; the harness family `pruner-stale-token` compares
the set of blocks that lose their history with `Pruner.finish true`): the next completed run keeps the history of every kept block, for every well-formed
token (restorer = 0 only in the stager phase). -/
theorem pruner_stale_token_sound (c h : Nat) (tok : Pruner.Token) (d : Pruner.Disk) (hd : Pruner.Finished c h d)
    (htok : tok.2 = 0 → tok.1 ≤ h) (b : Nat) (hc : c ≤ b) (hh : b ≤ h) :
    b ∈ (Pruner.finish true c h tok d).live :=
  Pruner.finish_guarded_keeps c h tok d hd htok b hc hh

/-- REGRESSION WITNESS for the defect fixed by 00e70b8: cutoff 5, height 9, a cancellation left the token (8, 0); a later run
finished the pruner and died before the runner's commit; the restart loses the history of blocks
5, 6, 7 — exactly the blocks between the cutoff and the token — where the guarded variant loses none. -/
theorem pruner_stale_token_loses_history_before_00e70b8 :
    Pruner.lost 5 9 (Pruner.finish false 5 9 (8, 0) ⟨[5, 6, 7, 8, 9], []⟩) = [5, 6, 7] ∧
    Pruner.lost 5 9 (Pruner.finish true 5 9 (8, 0) ⟨[5, 6, 7, 8, 9], []⟩) = [] := by
  decide

/-! ## The head-state consolidation -/

/-- For every set of contracts (class hash, optional nonce, deployment height), from every image in
which each account is untouched or has exactly its consolidated record with any of its deprecated
fields already wiped (`HS.Inv`: the previous-layout database and every crash image), and whatever
happens during one `Migrate` call (cancelled after any number of addresses, death or failed batch
write with any subset committed, death or failure after 0, 1 or 2 of the three bucket wipes): the
invariant is kept — no account ever loses a field before its record exists — and `(nil, nil)`
means every account has its record and the deprecated buckets are empty. -/
theorem headstate_sound (orig : Nat → HS.OrigA) (db : HS.Db) (hi : HS.Inv orig db) (st : HS.Step) :
    HS.Inv orig (HS.migrate db st).1 ∧ (HS.migrate db st).1.n = db.n ∧
    ((HS.migrate db st).2 = .done → HS.Done orig (HS.migrate db st).1) ∧
    (∀ a, db.n ≤ a → (HS.migrate db st).1.acct a = db.acct a) :=
  HS.migrate_sound hi st

/-- Any interruption sequence followed by an undisturbed rerun returns `(nil, nil)` with exactly
the fully migrated database, the one an undisturbed run produces. -/
theorem headstate_resume_same_result (orig : Nat → HS.OrigA) (db : HS.Db) (hi : HS.Inv orig db)
    (steps : List HS.Step) :
    (HS.migrate (HS.attempts db steps) (.pass none)).2 = .done ∧
    (HS.migrate (HS.attempts db steps) (.pass none)).1 = HS.migrated orig db :=
  HS.resume_hs hi steps

/-- Two contracts in the previous layout, the second without a nonce entry. -/
def hsDb : HS.Db := ⟨2, fun a => if a = 0 then ⟨some 7, some 3, some 1, none⟩ else ⟨some 8, none, some 2, none⟩⟩
def hsOrig : Nat → HS.OrigA := fun a => if a = 0 then ⟨7, some 3, 1⟩ else ⟨8, none, 2⟩

/-- A pruned prefix (blocks 0–1 without records), blocks 2–5 retained, nothing backfilled yet. -/
def sdlDb : SDL.Db := ⟨some 5, fun b => if b < 2 then ⟨false, 0, 0⟩ else ⟨true, b + 1, 0⟩⟩

/-! ## Non-vacuity -/

-- the pruner decision does prune on ordinary inputs (8 blocks, L1 head 5, retained 4: cutoff 1)
example : Pruner.cutoff Pruner.Cfg.fixed ⟨7, 5, 4, 0, none⟩ = some 1 := by decide
example : Pruner.cutoff Pruner.Cfg.fixed ⟨6, 4, 4, 0, none⟩ = none := by decide

example : HS.Inv hsOrig hsDb := by
  intro a ha
  have : a = 0 ∨ a = 1 := by have : a < 2 := ha; omega
  rcases this with rfl | rfl <;> (left; simp [hsDb, hsOrig])
example : (HS.migrate hsDb (.crashWipe 1)).1.acct 1 = ⟨none, none, some 2, some (0, 8, 2)⟩ := by decide

example : SDL.Retained sdlDb 5 2 := by
  refine ⟨rfl, by decide, ?_⟩
  intro b h1 h2
  have : ¬ b < 2 := by omega
  simp [sdlDb, this]
example : SDL.Good sdlDb 2 0 := fun b h1 h2 => by omega
-- cancelled after one block: checkpoint 3, block 2 done, block 3 not yet
example : (SDL.migrate sdlDb 0 (.pass (some 1))).2 = .rerun 3 ∧
    ((SDL.migrate sdlDb 0 (.pass (some 1))).1.blk 2).stored = 3 ∧
    ((SDL.migrate sdlDb 0 (.pass (some 1))).1.blk 3).stored = 0 := by decide


-- the hypotheses of the block-transactions theorems are met by concrete databases
example : WFOrig (fun _ => ([1], [101])) := fun _ => rfl
example : Inv (fun _ => ([1], [101])) 19 holeDb := blocktx_resume_overwrites_before_b4577f2.1
-- the repaired migration on the two witnesses gives the original content back
example : view ((migrate BlockTx.Cfg.fixed holeDb []).1.blk 10) = some ([1], [101]) := by decide
example : view ((migrate BlockTx.Cfg.fixed leadingEmptyDb []).1.blk 0) = some ([], []) := by decide
-- interrupted attempts really move the database: death after the only range was committed, before the final step
example : ((attempts BlockTx.Cfg.fixed leadingEmptyDb [[.crash none [true]]]).blk 10).blob = some ([1], [101]) ∧
    ((attempts BlockTx.Cfg.fixed leadingEmptyDb [[.crash none [true]]]).blk 0).blob = none := by decide
-- round 5 steps on `gapDb` (ranges 0 and 2 hold transactions, range 1 is empty): the batch of range 1 is
-- elided — block 10 has no entry when the process dies before the final step, the completed run writes it;
example : (migrate BlockTx.Cfg.fixed gapDb [.passSkip none [true, false, true], .crashFinal]).2 = .crashed ∧
    ((migrate BlockTx.Cfg.fixed gapDb [.passSkip none [true, false, true], .crashFinal]).1.blk 10).blob = none ∧
    ((migrate BlockTx.Cfg.fixed gapDb [.passSkip none [true, false, true], .crashFinal]).1.blk 20).blob = some ([1], [101]) ∧
    (migrate BlockTx.Cfg.fixed gapDb [.passSkip none [true, false, true]]).2 = .done ∧
    ((migrate BlockTx.Cfg.fixed gapDb [.passSkip none [true, false, true]]).1.blk 10).blob = some ([], []) := by decide
-- a range WITH old entries cannot be elided: unselecting range 0 changes nothing
example : ((migrate BlockTx.Cfg.fixed gapDb [.passSkip none [false, false, false], .crashFinal]).1.blk 0).blob = some ([1], [101]) := by decide
-- death / a failed DeletePrefix after the back-fill batch: the data is complete, the call did not return (nil, nil)
example : (migrate BlockTx.Cfg.fixed leadingEmptyDb [.pass none, .crashClear]).2 = .crashed ∧
    ((migrate BlockTx.Cfg.fixed leadingEmptyDb [.pass none, .crashClear]).1.blk 0).blob = some ([], []) ∧
    (migrate BlockTx.Cfg.fixed leadingEmptyDb [.pass none, .failClear]).2 = .failedNil ∧
    (migrate BlockTx.Cfg.fixed leadingEmptyDb [.pass none, .crashFinal]).2 = .crashed ∧
    ((migrate BlockTx.Cfg.fixed leadingEmptyDb [.pass none, .crashFinal]).1.blk 0).blob = none := by decide
-- an undisturbed environment exists, and the repaired runner refuses the unknown-last witness
example : Env.Undisturbed ⟨fun _ => ⟨false, none, .none⟩, 999, 999, 0, false, fun _ => false⟩ := ⟨fun _ => rfl, by decide, by decide, rfl, fun _ => rfl⟩
example : newRunner Cfg.fixed [⟨false, false⟩, ⟨false, false⟩] ⟨some ⟨3#64, 7#64⟩, fun _ => none⟩ ≠ .ok := by decide
-- the repaired runner does not mark the L9 witness as applied
example : (starts Cfg.fixed freshDisk [l9Start]).1.cur.has 0 = false := by decide
-- the three verdicts of `NewRunner` occur: registry m,e?,m with bit 1 previously targeted and now disabled;
-- a bit beyond the registry; and both (the known one is named, the loop stops at the unknown one)
example : newRunnerV [⟨false, false⟩, ⟨true, false⟩, ⟨false, false⟩] ⟨some ⟨5#64, 7#64⟩, fun _ => none⟩ = .optOut [1] := by decide
example : newRunnerV [⟨false, false⟩, ⟨true, true⟩] ⟨some ⟨3#64, 7#64⟩, fun _ => none⟩ = .newer := by decide
example : newRunnerV [⟨false, false⟩, ⟨true, false⟩] ⟨some ⟨1#64, 7#64⟩, fun _ => none⟩ = .optOut [1] := by decide
example : newRunnerV [⟨false, false⟩, ⟨true, true⟩, ⟨false, false⟩] ⟨some ⟨5#64, 7#64⟩, fun _ => none⟩ = .ok := by decide
-- a start whose token read fails leaves the stored token where it is and reports an error
example : (start Cfg.fixed ⟨none, fun j => if j = 0 then some [1] else none⟩
    ⟨[⟨false, false⟩], ⟨fun _ => ⟨false, none, .none⟩, 999, 999, 0, false, fun _ => true⟩⟩).1.ist 0 = some [1] := by decide
example : (start Cfg.fixed ⟨none, fun _ => none⟩
    ⟨[⟨false, false⟩], ⟨fun _ => ⟨false, none, .none⟩, 999, 999, 0, false, fun _ => true⟩⟩).2.2 = some .errRead := by decide
-- composition: one start in which the state-diff-length migration (registry index 0) is cancelled after one
-- block: the runner stores the 8-byte checkpoint 3; a second, undisturbed start completes and sets the bit
example : (cstart sdlMig Cfg.fixed 0 freshDisk sdlDb ⟨[⟨false, false⟩], ⟨fun _ => ⟨false, none, .none⟩, 2, 999, 0, false, fun _ => false⟩⟩
    (.pass (some 1))).1.ist 0 = some [0, 0, 0, 0, 0, 0, 0, 3] := by decide
example : (cstarts sdlMig Cfg.fixed 0 freshDisk sdlDb
    [(⟨[⟨false, false⟩], ⟨fun _ => ⟨false, none, .none⟩, 2, 999, 0, false, fun _ => false⟩⟩, .pass (some 1)),
     (⟨[⟨false, false⟩], ⟨fun _ => ⟨false, none, .none⟩, 999, 999, 0, false, fun _ => false⟩⟩, .pass none)]).1.cur.has 0 = true := by decide
example : SDL.before (some [1, 2, 3]) = none := by decide
-- round 5: the three outcomes of the steps before the runner occur
example : (nodeStart Cfg.fixed ⟨true, false, .present, false, false⟩ freshDisk l9Start).2.2 = .deprecatedFailed := by decide
example : (nodeStart Cfg.fixed ⟨false, true, .missing, false, true⟩ freshDisk l9Start).2.2 = .l1HeadFailed := by decide
example : (nodeStart Cfg.fixed ⟨false, true, .missing, true, true⟩ freshDisk l9Start).2.2 = .ran .errMigrate := by decide
-- round 5: the error of `Run` names migration 1 when migration 1 fails (migration 0 completes first), and no
-- migration when the context is cancelled at the loop head
example : runStopIdx Cfg.fixed [⟨false, false⟩, ⟨false, false⟩]
    ⟨fun i => if i = 1 then ⟨false, none, .other⟩ else ⟨false, none, .none⟩, 999, 999, 0, false, fun _ => false⟩ freshDisk = some 1 := by decide
example : runStopIdx Cfg.fixed [⟨false, false⟩, ⟨false, false⟩]
    ⟨fun _ => ⟨false, none, .none⟩, 1, 999, 0, false, fun _ => false⟩ freshDisk = none := by decide
-- the opt-in record: an accepted start with the optional migration 1 enabled dies inside migration 0; a binary
-- with migration 1 disabled is refused afterwards
example : newRunner Cfg.fixed [⟨false, false⟩, ⟨true, false⟩]
    (start Cfg.fixed freshDisk ⟨[⟨false, false⟩, ⟨true, true⟩], ⟨fun _ => ⟨false, none, .none⟩, 999, 3, 0, false, fun _ => false⟩⟩).1 ≠ .ok := by decide
example : SV.toStr (5#64) = "SchemaVersion(0b0000000000000000000000000000000000000000000000000000000000000101)" := by decide
-- a migration applied in the first start is not called in the second (and is called in the first)
example : Event.call 0 (0#64) ∈ (start Cfg.fixed freshDisk ⟨[⟨false, false⟩], ⟨fun _ => ⟨false, none, .none⟩, 999, 999, 0, false, fun _ => false⟩⟩).2.1 ∧
    (starts Cfg.fixed freshDisk [⟨[⟨false, false⟩], ⟨fun _ => ⟨false, none, .none⟩, 999, 999, 0, false, fun _ => false⟩⟩]).1.cur.has 0 = true := by decide
example : freshDisk.Clean := fun j h => by
  have : freshDisk.cur = 0#64 := rfl
  rw [this, SV.has_zero] at h; cases h

/-! ## Round 6: node/migration.go over multi-start histories with changing flag sets

`nodeRegistry prune newState` transcribes `registerMigrations(cfg)`, `nodeRun` = `migrateIfNeeded` with that registry,
`nodeRuns` = any number of node starts. Tied by RUNNING the functions of the tree under test (node/migration.go is
copied into the harness package on every run): every sequence of three flag sets, an interruption at every commit
of a start followed by a start without its flag, databases of a newer binary, prune mode without an L1 head. -/

/-- `registerMigrations`: the binary's target is {blocktransactions, statedifflength} ∪ {history pruner iff
`--prune-mode`} ∪ {head state iff `--new-state}` at the indices databases in the field carry (0, 3, 1, 2). -/
theorem node_registry_target (p n : Bool) (j : Nat) :
    SV.has (nodeRegistry p n).target j = (j == 0 || j == 3 || (j == 1 && p) || (j == 2 && n)) :=
  has_nodeRegistry_target p n j

/-- NO WAY AROUND THE REFUSALS. For every database and every configuration of a node start: (a) if the start
reports anything the runner did (other than "metadata unreadable") then every applied and every opted-into
migration is among the migrations this start's flags select; (b) if one is missing — an optional migration applied
or interrupted and now its flag is absent, or a migration of a newer binary — the start touches nothing, calls no
migration and does not report success. (In particular there is no "nothing to do" path: a start whose own
migrations are all applied is still refused when the database has more.) -/
theorem node_start_never_skips_the_runners_refusals (cfg : Cfg) (hfix : cfg.ignoreUnknownLast = false)
    (d : Disk) (c : NodeCfg) :
    (∀ r, (nodeRun cfg d c).2.2 = .ran r → r ≠ .errRead →
      (∀ j, d.cur.has j = true → (nodeRegistry c.ne.prune c.newState).target.has j = true) ∧
      (∀ j, d.last.has j = true → (nodeRegistry c.ne.prune c.newState).target.has j = true)) ∧
    ((∃ j, (d.cur.has j = true ∨ d.last.has j = true) ∧ (nodeRegistry c.ne.prune c.newState).target.has j = false) →
      (nodeRun cfg d c).1 = d ∧ (nodeRun cfg d c).2.1 = [] ∧ ∀ r, (nodeRun cfg d c).2.2 = .ran r → r = .errRead) := by
  constructor
  · intro r hr hne
    by_cases hn : newRunner cfg (nodeRegistry c.ne.prune c.newState) d = .ok
    · exact (downgrade_and_optout_refused cfg hfix _ d).mp hn
    · exact absurd ((nodeRun_of_refused cfg d c hn).2.2 r hr) hne
  · rintro ⟨j, hj, hno⟩
    apply nodeRun_of_refused
    intro hn
    have h := (downgrade_and_optout_refused cfg hfix _ d).mp hn
    rcases hj with hj | hj
    · rw [h.1 j hj] at hno; cases hno
    · rw [h.2 j hj] at hno; cases hno

/-- OVER HISTORIES OF NODE STARTS: once a start whose flags select migration `j` (e.g. `--prune-mode`: j = 1,
`--new-state`: j = 2) has reached the runner and got its first write through — whatever happened to it afterwards:
cancelled, died inside the migration, failed — then after ANY further history of node starts with any flag sets, a
start whose flags do not select `j` changes nothing, calls nothing and does not succeed. -/
theorem node_flag_dropped_after_opt_in_is_refused (cfg : Cfg) (hfix : cfg.ignoreUnknownLast = false)
    (d : Disk) (c0 : NodeCfg) (mid : List NodeCfg) (c : NodeCfg) (j : Nat) (r0 : Result)
    (hran : (nodeRun cfg d c0).2.2 = .ran r0)
    (hok : newRunner cfg (nodeRegistry c0.ne.prune c0.newState) d = .ok)
    (hc : c0.env.crashAt ≠ 0) (hf : c0.env.failAt ≠ 1) (hm : c0.env.metaReadFails = false)
    (hj : (nodeRegistry c0.ne.prune c0.newState).target.has j = true)
    (hdrop : (nodeRegistry c.ne.prune c.newState).target.has j = false) :
    (nodeRun cfg (nodeRuns cfg (nodeRun cfg d c0).1 mid).1 c).1 = (nodeRuns cfg (nodeRun cfg d c0).1 mid).1 ∧
    (nodeRun cfg (nodeRuns cfg (nodeRun cfg d c0).1 mid).1 c).2.1 = [] ∧
    ∀ r, (nodeRun cfg (nodeRuns cfg (nodeRun cfg d c0).1 mid).1 c).2.2 = .ran r → r = .errRead := by
  have h1 : (nodeRun cfg d c0).1.last.has j = true := by
    rcases nodeRun_cases cfg d c0 with ⟨_, _, h3⟩ | ⟨h1, _, _⟩
    · rcases h3 with h3 | h3 <;> rw [h3] at hran <;> cases hran
    · rw [h1, last_target_recorded_by_first_write cfg d c0.start hok hc hf hm]; exact hj
  have h2 := nodeRuns_last_mono cfg hfix mid _ j h1
  exact (node_start_never_skips_the_runners_refusals cfg hfix _ c).2 ⟨j, .inr h2, hdrop⟩

/-- NODE HISTORIES ARE RUNNER HISTORIES, and so inherit the runner's guarantees: for every history of node starts
with changing flag sets (each possibly stopped before the runner, refused, cancelled, killed, with failing reads or
writes) from a database whose applied bits carry no resume token: a migration recorded as applied at the end was
applied at the beginning or its `Migrate` returned `(nil, nil)` in the history; applied bits are never cleared; and
"applied ⇒ no resume token left" still holds at the end. -/
theorem node_history_keeps_the_runners_guarantees (cfg : Cfg) (hfix : cfg.markOnNilCtx = false) (d : Disk)
    (cs : List NodeCfg) (j : Nat) :
    ((nodeRuns cfg d cs).1.cur.has j = true → d.cur.has j = true ∨ Completed (nodeRuns cfg d cs).2 j) ∧
    (d.cur.has j = true → (nodeRuns cfg d cs).1.cur.has j = true) ∧
    (d.Clean → (nodeRuns cfg d cs).1.Clean) := by
  obtain ⟨sts, _, heq⟩ := nodeRuns_eq_starts cfg cs d
  rw [heq]
  exact ⟨applied_implies_complete cfg hfix d sts j, applied_is_permanent cfg d sts j,
    applied_clears_intermediate_state cfg d sts⟩

-- non-vacuity (round 6): a start with --prune-mode dies inside migration 0 (tick 3); a later start without the flag is
-- refused with the database untouched; with the flag it runs; after a completed upgrade with both flags a start
-- with no flag (all of ITS migrations applied) is refused as well
example : (nodeRun Cfg.fixed (nodeRun Cfg.fixed freshDisk
      ⟨⟨false, true, .present, false, false⟩, false, ⟨fun _ => ⟨false, none, .none⟩, 999, 3, 0, false, fun _ => false⟩⟩).1
    ⟨⟨false, false, .present, false, false⟩, false, ⟨fun _ => ⟨false, none, .none⟩, 999, 999, 0, false, fun _ => false⟩⟩).2.2 = .refused := by decide
example : (nodeRun Cfg.fixed (nodeRun Cfg.fixed freshDisk
      ⟨⟨false, true, .present, false, false⟩, false, ⟨fun _ => ⟨false, none, .none⟩, 999, 3, 0, false, fun _ => false⟩⟩).1
    ⟨⟨false, true, .present, false, true⟩, false, ⟨fun _ => ⟨false, none, .none⟩, 999, 999, 0, false, fun _ => false⟩⟩).2.2 = .ran .ok := by decide
example : (nodeRun Cfg.fixed freshDisk
      ⟨⟨false, true, .present, false, false⟩, false, ⟨fun _ => ⟨false, none, .none⟩, 999, 3, 0, false, fun _ => false⟩⟩).2.2 = .ran .crashed := by decide
example : (nodeRuns Cfg.fixed freshDisk
      [⟨⟨false, true, .present, false, false⟩, true, ⟨fun _ => ⟨false, none, .none⟩, 999, 999, 0, false, fun _ => false⟩⟩,
       ⟨⟨false, false, .present, false, false⟩, false, ⟨fun _ => ⟨false, none, .none⟩, 999, 999, 0, false, fun _ => false⟩⟩]).1.cur = 15#64 := by decide
example : (nodeRegistry true false).target = 11#64 ∧ (nodeRegistry false false).target = 9#64 := by decide

end Juno.C18.Props
