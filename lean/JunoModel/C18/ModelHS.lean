/-
C18 — model of the head-state migration (migration/state/headstate/*.go): the deprecated per-field
contract layout (ContractClassHash[addr], ContractNonce[addr], ContractDeploymentHeight[addr]) is
consolidated into one Contract[addr] record; afterwards the three deprecated buckets are wiped.
Core Lean only (linked into the driver).

Abstractions: addresses are `0 … n-1` in key order of the ContractClassHash bucket; felts are
naturals; the ingest/commit pipeline is modelled by its effect (the source hands out the pending
addresses in order, a cancellation stops it after `k` of them and everything handed out is
committed; when the process dies or a batch write fails any subset may be committed); the three
`DeleteRange`s of the wipe are three separate commits.
-/
namespace Juno.C18.HS

structure Acct where
  cls : Option Nat                    -- ContractClassHash[addr]
  nonce : Option Nat                  -- ContractNonce[addr] (absent: never written, reads as 0)
  height : Option Nat                 -- ContractDeploymentHeight[addr]
  contract : Option (Nat × Nat × Nat) -- Contract[addr] = (Nonce, ClassHash, DeployedHeight)
  deriving Repr, DecidableEq

structure Db where
  n : Nat
  acct : Nat → Acct

/-- `ingestor.ingestAddress`: the account after its batch is committed; `.error` = a read fails
(`GetContractDeploymentHeight` / `GetContractClassHash` on a missing key). -/
def ingest (k : Acct) : Except Unit Acct :=
  if k.contract.isSome then .ok k                          -- HasContract: skip
  else match k.cls, k.height with
    | some c, some h => .ok { k with contract := some (k.nonce.getD 0, c, h) }
    | _, _ => .error ()

/-- `pendingAddresses`: the addresses with a ContractClassHash entry, in key order. -/
def pending (db : Db) : List Nat := (List.range db.n).filter (fun a => (db.acct a).cls.isSome)

/-- Position of address `a` among the pending ones (how many pending addresses precede it). -/
def rank (db : Db) (a : Nat) : Nat := ((List.range a).filter (fun b => (db.acct b).cls.isSome)).length

def passFails (db : Db) (e : Nat) : Bool :=
  (pending db).any (fun a => decide (rank db a < e) &&
    (match ingest (db.acct a) with | .ok _ => false | .error _ => true))

/-- The database after the batches of the selected pending addresses (by rank) are committed. -/
def applyPass (db : Db) (sel : Nat → Bool) : Db :=
  { db with acct := fun a =>
      if a < db.n ∧ (db.acct a).cls.isSome = true ∧ sel (rank db a) = true then
        match ingest (db.acct a) with
        | .ok k => k
        | .error _ => db.acct a
      else db.acct a }

/-- `wipeDeprecatedBuckets` after `k` of its three `DeleteRange`s (class hash, nonce, height). -/
def wipe (db : Db) (k : Nat) : Db :=
  { db with acct := fun a =>
      let x := db.acct a
      if a < db.n then
        { x with cls := if k ≥ 1 then none else x.cls,
                 nonce := if k ≥ 2 then none else x.nonce,
                 height := if k ≥ 3 then none else x.height }
      else x }

/-- `(nil, nil)`; `(shouldRerun, wrapped ctx.Err())`; `(_, other error)`; the process died. -/
inductive Ret | done | rerun | failed | crashed
  deriving Repr, DecidableEq

inductive Step
  /-- undisturbed (`none`) or cancelled after `k` addresses were handed out (`some k`) -/
  | pass (emit : Option Nat)
  /-- the process dies during the pass: of the addresses handed out those selected were committed -/
  | crash (emit : Option Nat) (sel : List Bool)
  /-- a batch write fails during the pass -/
  | writeFail (emit : Option Nat) (sel : List Bool)
  /-- the process dies during the wipe after `k < 3` of the three range deletions -/
  | crashWipe (k : Nat)
  /-- the `k+1`-th range deletion of the wipe fails: `(nil, err)` -/
  | failWipe (k : Nat)

/-- `Migrator.Migrate`. -/
def migrate (db : Db) (st : Step) : Db × Ret :=
  let all := (pending db).length
  match st with
  | .crash emit sel =>
    let e := min (emit.getD all) all
    (applyPass db (fun i => decide (i < e) && sel.getD i false), .crashed)
  | .writeFail emit sel =>
    let e := min (emit.getD all) all
    (applyPass db (fun i => decide (i < e) && sel.getD i false), .failed)
  | .pass emit =>
    let e := min (emit.getD all) all
    if passFails db e then (db, .failed) else
    if e < all then (applyPass db (fun i => decide (i < e)), .rerun)
    else (wipe (applyPass db (fun _ => true)) 3, .done)
  | .crashWipe k =>
    if passFails db all then (db, .failed) else
    (wipe (applyPass db (fun _ => true)) (min k 2), .crashed)
  | .failWipe k =>
    if passFails db all then (db, .failed) else
    (wipe (applyPass db (fun _ => true)) (min k 2), .failed)

def attempts : Db → List Step → Db
  | db, [] => db
  | db, s :: r => attempts (migrate db s).1 r

end Juno.C18.HS
