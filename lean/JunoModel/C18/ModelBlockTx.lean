/-
C18 — model of the block-transactions migration (migration/blocktransactions/*.go): the previous
layout stores every transaction and every receipt under its own key `(block, index)`; the current
layout stores one blob per block. Core Lean only (linked into the driver).

What is abstracted: a transaction / receipt is an opaque item (its stored bytes); the per-block
entries of the old buckets are a list in index order (the old writer numbers them 0..n-1 and the
migration only ever scans them in key order); nothing is stored above the chain height. The
ingest/commit pipeline is modelled by its effect: every emitted range of `batchSize` blocks is
ingested from the database (ranges are disjoint, so what an ingestor reads does not depend on
what the others have committed) and its writes are committed atomically with the deletion of the
old entries of the range; *which* ranges have been committed when the process dies is arbitrary.
-/
namespace Juno.C18.BlockTx

abbrev Item := Nat
/-- (transactions, receipts) of one block. -/
abbrev Content := List Item × List Item

structure Blk where
  hdr : Option Nat          -- header present, with its TransactionCount
  otx : List Item           -- bucket TransactionsByBlockNumberAndIndex, entries of this block
  orc : List Item           -- bucket ReceiptsByBlockNumberAndIndex, entries of this block
  blob : Option Content     -- bucket BlockTransactions
  deriving Repr, DecidableEq

structure Db where
  height : Option Nat       -- ChainHeight
  blk : Nat → Blk

/-- What the current accessors (`core.GetTransactionsByBlockNumber`, `GetReceiptsByBlockNumber`,
`GetBlockByNumber`, …) return for a block: the blob's content, `none` = `db.ErrKeyNotFound`. -/
def view (k : Blk) : Option Content := k.blob

/-- What the accessors of the previous layout returned: a prefix scan (never "not found"). -/
def oldView (k : Blk) : Content := (k.otx, k.orc)

structure Cfg where
  /-- ingestor.go `ingestBlock`: when `validateCount` finds the block already migrated it returns
  nil and the caller goes on to `Put` the (empty) freshly built blob. `true` = as pinned. -/
  overwriteMigrated : Bool
  /-- blocktransactions.go `Migrate`: blocks that have no old entries and lie outside every pass
  (below the aligned first block, or in a range whose blocks are all empty) never get a blob.
  `true` = as pinned; `false` = a final pass stores the empty blob for them. -/
  skipUnstoredEmpty : Bool
  deriving Repr, DecidableEq

def Cfg.pinned : Cfg := ⟨true, true⟩
def Cfg.fixed : Cfg := ⟨false, false⟩

def batchSize : Nat := 10

/-- First block (≤ h) satisfying `p`, in key order. -/
def firstBlock (db : Db) (h : Nat) (p : Blk → Bool) : Option Nat :=
  (List.range (h + 1)).find? (fun b => p (db.blk b))

/-- check_status.go `getFirstBlockToMigrate`: `.error` = "transactions and receipts have
different first block"; `.ok none` = nothing left (`shouldMigrate = false`). -/
def getFirst (db : Db) (h : Nat) : Except Unit (Option Nat) :=
  match firstBlock db h (fun k => !k.otx.isEmpty), firstBlock db h (fun k => !k.orc.isEmpty) with
  | none, none => .ok none
  | some t, some r => if t = r then .ok (some (t - t % batchSize)) else .error ()
  | _, _ => .error ()

/-- ingestor.go `ingestBlock` + `validateCount` on one block; the new state of the block once
the batch (which also deletes the old entries of the whole range) is committed. -/
def ingestBlk (cfg : Cfg) (k : Blk) : Except Unit Blk :=
  match k.hdr with
  | none => .error ()                                   -- GetBlockHeaderByNumber fails
  | some cnt =>
    let put : Except Unit Blk := .ok { k with otx := [], orc := [], blob := some (k.otx, k.orc) }
    let counts : Except Unit Blk :=
      if k.otx.length ≠ cnt then .error ()
      else if k.orc.length ≠ cnt then .error ()
      else put
    if k.otx.isEmpty || k.orc.isEmpty then
      if k.blob.isSome then
        -- "skipping already migrated block": validateCount returns nil …
        if cfg.overwriteMigrated then put               -- … and ingestBlock still Puts
        else .ok { k with otx := [], orc := [] }
      else if cnt > 0 then .error ()                    -- "missing transactions and receipts"
      else counts
    else counts

/-- Number of ranges a pass from `f` emits when it is not interrupted. -/
def numRanges (f h : Nat) : Nat := (h - f) / batchSize + 1

/-- Does any block of the emitted ranges fail to ingest? -/
def passFails (cfg : Cfg) (db : Db) (f h emit : Nat) : Bool :=
  (List.range (h + 1)).any (fun b =>
    f ≤ b && (b - f) / batchSize < emit &&
      (match ingestBlk cfg (db.blk b) with | .ok _ => false | .error _ => true))

/-- The database after the batches of the selected ranges have been committed. -/
def applyPass (cfg : Cfg) (db : Db) (f h : Nat) (sel : Nat → Bool) : Db :=
  { db with blk := fun b =>
      if f ≤ b ∧ b ≤ h ∧ sel ((b - f) / batchSize) = true then
        match ingestBlk cfg (db.blk b) with
        | .ok k => k
        | .error _ => db.blk b
      else db.blk b }

/-- The partial batch of a range whose ingest loop returned early: the new entries of its first
`k` blocks, no deletion of old entries. -/
def applyPartial (cfg : Cfg) (db : Db) (f h r k : Nat) : Db :=
  { db with blk := fun b =>
      if f + r * batchSize ≤ b ∧ b < f + r * batchSize + k ∧ b < f + (r + 1) * batchSize ∧ b ≤ h then
        match ingestBlk cfg (db.blk b) with
        | .ok x => { db.blk b with blob := x.blob }
        | .error _ => db.blk b
      else db.blk b }

/-- The repaired final step: every block without a blob must be an empty block and gets the
empty blob (one batch). `.error` = a block without blob whose header announces transactions. -/
def backfill (db : Db) (h : Nat) : Except Unit Db :=
  if (List.range (h + 1)).any (fun b => (db.blk b).blob.isNone && (db.blk b).hdr != some 0) then
    .error ()
  else
    .ok { db with blk := fun b =>
      if b ≤ h ∧ (db.blk b).blob.isNone then { db.blk b with blob := some ([], []) } else db.blk b }

/-- What one `Migrate` call returned: `(nil, nil)`, `(shouldRerun, nil)`, `(shouldRerun, err)`;
or the process died inside. -/
inductive Ret
  | done | rerun | failed | crashed | diverged
  /-- `(shouldNotRerun, err)`: `return shouldNotRerun, clearOldBuckets(database)` when one of the two
  `DeletePrefix` fails — a NIL state together with an error (every other failure returns
  `shouldRerun`). -/
  | failedNil
  deriving Repr, DecidableEq

/-- What the environment does during one iteration of the `for` loop of `Migrate`. -/
inductive Step
  /-- `ctx.Done()` is observed at the loop head. -/
  | cancelHead
  /-- A pass; `emit = none`: the source ran to the end, `some k`: cancellation stopped the source
  after `k` ranges; everything emitted is ingested and committed (graceful). -/
  | pass (emit : Option Nat)
  /-- The process dies during the pass: of the emitted ranges, those selected were committed. -/
  | crash (emit : Option Nat) (sel : List Bool)
  /-- The process dies before the final step (back-fill / clearing of the old buckets) commits. -/
  | crashFinal
  /-- A batch write fails (disk full, I/O error): the committer returns the error, the pipeline is
  cancelled; of the emitted ranges those selected had been (or still get) committed. `Migrate`
  returns `(shouldRerun, err)`. In the final step: the back-fill / clearing write fails. -/
  | writeFail (emit : Option Nat) (sel : List Bool)
  /-- A READ fails while range number `r` is being ingested, at its `k`-th block (header fetch,
  transaction / receipt scan, `Has`): `ingestBlockRange` returns early, the pipeline is cancelled, and
  `Done` still hands the worker's batch to the committer. That batch holds the complete earlier
  ranges of the worker and, for range `r`, only the `Put`s of its first `k` blocks — the deletion of
  the old entries of the range comes after the loop and was never added. With a persistent fault
  several workers fail, each in its own range. `sel`: which complete ranges were committed;
  `partials`: the `(r, k)` whose partial batch was committed. `(shouldRerun, err)`. -/
  | ingestError (emit : Option Nat) (sel : List Bool) (partials : List (Nat × Nat))
  /-- A graceful pass (as `pass`) in which the write of some batches that held NOTHING TO MIGRATE was
  elided: of the emitted ranges, a range that is not selected and holds no old entry (all its blocks
  are empty or already migrated) is left as it was — its empty blocks get no entry in this pass. The
  committer of the current tree writes every batch (`sel` all true, which is `pass`); a committer that
  skips a batch whose `totalTxCount` is 0 behaves like this. The final back-fill stores the missing
  empty entries, so the theorems hold for both. A range WITH old entries is always committed. -/
  | passSkip (emit : Option Nat) (sel : List Bool)
  /-- Final step (no old entry left): the back-fill batch is committed, then the process dies before
  or inside `clearOldBuckets` (two `DeletePrefix` on buckets that are empty already). -/
  | crashClear
  /-- Final step: the back-fill batch is committed, then a `DeletePrefix` of `clearOldBuckets` fails:
  `Migrate` returns `(shouldNotRerun, err)`. -/
  | failClear

/-- Does the step model a CANCELLATION of the context (observed at the loop head, or by the source
after `k` ranges)? -/
def Step.cancels : Step → Bool
  | .cancelHead => true
  | .pass (some _) => true
  | .passSkip (some _) _ => true
  | _ => false

def selOf (l : List Bool) (i : Nat) : Bool := l.getD i false

/-- Does range number `i` of a pass from `f` hold an old entry (transaction or receipt)? -/
def rangeHasOld (db : Db) (f h i : Nat) : Bool :=
  (List.range (h + 1)).any (fun b =>
    decide (f ≤ b) && decide ((b - f) / batchSize = i) && (!(db.blk b).otx.isEmpty || !(db.blk b).orc.isEmpty))

/-- One iteration of the loop. `none` = go round again. -/
def iteration (cfg : Cfg) (db : Db) (h : Nat) (st : Step) : Db × Option Ret :=
  match st with
  | .cancelHead => (db, some .rerun)
  | _ =>
    match getFirst db h with
    | .error _ => (db, some .failed)
    | .ok none =>
      -- "no starting block found, exiting": clearOldBuckets (both buckets are empty already)
      match st with
      | .crashFinal => (db, some .crashed)
      | .crash _ _ => (db, some .crashed)
      | .writeFail _ _ => (db, some .failed)
      | .ingestError _ _ _ => (db, some .failed)
      | .crashClear =>
        if cfg.skipUnstoredEmpty then (db, some .crashed)
        else match backfill db h with
          | .ok db' => (db', some .crashed)
          | .error _ => (db, some .failed)
      | .failClear =>
        if cfg.skipUnstoredEmpty then (db, some .failedNil)
        else match backfill db h with
          | .ok db' => (db', some .failedNil)
          | .error _ => (db, some .failed)
      | _ =>
        if cfg.skipUnstoredEmpty then (db, some .done)
        else match backfill db h with
          | .ok db' => (db', some .done)
          | .error _ => (db, some .failed)
    | .ok (some f) =>
      let all := numRanges f h
      match st with
      | .crashFinal => (db, some .crashed)
      | .crashClear => (db, some .crashed)      -- not in the final step yet: dies before any commit
      | .failClear => (db, some .failed)        -- not in the final step yet: a failed batch write, nothing committed
      | .passSkip emit sel =>
        let e := min (emit.getD all) all
        if passFails cfg db f h e then (db, some .failed)
        else
          let db' := applyPass cfg db f h (fun i => decide (i < e) && (selOf sel i || rangeHasOld db f h i))
          if e < all then (db', some .rerun) else (db', none)
      | .crash emit sel =>
        let e := min (emit.getD all) all
        (applyPass cfg db f h (fun i => decide (i < e) && selOf sel i), some .crashed)
      | .writeFail emit sel =>
        let e := min (emit.getD all) all
        (applyPass cfg db f h (fun i => decide (i < e) && selOf sel i), some .failed)
      | .ingestError emit sel partials =>
        let e := min (emit.getD all) all
        let db1 := applyPass cfg db f h (fun i => decide (i < e) && !(partials.any (fun p => p.1 == i)) && selOf sel i)
        (partials.foldl (fun d p => applyPartial cfg d f h p.1 p.2) db1, some .failed)
      | .pass emit =>
        let e := min (emit.getD all) all
        if passFails cfg db f h e then (db, some .failed)
        else
          let db' := applyPass cfg db f h (fun i => decide (i < e))
          if e < all then (db', some .rerun) else (db', none)
      | .cancelHead => (db, some .rerun)

/-- `Migrator.Migrate`: the environment's steps are consumed one per loop iteration; when they
run out the migration is left alone (`pass none`). -/
def migrateLoop (cfg : Cfg) (h : Nat) : Nat → Db → List Step → Db × Ret
  | 0, db, _ => (db, .diverged)
  | fuel + 1, db, steps =>
    let (st, rest) := match steps with | [] => (Step.pass none, []) | s :: r => (s, r)
    match iteration cfg db h st with
    | (db', some r) => (db', r)
    | (db', none) => migrateLoop cfg h fuel db' rest

def migrate (cfg : Cfg) (db : Db) (steps : List Step) : Db × Ret :=
  match db.height with
  | none => (db, .done)                     -- empty database: `return shouldNotRerun, nil`
  | some h => migrateLoop cfg h 3 db steps

end Juno.C18.BlockTx
