/-
C18 — model of juno's schema-migration runner (migration/version.go, registry.go, metadata.go,
runner.go). The block-transactions migration is modelled in `ModelBlockTx.lean`.
Core Lean only: this file is linked into the driver executable.

The model transcribes the code as it is at the pinned commit. Where the code has a defect the
behaviour is selected by a flag of `Cfg` (`true` = the code as pinned, `false` = the repaired
code of /verif/proposed-fixes), so the same model follows the tree when a fix is applied; the
harness probes the real code and tells the driver which flags hold.
-/
namespace Juno.C18

abbrev Bytes := List UInt8

/-! ## `SchemaVersion` (migration/version.go): a `uint64` bitset -/

abbrev SV := BitVec 64

namespace SV

/-- `Has`: `(sv & (1 << index)) != 0` (a shift count ≥ 64 gives 0 in Go and here). -/
def has (s : SV) (i : Nat) : Bool := (s &&& ((1#64) <<< i)) != 0#64

/-- `Set`: `*sv |= 1 << index`. -/
def set (s : SV) (i : Nat) : SV := s ||| ((1#64) <<< i)

/-- `Difference`: `sv &^ other`. -/
def diff (a b : SV) : SV := a &&& ~~~b

/-- `Contains`: `other.Difference(sv) == 0`. -/
def contains (a b : SV) : Bool := diff b a == 0#64

/-- `Union`. -/
def union (a b : SV) : SV := a ||| b

/-- `bits.TrailingZeros64` by linear search (64 for zero). -/
def tzAux (s : SV) : Nat → Nat → Nat
  | 0, i => i
  | fuel + 1, i => if s.getLsbD i then i else tzAux s fuel (i + 1)

def tz (s : SV) : Nat := tzAux s 64 0

/-- The loop of `Iter` transcribed: `n` is the remaining (shifted) word, `offset` the trailing
zero count of `n`, `idx` the absolute index of the next set bit. -/
def iterLoop : Nat → SV → Nat → Nat → List Nat
  | 0, _, _, _ => []
  | fuel + 1, n, offset, idx =>
    if idx < 64 then
      idx :: (let n' := n >>> (offset + 1)
              if n' == 0#64 then [] else
                let o := tz n'
                iterLoop fuel n' o (idx + o + 1))
    else []

/-- `Iter` as written in version.go (trailing-zeros walk). -/
def iterGo (s : SV) : List Nat :=
  if s == 0#64 then [] else let o := tz s; iterLoop 64 s o o

/-- `Iter` by specification: the set bit indices in ascending order. The runner model uses this
one; `iterGo` is compared with it (and with the real `Iter`) by the harness. -/
def iter (s : SV) : List Nat := (List.range 64).filter (fun i => s.getLsbD i)

/-- `Len`: `bits.OnesCount64`. -/
def len (s : SV) : Nat := (iter s).length

/-- `HighestBit`: `bits.Len64(sv) - 1` (−1 for the empty set). -/
def highestBit (s : SV) : Int :=
  match (iter s).getLast? with
  | some i => (i : Int)
  | none => -1

/-- The 64 binary digits `%064b` prints, most significant first. -/
def digits (s : SV) : List Char := (List.range 64).reverse.map (fun i => if s.getLsbD i then '1' else '0')

/-- `String`: `fmt.Sprintf("SchemaVersion(0b%064b)", sv)`. -/
def toStr (s : SV) : String := "SchemaVersion(0b" ++ String.ofList (digits s) ++ ")"

end SV

/-! ## Registry (migration/registry.go) -/

/-- One registered migration: `With` (mandatory) or `WithOptional(_, enabled, name)`. -/
structure Entry where
  optional : Bool
  enabled : Bool
  deriving Repr, DecidableEq

/-- The registry of a binary + configuration: entry `i` is migration index `i`. `With` panics
beyond 64 entries, so a registry has at most 64 entries (`Registry.ok`). -/
abbrev Registry := List Entry

def Entry.inTarget (e : Entry) : Bool := !e.optional || e.enabled

def targetAux : List Entry → Nat → SV → SV
  | [], _, acc => acc
  | e :: es, i, acc => targetAux es (i + 1) (if e.inTarget then SV.set acc i else acc)

/-- `TargetVersion()`: built incrementally by `With` / `WithOptional`. -/
def Registry.target (r : Registry) : SV := targetAux r 0 0#64

def Registry.ok (r : Registry) : Bool := r.length ≤ 64

/-! ## Behaviour switches -/

structure Cfg where
  /-- runner.go `runMigration`: when `Migrate` returns `(nil, err)` with `errors.Is(err, ctx.Err())`
  the code falls through to "mark as applied". `true` = as pinned. -/
  markOnNilCtx : Bool
  /-- runner.go `validateNoOptOut`: bits of `LastTargetVersion` beyond the registry are skipped
  (`break`) and nothing else looks at them. `true` = as pinned. -/
  ignoreUnknownLast : Bool
  deriving Repr, DecidableEq

/-- The code at the pinned commit. -/
def Cfg.pinned : Cfg := ⟨true, true⟩
/-- The code with /verif/proposed-fixes applied. -/
def Cfg.fixed : Cfg := ⟨false, false⟩

/-! ## Persistent state the runner owns (migration/metadata.go) -/

structure Meta where
  cur : SV      -- CurrentVersion: applied migrations
  last : SV     -- LastTargetVersion
  deriving Repr, DecidableEq

structure Disk where
  md : Option Meta            -- bucket SchemaMetadata (absent on a fresh database)
  ist : Nat → Option Bytes      -- bucket SchemaIntermediateState, key = migration index

def Disk.metaD (d : Disk) : Meta := d.md.getD ⟨0#64, 0#64⟩

def Disk.setIst (d : Disk) (i : Nat) (v : Option Bytes) : Disk :=
  { d with ist := fun j => if j = i then v else d.ist j }

/-! ## `NewRunner`: opt-out and downgrade validation -/

/-- The loop of `validateNoOptOut` over `optOutAttempts.Iter()`: number of flags collected; stops
(`break`) at the first index beyond the registry. -/
def optOutLoop (count : Nat) : List Nat → Nat
  | [] => 0
  | idx :: rest => if idx ≥ count then 0 else 1 + optOutLoop count rest

/-- `validateNoOptOut(target, lastTarget, flags)`; `true` = no error. -/
def validateNoOptOut (cfg : Cfg) (target last : SV) (count : Nat) : Bool :=
  let attempts := SV.diff last target
  if attempts == 0#64 then true
  else if cfg.ignoreUnknownLast then optOutLoop count (SV.iter attempts) == 0
  else false

/-- `validateNoVersionDowngrade(current, target)`; `true` = no error. -/
def validateNoVersionDowngrade (cur target : SV) : Bool := SV.contains target cur

inductive Open | ok | optOut | downgrade
  deriving Repr, DecidableEq

/-- `NewRunner(registry, database, …)`: which validation (if any) refuses the database. -/
def newRunner (cfg : Cfg) (reg : Registry) (d : Disk) : Open :=
  let m := d.metaD
  if !validateNoOptOut cfg reg.target m.last reg.length then .optOut
  else if !validateNoVersionDowngrade m.cur reg.target then .downgrade
  else .ok

/-! ### Which error `NewRunner` returns (current tree; runner.go `validateNoOptOut` transcribed with its
flag list, `validateNoVersionDowngrade`, `errNewerDatabase`) -/

/-- The `for idx := range optOutAttempts.Iter()` loop of `validateNoOptOut`: `acc` is `flagList`
(the indices whose flag is named, in order); `none` = `return errNewerDatabase` (the first
attempt is already beyond the registry); an index beyond the registry after at least one named
flag ends the loop (`break`). -/
def optOutFlagLoop (count : Nat) : List Nat → List Nat → Option (List Nat)
  | [], acc => some acc
  | idx :: rest, acc =>
    if idx ≥ count then (if acc.isEmpty then none else some acc)
    else optOutFlagLoop count rest (acc ++ [idx])

/-- What `NewRunner` answers: a runner; `errNewerDatabase`; or "cannot opt out of previously
enabled migrations: [flags]" with the indices of the migrations whose flags are named. -/
inductive OpenV | ok | newer | optOut (flags : List Nat)
  deriving Repr, DecidableEq

/-- `validateNoOptOut(target, lastTarget, flags)` of the current tree, with the error it builds. -/
def validateNoOptOutV (target last : SV) (count : Nat) : OpenV :=
  let attempts := SV.diff last target
  if attempts == 0#64 then .ok
  else match optOutFlagLoop count (SV.iter attempts) [] with
    | none => .newer                      -- return errNewerDatabase
    | some [] => .ok                      -- if len(flagList) == 0 { return nil }
    | some l => .optOut l

/-- `NewRunner` of the current tree: opt-out validation first, then the downgrade validation. -/
def newRunnerV (reg : Registry) (d : Disk) : OpenV :=
  let m := d.metaD
  match validateNoOptOutV reg.target m.last reg.length with
  | .ok => if validateNoVersionDowngrade m.cur reg.target then .ok else .newer
  | e => e

/-- The flag an opt-out error names for migration `i`: `--<name>` of an optional migration,
`--migration-<i>` for a mandatory one (its `optionalMigrationFlags` slot is empty); `true` = named
by its flag. -/
def flagNamed (reg : Registry) (i : Nat) : Bool := (reg[i]?.map Entry.optional).getD false

/-! ## `Run` -/

/-- Class of the error returned by a migration's `Migrate`: none; an error whose chain contains
the context's error (`context.Canceled`); any other error. -/
inductive ErrK | none | ctx | other
  deriving Repr, DecidableEq

/-- What migration `i` does when the runner calls it in this run: `Before` fails or not, and the
pair `Migrate` returns. The effect on the chain data is not the runner's business; it is the
subject of the per-migration models. -/
structure MigStep where
  beforeFails : Bool
  st : Option Bytes
  err : ErrK
  deriving Repr, DecidableEq

/-- Everything the environment decides during one `Run`. Time is counted in *ticks*: every runner
write (a commit) and every call into a migration (`Before`, `Migrate`) is one tick.
`cancelAt = k`: the context is cancelled during tick `k` (0: already cancelled when `Run` starts);
`crashAt = k`: the process dies right after tick `k` (0: before doing anything); a tick that is a
write is durable, a tick that is a `Migrate` call means the process died inside the migration. -/
structure Env where
  beh : Nat → MigStep
  cancelAt : Nat
  crashAt : Nat
  /-- `failAt = k > 0`: the runner write that would be tick `k` fails (disk full, I/O error): nothing
  is written and the error is returned (all three write sites of the runner return it). -/
  failAt : Nat
  /-- `NewRunner`'s `GetSchemaMetadata` returns an error other than `db.ErrKeyNotFound` (I/O error):
  `NewRunner` returns it, nothing is validated, nothing is written. -/
  metaReadFails : Bool
  /-- `runMigration i`'s `GetIntermediateState` returns an error other than `db.ErrKeyNotFound`:
  `runMigration` returns it before `Before` is called. -/
  istReadFails : Nat → Bool

inductive Event
  | metaWrite (m : Meta)
  | before (i : Nat) (st : Option Bytes)
  | call (i : Nat) (cur : SV)     -- Migrate called; `cur` = migrations applied at that moment
  | ret (i : Nat) (st : Option Bytes) (err : ErrK) (cancelled : Bool)
  | save (i : Nat) (st : Bytes)
  | apply (i : Nat)
  deriving Repr, DecidableEq

inductive Result | ok | cancelled | errBefore | errMigrate | errWrite | errRead | crashed
  deriving Repr, DecidableEq

structure RunSt where
  disk : Disk
  cur : SV            -- mr.metadata.CurrentVersion (in memory)
  tick : Nat
  log : List Event    -- newest first

def RunSt.dead (env : Env) (s : RunSt) : Bool := env.crashAt ≤ s.tick
def RunSt.cancelled (env : Env) (s : RunSt) : Bool := env.cancelAt ≤ s.tick
def RunSt.tickEv (s : RunSt) (e : Event) : RunSt := { s with tick := s.tick + 1, log := e :: s.log }
/-- The write the runner is about to make (it would be tick `s.tick + 1`) fails. -/
def RunSt.writeFails (env : Env) (s : RunSt) : Bool := env.failAt == s.tick + 1

/-- `runMigration`. `none` = returned nil (go on with the next pending migration). -/
def runMigration (cfg : Cfg) (env : Env) (last : SV) (i : Nat) (s : RunSt) : RunSt × Option Result :=
  -- GetIntermediateState
  let st0 := s.disk.ist i
  if s.dead env then (s, some .crashed) else
  -- if err != nil && !errors.Is(err, db.ErrKeyNotFound) { return "getting intermediate state" }
  if env.istReadFails i then (s, some .errRead) else
  -- migration.Before(intermediateState)
  let s := s.tickEv (.before i st0)
  let b := env.beh i
  if b.beforeFails then (s, some .errBefore) else
  -- migration.Migrate(ctx, …)
  if s.dead env then (s, some .crashed) else
  let s := s.tickEv (.call i s.cur)
  if s.dead env then (s, some .crashed) else     -- died inside Migrate
  let c := s.cancelled env
  let s := { s with log := .ret i b.st b.err c :: s.log }
  -- if err != nil && !errors.Is(err, ctx.Err()) { return err }
  let isCtx := b.err == .ctx && c
  if b.err != .none && !isCtx then (s, some .errMigrate) else
  match b.st with
  | some st =>
    -- WriteIntermediateState; return ctx.Err()
    if s.writeFails env then ({ s with tick := s.tick + 1 }, some .errWrite) else
    let s := { s.tickEv (.save i st) with disk := s.disk.setIst i (some st) }
    (s, if s.cancelled env then some .cancelled else none)
  | none =>
    if b.err != .none && !cfg.markOnNilCtx then (s, some .errMigrate) else
    -- CurrentVersion.Set(i); batch { WriteSchemaMetadata; DeleteIntermediateState }; Write
    if s.writeFails env then ({ s with tick := s.tick + 1 }, some .errWrite) else
    let cur := SV.set s.cur i
    let s := { s.tickEv (.apply i) with
                cur := cur, disk := { (s.disk.setIst i none) with md := some ⟨cur, last⟩ } }
    (s, none)

/-- The `for migrationIndex := range pending.Iter()` loop. -/
def runLoop (cfg : Cfg) (env : Env) (last : SV) : List Nat → RunSt → RunSt × Result
  | [], s =>                                                        -- return ctx.Err()
    (s, if s.dead env then .crashed else if s.cancelled env then .cancelled else .ok)
  | i :: rest, s =>
    if s.dead env then (s, .crashed) else
    if s.cancelled env then (s, .cancelled) else                   -- if err := ctx.Err(); err != nil
    match runMigration cfg env last i s with
    | (s', some r) => (s', r)
    | (s', none) => runLoop cfg env last rest s'

/-- `(*MigrationRunner).Run` on a runner made by `NewRunner` (which read `d.md`). -/
def run (cfg : Cfg) (reg : Registry) (env : Env) (d : Disk) : RunSt × Result :=
  let m := d.metaD
  let target := reg.target
  let s : RunSt := ⟨d, m.cur, 0, []⟩
  -- mr.metadata.LastTargetVersion = mr.targetVersion; WriteSchemaMetadata
  if s.dead env then (s, .crashed) else
  if s.writeFails env then (s, .errWrite) else
  let s := { s.tickEv (.metaWrite ⟨m.cur, target⟩) with disk := { d with md := some ⟨m.cur, target⟩ } }
  if s.dead env then (s, .crashed) else
  let pending := SV.diff target m.cur
  if pending == 0#64 then (s, .ok) else
  runLoop cfg env target (SV.iter pending) s

/-- Which migration `Run`'s error names (`fmt.Errorf("running migration at index %d: %w", …)`): the index
at which the `for` loop stopped because `runMigration` returned an error. `none`: the loop ran to its
end or was left at its head (`return ctx.Err()` — a bare error without an index), or the process
died there. -/
def stopIdx (cfg : Cfg) (env : Env) (last : SV) : List Nat → RunSt → Option Nat
  | [], _ => none
  | i :: rest, s =>
    if s.dead env then none else
    if s.cancelled env then none else
    match runMigration cfg env last i s with
    | (_, some _) => some i
    | (s', none) => stopIdx cfg env last rest s'

/-- `stopIdx` of a whole `Run` (the first metadata write has no index: "writing schema metadata: …"). -/
def runStopIdx (cfg : Cfg) (reg : Registry) (env : Env) (d : Disk) : Option Nat :=
  let m := d.metaD
  let target := reg.target
  let s : RunSt := ⟨d, m.cur, 0, []⟩
  if s.dead env then none else
  if s.writeFails env then none else
  let s := { s.tickEv (.metaWrite ⟨m.cur, target⟩) with disk := { d with md := some ⟨m.cur, target⟩ } }
  if s.dead env then none else
  let pending := SV.diff target m.cur
  if pending == 0#64 then none else
  stopIdx cfg env target (SV.iter pending) s

/-- One start of the node's migration phase: `NewRunner` then `Run` (node/migration.go). A refused
database is left untouched; so is one whose metadata cannot be read. -/
structure Start where
  reg : Registry
  env : Env

def start (cfg : Cfg) (d : Disk) (st : Start) : Disk × List Event × Option Result :=
  -- GetSchemaMetadata fails with an I/O error: "getting schema metadata"
  if st.env.metaReadFails then (d, [], some .errRead) else
  match newRunner cfg st.reg d with
  | .ok => let (s, r) := run cfg st.reg st.env d; (s.disk, s.log, some r)
  | _ => (d, [], none)

/-! ## node/migration.go `migrateIfNeeded`: the steps around the runner -/

/-- `core.GetL1Head` before the prune migration: stored / `db.ErrKeyNotFound` / another error. -/
inductive L1Head | present | missing | unreadable
  deriving Repr, DecidableEq

/-- What the environment decides for the steps of `migrateIfNeeded` that are not the runner. -/
structure NodeEnv where
  /-- `deprecated.MigrateIfNeeded` returns an error -/
  deprecatedFails : Bool
  /-- `config.Prune` -/
  prune : Bool
  l1 : L1Head
  /-- `fetchL1HeadIfMissing`: the L1 client manages to store a head (needs the network) -/
  fetchStores : Bool
  /-- `config.HTTP`: `migrateFn` runs under `migration.RunWithServer` (status_server.go), which returns what
  `migrateFn` returns -/
  http : Bool

/-- The order of the steps, as the source-level tie reads it off node/migration.go: `!` = the step's error
is returned (wrapped), `prune?` / `http?` = only under that configuration switch. -/
def nodePlan : String := "deprecated! prune?fetchL1Head! register newRunner! run! | http?serve(migrateFn)! migrateFn!"

/-- `fetchL1HeadIfMissing`: nil iff an L1 head is stored afterwards. -/
def fetchL1HeadIfMissing (ne : NodeEnv) : Bool :=
  match ne.l1 with
  | .present => true
  | .missing => ne.fetchStores
  | .unreadable => false

inductive NodeRes | deprecatedFailed | l1HeadFailed | refused | ran (r : Result)
  deriving Repr, DecidableEq

/-- `migrateIfNeeded`: deprecated migrations, then (prune mode) the L1 head, then `registerMigrations`,
`NewRunner`, `Run`; with `config.HTTP` the same under `RunWithServer`. -/
def nodeStart (cfg : Cfg) (ne : NodeEnv) (d : Disk) (st : Start) : Disk × List Event × NodeRes :=
  if ne.deprecatedFails then (d, [], .deprecatedFailed) else
  if ne.prune && !fetchL1HeadIfMissing ne then (d, [], .l1HeadFailed) else
  match start cfg d st with
  | (d', l, some r) => (d', l, .ran r)
  | (d', l, none) => (d', l, .refused)

/-- node/migration.go `registerMigrations(cfg)`: `NewRegistry().With(blocktransactions).WithOptional(historyprunner,
cfg.Prune, PruneModeFlag).WithOptional(headstate, cfg.NewState, "new-state").With(statedifflength)` — the registry of
the binary as a function of the two command-line switches. -/
def nodeRegistry (prune newState : Bool) : Registry :=
  [⟨false, false⟩, ⟨true, prune⟩, ⟨true, newState⟩, ⟨false, false⟩]

/-- The flag names `registerMigrations` gives to `WithOptional` (index = migration index; empty for `With`). -/
def nodeFlagNames : List String := ["", "prune-mode", "new-state", ""]

/-- One start of the node as configured on the command line: `ne.prune` = `--prune-mode`, `newState` =
`--new-state`, `ne.http` = `--http`; the environment decides the rest. -/
structure NodeCfg where
  ne : NodeEnv
  newState : Bool
  env : Env

def NodeCfg.start (c : NodeCfg) : Start := ⟨nodeRegistry c.ne.prune c.newState, c.env⟩

/-- `migrateIfNeeded(ctx, database, config, …)` with the registry `registerMigrations(config)` builds. -/
def nodeRun (cfg : Cfg) (d : Disk) (c : NodeCfg) : Disk × List Event × NodeRes := nodeStart cfg c.ne d c.start

/-- Any number of node starts with changing flag sets (multi-start history); the log is the concatenation,
newest first. -/
def nodeRuns (cfg : Cfg) : Disk → List NodeCfg → Disk × List Event
  | d, [] => (d, [])
  | d, c :: rest =>
    let (d', l, _) := nodeRun cfg d c
    let (d'', l') := nodeRuns cfg d' rest
    (d'', l' ++ l)

/-- Any number of starts; the log is the concatenation, newest first. -/
def starts (cfg : Cfg) : Disk → List Start → Disk × List Event
  | d, [] => (d, [])
  | d, st :: rest =>
    let (d', l, _) := start cfg d st
    let (d'', l') := starts cfg d' rest
    (d'', l' ++ l)

end Juno.C18
