import JunoModel.C18.ModelSDL
/-! C18 helper lemmas: the state-diff-length backfill migration. -/
namespace Juno.C18.SDL

/-- Every block from the oldest retained one up to the chain height has its records. -/
def Retained (db : Db) (h o : Nat) : Prop :=
  db.height = some h ∧ oldest db h = some o ∧ ∀ b, o ≤ b → b ≤ h → (db.blk b).present = true

/-- Every retained block below `c` already carries its state-diff length. -/
def Good (db : Db) (o c : Nat) : Prop :=
  ∀ b, o ≤ b → b < c → (db.blk b).stored = (db.blk b).diffLen

/-- `db'` differs from `db` only in `stored` fields of blocks in `[o, h]`, each either unchanged or
set to the block's state-diff length. -/
def Step' (db db' : Db) (o h : Nat) : Prop :=
  db'.height = db.height ∧ ∀ b,
    (db'.blk b).present = (db.blk b).present ∧ (db'.blk b).diffLen = (db.blk b).diffLen ∧
    ((db'.blk b) = (db.blk b) ∨ (o ≤ b ∧ b ≤ h ∧ (db'.blk b).stored = (db.blk b).diffLen))

theorem Step'.refl (db : Db) (o h : Nat) : Step' db db o h := ⟨rfl, fun _ => ⟨rfl, rfl, .inl rfl⟩⟩

theorem Step'.trans {a b c : Db} {o h : Nat} (h1 : Step' a b o h) (h2 : Step' b c o h) : Step' a c o h := by
  refine ⟨h2.1.trans h1.1, ?_⟩
  intro k
  obtain ⟨p1, d1, s1⟩ := h1.2 k
  obtain ⟨p2, d2, s2⟩ := h2.2 k
  refine ⟨p2.trans p1, d2.trans d1, ?_⟩
  rcases s2 with s2 | ⟨x, y, s2⟩
  · rw [s2]; exact s1
  · exact .inr ⟨x, y, by rw [s2, d1]⟩

theorem oldest_congr {db db' : Db} (h : Nat) (hp : ∀ b, (db'.blk b).present = (db.blk b).present) :
    oldest db' h = oldest db h := by
  unfold oldest
  have : (fun b => (db'.blk b).present) = (fun b => (db.blk b).present) := funext hp
  rw [this]

theorem Step'.retained {db db' : Db} {o h : Nat} (hs : Step' db db' o h) (hr : Retained db h o) :
    Retained db' h o := by
  refine ⟨hs.1.trans hr.1, ?_, ?_⟩
  · rw [oldest_congr h (fun b => (hs.2 b).1)]; exact hr.2.1
  · intro b h1 h2; rw [(hs.2 b).1]; exact hr.2.2 b h1 h2

theorem Step'.good {db db' : Db} {o h c : Nat} (hs : Step' db db' o h) (hg : Good db o c) : Good db' o c := by
  intro b h1 h2
  obtain ⟨_, d, s⟩ := hs.2 b
  rcases s with s | ⟨_, _, s⟩
  · rw [s]; exact hg b h1 h2
  · rw [s, d]

theorem applyPass_step (db : Db) (o start h : Nat) (hso : o ≤ start) (sel : Nat → Bool) :
    Step' db (applyPass db start h sel) o h := by
  refine ⟨rfl, ?_⟩
  intro b
  simp only [applyPass]
  split
  · rename_i hc
    exact ⟨rfl, rfl, .inr ⟨by omega, hc.2.1, rfl⟩⟩
  · exact ⟨rfl, rfl, .inl rfl⟩

theorem passFails_retained {db : Db} {h o : Nat} (hr : Retained db h o) (start e : Nat) (hso : o ≤ start) :
    passFails db start h e = false := by
  unfold passFails
  rw [List.any_eq_false]
  intro b hb
  have hbh : b ≤ h := by have := List.mem_range.mp hb; omega
  by_cases hsb : start ≤ b
  · simp [hr.2.2 b (by omega) hbh]
  · simp [hsb]

/-- One `Migrate` call, whatever the environment does: the records are untouched except that some
retained blocks get their state-diff length; the checkpoint the runner keeps afterwards is sound
(everything below it is done); `(nil, nil)` means every retained block is done; it never fails. -/
theorem migrate_sound {db : Db} {h o next : Nat} (hr : Retained db h o) (hg : Good db o next) (st : Step) :
    Step' db (migrate db next st).1 o h ∧
    Good (migrate db next st).1 o (nextCheckpoint next (migrate db next st).2) ∧
    ((migrate db next st).2 = .done → Good (migrate db next st).1 o (h + 1)) ∧
    ((migrate db next st).2 = .failed → ∃ e sel, st = .writeFail e sel) := by
  unfold migrate
  rw [hr.1]
  simp only []
  rw [hr.2.1]
  simp only []
  have hgs : Good db o (max next o) := by
    intro b h1 h2
    by_cases hn : o ≤ next
    · exact hg b h1 (by have : max next o = next := Nat.max_eq_left hn; omega)
    · have : max next o = o := Nat.max_eq_right (by omega)
      omega
  have hso : o ≤ max next o := Nat.le_max_right _ _
  split
  · -- start > h: nothing to do
    rename_i hgt
    refine ⟨Step'.refl _ _ _, hg, ?_, by simp⟩
    intro _ b h1 h2
    exact hgs b h1 (by omega)
  · rename_i hle
    cases st with
    | pass emit =>
      simp only [passFails_retained hr _ _ hso, Bool.false_eq_true, if_false]
      have hstep := applyPass_step db o (max next o) h hso
        (fun i => decide (i < min (emit.getD (h - max next o + 1)) (h - max next o + 1)))
      have hdone : Good (applyPass db (max next o) h
          (fun i => decide (i < min (emit.getD (h - max next o + 1)) (h - max next o + 1)))) o
          (max next o + min (emit.getD (h - max next o + 1)) (h - max next o + 1)) := by
        intro b h1 h2
        by_cases hsb : max next o ≤ b
        · have hbh : b ≤ h := by
            have := Nat.min_le_right (emit.getD (h - max next o + 1)) (h - max next o + 1); omega
          have hsel : b - max next o < min (emit.getD (h - max next o + 1)) (h - max next o + 1) := by omega
          simp only [applyPass, hsb, hbh, hsel, decide_true, hr.2.2 b h1 hbh, and_self, if_true]
        · exact (hstep.good hgs) b h1 (by omega)
      split
      · refine ⟨hstep, hdone, by simp, by simp⟩
      · rename_i hnlt
        have hall : min (emit.getD (h - max next o + 1)) (h - max next o + 1) = h - max next o + 1 := by
          have := Nat.min_le_right (emit.getD (h - max next o + 1)) (h - max next o + 1); omega
        refine ⟨hstep, hstep.good hg, ?_, by simp⟩
        intro _ b h1 h2
        exact hdone b h1 (by rw [hall]; omega)
    | crash emit sel =>
      have hstep := applyPass_step db o (max next o) h hso
        (fun i => decide (i < min (emit.getD (h - max next o + 1)) (h - max next o + 1)) && sel.getD i false)
      exact ⟨hstep, hstep.good hg, by simp, by simp⟩
    | writeFail emit sel =>
      have hstep := applyPass_step db o (max next o) h hso
        (fun i => decide (i < min (emit.getD (h - max next o + 1)) (h - max next o + 1)) && sel.getD i false)
      exact ⟨hstep, hstep.good hg, by simp, fun _ => ⟨emit, sel, rfl⟩⟩

theorem attempts_sound : ∀ (steps : List Step) {db : Db} {h o next : Nat}, Retained db h o → Good db o next →
    Step' db (attempts db next steps).1 o h ∧ Good (attempts db next steps).1 o (attempts db next steps).2 := by
  intro steps
  induction steps with
  | nil => intro db h o next _ hg; exact ⟨Step'.refl _ _ _, hg⟩
  | cons s r ih =>
    intro db h o next hr hg
    simp only [attempts]
    have h1 := migrate_sound hr hg s
    have h2 := ih (h1.1.retained hr) h1.2.1
    exact ⟨h1.1.trans h2.1, h2.2⟩

theorem migrate_undisturbed_done {db : Db} {h o : Nat} (hr : Retained db h o) (next : Nat) :
    (migrate db next (.pass none)).2 = .done := by
  unfold migrate
  rw [hr.1]
  simp only []
  rw [hr.2.1]
  simp only []
  split
  · rfl
  · simp only [passFails_retained hr _ _ (Nat.le_max_right _ _), Bool.false_eq_true, if_false,
      Option.getD_none, Nat.min_self, Nat.lt_irrefl]

/-- The database in which every retained block carries its state-diff length. -/
def backfilled (db : Db) (o h : Nat) : Db :=
  { db with blk := fun b => if o ≤ b ∧ b ≤ h then { db.blk b with stored := (db.blk b).diffLen } else db.blk b }

theorem eq_backfilled {db db' : Db} {o h : Nat} (hs : Step' db db' o h) (hg : Good db' o (h + 1)) :
    db' = backfilled db o h := by
  cases db' with | mk h' b' =>
  have h1 : h' = db.height := hs.1
  have h2 : b' = (backfilled db o h).blk := by
    funext k
    obtain ⟨p, d, s⟩ := hs.2 k
    simp only [backfilled]
    by_cases hk : o ≤ k ∧ k ≤ h
    · simp only [hk, and_self, if_true]
      have hst : (b' k).stored = (db.blk k).diffLen := by
        have := hg k hk.1 (by omega)
        simp only at this d
        rw [this, d]
      simp only at p d
      cases hb : b' k with | mk bp bd bs =>
      rw [hb] at p d hst
      simp only at p d hst
      cases hdb : db.blk k with | mk dp dd ds =>
      rw [hdb] at p d hst
      simp only at p d hst
      simp [p, d, hst]
    · simp only [hk, if_false]
      rcases s with s | ⟨x, y, _⟩
      · exact s
      · exact absurd ⟨x, y⟩ hk
  rw [h1, h2]
  rfl

/-- Any interruption pattern (cancellations saving a checkpoint, deaths with any subset of the
handed-out blocks committed and the old checkpoint kept) followed by an undisturbed rerun returns
`(nil, nil)` and reaches the database of an undisturbed run. -/
theorem resume_sdl {db : Db} {h o next : Nat} (hr : Retained db h o) (hg : Good db o next) (steps : List Step) :
    (migrate (attempts db next steps).1 (attempts db next steps).2 (.pass none)).2 = .done ∧
    (migrate (attempts db next steps).1 (attempts db next steps).2 (.pass none)).1 = backfilled db o h := by
  have ha := attempts_sound steps hr hg
  have hr1 := ha.1.retained hr
  have hm := migrate_sound hr1 ha.2 (.pass none)
  have hd := migrate_undisturbed_done hr1 (attempts db next steps).2
  exact ⟨hd, eq_backfilled (ha.1.trans hm.1) (hm.2.2.1 hd)⟩

/-- statedifflength returns `(checkpoint, nil)` only when the source was cut short by a cancellation
(`pass (some k)`): never on an undisturbed run, a failure or a death. -/
theorem migrate_rerun_cancelled (db : Db) (next : Nat) (st : Step) (m : Nat)
    (hr : (migrate db next st).2 = .rerun m) : ∃ k, st = .pass (some k) := by
  unfold migrate at hr
  cases st with
  | pass emit =>
    cases emit with
    | some k => exact ⟨k, rfl⟩
    | none =>
      exfalso
      simp only [Option.getD_none, Nat.min_self, Nat.lt_irrefl, if_false] at hr
      repeat' split at hr
      all_goals simp at hr
  | crash emit sel =>
    exfalso; simp only at hr
    repeat' split at hr
    all_goals simp at hr
  | writeFail emit sel =>
    exfalso; simp only at hr
    repeat' split at hr
    all_goals simp at hr

end Juno.C18.SDL
