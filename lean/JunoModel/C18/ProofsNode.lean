import JunoModel.C18.ProofsWhy
/-! Round 6: node/migration.go as a function of the command-line switches (`nodeRegistry` = `registerMigrations`,
`nodeRun` = `migrateIfNeeded` with that registry), over multi-start histories with changing flag sets (`nodeRuns`).
The point: the wiring has NO path to "done" that avoids `NewRunner`'s refusals. -/
namespace Juno.C18

theorem nodeRegistry_ok (p n : Bool) : (nodeRegistry p n).ok = true := by
  simp [nodeRegistry, Registry.ok]

/-- `registerMigrations`: bits 0 and 3 always, bit 1 iff `--prune-mode`, bit 2 iff `--new-state`, nothing else. -/
theorem has_nodeRegistry_target (p n : Bool) (j : Nat) :
    SV.has (nodeRegistry p n).target j = (j == 0 || j == 3 || (j == 1 && p) || (j == 2 && n)) := by
  rw [has_target _ (nodeRegistry_ok p n)]
  match j with
  | 0 => simp [nodeRegistry, Entry.inTarget]
  | 1 => simp [nodeRegistry, Entry.inTarget]
  | 2 => simp [nodeRegistry, Entry.inTarget]
  | 3 => simp [nodeRegistry, Entry.inTarget]
  | j + 4 => simp [nodeRegistry]

theorem start_of_metaReadFails (cfg : Cfg) (d : Disk) (st : Start) (hm : st.env.metaReadFails = true) :
    start cfg d st = (d, [], some .errRead) := by
  unfold start; simp [hm]

theorem start_of_refused (cfg : Cfg) (d : Disk) (st : Start) (hm : st.env.metaReadFails = false)
    (h : newRunner cfg st.reg d ≠ .ok) : start cfg d st = (d, [], none) := by
  unfold start
  rw [hm]
  cases hn : newRunner cfg st.reg d with
  | ok => exact absurd hn h
  | optOut => rfl
  | downgrade => rfl

theorem start_of_accepted (cfg : Cfg) (d : Disk) (st : Start) (hm : st.env.metaReadFails = false)
    (h : newRunner cfg st.reg d = .ok) : ∃ r, (start cfg d st).2.2 = some r := by
  unfold start
  rw [hm, h]
  exact ⟨_, rfl⟩

/-- What a node start can be: stopped before the runner (nothing touched), or exactly the runner's start. -/
theorem nodeRun_cases (cfg : Cfg) (d : Disk) (c : NodeCfg) :
    ((nodeRun cfg d c).1 = d ∧ (nodeRun cfg d c).2.1 = [] ∧
      ((nodeRun cfg d c).2.2 = .deprecatedFailed ∨ (nodeRun cfg d c).2.2 = .l1HeadFailed)) ∨
    ((nodeRun cfg d c).1 = (start cfg d c.start).1 ∧ (nodeRun cfg d c).2.1 = (start cfg d c.start).2.1 ∧
      ((∃ r, (start cfg d c.start).2.2 = some r ∧ (nodeRun cfg d c).2.2 = .ran r) ∨
       ((start cfg d c.start).2.2 = none ∧ (nodeRun cfg d c).2.2 = .refused))) := by
  unfold nodeRun nodeStart
  by_cases h1 : c.ne.deprecatedFails = true
  · left; simp [h1]
  · by_cases h2 : (c.ne.prune && !fetchL1HeadIfMissing c.ne) = true
    · left; simp [h1, h2]
    · right
      simp only [h1, h2, Bool.false_eq_true, if_false]
      rcases hs : start cfg d c.start with ⟨d', l, r⟩
      cases r with
      | none => exact ⟨rfl, rfl, .inr ⟨rfl, rfl⟩⟩
      | some r => exact ⟨rfl, rfl, .inl ⟨r, rfl, rfl⟩⟩

/-- A database the runner refuses is left alone by the whole node start, which reports no success. -/
theorem nodeRun_of_refused (cfg : Cfg) (d : Disk) (c : NodeCfg)
    (h : newRunner cfg (nodeRegistry c.ne.prune c.newState) d ≠ .ok) :
    (nodeRun cfg d c).1 = d ∧ (nodeRun cfg d c).2.1 = [] ∧
    ∀ r, (nodeRun cfg d c).2.2 = .ran r → r = .errRead := by
  have hst : start cfg d c.start = (d, [], none) ∨ start cfg d c.start = (d, [], some .errRead) := by
    by_cases hm : c.env.metaReadFails = true
    · exact .inr (start_of_metaReadFails cfg d c.start hm)
    · have hm' : c.env.metaReadFails = false := by simpa using hm
      exact .inl (start_of_refused cfg d c.start hm' h)
  rcases nodeRun_cases cfg d c with ⟨h1, h2, h3⟩ | ⟨h1, h2, h3⟩
  · refine ⟨h1, h2, fun r hr => ?_⟩
    rcases h3 with h3 | h3 <;> rw [h3] at hr <;> cases hr
  · rcases hst with hst | hst
    · rw [hst] at h1 h2 h3
      refine ⟨h1, h2, fun r hr => ?_⟩
      rcases h3 with ⟨r', hr', _⟩ | ⟨_, h3⟩
      · cases hr'
      · rw [h3] at hr; cases hr
    · rw [hst] at h1 h2 h3
      refine ⟨h1, h2, fun r hr => ?_⟩
      rcases h3 with ⟨r', hr', h3⟩ | ⟨h3, _⟩
      · rw [h3] at hr
        cases hr'
        cases hr
        rfl
      · cases h3

/-- The last-target record only grows over node histories (repaired `NewRunner`). -/
theorem nodeRun_last_mono (cfg : Cfg) (hfix : cfg.ignoreUnknownLast = false) (d : Disk) (c : NodeCfg) (j : Nat)
    (h : d.last.has j = true) : (nodeRun cfg d c).1.last.has j = true := by
  rcases nodeRun_cases cfg d c with ⟨h1, _, _⟩ | ⟨h1, _, _⟩
  · rw [h1]; exact h
  · rw [h1]
    have := starts_last_mono cfg hfix [c.start] d j h
    simpa [starts] using this

theorem nodeRuns_last_mono (cfg : Cfg) (hfix : cfg.ignoreUnknownLast = false) (cs : List NodeCfg) :
    ∀ (d : Disk) (j : Nat), d.last.has j = true → (nodeRuns cfg d cs).1.last.has j = true := by
  induction cs with
  | nil => intro d j h; exact h
  | cons c rest ih =>
    intro d j h
    simp only [nodeRuns]
    exact ih _ j (nodeRun_last_mono cfg hfix d c j h)

end Juno.C18

namespace Juno.C18

/-- A history of node starts IS a history of runner starts: the starts stopped before the runner (failed
deprecated step, no L1 head in prune mode) drop out, every other one is `start` with the registry of its flags.
So every theorem about `starts` (applied ⇒ completed, once and in order, token threading, permanence …) holds for
node histories with changing flag sets. -/
theorem nodeRuns_eq_starts (cfg : Cfg) (cs : List NodeCfg) :
    ∀ d : Disk, ∃ sts : List Start, (∀ st ∈ sts, ∃ c ∈ cs, st = c.start) ∧ nodeRuns cfg d cs = starts cfg d sts := by
  induction cs with
  | nil => intro d; exact ⟨[], by simp, rfl⟩
  | cons c rest ih =>
    intro d
    rcases nodeRun_cases cfg d c with ⟨h1, h2, _⟩ | ⟨h1, h2, _⟩
    · obtain ⟨sts, hmem, heq⟩ := ih d
      refine ⟨sts, fun st hst => ?_, ?_⟩
      · obtain ⟨c', hc', e⟩ := hmem st hst
        exact ⟨c', List.mem_cons_of_mem _ hc', e⟩
      · simp only [nodeRuns]
        rw [h1, h2, heq]
        simp
    · obtain ⟨sts, hmem, heq⟩ := ih (start cfg d c.start).1
      refine ⟨c.start :: sts, fun st hst => ?_, ?_⟩
      · rcases List.mem_cons.mp hst with e | hst
        · exact ⟨c, List.mem_cons_self, e⟩
        · obtain ⟨c', hc', e⟩ := hmem st hst
          exact ⟨c', List.mem_cons_of_mem _ hc', e⟩
      · simp only [nodeRuns, starts]
        rw [h1, h2, heq]

end Juno.C18
