import JunoModel.Common.Proto
import JunoModel.C18.Model
import JunoModel.C18.ModelBlockTx
import JunoModel.C18.ModelSDL
import JunoModel.C18.ModelHS
import JunoModel.C18.ModelPipe
import JunoModel.C18.ModelPruner
import JunoModel.C18.ModelCompose
/-! Line-protocol driver for the C18 models (`lake build c18drv`). See notes/C18.md for the
request grammar. -/
open Juno.Proto Juno.C18

structure DrvState where
  -- the model is the current tree: there is no command that selects another variant
  cfg : Cfg := Cfg.fixed
  bcfg : BlockTx.Cfg := BlockTx.Cfg.fixed
  disk : Disk := ⟨none, fun _ => none⟩
  bt : BlockTx.Db := ⟨none, fun _ => ⟨none, [], [], none⟩⟩
  btN : Nat := 0
  sdl : SDL.Db := ⟨none, fun _ => ⟨false, 0, 0⟩⟩
  sdlN : Nat := 0
  hs : HS.Db := ⟨0, fun _ => ⟨none, none, none, none⟩⟩

def svHex (s : SV) : String := natToHex s.toNat
def hexSV? (s : String) : Option SV := (hexToNat? s).bind fun n => if n < 2 ^ 64 then some (BitVec.ofNat 64 n) else none
def bool? (s : String) : Option Bool := if s == "1" then some true else if s == "0" then some false else none
def natList (l : List Nat) : String := if l.isEmpty then "-" else " ".intercalate (l.map toString)

def parseReg (s : String) : Option Registry :=
  if s == "-" then some [] else
  s.toList.mapM fun c =>
    if c == 'm' then some ⟨false, false⟩
    else if c == 'e' then some ⟨true, true⟩
    else if c == 'd' then some ⟨true, false⟩
    else none

def parseErr (s : String) : Option ErrK :=
  if s == "n" then some .none else if s == "c" then some .ctx else if s == "o" then some .other else none

/-- `i:F` | `i:N:<err>` | `i:S<hex>:<err>` -/
def parseBeh (tok : String) : Option (Nat × MigStep) :=
  match tok.splitOn ":" with
  | [i, "F"] => i.toNat?.map fun i => (i, ⟨true, none, .none⟩)
  | [i, b, e] => do
    let i ← i.toNat?
    let e ← parseErr e
    if b == "N" then pure (i, ⟨false, none, e⟩)
    else if b.startsWith "S" then
      let bs ← hexToBytes? (String.ofList (b.toList.drop 1))
      pure (i, ⟨false, some bs, e⟩)
    else none
  | _ => none

def behOf (l : List (Nat × MigStep)) (i : Nat) : MigStep :=
  match l.find? (fun p => p.1 == i) with
  | some p => p.2
  | none => ⟨false, none, .none⟩

def showIst (d : Disk) : String :=
  let l := (List.range 64).filterMap fun i => (d.ist i).map fun b => s!"{i}:{bytesToHex b}"
  if l.isEmpty then "-" else ",".intercalate l

def showDisk (d : Disk) : String :=
  match d.md with
  | none => s!"meta=none ist={showIst d}"
  | some m => s!"meta={svHex m.cur}/{svHex m.last} ist={showIst d}"

def showOpt (o : Option Bytes) : String := match o with | none => "nil" | some b => bytesToHex b

def showCalls (log : List Event) : String :=
  let l := log.reverse.filterMap fun e =>
    match e with
    | .before i st => some s!"B{i}:{showOpt st}"
    | .call i _ => some s!"M{i}"
    | _ => none
  if l.isEmpty then "-" else ",".intercalate l

def showResult : Result → String
  | .ok => "ok" | .cancelled => "err" | .errBefore => "err" | .errMigrate => "err" | .errWrite => "err"
  | .errRead => "err"
  | .crashed => "crashed"

/-- What `Run` returned and which migration its error names: `ok` | `cancelled@<i|->` (`ctx.Err()`: bare at the
loop head / after the loop, wrapped with the index after a saved state) | `before@i` ("restoring migration
state") | `migrate@i` ("executing migration") | `write@<i|->` ("writing intermediate state" / "writing
migration commit batch" / the first "writing schema metadata") | `read@i` ("getting intermediate state"). -/
def showWhy (r : Result) (idx : Option Nat) : String :=
  let sfx := match idx with | some i => s!"@{i}" | none => "@-"
  match r with
  | .ok => "ok" | .crashed => "crashed"
  | .cancelled => "cancelled" ++ sfx | .errBefore => "before" ++ sfx | .errMigrate => "migrate" ++ sfx
  | .errWrite => "write" ++ sfx | .errRead => "read" ++ sfx

/-- `ok` | `newer` | `optout:<i>f,<j>m,…` (`f`: named by its flag, `m`: `--migration-<j>`). -/
def showOpenV (reg : Registry) : OpenV → String
  | .ok => "ok"
  | .newer => "newer"
  | .optOut l => "optout:" ++ ",".intercalate (l.map fun i => s!"{i}{if flagNamed reg i then "f" else "m"}")

def parseIst (tok : String) : Option (Nat × Bytes) :=
  match tok.splitOn ":" with
  | [i, h] => do let i ← i.toNat?; let b ← hexToBytes? h; pure (i, b)
  | _ => none

/-! ### block-transactions encoding: `<hdr>:<otx>:<orc>:<blob>` per block -/

def parseNats (s : String) : Option (List Nat) :=
  if s == "-" then some [] else (s.splitOn ",").mapM String.toNat?

def showNats (l : List Nat) : String := if l.isEmpty then "-" else ",".intercalate (l.map toString)

def parseBlk (tok : String) : Option BlockTx.Blk :=
  match tok.splitOn ":" with
  | [h, a, b, c] => do
    let hdr ← if h == "x" then some none else h.toNat?.map some
    let otx ← parseNats a
    let orc ← parseNats b
    let blob ← if c == "x" then some none else
      match c.splitOn ";" with
      | [t, r] => do let t ← parseNats t; let r ← parseNats r; pure (some (t, r))
      | _ => none
    pure ⟨hdr, otx, orc, blob⟩
  | _ => none

def showBlk (k : BlockTx.Blk) : String :=
  let h := match k.hdr with | none => "x" | some n => toString n
  let c := match k.blob with | none => "x" | some (t, r) => s!"{showNats t};{showNats r}"
  s!"{h}:{showNats k.otx}:{showNats k.orc}:{c}"

def showBt (db : BlockTx.Db) (n : Nat) : String :=
  let l := (List.range n).map fun b => showBlk (db.blk b)
  if l.isEmpty then "-" else " ".intercalate l

def parseEmit (s : String) : Option (Option Nat) :=
  if s == "" || s == "*" then some none else s.toNat?.map some

def parsePartial (t : String) : Option (Nat × Nat) :=
  match t.splitOn "." with
  | [r, k] => do let r ← r.toNat?; let k ← k.toNat?; pure (r, k)
  | _ => none

def parseStep (tok : String) : Option BlockTx.Step :=
  if tok == "H" then some .cancelHead
  else if tok == "F" then some .crashFinal
  else if tok == "FB" then some .crashClear
  else if tok == "FW" then some .failClear
  else if tok.startsWith "S" then
    -- S<emit|*>:<bits>: a graceful pass whose unselected ranges without old entries were not written
    match (String.ofList (tok.toList.drop 1)).splitOn ":" with
    | [e, bits] => do
      let e ← parseEmit e
      let bs ← if bits == "-" then some [] else bits.toList.mapM fun c => if c == '1' then some true else if c == '0' then some false else none
      pure (.passSkip e bs)
    | _ => none
  else if tok.startsWith "P" then (parseEmit (String.ofList (tok.toList.drop 1))).map .pass
  else if tok.startsWith "C" || tok.startsWith "W" then
    match (String.ofList (tok.toList.drop 1)).splitOn ":" with
    | [e, bits] => do
      let e ← parseEmit e
      let bs ← if bits == "-" then some [] else bits.toList.mapM fun c => if c == '1' then some true else if c == '0' then some false else none
      pure (if tok.startsWith "C" then .crash e bs else .writeFail e bs)
    | _ => none
  else if tok.startsWith "E" then
    -- E<emit|*>:<bits>:<r.k,r.k,…|->
    match (String.ofList (tok.toList.drop 1)).splitOn ":" with
    | [e, bits, ps] => do
      let e ← parseEmit e
      let bs ← if bits == "-" then some [] else bits.toList.mapM fun c => if c == '1' then some true else if c == '0' then some false else none
      let parts ← if ps == "-" then some [] else (ps.splitOn ",").mapM parsePartial
      pure (.ingestError e bs parts)
    | _ => none
  else none

def showRet : BlockTx.Ret → String
  | .done => "done" | .rerun => "rerun" | .failed => "failed" | .crashed => "crashed" | .diverged => "diverged"
  | .failedNil => "failed-nil"

/-! ### state-diff-length encoding: `<present 0|1>:<diffLen>:<stored>` per block -/

def parseSBlk (tok : String) : Option SDL.Blk :=
  match tok.splitOn ":" with
  | [p, d, st] => do
    let p ← bool? p
    let d ← d.toNat?
    let st ← st.toNat?
    pure ⟨p, d, st⟩
  | _ => none

def showSBlk (k : SDL.Blk) : String := s!"{if k.present then 1 else 0}:{k.diffLen}:{k.stored}"

def parseSStep (tok : String) : Option SDL.Step :=
  if tok.startsWith "P" then (parseEmit (String.ofList (tok.toList.drop 1))).map .pass
  else if tok.startsWith "W" then
    match (String.ofList (tok.toList.drop 1)).splitOn ":" with
    | [e, bits] => do
      let e ← parseEmit e
      let bs ← if bits == "-" then some [] else bits.toList.mapM fun c => if c == '1' then some true else if c == '0' then some false else none
      pure (.writeFail e bs)
    | _ => none
  else if tok.startsWith "C" then
    match (String.ofList (tok.toList.drop 1)).splitOn ":" with
    | [e, bits] => do
      let e ← parseEmit e
      let bs ← if bits == "-" then some [] else bits.toList.mapM fun c => if c == '1' then some true else if c == '0' then some false else none
      pure (.crash e bs)
    | _ => none
  else none

/-- a checkpoint is shown with the token `encodeResume` makes of it -/
def showSRet : SDL.Ret → String
  | .done => "done" | .rerun n => s!"rerun:{n}:{bytesToHex (SDL.encodeResume n)}" | .failed => "failed" | .crashed => "crashed"

def showReaction : Reaction → String
  | .apply => "apply" | .save st => s!"save:{bytesToHex st}" | .error => "error" | .beforeError => "before-error"

def parseSRet (t : String) : Option SDL.Ret :=
  if t == "done" then some .done else if t == "failed" then some .failed else if t == "crashed" then some .crashed
  else match t.splitOn ":" with
    | ["rerun", n] => n.toNat?.map .rerun
    | _ => none

/-! ### head-state encoding: `<cls|x>:<nonce|x>:<height|x>:<x | nonce,cls,height>` per address -/

def optNat? (t : String) : Option (Option Nat) := if t == "x" then some none else t.toNat?.map some
def showOptNat (o : Option Nat) : String := match o with | none => "x" | some n => toString n

def parseAcct (tok : String) : Option HS.Acct :=
  match tok.splitOn ":" with
  | [c, n, h, ct] => do
    let c ← optNat? c
    let n ← optNat? n
    let h ← optNat? h
    let ct ← if ct == "x" then some none else
      match ct.splitOn "," with
      | [a, b, d] => do let a ← a.toNat?; let b ← b.toNat?; let d ← d.toNat?; pure (some (a, b, d))
      | _ => none
    pure ⟨c, n, h, ct⟩
  | _ => none

def showAcct (k : HS.Acct) : String :=
  let ct := match k.contract with | none => "x" | some (a, b, d) => s!"{a},{b},{d}"
  s!"{showOptNat k.cls}:{showOptNat k.nonce}:{showOptNat k.height}:{ct}"

def parseBits (bits : String) : Option (List Bool) :=
  if bits == "-" then some [] else bits.toList.mapM fun c => if c == '1' then some true else if c == '0' then some false else none

def parseHStep (tok : String) : Option HS.Step :=
  let rest := String.ofList (tok.toList.drop 1)
  if tok.startsWith "P" then (parseEmit rest).map .pass
  else if tok.startsWith "X" then rest.toNat?.map .crashWipe
  else if tok.startsWith "Y" then rest.toNat?.map .failWipe
  else if tok.startsWith "C" || tok.startsWith "W" then
    match rest.splitOn ":" with
    | [e, bits] => do
      let e ← parseEmit e
      let bs ← parseBits bits
      pure (if tok.startsWith "C" then .crash e bs else .writeFail e bs)
    | _ => none
  else none

def showHRet : HS.Ret → String
  | .done => "done" | .rerun => "rerun" | .failed => "failed" | .crashed => "crashed"

def step (s : DrvState) (line : String) : DrvState × String :=
  match words line with
  | ["sv.has", a, i] =>
    match hexSV? a, i.toNat? with
    | some a, some i => (s, toString (SV.has a i))
    | _, _ => (s, "bad-op")
  | ["sv.set", a, i] =>
    match hexSV? a, i.toNat? with
    | some a, some i => (s, svHex (SV.set a i))
    | _, _ => (s, "bad-op")
  | ["sv.diff", a, b] =>
    match hexSV? a, hexSV? b with
    | some a, some b => (s, svHex (SV.diff a b))
    | _, _ => (s, "bad-op")
  | ["sv.union", a, b] =>
    match hexSV? a, hexSV? b with
    | some a, some b => (s, svHex (SV.union a b))
    | _, _ => (s, "bad-op")
  | ["sv.contains", a, b] =>
    match hexSV? a, hexSV? b with
    | some a, some b => (s, toString (SV.contains a b))
    | _, _ => (s, "bad-op")
  | ["sv.iter", a] =>
    match hexSV? a with
    | some a => (s, natList (SV.iter a))
    | _ => (s, "bad-op")
  | ["sv.itergo", a] =>
    match hexSV? a with
    | some a => (s, natList (SV.iterGo a))
    | _ => (s, "bad-op")
  | ["sv.len", a] =>
    match hexSV? a with
    | some a => (s, toString (SV.len a))
    | _ => (s, "bad-op")
  | ["node.plan"] => (s, nodePlan)
  | ["node.registry", pr, nst] =>
    match bool? pr, bool? nst with
    | some pr, some nst =>
      let reg := nodeRegistry pr nst
      let names := (List.range reg.length).filterMap fun i =>
        if flagNamed reg i then some s!"{i}:{nodeFlagNames.getD i "?"}" else none
      (s, " ".intercalate ([svHex reg.target, toString reg.length] ++ names))
    | _, _ => (s, "bad-op")
  | "node.start" :: dep :: pr :: nst :: l1 :: fe :: ht :: ca :: cr :: behs =>
    -- one start through `migrateIfNeeded`: deprecated fails?, --prune-mode, --new-state, L1 head p|m|u, the fetch
    -- stores one?, --http, cancel tick, crash tick, behaviours (default: every Migrate returns (nil, nil))
    let l1? : Option L1Head :=
      if l1 == "p" then some .present else if l1 == "m" then some .missing else if l1 == "u" then some .unreadable else none
    match bool? dep, bool? pr, bool? nst, l1?, bool? fe, bool? ht, ca.toNat?, cr.toNat?, behs.mapM parseBeh with
    | some dep, some pr, some nst, some l1, some fe, some ht, some ca, some cr, some bl =>
      let c : NodeCfg := ⟨⟨dep, pr, l1, fe, ht⟩, nst, ⟨behOf bl, ca, cr, 0, false, fun _ => false⟩⟩
      let reg := c.start.reg
      match nodeRun s.cfg s.disk c with
      | (d', _, .deprecatedFailed) => (s, s!"depfail {showDisk d'}")
      | (d', _, .l1HeadFailed) => (s, s!"l1fail {showDisk d'}")
      | (d', _, .refused) => (s, s!"refused:{showOpenV reg (newRunnerV reg s.disk)} {showDisk d'}")
      | (d', log, .ran r) =>
        ({ s with disk := d' }, s!"{showResult r} {showDisk d'} calls={showCalls log} why={showWhy r (runStopIdx s.cfg reg c.env s.disk)}")
    | _, _, _, _, _, _, _, _, _ => (s, "bad-op")
  | ["sv.string", a] =>
    match hexSV? a with
    | some a => (s, SV.toStr a)
    | _ => (s, "bad-op")
  | ["sv.high", a] =>
    match hexSV? a with
    | some a => (s, toString (SV.highestBit a))
    | _ => (s, "bad-op")
  | ["target", r] =>
    match parseReg r with
    | some r => if r.ok then (s, svHex r.target) else (s, "panic")
    | none => (s, "bad-op")
  | "disk" :: m :: ist =>
    let md? : Option (Option Meta) :=
      if m == "none" then some none else
      match m.splitOn "/" with
      | [c, l] => do let c ← hexSV? c; let l ← hexSV? l; pure (some ⟨c, l⟩)
      | _ => none
    match md?, ist.mapM parseIst with
    | some m, some l =>
      let d : Disk := ⟨m, fun i => (l.find? (fun p => p.1 == i)).map (·.2)⟩
      ({ s with disk := d }, "ok")
    | _, _ => (s, "bad-op")
  | ["open", r] =>
    match parseReg r with
    | some r =>
      if !r.ok then (s, "bad-op") else
      -- the accept/refuse model and the error-returning transcription must agree (theorem newRunnerV_ok_iff)
      if (newRunner s.cfg r s.disk == .ok) != (newRunnerV r s.disk == .ok) then (s, "model-inconsistent") else
      (s, showOpenV r (newRunnerV r s.disk))
    | none => (s, "bad-op")
  | "run" :: r :: ca :: cr :: behs0 =>
    -- options: fail=<tick> (failing runner write), rmeta (metadata read fails), rist=<i,j,…> (token reads that fail)
    let (fails, behs1) := behs0.partition (fun t => t.startsWith "fail=")
    let (rmetas, behs2) := behs1.partition (fun t => t == "rmeta")
    let (rists, behs) := behs2.partition (fun t => t.startsWith "rist=")
    let fa : Option Nat := match fails with
      | [] => some 0
      | [t] => (String.ofList (t.toList.drop 5)).toNat?
      | _ => none
    let ri : Option (List Nat) := match rists with
      | [] => some []
      | [t] => parseNats (String.ofList (t.toList.drop 5))
      | _ => none
    match parseReg r, ca.toNat?, cr.toNat?, behs.mapM parseBeh, fa, ri with
    | some r, some ca, some cr, some bl, some fa, some ri =>
      if !r.ok then (s, "bad-op") else
      let st : Start := ⟨r, ⟨behOf bl, ca, cr, fa, !rmetas.isEmpty, fun i => ri.contains i⟩⟩
      if st.env.metaReadFails then
        -- `start` leaves the disk alone (theorem read_error_is_not_progress)
        (s, s!"readerr {showDisk (start s.cfg s.disk st).1}")
      else if (newRunner s.cfg r s.disk == .ok) != (newRunnerV r s.disk == .ok) then (s, "model-inconsistent")
      else match newRunnerV r s.disk with
      | .ok =>
        let (rs, res) := run s.cfg r st.env s.disk
        ({ s with disk := rs.disk }, s!"{showResult res} {showDisk rs.disk} calls={showCalls rs.log} why={showWhy res (runStopIdx s.cfg r st.env s.disk)}")
      | v => (s, s!"refused:{showOpenV r v} {showDisk s.disk}")
    | _, _, _, _, _, _ => (s, "bad-op")
  | "bt.set" :: h :: blks =>
    let h? : Option (Option Nat) := if h == "none" then some none else h.toNat?.map some
    match h?, blks.mapM parseBlk with
    | some h, some l =>
      let arr := l.toArray
      ({ s with bt := ⟨h, fun b => arr.getD b ⟨none, [], [], none⟩⟩, btN := l.length }, "ok")
    | _, _ => (s, "bad-op")
  | "bt.migrate" :: steps =>
    match steps.mapM parseStep with
    | some st =>
      let (db, r) := BlockTx.migrate s.bcfg s.bt st
      -- materialise the block function so that later requests do not re-run earlier passes
      let arr := ((List.range s.btN).map db.blk).toArray
      let db' : BlockTx.Db := ⟨db.height, fun b => arr.getD b ⟨none, [], [], none⟩⟩
      ({ s with bt := db' }, s!"{showRet r} {showBt db' s.btN}")
    | none => (s, "bad-op")
  | "sdl.set" :: h :: blks =>
    let h? : Option (Option Nat) := if h == "none" then some none else h.toNat?.map some
    match h?, blks.mapM parseSBlk with
    | some h, some l =>
      let arr := l.toArray
      ({ s with sdl := ⟨h, fun b => arr.getD b ⟨false, 0, 0⟩⟩, sdlN := l.length }, "ok")
    | _, _ => (s, "bad-op")
  | ["sdl.migrate", nx, st] =>
    match nx.toNat?, parseSStep st with
    | some nx, some st =>
      let (db, r) := SDL.migrate s.sdl nx st
      let arr := ((List.range s.sdlN).map db.blk).toArray
      let db' : SDL.Db := ⟨db.height, fun b => arr.getD b ⟨false, 0, 0⟩⟩
      let l := (List.range s.sdlN).map fun b => showSBlk (db'.blk b)
      ({ s with sdl := db' }, s!"{showSRet r} {if l.isEmpty then "-" else " ".intercalate l}")
    | _, _ => (s, "bad-op")
  | ["sdl.before", tok] =>
    -- `nil` = nothing stored; otherwise the stored bytes
    let t? : Option (Option Bytes) := if tok == "nil" then some none else (hexToBytes? tok).map some
    match t? with
    | some t => (s, match SDL.before t with | some n => s!"ok {n}" | none => "err")
    | none => (s, "bad-op")
  | ["sdl.encode", n] =>
    match n.toNat? with
    | some n => if n < 2 ^ 64 then (s, bytesToHex (SDL.encodeResume n)) else (s, "bad-op")
    | none => (s, "bad-op")
  | ["glue", mig, ret, c] =>
    -- how the runner reacts to what the data model says `Migrate` returned (`c`: context cancelled)
    match bool? c with
    | none => (s, "bad-op")
    | some c =>
      let r? : Option MigStep :=
        if mig == "sdl" then (parseSRet ret).map sdlRet
        else if mig == "bt" then
          (if ret == "done" then some BlockTx.Ret.done else if ret == "rerun" then some .rerun
           else if ret == "failed" then some .failed else if ret == "failed-nil" then some .failedNil else none).map btRet
        else if mig == "hs" then
          (if ret == "done" then some HS.Ret.done else if ret == "rerun" then some .rerun
           else if ret == "failed" then some .failed else none).map hsRet
        else none
      match r? with
      | some r => (s, showReaction (reaction s.cfg r c))
      | none => (s, "bad-op")
  | "hs.set" :: accts =>
    match accts.mapM parseAcct with
    | some l =>
      let arr := l.toArray
      ({ s with hs := ⟨l.length, fun a => arr.getD a ⟨none, none, none, none⟩⟩ }, "ok")
    | none => (s, "bad-op")
  | ["hs.migrate", st] =>
    match parseHStep st with
    | some st =>
      let (db, r) := HS.migrate s.hs st
      let arr := ((List.range db.n).map db.acct).toArray
      let db' : HS.Db := ⟨db.n, fun a => arr.getD a ⟨none, none, none, none⟩⟩
      let l := (List.range db'.n).map fun a => showAcct (db'.acct a)
      ({ s with hs := db' }, s!"{showHRet r} {if l.isEmpty then "-" else " ".intercalate l}")
    | none => (s, "bad-op")
  | ["pipe.check", conc, n, sent, isDone, workers, dones] =>
    let ws : Option (List (List Nat)) := (workers.splitOn ";").mapM parseNats
    match conc.toNat?, n.toNat?, sent.toNat?, bool? isDone, ws, parseNats dones with
    | some conc, some n, some sent, some d, some ws, some dc =>
      (s, toString (Pipe.valid conc ⟨n, sent, d, ws, dc⟩))
    | _, _, _, _, _, _ => (s, "bad-op")
  | ["pr.cutoff", height, l1, ret, pruned, pin] =>
    -- pin: `x` or the cutoff restored from a resume state
    match height.toNat?, l1.toNat?, ret.toNat?, pruned.toNat?, optNat? pin with
    | some height, some l1, some ret, some pruned, some pin =>
      let i : Pruner.In := ⟨height, l1, ret, pruned, pin⟩
      (s, match Pruner.cutoff Pruner.Cfg.fixed i with
          | none => "none"
          | some c => s!"{c} {if Pruner.setupOk i c then "ok" else "fails"}")
    | _, _, _, _, _ => (s, "bad-op")
  | ["pr.finish", c, h, st, r, live, scratch] =>
    -- which kept blocks lose their history when a completed run resumes from token (st, r)
    match c.toNat?, h.toNat?, st.toNat?, r.toNat?, parseNats live, parseNats scratch with
    | some c, some h, some st, some r, some live, some scratch =>
      (s, let l := Pruner.lost c h (Pruner.finish true c h (st, r) ⟨live, scratch⟩)
          showNats l)
    | _, _, _, _, _, _ => (s, "bad-op")
  | ["bt.first"] =>
    match s.bt.height with
    | none => (s, "noheight")
    | some h =>
      (s, match BlockTx.getFirst s.bt h with
          | .error _ => "error" | .ok none => "none" | .ok (some f) => toString f)
  | ["bt.view"] =>
    let l := (List.range s.btN).map fun b =>
      match BlockTx.view (s.bt.blk b) with
      | none => "x"
      | some (t, r) => s!"{showNats t};{showNats r}"
    (s, if l.isEmpty then "-" else " ".intercalate l)
  | _ => (s, "bad-op")

def main : IO Unit := loop step {}
