/-
C18 — acceptor for observed runs of juno's generic migration pipeline (migration/pipeline/pipeline.go):
`Source(it)` hands out the items of a sequence in order until the context is cancelled; a stage
`New(inputs, concurrency, state)` runs `concurrency` workers, each calling `state.Run(worker, item, …)`
for the items it receives and `state.Done(worker, …)` once when the input is exhausted; a stage
keeps draining its input after a cancellation, so everything handed out is processed.
Core Lean only (linked into the driver).
-/
namespace Juno.C18.Pipe

/-- What was observed of one stage: `n` items existed upstream, `sent` of them were handed out
(for the source stage; for a later stage: were sent by the previous stage), and the list of items
(numbered 0.. in hand-out order) each worker's `Run` was called with, in call order. -/
structure Obs where
  n : Nat
  sent : Nat
  isDone : Bool
  perWorker : List (List Nat)
  doneCalls : List Nat          -- how often `Done` was called per worker

def sortedAsc : List Nat → Bool
  | [] => true
  | [_] => true
  | a :: b :: r => decide (a < b) && sortedAsc (b :: r)

def all (o : Obs) : List Nat := o.perWorker.flatten

/-- The run is one the pipeline may produce. -/
def valid (conc : Nat) (o : Obs) : Bool :=
  o.perWorker.length == conc && o.doneCalls.length == conc &&
  decide (o.sent ≤ o.n) &&
  (o.isDone == decide (o.sent = o.n)) &&                       -- the source finishes iff nothing was cut
  o.perWorker.all sortedAsc &&                                 -- per worker in hand-out order
  (List.range o.sent).all (fun i => (all o).count i == 1) &&   -- every handed-out item exactly once
  (all o).all (fun x => decide (x < o.sent)) &&                -- nothing else
  o.doneCalls.all (· == 1)                                     -- Done exactly once per worker

end Juno.C18.Pipe
