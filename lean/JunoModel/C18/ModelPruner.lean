/-
C18 — model of the history pruner migration's cutoff decision and of the two set-up steps that
depend on it (migration/historyprunner/migrator.go `Migrate` lines 96-125, `retentionFloorWithMinAge`
with minAge = 0, `setupBeforeStager`, `setupBeforeRestorer`). The stager / restorer passes are not
modelled (they are exercised on the real code only). Core Lean only (linked into the driver).
-/
namespace Juno.C18.Pruner

structure Cfg where
  /-- migrator.go:113 guards only `pivot < retainedBlocks`; a cutoff of 0 is taken as a real cutoff.
  `true` = as pinned; `false` = cutoff 0 means "nothing to prune". -/
  zeroCutoffRuns : Bool
  /-- the cutoff is recomputed from the configuration on a restart without resume state even when a
  dead run already committed a higher one (or the new configuration says "nothing to prune").
  `true` = as pinned; `false` = never below the pruned prefix, a started prune is finished. -/
  cutoffBelowPruned : Bool
  deriving Repr, DecidableEq

def Cfg.pinned : Cfg := ⟨true, true⟩
def Cfg.fixed : Cfg := ⟨false, false⟩

structure In where
  height : Nat           -- chain height
  l1 : Nat               -- stored L1 head
  retained : Nat         -- retainedBlocks of this start's configuration
  pruned : Nat           -- oldest retained block (first BlockCommitments key): what is already pruned
  pinnedCut : Option Nat -- cutoff restored by `Before` from a saved resume state
  deriving Repr, DecidableEq

/-- The cutoff `Migrate` works with; `none` = `return nil, nil` (nothing to prune). -/
def cutoff (cfg : Cfg) (i : In) : Option Nat :=
  match i.pinnedCut with
  | some c => some c
  | none =>
    let pivot := min i.l1 i.height
    if cfg.cutoffBelowPruned then
      -- as pinned: the configuration alone decides
      if pivot < i.retained then none else
      let floor := pivot - i.retained
      if !cfg.zeroCutoffRuns && floor == 0 then none else some floor
    else
      -- proposed patch: a prune that a dead run committed is finished, never below it
      let floor := max (if pivot < i.retained then 0 else pivot - i.retained) i.pruned
      if !cfg.zeroCutoffRuns && floor == 0 then none else some floor

/-- `setupBeforeRestorer` reads the header of block `oldestBlockKept - uint64(1)`. -/
def restorerSeed (c : Nat) : Nat := if c = 0 then 2 ^ 64 - 1 else c - 1

/-- The run can get through its set-up steps: the stager only touches blocks that still have their
state update (`pruned ≤ cutoff`), and the restorer's seed block exists (`seed ≤ height`). -/
def setupOk (i : In) (c : Nat) : Bool := decide (i.pruned ≤ c) && decide (restorerSeed c ≤ i.height)

end Juno.C18.Pruner
