/-
C18 — model of the history pruner migration's cutoff decision and of the two set-up steps that
depend on it (migration/historyprunner/migrator.go `Migrate` lines 96-125, `retentionFloorWithMinAge`
with minAge = 0, `setupBeforeStager`, `setupBeforeRestorer`). The stager / restorer passes are
modelled at block granularity for one question only (`finish`): which kept blocks still have their
state-history entries after a run that resumes from a given token and completes. Core Lean only (linked into the driver).
-/
namespace Juno.C18.Pruner

structure Cfg where
  /-- migrator.go:113 guards only `pivot < retainedBlocks`; a cutoff of 0 is taken as a real cutoff.
  `true` = as pinned; `false` = cutoff 0 means "nothing to prune". -/
  zeroCutoffRuns : Bool
  /-- the cutoff is recomputed from the configuration on a restart without resume state even when a
  dead run already committed a higher one (or the new configuration says "nothing to prune").
  `true` = as pinned; `false` = never below the pruned prefix, a started prune is finished. -/
  cutoffBelowPruned : Bool
  deriving Repr, DecidableEq

def Cfg.pinned : Cfg := ⟨true, true⟩
def Cfg.fixed : Cfg := ⟨false, false⟩

structure In where
  height : Nat           -- chain height
  l1 : Nat               -- stored L1 head
  retained : Nat         -- retainedBlocks of this start's configuration
  pruned : Nat           -- oldest retained block (first BlockCommitments key): what is already pruned
  pinnedCut : Option Nat -- cutoff restored by `Before` from a saved resume state
  deriving Repr, DecidableEq

/-- The cutoff `Migrate` works with; `none` = `return nil, nil` (nothing to prune). -/
def cutoff (cfg : Cfg) (i : In) : Option Nat :=
  match i.pinnedCut with
  | some c => some c
  | none =>
    let pivot := min i.l1 i.height
    if cfg.cutoffBelowPruned then
      -- as pinned: the configuration alone decides
      if pivot < i.retained then none else
      let floor := pivot - i.retained
      if !cfg.zeroCutoffRuns && floor == 0 then none else some floor
    else
      -- proposed patch: a prune that a dead run committed is finished, never below it
      let floor := max (if pivot < i.retained then 0 else pivot - i.retained) i.pruned
      if !cfg.zeroCutoffRuns && floor == 0 then none else some floor

/-- `setupBeforeRestorer` reads the header of block `oldestBlockKept - uint64(1)`. -/
def restorerSeed (c : Nat) : Nat := if c = 0 then 2 ^ 64 - 1 else c - 1

/-- The run can get through its set-up steps: the stager only touches blocks that still have their
state update (`pruned ≤ cutoff`), and the restorer's seed block exists (`seed ≤ height`). -/
def setupOk (i : In) (c : Nat) : Bool := decide (i.pruned ≤ c) && decide (restorerSeed c ≤ i.height)

/-! ## Stager / restorer phases at block granularity (resume token vs. scratch namespace) -/

/-- What matters on disk: the blocks whose state-history entries are in the live buckets, and the
blocks whose entries are staged in the scratch namespace. -/
structure Disk where
  live : List Nat
  scratch : List Nat
  deriving Repr, DecidableEq

/-- The resume token `encodeIntermediateState(stager, restorer, cutoff)`: (stager, restorer). A fresh
run is `(0, 0)`. -/
abbrev Token := Nat × Nat

/-- One `Migrate` call that runs to completion with cutoff `c` on a chain of height `h`, resuming
from `tok` (migrator.go `runStager`, `setupBeforeRestorer`, `runRestorer`).
`guard = false` is the pinned code: the stager resumes at `max c stager` whatever the scratch
namespace holds. `guard = true` is the proposed patch: a stager-phase token above the cutoff with an
empty scratch namespace is stale, staging restarts at the cutoff. -/
def finish (guard : Bool) (c h : Nat) (tok : Token) (d : Disk) : Disk :=
  let s := tok.1
  let r := tok.2
  let s' := if guard && decide (c < s) && d.scratch.isEmpty then c else max c s
  -- runStager: skipped when the token says it completed; a block whose live entry is missing is skipped
  let scratch1 := if s ≤ h then d.scratch ++ d.live.filter (fun b => decide (s' ≤ b ∧ b ≤ h)) else d.scratch
  -- setupBeforeRestorer: wipes the live history unless the restorer had started
  let live1 := if r = 0 then [] else d.live
  -- runRestorer from max c r: copies what the scratch namespace has (3c301f0: a missing entry is skipped)
  let r' := max c r
  let live2 := live1 ++ scratch1.filter (fun b => decide (r' ≤ b ∧ b ≤ h))
  -- completion: scratch wiped
  { live := live2, scratch := [] }

/-- The kept blocks that lost their history entries. -/
def lost (c h : Nat) (d : Disk) : List Nat :=
  ((List.range (h + 1)).filter (fun b => decide (c ≤ b))).filter (fun b => !d.live.contains b)

end Juno.C18.Pruner
