import JunoModel.C17.Model
/-!
C17 — executable model, part 2 (round 4): the glue between the modelled core (`Model.lean`) and the
public API of `l1.Client`. Core Lean only (linked into `c17drv`).

Transcribed code:
* `NewClient` + `options` (l1.go:32-98): the defaults (`defaultCatchUpChunkSize = 1000`) and the
  functional options that override them                                    → `Options`, `newClient`
* `Client.finalisedHeight` (l1.go:405): retry until an answer, `false` when the context ends
                                                                            → `finalisedHeightLoop`
* the first lines of `setL1Head` (`if !found { return nil }`)               → `pollStep`
* `Client.subscribeToUpdates` (l1.go:100): retry until subscribed, `nil` when the context ends
                                                                            → `subscribeLoop`
* what `Run` / `CatchUpL1Head` RETURN (error class)                         → `lifeErr`
* the sequence of heads handed to `Blockchain.SetL1Head` / `listener.OnNewL1Head` / the L1-head
  feed over a whole trace and a whole life                                  → `runNotes`, `lifeNotes`
  (`Blockchain.SetL1Head` is the only writer of the `L1Height` key: the harness compares the
  sequence of database writes with the same list)
* the hand-off chain of a live subscription under back-pressure: go-ethereum's subscription queue →
  `gethEventsCh` (capacity `watchForwarderBuffer = 64`) → `forwardStateUpdates` (decodes ONE event and
  blocks on `updatesCh <- …` until the client takes it or the subscription is torn down — no timeout,
  no drop) → the client's `updateCh` (capacity 128) → `applyStateUpdate`      → `Pipe`, `Pipe.step`
* `isL1Verified` of rpc/v8,v9,v10 `helpers.go` (`l1 != (core.L1Head{}) && l1.BlockNumber >= n`; the
  handler's `l1Head()` turns "key not found" into the empty head)           → `isL1Verified`
-/
namespace Juno.C17

/-! ### construction -/

/-- `defaultCatchUpChunkSize` (l1.go:33). -/
def defaultCatchUpChunkSize : Nat := 1000

/-- The part of `options` that matters for the recorded head: `WithCatchUpChunkSize` given or not. -/
structure Options where
  chunk : Option Nat := none
  deriving DecidableEq, Repr, Inhabited

/-- `NewClient`: defaults first, then the options; the result is `Client.catchUpChunkSize`
(`uint64`). The buffer starts empty and the stored head is whatever the database holds. -/
def newClientChunk (o : Options) : Nat :=
  match o.chunk with
  | none => defaultCatchUpChunkSize
  | some c => c % 2 ^ 64

/-! ### retry loops -/

/-- `finalisedHeight`: one `FinalisedHeight` attempt per timer expiry; an error → retry after the
delay; the script running out stands for the context being cancelled (`return 0, false`).
Second component: the number of attempts made. -/
def finalisedHeightLoop : List (Option Nat) → Option Nat × Nat
  | [] => (none, 0)
  | some f :: _ => (some f, 1)
  | none :: t => let r := finalisedHeightLoop t; (r.1, r.2 + 1)

/-- `setL1Head` from its first line: `finalisedHeight`, and `return nil` when it gave up. -/
def pollStep (g : Bool) (s : State) (answers : List (Option Nat)) : State × Option Head :=
  match (finalisedHeightLoop answers).1 with
  | some f => setL1Head g s f
  | none => (s, none)

/-- `subscribeToUpdates`: the index of the first successful `WatchStateUpdate` attempt, `none` when
the context ended first (the caller then returns nil). -/
def subscribeLoop : List Bool → Option Nat
  | [] => none
  | true :: _ => some 0
  | false :: t => (subscribeLoop t).map (· + 1)

/-! ### the heads handed out over a trace -/

/-- One input of the event loop together with the head passed to `Blockchain.SetL1Head`. -/
def stepNote (g : Bool) (s : State) : Ev → State × Option Head
  | .tick f => setL1Head g s f
  | e => (step g s e, none)

/-- Every head passed to `Blockchain.SetL1Head` (hence sent on the feed, written to the database
and reported to the listener) while the event loop processes `tr`, in order. -/
def runNotes (g : Bool) (s : State) : List Ev → List Head
  | [] => []
  | e :: t =>
    match (stepNote g s e).2 with
    | some h => h :: runNotes g (stepNote g s e).1 t
    | none => runNotes g (stepNote g s e).1 t

/-- … over a whole life under `Run` (or `CatchUpL1Head` when `oneshot`): what the catch-up's own
`setL1Head` hands out, then the event loop's. -/
def lifeNotes (g : Bool) (s : State) (cfg : Startup) (oneshot : Bool) (tr : List Ev) : List Head :=
  match (if oneshot then checkChainIDOnce cfg.chainId else ensureChainID cfg.chainId) with
  | .proceed =>
    match cfg.latest, cfg.fin₁ with
    | some la, some f1 =>
      let r := catchUp g s cfg.hist la f1 cfg.chunk cfg.failAt cfg.fin₂
      r.2.2.toList ++ (if oneshot then [] else runNotes g r.1 tr)
    | _, _ => if oneshot then [] else runNotes g s tr
  | _ => []

/-! ### what `Run` / `CatchUpL1Head` return -/

inductive ErrClass where
  | none        -- nil
  | mismatch    -- errChainIDMismatch
  | provider    -- an error of the L1 provider, wrapped
  deriving DecidableEq, Repr, Inhabited

/-- `Run`: nil when the context ended while the chain id was retried, the mismatch error when the L1
node is on another network; a failed catch-up is only logged. `CatchUpL1Head`: every failure is
returned — the chain-id probe (`checkChainID`, one attempt), `LatestHeight`, `FinalisedHeight`,
a failing `FilterStateUpdate`. (Database failures: `setL1HeadFault`.) -/
def lifeErr (cfg : Startup) (oneshot : Bool) : ErrClass :=
  if oneshot then
    match cfg.chainId with
    | .ok :: _ =>
      match cfg.latest, cfg.fin₁ with
      | some la, some f1 =>
        match (catchUpLoop cfg.hist f1 cfg.chunk cfg.failAt la 0 [] [] []).result with
        | .failed => .provider
        | _ => .none
      | _, _ => .provider
    | .mismatch :: _ => .mismatch
    | _ => .provider
  else
    match ensureChainID cfg.chainId with
    | .fatal => .mismatch
    | _ => .none


/-! ### the hand-off chain of a live subscription (back-pressure, no drop) -/

/-- `watchForwarderBuffer` (geth_l1_state_provider.go:32). -/
def watchForwarderBuffer : Nat := 64
/-- `const buffer = 128` in `watchL1StateUpdates` (l1.go:238). -/
def updateChBuffer : Nat := 128

/-- Where the logs of one live subscription are. -/
structure Pipe where
  up : List RawLog := []     -- pushed by the L1 node, still in go-ethereum's subscription queue
  ch : List RawLog := []     -- `gethEventsCh`
  hand : Option SU := none   -- decoded by `forwardStateUpdates`, blocked in `updatesCh <- …`
  sink : List SU := []       -- the client's `updateCh`
  out : List SU := []        -- received by the client's event loop (handed to `applyStateUpdate`), in order
  deriving Repr, Inhabited

inductive PipeOp where
  | arrive (r : RawLog)  -- the node pushes a log on the subscription
  | feed                 -- abigen's goroutine moves the oldest queued log into `gethEventsCh` (blocks when full)
  | take                 -- the forwarder's outer `select` receives from `gethEventsCh` and decodes
  | put                  -- the forwarder's inner `select` succeeds in sending to `updatesCh` (blocks when full)
  | consume              -- the client's event loop receives from `updateCh`
  deriving Repr, Inhabited

/-- One scheduling step; a step that is not enabled (empty source, full destination, hand occupied)
is a no-op — the goroutine stays blocked, nothing is dropped. -/
def Pipe.step (p : Pipe) : PipeOp → Pipe
  | .arrive r => { p with up := p.up ++ [r] }
  | .feed =>
    match p.up with
    | r :: t => if p.ch.length < watchForwarderBuffer then { p with up := t, ch := p.ch ++ [r] } else p
    | [] => p
  | .take =>
    match p.hand, p.ch with
    | none, r :: t => { p with ch := t, hand := some (decodeLog r) }
    | _, _ => p
  | .put =>
    match p.hand with
    | some u => if p.sink.length < updateChBuffer then { p with hand := none, sink := p.sink ++ [u] } else p
    | none => p
  | .consume =>
    match p.sink with
    | u :: t => { p with sink := t, out := p.out ++ [u] }
    | [] => p

def Pipe.run (p : Pipe) (ops : List PipeOp) : Pipe := ops.foldl Pipe.step p

/-- The logs the node has pushed during `ops`, in order. -/
def arrivedOf : List PipeOp → List RawLog
  | [] => []
  | .arrive r :: t => r :: arrivedOf t
  | _ :: t => arrivedOf t

/-- Everything that is somewhere in the chain, oldest first, as the client will see it. -/
def Pipe.contents (p : Pipe) : List SU :=
  p.out ++ p.sink ++ p.hand.toList ++ forwardStream p.ch ++ forwardStream p.up

/-! ### the consumer of the stored head that decides the finality status -/

/-- `isL1Verified(n, l1Head)` with `l1Head` read as the RPC handlers do (no stored head = the empty
head, which verifies nothing; a stored head always has non-nil hash/root pointers, so it differs from
the empty head whatever its numbers are). Block `n` is reported ACCEPTED_ON_L1 iff this holds. -/
def isL1Verified (n : Nat) (stored : Option Head) : Bool :=
  match stored with
  | none => false
  | some h => decide (n ≤ h.l2)

end Juno.C17
