import JunoModel.C17.ProofsMisc
import JunoModel.C17.ModelGlue
/-!
C17 — helper lemmas, part 10 (round 4): the heads handed out over a trace (`runNotes`), the retry
loops, the construction defaults, the one-shot catch-up with a stored head.
-/
namespace Juno.C17

/-! ### stepNote / runNotes basics -/

theorem stepNote_fst (g : Bool) (s : State) (e : Ev) : (stepNote g s e).1 = step g s e := by
  cases e <;> rfl

theorem runNotes_cons (g : Bool) (s : State) (e : Ev) (t : List Ev) :
    runNotes g s (e :: t) = (stepNote g s e).2.toList ++ runNotes g (step g s e) t := by
  rw [← stepNote_fst]
  show (match (stepNote g s e).2 with
    | some h => h :: runNotes g (stepNote g s e).1 t
    | none => runNotes g (stepNote g s e).1 t) = _
  cases (stepNote g s e).2 <;> simp

theorem runNotes_append (g : Bool) (s : State) (a b : List Ev) :
    runNotes g s (a ++ b) = runNotes g s a ++ runNotes g (run g s a) b := by
  induction a generalizing s with
  | nil => rfl
  | cons e t ih =>
    have hr : run g s (e :: t) = run g (step g s e) t := rfl
    rw [List.cons_append, runNotes_cons, runNotes_cons, ih, hr, List.append_assoc]

theorem runNotes_snoc (g : Bool) (s : State) (tr : List Ev) (x : Ev) :
    runNotes g s (tr ++ [x]) = runNotes g s tr ++ (stepNote g (run g s tr) x).2.toList := by
  rw [runNotes_append, runNotes_cons]
  simp [runNotes]

/-- A handed-out head is the stored head right afterwards; nothing handed out: unchanged. -/
theorem stepNote_head (g : Bool) (s : State) (e : Ev) :
    (∀ h, (stepNote g s e).2 = some h → (step g s e).head = some h) ∧
    ((stepNote g s e).2 = none → (step g s e).head = s.head) := by
  cases e with
  | tick f => exact notification_eq_head g s f
  | upd u => exact ⟨(by intro h hh; cases hh), fun _ => rfl⟩
  | subErr => exact ⟨(by intro h hh; cases hh), fun _ => rfl⟩
  | resub ok => exact ⟨(by intro h hh; cases hh), fun _ => rfl⟩
  | finErr => exact ⟨(by intro h hh; cases hh), fun _ => rfl⟩

/-- The stored head is the last head handed out, or the one found at the start. -/
def lastOr (h0 : Option Head) (l : List Head) : Option Head :=
  match l.getLast? with
  | some h => some h
  | none => h0

theorem lastOr_nil (h0 : Option Head) : lastOr h0 [] = h0 := rfl

theorem lastOr_cons (h0 : Option Head) (h : Head) (l : List Head) :
    lastOr h0 (h :: l) = lastOr (some h) l := by
  cases l with
  | nil => rfl
  | cons a t =>
    simp only [lastOr, List.getLast?_cons_cons]
    cases hl : (a :: t).getLast? with
    | none => simp at hl
    | some x => rfl

theorem run_head_lastOr (g : Bool) (s : State) (tr : List Ev) :
    (run g s tr).head = lastOr s.head (runNotes g s tr) := by
  induction tr generalizing s with
  | nil => rfl
  | cons e t ih =>
    have hr : run g s (e :: t) = run g (step g s e) t := rfl
    rw [hr, ih, runNotes_cons]
    cases hn : (stepNote g s e).2 with
    | none => simp [(stepNote_head g s e).2 hn]
    | some h => simp [(stepNote_head g s e).1 h hn, lastOr_cons]

/-! ### the Starknet block numbers of the heads handed out never decrease -/

theorem stepNote_ge (s : State) (e : Ev) (h : Head) (hn : (stepNote true s e).2 = some h) :
    optLe (headL2 s) (some h.l2) := by
  have h1 := (stepNote_head true s e).1 h hn
  have h2 := guard_step_mono s e
  simpa [headL2, h1] using h2

theorem runNotes_ge (s : State) (tr : List Ev) :
    ∀ h ∈ runNotes true s tr, optLe (headL2 s) (some h.l2) := by
  induction tr generalizing s with
  | nil => intro h hh; cases hh
  | cons e t ih =>
    intro h hh
    rw [runNotes_cons] at hh
    rcases List.mem_append.mp hh with h1 | h1
    · cases hn : (stepNote true s e).2 with
      | none => rw [hn] at h1; cases h1
      | some x =>
        rw [hn] at h1
        simp at h1
        subst h1
        exact stepNote_ge s e h hn
    · exact optLe_trans (guard_step_mono s e) (ih _ h h1)

theorem runNotes_sorted (s : State) (tr : List Ev) :
    (runNotes true s tr).Pairwise (fun a b => a.l2 ≤ b.l2) := by
  induction tr generalizing s with
  | nil => exact List.Pairwise.nil
  | cons e t ih =>
    rw [runNotes_cons]
    cases hn : (stepNote true s e).2 with
    | none => simpa using ih _
    | some x =>
      simp only [Option.toList_some, List.singleton_append]
      refine List.Pairwise.cons ?_ (ih _)
      intro b hb
      have hx := (stepNote_head true s e).1 x hn
      have := runNotes_ge (step true s e) t b hb
      simpa [headL2, hx, optLe] using this

/-! ### every head handed out is the commit of a delivered, not removed, finalised event -/

theorem runNotes_origin (g : Bool) (h0 : Option Head) (tr : List Ev) :
    ∀ h ∈ runNotes g (State.init h0) tr,
      ∃ a F b, tr = a ++ Ev.tick F :: b ∧ ∃ e ∈ live a, e.2.l1 ≤ F ∧ h = e.2.toHead := by
  refine snoc_ind (P := fun tr => ∀ h ∈ runNotes g (State.init h0) tr,
      ∃ a F b, tr = a ++ Ev.tick F :: b ∧ ∃ e ∈ live a, e.2.l1 ≤ F ∧ h = e.2.toHead) ?_ ?_ tr
  · intro h hh; cases hh
  · intro l x ih h hh
    rw [runNotes_snoc] at hh
    rcases List.mem_append.mp hh with h1 | h1
    · obtain ⟨a, F, b, hl, e, he, hF, heq⟩ := ih h h1
      exact ⟨a, F, b ++ [x], by rw [hl]; simp, e, he, hF, heq⟩
    · cases x with
      | tick F =>
        have h1' : (setL1Head g (run g (State.init h0) l) F).2 = some h := by
          cases hn : (setL1Head g (run g (State.init h0) l) F).2 with
          | none =>
            have : (stepNote g (run g (State.init h0) l) (.tick F)).2 = none := hn
            rw [this] at h1; cases h1
          | some y =>
            have : (stepNote g (run g (State.init h0) l) (.tick F)).2 = some y := hn
            rw [this] at h1; simp at h1; rw [h1]
        -- the handed-out head is the commit of the selected candidate
        unfold setL1Head at h1'
        cases hp : pickMax F (run g (State.init h0) l).buf with
        | none => rw [hp] at h1'; cases h1'
        | some c =>
          rw [hp] at h1'
          by_cases hs : skipCandidate g (run g (State.init h0) l).head c = true
          · simp [hs] at h1'
          · simp [hs] at h1'
            obtain ⟨n, hn, huF, _⟩ := pickMax_pend_some hp
            exact ⟨l, F, [], rfl, (n, c), (basic g h0 l).sub _ hn, huF, h1'.symm⟩
      | upd u => simp [stepNote] at h1
      | subErr => simp [stepNote] at h1
      | resub ok => simp [stepNote] at h1
      | finErr => simp [stepNote] at h1

/-! ### retry loops -/

theorem finalisedHeightLoop_none {l : List (Option Nat)} :
    (finalisedHeightLoop l).1 = none ↔ ∀ a ∈ l, a = none := by
  induction l with
  | nil => simp [finalisedHeightLoop]
  | cons a t ih =>
    cases a with
    | none => simp [finalisedHeightLoop, ih]
    | some f => simp [finalisedHeightLoop]

theorem finalisedHeightLoop_some {l : List (Option Nat)} {f : Nat}
    (h : (finalisedHeightLoop l).1 = some f) :
    ∃ k t, l = List.replicate k none ++ some f :: t ∧ (finalisedHeightLoop l).2 = k + 1 := by
  induction l with
  | nil => simp [finalisedHeightLoop] at h
  | cons a t ih =>
    cases a with
    | some f' =>
      simp [finalisedHeightLoop] at h
      subst h
      exact ⟨0, t, by simp, by simp [finalisedHeightLoop]⟩
    | none =>
      simp only [finalisedHeightLoop] at h
      obtain ⟨k, t', ht, hk⟩ := ih h
      exact ⟨k + 1, t', by rw [ht]; simp [List.replicate_succ], by simp [finalisedHeightLoop, hk]⟩

theorem finalisedHeightLoop_le (l : List (Option Nat)) : (finalisedHeightLoop l).2 ≤ l.length := by
  induction l with
  | nil => simp [finalisedHeightLoop]
  | cons a t ih =>
    cases a with
    | none => simp [finalisedHeightLoop]; omega
    | some f => simp [finalisedHeightLoop]

theorem subscribeLoop_some {l : List Bool} {k : Nat} (h : subscribeLoop l = some k) :
    ∃ t, l = List.replicate k false ++ true :: t := by
  induction l generalizing k with
  | nil => simp [subscribeLoop] at h
  | cons a t ih =>
    cases a with
    | true => simp [subscribeLoop] at h; subst h; exact ⟨t, by simp⟩
    | false =>
      simp only [subscribeLoop, Option.map_eq_some_iff] at h
      obtain ⟨k', hk', rfl⟩ := h
      obtain ⟨t', ht'⟩ := ih hk'
      exact ⟨t', by rw [ht']; simp [List.replicate_succ]⟩

/-! ### one-shot catch-up with a stored head -/

theorem catchUp_head_stored {hist : List SU} {latest fin₁ fin₂ chunk : Nat} (h0 : Option Head)
    (hh : ∀ u ∈ hist, u.removed = false) (hc : chunk ≠ 0) (hfin : fin₁ ≤ fin₂) :
    (∃ u, CatchUpTop hist latest fin₂ u ∧
      (catchUp true (State.init h0) hist latest fin₁ chunk none fin₂).1.head =
        (if skipCandidate true h0 u then h0 else some u.toHead)) ∨
    ((∀ u ∈ hist, ¬ (u.l1 ≤ fin₂ ∧ u.l1 ≤ latest)) ∧
      (catchUp true (State.init h0) hist latest fin₁ chunk none fin₂).1.head = h0) := by
  obtain ⟨hres, hs, hn⟩ := catchUp_pick (fin₂ := fin₂) hh (histConsistent_nil hist latest) hc hfin
  simp only [catchUp, State.init, hres, setL1Head]
  cases hp : pickMax fin₂ (catchUpLoop hist fin₁ chunk none latest 0 [] [] []).buf with
  | none => exact Or.inr ⟨hn hp, rfl⟩
  | some u =>
    refine Or.inl ⟨u, hs u hp, ?_⟩
    by_cases hk : skipCandidate true h0 u = true <;> simp [hk]

/-! ### the hand-off chain: nothing lost, nothing duplicated, order kept, whatever the schedule -/

theorem forwardStream_append (a b : List RawLog) :
    forwardStream (a ++ b) = forwardStream a ++ forwardStream b := by simp [forwardStream]

theorem pipe_step_contents (p : Pipe) (o : PipeOp) :
    (p.step o).contents = p.contents ++ forwardStream (arrivedOf [o]) := by
  cases o with
  | arrive r =>
    simp [Pipe.step, Pipe.contents, arrivedOf, forwardStream_append]
  | feed =>
    simp only [Pipe.step, arrivedOf, forwardStream, List.map_nil, List.append_nil]
    cases hu : p.up with
    | nil => simp
    | cons r t =>
      by_cases hc : p.ch.length < watchForwarderBuffer
      · simp [hc, Pipe.contents, hu, forwardStream]
      · simp [hc]
  | take =>
    simp only [Pipe.step, arrivedOf, forwardStream, List.map_nil, List.append_nil]
    cases hh : p.hand with
    | some u => simp
    | none =>
      cases hc : p.ch with
      | nil => simp
      | cons r t => simp [Pipe.contents, hh, hc, forwardStream]
  | put =>
    simp only [Pipe.step, arrivedOf, forwardStream, List.map_nil, List.append_nil]
    cases hh : p.hand with
    | none => simp
    | some u =>
      by_cases hc : p.sink.length < updateChBuffer
      · simp [hc, Pipe.contents, hh]
      · simp [hc]
  | consume =>
    simp only [Pipe.step, arrivedOf, forwardStream, List.map_nil, List.append_nil]
    cases hs : p.sink with
    | nil => simp
    | cons u t => simp [Pipe.contents, hs]

theorem arrivedOf_append (a b : List PipeOp) : arrivedOf (a ++ b) = arrivedOf a ++ arrivedOf b := by
  induction a with
  | nil => rfl
  | cons o t ih => cases o <;> simp [arrivedOf, ih]

theorem pipe_run_contents (p : Pipe) (ops : List PipeOp) :
    (p.run ops).contents = p.contents ++ forwardStream (arrivedOf ops) := by
  induction ops generalizing p with
  | nil => simp [Pipe.run, arrivedOf, forwardStream]
  | cons o t ih =>
    have hr : p.run (o :: t) = (p.step o).run t := rfl
    rw [hr, ih, pipe_step_contents]
    have : arrivedOf (o :: t) = arrivedOf [o] ++ arrivedOf t := arrivedOf_append [o] t
    rw [this, forwardStream_append, List.append_assoc]

theorem pipe_step_caps (p : Pipe) (o : PipeOp) (h1 : p.ch.length ≤ watchForwarderBuffer)
    (h2 : p.sink.length ≤ updateChBuffer) :
    (p.step o).ch.length ≤ watchForwarderBuffer ∧ (p.step o).sink.length ≤ updateChBuffer := by
  cases o with
  | arrive r => exact ⟨h1, h2⟩
  | feed =>
    simp only [Pipe.step]
    cases hu : p.up with
    | nil => exact ⟨h1, h2⟩
    | cons r t =>
      by_cases hc : p.ch.length < watchForwarderBuffer
      · simp [hc]; exact ⟨by omega, h2⟩
      · simp [hc]; exact ⟨h1, h2⟩
  | take =>
    simp only [Pipe.step]
    cases hh : p.hand with
    | some u => exact ⟨h1, h2⟩
    | none =>
      cases hc : p.ch with
      | nil => simp; exact ⟨by omega, h2⟩
      | cons r t => simp; rw [hc] at h1; simp at h1; exact ⟨by omega, h2⟩
  | put =>
    simp only [Pipe.step]
    cases hh : p.hand with
    | none => exact ⟨h1, h2⟩
    | some u =>
      by_cases hc : p.sink.length < updateChBuffer
      · simp [hc]; exact ⟨h1, by omega⟩
      · simp [hc]; exact ⟨h1, h2⟩
  | consume =>
    simp only [Pipe.step]
    cases hs : p.sink with
    | nil => simp; exact ⟨h1, by omega⟩
    | cons u t => simp; rw [hs] at h2; simp at h2; exact ⟨h1, by omega⟩

theorem pipe_run_caps (p : Pipe) (ops : List PipeOp) (h1 : p.ch.length ≤ watchForwarderBuffer)
    (h2 : p.sink.length ≤ updateChBuffer) :
    (p.run ops).ch.length ≤ watchForwarderBuffer ∧ (p.run ops).sink.length ≤ updateChBuffer := by
  induction ops generalizing p with
  | nil => exact ⟨h1, h2⟩
  | cons o t ih =>
    have hr : p.run (o :: t) = (p.step o).run t := rfl
    rw [hr]
    exact ih _ (pipe_step_caps p o h1 h2).1 (pipe_step_caps p o h1 h2).2

/-- While the client does not receive (`consume` never scheduled) nothing reaches it, and nothing is
thrown away either: everything pushed is still in the chain. -/
theorem pipe_run_no_consume (p : Pipe) (ops : List PipeOp)
    (h : ∀ o ∈ ops, match o with | .consume => False | _ => True) : (p.run ops).out = p.out := by
  induction ops generalizing p with
  | nil => rfl
  | cons o t ih =>
    have hr : p.run (o :: t) = (p.step o).run t := rfl
    rw [hr, ih _ (fun o' ho' => h o' (List.mem_cons_of_mem _ ho'))]
    have ho := h o (List.mem_cons_self)
    cases o with
    | consume => exact absurd ho (by simp)
    | arrive r => rfl
    | feed => simp only [Pipe.step]; split <;> (try split) <;> rfl
    | take => simp only [Pipe.step]; split <;> rfl
    | put => simp only [Pipe.step]; split <;> (try split) <;> rfl

/-! ### back-pressure always resolves -/

def Pipe.weight (p : Pipe) : Nat :=
  4 * p.up.length + 3 * p.ch.length + 2 * p.hand.toList.length + p.sink.length

def noArrive : PipeOp → Bool
  | .arrive _ => false
  | _ => true

theorem pipe_progress (p : Pipe) (h : p.weight ≠ 0) :
    ∃ o, noArrive o = true ∧ (p.step o).weight < p.weight := by
  cases hs : p.sink with
  | cons u t => exact ⟨.consume, rfl, by simp [Pipe.step, hs, Pipe.weight]⟩
  | nil =>
    cases hh : p.hand with
    | some u =>
      refine ⟨.put, rfl, ?_⟩
      simp [Pipe.step, hh, hs, updateChBuffer, Pipe.weight]
    | none =>
      cases hc : p.ch with
      | cons r t =>
        refine ⟨.take, rfl, ?_⟩
        simp [Pipe.step, hh, hc, Pipe.weight]
        omega
      | nil =>
        cases hu : p.up with
        | cons r t =>
          refine ⟨.feed, rfl, ?_⟩
          simp [Pipe.step, hu, hc, watchForwarderBuffer, Pipe.weight]
          omega
        | nil => exact absurd (by simp [Pipe.weight, hs, hh, hc, hu]) h

theorem pipe_drains (p : Pipe) :
    ∃ ops, (∀ o ∈ ops, noArrive o = true) ∧ (p.run ops).weight = 0 := by
  generalize hn : p.weight = n
  induction n using Nat.strongRecOn generalizing p with
  | _ n ih =>
    by_cases h0 : n = 0
    · exact ⟨[], by simp, by subst h0; exact hn⟩
    · obtain ⟨o, ho, hlt⟩ := pipe_progress p (by omega)
      obtain ⟨ops, hops, hw⟩ := ih (p.step o).weight (by omega) (p.step o) rfl
      refine ⟨o :: ops, ?_, hw⟩
      intro o' ho'
      rcases List.mem_cons.mp ho' with rfl | h'
      · exact ho
      · exact hops o' h'

theorem arrivedOf_noArrive (ops : List PipeOp) (h : ∀ o ∈ ops, noArrive o = true) : arrivedOf ops = [] := by
  induction ops with
  | nil => rfl
  | cons o t ih =>
    have ho := h o List.mem_cons_self
    cases o with
    | arrive r => simp [noArrive] at ho
    | feed => exact ih (fun o' ho' => h o' (List.mem_cons_of_mem _ ho'))
    | take => exact ih (fun o' ho' => h o' (List.mem_cons_of_mem _ ho'))
    | put => exact ih (fun o' ho' => h o' (List.mem_cons_of_mem _ ho'))
    | consume => exact ih (fun o' ho' => h o' (List.mem_cons_of_mem _ ho'))

theorem pipe_weight_zero (p : Pipe) (h : p.weight = 0) : p.contents = p.out := by
  have h1 : p.up = [] := by
    cases hu : p.up with
    | nil => rfl
    | cons r t => simp [Pipe.weight, hu] at h
  have h2 : p.ch = [] := by
    cases hu : p.ch with
    | nil => rfl
    | cons r t => simp [Pipe.weight, hu] at h
  have h3 : p.hand = none := by
    cases hu : p.hand with
    | none => rfl
    | some r => simp [Pipe.weight, hu] at h
  have h4 : p.sink = [] := by
    cases hu : p.sink with
    | nil => rfl
    | cons r t => simp [Pipe.weight, hu] at h
  simp [Pipe.contents, h1, h2, h3, h4, forwardStream]

/-! ### the heads handed out during a whole life are those of the combined trace -/

theorem catchUpLoop_buf_applied (hist : List SU) (fin chunk : Nat) (failAt : Option Nat)
    (latest : Nat) (buf : Buf) :
    (catchUpLoop hist fin chunk failAt latest 0 buf [] []).buf =
      (catchUpLoop hist fin chunk failAt latest 0 buf [] []).applied.foldl applyStateUpdate buf := by
  have key : ∀ (to calls : Nat) (buf : Buf) (q : List (Nat × Nat)) (ap : List SU),
      ∃ evs, (catchUpLoop hist fin chunk failAt to calls buf q ap).applied = ap ++ evs ∧
        (catchUpLoop hist fin chunk failAt to calls buf q ap).buf = evs.foldl applyStateUpdate buf := by
    intro to calls buf q ap
    fun_induction catchUpLoop hist fin chunk failAt to calls buf q ap with
    | case1 => exact ⟨[], by simp, rfl⟩
    | case2 => exact ⟨[], by simp, rfl⟩
    | case3 to calls buf q ap hc frm q' hfail events buf' found hstop => exact ⟨events, rfl, rfl⟩
    | case4 to calls buf q ap hc frm q' hfail events buf' found hstop ih =>
      obtain ⟨evs, h1, h2⟩ := ih
      exact ⟨events ++ evs, by rw [h1]; simp, by rw [h2, List.foldl_append]⟩
  obtain ⟨evs, h1, h2⟩ := key latest 0 buf [] []
  rw [h2, h1]; simp

theorem runNotes_upds (g : Bool) (s : State) (evs : List SU) : runNotes g s (evs.map Ev.upd) = [] := by
  induction evs generalizing s with
  | nil => rfl
  | cons u t ih =>
    rw [List.map_cons, runNotes_cons, ih]
    rfl

theorem catchUp_note_trace (g : Bool) (s : State) (hist : List SU) (latest fin₁ chunk : Nat)
    (failAt : Option Nat) (fin₂ : Nat) :
    let o := catchUpLoop hist fin₁ chunk failAt latest 0 s.buf [] []
    (catchUp g s hist latest fin₁ chunk failAt fin₂).2.2.toList =
      runNotes g s (if o.result = .complete then o.applied.map Ev.upd ++ [Ev.tick fin₂]
        else o.applied.map Ev.upd) := by
  intro o
  have hb := catchUpLoop_buf_applied hist fin₁ chunk failAt latest s.buf
  unfold catchUp
  show (match o.result with
    | .complete => ((setL1Head g ⟨o.buf, s.head⟩ fin₂).1, o, (setL1Head g ⟨o.buf, s.head⟩ fin₂).2)
    | _ => (⟨o.buf, s.head⟩, o, none)).2.2.toList = _
  cases hr : o.result with
  | complete =>
    simp only [if_true]
    rw [runNotes_append, runNotes_upds, run_upds, List.nil_append, runNotes_cons]
    show _ = (setL1Head g ⟨List.foldl applyStateUpdate s.buf o.applied, s.head⟩ fin₂).2.toList ++ _
    rw [show o.buf = List.foldl applyStateUpdate s.buf o.applied from hb]
    simp [runNotes]
  | failed => simp [runNotes_upds]
  | hang => simp [runNotes_upds]

theorem lifeNotes_trace (g : Bool) (s : State) (cfg : Startup) (tr : List Ev) (la f1 : Nat)
    (hg : ensureChainID cfg.chainId = .proceed) (hla : cfg.latest = some la)
    (hf : cfg.fin₁ = some f1) :
    lifeNotes g s cfg false tr = runNotes g s (startUpTrace s cfg la f1 ++ tr) := by
  have hn := catchUp_note_trace g s cfg.hist la f1 cfg.chunk cfg.failAt cfg.fin₂
  have hs := catchUp_as_trace g s cfg.hist la f1 cfg.chunk cfg.failAt cfg.fin₂
  simp only at hn hs
  unfold lifeNotes
  simp only [hg, hla, hf, Bool.false_eq_true, if_false]
  rw [runNotes_append, hn]
  unfold startUpTrace
  simp only
  rw [hs]
  split <;> rfl

/-! ### the scan can only spin forever with chunk size 0 -/

theorem catchUpLoop_hang (hist : List SU) (fin chunk : Nat) (failAt : Option Nat)
    (to calls : Nat) (buf : Buf) (q : List (Nat × Nat)) (ap : List SU)
    (h : (catchUpLoop hist fin chunk failAt to calls buf q ap).result = .hang) : chunk = 0 := by
  fun_induction catchUpLoop hist fin chunk failAt to calls buf q ap with
  | case1 => assumption
  | case2 => simp at h
  | case3 => simp at h
  | case4 _ _ _ _ _ _ _ _ _ _ _ _ _ ih => exact ih h

theorem catchUpLoop_failed (hist : List SU) (fin chunk : Nat)
    (to calls : Nat) (buf : Buf) (q : List (Nat × Nat)) (ap : List SU) :
    (catchUpLoop hist fin chunk none to calls buf q ap).result ≠ .failed := by
  fun_induction catchUpLoop hist fin chunk none to calls buf q ap with
  | case1 => simp
  | case2 _ _ _ _ _ _ _ _ hf => simp at hf
  | case3 => simp
  | case4 _ _ _ _ _ _ _ _ _ _ _ _ _ ih => exact ih

end Juno.C17
