import JunoModel.C17.Model
/-!
C17 — executable model, part 3 (round 5): the recorded L1 head behind `Blockchain.L1Head` /
`Blockchain.SetL1Head` (blockchain/blockchain.go) when SEVERAL goroutines use it at once: the L1
client is the only goroutine that calls `SetL1Head`; RPC handlers (finality status), the pruner and
the client's own never-regress guard call `L1Head()` at any moment. Core Lean only (linked into
`c17drv`).

A small transition system over the atomic actions (feed send, database write, database read, cache
load, cache store). `CachePolicy` selects the code variant:

* `direct`  — THE CODE AS IT IS: `L1Head()` = `core.GetL1Head(b.database)` (ONE database read, nothing
  else); `SetL1Head(h)` = `l1HeadFeed.Send(h)`, then `core.WriteL1Head(b.database, h)`. No cache.
* `publish` — a read-through memo in an atomic pointer: hit → return it; miss → read the database, then
  STORE the value into the cache; `SetL1Head` writes the database, then stores the head into the
  cache. Each site looks fine alone; the miss path is a non-atomic read-then-publish
  (`racy_cache_serves_stale_head`).
* `publishIfEmpty` — the same memo with the miss path publishing by compare-and-swap(nil → v): a
  harmless refactor (`cas_cache_coherent`).

The harness probes which variant is present (does a second `L1Head()` reach the database?) and runs
the model accordingly; for sequential use all three agree on everything observable.
-/
namespace Juno.C17

inductive CachePolicy where
  | direct | publish | publishIfEmpty
  deriving DecidableEq, Repr, Inhabited

def CachePolicy.cached : CachePolicy → Bool
  | .direct => false
  | _ => true

/-- Where the goroutine running `SetL1Head` is inside its current call. -/
inductive WPc where
  | idle      -- between two calls
  | sent      -- `l1HeadFeed.Send(update)` done
  | written   -- `core.WriteL1Head` done, cache not yet updated (cached variants only)
  deriving DecidableEq, Repr, Inhabited

/-- The L1 client as far as `Blockchain` sees it: the heads it hands to `SetL1Head`, one after the
other. `done` is a ghost: the heads whose `SetL1Head` has returned. -/
structure Writer where
  todo : List Head
  pc : WPc := .idle
  done : List Head := []
  deriving DecidableEq, Repr, Inhabited

/-- Where a goroutine calling `L1Head()` is inside its current call. -/
inductive RPc where
  | idle                 -- between two calls
  | missed               -- cache looked at: empty (cached variants only)
  | fetched (v : Head)   -- database read, value not yet published (cached variants only)
  deriving DecidableEq, Repr, Inhabited

structure Reader where
  todo : Nat                       -- `L1Head()` calls still to make
  pc : RPc := .idle
  got : List (Option Head) := []   -- what the completed calls returned (`none` = `db.ErrKeyNotFound`)
  deriving DecidableEq, Repr, Inhabited

structure Sys where
  db : Option Head                 -- the record under the `L1Height` key
  cache : Option Head := none      -- the atomic pointer (`none` = nil); unused by `direct`
  feed : List Head := []           -- everything sent on the L1-head feed
  writer : Writer
  readers : List Reader
  deriving DecidableEq, Repr, Inhabited

/-- A fresh `Blockchain` over a database that holds `db`: cache empty, nothing sent. -/
def Sys.init (db : Option Head) (sets : List Head) (reads : List Nat) : Sys :=
  { db := db, writer := { todo := sets }, readers := reads.map fun n => { todo := n } }

/-- One atomic action of the `SetL1Head` goroutine. -/
def Sys.stepW (p : CachePolicy) (σ : Sys) : Sys :=
  match σ.writer.todo with
  | [] => σ
  | h :: rest =>
    match σ.writer.pc with
    | .idle => { σ with feed := σ.feed ++ [h], writer := { σ.writer with pc := .sent } }
    | .sent =>
      if p.cached then { σ with db := some h, writer := { σ.writer with pc := .written } }
      else { σ with db := some h, writer := { todo := rest, pc := .idle, done := σ.writer.done ++ [h] } }
    | .written =>
      { σ with cache := some h, writer := { todo := rest, pc := .idle, done := σ.writer.done ++ [h] } }

/-- One atomic action of a goroutine inside `L1Head()`: the new reader state and the new cache. -/
def Reader.step (p : CachePolicy) (db cache : Option Head) (r : Reader) : Reader × Option Head :=
  match r.todo with
  | 0 => (r, cache)
  | n + 1 =>
    match r.pc with
    | .idle =>
      if p.cached then
        match cache with
        | some v => ({ todo := n, pc := .idle, got := r.got ++ [some v] }, cache)   -- hit
        | none => ({ r with pc := .missed }, cache)
      else ({ todo := n, pc := .idle, got := r.got ++ [db] }, cache)                -- `core.GetL1Head`
    | .missed =>
      match db with
      | none => ({ todo := n, pc := .idle, got := r.got ++ [none] }, cache)         -- key not found: nothing to publish
      | some v => ({ r with pc := .fetched v }, cache)
    | .fetched v =>
      let cache' := match p with
        | .publish => some v
        | .publishIfEmpty => (match cache with | none => some v | some c => some c)
        | .direct => cache
      ({ todo := n, pc := .idle, got := r.got ++ [some v] }, cache')

def Sys.stepR (p : CachePolicy) (σ : Sys) (i : Nat) : Sys :=
  match σ.readers[i]? with
  | none => σ
  | some r => { σ with cache := (r.step p σ.db σ.cache).2, readers := σ.readers.set i (r.step p σ.db σ.cache).1 }

/-- A schedule names, step by step, the goroutine that makes its next atomic action
(`none` = the `SetL1Head` goroutine, `some i` = reader `i`). -/
def Sys.step (p : CachePolicy) (σ : Sys) : Option Nat → Sys
  | none => σ.stepW p
  | some i => σ.stepR p i

def Sys.run (p : CachePolicy) (σ : Sys) (sched : List (Option Nat)) : Sys := sched.foldl (Sys.step p) σ

/-- Every call has returned. -/
def Sys.quiescent (σ : Sys) : Prop := σ.writer.todo = [] ∧ ∀ r ∈ σ.readers, r.todo = 0

instance (σ : Sys) : Decidable σ.quiescent := by unfold Sys.quiescent; infer_instance

/-- What an `L1Head()` call made now, alone, returns. -/
def Sys.serve (p : CachePolicy) (σ : Sys) : Option Head :=
  if p.cached then (match σ.cache with | some v => some v | none => σ.db) else σ.db

/-! ### scheduling at the granularity the harness controls: database operations

The harness wraps the key-value store: a goroutine is parked right before and right after every
database operation on the `L1Height` key. One token = one goroutine runs from one parking place to
the next: `op` = exactly the database operation it is parked in front of; `upto` = everything up to
the next database operation (cache loads and stores, returning from a call, starting the next). -/

def Sys.nextIsDbOpW (σ : Sys) : Bool :=
  match σ.writer.todo, σ.writer.pc with
  | _ :: _, .sent => true
  | _, _ => false

def Reader.nextIsDbOp (p : CachePolicy) (r : Reader) : Bool :=
  match r.todo, r.pc with
  | 0, _ => false
  | _ + 1, .idle => !p.cached
  | _ + 1, .missed => true
  | _ + 1, .fetched _ => false

def Sys.nextIsDbOp (p : CachePolicy) (σ : Sys) : Option Nat → Bool
  | none => σ.nextIsDbOpW
  | some i => match σ.readers[i]? with | some r => r.nextIsDbOp p | none => false

def Sys.finished (σ : Sys) : Option Nat → Bool
  | none => σ.writer.todo.isEmpty
  | some i => match σ.readers[i]? with | some r => r.todo == 0 | none => true

/-- `upto`: the goroutine runs until it is in front of a database operation or has nothing left to do. -/
def Sys.upto (p : CachePolicy) (σ : Sys) (t : Option Nat) : Nat → Sys
  | 0 => σ
  | fuel + 1 => if σ.finished t || σ.nextIsDbOp p t then σ else (σ.step p t).upto p t fuel

inductive Seg where
  | upto (t : Option Nat)
  | op (t : Option Nat)
  deriving DecidableEq, Repr, Inhabited

/-- One token; `none` when an `op` token meets a goroutine that is not in front of a database operation
(the real code accessed the database where the model does not). -/
def Sys.seg (p : CachePolicy) (σ : Sys) : Seg → Option Sys
  | .upto t => some (σ.upto p t (3 * (σ.writer.todo.length + (σ.readers.foldl (fun a r => a + r.todo) 0)) + 3))
  | .op t => if σ.nextIsDbOp p t then some (σ.step p t) else none

def Sys.segs (p : CachePolicy) (σ : Sys) : List Seg → Option Sys
  | [] => some σ
  | s :: rest => match σ.seg p s with | some σ' => σ'.segs p rest | none => none

end Juno.C17
