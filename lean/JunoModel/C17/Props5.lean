import JunoModel.C17.ProofsCache
import JunoModel.C17.ProofsLoop
import JunoModel.C17.Props
/-!
C17 — property theorems added in round 5 (same namespace as `Props.lean`; statements only, proofs in
`ProofsCache.lean` / `ProofsLoop.lean`).

## The recorded head under concurrent `L1Head()` / `SetL1Head` (blockchain/blockchain.go)

`Sys` (`ModelCache.lean`) is a transition system over the atomic actions of the goroutines that use
the recorded head at the same time: the L1 client — the only caller of `SetL1Head` — and any number of
readers (`L1Head()`: RPC finality status, the pruner, the client's own never-regress guard). A schedule
is ANY interleaving of those actions. `CachePolicy.direct` is the code as it is (no cache: one database
read per `L1Head()`, feed send then database write per `SetL1Head`).
-/
namespace Juno.C17.Props
open Juno.C17

/-- THE CODE AS IT IS, every interleaving, every number of readers and calls: nothing is ever cached;
what `L1Head()` serves is the record; the record is at every moment the head found at start-up or the
head of a prefix of the `SetL1Head` calls made so far (it never runs ahead, never goes back); no reader
is ever given anything but the start-up head or a head that was set; and once every call has returned
the record — hence the served head — is the LAST head set, and the feed has carried exactly the heads
set, in order. -/
theorem served_head_is_recorded_head (db0 : Option Head) (sets : List Head) (reads : List Nat)
    (sched : List (Option Nat)) :
    (Sys.run .direct (Sys.init db0 sets reads) sched).cache = none ∧
    (Sys.run .direct (Sys.init db0 sets reads) sched).serve .direct =
      (Sys.run .direct (Sys.init db0 sets reads) sched).db ∧
    (∃ k, k ≤ sets.length ∧ (Sys.run .direct (Sys.init db0 sets reads) sched).db = lastOr db0 (sets.take k)) ∧
    (∀ r ∈ (Sys.run .direct (Sys.init db0 sets reads) sched).readers, ∀ x ∈ r.got,
      x = db0 ∨ ∃ h ∈ sets, x = some h) ∧
    ((Sys.run .direct (Sys.init db0 sets reads) sched).quiescent →
      (Sys.run .direct (Sys.init db0 sets reads) sched).db = lastOr db0 sets ∧
      (Sys.run .direct (Sys.init db0 sets reads) sched).feed = sets) := by
  have hw := winv_run (p := .direct) sched (winv_init .direct db0 sets reads)
  have hk := kinv_run (p := .direct) sched (winv_init .direct db0 sets reads) (kinv_init db0 sets reads)
  refine ⟨direct_cache_run db0 sets sched (winv_init .direct db0 sets reads) rfl, rfl, winv_db_prefix hw,
    fun r hr x hx => (hk.readers r hr).1 x hx, fun hq => ?_⟩
  exact (winv_quiescent hw hq.1).2

/-- … tied to the client: whatever trace `tr` the L1 client processes (the heads it hands to
`SetL1Head` are `runNotes true s tr`), however many goroutines read concurrently and however they
interleave — once everything has returned, `L1Head()` serves exactly the head the client's own state
holds, i.e. the head all the trace theorems (`head_spec_partial`, `never_above_finalised`,
`l2_monotone`, …) speak about. -/
theorem served_head_is_client_head (s : State) (tr : List Ev) (reads : List Nat)
    (sched : List (Option Nat))
    (hq : (Sys.run .direct (Sys.init s.head (runNotes true s tr) reads) sched).quiescent) :
    (Sys.run .direct (Sys.init s.head (runNotes true s tr) reads) sched).serve .direct =
      (run true s tr).head := by
  have h := served_head_is_recorded_head s.head (runNotes true s tr) reads sched
  rw [h.2.1, (h.2.2.2.2 hq).1, run_head_lastOr]

/-- The code as it is, every interleaving: what ONE reader is served over its successive `L1Head()` calls
are the heads of a non-decreasing sequence of prefixes of the `SetL1Head` calls — a reader never sees the
recorded head go back to an earlier one (an atomic register; a cache that can serve an older head after a
newer one breaks exactly this). -/
theorem served_heads_never_go_back (db0 : Option Head) (sets : List Head) (reads : List Nat)
    (sched : List (Option Nat)) :
    ∀ r ∈ (Sys.run .direct (Sys.init db0 sets reads) sched).readers,
      ∃ ks : List Nat, ks.Pairwise (· ≤ ·) ∧ (∀ k ∈ ks, k ≤ sets.length) ∧
        r.got = ks.map (fun k => lastOr db0 (sets.take k)) := by
  intro r hr
  have hw := winv_run (p := .direct) sched (winv_init .direct db0 sets reads)
  have hm := minv_run sched (winv_init .direct db0 sets reads) (minv_init db0 sets reads)
  obtain ⟨ks, a, b, c⟩ := hm.mono r hr
  have hlen := congrArg List.length hw.split
  rw [List.length_append] at hlen
  exact ⟨ks, a, fun k hk => by have := b k hk; omega, c⟩

/-- … with the L1 client as the writer: the Starknet block number of the head a reader is served never
decreases from one of its `L1Head()` calls to the next (and is never below the start-up head), for every
client trace, every number of readers, every interleaving — "never regresses to an older Starknet
block" for the SERVED head, not only for the stored one. -/
theorem served_l2_never_regresses (s : State) (tr : List Ev) (reads : List Nat) (sched : List (Option Nat)) :
    ∀ r ∈ (Sys.run .direct (Sys.init s.head (runNotes true s tr) reads) sched).readers,
      (r.got.map (fun h => h.map (·.l2))).Pairwise optLe ∧
      ∀ x ∈ r.got, optLe (headL2 s) (x.map (·.l2)) := by
  intro r hr
  obtain ⟨ks, hp, _, hg⟩ := served_heads_never_go_back s.head (runNotes true s tr) reads sched r hr
  have hmono := lastOr_take_mono (runNotes true s tr) s.head (runNotes_sorted s tr) (runNotes_ge s tr)
  refine ⟨?_, ?_⟩
  · rw [hg, List.map_map]
    rw [List.pairwise_map]
    exact hp.imp (fun {a b} hab => hmono a b hab)
  · intro x hx
    rw [hg] at hx
    obtain ⟨k, _, rfl⟩ := List.mem_map.mp hx
    have := hmono 0 k (Nat.zero_le _)
    simpa [lastOr, headL2] using this

/-- A read-through memo whose miss path reads the database and THEN stores into the cache, with
`SetL1Head` writing the database and then storing into the cache (each site fine alone), breaks this:
a fresh instance over a database that holds `old`, one reader, one `SetL1Head(new)` — the reader
misses, reads `old`; the writer sends, writes `new`, caches `new`; the reader publishes `old`. All calls
have returned, the record is `new`, and `L1Head()` serves `old` until the next `SetL1Head`. (This is NOT
the code in /repo; the theorem shows that the model separates the two.) -/
theorem racy_cache_serves_stale_head :
    let old : Head := ⟨10, 0xa0, 0x10a0⟩
    let new : Head := ⟨20, 0xb0, 0x10b0⟩
    let σ := Sys.run .publish (Sys.init (some old) [new] [1]) [some 0, some 0, none, none, none, some 0]
    σ.quiescent ∧ σ.db = some new ∧ σ.serve .publish = some old ∧
      σ.readers.map (·.got) = [[some old]] := by
  decide

/-- The same memo with the miss path publishing by compare-and-swap(nil → v) is a harmless refactor:
for every interleaving, once `SetL1Head` is not in progress the served head is the record, and once
everything has returned it is the last head set. -/
theorem cas_cache_coherent (db0 : Option Head) (sets : List Head) (reads : List Nat)
    (sched : List (Option Nat)) :
    ((Sys.run .publishIfEmpty (Sys.init db0 sets reads) sched).writer.pc = .idle →
      (Sys.run .publishIfEmpty (Sys.init db0 sets reads) sched).serve .publishIfEmpty =
        (Sys.run .publishIfEmpty (Sys.init db0 sets reads) sched).db) ∧
    ((Sys.run .publishIfEmpty (Sys.init db0 sets reads) sched).quiescent →
      (Sys.run .publishIfEmpty (Sys.init db0 sets reads) sched).serve .publishIfEmpty = lastOr db0 sets) := by
  have hw := winv_run (p := .publishIfEmpty) sched (winv_init .publishIfEmpty db0 sets reads)
  have hc := cinv_run sched (winv_init .publishIfEmpty db0 sets reads) (cinv_init db0 sets reads)
  have key : (Sys.run .publishIfEmpty (Sys.init db0 sets reads) sched).writer.pc = .idle →
      (Sys.run .publishIfEmpty (Sys.init db0 sets reads) sched).serve .publishIfEmpty =
        (Sys.run .publishIfEmpty (Sys.init db0 sets reads) sched).db := by
    intro hp
    simp only [Sys.serve, CachePolicy.cached, if_true]
    rcases hc.coh with a | a | a
    · rw [a]
    · rw [a]; cases (Sys.run .publishIfEmpty (Sys.init db0 sets reads) sched).db <;> rfl
    · rw [hp] at a; cases a
  refine ⟨key, fun hq => ?_⟩
  obtain ⟨hp, hdb, _⟩ := winv_quiescent hw hq.1
  rw [key hp, hdb]

/-! non-vacuity -/

/-- Two readers (two calls and one call) racing two `SetL1Head`s on the code as it is: a schedule that
ends quiescent; the reads straddle the writes. -/
example :
    let a : Head := ⟨10, 0xa0, 0x10a0⟩
    let b : Head := ⟨20, 0xb0, 0x10b0⟩
    let c : Head := ⟨30, 0xc0, 0x10c0⟩
    let σ := Sys.run .direct (Sys.init (some a) [b, c] [2, 1])
      [some 0, none, none, some 1, none, some 0, none]
    σ.quiescent ∧ σ.db = some c ∧ σ.feed = [b, c] ∧ σ.readers.map (·.got) = [[some a, some b], [some b]] := by
  decide
/-- The same racing schedule as in `racy_cache_serves_stale_head`, under compare-and-swap: coherent. -/
example :
    let old : Head := ⟨10, 0xa0, 0x10a0⟩
    let new : Head := ⟨20, 0xb0, 0x10b0⟩
    let σ := Sys.run .publishIfEmpty (Sys.init (some old) [new] [1]) [some 0, some 0, none, none, none, some 0]
    σ.quiescent ∧ σ.serve .publishIfEmpty = some new := by
  decide
/-- `served_head_is_client_head`: a client trace with two heads and a quiescent schedule. -/
example :
    let tr : List Ev := [.upd ⟨7, 0x70, 0x1070, 3, false⟩, .tick 3, .upd ⟨8, 0x81, 0x1081, 6, false⟩, .tick 9]
    runNotes true (State.init none) tr = [⟨7, 0x70, 0x1070⟩, ⟨8, 0x81, 0x1081⟩] ∧
    (Sys.run .direct (Sys.init none (runNotes true (State.init none) tr) [1])
      [none, none, some 0, none, none]).quiescent := by
  decide

/-! ## The event loop with its bookkeeping: subscription failures and resubscriptions (l1.go:96-283)

`Loop` (`ModelLoop.lean`) transcribes `watchL1StateUpdates` / `receiveL1StateUpdates` / `subscribeToUpdates`
with the channel `updateCh` (created once, capacity 128, handed to every `WatchStateUpdate` call), the
subscription in use, the `Unsubscribe` calls and the four `select` cases; a `LoopOp` list is ANY order in
which producers send and the loop takes its cases. Until round 4 "the property holds through subscription
failures and resubscriptions" rested on `Ev.subErr` / `Ev.resub` being identity events by fiat. -/

/-- Across any number of subscription failures and resubscriptions (failed attempts included): every value
the channel accepted has been handed to `applyStateUpdate` exactly once and in order, or is still in the
channel — a resubscription drops and duplicates nothing; the channel never exceeds its capacity; every
subscription ever established is unsubscribed exactly once and in order, except the one in use; and once
the loop has returned none is left in use. -/
theorem resubscription_loses_nothing (g : Bool) (st : State) (attempts : List Bool) (ops : List LoopOp) :
    ((Loop.start st attempts).run g ops).applied ++ ((Loop.start st attempts).run g ops).chan =
      ((Loop.start st attempts).run g ops).pushed ∧
    ((Loop.start st attempts).run g ops).chan.length ≤ updateChBuffer ∧
    ((Loop.start st attempts).run g ops).unsub ++ ((Loop.start st attempts).run g ops).sub.toList =
      List.range ((Loop.start st attempts).run g ops).nsubs ∧
    (((Loop.start st attempts).run g ops).returned = true → ((Loop.start st attempts).run g ops).sub = none) := by
  have h := linv_run ops (linv_start g st attempts)
  exact ⟨h.cons, h.cap, h.subs, h.ret⟩

/-- The loop refines the flat trace model: its state is `run` over the flat trace it wrote down, the
heads it handed to `SetL1Head` are `runNotes` of that trace, and the updates of that trace are exactly the
values received from the channel, in order. Hence every trace theorem holds of the real loop. -/
theorem event_loop_is_trace (g : Bool) (st : State) (attempts : List Bool) (ops : List LoopOp) :
    ((Loop.start st attempts).run g ops).st = run g st ((Loop.start st attempts).run g ops).trace ∧
    ((Loop.start st attempts).run g ops).notes = runNotes g st ((Loop.start st attempts).run g ops).trace ∧
    ((Loop.start st attempts).run g ops).trace.filterMap updOf =
      ((Loop.start st attempts).run g ops).applied := by
  have h := linv_run ops (linv_start g st attempts)
  exact ⟨h.ref, h.notes, h.upds⟩

/-- … for instance: whatever the producers send, whenever subscriptions fail, however often
`WatchStateUpdate` has to be retried and however the `select` cases are ordered — the stored head is the
start-up head or the commit of a log that had been RECEIVED FROM THE CHANNEL, was not named by a removal
notice received before the poll, and lay at or below the finalised height that poll was given. -/
theorem event_loop_never_above_finalised (h0 : Option Head) (attempts : List Bool) (ops : List LoopOp) :
    ((Loop.start (State.init h0) attempts).run true ops).st.head = h0 ∨
    ∃ a F b, ((Loop.start (State.init h0) attempts).run true ops).trace = a ++ Ev.tick F :: b ∧
      ∃ n u, LiveExact a n u ∧ u.l1 ≤ F ∧
        ((Loop.start (State.init h0) attempts).run true ops).st.head = some u.toHead := by
  rw [(event_loop_is_trace true (State.init h0) attempts ops).1]
  exact never_above_finalised h0 _

/-- A whole life under `Run` with the real loop: chain-id gate, catch-up scan, then the event loop with
its channel and subscriptions — ONE flat trace: what the scan applied (and its poll), followed by what the
loop wrote down. (`life_is_trace` of round 3 with `Loop` in place of the flat event list.) -/
theorem life_with_loop_is_trace (g : Bool) (s : State) (cfg : Startup) (attempts : List Bool)
    (ops : List LoopOp) (la f1 : Nat) (hg : ensureChainID cfg.chainId = .proceed)
    (hla : cfg.latest = some la) (hf : cfg.fin₁ = some f1) :
    ((Loop.start (startUp g s cfg false).1 attempts).run g ops).st =
      run g s (startUpTrace s cfg la f1 ++ ((Loop.start (startUp g s cfg false).1 attempts).run g ops).trace) := by
  have h0 : (startUp g s cfg false).1 = run g s (startUpTrace s cfg la f1) := by
    have h := life_is_trace g s cfg [] la f1 hg hla hf
    rw [List.append_nil] at h
    rw [← h]
    unfold runLife
    have hp : (startUp g s cfg false).2 = .proceed := by
      simp [startUp, hg, hla, hf]
    cases hx : startUp g s cfg false with
    | mk a b =>
      rw [hx] at hp
      simp only at hp
      subst hp
      rfl
  rw [(event_loop_is_trace g _ attempts ops).1, run_append, ← h0]

/-! ## The chunked catch-up scan: which ranges are queried -/

/-- Whatever logs the node has, whatever the finalised height, wherever a query fails: the
`FilterStateUpdate` ranges the scan asks for are an initial segment of ONE tiling of `[0, latest]` from the
top — the first range ends at `latest`, each next one ends right below the start of the previous, none
is empty or longer than the chunk size, all but the last have exactly the chunk size, and the tiling ends
at block 0. No block is queried twice, none is skipped. -/
theorem catchup_queries_tile (hist : List SU) (fin chunk : Nat) (failAt : Option Nat) (latest : Nat)
    (buf : Buf) (hc : chunk ≠ 0) (hl : latest + 1 < 2 ^ 64) :
    (catchUpLoop hist fin chunk failAt latest 0 buf [] []).queries ≠ [] ∧
    (catchUpLoop hist fin chunk failAt latest 0 buf [] []).queries <+: scanQueries chunk latest ∧
    Tiles chunk 0 latest (scanQueries chunk latest) ∧
    (catchUpLoop [] fin chunk none latest 0 buf [] []).queries = scanQueries chunk latest := by
  obtain ⟨p, hp, hne, hpre⟩ := catchUpLoop_queries_prefix hist fin chunk failAt hc latest 0 buf [] []
  rw [List.nil_append] at hp
  refine ⟨by rw [hp]; exact hne, by rw [hp]; exact hpre, scanQueries_tiles chunk hc latest hl, ?_⟩
  simpa using catchUpLoop_queries_empty_hist fin chunk hc latest 0 buf [] []

/-- The model's `chunkFrom` (naturals, with the one wrap that matters written out) is Go's `uint64`
computation `if to+1 > chunk { from = to+1-chunk }` bit for bit, for all 2^128 inputs. -/
theorem chunk_arithmetic_is_uint64 (to chunk : UInt64) :
    (chunkFromU64 to chunk).toNat = chunkFrom to.toNat chunk.toNat :=
  chunkFromU64_eq to chunk

/-! ## `GethL1StateProvider.FinalisedHeight` behind the client's retry loop -/

/-- The finalised height `setL1Head` works with is always a height the L1 node reported for the
`finalized` tag: "not found" (a node that has no finalised block yet) and transport errors are retried,
never replaced by another tag, an earlier answer or zero; the first header decides. -/
theorem geth_poll_uses_first_header (g : Bool) (s : State) (pre : List HeaderAns) (n : Nat) (t : List HeaderAns)
    (hpre : ∀ a ∈ pre, a = .notFound ∨ a = .failed) :
    pollStep g s ((pre ++ .header n :: t).map gethFinalisedHeight) = setL1Head g s (n % 2 ^ 64) ∧
    (∀ a, gethFinalisedHeight a ≠ none → ∃ m, a = .header m) := by
  refine ⟨?_, ?_⟩
  · have hmap : (pre ++ HeaderAns.header n :: t).map gethFinalisedHeight =
        List.replicate pre.length none ++ some (n % 2 ^ 64) :: t.map gethFinalisedHeight := by
      rw [List.map_append, List.map_cons]
      congr 1
      induction pre with
      | nil => rfl
      | cons a r ih =>
        have ha := hpre a (by simp)
        rw [List.map_cons, List.length_cons, List.replicate_succ, ih (fun x hx => hpre x (by simp [hx]))]
        rcases ha with rfl | rfl <;> rfl
    exact ((poll_retry_is_tick g s _).2 pre.length (n % 2 ^ 64) _ hmap).1
  · intro a ha
    cases a with
    | header m => exact ⟨m, rfl⟩
    | notFound => exact absurd rfl ha
    | failed => exact absurd rfl ha

/-- `served_heads_never_go_back` / `served_l2_never_regresses`: a reader with three calls straddling two
`SetL1Head`s of a client trace. -/
example :
    let tr : List Ev := [.upd ⟨7, 0x70, 0x1070, 3, false⟩, .tick 3, .upd ⟨8, 0x81, 0x1081, 6, false⟩, .tick 9]
    ((Sys.run .direct (Sys.init none (runNotes true (State.init none) tr) [3])
      [some 0, none, none, some 0, none, none, some 0]).readers.map (·.got)) =
      [[none, some ⟨7, 0x70, 0x1070⟩, some ⟨8, 0x81, 0x1081⟩]] := by
  decide

/-! non-vacuity, loop / scan -/

/-- A life of the loop: first subscription at the second attempt, a burst, a failed poll attempt, a
subscription error with two failed resubscription attempts while a removal notice waits in the channel,
a poll, shutdown. -/
def loopOps : List LoopOp :=
  [.push logA, .push logB, .recv, .tick [none, some 3], .subErr [false, false, true], .recv, .push remB, .recv,
   .tick [some 7], .cancel]
example : ((Loop.start (State.init none) [false, true]).run true loopOps).st.head = some logA.toHead ∧
    ((Loop.start (State.init none) [false, true]).run true loopOps).unsub = [0, 1] ∧
    ((Loop.start (State.init none) [false, true]).run true loopOps).applied = [logA, logB, remB] ∧
    ((Loop.start (State.init none) [false, true]).run true loopOps).returned = true ∧
    ((Loop.start (State.init none) [false, true]).run true loopOps).trace =
      [.resub false, .resub true, .upd logA, .finErr, .tick 3, .subErr, .resub false, .resub false,
       .resub true, .upd logB, .upd remB, .tick 7] := by
  decide
example : (Loop.start (State.init none) [false, false]).returned = true ∧
    (Loop.start (State.init none) [false, false]).nsubs = 0 := by decide
example : scanQueries 1000 2500 = [(1501, 2500), (501, 1500), (0, 500)] ∧
    scanQueries 1000 999 = [(0, 999)] ∧ scanQueries 1000 1000 = [(1, 1000), (0, 0)] := by
  refine ⟨?_, ?_, ?_⟩ <;> simp [scanQueries, chunkFrom]
example : chunkFromU64 (0 - 1) 1000 = 0 ∧ chunkFromU64 2000 1000 = 1001 ∧ chunkFromU64 5 1000 = 0 := by decide
example : gethFinalisedHeight .notFound = none ∧ gethFinalisedHeight (.header 31) = some 31 := by decide

end Juno.C17.Props
