/-!
C17 — executable model of juno's L1 client (`l1/l1.go`) as far as the recorded L1 head is
concerned. Core Lean only (linked into `c17drv`).

Transcribed code (pinned commit):
* `Client.nonFinalisedLogs : map[uint64]*StateUpdate`            → `Buf`
* `Client.applyStateUpdate`   (l1.go:287)                          → `applyStateUpdate`
* `Client.setL1Head`          (l1.go:431) + `Blockchain.SetL1Head` → `setL1Head`
* `Client.catchUpL1HeadUpdates` (l1.go:317)                        → `catchUpLoop` / `catchUp`
* `receiveL1StateUpdates` select loop                              → `step` over `Ev`
  (subscription error / resubscribe / failed `FinalisedHeight` polls do not touch the buffer or
  the stored head: they are events with the identity transition).

`guard` selects the code variant: `false` is the code as it is at the pinned commit (`setL1Head`
never looks at the stored head); `true` is the variant with the proposed repair (a candidate that
commits an older Starknet block than the stored head is skipped).
-/
namespace Juno.C17

/-- `l1.StateUpdate` (felts as naturals). -/
structure SU where
  l2 : Nat        -- L2BlockNumber
  hash : Nat      -- L2BlockHash
  root : Nat      -- StateRoot
  l1 : Nat        -- L1RefHeight
  removed : Bool  -- Removed
  deriving DecidableEq, Repr, Inhabited

/-- `core.L1Head`. -/
structure Head where
  l2 : Nat
  hash : Nat
  root : Nat
  deriving DecidableEq, Repr, Inhabited

def SU.toHead (u : SU) : Head := ⟨u.l2, u.hash, u.root⟩

/-- The Go map `nonFinalisedLogs` as an association list. Go iterates maps in random order; the
list order stands for one such order, and `Proofs` shows that nothing observable depends on it as
long as keys are pairwise distinct (which `insert` maintains). -/
abbrev Buf := List (Nat × SU)

/-- `m[k] = v` -/
def Buf.insert (b : Buf) (k : Nat) (v : SU) : Buf :=
  (k, v) :: b.filter (fun e => e.1 != k)

/-- `for k := range m { if k >= h { delete(m, k) } }` -/
def Buf.dropFrom (b : Buf) (h : Nat) : Buf :=
  b.filter (fun e => decide (e.1 < h))

def Buf.get? (b : Buf) (k : Nat) : Option SU :=
  match b.find? (fun e => e.1 == k) with
  | some e => some e.2
  | none => none

/-- `applyStateUpdate`: a removed log clears every entry at or above its L1 block, any other log
overwrites the entry of its L1 block. -/
def applyStateUpdate (b : Buf) (su : SU) : Buf :=
  if su.removed then b.dropFrom su.l1 else b.insert su.l1 su

/-- One iteration of the loop in `setL1Head` for an entry at or below the finalised height:
`if l1BlockNumber >= maxFinalisedNumber { maxFinalisedNumber = l1BlockNumber; maxFinalisedHead = … }`. -/
def pickStep (acc : Nat × Option SU) (e : Nat × SU) : Nat × Option SU :=
  if e.1 ≥ acc.1 then (e.1, some e.2) else acc

/-- The loop of `setL1Head`: the chosen entry (`maxFinalisedHead`, starting from
`maxFinalisedNumber = 0`, `nil`) among the entries at or below `fin`. -/
def pickMax (fin : Nat) (b : Buf) : Option SU :=
  ((b.filter (fun e => decide (e.1 ≤ fin))).foldl pickStep (0, none)).2

/-- What is left in the buffer after the loop: entries at or below `fin` are deleted. -/
def Buf.prune (b : Buf) (fin : Nat) : Buf :=
  b.filter (fun e => !decide (e.1 ≤ fin))

structure State where
  buf : Buf
  head : Option Head     -- the stored L1 head (db bucket L1Height); `none` = key absent
  deriving DecidableEq, Repr, Inhabited

def State.init (h : Option Head) : State := ⟨[], h⟩

/-- The repair under discussion: skip a candidate that commits an older Starknet block than the
stored head. -/
def skipCandidate (guard : Bool) (stored : Option Head) (cand : SU) : Bool :=
  guard && (match stored with | some h => decide (cand.l2 < h.l2) | none => false)

/-- `setL1Head` once `FinalisedHeight` answered `fin`. Second component: the head passed to
`Blockchain.SetL1Head` / `listener.OnNewL1Head` (and sent on the L1-head feed), if any. -/
def setL1Head (guard : Bool) (s : State) (fin : Nat) : State × Option Head :=
  match pickMax fin s.buf with
  | none => (⟨s.buf.prune fin, s.head⟩, none)
  | some c =>
    if skipCandidate guard s.head c then (⟨s.buf.prune fin, s.head⟩, none)
    else (⟨s.buf.prune fin, some c.toHead⟩, some c.toHead)

/-- A failing database under `setL1Head`: the read of the stored head (the guard) or the write. -/
inductive DbFault where
  | readErr | writeErr
  deriving DecidableEq, Repr, Inhabited

/-- `setL1Head` when the database fails. The entries at or below `fin` have already been deleted
when the stored head is read; `Blockchain.SetL1Head` sends on the feed BEFORE it writes. Components:
new state, value sent on the L1-head feed, whether `Run` terminates with the error. The listener
is not called on either path. -/
def setL1HeadFault (g : Bool) (s : State) (fin : Nat) (f : DbFault) : State × Option Head × Bool :=
  match pickMax fin s.buf with
  | none => (⟨s.buf.prune fin, s.head⟩, none, false)      -- no database access at all
  | some c =>
    match f with
    | .readErr =>
      if g then (⟨s.buf.prune fin, s.head⟩, none, true)
      else (⟨s.buf.prune fin, some c.toHead⟩, some c.toHead, false)   -- no read without the guard
    | .writeErr =>
      if skipCandidate g s.head c then (⟨s.buf.prune fin, s.head⟩, none, false)
      else (⟨s.buf.prune fin, s.head⟩, some c.toHead, true)

/-- Inputs of the client's event loop. -/
inductive Ev where
  | upd (su : SU)       -- a value received on the update channel (update or removal notice)
  | tick (fin : Nat)    -- poll timer fired and `FinalisedHeight` (after retries) answered `fin`
  | subErr              -- the subscription reported an error
  | resub (ok : Bool)   -- one `WatchStateUpdate` attempt (failed / succeeded)
  | finErr              -- one failed `FinalisedHeight` attempt inside `finalisedHeight`
  deriving DecidableEq, Repr, Inhabited

def step (guard : Bool) (s : State) : Ev → State
  | .upd su => { s with buf := applyStateUpdate s.buf su }
  | .tick fin => (setL1Head guard s fin).1
  | .subErr => s
  | .resub _ => s
  | .finErr => s

def run (guard : Bool) (s : State) (tr : List Ev) : State := tr.foldl (step guard) s

/-! ### the geth forwarding layer (`l1/geth_l1_state_provider.go`) -/

/-- The Starknet field modulus (`felt.SetBigInt` reduces modulo it). -/
def feltP : Nat := 2 ^ 251 + 17 * 2 ^ 192 + 1

/-- A `LogStateUpdate` log as the L1 node delivers it (`contract.StarknetLogStateUpdate`):
the three uint256 words of the event plus `Raw.BlockNumber` and `Raw.Removed`. -/
structure RawLog where
  globalRoot : Nat
  blockNumber : Nat
  blockHash : Nat
  l1 : Nat
  removed : Bool
  deriving DecidableEq, Repr, Inhabited

/-- `stateUpdateFromGethContract`: `BlockNumber.Uint64()`, `felt.SetBigInt` of hash and root,
`Raw.BlockNumber`, `Raw.Removed`. -/
def decodeLog (r : RawLog) : SU :=
  ⟨r.blockNumber % 2 ^ 64, r.blockHash % feltP, r.globalRoot % feltP, r.l1, r.removed⟩

/-- `forwardStateUpdates` / `FilterStateUpdate`: every log the node delivers is decoded and passed
on, in order — the layer keeps no state and filters nothing (removal notices included). -/
def forwardStream (rs : List RawLog) : List SU := rs.map decodeLog

/-! ### start-up catch-up -/

/-- `FilterStateUpdate(from, to)` of a provider whose log history is `hist` (chain order). -/
def filterLogs (hist : List SU) (frm to : Nat) : List SU :=
  hist.filter (fun u => decide (frm ≤ u.l1) && decide (u.l1 ≤ to))

/-- `from` of the chunk that ends at `to`: `if to+1 > chunk { from = to+1-chunk }` else 0, in
`uint64` arithmetic: for `to = 2^64-1` the sum wraps to 0, the test fails and `from = 0`. -/
def chunkFrom (to chunk : Nat) : Nat :=
  if (to + 1) % 2 ^ 64 > chunk then to + 1 - chunk else 0

theorem chunkFrom_le {to chunk : Nat} (h : chunk ≠ 0) : chunkFrom to chunk ≤ to := by
  unfold chunkFrom; split <;> omega

inductive CatchUpResult where
  | complete   -- loop left through `return c.setL1Head(ctx)`
  | failed     -- a `FilterStateUpdate` call returned an error: no `setL1Head`
  | hang       -- chunk size 0: the Go loop never terminates (`to` does not decrease)
  deriving DecidableEq, Repr, Inhabited

structure CatchUpOut where
  buf : Buf
  result : CatchUpResult
  queries : List (Nat × Nat)   -- the (from, to) arguments of the `FilterStateUpdate` calls, in order
  applied : List SU            -- ghost: the values passed to `applyStateUpdate`, in order
  deriving Repr, Inhabited

/-- The `for` loop of `catchUpL1HeadUpdates`. `failAt = some n`: the call number `n` (counting from
0, `calls` so far) fails. -/
def catchUpLoop (hist : List SU) (fin chunk : Nat) (failAt : Option Nat)
    (to : Nat) (calls : Nat) (buf : Buf) (queries : List (Nat × Nat)) (applied : List SU) :
    CatchUpOut :=
  if hc : chunk = 0 then ⟨buf, .hang, queries, applied⟩ else
  let frm := chunkFrom to chunk
  let queries' := queries ++ [(frm, to)]
  if failAt = some calls then ⟨buf, .failed, queries', applied⟩ else
  let events := filterLogs hist frm to
  let buf' := events.foldl applyStateUpdate buf
  let found := events.any (fun ev => decide (ev.l1 ≤ fin))
  if found || frm == 0 then ⟨buf', .complete, queries', applied ++ events⟩
  else catchUpLoop hist fin chunk failAt (frm - 1) (calls + 1) buf' queries' (applied ++ events)
termination_by to
decreasing_by
  have h1 := chunkFrom_le (to := to) hc
  rename_i hnf
  simp only [Bool.or_eq_true, beq_iff_eq, not_or] at hnf
  have h2 : chunkFrom to chunk ≠ 0 := hnf.2
  show chunkFrom to chunk - 1 < to
  omega

/-- Everything `catchUpL1HeadUpdates` does after `LatestHeight = latest` and
`FinalisedHeight = fin₁` were read: the backward scan and, if it completed, `setL1Head` with the
finalised height `fin₂` read again by `setL1Head` itself. -/
def catchUp (guard : Bool) (s : State) (hist : List SU) (latest fin₁ chunk : Nat)
    (failAt : Option Nat) (fin₂ : Nat) : State × CatchUpOut × Option Head :=
  let o := catchUpLoop hist fin₁ chunk failAt latest 0 s.buf [] []
  match o.result with
  | .complete =>
    let r := setL1Head guard ⟨o.buf, s.head⟩ fin₂
    (r.1, o, r.2)
  | _ => (⟨o.buf, s.head⟩, o, none)

/-! ### start-up: chain-id gate, then the catch-up, then the event loop -/

/-- One `eth_chainId` attempt: transport error, the expected id, another id. -/
inductive ChainIdAns where
  | err | ok | mismatch
  deriving DecidableEq, Repr, Inhabited

inductive Gate where
  | proceed     -- chain id verified
  | fatal       -- the client returns an error and does nothing else
  | cancelled   -- context cancelled while retrying (script exhausted)
  deriving DecidableEq, Repr, Inhabited

/-- `ensureChainID` (used by `Run`): retry on transient errors, a mismatch is fatal. -/
def ensureChainID : List ChainIdAns → Gate
  | [] => .cancelled
  | .err :: t => ensureChainID t
  | .ok :: _ => .proceed
  | .mismatch :: _ => .fatal

/-- `checkChainID` (used by `CatchUpL1Head`): one attempt, any failure is returned. -/
def checkChainIDOnce : List ChainIdAns → Gate
  | .ok :: _ => .proceed
  | _ => .fatal

structure Startup where
  chainId : List ChainIdAns
  latest : Option Nat    -- `LatestHeight` (`none`: error)
  fin₁ : Option Nat      -- first `FinalisedHeight` (`none`: error)
  hist : List SU
  chunk : Nat
  failAt : Option Nat
  fin₂ : Nat
  deriving Repr, Inhabited

/-- `Run` / `CatchUpL1Head` up to the point where the live subscription starts: nothing is
touched unless the chain id was verified; the catch-up is skipped when a height cannot be read. -/
def startUp (g : Bool) (s : State) (cfg : Startup) (oneshot : Bool) : State × Gate :=
  match (if oneshot then checkChainIDOnce cfg.chainId else ensureChainID cfg.chainId) with
  | .proceed =>
    match cfg.latest, cfg.fin₁ with
    | some la, some f1 => ((catchUp g s cfg.hist la f1 cfg.chunk cfg.failAt cfg.fin₂).1, .proceed)
    | _, _ => (s, .proceed)
  | gate => (s, gate)

/-- One life of the client under `Run`: start-up, then the event loop over `tr`. -/
def runLife (g : Bool) (s : State) (cfg : Startup) (tr : List Ev) : State :=
  match startUp g s cfg false with
  | (s', .proceed) => run g s' tr
  | (s', _) => s'

/-! ### the L1-head feed (`feed.Feed`, one-slot subscriptions that skip when full) -/

inductive FeedOp where
  | send (h : Head)   -- `Blockchain.SetL1Head` → `l1HeadFeed.Send`
  | recv              -- the subscriber takes what is in its slot (if anything)
  deriving DecidableEq, Repr, Inhabited

structure Subscriber where
  slot : Option Head := none
  received : List Head := []
  deriving Repr, Inhabited

def Subscriber.step (s : Subscriber) : FeedOp → Subscriber
  | .send h => match s.slot with
    | none => { s with slot := some h }
    | some _ => s                      -- buffer full: this value is skipped for this subscriber
  | .recv => match s.slot with
    | none => s
    | some h => { slot := none, received := s.received ++ [h] }

def sentOf : List FeedOp → List Head
  | [] => []
  | .send h :: t => h :: sentOf t
  | .recv :: t => sentOf t

/-- `catchUpL1HeadUpdates` when the database fails inside its final `setL1Head`: the error is
returned to `Run`, which only logs it and goes on to the live subscription (`CatchUpL1Head` returns
it). State and feed value as in `setL1HeadFault`. -/
def catchUpFault (g : Bool) (s : State) (hist : List SU) (latest fin₁ chunk : Nat)
    (failAt : Option Nat) (fin₂ : Nat) (f : DbFault) : State × CatchUpOut × Option Head :=
  let o := catchUpLoop hist fin₁ chunk failAt latest 0 s.buf [] []
  match o.result with
  | .complete =>
    let r := setL1HeadFault g ⟨o.buf, s.head⟩ fin₂ f
    (r.1, o, r.2.1)
  | _ => (⟨o.buf, s.head⟩, o, none)

end Juno.C17
