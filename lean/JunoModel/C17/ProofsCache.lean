import JunoModel.C17.ModelCache
import JunoModel.C17.ProofsGlue
import JunoModel.C17.ProofsGuard
/-!
C17 — proofs about `ModelCache.lean`: the recorded L1 head under concurrent `L1Head()` / `SetL1Head`.
Invariants of every reachable state of the transition system, by induction over the schedule.
-/
namespace Juno.C17

theorem lastOr_snoc (h0 : Option Head) (l : List Head) (h : Head) : lastOr h0 (l ++ [h]) = some h := by
  simp [lastOr]

/-- `x` is the head found at start-up or one of the heads handed to `SetL1Head`. -/
def KnownHead (db0 : Option Head) (sets : List Head) (x : Option Head) : Prop :=
  x = db0 ∨ ∃ h ∈ sets, x = some h

/-- What holds of the writer side in every reachable state, whatever the policy. -/
structure WInv (p : CachePolicy) (db0 : Option Head) (sets : List Head) (σ : Sys) : Prop where
  split : σ.writer.done ++ σ.writer.todo = sets
  idle : σ.writer.pc = .idle → σ.db = lastOr db0 σ.writer.done ∧ σ.feed = σ.writer.done
  sent : σ.writer.pc = .sent → ∃ h rest, σ.writer.todo = h :: rest ∧
    σ.db = lastOr db0 σ.writer.done ∧ σ.feed = σ.writer.done ++ [h]
  written : σ.writer.pc = .written → ∃ h rest, σ.writer.todo = h :: rest ∧
    σ.db = some h ∧ σ.feed = σ.writer.done ++ [h] ∧ p.cached = true

theorem winv_init (p : CachePolicy) (db0 : Option Head) (sets : List Head) (reads : List Nat) :
    WInv p db0 sets (Sys.init db0 sets reads) :=
  ⟨rfl, fun _ => ⟨rfl, rfl⟩, (fun h => by cases h), (fun h => by cases h)⟩

theorem winv_stepW {p : CachePolicy} {db0 : Option Head} {sets : List Head} {σ : Sys}
    (h : WInv p db0 sets σ) : WInv p db0 sets (σ.stepW p) := by
  unfold Sys.stepW
  cases ht : σ.writer.todo with
  | nil => simpa using h
  | cons x rest =>
    cases hp : σ.writer.pc with
    | idle =>
      obtain ⟨hdb, hfeed⟩ := h.idle hp
      refine ⟨by simpa using h.split, (fun c => by cases c), fun _ => ⟨x, rest, ?_, ?_, ?_⟩, (fun c => by cases c)⟩
      · simpa using ht
      · simpa using hdb
      · simp [hfeed]
    | sent =>
      obtain ⟨x', rest', ht', hdb, hfeed⟩ := h.sent hp
      rw [ht] at ht'
      obtain ⟨rfl, rfl⟩ := List.cons.inj ht'
      by_cases hc : p.cached = true
      · simp only [hc, if_true]
        refine ⟨by simpa using h.split, (fun c => by cases c), (fun c => by cases c),
          fun _ => ⟨x, rest, by simpa using ht, rfl, by simpa using hfeed, hc⟩⟩
      · simp only [hc]
        have hs := h.split
        rw [ht] at hs
        refine ⟨by simpa using hs, fun _ => ⟨?_, ?_⟩, (fun c => by cases c), (fun c => by cases c)⟩
        · simp [lastOr_snoc]
        · simpa using hfeed
    | written =>
      obtain ⟨x', rest', ht', hdb, hfeed, hc⟩ := h.written hp
      rw [ht] at ht'
      obtain ⟨rfl, rfl⟩ := List.cons.inj ht'
      have hs := h.split
      rw [ht] at hs
      refine ⟨by simpa using hs, fun _ => ⟨?_, ?_⟩, (fun c => by cases c), (fun c => by cases c)⟩
      · simp [lastOr_snoc, hdb]
      · simpa using hfeed

theorem stepR_frame (p : CachePolicy) (σ : Sys) (i : Nat) :
    (σ.stepR p i).db = σ.db ∧ (σ.stepR p i).feed = σ.feed ∧ (σ.stepR p i).writer = σ.writer := by
  unfold Sys.stepR
  cases σ.readers[i]? <;> simp

theorem winv_stepR {p : CachePolicy} {db0 : Option Head} {sets : List Head} {σ : Sys} (i : Nat)
    (h : WInv p db0 sets σ) : WInv p db0 sets (σ.stepR p i) := by
  obtain ⟨h1, h2, h3⟩ := stepR_frame p σ i
  exact ⟨by rw [h3]; exact h.split, by rw [h1, h2, h3]; exact h.idle, by rw [h1, h2, h3]; exact h.sent,
    by rw [h1, h2, h3]; exact h.written⟩

theorem winv_run {p : CachePolicy} {db0 : Option Head} {sets : List Head} (sched : List (Option Nat)) :
    ∀ {σ : Sys}, WInv p db0 sets σ → WInv p db0 sets (σ.run p sched) := by
  induction sched with
  | nil => intro σ h; exact h
  | cons t rest ih =>
    intro σ h
    apply ih (σ := σ.step p t)
    cases t with
    | none => exact winv_stepW h
    | some i => exact winv_stepR i h

/-- Once `SetL1Head` is not in progress the record is the last head set (or the start-up head) and the
feed has carried exactly the heads set. -/
theorem winv_quiescent {p : CachePolicy} {db0 : Option Head} {sets : List Head} {σ : Sys}
    (h : WInv p db0 sets σ) (hq : σ.writer.todo = []) :
    σ.writer.pc = .idle ∧ σ.db = lastOr db0 sets ∧ σ.feed = sets := by
  have hs := h.split
  rw [hq, List.append_nil] at hs
  cases hp : σ.writer.pc with
  | idle => obtain ⟨a, b⟩ := h.idle hp; exact ⟨rfl, by rw [a, hs], by rw [b, hs]⟩
  | sent => obtain ⟨x, r, ht, _⟩ := h.sent hp; rw [hq] at ht; cases ht
  | written => obtain ⟨x, r, ht, _⟩ := h.written hp; rw [hq] at ht; cases ht

/-- The record is, at every moment, the start-up head or the head of a prefix of the `SetL1Head` calls. -/
theorem winv_db_prefix {p : CachePolicy} {db0 : Option Head} {sets : List Head} {σ : Sys}
    (h : WInv p db0 sets σ) : ∃ k, k ≤ sets.length ∧ σ.db = lastOr db0 (sets.take k) := by
  have hs := h.split
  cases hp : σ.writer.pc with
  | idle =>
    refine ⟨σ.writer.done.length, by rw [← hs]; simp, ?_⟩
    rw [(h.idle hp).1, ← hs]; simp
  | sent =>
    obtain ⟨x, r, _, hdb, _⟩ := h.sent hp
    refine ⟨σ.writer.done.length, by rw [← hs]; simp, ?_⟩
    rw [hdb, ← hs]; simp
  | written =>
    obtain ⟨x, r, ht, hdb, _⟩ := h.written hp
    rw [ht] at hs
    refine ⟨σ.writer.done.length + 1, by rw [← hs]; simp, ?_⟩
    rw [hdb, ← hs]
    have : (σ.writer.done ++ x :: r).take (σ.writer.done.length + 1) = σ.writer.done ++ [x] := by
      rw [List.take_append]; simp [List.take_of_length_le]
    rw [this, lastOr_snoc]

/-! ### the code as it is: no cache -/

theorem reader_step_direct_cache (db cache : Option Head) (r : Reader) :
    (r.step .direct db cache).2 = cache := by
  unfold Reader.step
  cases r.todo with
  | zero => rfl
  | succ n => cases r.pc <;> simp [CachePolicy.cached] <;> (try split) <;> rfl

theorem direct_cache_run (db0 : Option Head) (sets : List Head) (sched : List (Option Nat)) :
    ∀ {σ : Sys}, WInv .direct db0 sets σ → σ.cache = none → (σ.run .direct sched).cache = none := by
  induction sched with
  | nil => intro σ _ h; exact h
  | cons t rest ih =>
    intro σ hw hc
    cases t with
    | none =>
      refine ih (σ := σ.stepW .direct) (winv_stepW hw) ?_
      unfold Sys.stepW
      cases ht : σ.writer.todo with
      | nil => simpa using hc
      | cons x r =>
        cases hp : σ.writer.pc with
        | idle => simpa using hc
        | sent => simpa [CachePolicy.cached] using hc
        | written => obtain ⟨_, _, _, _, _, hcc⟩ := hw.written hp; cases hcc
    | some i =>
      refine ih (σ := σ.stepR .direct i) (winv_stepR i hw) ?_
      unfold Sys.stepR
      cases hr : σ.readers[i]? with
      | none => simpa using hc
      | some r => simp [reader_step_direct_cache, hc]

/-! ### the code as it is: what ONE reader is served never goes back -/

/-- Each reader's results are the heads of a non-decreasing sequence of prefixes of the `SetL1Head` calls. -/
structure MInv (db0 : Option Head) (sets : List Head) (σ : Sys) : Prop where
  idle : ∀ r ∈ σ.readers, r.pc = .idle
  mono : ∀ r ∈ σ.readers, ∃ ks : List Nat, ks.Pairwise (· ≤ ·) ∧ (∀ k ∈ ks, k ≤ σ.writer.done.length) ∧
    r.got = ks.map (fun k => lastOr db0 (sets.take k))

theorem minv_init (db0 : Option Head) (sets : List Head) (reads : List Nat) :
    MInv db0 sets (Sys.init db0 sets reads) := by
  refine ⟨?_, ?_⟩ <;> intro r hr <;> simp only [Sys.init, List.mem_map] at hr <;> obtain ⟨n, _, rfl⟩ := hr
  · rfl
  · exact ⟨[], List.Pairwise.nil, (fun k hk => by cases hk), rfl⟩

theorem minv_stepW {db0 : Option Head} {sets : List Head} {σ : Sys}
    (h : MInv db0 sets σ) : MInv db0 sets (σ.stepW .direct) := by
  have hlen : σ.writer.done.length ≤ (σ.stepW .direct).writer.done.length ∧
      (σ.stepW .direct).readers = σ.readers := by
    unfold Sys.stepW
    cases σ.writer.todo with
    | nil => exact ⟨Nat.le_refl _, rfl⟩
    | cons x rest => cases σ.writer.pc <;> simp [CachePolicy.cached]
  refine ⟨by rw [hlen.2]; exact h.idle, ?_⟩
  rw [hlen.2]
  intro r hr
  obtain ⟨ks, a, b, c⟩ := h.mono r hr
  exact ⟨ks, a, fun k hk => Nat.le_trans (b k hk) hlen.1, c⟩

theorem minv_stepR {db0 : Option Head} {sets : List Head} {σ : Sys} (i : Nat)
    (hw : WInv .direct db0 sets σ) (h : MInv db0 sets σ) : MInv db0 sets (σ.stepR .direct i) := by
  -- under `direct` the writer is never between its write and a cache store: the record is the head of `done`
  have hdb : σ.db = lastOr db0 (sets.take σ.writer.done.length) := by
    have hs := hw.split
    have ht : sets.take σ.writer.done.length = σ.writer.done := by rw [← hs]; simp
    rw [ht]
    cases hp : σ.writer.pc with
    | idle => exact (hw.idle hp).1
    | sent => obtain ⟨_, _, _, hd, _⟩ := hw.sent hp; exact hd
    | written => obtain ⟨_, _, _, _, _, hc⟩ := hw.written hp; cases hc
  unfold Sys.stepR
  cases hr : σ.readers[i]? with
  | none => simpa using h
  | some r =>
    have hmem : r ∈ σ.readers := List.mem_of_getElem? hr
    have hpc := h.idle r hmem
    obtain ⟨ks, a, b, c⟩ := h.mono r hmem
    have hstep : (r.step .direct σ.db σ.cache).1.pc = .idle ∧
        ((r.step .direct σ.db σ.cache).1.got = r.got ∨ (r.step .direct σ.db σ.cache).1.got = r.got ++ [σ.db]) := by
      unfold Reader.step
      cases r.todo with
      | zero => exact ⟨hpc, Or.inl rfl⟩
      | succ n => simp [hpc, CachePolicy.cached]
    refine ⟨?_, ?_⟩
    · intro r' hr'
      rcases List.mem_or_eq_of_mem_set hr' with hm | rfl
      · exact h.idle r' hm
      · exact hstep.1
    · intro r' hr'
      rcases List.mem_or_eq_of_mem_set hr' with hm | rfl
      · exact h.mono r' hm
      · rcases hstep.2 with hg | hg
        · exact ⟨ks, a, b, by rw [hg, c]⟩
        · refine ⟨ks ++ [σ.writer.done.length], ?_, ?_, ?_⟩
          · rw [List.pairwise_append]
            exact ⟨a, List.pairwise_singleton _ _, fun x hx y hy => by simp at hy; subst hy; exact b x hx⟩
          · intro k hk
            rcases List.mem_append.mp hk with hk | hk
            · exact b k hk
            · simp at hk; subst hk; exact Nat.le_refl _
          · rw [hg, c, hdb]; simp

theorem minv_run {db0 : Option Head} {sets : List Head} (sched : List (Option Nat)) :
    ∀ {σ : Sys}, WInv .direct db0 sets σ → MInv db0 sets σ → MInv db0 sets (σ.run .direct sched) := by
  induction sched with
  | nil => intro σ _ h; exact h
  | cons t rest ih =>
    intro σ hw h
    cases t with
    | none => exact ih (σ := σ.stepW .direct) (winv_stepW hw) (minv_stepW h)
    | some i => exact ih (σ := σ.stepR .direct i) (winv_stepR i hw) (minv_stepR i hw h)

/-- With the heads set in non-decreasing Starknet-block order, none below the start-up head, a longer
prefix never gives an older head. -/
theorem lastOr_take_mono (sets : List Head) :
    ∀ (db0 : Option Head), sets.Pairwise (fun a b => a.l2 ≤ b.l2) →
      (∀ h ∈ sets, optLe (db0.map (·.l2)) (some h.l2)) → ∀ k k' : Nat, k ≤ k' →
      optLe ((lastOr db0 (sets.take k)).map (·.l2)) ((lastOr db0 (sets.take k')).map (·.l2)) := by
  induction sets with
  | nil => intro db0 _ _ k k' _; simp [lastOr]; exact optLe_refl _
  | cons x t ih =>
    intro db0 hs hg k k' hk
    have hst : t.Pairwise (fun a b => a.l2 ≤ b.l2) := (List.pairwise_cons.mp hs).2
    have hgt : ∀ h ∈ t, optLe ((some x).map (·.l2)) (some h.l2) := by
      intro h hh
      exact (List.pairwise_cons.mp hs).1 h hh
    cases k with
    | zero =>
      cases k' with
      | zero => exact optLe_refl _
      | succ n =>
        rw [List.take_succ_cons, lastOr_cons]
        -- the right-hand side is `some h` with `h = x` or `h ∈ t`
        have h0 := ih (some x) hst hgt 0 n (Nat.zero_le _)
        simp only [List.take_zero, lastOr_nil] at h0 ⊢
        have hx := hg x (by simp)
        cases hd : db0 with
        | none => simp [optLe]
        | some d =>
          rw [hd] at hx
          cases hr : lastOr (some x) (t.take n) with
          | none => rw [hr] at h0; simp [optLe] at h0
          | some r =>
            rw [hr] at h0
            simp [optLe] at hx h0 ⊢
            omega
    | succ m =>
      cases k' with
      | zero => omega
      | succ n =>
        rw [List.take_succ_cons, List.take_succ_cons, lastOr_cons, lastOr_cons]
        exact ih (some x) hst hgt m n (by omega)

/-! ### what a reader can be given: only the start-up head or a head that was set -/

structure KInv (db0 : Option Head) (sets : List Head) (σ : Sys) : Prop where
  db : KnownHead db0 sets σ.db
  cache : ∀ c, σ.cache = some c → KnownHead db0 sets (some c)
  readers : ∀ r ∈ σ.readers, (∀ x ∈ r.got, KnownHead db0 sets x) ∧
    (∀ v, r.pc = .fetched v → KnownHead db0 sets (some v))

theorem kinv_init (db0 : Option Head) (sets : List Head) (reads : List Nat) :
    KInv db0 sets (Sys.init db0 sets reads) := by
  refine ⟨Or.inl rfl, (fun c h => by cases h), ?_⟩
  intro r hr
  simp only [Sys.init, List.mem_map] at hr
  obtain ⟨n, _, rfl⟩ := hr
  exact ⟨(fun x hx => by cases hx), (fun v hv => by cases hv)⟩

theorem kinv_stepW {p : CachePolicy} {db0 : Option Head} {sets : List Head} {σ : Sys}
    (hw : WInv p db0 sets σ) (h : KInv db0 sets σ) : KInv db0 sets (σ.stepW p) := by
  unfold Sys.stepW
  cases ht : σ.writer.todo with
  | nil => simpa using h
  | cons x rest =>
    have hx : KnownHead db0 sets (some x) := by
      refine Or.inr ⟨x, ?_, rfl⟩
      rw [← hw.split, ht]; simp
    cases hp : σ.writer.pc with
    | idle => exact ⟨h.db, h.cache, h.readers⟩
    | sent =>
      by_cases hc : p.cached = true
      · simp only [hc, if_true]; exact ⟨hx, h.cache, h.readers⟩
      · simp only [hc]; exact ⟨hx, h.cache, h.readers⟩
    | written =>
      refine ⟨h.db, ?_, h.readers⟩
      intro c hc
      simp at hc
      subst hc
      exact hx

theorem kinv_reader_step {p : CachePolicy} {db0 : Option Head} {sets : List Head}
    {db cache : Option Head} {r : Reader}
    (hdb : KnownHead db0 sets db) (hcache : ∀ c, cache = some c → KnownHead db0 sets (some c))
    (hr : (∀ x ∈ r.got, KnownHead db0 sets x) ∧ (∀ v, r.pc = .fetched v → KnownHead db0 sets (some v))) :
    ((∀ x ∈ (r.step p db cache).1.got, KnownHead db0 sets x) ∧
      (∀ v, (r.step p db cache).1.pc = .fetched v → KnownHead db0 sets (some v))) ∧
    (∀ c, (r.step p db cache).2 = some c → KnownHead db0 sets (some c)) := by
  unfold Reader.step
  cases hn : r.todo with
  | zero => exact ⟨hr, hcache⟩
  | succ n =>
    cases hp : r.pc with
    | idle =>
      by_cases hc : p.cached = true
      · simp only [hc, if_true]
        cases hcv : cache with
        | none =>
          refine ⟨⟨hr.1, (fun v hv => by cases hv)⟩, (fun c h => by cases h)⟩
        | some v =>
          refine ⟨⟨?_, (fun v hv => by cases hv)⟩, fun c h => hcache c (by rw [hcv]; exact h)⟩
          intro x hx
          simp at hx
          rcases hx with hx | rfl
          · exact hr.1 x hx
          · exact hcache v hcv
      · simp only [hc]
        refine ⟨⟨?_, (fun v hv => by cases hv)⟩, hcache⟩
        intro x hx
        simp at hx
        rcases hx with hx | rfl
        · exact hr.1 x hx
        · exact hdb
    | missed =>
      cases hd : db with
      | none =>
        refine ⟨⟨?_, (fun v hv => by cases hv)⟩, hcache⟩
        intro x hx
        simp at hx
        rcases hx with hx | rfl
        · exact hr.1 x hx
        · rw [hd] at hdb; exact hdb
      | some v =>
        refine ⟨⟨hr.1, ?_⟩, hcache⟩
        intro w hw
        simp at hw
        subst hw
        rw [hd] at hdb; exact hdb
    | fetched v =>
      have hv : KnownHead db0 sets (some v) := hr.2 v hp
      refine ⟨⟨?_, (fun v hv => by cases hv)⟩, ?_⟩
      · intro x hx
        simp at hx
        rcases hx with hx | rfl
        · exact hr.1 x hx
        · exact hv
      · intro c hc
        cases p with
        | direct => exact hcache c hc
        | publish => simp at hc; subst hc; exact hv
        | publishIfEmpty =>
          cases hcv : cache with
          | none => simp [hcv] at hc; subst hc; exact hv
          | some c' => simp [hcv] at hc; subst hc; exact hcache c' hcv

theorem kinv_stepR {p : CachePolicy} {db0 : Option Head} {sets : List Head} {σ : Sys} (i : Nat)
    (h : KInv db0 sets σ) : KInv db0 sets (σ.stepR p i) := by
  unfold Sys.stepR
  cases hr : σ.readers[i]? with
  | none => simpa using h
  | some r =>
    have hmem : r ∈ σ.readers := List.mem_of_getElem? hr
    obtain ⟨h1, h2⟩ := kinv_reader_step (p := p) h.db h.cache (h.readers r hmem)
    refine ⟨h.db, h2, ?_⟩
    intro r' hr'
    rcases List.mem_or_eq_of_mem_set hr' with hm | rfl
    · exact h.readers r' hm
    · exact h1

theorem kinv_run {p : CachePolicy} {db0 : Option Head} {sets : List Head} (sched : List (Option Nat)) :
    ∀ {σ : Sys}, WInv p db0 sets σ → KInv db0 sets σ → KInv db0 sets (σ.run p sched) := by
  induction sched with
  | nil => intro σ _ h; exact h
  | cons t rest ih =>
    intro σ hw h
    cases t with
    | none => exact ih (σ := σ.stepW p) (winv_stepW hw) (kinv_stepW hw h)
    | some i => exact ih (σ := σ.stepR p i) (winv_stepR i hw) (kinv_stepR i h)

/-! ### a compare-and-swap read-through cache is coherent (a harmless refactor) -/

structure CInv (σ : Sys) : Prop where
  coh : σ.cache = none ∨ σ.cache = σ.db ∨ σ.writer.pc = .written
  fresh : σ.cache = none → ∀ r ∈ σ.readers, ∀ v, r.pc = .fetched v → some v = σ.db ∨ σ.writer.pc = .written

theorem cinv_init (db0 : Option Head) (sets : List Head) (reads : List Nat) :
    CInv (Sys.init db0 sets reads) := by
  refine ⟨Or.inl rfl, ?_⟩
  intro _ r hr v hv
  simp only [Sys.init, List.mem_map] at hr
  obtain ⟨n, _, rfl⟩ := hr
  cases hv

theorem cinv_stepW {db0 : Option Head} {sets : List Head} {σ : Sys}
    (hw : WInv .publishIfEmpty db0 sets σ) (h : CInv σ) : CInv (σ.stepW .publishIfEmpty) := by
  unfold Sys.stepW
  cases ht : σ.writer.todo with
  | nil => simpa using h
  | cons x rest =>
    cases hp : σ.writer.pc with
    | idle =>
      refine ⟨?_, ?_⟩
      · rcases h.coh with a | a | a
        · exact Or.inl a
        · exact Or.inr (Or.inl a)
        · rw [hp] at a; cases a
      · intro hc r hr v hv
        rcases h.fresh hc r hr v hv with a | a
        · exact Or.inl a
        · rw [hp] at a; cases a
    | sent =>
      simp only [CachePolicy.cached, if_true]
      exact ⟨Or.inr (Or.inr rfl), fun _ _ _ _ _ => Or.inr rfl⟩
    | written =>
      obtain ⟨x', rest', ht', hdb, _, _⟩ := hw.written hp
      rw [ht] at ht'
      obtain ⟨rfl, rfl⟩ := List.cons.inj ht'
      refine ⟨Or.inr (Or.inl ?_), (fun hc => by simp at hc)⟩
      simp [hdb]

/-- One reader step under the compare-and-swap policy (`W` = "the writer is between its database
write and its cache store"). -/
theorem cas_reader_step (db cache : Option Head) (r : Reader) (W : Prop)
    (hcoh : cache = none ∨ cache = db ∨ W)
    (hfresh : cache = none → ∀ v, r.pc = .fetched v → some v = db ∨ W) :
    ((r.step .publishIfEmpty db cache).2 = none ∨ (r.step .publishIfEmpty db cache).2 = db ∨ W) ∧
    ((r.step .publishIfEmpty db cache).2 = none →
      ∀ v, (r.step .publishIfEmpty db cache).1.pc = .fetched v → some v = db ∨ W) ∧
    ((r.step .publishIfEmpty db cache).2 = none → cache = none) := by
  unfold Reader.step
  cases hn : r.todo with
  | zero => exact ⟨hcoh, hfresh, id⟩
  | succ n =>
    cases hp : r.pc <;> cases cache <;> cases db <;> simp_all [CachePolicy.cached]

theorem cinv_stepR {σ : Sys} (i : Nat) (h : CInv σ) : CInv (σ.stepR .publishIfEmpty i) := by
  unfold Sys.stepR
  cases hr : σ.readers[i]? with
  | none => simpa using h
  | some r =>
    have hmem : r ∈ σ.readers := List.mem_of_getElem? hr
    obtain ⟨h1, h2, h3⟩ := cas_reader_step σ.db σ.cache r (σ.writer.pc = .written) h.coh
      (fun hc => h.fresh hc r hmem)
    refine ⟨h1, ?_⟩
    intro hc r' hr' v hv
    rcases List.mem_or_eq_of_mem_set hr' with hm | rfl
    · exact h.fresh (h3 hc) r' hm v hv
    · exact h2 hc v hv

theorem cinv_run {db0 : Option Head} {sets : List Head} (sched : List (Option Nat)) :
    ∀ {σ : Sys}, WInv .publishIfEmpty db0 sets σ → CInv σ → CInv (σ.run .publishIfEmpty sched) := by
  induction sched with
  | nil => intro σ _ h; exact h
  | cons t rest ih =>
    intro σ hw h
    cases t with
    | none => exact ih (σ := σ.stepW .publishIfEmpty) (winv_stepW hw) (cinv_stepW hw h)
    | some i => exact ih (σ := σ.stepR .publishIfEmpty i) (winv_stepR i hw) (cinv_stepR i h)

end Juno.C17
