import JunoModel.C17.ProofsTop
/-!
C17 — helper lemmas, part 9: facts that are true by construction of the model (kept out of the
obligation list), the catch-up chunk/retry lemmas, the regression material for the code before
commit 5084dce (`guard = false`).
-/
namespace Juno.C17

/-! ### true by construction of the model (transcription facts; the tie is the harness) -/

theorem notification_eq_head (g : Bool) (s : State) (F : Nat) :
    (∀ h, (setL1Head g s F).2 = some h → (setL1Head g s F).1.head = some h) ∧
    ((setL1Head g s F).2 = none → (setL1Head g s F).1.head = s.head) := by
  unfold setL1Head
  cases pickMax F s.buf with
  | none => simp
  | some c => by_cases hs : skipCandidate g s.head c = true <;> simp [hs]


theorem forward_map_facts (rs : List RawLog) :
    (forwardStream rs).length = rs.length ∧
    (forwardStream rs).map (fun u => (u.l1, u.removed)) = rs.map (fun r => (r.l1, r.removed)) ∧
    ∀ a b, forwardStream (a ++ b) = forwardStream a ++ forwardStream b := by
  refine ⟨by simp [forwardStream], ?_, by intro a b; simp [forwardStream]⟩
  simp [forwardStream, decodeLog, Function.comp_def]

/-- Values in range are passed on unchanged (Starknet block numbers below 2^64, felts below P). -/
theorem decode_in_range (r : RawLog) (h1 : r.blockNumber < 2 ^ 64) (h2 : r.blockHash < feltP)
    (h3 : r.globalRoot < feltP) :
    decodeLog r = ⟨r.blockNumber, r.blockHash, r.globalRoot, r.l1, r.removed⟩ := by
  simp [decodeLog, Nat.mod_eq_of_lt h1, Nat.mod_eq_of_lt h2, Nat.mod_eq_of_lt h3]

example : forwardStream [⟨1, 7, 2, 5, false⟩, ⟨1, 7, 2, 5, true⟩, ⟨3, 8, feltP + 4, 6, true⟩] =
    [⟨7, 2, 1, 5, false⟩, ⟨7, 2, 1, 5, true⟩, ⟨8, 4, 3, 6, true⟩] := by decide


theorem catchUp_equiv (g : Bool) (h : Option Head) (hist : List SU) (latest fin₁ fin₂ c c' : Nat)
    (hh : ∀ u ∈ hist, u.removed = false) (hc : c ≠ 0) (hc' : c' ≠ 0) (hfin : fin₁ ≤ fin₂) :
    (catchUp g (State.init h) hist latest fin₁ c none fin₂).1.head =
      (catchUp g (State.init h) hist latest fin₁ c' none fin₂).1.head ∧
    (catchUp g (State.init h) hist latest fin₁ c none fin₂).2.2 =
      (catchUp g (State.init h) hist latest fin₁ c' none fin₂).2.2 := by
  have hb := histConsistent_nil hist latest
  have hpick := catchUp_pick_eq (fin₂ := fin₂) hh hb hb hc hc' hfin
  have r1 := (catchUp_pick (fin₂ := fin₂) hh hb hc hfin).1
  have r2 := (catchUp_pick (fin₂ := fin₂) hh hb hc' hfin).1
  simp only [catchUp, State.init, r1, r2, setL1Head, hpick]
  cases pickMax fin₂ (catchUpLoop hist fin₁ c' none latest 0 [] [] []).buf with
  | none => simp
  | some u => by_cases hs : skipCandidate g h u = true <;> simp [hs]


theorem catchUp_retry (g : Bool) (h : Option Head) (hist : List SU)
    (latest fin₁ fin₂ c c' : Nat) (failAt : Option Nat)
    (hh : ∀ u ∈ hist, u.removed = false) (hc' : c' ≠ 0) (hfin : fin₁ ≤ fin₂)
    (hfail : (catchUpLoop hist fin₁ c failAt latest 0 [] [] []).result = .failed) :
    let s₁ := (catchUp g (State.init h) hist latest fin₁ c failAt fin₂).1
    s₁.head = h ∧ (catchUp g (State.init h) hist latest fin₁ c failAt fin₂).2.2 = none ∧
    (catchUp g s₁ hist latest fin₁ c' none fin₂).1.head =
      (catchUp g (State.init h) hist latest fin₁ c' none fin₂).1.head ∧
    (catchUp g s₁ hist latest fin₁ c' none fin₂).2.2 =
      (catchUp g (State.init h) hist latest fin₁ c' none fin₂).2.2 := by
  have hb := histConsistent_nil hist latest
  have hb1 : HistConsistent hist latest (catchUpLoop hist fin₁ c failAt latest 0 [] [] []).buf :=
    catchUp_failed_consistent hh hb
  have hpick := catchUp_pick_eq (fin₂ := fin₂) hh hb1 hb hc' hc' hfin
  have r1 := (catchUp_pick (fin₂ := fin₂) hh hb1 hc' hfin).1
  have r2 := (catchUp_pick (fin₂ := fin₂) hh hb hc' hfin).1
  simp only [catchUp, State.init, hfail, r1, r2, setL1Head, hpick]
  cases pickMax fin₂ (catchUpLoop hist fin₁ c' none latest 0 [] [] []).buf with
  | none => simp
  | some u => by_cases hs : skipCandidate g h u = true <;> simp [hs]


end Juno.C17
