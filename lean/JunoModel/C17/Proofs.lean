import JunoModel.C17.Model
/-!
C17 — helper lemmas, part 1: the buffer (`nonFinalisedLogs`) as a finite map and the selection
loop of `setL1Head`.
-/
namespace Juno.C17

/-- Keys of the buffer are pairwise distinct (it is a Go map). -/
def Buf.NodupKeys (b : Buf) : Prop := b.Pairwise (fun x y => x.1 ≠ y.1)

theorem Buf.nodup_nil : Buf.NodupKeys [] := List.Pairwise.nil

theorem Buf.mem_insert {b : Buf} {k : Nat} {v : SU} {e : Nat × SU} :
    e ∈ b.insert k v ↔ e = (k, v) ∨ (e ∈ b ∧ e.1 ≠ k) := by
  simp [Buf.insert, List.mem_filter]

theorem Buf.mem_dropFrom {b : Buf} {h : Nat} {e : Nat × SU} :
    e ∈ b.dropFrom h ↔ e ∈ b ∧ e.1 < h := by
  simp [Buf.dropFrom, List.mem_filter]

theorem Buf.mem_prune {b : Buf} {f : Nat} {e : Nat × SU} :
    e ∈ b.prune f ↔ e ∈ b ∧ f < e.1 := by
  simp [Buf.prune, List.mem_filter]

theorem Buf.nodup_filter {b : Buf} (p : Nat × SU → Bool) (h : b.NodupKeys) :
    Buf.NodupKeys (b.filter p) := List.Pairwise.filter p h

theorem Buf.nodup_insert {b : Buf} {k : Nat} {v : SU} (h : b.NodupKeys) :
    (b.insert k v).NodupKeys := by
  unfold Buf.insert Buf.NodupKeys
  refine List.Pairwise.cons ?_ (List.Pairwise.filter _ h)
  intro a ha
  simp [List.mem_filter] at ha
  exact fun h' => ha.2 h'.symm

theorem Buf.nodup_dropFrom {b : Buf} {h : Nat} (hb : b.NodupKeys) : (b.dropFrom h).NodupKeys :=
  Buf.nodup_filter _ hb

theorem Buf.nodup_prune {b : Buf} {f : Nat} (hb : b.NodupKeys) : (b.prune f).NodupKeys :=
  Buf.nodup_filter _ hb

theorem nodup_applyStateUpdate {b : Buf} {u : SU} (hb : b.NodupKeys) :
    (applyStateUpdate b u).NodupKeys := by
  unfold applyStateUpdate
  split
  · exact Buf.nodup_dropFrom hb
  · exact Buf.nodup_insert hb

/-- With distinct keys an entry is determined by its key. -/
theorem Buf.unique {b : Buf} (hb : b.NodupKeys) {k : Nat} {u v : SU}
    (hu : (k, u) ∈ b) (hv : (k, v) ∈ b) : u = v := by
  induction b with
  | nil => cases hu
  | cons e t ih =>
    have hp := List.pairwise_cons.mp hb
    rcases List.mem_cons.mp hu with hu | hu <;> rcases List.mem_cons.mp hv with hv | hv
    · rw [← hu] at hv; exact ((Prod.mk.inj hv).2).symm
    · have := hp.1 _ hv; rw [← hu] at this; exact absurd rfl this
    · have := hp.1 _ hu; rw [← hv] at this; exact absurd rfl this
    · exact ih hp.2 hu hv

theorem Buf.get?_eq_some {b : Buf} (hb : b.NodupKeys) {k : Nat} {u : SU} :
    b.get? k = some u ↔ (k, u) ∈ b := by
  unfold Buf.get?
  constructor
  · intro h
    split at h
    · rename_i e he
      have hm := List.mem_of_find?_eq_some he
      have hk := List.find?_some he
      simp at hk
      cases h
      rw [← hk]; exact hm
    · cases h
  · intro h
    cases hf : b.find? (fun e => e.1 == k) with
    | none =>
      have := List.find?_eq_none.mp hf _ h
      simp at this
    | some e =>
      have hm := List.mem_of_find?_eq_some hf
      have hk := List.find?_some hf
      simp at hk
      have : (k, e.2) ∈ b := by rw [← hk]; exact hm
      simp [Buf.unique hb h this]

theorem Buf.get?_eq_none {b : Buf} {k : Nat} : b.get? k = none ↔ ∀ u, (k, u) ∉ b := by
  unfold Buf.get?
  constructor
  · intro h u hu
    split at h
    · cases h
    · rename_i hf
      have := List.find?_eq_none.mp hf _ hu
      simp at this
  · intro h
    split
    · rename_i e he
      have hm := List.mem_of_find?_eq_some he
      have hk := List.find?_some he
      simp at hk
      exact absurd (by rw [← hk]; exact hm) (h e.2)
    · rfl

/-! ### the selection loop of `setL1Head` -/

/-- What the fold has computed after scanning the entries `l`. -/
def PickGood (l : List (Nat × SU)) (acc : Nat × Option SU) : Prop :=
  (l = [] ∧ acc = (0, none)) ∨
  (∃ u, acc.2 = some u ∧ (acc.1, u) ∈ l ∧ ∀ e ∈ l, e.1 ≤ acc.1)

theorem pickGood_foldl (l : List (Nat × SU)) :
    ∀ (l0 : List (Nat × SU)) (acc : Nat × Option SU), PickGood l0 acc →
      PickGood (l0 ++ l) (l.foldl pickStep acc) := by
  induction l with
  | nil => intro l0 acc h; simpa using h
  | cons e t ih =>
    intro l0 acc h
    have : l0 ++ e :: t = (l0 ++ [e]) ++ t := by simp
    rw [this, List.foldl_cons]
    apply ih
    unfold pickStep
    rcases h with ⟨h0, hacc⟩ | ⟨u, hu, hmem, hmax⟩
    · subst h0; subst hacc
      simp only [ge_iff_le, Nat.zero_le, if_true]
      exact Or.inr ⟨e.2, rfl, by simp, by simp⟩
    · by_cases hge : e.1 ≥ acc.1
      · simp only [hge, if_true]
        refine Or.inr ⟨e.2, rfl, by simp, ?_⟩
        intro e' he'
        rcases List.mem_append.mp he' with h' | h'
        · exact Nat.le_trans (hmax _ h') hge
        · simp at h'; subst h'; exact Nat.le_refl _
      · simp only [hge, if_false]
        refine Or.inr ⟨u, hu, by simp [hmem], ?_⟩
        intro e' he'
        rcases List.mem_append.mp he' with h' | h'
        · exact hmax _ h'
        · simp at h'; subst h'; omega

/-- `setL1Head` picks an entry with the largest key at or below the finalised height … -/
theorem pickMax_some {fin : Nat} {b : Buf} {u : SU} (h : pickMax fin b = some u) :
    ∃ k, (k, u) ∈ b ∧ k ≤ fin ∧ ∀ e ∈ b, e.1 ≤ fin → e.1 ≤ k := by
  unfold pickMax at h
  have hg := pickGood_foldl (b.filter (fun e => decide (e.1 ≤ fin))) [] (0, none) (Or.inl ⟨rfl, rfl⟩)
  simp only [List.nil_append] at hg
  rcases hg with ⟨_, hacc⟩ | ⟨v, hv, hmem, hmax⟩
  · rw [hacc] at h; cases h
  · rw [hv] at h; cases h
    have hm := List.mem_filter.mp hmem
    refine ⟨_, hm.1, by simpa using hm.2, ?_⟩
    intro e he hle
    exact hmax e (List.mem_filter.mpr ⟨he, by simpa using hle⟩)

/-- … and finds one whenever there is any. -/
theorem pickMax_none {fin : Nat} {b : Buf} (h : pickMax fin b = none) :
    ∀ e ∈ b, ¬ e.1 ≤ fin := by
  unfold pickMax at h
  have hg := pickGood_foldl (b.filter (fun e => decide (e.1 ≤ fin))) [] (0, none) (Or.inl ⟨rfl, rfl⟩)
  simp only [List.nil_append] at hg
  rcases hg with ⟨hnil, _⟩ | ⟨v, hv, _, _⟩
  · intro e he hle
    have : e ∈ b.filter (fun e => decide (e.1 ≤ fin)) := List.mem_filter.mpr ⟨he, by simpa using hle⟩
    rw [hnil] at this; cases this
  · rw [hv] at h; cases h

/-- The choice does not depend on the order in which Go happens to iterate the map. -/
theorem pickMax_perm {fin : Nat} {b₁ b₂ : Buf} (hb : b₁.NodupKeys)
    (hp : ∀ e, e ∈ b₁ ↔ e ∈ b₂) : pickMax fin b₁ = pickMax fin b₂ := by
  cases h1 : pickMax fin b₁ with
  | none =>
    cases h2 : pickMax fin b₂ with
    | none => rfl
    | some v =>
      obtain ⟨k, hm, hk, _⟩ := pickMax_some h2
      exact absurd hk (pickMax_none h1 _ ((hp _).mpr hm))
  | some u =>
    obtain ⟨k, hm, hk, hmax⟩ := pickMax_some h1
    cases h2 : pickMax fin b₂ with
    | none => exact absurd hk (pickMax_none h2 _ ((hp _).mp hm))
    | some v =>
      obtain ⟨k', hm', hk', hmax'⟩ := pickMax_some h2
      have e1 : k' ≤ k := hmax _ ((hp _).mpr hm') hk'
      have e2 : k ≤ k' := hmax' _ ((hp _).mp hm) hk
      have : k = k' := Nat.le_antisymm e2 e1
      subst this
      exact congrArg some (Buf.unique hb hm ((hp _).mpr hm'))

end Juno.C17
