import JunoModel.C17.ProofsMore
/-!
C17 — helper lemmas, part 7: start-up with a head stored by an earlier life, the combined
start-up + run trace, the chain-id gate, the L1-head feed.
-/
namespace Juno.C17

/-- The stored head `h0` stems from an event of L1 block `b0` of the same canonical chain as the
live events: lower blocks commit lower Starknet blocks, higher blocks higher ones. -/
def StoredOrdered (h0 : Head) (b0 : Nat) (tr : List Ev) : Prop :=
  ∀ a b, tr = a ++ b → ∀ x ∈ live a,
    (x.2.l1 < b0 → x.2.l2 < h0.l2) ∧ (b0 < x.2.l1 → h0.l2 < x.2.l2)

theorem StoredOrdered.prefix {h0 : Head} {b0 : Nat} {tr : List Ev} {e : Ev}
    (h : StoredOrdered h0 b0 (tr ++ [e])) : StoredOrdered h0 b0 tr := by
  intro a b hab
  exact h a (b ++ [e]) (by simp [hab])

/-- Head invariant of the repaired variant started with the stored head `h0`. -/
def GuardHeadS (h0 : Head) (b0 : Nat) (tr : List Ev) : Prop :=
  ((∀ c, Consumed tr c → c.2.l1 ≤ b0) ∧ (run true (State.init (some h0)) tr).head = some h0) ∨
  ∃ e, Consumed tr e ∧ (∀ c, Consumed tr c → c.2.l1 ≤ e.2.l1) ∧ b0 ≤ e.2.l1 ∧
    (run true (State.init (some h0)) tr).head = some e.2.toHead

theorem guardHeadS_keep {h0 : Head} {b0 : Nat} {tr : List Ev} {x : Ev}
    (hc : ∀ e, Consumed (tr ++ [x]) e ↔ Consumed tr e)
    (hh : (run true (State.init (some h0)) (tr ++ [x])).head =
      (run true (State.init (some h0)) tr).head)
    (h : GuardHeadS h0 b0 tr) : GuardHeadS h0 b0 (tr ++ [x]) := by
  rcases h with ⟨hall, hd⟩ | ⟨e, he, hmax, hb, hd⟩
  · exact Or.inl ⟨fun c hc' => hall c ((hc c).mp hc'), by rw [hh, hd]⟩
  · exact Or.inr ⟨e, (hc e).mpr he, fun c hc' => hmax c ((hc c).mp hc'), hb, by rw [hh, hd]⟩

theorem guardHeadS (h0 : Head) (b0 : Nat) (tr : List Ev) :
    FinMono tr → NoUnfinalise tr → L2Ordered tr → StoredOrdered h0 b0 tr → GuardHeadS h0 b0 tr := by
  refine snoc_ind (P := fun tr => FinMono tr → NoUnfinalise tr → L2Ordered tr →
    StoredOrdered h0 b0 tr → GuardHeadS h0 b0 tr) ?_ ?_ tr
  · intro _ _ _ _
    exact Or.inl ⟨by intro c hc; simp [Consumed, live_nil] at hc, rfl⟩
  · intro l x ih hF hU hL hS
    have h := ih hF.prefix hU.prefix hL.prefix hS.prefix
    have hle := consumedLe l hF.prefix hU.prefix
    have hb := basic true (some h0) l
    cases x with
    | upd u =>
      by_cases hr : u.removed = true
      · exact guardHeadS_keep (consumed_removal hr hle hU) (by rw [run_snoc, step_upd_head]) h
      · have hr' : u.removed = false := by simpa using hr
        exact guardHeadS_keep (consumed_upd (g := true) (h0 := none) hr')
          (by rw [run_snoc, step_upd_head]) h
    | subErr => exact guardHeadS_keep (fun e => consumed_other e rfl rfl) (by rw [run_snoc]; rfl) h
    | resub ok => exact guardHeadS_keep (fun e => consumed_other e rfl rfl) (by rw [run_snoc]; rfl) h
    | finErr => exact guardHeadS_keep (fun e => consumed_other e rfl rfl) (by rw [run_snoc]; rfl) h
    | tick F =>
      have hcons := fun e => consumed_tick (g := true) (h0 := some h0) (tr := l) (F := F) e
      have hord := hL.prefix.here
      have hst := hS.prefix l [] (by simp)
      unfold GuardHeadS
      rw [run_snoc]
      simp only [step, setL1Head]
      cases hpm : pickMax F (run true (State.init (some h0)) l).buf with
      | none =>
        have hnone := pickMax_pend_none hpm
        have hsame : ∀ e, Consumed (l ++ [.tick F]) e ↔ Consumed l e := by
          intro e
          rw [hcons]
          constructor
          · rintro (hc | hc)
            · exact hc
            · exact absurd hc.2 (hnone e hc.1)
          · exact Or.inl
        simp only
        rcases h with ⟨hall, hd⟩ | ⟨e, he, hmax, hb0, hd⟩
        · exact Or.inl ⟨fun c hc => hall c ((hsame c).mp hc), hd⟩
        · exact Or.inr ⟨e, (hsame e).mpr he, fun c hc => hmax c ((hsame c).mp hc), hb0, hd⟩
      | some u =>
        obtain ⟨n, hn, huF, hmaxP⟩ := pickMax_pend_some hpm
        have hnl : (n, u) ∈ live l := hb.sub _ hn
        have hsu := hst (n, u) hnl
        simp only at hsu
        simp only
        rcases h with ⟨hall, hd⟩ | ⟨e, he, hmax, hb0, hd⟩
        · simp only [hd, skipCandidate, Bool.true_and]
          by_cases hlt : u.l2 < h0.l2
          · -- older than the stored head: skipped, and then it cannot lie above `b0`
            simp only [hlt, decide_true, if_true]
            have hub : u.l1 ≤ b0 := by
              apply Classical.byContradiction
              intro hn'
              have := hsu.2 (by omega)
              omega
            refine Or.inl ⟨?_, by first | rfl | trivial⟩
            intro c hc
            rcases (hcons c).mp hc with hc | hc
            · exact hall c hc
            · have := lexLe_l1 (hmaxP c hc.1 hc.2)
              simp only at this; omega
          · simp only [hlt, decide_false, Bool.false_eq_true, if_false]
            have hbu : b0 ≤ u.l1 := by
              apply Classical.byContradiction
              intro hn'
              have := hsu.1 (by omega)
              omega
            refine Or.inr ⟨(n, u), (hcons _).mpr (Or.inr ⟨hn, huF⟩), ?_, hbu, rfl⟩
            intro c hc
            rcases (hcons c).mp hc with hc | hc
            · have := hall c hc
              simp only; omega
            · exact lexLe_l1 (hmaxP c hc.1 hc.2)
        · simp only [hd, skipCandidate, Bool.true_and, SU.toHead]
          by_cases hlt : u.l2 < e.2.l2
          · simp only [hlt, decide_true, if_true]
            have hue : u.l1 ≤ e.2.l1 := by
              apply Classical.byContradiction
              intro hn'
              have := hord e he.1 (n, u) hnl (by simp only; omega)
              simp only at this; omega
            refine Or.inr ⟨e, (hcons e).mpr (Or.inl he), ?_, hb0, rfl⟩
            intro c hc
            rcases (hcons c).mp hc with hc | hc
            · exact hmax c hc
            · have := lexLe_l1 (hmaxP c hc.1 hc.2)
              simp only at this; omega
          · simp only [hlt, decide_false, Bool.false_eq_true, if_false]
            have heu : e.2.l1 ≤ u.l1 := by
              apply Classical.byContradiction
              intro hn'
              have := hord (n, u) hnl e he.1 (by simp only; omega)
              simp only at this; omega
            refine Or.inr ⟨(n, u), (hcons _).mpr (Or.inr ⟨hn, huF⟩), ?_, (by show b0 ≤ u.l1; omega), rfl⟩
            intro c hc
            rcases (hcons c).mp hc with hc | hc
            · have := hmax c hc
              simp only; omega
            · exact lexLe_l1 (hmaxP c hc.1 hc.2)

/-- After a poll, "consumed" is exactly "live and at or below the reported height". -/
theorem consumed_after_tick {tr : List Ev} {F : Nat}
    (hF : FinMono (tr ++ [.tick F])) (hU : NoUnfinalise (tr ++ [.tick F])) (e : Stamped) :
    Consumed (tr ++ [.tick F]) e ↔ (e ∈ live tr ∧ e.2.l1 ≤ F) := by
  have hle := consumedLe (tr ++ [.tick F]) hF hU
  have hl : live (tr ++ [.tick F]) = live tr := by rw [live_snoc]; rfl
  constructor
  · intro he
    obtain ⟨F', hF', hle'⟩ := hle e he
    rw [lastFin_snoc] at hF'
    cases hF'
    exact ⟨hl ▸ he.1, hle'⟩
  · rintro ⟨h1, h2⟩
    refine ⟨hl.symm ▸ h1, ?_⟩
    rw [pend_snoc]
    simp [pendStep, h2]

/-! ### start-up -/

theorem startUp_gate (g : Bool) (s : State) (cfg : Startup) (oneshot : Bool)
    (h : (startUp g s cfg oneshot).2 ≠ .proceed) : (startUp g s cfg oneshot).1 = s := by
  unfold startUp at h ⊢
  split
  · rename_i hg
    rw [hg] at h
    simp only at h
    split at h <;> exact absurd rfl h
  · rfl

/-- The trace a completed start-up amounts to. -/
def startUpTrace (s : State) (cfg : Startup) (la f1 : Nat) : List Ev :=
  let o := catchUpLoop cfg.hist f1 cfg.chunk cfg.failAt la 0 s.buf [] []
  if o.result = .complete then o.applied.map Ev.upd ++ [Ev.tick cfg.fin₂] else o.applied.map Ev.upd

theorem run_append (g : Bool) (s : State) (a b : List Ev) :
    run g s (a ++ b) = run g (run g s a) b := by
  simp [run, List.foldl_append]

theorem runLife_trace (g : Bool) (s : State) (cfg : Startup) (tr : List Ev) (la f1 : Nat)
    (hg : ensureChainID cfg.chainId = .proceed) (hla : cfg.latest = some la)
    (hf : cfg.fin₁ = some f1) :
    runLife g s cfg tr = run g s (startUpTrace s cfg la f1 ++ tr) := by
  unfold runLife startUp
  simp only [hg, hla, hf, Bool.false_eq_true, if_false]
  rw [run_append]
  congr 1
  have := catchUp_as_trace g s cfg.hist la f1 cfg.chunk cfg.failAt cfg.fin₂
  simp only at this
  rw [this]
  unfold startUpTrace
  simp only
  split <;> rfl

theorem runLife_skip (g : Bool) (s : State) (cfg : Startup) (tr : List Ev)
    (hg : ensureChainID cfg.chainId = .proceed) (h : cfg.latest = none ∨ cfg.fin₁ = none) :
    runLife g s cfg tr = run g s tr := by
  unfold runLife startUp
  simp only [hg, Bool.false_eq_true, if_false]
  rcases h with h | h
  · simp [h]
  · cases hl : cfg.latest <;> simp [h]

theorem runLife_blocked (g : Bool) (s : State) (cfg : Startup) (tr : List Ev)
    (hg : ensureChainID cfg.chainId ≠ .proceed) : runLife g s cfg tr = s := by
  unfold runLife startUp
  cases hgate : ensureChainID cfg.chainId with
  | proceed => exact absurd hgate hg
  | fatal => simp
  | cancelled => simp

/-! ### the catch-up prefix of a life satisfies the provider hypotheses by itself -/

theorem map_upd_snoc (us : List SU) (u : SU) :
    (us ++ [u]).map Ev.upd = us.map Ev.upd ++ [Ev.upd u] := by simp

theorem mem_live_upds {us : List SU} {e : Stamped} (h : e ∈ live (us.map Ev.upd)) : e.2 ∈ us := by
  obtain ⟨a, b, hab, _, _, _⟩ := (mem_live_iff (us.map Ev.upd) e.1 e.2).mp h
  have : Ev.upd e.2 ∈ us.map Ev.upd := by rw [hab]; simp
  obtain ⟨u, hu, he⟩ := List.mem_map.mp this
  cases he
  exact hu

theorem upds_wellbehaved (us : List SU) (hn : ∀ u ∈ us, u.removed = false)
    (ho : ∀ x ∈ us, ∀ y ∈ us, x.l1 < y.l1 → x.l2 < y.l2) :
    FinMono (us.map Ev.upd) ∧ NoUnfinalise (us.map Ev.upd) ∧ L2Ordered (us.map Ev.upd) ∧
      lastFin (us.map Ev.upd) = none := by
  refine snoc_ind (P := fun us => (∀ u ∈ us, u.removed = false) →
    (∀ x ∈ us, ∀ y ∈ us, x.l1 < y.l1 → x.l2 < y.l2) →
    FinMono (us.map Ev.upd) ∧ NoUnfinalise (us.map Ev.upd) ∧ L2Ordered (us.map Ev.upd) ∧
      lastFin (us.map Ev.upd) = none) ?_ ?_ us hn ho
  · intro _ _
    exact ⟨finMono_nil, noUnfinalise_nil, l2Ordered_nil, rfl⟩
  · intro l u ih hn ho
    have hn' : ∀ v ∈ l, v.removed = false := fun v hv => hn v (List.mem_append_left _ hv)
    have ho' : ∀ x ∈ l, ∀ y ∈ l, x.l1 < y.l1 → x.l2 < y.l2 :=
      fun x hx y hy => ho x (List.mem_append_left _ hx) y (List.mem_append_left _ hy)
    obtain ⟨h1, h2, h3, h4⟩ := ih hn' ho'
    have hu : u.removed = false := hn u (by simp)
    rw [map_upd_snoc]
    refine ⟨finMono_snoc h1 (by intro F h; cases h), ?_, ?_, by rw [lastFin_snoc]; exact h4⟩
    · refine noUnfinalise_snoc h2 ?_
      intro r h hr
      cases h
      rw [hu] at hr; cases hr
    · refine l2Ordered_snoc h3 ?_
      rw [← map_upd_snoc]
      intro p hp q hq hlt
      exact ho _ (mem_live_upds hp) _ (mem_live_upds hq) hlt

theorem upds_tick_wellbehaved (us : List SU) (F : Nat) (hn : ∀ u ∈ us, u.removed = false)
    (ho : ∀ x ∈ us, ∀ y ∈ us, x.l1 < y.l1 → x.l2 < y.l2) :
    FinMono (us.map Ev.upd ++ [Ev.tick F]) ∧ NoUnfinalise (us.map Ev.upd ++ [Ev.tick F]) ∧
      L2Ordered (us.map Ev.upd ++ [Ev.tick F]) := by
  obtain ⟨h1, h2, h3, h4⟩ := upds_wellbehaved us hn ho
  refine ⟨finMono_snoc h1 ?_, noUnfinalise_snoc h2 (by intro r h; cases h), l2Ordered_snoc h3 ?_⟩
  · intro F' _ F'' hF''
    rw [h4] at hF''; cases hF''
  · have hl : live (us.map Ev.upd ++ [Ev.tick F]) = live (us.map Ev.upd) := by rw [live_snoc]; rfl
    rw [hl]
    intro p hp q hq hlt
    exact ho _ (mem_live_upds hp) _ (mem_live_upds hq) hlt

/-- Everything the scan applies is a log of the provider's history. -/
theorem applied_sub_hist (hist : List SU) (fin chunk : Nat) (failAt : Option Nat)
    (to calls : Nat) (buf : Buf) (q : List (Nat × Nat)) (ap : List SU) :
    ∀ u ∈ (catchUpLoop hist fin chunk failAt to calls buf q ap).applied, u ∈ ap ∨ u ∈ hist := by
  fun_induction catchUpLoop hist fin chunk failAt to calls buf q ap with
  | case1 => intro u hu; exact Or.inl hu
  | case2 => intro u hu; exact Or.inl hu
  | case3 to calls buf q ap hc frm q' hfail events buf' found hstop =>
    intro u hu
    rcases List.mem_append.mp hu with h | h
    · exact Or.inl h
    · exact Or.inr (mem_filterLogs.mp h).1
  | case4 to calls buf q ap hc frm q' hfail events buf' found hstop ih =>
    intro u hu
    rcases ih u hu with h | h
    · rcases List.mem_append.mp h with h | h
      · exact Or.inl h
      · exact Or.inr (mem_filterLogs.mp h).1
    · exact Or.inr h

theorem startUpTrace_wellbehaved (s : State) (cfg : Startup) (la f1 : Nat)
    (hn : ∀ u ∈ cfg.hist, u.removed = false)
    (ho : ∀ x ∈ cfg.hist, ∀ y ∈ cfg.hist, x.l1 < y.l1 → x.l2 < y.l2) :
    FinMono (startUpTrace s cfg la f1) ∧ NoUnfinalise (startUpTrace s cfg la f1) ∧
      L2Ordered (startUpTrace s cfg la f1) := by
  have hsub : ∀ u ∈ (catchUpLoop cfg.hist f1 cfg.chunk cfg.failAt la 0 s.buf [] []).applied,
      u ∈ cfg.hist := by
    intro u hu
    rcases applied_sub_hist cfg.hist f1 cfg.chunk cfg.failAt la 0 s.buf [] [] u hu with h | h
    · cases h
    · exact h
  have hn' := fun u hu => hn u (hsub u hu)
  have ho' := fun x hx y hy => ho x (hsub x hx) y (hsub y hy)
  unfold startUpTrace
  simp only
  split
  · exact upds_tick_wellbehaved _ _ hn' ho'
  · obtain ⟨h1, h2, h3, _⟩ := upds_wellbehaved _ hn' ho'
    exact ⟨h1, h2, h3⟩

/-! ### the feed -/

def subRun (s : Subscriber) (ops : List FeedOp) : Subscriber := ops.foldl Subscriber.step s

theorem feed_invariant (ops : List FeedOp) :
    ∀ (s : Subscriber) (pre : List Head), (s.received ++ s.slot.toList).Sublist pre →
      ((subRun s ops).received ++ (subRun s ops).slot.toList).Sublist (pre ++ sentOf ops) := by
  induction ops with
  | nil => intro s pre h; simpa [subRun, sentOf] using h
  | cons op t ih =>
    intro s pre h
    have hrun : subRun s (op :: t) = subRun (s.step op) t := rfl
    rw [hrun]
    cases op with
    | send x =>
      have : pre ++ sentOf (FeedOp.send x :: t) = (pre ++ [x]) ++ sentOf t := by simp [sentOf]
      rw [this]
      apply ih
      cases hs : s.slot with
      | none =>
        rw [hs] at h
        simp only [Subscriber.step, hs, Option.toList, List.append_nil] at h ⊢
        exact List.Sublist.append h (List.Sublist.refl _)
      | some y =>
        simp only [Subscriber.step, hs]
        rw [hs] at h
        exact List.Sublist.trans h (List.sublist_append_left _ _)
    | recv =>
      have : pre ++ sentOf (FeedOp.recv :: t) = pre ++ sentOf t := by simp [sentOf]
      rw [this]
      apply ih
      cases hs : s.slot with
      | none =>
        simp only [Subscriber.step, hs]
        rw [hs] at h
        exact h
      | some y =>
        rw [hs] at h
        simp only [Subscriber.step, hs, Option.toList, List.append_nil] at h ⊢
        simpa using h

end Juno.C17
