import JunoModel.C17.ProofsTrace
/-!
C17 — helper lemmas, part 3: what the stored head is, for the code as it is (`guard = false`)
under the delivery-order hypothesis, and for the repaired variant (`guard = true`) without it.
-/
namespace Juno.C17

/-- Consumed: live, and already taken out of the buffer by a poll. -/
def Consumed (tr : List Ev) (e : Stamped) : Prop := e ∈ live tr ∧ e ∉ pend tr

theorem step_upd_head (g : Bool) (s : State) (u : SU) : (step g s (.upd u)).head = s.head := rfl

theorem consumed_upd {g : Bool} {h0 : Option Head} {tr : List Ev} {u : SU} (hr : u.removed = false) (e : Stamped) :
    Consumed (tr ++ [.upd u]) e ↔ Consumed tr e := by
  have hb := basic g h0 tr
  unfold Consumed
  rw [live_snoc, pend_snoc]
  simp only [liveStep, pendStep, hr, Bool.false_eq_true, if_false, List.mem_cons]
  constructor
  · rintro ⟨h1, h2⟩
    rcases h1 with h1 | h1
    · exact absurd (Or.inl h1) h2
    · exact ⟨h1, fun h => h2 (Or.inr h)⟩
  · rintro ⟨h1, h2⟩
    refine ⟨Or.inr h1, ?_⟩
    rintro (h | h)
    · have := hb.stamp e h1
      rw [h] at this
      simp at this
    · exact h2 h

theorem consumed_other {tr : List Ev} {x : Ev} (e : Stamped)
    (hl : liveStep (live tr) tr.length x = live tr) (hp : pendStep (pend tr) tr.length x = pend tr) :
    Consumed (tr ++ [x]) e ↔ Consumed tr e := by
  unfold Consumed
  rw [live_snoc, pend_snoc, hl, hp]

structure HeadInv (h0 : Option Head) (tr : List Ev) : Prop where
  consumed_le : ∀ e, Consumed tr e → ∃ F, lastFin tr = some F ∧ e.2.l1 ≤ F
  order : ∀ p ∈ pend tr, ∀ c, Consumed tr c → lexLe c p
  head : ((∀ e ∈ live tr, e ∈ pend tr) ∧ (run false (State.init h0) tr).head = h0) ∨
    ∃ e, Consumed tr e ∧ (∀ c, Consumed tr c → lexLe c e) ∧
      (run false (State.init h0) tr).head = some e.2.toHead

theorem headInv_nil (h0 : Option Head) : HeadInv h0 [] := by
  refine ⟨?_, ?_, Or.inl ⟨?_, rfl⟩⟩
  · intro e he; simp [Consumed, live_nil] at he
  · intro p hp; simp [pend_nil] at hp
  · intro e he; simp [live_nil] at he

theorem headInv_snoc {h0 : Option Head} {tr : List Ev} (x : Ev)
    (hF : FinMono (tr ++ [x])) (hU : NoUnfinalise (tr ++ [x])) (hO : InOrder (tr ++ [x]))
    (h : HeadInv h0 tr) : HeadInv h0 (tr ++ [x]) := by
  have hb := basic false h0 tr
  cases x with
  | upd u =>
    by_cases hr : u.removed = true
    · -- removal notice: nothing consumed is affected
      have hcons : ∀ e, Consumed (tr ++ [.upd u]) e ↔ Consumed tr e := by
        intro e
        unfold Consumed
        rw [live_snoc, pend_snoc]
        simp only [liveStep, pendStep, hr, if_true, List.mem_filter, decide_eq_true_eq]
        constructor
        · rintro ⟨⟨h1, h2⟩, h3⟩
          exact ⟨h1, fun hp => h3 ⟨hp, h2⟩⟩
        · rintro ⟨h1, h2⟩
          obtain ⟨F, hF', hle⟩ := h.consumed_le e ⟨h1, h2⟩
          have := hU tr u [] rfl hr F hF'
          exact ⟨⟨h1, by omega⟩, fun hp => h2 hp.1⟩
      refine ⟨?_, ?_, ?_⟩
      · intro e he
        rw [lastFin_snoc]; simp only [finStep]
        exact h.consumed_le e ((hcons e).mp he)
      · intro p hp c hc
        rw [pend_snoc] at hp
        simp only [pendStep, hr, if_true, List.mem_filter] at hp
        exact h.order p hp.1 c ((hcons c).mp hc)
      · rw [run_snoc, step_upd_head]
        rcases h.head with ⟨hall, hh⟩ | ⟨e, he, hmax, hh⟩
        · refine Or.inl ⟨?_, hh⟩
          intro e he
          rw [live_snoc] at he; rw [pend_snoc]
          simp only [liveStep, pendStep, hr, if_true, List.mem_filter] at he ⊢
          exact ⟨hall e he.1, he.2⟩
        · exact Or.inr ⟨e, (hcons e).mpr he, fun c hc => hmax c ((hcons c).mp hc), hh⟩
    · have hr' : u.removed = false := by simpa using hr
      have hcons := fun e => consumed_upd (g := false) (h0 := h0) (tr := tr) hr' e
      refine ⟨?_, ?_, ?_⟩
      · intro e he
        rw [lastFin_snoc]; simp only [finStep]
        exact h.consumed_le e ((hcons e).mp he)
      · intro p hp c hc
        have hc' := (hcons c).mp hc
        rw [pend_snoc] at hp
        simp only [pendStep, hr', Bool.false_eq_true, if_false, List.mem_cons] at hp
        rcases hp with hp | hp
        · obtain ⟨F, hF', hle⟩ := h.consumed_le c hc'
          have h1 := hO tr u [] rfl hr' F hF' c hc'.1 hle
          have h2 := hb.stamp c hc'.1
          subst hp
          unfold lexLe
          simp only
          omega
        · exact h.order p hp c hc'
      · rw [run_snoc, step_upd_head]
        rcases h.head with ⟨hall, hh⟩ | ⟨e, he, hmax, hh⟩
        · refine Or.inl ⟨?_, hh⟩
          intro e he
          rw [live_snoc] at he; rw [pend_snoc]
          simp only [liveStep, pendStep, hr', Bool.false_eq_true, if_false, List.mem_cons] at he ⊢
          rcases he with he | he
          · exact Or.inl he
          · exact Or.inr (hall e he)
        · exact Or.inr ⟨e, (hcons e).mpr he, fun c hc => hmax c ((hcons c).mp hc), hh⟩
  | tick F =>
    have hcons : ∀ e, Consumed (tr ++ [.tick F]) e ↔
        (Consumed tr e ∨ (e ∈ pend tr ∧ e.2.l1 ≤ F)) := by
      intro e
      unfold Consumed
      rw [live_snoc, pend_snoc]
      simp only [liveStep, pendStep, List.mem_filter, Bool.not_eq_true', decide_eq_false_iff_not]
      constructor
      · rintro ⟨h1, h2⟩
        by_cases hp : e ∈ pend tr
        · refine Or.inr ⟨hp, ?_⟩
          apply Classical.byContradiction
          intro hn; exact h2 ⟨hp, hn⟩
        · exact Or.inl ⟨h1, hp⟩
      · rintro (⟨h1, h2⟩ | ⟨h1, h2⟩)
        · exact ⟨h1, fun hp => h2 hp.1⟩
        · exact ⟨hb.sub e h1, fun hp => hp.2 h2⟩
    refine ⟨?_, ?_, ?_⟩
    · intro e he
      rw [lastFin_snoc]; simp only [finStep]
      refine ⟨F, rfl, ?_⟩
      rcases (hcons e).mp he with hc | hc
      · obtain ⟨F', hF', hle⟩ := h.consumed_le e hc
        have := hF tr F [] rfl F' hF'
        omega
      · exact hc.2
    · intro p hp c hc
      rw [pend_snoc] at hp
      simp only [pendStep, List.mem_filter, Bool.not_eq_true', decide_eq_false_iff_not] at hp
      rcases (hcons c).mp hc with hc | hc
      · exact h.order p hp.1 c hc
      · exact Or.inl (by omega)
    · rw [run_snoc]
      simp only [step, setL1Head, skipCandidate, Bool.false_and, Bool.false_eq_true, if_false]
      cases hpm : pickMax F (run false (State.init h0) tr).buf with
      | none =>
        have hnone := pickMax_pend_none hpm
        have hsame : ∀ e, Consumed (tr ++ [.tick F]) e ↔ Consumed tr e := by
          intro e
          rw [hcons]
          constructor
          · rintro (hc | hc)
            · exact hc
            · exact absurd hc.2 (hnone e hc.1)
          · exact Or.inl
        simp only
        rcases h.head with ⟨hall, hh⟩ | ⟨e, he, hmax, hh⟩
        · refine Or.inl ⟨?_, hh⟩
          intro e he
          rw [live_snoc] at he; rw [pend_snoc]
          simp only [liveStep, pendStep, List.mem_filter, Bool.not_eq_true',
            decide_eq_false_iff_not] at he ⊢
          exact ⟨hall e he, hnone e (hall e he)⟩
        · exact Or.inr ⟨e, (hsame e).mpr he, fun c hc => hmax c ((hsame c).mp hc), hh⟩
      | some u =>
        obtain ⟨n, hn, huF, hmaxP⟩ := pickMax_pend_some hpm
        simp only
        refine Or.inr ⟨(n, u), (hcons _).mpr (Or.inr ⟨hn, huF⟩), ?_, rfl⟩
        intro c hc
        rcases (hcons c).mp hc with hc | hc
        · exact h.order _ hn c hc
        · exact hmaxP c hc.1 hc.2
  | subErr =>
    have hcons := fun e => consumed_other (tr := tr) (x := .subErr) e rfl rfl
    refine ⟨?_, ?_, ?_⟩
    · intro e he; rw [lastFin_snoc]; exact h.consumed_le e ((hcons e).mp he)
    · intro p hp c hc; rw [pend_snoc] at hp; exact h.order p hp c ((hcons c).mp hc)
    · rw [run_snoc]
      rcases h.head with ⟨hall, hh⟩ | ⟨e, he, hmax, hh⟩
      · refine Or.inl ⟨?_, hh⟩
        intro e he; rw [live_snoc] at he; rw [pend_snoc]; exact hall e he
      · exact Or.inr ⟨e, (hcons e).mpr he, fun c hc => hmax c ((hcons c).mp hc), hh⟩
  | resub ok =>
    have hcons := fun e => consumed_other (tr := tr) (x := .resub ok) e rfl rfl
    refine ⟨?_, ?_, ?_⟩
    · intro e he; rw [lastFin_snoc]; exact h.consumed_le e ((hcons e).mp he)
    · intro p hp c hc; rw [pend_snoc] at hp; exact h.order p hp c ((hcons c).mp hc)
    · rw [run_snoc]
      rcases h.head with ⟨hall, hh⟩ | ⟨e, he, hmax, hh⟩
      · refine Or.inl ⟨?_, hh⟩
        intro e he; rw [live_snoc] at he; rw [pend_snoc]; exact hall e he
      · exact Or.inr ⟨e, (hcons e).mpr he, fun c hc => hmax c ((hcons c).mp hc), hh⟩
  | finErr =>
    have hcons := fun e => consumed_other (tr := tr) (x := .finErr) e rfl rfl
    refine ⟨?_, ?_, ?_⟩
    · intro e he; rw [lastFin_snoc]; exact h.consumed_le e ((hcons e).mp he)
    · intro p hp c hc; rw [pend_snoc] at hp; exact h.order p hp c ((hcons c).mp hc)
    · rw [run_snoc]
      rcases h.head with ⟨hall, hh⟩ | ⟨e, he, hmax, hh⟩
      · refine Or.inl ⟨?_, hh⟩
        intro e he; rw [live_snoc] at he; rw [pend_snoc]; exact hall e he
      · exact Or.inr ⟨e, (hcons e).mpr he, fun c hc => hmax c ((hcons c).mp hc), hh⟩

theorem headInv (h0 : Option Head) (tr : List Ev) :
    FinMono tr → NoUnfinalise tr → InOrder tr → HeadInv h0 tr := by
  refine snoc_ind (P := fun tr => FinMono tr → NoUnfinalise tr → InOrder tr → HeadInv h0 tr)
    (fun _ _ _ => headInv_nil h0) ?_ tr
  intro l x ih hF hU hO
  exact headInv_snoc x hF hU hO (ih hF.prefix hU.prefix hO.prefix)

end Juno.C17
