import JunoModel.C17.Model
/-!
C17 — vocabulary of the property, over the chronological trace `tr : List Ev` of inputs the
client's event loop has processed (core Lean only; nothing here is used by the driver).

* `live tr`      the delivered events that were not subsequently reported removed, each with the
                 position at which it was delivered (`mem_live_iff` in `Props` is the
                 declarative reading);
* `lastFin tr`   the finalised height reported by the last poll;
* `IsTop F L e`  `e` is the event of `L` with the highest L1 block at or below `F`
                 (several events in that block: the one delivered last);
* the provider hypotheses `FinMono`, `NoUnfinalise`, `InOrder`, `L2Ordered`, `L2OrderedStrict`.
-/
namespace Juno.C17

/-- A delivered event together with its position in the trace. -/
abbrev Stamped := Nat × SU

def liveStep (L : List Stamped) (n : Nat) : Ev → List Stamped
  | .upd u => if u.removed then L.filter (fun e => decide (e.2.l1 < u.l1)) else (n, u) :: L
  | _ => L

def liveR : List Ev → List Stamped
  | [] => []
  | e :: older => liveStep (liveR older) older.length e

/-- Delivered and not (yet) reported removed: a removal notice for L1 block `b` means that the
blocks from `b` on were reorged, so it retires every event delivered before it at or above `b`
(for a provider that reports every reorged log this is the same as retiring exactly the logs
named by notices). -/
def live (tr : List Ev) : List Stamped := liveR tr.reverse

def finStep (f : Option Nat) : Ev → Option Nat
  | .tick F => some F
  | _ => f

def lastFinR : List Ev → Option Nat
  | [] => none
  | e :: older => finStep (lastFinR older) e

/-- The finalised height the L1 node reported at the last poll (`none`: no poll yet). -/
def lastFin (tr : List Ev) : Option Nat := lastFinR tr.reverse

/-- Order on delivered events: by L1 block, then by delivery position. -/
def lexLe (a b : Stamped) : Prop := a.2.l1 < b.2.l1 ∨ (a.2.l1 = b.2.l1 ∧ a.1 ≤ b.1)

/-- `e` is the event of `L` with the highest L1 block at or below `F`; among several events of
that block the one delivered last. -/
def IsTop (F : Nat) (L : List Stamped) (e : Stamped) : Prop :=
  e ∈ L ∧ e.2.l1 ≤ F ∧ ∀ c ∈ L, c.2.l1 ≤ F → lexLe c e

/-- The L1 node never un-finalises: the finalised heights it reports never decrease. -/
def FinMono (tr : List Ev) : Prop :=
  ∀ a F b, tr = a ++ Ev.tick F :: b → ∀ F', lastFin a = some F' → F' ≤ F

/-- … and it never reports a log at or below a finalised height as removed. -/
def NoUnfinalise (tr : List Ev) : Prop :=
  ∀ a r b, tr = a ++ Ev.upd r :: b → r.removed = true → ∀ F, lastFin a = some F → F < r.l1

/-- Delivery-order hypothesis (NOT among the assumptions the property grants; the code at the
pinned commit needs it): an update is never delivered below a live event that is already at or
below the last reported finalised height. Delivery in non-decreasing L1 order implies it. -/
def InOrder (tr : List Ev) : Prop :=
  ∀ a u b, tr = a ++ Ev.upd u :: b → u.removed = false →
    ∀ F, lastFin a = some F → ∀ c ∈ live a, c.2.l1 ≤ F → c.2.l1 ≤ u.l1

/-- The live events are consistent with one canonical L1 chain on which the core contract
accepts state updates sequentially: a later L1 block commits a later Starknet block. -/
def L2Ordered (tr : List Ev) : Prop :=
  ∀ a b, tr = a ++ b → ∀ x ∈ live a, ∀ y ∈ live a, x.2.l1 < y.2.l1 → x.2.l2 < y.2.l2

/-- `L2Ordered`, and inside one L1 block the events are delivered in log order. -/
def L2OrderedStrict (tr : List Ev) : Prop :=
  L2Ordered tr ∧
  ∀ a b, tr = a ++ b → ∀ x ∈ live a, ∀ y ∈ live a, x.2.l1 = y.2.l1 → x.1 ≤ y.1 → x.2.l2 ≤ y.2.l2

end Juno.C17
