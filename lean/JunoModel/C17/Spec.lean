import JunoModel.C17.Model
/-!
C17 — vocabulary of the property, over the chronological trace `tr : List Ev` of inputs the
client's event loop has processed (core Lean only; nothing here is used by the driver).

* `live tr`      the delivered events that were not subsequently reported removed, each with the
                 position at which it was delivered (`mem_live_iff` in `Props` is the
                 declarative reading);
* `lastFin tr`   the finalised height reported by the last poll;
* `IsTop F L e`  `e` is the event of `L` with the highest L1 block at or below `F`
                 (several events in that block: the one delivered last);
* the provider hypotheses `FinMono`, `NoUnfinalise`, `InOrder`, `L2Ordered`, `L2OrderedStrict`.
-/
namespace Juno.C17

/-- A delivered event together with its position in the trace. -/
abbrev Stamped := Nat × SU

def liveStep (L : List Stamped) (n : Nat) : Ev → List Stamped
  | .upd u => if u.removed then L.filter (fun e => decide (e.2.l1 < u.l1)) else (n, u) :: L
  | _ => L

def liveR : List Ev → List Stamped
  | [] => []
  | e :: older => liveStep (liveR older) older.length e

/-- Order on delivered events: by L1 block, then by delivery position. -/
def lexLe (a b : Stamped) : Prop := a.2.l1 < b.2.l1 ∨ (a.2.l1 = b.2.l1 ∧ a.1 ≤ b.1)

/-- What the CLIENT can still regard as valid: a removal notice for L1 block `b` retires every
event delivered before it at or above `b` (this is `applyStateUpdate`'s deletion rule lifted to the
whole history). It is NOT the property's notion — that is `LiveExact` below; `live ⊆ LiveExact`
always (`live_sub_exact`), and they coincide on `Settled` traces (`live_iff_exact`). -/
def live (tr : List Ev) : List Stamped := liveR tr.reverse

/-- The removal notice `r` names the log `u` (same L1 block, same committed Starknet block). -/
def sameLog (r u : SU) : Prop := r.l1 = u.l1 ∧ r.l2 = u.l2 ∧ r.hash = u.hash ∧ r.root = u.root

/-- THE PROPERTY'S NOTION: the update `u` was delivered at position `n` and was not subsequently
reported as removed, i.e. no later removal notice names it. -/
def LiveExact (tr : List Ev) (n : Nat) (u : SU) : Prop :=
  ∃ a b, tr = a ++ Ev.upd u :: b ∧ a.length = n ∧ u.removed = false ∧
    ∀ r, Ev.upd r ∈ b → r.removed = true → ¬ sameLog r u

/-- `(n, u)` is the delivered, not removed event with the highest L1 block at or below `F`
(several events in that block: the one delivered last). -/
def IsTopExact (F : Nat) (tr : List Ev) (n : Nat) (u : SU) : Prop :=
  LiveExact tr n u ∧ u.l1 ≤ F ∧ ∀ m v, LiveExact tr m v → v.l1 ≤ F → lexLe (m, v) (n, u)

/-- Removal-order assumption (NOT granted by the property, which only says that the removal
notices of reorged logs are delivered): whenever a removal notice at or below the L1 block of an
earlier delivered log has arrived, that log has been named by a notice too. It holds when all
removal notices of a reorg arrive before the logs of the replacement chain; it fails when a
replacement log overtakes a notice (`head_spec_needs_removal_order`). -/
def Settled (tr : List Ev) : Prop :=
  ∀ a u b, tr = a ++ Ev.upd u :: b → u.removed = false →
    (∃ r, Ev.upd r ∈ b ∧ r.removed = true ∧ r.l1 ≤ u.l1) →
    ∃ r, Ev.upd r ∈ b ∧ r.removed = true ∧ sameLog r u

def finStep (f : Option Nat) : Ev → Option Nat
  | .tick F => some F
  | _ => f

def lastFinR : List Ev → Option Nat
  | [] => none
  | e :: older => finStep (lastFinR older) e

/-- The finalised height the L1 node reported at the last poll (`none`: no poll yet). -/
def lastFin (tr : List Ev) : Option Nat := lastFinR tr.reverse

/-- `e` is the event of `L` with the highest L1 block at or below `F`; among several events of
that block the one delivered last. -/
def IsTop (F : Nat) (L : List Stamped) (e : Stamped) : Prop :=
  e ∈ L ∧ e.2.l1 ≤ F ∧ ∀ c ∈ L, c.2.l1 ≤ F → lexLe c e

/-- The L1 node never un-finalises: the finalised heights it reports never decrease. -/
def FinMono (tr : List Ev) : Prop :=
  ∀ a F b, tr = a ++ Ev.tick F :: b → ∀ F', lastFin a = some F' → F' ≤ F

/-- … and it never reports a log at or below a finalised height as removed. -/
def NoUnfinalise (tr : List Ev) : Prop :=
  ∀ a r b, tr = a ++ Ev.upd r :: b → r.removed = true → ∀ F, lastFin a = some F → F < r.l1

/-- Delivery-order hypothesis (NOT among the assumptions the property grants; the code at the
pinned commit needs it): an update is never delivered below a live event that is already at or
below the last reported finalised height. Delivery in non-decreasing L1 order implies it. -/
def InOrder (tr : List Ev) : Prop :=
  ∀ a u b, tr = a ++ Ev.upd u :: b → u.removed = false →
    ∀ F, lastFin a = some F → ∀ c ∈ live a, c.2.l1 ≤ F → c.2.l1 ≤ u.l1

/-- The live events are consistent with one canonical L1 chain on which the core contract
accepts state updates sequentially: a later L1 block commits a later Starknet block. -/
def L2Ordered (tr : List Ev) : Prop :=
  ∀ a b, tr = a ++ b → ∀ x ∈ live a, ∀ y ∈ live a, x.2.l1 < y.2.l1 → x.2.l2 < y.2.l2

/-- `L2Ordered`, and inside one L1 block the events are delivered in log order. -/
def L2OrderedStrict (tr : List Ev) : Prop :=
  L2Ordered tr ∧
  ∀ a b, tr = a ++ b → ∀ x ∈ live a, ∀ y ∈ live a, x.2.l1 = y.2.l1 → x.1 ≤ y.1 → x.2.l2 ≤ y.2.l2

end Juno.C17
