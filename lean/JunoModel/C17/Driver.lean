import JunoModel.Common.Proto
import JunoModel.C17.Model
import JunoModel.C17.ModelGlue
import JunoModel.C17.ModelCache
import JunoModel.C17.ModelLoop
/-! Line-protocol driver for the C17 model (`lake build c17drv`). All numbers are hex.

* `new <guard 0|1> none | new <guard> <l2> <hash> <root>`  fresh client, stored head as given → `ok`
* `upd <l2> <hash> <root> <l1> <removed 0|1>`             a value on the update channel → `ok`
* `tick <fin>`                                            poll + `setL1Head` → `head=<h> note=<h>`
* `fwd <blockNumber> <blockHash> <globalRoot> <l1> <removed>`  raw L1 log through the geth layer
                                                          → `su <l2> <hash> <root> <l1> <removed>`
* `life <oneshot 0|1> <chain-id answers e|o|m… or -> <latest|-> <fin1|-> <chunk|-> <failAt|none> <fin2>`
    executes `startUp` / `runLife` / `lifeNotes` / `lifeErr` on the stored head given to `new`, the
    `hist` lines and every event-loop input received since `new`; chunk `-` = no `WithCatchUpChunkSize`
    option (`newClientChunk {}`), otherwise `newClientChunk {chunk := some c}`
        → `gate=proceed|fatal|cancelled head=<h> notes=<h,h,…|-> err=none|mismatch|provider`
* `poll <x|fin> <x|fin> …`   `pollStep`: `setL1Head` behind `finalisedHeight`'s retry loop, one answer per
    `FinalisedHeight` attempt (`x` = error — not a hex digit; no answer left = context ended)
        → `calls=<n> head=<h> note=<h>`
* `sub <0|1> …`             `subscribeLoop` on the outcomes of the `WatchStateUpdate` attempts → `attempt=<k|none>`
* `pipenew` → `ok`; `pipe <tok> …` runs `Pipe.step` on the hand-off chain of a live subscription; tokens:
    `a<n>` the node pushes the next n raw logs (from the `raw` lines), `f<n>`/`t<n>`/`p<n>`/`c<n>` n times
    feed/take/put/consume, `r<n>` n rounds of [feed, take, put] (forwarder side runs, client stalled),
    `d<n>` n rounds of [consume, put, take, feed] → `out=<n> sink=<n> hand=<0|1> ch=<n> up=<n>`;
    `pipeout` → what the client has received, `su …|su …` or `-`
* `verified <n>`            `isL1Verified n` on the stored head → `0|1`
* `catchupfault <latest> <fin1> <chunk> <failAt|none> <fin2> <r|w>`  catch-up whose final `setL1Head`
    hits a failing database                              → `res=<r> q=… head=<h> feed=<h>`
* `tickfault <fin> <r|w>`   `setL1Head` with a failing stored-head read / write
                                                          → `head=<h> feed=<h> fatal=<0|1>`
* `raw <blockNumber> <blockHash> <globalRoot> <l1> <removed>` → `ok`; `fwdstream` executes
    `forwardStream` on the raw logs received since the last one → `su …|su …` or `-`
* `feednew` | `feedsend <l2> <hash> <root>` | `feedrecv` → `ok`; `feedgot` → received heads (`Subscriber.step`)
* `head`                                                   → `head=<h>` (stored head, no transition)
* `suberr` | `resub <0|1>` | `finerr`                     → `ok` (identity transitions)
* `hist <l2> <hash> <root> <l1> <removed>` / `histclear`  provider log history for catch-up → `ok`
* `cache <d|p|c> <init head|none> <heads set, comma separated|-> <calls per reader, comma separated|-> <token> …`
    the recorded head under concurrent use (`Sys`, ModelCache.lean): policy d = the code as it is (no cache),
    p = read-through memo published by a plain store, c = published by compare-and-swap; tokens `w.i` / `r<k>.i`
    (the SetL1Head goroutine / reader k runs up to its next database operation) and `w.o` / `r<k>.o` (it performs
    exactly that database operation)  → `db=<h> cache=<h> serve=<h> feed=<n> done=<n> got=<h,h,…|->|…`
    or `err:no-db-op-at-token-<k>` when an `.o` token meets a goroutine that is not about to access the database
* `loopstart` → `ok`: the state the event loop starts from is the current one (after `new` / `catchup`);
  `lev <l2> <hash> <root> <l1> <removed>` → `ok`: next value a producer will put on `updateCh`;
  `loop <token> …` runs `Loop.step` (ModelLoop.lean: channel, subscription bookkeeping) from that state; tokens:
    `w<bits>` `watchL1StateUpdates`' first `subscribeToUpdates` (one bit per `WatchStateUpdate` attempt, 1 = ok;
    no 1 = the context ended first), `p<n>` the producers put the next n values on the channel, `r<n>` the loop
    receives n values, `e<bits>` the loop takes the subscription-error case (Unsubscribe, then the attempts),
    `t<ans/ans/…>` the loop takes the ticker case (`x` = failed `FinalisedHeight` attempt, hex = answer; none =
    the context ended), `c` the loop takes the `ctx.Done()` case
      → `head=<h> notes=<h,…|-> sub=<k|none> nsubs=<n> unsub=<k,k,…|-> chan=<n> applied=<n> pushed=<n> ret=<0|1>`
* `chunkfrom <to> <chunk>` → `<from>`: `chunkFromU64` (Go's wrapping `uint64` arithmetic, executed on `UInt64`)
* `gethfin <h:n|n|f> …` → `calls=<n> fin=<f|none>`: `GethL1StateProvider.FinalisedHeight` answers (header n / not
  found / failed) behind `finalisedHeight`'s retry loop
* `catchup <latest> <fin1> <chunk|-> <failAt|none> <fin2>`  → `res=<r> q=<from-to,…|-> head=<h> note=<h>`
  where `<h>` is `none` or `l2:hash:root`.
-/
open Juno.Proto Juno.C17

structure DState where
  guard : Bool := false
  st : State := State.init none
  hist : List SU := []
  init : Option Head := none      -- the head stored before the life started
  trace : List Ev := []           -- every event-loop input of this life, newest first
  raws : List RawLog := []        -- raw L1 logs pushed through the geth layer, newest first
  sub : Subscriber := {}          -- one subscriber of the L1-head feed
  pipe : Pipe := {}               -- the hand-off chain of a live subscription
  loopSt : State := State.init none   -- the state the event loop starts from (`loopstart`)
  levs : List SU := []            -- values the producers will put on `updateCh`, newest first

def fmtHead : Option Head → String
  | none => "none"
  | some h => natToHex h.l2 ++ ":" ++ natToHex h.hash ++ ":" ++ natToHex h.root

def bool? (s : String) : Option Bool :=
  if s == "0" then some false else if s == "1" then some true else none

def su? (a b c d e : String) : Option SU := do
  let l2 ← hexToNat? a
  let h ← hexToNat? b
  let r ← hexToNat? c
  let l1 ← hexToNat? d
  let rm ← bool? e
  pure ⟨l2, h, r, l1, rm⟩

def fmtQueries (qs : List (Nat × Nat)) : String :=
  if qs.isEmpty then "-" else
  ",".intercalate (qs.map (fun q => natToHex q.1 ++ "-" ++ natToHex q.2))

/-- `-` = the option was not given to `NewClient`. -/
def chunk? (x : String) : Option Nat :=
  if x == "-" then some (newClientChunk {}) else (hexToNat? x).map fun c => newClientChunk { chunk := some c }

def fmtHeads (l : List Head) : String :=
  if l.isEmpty then "-" else ",".intercalate (l.map fun h => fmtHead (some h))

def fmtErr : ErrClass → String
  | .none => "none"
  | .mismatch => "mismatch"
  | .provider => "provider"

def answers? : List String → Option (List (Option Nat))
  | [] => some []
  | x :: t => do
    let r ← answers? t
    if x == "x" then pure (none :: r) else do
      let f ← hexToNat? x
      pure (some f :: r)

def bools? : List String → Option (List Bool)
  | [] => some []
  | x :: t => do
    let r ← bools? t
    let b ← bool? x
    pure (b :: r)

def fmtSU (u : SU) : String :=
  "su " ++ natToHex u.l2 ++ " " ++ natToHex u.hash ++ " " ++ natToHex u.root ++ " " ++
    natToHex u.l1 ++ " " ++ (if u.removed then "1" else "0")

/-- One token of a `pipe` schedule: the ops it stands for and the raw logs left. -/
def pipeTok (tok : String) (raws : List RawLog) : Option (List PipeOp × List RawLog) :=
  match tok.toList with
  | c :: ds =>
    match (String.mk ds).toNat? with
    | none => none
    | some n =>
      if c == 'a' then
        if n ≤ raws.length then some ((raws.take n).map PipeOp.arrive, raws.drop n) else none
      else if c == 'f' then some (List.replicate n .feed, raws)
      else if c == 't' then some (List.replicate n .take, raws)
      else if c == 'p' then some (List.replicate n .put, raws)
      else if c == 'c' then some (List.replicate n .consume, raws)
      else if c == 'r' then some ((List.replicate n [PipeOp.feed, .take, .put]).flatten, raws)
      else if c == 'd' then some ((List.replicate n [PipeOp.consume, .put, .take, .feed]).flatten, raws)
      else none
  | [] => none

def pipeToks : List String → List RawLog → Option (List PipeOp × List RawLog)
  | [], raws => some ([], raws)
  | t :: ts, raws => do
    let (o1, r1) ← pipeTok t raws
    let (o2, r2) ← pipeToks ts r1
    pure (o1 ++ o2, r2)

def head? (x : String) : Option (Option Head) :=
  if x == "none" then some none else
  match x.splitOn ":" with
  | [a, b, c] => do
    let a ← hexToNat? a
    let b ← hexToNat? b
    let c ← hexToNat? c
    pure (some ⟨a, b, c⟩)
  | _ => none

def heads? (x : String) : Option (List Head) :=
  if x == "-" then some [] else
  (x.splitOn ",").foldr (fun t acc => do
    let r ← acc
    match head? t with
    | some (some h) => pure (h :: r)
    | _ => none) (some [])

def nats? (x : String) : Option (List Nat) :=
  if x == "-" then some [] else
  (x.splitOn ",").foldr (fun t acc => do
    let r ← acc
    let n ← t.toNat?
    pure (n :: r)) (some [])

def seg? (tok : String) : Option Seg :=
  match tok.splitOn "." with
  | [who, kind] =>
    let t? : Option (Option Nat) :=
      if who == "w" then some none else
      match who.toList with
      | 'r' :: ds => (String.mk ds).toNat?.map some
      | _ => none
    match t?, kind with
    | some t, "i" => some (.upto t)
    | some t, "o" => some (.op t)
    | _, _ => none
  | _ => none

def segs? : List String → Option (List Seg)
  | [] => some []
  | t :: ts => do
    let s ← seg? t
    let r ← segs? ts
    pure (s :: r)

/-- Runs the tokens one by one; `Except` carries the index of the first `.o` token that does not apply. -/
def runSegs (p : CachePolicy) : Sys → Nat → List Seg → Except Nat Sys
  | σ, _, [] => .ok σ
  | σ, k, s :: rest =>
    match σ.seg p s with
    | some σ' => runSegs p σ' (k + 1) rest
    | none => .error k

def fmtGot (rs : List Reader) : String :=
  if rs.isEmpty then "-" else
  "|".intercalate (rs.map fun r => if r.got.isEmpty then "-" else ",".intercalate (r.got.map fmtHead))

def bits? (cs : List Char) : Option (List Bool) :=
  cs.foldr (fun c acc => do
    let r ← acc
    if c == '0' then pure (false :: r) else if c == '1' then pure (true :: r) else none) (some [])

/-- One `loop` token: the ops it stands for (none for `w`, which starts the loop) and the values left. -/
inductive LoopTok where
  | start (attempts : List Bool)
  | ops (l : List LoopOp)

def loopTok (tok : String) (evs : List SU) : Option (LoopTok × List SU) :=
  match tok.toList with
  | 'w' :: bs => (bits? bs).map fun a => (.start a, evs)
  | 'e' :: bs => (bits? bs).map fun a => (.ops [.subErr a], evs)
  | ['c'] => some (.ops [.cancel], evs)
  | 'p' :: ds =>
    match (String.mk ds).toNat? with
    | some n => if n ≤ evs.length then some (.ops ((evs.take n).map LoopOp.push), evs.drop n) else none
    | none => none
  | 'r' :: ds => (String.mk ds).toNat?.map fun n => (.ops (List.replicate n .recv), evs)
  | 't' :: rest =>
    let body := String.mk rest
    let parts := if body.isEmpty then [] else body.splitOn "/"
    (answers? parts).map fun a => (.ops [.tick a], evs)
  | _ => none

def runLoopToks (g : Bool) (st : State) : Option Loop → List String → List SU → Option Loop
  | l, [], _ => l
  | l, t :: ts, evs =>
    match loopTok t evs, l with
    | some (.start a, evs'), none => runLoopToks g st (some (Loop.start st a)) ts evs'
    | some (.ops os, evs'), some l => runLoopToks g st (some (l.run g os)) ts evs'
    | _, _ => none

def fmtNats (l : List Nat) : String :=
  if l.isEmpty then "-" else ",".intercalate (l.map toString)

def headerAns? (x : String) : Option HeaderAns :=
  if x == "n" then some .notFound else if x == "f" then some .failed else
  match x.splitOn ":" with
  | ["h", n] => (hexToNat? n).map .header
  | _ => none

def fmtRes : CatchUpResult → String
  | .complete => "complete"
  | .failed => "failed"
  | .hang => "hang"

def dstep (s : DState) (line : String) : DState × String :=
  match words line with
  | ["new", g, "none"] =>
    match bool? g with
    | some g => ({ guard := g, st := State.init none, hist := [], init := none }, "ok")
    | none => (s, "bad-op")
  | ["new", g, a, b, c] =>
    match bool? g, hexToNat? a, hexToNat? b, hexToNat? c with
    | some g, some a, some b, some c =>
      ({ guard := g, st := State.init (some ⟨a, b, c⟩), hist := [], init := some ⟨a, b, c⟩ }, "ok")
    | _, _, _, _ => (s, "bad-op")
  | ["upd", a, b, c, d, e] =>
    match su? a b c d e with
    | some u => ({ s with st := step s.guard s.st (.upd u), trace := .upd u :: s.trace }, "ok")
    | none => (s, "bad-op")
  | ["tick", f] =>
    match hexToNat? f with
    | some f =>
      let r := setL1Head s.guard s.st f
      ({ s with st := r.1, trace := .tick f :: s.trace },
        "head=" ++ fmtHead r.1.head ++ " note=" ++ fmtHead r.2)
    | none => (s, "bad-op")
  | ["fwd", a, b, c, d, e] =>
    match hexToNat? a, hexToNat? b, hexToNat? c, hexToNat? d, bool? e with
    | some n, some h, some r, some l1, some rm =>
      let u := decodeLog ⟨r, n, h, l1, rm⟩
      (s, "su " ++ natToHex u.l2 ++ " " ++ natToHex u.hash ++ " " ++ natToHex u.root ++ " " ++
        natToHex u.l1 ++ " " ++ (if u.removed then "1" else "0"))
    | _, _, _, _, _ => (s, "bad-op")
  | ["life", os, script, la, f1, ch, fa, f2] =>
    let ans? : Option (List ChainIdAns) := if script == "-" then some [] else
      script.toList.foldr (fun c acc => do
        let t ← acc
        if c == 'e' then pure (.err :: t) else if c == 'o' then pure (.ok :: t)
        else if c == 'm' then pure (.mismatch :: t) else none) (some [])
    let optNat? (x : String) : Option (Option Nat) :=
      if x == "-" || x == "none" then some none else (hexToNat? x).map some
    match bool? os, ans?, optNat? la, optNat? f1, chunk? ch, optNat? fa, hexToNat? f2 with
    | some os, some ans, some la, some f1, some ch, some fa, some f2 =>
      let cfg : Startup := ⟨ans, la, f1, s.hist, ch, fa, f2⟩
      let s0 := State.init s.init
      let su := startUp s.guard s0 cfg os
      let g := match su.2 with | .proceed => "proceed" | .fatal => "fatal" | .cancelled => "cancelled"
      let final := if os then su.1 else runLife s.guard s0 cfg s.trace.reverse
      (s, "gate=" ++ g ++ " head=" ++ fmtHead final.head ++
        " notes=" ++ fmtHeads (lifeNotes s.guard s0 cfg os s.trace.reverse) ++
        " err=" ++ fmtErr (lifeErr cfg os))
    | _, _, _, _, _, _, _ => (s, "bad-op")
  | "poll" :: xs =>
    match answers? xs with
    | some ans =>
      let r := pollStep s.guard s.st ans
      let l := finalisedHeightLoop ans
      let tr := (match l.1 with | some f => [Ev.tick f] | none => []) ++
        List.replicate (match l.1 with | some _ => l.2 - 1 | none => l.2) Ev.finErr ++ s.trace
      ({ s with st := r.1, trace := tr },
        "calls=" ++ toString l.2 ++ " head=" ++ fmtHead r.1.head ++ " note=" ++ fmtHead r.2)
    | none => (s, "bad-op")
  | "sub" :: xs =>
    match bools? xs with
    | some bs =>
      let k := subscribeLoop bs
      let n := match k with | some k => k | none => bs.length
      let tr := (match k with | some _ => [Ev.resub true] | none => []) ++ List.replicate n (Ev.resub false) ++ s.trace
      ({ s with trace := tr }, "attempt=" ++ (match k with | some k => toString k | none => "none"))
    | none => (s, "bad-op")
  | "cache" :: pol :: ini :: sets :: reads :: toks =>
    let p? : Option CachePolicy :=
      if pol == "d" then some .direct else if pol == "p" then some .publish
      else if pol == "c" then some .publishIfEmpty else none
    match p?, head? ini, heads? sets, nats? reads, segs? toks with
    | some p, some db0, some sets, some reads, some segs =>
      match runSegs p (Sys.init db0 sets reads) 0 segs with
      | .ok σ =>
        (s, "db=" ++ fmtHead σ.db ++ " cache=" ++ fmtHead σ.cache ++ " serve=" ++ fmtHead (σ.serve p) ++
          " feed=" ++ toString σ.feed.length ++ " done=" ++ toString σ.writer.done.length ++
          " got=" ++ fmtGot σ.readers)
      | .error k => (s, "err:no-db-op-at-token-" ++ toString k)
    | _, _, _, _, _ => (s, "bad-op")
  | ["loopstart"] => ({ s with loopSt := s.st, levs := [] }, "ok")
  | ["lev", a, b, c, d, e] =>
    match su? a b c d e with
    | some u => ({ s with levs := u :: s.levs }, "ok")
    | none => (s, "bad-op")
  | "loop" :: toks =>
    match runLoopToks s.guard s.loopSt none toks s.levs.reverse with
    | some l =>
      (s, "head=" ++ fmtHead l.st.head ++ " notes=" ++ fmtHeads l.notes ++
        " sub=" ++ (match l.sub with | some k => toString k | none => "none") ++
        " nsubs=" ++ toString l.nsubs ++ " unsub=" ++ fmtNats l.unsub ++
        " chan=" ++ toString l.chan.length ++ " applied=" ++ toString l.applied.length ++
        " pushed=" ++ toString l.pushed.length ++ " ret=" ++ (if l.returned then "1" else "0"))
    | none => (s, "bad-op")
  | ["chunkfrom", to, ch] =>
    match hexToNat? to, hexToNat? ch with
    | some to, some ch =>
      if to < 2 ^ 64 ∧ ch < 2 ^ 64 then
        (s, natToHex (chunkFromU64 (UInt64.ofNat to) (UInt64.ofNat ch)).toNat)
      else (s, "bad-op")
    | _, _ => (s, "bad-op")
  | "gethfin" :: xs =>
    let as? : Option (List HeaderAns) := xs.foldr (fun x acc => do
      let r ← acc
      let a ← headerAns? x
      pure (a :: r)) (some [])
    match as? with
    | some as =>
      let l := finalisedHeightLoop (as.map gethFinalisedHeight)
      (s, "calls=" ++ toString l.2 ++ " fin=" ++ (match l.1 with | some f => natToHex f | none => "none"))
    | none => (s, "bad-op")
  | ["pipenew"] => ({ s with pipe := {} }, "ok")
  | "pipe" :: toks =>
    match pipeToks toks s.raws.reverse with
    | some (ops, rest) =>
      let p := s.pipe.run ops
      ({ s with pipe := p, raws := rest.reverse },
        "out=" ++ toString p.out.length ++ " sink=" ++ toString p.sink.length ++
        " hand=" ++ (if p.hand.isSome then "1" else "0") ++ " ch=" ++ toString p.ch.length ++
        " up=" ++ toString p.up.length)
    | none => (s, "bad-op")
  | ["pipeout"] =>
    (s, if s.pipe.out.isEmpty then "-" else "|".intercalate (s.pipe.out.map fmtSU))
  | ["verified", n] =>
    match hexToNat? n with
    | some n => (s, if isL1Verified n s.st.head then "1" else "0")
    | none => (s, "bad-op")
  | ["head"] => (s, "head=" ++ fmtHead s.st.head)
  | ["suberr"] => ({ s with st := step s.guard s.st .subErr, trace := .subErr :: s.trace }, "ok")
  | ["finerr"] => ({ s with st := step s.guard s.st .finErr, trace := .finErr :: s.trace }, "ok")
  | ["tickfault", f, k] =>
    let k? : Option DbFault := if k == "r" then some .readErr else if k == "w" then some .writeErr else none
    match hexToNat? f, k? with
    | some f, some k =>
      let r := setL1HeadFault s.guard s.st f k
      ({ s with st := r.1 }, "head=" ++ fmtHead r.1.head ++ " feed=" ++ fmtHead r.2.1 ++
        " fatal=" ++ (if r.2.2 then "1" else "0"))
    | _, _ => (s, "bad-op")
  | ["raw", a, b, c, d, e] =>
    match hexToNat? a, hexToNat? b, hexToNat? c, hexToNat? d, bool? e with
    | some n, some h, some r, some l1, some rm => ({ s with raws := ⟨r, n, h, l1, rm⟩ :: s.raws }, "ok")
    | _, _, _, _, _ => (s, "bad-op")
  | ["fwdstream"] =>
    let out := forwardStream s.raws.reverse
    ({ s with raws := [] }, if out.isEmpty then "-" else "|".intercalate (out.map fun u =>
      "su " ++ natToHex u.l2 ++ " " ++ natToHex u.hash ++ " " ++ natToHex u.root ++ " " ++
        natToHex u.l1 ++ " " ++ (if u.removed then "1" else "0")))
  | ["feednew"] => ({ s with sub := {} }, "ok")
  | ["feedsend", a, b, c] =>
    match hexToNat? a, hexToNat? b, hexToNat? c with
    | some a, some b, some c => ({ s with sub := s.sub.step (.send ⟨a, b, c⟩) }, "ok")
    | _, _, _ => (s, "bad-op")
  | ["feedrecv"] => ({ s with sub := s.sub.step .recv }, "ok")
  | ["feedgot"] =>
    (s, if s.sub.received.isEmpty then "-" else ",".intercalate (s.sub.received.map fun h => fmtHead (some h)))
  | ["resub", b] =>
    match bool? b with
    | some b => ({ s with st := step s.guard s.st (.resub b), trace := .resub b :: s.trace }, "ok")
    | none => (s, "bad-op")
  | ["catchupfault", la, f1, ch, fa, f2, k] =>
    let fa? : Option (Option Nat) := if fa == "none" then some none else (hexToNat? fa).map some
    let k? : Option DbFault := if k == "r" then some .readErr else if k == "w" then some .writeErr else none
    match hexToNat? la, hexToNat? f1, chunk? ch, fa?, hexToNat? f2, k? with
    | some la, some f1, some ch, some fa, some f2, some k =>
      let r := catchUpFault s.guard s.st s.hist la f1 ch fa f2 k
      ({ s with st := r.1 },
        "res=" ++ fmtRes r.2.1.result ++ " q=" ++ fmtQueries r.2.1.queries ++
        " head=" ++ fmtHead r.1.head ++ " feed=" ++ fmtHead r.2.2)
    | _, _, _, _, _, _ => (s, "bad-op")
  | ["hist", a, b, c, d, e] =>
    match su? a b c d e with
    | some u => ({ s with hist := s.hist ++ [u] }, "ok")
    | none => (s, "bad-op")
  | ["histclear"] => ({ s with hist := [] }, "ok")
  | ["catchup", la, f1, ch, fa, f2] =>
    let fa? : Option (Option Nat) := if fa == "none" then some none else (hexToNat? fa).map some
    match hexToNat? la, hexToNat? f1, chunk? ch, fa?, hexToNat? f2 with
    | some la, some f1, some ch, some fa, some f2 =>
      let r := catchUp s.guard s.st s.hist la f1 ch fa f2
      ({ s with st := r.1 },
        "res=" ++ fmtRes r.2.1.result ++ " q=" ++ fmtQueries r.2.1.queries ++
        " head=" ++ fmtHead r.1.head ++ " note=" ++ fmtHead r.2.2)
    | _, _, _, _, _ => (s, "bad-op")
  | _ => (s, "bad-op")

def main : IO Unit := loop dstep {}
