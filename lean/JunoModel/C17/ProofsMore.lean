import JunoModel.C17.ProofsCatchUp
/-!
C17 — helper lemmas, part 6: safety for all traces, monotonicity under the delivery-order
hypothesis, the declarative reading of `live`, builders for the provider hypotheses.
-/
namespace Juno.C17

/-! ### splitting a trace at its last element -/

theorem eq_nil_or_snoc {α : Type} (l : List α) : l = [] ∨ ∃ L b, l = L ++ [b] :=
  snoc_ind (P := fun l => l = [] ∨ ∃ L b, l = L ++ [b]) (by simp)
    (fun L b _ => Or.inr ⟨L, b, rfl⟩) l

theorem snoc_split {α : Type} {tr a b : List α} {e x : α} (h : tr ++ [e] = a ++ x :: b) :
    (b = [] ∧ a = tr ∧ x = e) ∨ ∃ b', b = b' ++ [e] ∧ tr = a ++ x :: b' := by
  rcases eq_nil_or_snoc b with hb | ⟨b', y, hb⟩
  · subst hb
    have h' : tr ++ [e] = a ++ [x] := h
    have := List.append_inj' h' rfl
    exact Or.inl ⟨rfl, this.1.symm, (List.cons.inj this.2).1.symm⟩
  · subst hb
    have h' : tr ++ [e] = (a ++ x :: b') ++ [y] := by rw [h]; simp
    have := List.append_inj' h' rfl
    have hy : e = y := (List.cons.inj this.2).1
    subst hy
    exact Or.inr ⟨b', rfl, this.1⟩

/-! ### safety: where a stored head can come from (every trace, both variants) -/

theorem tick_head_cases (g : Bool) (s : State) (F : Nat) :
    (step g s (.tick F)).head = s.head ∨
    ∃ u, pickMax F s.buf = some u ∧ (step g s (.tick F)).head = some u.toHead := by
  show (setL1Head g s F).1.head = s.head ∨
    ∃ u, pickMax F s.buf = some u ∧ (setL1Head g s F).1.head = some u.toHead
  unfold setL1Head
  cases h : pickMax F s.buf with
  | none => exact Or.inl rfl
  | some c =>
    dsimp only
    by_cases hs : skipCandidate g s.head c = true
    · rw [if_pos hs]; exact Or.inl rfl
    · rw [if_neg hs]; exact Or.inr ⟨c, rfl, rfl⟩

theorem head_origin (g : Bool) (h0 : Option Head) (tr : List Ev) :
    (run g (State.init h0) tr).head = h0 ∨
    ∃ a F b, tr = a ++ Ev.tick F :: b ∧ ∃ e ∈ live a, e.2.l1 ≤ F ∧
      (run g (State.init h0) tr).head = some e.2.toHead := by
  refine snoc_ind (P := fun tr => (run g (State.init h0) tr).head = h0 ∨
    ∃ a F b, tr = a ++ Ev.tick F :: b ∧ ∃ e ∈ live a, e.2.l1 ≤ F ∧
      (run g (State.init h0) tr).head = some e.2.toHead) (Or.inl rfl) ?_ tr
  intro l x ih
  have keep : (run g (State.init h0) (l ++ [x])).head = (run g (State.init h0) l).head →
      ((run g (State.init h0) (l ++ [x])).head = h0 ∨
      ∃ a F b, l ++ [x] = a ++ Ev.tick F :: b ∧ ∃ e ∈ live a, e.2.l1 ≤ F ∧
        (run g (State.init h0) (l ++ [x])).head = some e.2.toHead) := by
    intro hk
    rcases ih with h | ⟨a, F, b, hl, e, he, hF, hh⟩
    · exact Or.inl (by rw [hk, h])
    · exact Or.inr ⟨a, F, b ++ [x], by rw [hl]; simp, e, he, hF, by rw [hk, hh]⟩
  cases x with
  | upd u => exact keep (by rw [run_snoc]; rfl)
  | subErr => exact keep (by rw [run_snoc]; rfl)
  | resub ok => exact keep (by rw [run_snoc]; rfl)
  | finErr => exact keep (by rw [run_snoc]; rfl)
  | tick F =>
    rcases tick_head_cases g (run g (State.init h0) l) F with hk | ⟨u, hpm, hh⟩
    · exact keep (by rw [run_snoc]; exact hk)
    · obtain ⟨n, hn, huF, _⟩ := pickMax_pend_some hpm
      exact Or.inr ⟨l, F, [], rfl, (n, u), (basic g h0 l).sub _ hn, huF, by rw [run_snoc]; exact hh⟩

/-! ### monotonicity for the code as it is, under the delivery-order hypothesis -/

theorem unguarded_step_mono {tr : List Ev} {x : Ev}
    (hF : FinMono (tr ++ [x])) (hU : NoUnfinalise (tr ++ [x])) (hO : InOrder (tr ++ [x]))
    (hL : L2OrderedStrict (tr ++ [x])) :
    optLe (headL2 (run false (State.init none) tr))
      (headL2 (run false (State.init none) (tr ++ [x]))) := by
  have hinv := headInv none tr hF.prefix hU.prefix hO.prefix
  cases x with
  | upd u => rw [run_snoc]; exact optLe_refl _
  | subErr => rw [run_snoc]; exact optLe_refl _
  | resub ok => rw [run_snoc]; exact optLe_refl _
  | finErr => rw [run_snoc]; exact optLe_refl _
  | tick F =>
    rw [run_snoc]
    rcases tick_head_cases false (run false (State.init none) tr) F with hk | ⟨u, hpm, hh⟩
    · simp only [headL2, hk]; exact optLe_refl _
    · obtain ⟨n, hn, huF, _⟩ := pickMax_pend_some hpm
      rcases hinv.head with ⟨_, hd⟩ | ⟨e, he, _, hd⟩
      · simp [headL2, hd, optLe]
      · have hle := hinv.order (n, u) hn e he
        have hnl := (basic false none tr).sub _ hn
        simp only [headL2, hd, hh, Option.map_some, optLe, SU.toHead]
        rcases hle with hlt | ⟨heq, hst⟩
        · exact Nat.le_of_lt (hL.1 tr [Ev.tick F] rfl e he.1 (n, u) hnl hlt)
        · exact hL.2 tr [Ev.tick F] rfl e he.1 (n, u) hnl heq hst

/-! ### the declarative reading of `live` -/

theorem mem_live_iff (tr : List Ev) (n : Nat) (u : SU) :
    (n, u) ∈ live tr ↔
      ∃ a b, tr = a ++ Ev.upd u :: b ∧ a.length = n ∧ u.removed = false ∧
        ∀ r, Ev.upd r ∈ b → r.removed = true → u.l1 < r.l1 := by
  refine snoc_ind (P := fun tr => ∀ n u, (n, u) ∈ live tr ↔
      ∃ a b, tr = a ++ Ev.upd u :: b ∧ a.length = n ∧ u.removed = false ∧
        ∀ r, Ev.upd r ∈ b → r.removed = true → u.l1 < r.l1) ?_ ?_ tr n u
  · intro n u
    simp [live_nil]
  · intro l x ih n u
    -- splits of `l ++ [x]` whose suffix is non-empty correspond to splits of `l`
    have old : (∃ a b', l = a ++ Ev.upd u :: b' ∧ a.length = n ∧ u.removed = false ∧
          (∀ r, Ev.upd r ∈ b' → r.removed = true → u.l1 < r.l1) ∧
          (∀ r, x = Ev.upd r → r.removed = true → u.l1 < r.l1)) ↔
        (∃ a b, l ++ [x] = a ++ Ev.upd u :: b ∧ b ≠ [] ∧ a.length = n ∧ u.removed = false ∧
          ∀ r, Ev.upd r ∈ b → r.removed = true → u.l1 < r.l1) := by
      constructor
      · rintro ⟨a, b', hl, hn, hr, hb, hx⟩
        refine ⟨a, b' ++ [x], by rw [hl]; simp, by simp, hn, hr, ?_⟩
        intro r hr' hrm
        rcases List.mem_append.mp hr' with h | h
        · exact hb r h hrm
        · simp at h; exact hx r h.symm hrm
      · rintro ⟨a, b, hl, hne, hn, hr, hb⟩
        rcases snoc_split hl with ⟨hb0, _, _⟩ | ⟨b', hb', hl'⟩
        · exact absurd hb0 hne
        · subst hb'
          refine ⟨a, b', hl', hn, hr, ?_, ?_⟩
          · intro r hr' hrm; exact hb r (List.mem_append_left _ hr') hrm
          · intro r hx hrm; exact hb r (by simp [hx]) hrm
    have split : (∃ a b, l ++ [x] = a ++ Ev.upd u :: b ∧ a.length = n ∧ u.removed = false ∧
          ∀ r, Ev.upd r ∈ b → r.removed = true → u.l1 < r.l1) ↔
        ((x = Ev.upd u ∧ l.length = n ∧ u.removed = false) ∨
         (∃ a b, l ++ [x] = a ++ Ev.upd u :: b ∧ b ≠ [] ∧ a.length = n ∧ u.removed = false ∧
          ∀ r, Ev.upd r ∈ b → r.removed = true → u.l1 < r.l1)) := by
      constructor
      · rintro ⟨a, b, hl, hn, hr, hb⟩
        by_cases hne : b = []
        · subst hne
          rcases snoc_split hl with ⟨_, ha, hx⟩ | ⟨b', hb', _⟩
          · exact Or.inl ⟨hx.symm, by rw [← ha]; exact hn, hr⟩
          · simp at hb'
        · exact Or.inr ⟨a, b, hl, hne, hn, hr, hb⟩
      · rintro (⟨hx, hn, hr⟩ | ⟨a, b, hl, _, hn, hr, hb⟩)
        · exact ⟨l, [], by rw [hx], hn, hr, by simp⟩
        · exact ⟨a, b, hl, hn, hr, hb⟩
    rw [split, ← old, live_snoc]
    cases x with
    | upd v =>
      by_cases hv : v.removed = true
      · simp only [liveStep, hv, if_true, List.mem_filter, decide_eq_true_eq, ih]
        constructor
        · rintro ⟨⟨a, b, hl, hn, hr, hb⟩, hlt⟩
          refine Or.inr ⟨a, b, hl, hn, hr, hb, ?_⟩
          intro r hr' _; cases hr'; exact hlt
        · rintro (⟨hx, _, hr⟩ | ⟨a, b, hl, hn, hr, hb, hx⟩)
          · cases hx; rw [hv] at hr; cases hr
          · exact ⟨⟨a, b, hl, hn, hr, hb⟩, hx v rfl hv⟩
      · have hv' : v.removed = false := by simpa using hv
        simp only [liveStep, hv', Bool.false_eq_true, if_false, List.mem_cons, ih]
        constructor
        · rintro (h | ⟨a, b, hl, hn, hr, hb⟩)
          · cases h; exact Or.inl ⟨rfl, rfl, hv'⟩
          · refine Or.inr ⟨a, b, hl, hn, hr, hb, ?_⟩
            intro r hr' hrm; cases hr'; rw [hv'] at hrm; cases hrm
        · rintro (⟨hx, hn, _⟩ | ⟨a, b, hl, hn, hr, hb, _⟩)
          · cases hx; exact Or.inl (by rw [hn])
          · exact Or.inr ⟨a, b, hl, hn, hr, hb⟩
    | tick F =>
      simp only [liveStep, ih]
      constructor
      · rintro ⟨a, b, hl, hn, hr, hb⟩
        exact Or.inr ⟨a, b, hl, hn, hr, hb, by intro r h; cases h⟩
      · rintro (⟨hx, _, _⟩ | ⟨a, b, hl, hn, hr, hb, _⟩)
        · cases hx
        · exact ⟨a, b, hl, hn, hr, hb⟩
    | subErr =>
      simp only [liveStep, ih]
      constructor
      · rintro ⟨a, b, hl, hn, hr, hb⟩
        exact Or.inr ⟨a, b, hl, hn, hr, hb, by intro r h; cases h⟩
      · rintro (⟨hx, _, _⟩ | ⟨a, b, hl, hn, hr, hb, _⟩)
        · cases hx
        · exact ⟨a, b, hl, hn, hr, hb⟩
    | resub ok =>
      simp only [liveStep, ih]
      constructor
      · rintro ⟨a, b, hl, hn, hr, hb⟩
        exact Or.inr ⟨a, b, hl, hn, hr, hb, by intro r h; cases h⟩
      · rintro (⟨hx, _, _⟩ | ⟨a, b, hl, hn, hr, hb, _⟩)
        · cases hx
        · exact ⟨a, b, hl, hn, hr, hb⟩
    | finErr =>
      simp only [liveStep, ih]
      constructor
      · rintro ⟨a, b, hl, hn, hr, hb⟩
        exact Or.inr ⟨a, b, hl, hn, hr, hb, by intro r h; cases h⟩
      · rintro (⟨hx, _, _⟩ | ⟨a, b, hl, hn, hr, hb, _⟩)
        · cases hx
        · exact ⟨a, b, hl, hn, hr, hb⟩

/-! ### subscription errors, resubscription attempts and failed polls are invisible -/

def isData : Ev → Bool
  | .upd _ => true
  | .tick _ => true
  | _ => false

theorem run_filter_data (g : Bool) (s : State) (tr : List Ev) :
    run g s (tr.filter isData) = run g s tr := by
  induction tr generalizing s with
  | nil => rfl
  | cons x t ih =>
    cases x with
    | upd u => simp only [List.filter_cons, isData, if_true]; exact ih _
    | tick F => simp only [List.filter_cons, isData, if_true]; exact ih _
    | subErr => simp only [List.filter_cons, isData, Bool.false_eq_true, if_false]; exact ih s
    | resub ok => simp only [List.filter_cons, isData, Bool.false_eq_true, if_false]; exact ih s
    | finErr => simp only [List.filter_cons, isData, Bool.false_eq_true, if_false]; exact ih s

/-! ### builders for the provider hypotheses (used for the concrete witnesses) -/

theorem finMono_nil : FinMono [] := by
  intro a F b h; simp at h

theorem finMono_snoc {tr : List Ev} {x : Ev} (h : FinMono tr)
    (hx : ∀ F, x = Ev.tick F → ∀ F', lastFin tr = some F' → F' ≤ F) : FinMono (tr ++ [x]) := by
  intro a F b hab
  rcases snoc_split hab with ⟨_, ha, hxe⟩ | ⟨b', _, hl⟩
  · subst ha; exact hx F hxe.symm
  · exact h a F b' hl

theorem noUnfinalise_nil : NoUnfinalise [] := by
  intro a r b h; simp at h

theorem noUnfinalise_snoc {tr : List Ev} {x : Ev} (h : NoUnfinalise tr)
    (hx : ∀ r, x = Ev.upd r → r.removed = true → ∀ F, lastFin tr = some F → F < r.l1) :
    NoUnfinalise (tr ++ [x]) := by
  intro a r b hab
  rcases snoc_split hab with ⟨_, ha, hxe⟩ | ⟨b', _, hl⟩
  · subst ha; exact hx r hxe.symm
  · exact h a r b' hl

theorem inOrder_nil : InOrder [] := by
  intro a u b h; simp at h

theorem inOrder_snoc {tr : List Ev} {x : Ev} (h : InOrder tr)
    (hx : ∀ u, x = Ev.upd u → u.removed = false →
      ∀ F, lastFin tr = some F → ∀ c ∈ live tr, c.2.l1 ≤ F → c.2.l1 ≤ u.l1) :
    InOrder (tr ++ [x]) := by
  intro a u b hab
  rcases snoc_split hab with ⟨_, ha, hxe⟩ | ⟨b', _, hl⟩
  · subst ha; exact hx u hxe.symm
  · exact h a u b' hl

/-- A prefix of `tr ++ [x]` is a prefix of `tr` or the whole. -/
theorem prefix_snoc {α : Type} {tr a b : List α} {x : α} (h : tr ++ [x] = a ++ b) :
    (a = tr ++ [x]) ∨ ∃ b', tr = a ++ b' := by
  rcases eq_nil_or_snoc b with hb | ⟨b', y, hb⟩
  · subst hb; exact Or.inl (by simpa using h.symm)
  · subst hb
    have h' : tr ++ [x] = (a ++ b') ++ [y] := by rw [h]; simp
    exact Or.inr ⟨b', (List.append_inj' h' rfl).1⟩

theorem l2Ordered_nil : L2Ordered [] := by
  intro a b h x hx
  have : a = [] := by
    cases a with
    | nil => rfl
    | cons _ _ => simp at h
  subst this; simp [live_nil] at hx

theorem l2Ordered_snoc {tr : List Ev} {x : Ev} (h : L2Ordered tr)
    (hx : ∀ p ∈ live (tr ++ [x]), ∀ q ∈ live (tr ++ [x]), p.2.l1 < q.2.l1 → p.2.l2 < q.2.l2) :
    L2Ordered (tr ++ [x]) := by
  intro a b hab
  rcases prefix_snoc hab with ha | ⟨b', hl⟩
  · subst ha; exact hx
  · exact h a b' hl

theorem l2OrderedStrict_nil : L2OrderedStrict [] := by
  refine ⟨l2Ordered_nil, ?_⟩
  intro a b h x hx
  have : a = [] := by
    cases a with
    | nil => rfl
    | cons _ _ => simp at h
  subst this; simp [live_nil] at hx

theorem l2OrderedStrict_snoc {tr : List Ev} {x : Ev} (h : L2OrderedStrict tr)
    (hx : ∀ p ∈ live (tr ++ [x]), ∀ q ∈ live (tr ++ [x]), p.2.l1 < q.2.l1 → p.2.l2 < q.2.l2)
    (hy : ∀ p ∈ live (tr ++ [x]), ∀ q ∈ live (tr ++ [x]), p.2.l1 = q.2.l1 → p.1 ≤ q.1 →
      p.2.l2 ≤ q.2.l2) :
    L2OrderedStrict (tr ++ [x]) := by
  refine ⟨l2Ordered_snoc h.1 hx, ?_⟩
  intro a b hab
  rcases prefix_snoc hab with ha | ⟨b', hl⟩
  · subst ha; exact hy
  · exact h.2 a b' hl

end Juno.C17
