import JunoModel.C17.ModelLoop
import JunoModel.C17.ProofsGlue
/-!
C17 — proofs about `ModelLoop.lean`: the event loop with its channel and subscription bookkeeping refines
the flat trace model; nothing the channel accepted is lost or duplicated across resubscriptions; every
subscription is unsubscribed exactly once; the catch-up queries tile the scanned range; the chunk
arithmetic agrees with its `uint64` transcription.
-/
namespace Juno.C17

/-- The update carried by a flat event, if any. -/
def updOf : Ev → Option SU
  | .upd u => some u
  | _ => none

/-- Events that touch neither buffer nor head. -/
def isQuiet : Ev → Bool
  | .subErr => true
  | .resub _ => true
  | .finErr => true
  | _ => false

theorem quiet_run (g : Bool) (s : State) (ex : List Ev) (h : ∀ e ∈ ex, isQuiet e = true) :
    run g s ex = s ∧ runNotes g s ex = [] ∧ ex.filterMap updOf = [] := by
  induction ex with
  | nil => exact ⟨rfl, rfl, rfl⟩
  | cons e t ih =>
    have he := h e (by simp)
    have ht := ih (fun x hx => h x (by simp [hx]))
    cases e with
    | upd u => cases he
    | tick f => cases he
    | subErr => exact ⟨ht.1, by rw [runNotes_cons]; exact ht.2.1, by simpa [updOf] using ht.2.2⟩
    | resub ok => exact ⟨ht.1, by rw [runNotes_cons]; exact ht.2.1, by simpa [updOf] using ht.2.2⟩
    | finErr => exact ⟨ht.1, by rw [runNotes_cons]; exact ht.2.1, by simpa [updOf] using ht.2.2⟩

theorem quiet_append (g : Bool) (s : State) (tr ex : List Ev) (h : ∀ e ∈ ex, isQuiet e = true) :
    run g s (tr ++ ex) = run g s tr ∧ runNotes g s (tr ++ ex) = runNotes g s tr ∧
      (tr ++ ex).filterMap updOf = tr.filterMap updOf := by
  obtain ⟨a, b, c⟩ := quiet_run g (run g s tr) ex h
  refine ⟨by rw [run_append, a], by rw [runNotes_append, b, List.append_nil], by rw [List.filterMap_append, c, List.append_nil]⟩

theorem replicate_quiet (n : Nat) (e : Ev) (he : isQuiet e = true) :
    ∀ x ∈ List.replicate n e, isQuiet x = true := by
  intro x hx
  rw [List.eq_of_mem_replicate hx]; exact he

/-- The flat events of a poll do exactly what `pollStep` does. -/
theorem poll_events (g : Bool) (s : State) (answers : List (Option Nat)) :
    run g s (pollEvents answers) = (pollStep g s answers).1 ∧
    runNotes g s (pollEvents answers) = (pollStep g s answers).2.toList ∧
    (pollEvents answers).filterMap updOf = [] := by
  unfold pollEvents pollStep
  cases hf : (finalisedHeightLoop answers).1 with
  | none =>
    obtain ⟨a, b, c⟩ := quiet_run g s (List.replicate (finalisedHeightLoop answers).2 Ev.finErr)
      (replicate_quiet _ _ rfl)
    exact ⟨a, b, c⟩
  | some f =>
    obtain ⟨a, b, c⟩ := quiet_run g s (List.replicate ((finalisedHeightLoop answers).2 - 1) Ev.finErr)
      (replicate_quiet _ _ rfl)
    refine ⟨?_, ?_, ?_⟩
    · rw [run_snoc, a]; rfl
    · rw [runNotes_snoc, a, b]; rfl
    · rw [List.filterMap_append, c]; rfl

/-- What holds of the loop in every reachable state. -/
structure LInv (g : Bool) (st0 : State) (l : Loop) : Prop where
  cons : l.applied ++ l.chan = l.pushed
  cap : l.chan.length ≤ updateChBuffer
  ref : l.st = run g st0 l.trace
  notes : l.notes = runNotes g st0 l.trace
  upds : l.trace.filterMap updOf = l.applied
  subs : l.unsub ++ l.sub.toList = List.range l.nsubs
  ret : l.returned = true → l.sub = none

theorem subscribe_attempts_quiet (attempts : List Bool) (k : Nat) :
    (∀ e ∈ List.replicate k (Ev.resub false) ++ [Ev.resub true], isQuiet e = true) ∧
    (∀ e ∈ List.replicate attempts.length (Ev.resub false), isQuiet e = true) := by
  refine ⟨?_, replicate_quiet _ _ rfl⟩
  intro e he
  rcases List.mem_append.mp he with h | h
  · exact replicate_quiet _ _ rfl e h
  · simp at h; subst h; rfl

theorem linv_subscribe {g : Bool} {st0 : State} {l : Loop} (attempts : List Bool)
    (h : LInv g st0 l) (hs : l.sub = none) (hr : l.returned = false) :
    LInv g st0 (l.subscribe attempts) := by
  unfold Loop.subscribe
  have hsub : l.unsub = List.range l.nsubs := by
    have := h.subs; rw [hs] at this; simpa using this
  cases hk : subscribeLoop attempts with
  | none =>
    obtain ⟨a, b, c⟩ := quiet_append g st0 l.trace _ (subscribe_attempts_quiet attempts 0).2
    exact ⟨h.cons, h.cap, by rw [a]; exact h.ref, by rw [b]; exact h.notes, by rw [c]; exact h.upds,
      by simpa using hsub, fun _ => rfl⟩
  | some k =>
    have hq := (subscribe_attempts_quiet attempts k).1
    have := quiet_append g st0 l.trace (List.replicate k (Ev.resub false) ++ [Ev.resub true]) hq
    rw [← List.append_assoc] at this
    obtain ⟨a, b, c⟩ := this
    refine ⟨h.cons, h.cap, by rw [a]; exact h.ref, by rw [b]; exact h.notes, by rw [c]; exact h.upds, ?_,
      fun hc => by rw [hr] at hc; cases hc⟩
    simp [hsub, List.range_succ]

theorem linv_start (g : Bool) (st0 : State) (attempts : List Bool) :
    LInv g st0 (Loop.start st0 attempts) := by
  unfold Loop.start
  refine linv_subscribe attempts ?_ rfl rfl
  exact ⟨rfl, by simp [updateChBuffer], rfl, rfl, rfl, rfl, fun h => by cases h⟩

theorem linv_step {g : Bool} {st0 : State} {l : Loop} (o : LoopOp) (h : LInv g st0 l) :
    LInv g st0 (l.step g o) := by
  cases hret : l.returned with
  | true =>
    cases o with
    | push u =>
      by_cases hc : l.chan.length < updateChBuffer
      · simp only [Loop.step, hc, if_true]
        exact ⟨by simp [← h.cons], by simp; omega, h.ref, h.notes, h.upds, h.subs, h.ret⟩
      · simp only [Loop.step, hc, if_false]; exact h
    | recv => simp only [Loop.step, hret, if_true]; exact h
    | subErr a => simp only [Loop.step, hret, if_true]; exact h
    | tick a => simp only [Loop.step, hret, if_true]; exact h
    | cancel => simp only [Loop.step, hret, if_true]; exact h
  | false =>
    cases o with
    | push u =>
      by_cases hc : l.chan.length < updateChBuffer
      · simp only [Loop.step, hc, if_true]
        exact ⟨by simp [← h.cons], by simp; omega, h.ref, h.notes, h.upds, h.subs, h.ret⟩
      · simp only [Loop.step, hc, if_false]; exact h
    | recv =>
      cases hch : l.chan with
      | nil => simp only [Loop.step, hret, hch, Bool.false_eq_true, if_false]; exact h
      | cons u t =>
        simp only [Loop.step, hret, hch, Bool.false_eq_true, if_false]
        have hcons := h.cons
        have hcap := h.cap
        rw [hch] at hcons hcap
        refine ⟨by simpa using hcons, by simp at hcap ⊢; omega, ?_, ?_, ?_, h.subs, (by intro hc; simp at hc)⟩
        · show ({ l.st with buf := applyStateUpdate l.st.buf u } : State) = run g st0 (l.trace ++ [Ev.upd u])
          rw [run_snoc, ← h.ref]; rfl
        · show l.notes = runNotes g st0 (l.trace ++ [Ev.upd u])
          rw [runNotes_snoc, ← h.notes]; simp [stepNote]
        · show (l.trace ++ [Ev.upd u]).filterMap updOf = l.applied ++ [u]
          rw [List.filterMap_append, h.upds]; rfl
    | subErr attempts =>
      cases hs : l.sub with
      | none => simp only [Loop.step, hret, hs, Bool.false_eq_true, if_false]; exact h
      | some k =>
        simp only [Loop.step, hret, hs, Bool.false_eq_true, if_false]
        refine linv_subscribe attempts ?_ rfl rfl
        obtain ⟨a, b, c⟩ := quiet_append g st0 l.trace [Ev.subErr] (by intro e he; simp at he; subst he; rfl)
        refine ⟨h.cons, h.cap, by rw [a]; exact h.ref, by rw [b]; exact h.notes, by rw [c]; exact h.upds, ?_,
          fun _ => rfl⟩
        have := h.subs
        rw [hs] at this
        simpa using this
    | tick answers =>
      simp only [Loop.step, hret, Bool.false_eq_true, if_false]
      obtain ⟨a, b, c⟩ := poll_events g l.st answers
      refine ⟨h.cons, h.cap, ?_, ?_, ?_, h.subs, (by intro hc; simp at hc)⟩
      · show (pollStep g l.st answers).1 = run g st0 (l.trace ++ pollEvents answers)
        rw [run_append, ← h.ref, a]
      · show l.notes ++ (pollStep g l.st answers).2.toList = runNotes g st0 (l.trace ++ pollEvents answers)
        rw [runNotes_append, ← h.ref, b, ← h.notes]
      · show (l.trace ++ pollEvents answers).filterMap updOf = l.applied
        rw [List.filterMap_append, c, List.append_nil, h.upds]
    | cancel =>
      simp only [Loop.step, hret, Bool.false_eq_true, if_false]
      refine ⟨h.cons, h.cap, h.ref, h.notes, h.upds, ?_, fun _ => rfl⟩
      simpa using h.subs

theorem linv_run {g : Bool} {st0 : State} (ops : List LoopOp) :
    ∀ {l : Loop}, LInv g st0 l → LInv g st0 (l.run g ops) := by
  induction ops with
  | nil => intro l h; exact h
  | cons o rest ih => intro l h; exact ih (l := l.step g o) (linv_step o h)

/-! ### the catch-up queries tile the scanned range -/

/-- `qs` covers `[lo, hi]` from the top, chunk by chunk: the first query ends at `hi`, each next one ends
right below the start of the previous, no query is empty or longer than `chunk`, the last starts at `lo`. -/
def Tiles (chunk lo : Nat) : Nat → List (Nat × Nat) → Prop
  | _, [] => False
  | hi, [(f, t)] => t = hi ∧ f = lo ∧ f ≤ t ∧ t - f + 1 ≤ chunk
  | hi, (f, t) :: q :: rest => t = hi ∧ f ≤ t ∧ t - f + 1 = chunk ∧ 0 < f ∧ Tiles chunk lo (f - 1) (q :: rest)

theorem scanQueries_tiles (chunk : Nat) (hc : chunk ≠ 0) (to : Nat) (hto : to + 1 < 2 ^ 64) :
    Tiles chunk 0 to (scanQueries chunk to) := by
  induction to using Nat.strongRecOn with
  | _ to ih =>
    rw [scanQueries]
    simp only [hc, dite_false]
    have hle := chunkFrom_le (to := to) hc
    by_cases hf : chunkFrom to chunk = 0
    · simp only [hf, if_true]
      refine ⟨rfl, rfl, Nat.zero_le _, ?_⟩
      unfold chunkFrom at hf
      rw [Nat.mod_eq_of_lt hto] at hf
      split at hf <;> omega
    · simp only [hf, if_false]
      have hlt : chunkFrom to chunk - 1 < to := by omega
      have hrec := ih (chunkFrom to chunk - 1) hlt (by omega)
      have hsize : to - chunkFrom to chunk + 1 = chunk := by
        unfold chunkFrom at hf ⊢
        rw [Nat.mod_eq_of_lt hto] at hf ⊢
        split at hf <;> simp_all <;> omega
      -- the recursive list is not empty
      cases hq : scanQueries chunk (chunkFrom to chunk - 1) with
      | nil => rw [hq] at hrec; exact absurd hrec (by simp [Tiles])
      | cons q rest =>
        rw [hq] at hrec
        exact ⟨rfl, hle, hsize, Nat.pos_of_ne_zero hf, hrec⟩

/-- The queries the catch-up loop issues when no log at all is found and no query fails are exactly
`scanQueries` (so: they tile `[0, latest]`). -/
theorem catchUpLoop_queries_empty_hist (fin chunk : Nat) (hc : chunk ≠ 0) (to calls : Nat) (buf : Buf)
    (qs : List (Nat × Nat)) (ap : List SU) :
    (catchUpLoop [] fin chunk none to calls buf qs ap).queries = qs ++ scanQueries chunk to := by
  induction to using Nat.strongRecOn generalizing calls buf qs ap with
  | _ to ih =>
    rw [catchUpLoop, scanQueries]
    simp only [hc, dite_false]
    have hle := chunkFrom_le (to := to) hc
    by_cases hf : chunkFrom to chunk = 0
    · simp [hf, filterLogs]
    · have hlt : chunkFrom to chunk - 1 < to := by omega
      simp only [hf, if_false]
      simp only [filterLogs, List.filter_nil, List.any_nil, List.foldl_nil, List.append_nil, Bool.false_or,
        beq_iff_eq, hf, if_false]
      rw [if_neg (by simp), ih _ hlt]
      simp

theorem scanQueries_head (chunk : Nat) (hc : chunk ≠ 0) (to : Nat) :
    ∃ rest, scanQueries chunk to = (chunkFrom to chunk, to) :: rest ∧
      (chunkFrom to chunk ≠ 0 → rest = scanQueries chunk (chunkFrom to chunk - 1)) := by
  rw [scanQueries]
  simp only [hc, dite_false]
  by_cases hf : chunkFrom to chunk = 0
  · simp [hf]
  · simp [hf]

/-- Whatever logs the node has and wherever a query fails, the queries the scan issues are an initial
segment of the tiling of `[0, latest]` from the top: every query starts right below the previous one —
no block is asked for twice, none is skipped. -/
theorem catchUpLoop_queries_prefix (hist : List SU) (fin chunk : Nat) (failAt : Option Nat) (hc : chunk ≠ 0)
    (to calls : Nat) (buf : Buf) (qs : List (Nat × Nat)) (ap : List SU) :
    ∃ p, (catchUpLoop hist fin chunk failAt to calls buf qs ap).queries = qs ++ p ∧ p ≠ [] ∧
      p <+: scanQueries chunk to := by
  induction to using Nat.strongRecOn generalizing calls buf qs ap with
  | _ to ih =>
    obtain ⟨rest, hsq, hrest⟩ := scanQueries_head chunk hc to
    have hone : [(chunkFrom to chunk, to)] <+: scanQueries chunk to := by
      rw [hsq]; exact ⟨rest, rfl⟩
    rw [catchUpLoop]
    simp only [hc, dite_false]
    by_cases hfa : failAt = some calls
    · simp only [hfa, if_true]
      exact ⟨_, rfl, by simp, hone⟩
    · simp only [hfa, if_false]
      split
      · exact ⟨_, rfl, by simp, hone⟩
      · rename_i hnf
        simp only [Bool.or_eq_true, beq_iff_eq, not_or] at hnf
        have hf : chunkFrom to chunk ≠ 0 := hnf.2
        have hle := chunkFrom_le (to := to) hc
        have hlt : chunkFrom to chunk - 1 < to := by omega
        obtain ⟨p, hp, hne, hpre⟩ := ih _ hlt (calls + 1)
          ((filterLogs hist (chunkFrom to chunk) to).foldl applyStateUpdate buf)
          (qs ++ [(chunkFrom to chunk, to)]) (ap ++ filterLogs hist (chunkFrom to chunk) to)
        refine ⟨(chunkFrom to chunk, to) :: p, ?_, by simp, ?_⟩
        · rw [hp]; simp
        · rw [hsq, hrest hf]
          obtain ⟨t, ht⟩ := hpre
          exact ⟨t, by rw [← ht]; rfl⟩

/-! ### `uint64` transcription of the chunk arithmetic -/

theorem chunkFromU64_eq (to chunk : UInt64) :
    (chunkFromU64 to chunk).toNat = chunkFrom to.toNat chunk.toNat := by
  unfold chunkFromU64 chunkFrom
  have h1 : (to + 1).toNat = (to.toNat + 1) % 2 ^ 64 := by
    simp [UInt64.toNat_add]
  have hto := to.toNat_lt
  by_cases hgt : to + 1 > chunk
  · have hgt' : chunk.toNat < (to.toNat + 1) % 2 ^ 64 := by
      have := UInt64.lt_iff_toNat_lt.mp hgt
      rwa [h1] at this
    have hnw : to.toNat + 1 < 2 ^ 64 := by omega
    have hle : chunk ≤ to + 1 := UInt64.le_iff_toNat_le.mpr (by rw [h1]; omega)
    rw [if_pos hgt, if_pos hgt', UInt64.toNat_sub_of_le _ _ hle, h1, Nat.mod_eq_of_lt hnw]
  · have hgt' : ¬ chunk.toNat < (to.toNat + 1) % 2 ^ 64 := by
      intro hx
      apply hgt
      apply UInt64.lt_iff_toNat_lt.mpr
      rwa [h1]
    rw [if_neg hgt, if_neg hgt']
    rfl

end Juno.C17
