import JunoModel.C17.ModelGlue
/-!
C17 — executable model, part 4 (round 5): the event loop WITH its bookkeeping — `watchL1StateUpdates`,
`receiveL1StateUpdates`, `subscribeToUpdates` (l1/l1.go:96-283) — instead of the flat trace of `Model.lean`
in which subscription errors and resubscriptions are identity events by fiat. Core Lean only.

Transcribed:
* `updateCh := make(chan *StateUpdate, 128)` is created ONCE by `watchL1StateUpdates` and handed to every
  `WatchStateUpdate` call: what a dead subscription had already put on it is still there for the loop;
* `case stateUpdate := <-updateCh` → `applyStateUpdate`;
* `case err := <-sub.Err()` → `sub.Unsubscribe()`, then `subscribeToUpdates` (retry until subscribed; `nil`
  when the context ends → the loop returns nil);
* `case <-ticker.C` → `setL1Head` (behind `finalisedHeight`'s retry loop: `pollStep`);
* `case <-ctx.Done()` → return nil; the deferred function unsubscribes the subscription in use, if any;
* chunk arithmetic of the catch-up scan in `uint64` (`chunkFromU64`) and the query list as a tiling;
* `GethL1StateProvider.FinalisedHeight`: header / not found / transport error.
-/
namespace Juno.C17

/-- The event loop of one `Run`. -/
structure Loop where
  st : State                   -- `nonFinalisedLogs` + the stored head
  chan : List SU := []         -- `updateCh`, oldest first
  sub : Option Nat := none     -- the subscription in use (numbered in the order they were established)
  nsubs : Nat := 0             -- successful `WatchStateUpdate` calls so far
  unsub : List Nat := []       -- the subscriptions `Unsubscribe` was called on, in order
  returned : Bool := false     -- `watchL1StateUpdates` has returned (nil)
  -- ghosts
  pushed : List SU := []       -- every value the channel accepted, in order
  applied : List SU := []      -- every value handed to `applyStateUpdate`, in order
  trace : List Ev := []        -- the flat trace (`Model.lean`) this execution corresponds to
  notes : List Head := []      -- the heads handed to `Blockchain.SetL1Head`
  deriving Repr, Inhabited

/-- `subscribeToUpdates`: one `WatchStateUpdate` attempt per entry; `none` = the context ended first. -/
def Loop.subscribe (l : Loop) (attempts : List Bool) : Loop :=
  match subscribeLoop attempts with
  | some k =>
    { l with sub := some l.nsubs, nsubs := l.nsubs + 1,
             trace := l.trace ++ List.replicate k (Ev.resub false) ++ [Ev.resub true] }
  | none =>
    { l with sub := none, returned := true,
             trace := l.trace ++ List.replicate attempts.length (Ev.resub false) }

/-- `watchL1StateUpdates` up to the first `select`. -/
def Loop.start (st : State) (attempts : List Bool) : Loop := ({ st := st } : Loop).subscribe attempts

inductive LoopOp where
  | push (u : SU)                       -- a producer (any subscription's forwarder) sends on `updateCh`
  | recv                                -- the loop takes the `updateCh` case
  | subErr (attempts : List Bool)       -- the loop takes the `sub.Err()` case; outcomes of the attempts that follow
  | tick (answers : List (Option Nat))  -- the loop takes the ticker case; answers of the `FinalisedHeight` attempts
  | cancel                              -- the loop takes the `ctx.Done()` case
  deriving Repr, Inhabited

/-- The flat events of one poll: the failed attempts, then the answer (if any). -/
def pollEvents (answers : List (Option Nat)) : List Ev :=
  match (finalisedHeightLoop answers).1 with
  | some f => List.replicate ((finalisedHeightLoop answers).2 - 1) Ev.finErr ++ [Ev.tick f]
  | none => List.replicate (finalisedHeightLoop answers).2 Ev.finErr

def Loop.step (g : Bool) (l : Loop) : LoopOp → Loop
  | .push u =>
    if l.chan.length < updateChBuffer then { l with chan := l.chan ++ [u], pushed := l.pushed ++ [u] }
    else l                                            -- the producer blocks; nothing is dropped
  | .recv =>
    if l.returned then l else
    match l.chan with
    | [] => l
    | u :: t =>
      { l with st := { l.st with buf := applyStateUpdate l.st.buf u }, chan := t,
               applied := l.applied ++ [u], trace := l.trace ++ [Ev.upd u] }
  | .subErr attempts =>
    if l.returned then l else
    match l.sub with
    | none => l
    | some k => ({ l with sub := none, unsub := l.unsub ++ [k], trace := l.trace ++ [Ev.subErr] }).subscribe attempts
  | .tick answers =>
    if l.returned then l else
    { l with st := (pollStep g l.st answers).1, notes := l.notes ++ (pollStep g l.st answers).2.toList,
             trace := l.trace ++ pollEvents answers }
  | .cancel =>
    if l.returned then l else
    { l with returned := true, sub := none, unsub := l.unsub ++ l.sub.toList }

def Loop.run (g : Bool) (l : Loop) (ops : List LoopOp) : Loop := ops.foldl (Loop.step g) l

/-! ### chunk arithmetic of the catch-up scan in `uint64` -/

/-- `var from uint64; if to+1 > chunk { from = to + 1 - chunk }` exactly as Go computes it (wrapping). -/
def chunkFromU64 (to chunk : UInt64) : UInt64 :=
  if to + 1 > chunk then to + 1 - chunk else 0

/-- The `(from, to)` arguments of the scan when no query finds a finalised log and none fails: down to 0. -/
def scanQueries (chunk : Nat) (to : Nat) : List (Nat × Nat) :=
  if hc : chunk = 0 then [] else
  let frm := chunkFrom to chunk
  if frm = 0 then [(frm, to)] else (frm, to) :: scanQueries chunk (frm - 1)
termination_by to
decreasing_by
  have h1 := chunkFrom_le (to := to) hc
  rename_i hf
  omega

/-! ### `GethL1StateProvider.FinalisedHeight` -/

/-- What `eth_getBlockByNumber("finalized")` can come back as. -/
inductive HeaderAns where
  | header (n : Nat)   -- a header; `head.Number.Uint64()`
  | notFound           -- `ethereum.NotFound` (null): the node has no finalised block yet
  | failed             -- any other error
  deriving DecidableEq, Repr, Inhabited

/-- `GethL1StateProvider.FinalisedHeight`: a height only from a header; "not found" is wrapped as
`eth.ErrNotFound`, anything else as a transport error — both are errors for the client (`none`): there
is no fallback to another block tag or to an earlier answer. -/
def gethFinalisedHeight : HeaderAns → Option Nat
  | .header n => some (n % 2 ^ 64)
  | _ => none

end Juno.C17
