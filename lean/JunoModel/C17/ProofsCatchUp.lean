import JunoModel.C17.ProofsGuard
/-!
C17 — helper lemmas, part 5: the start-up catch-up scan.
-/
namespace Juno.C17

/-- The last event of L1 block `k` in a log list (chain order). -/
def lastAt (k : Nat) : List SU → Option SU
  | [] => none
  | u :: t =>
    match lastAt k t with
    | some w => some w
    | none => if u.l1 = k then some u else none

theorem lastAt_cons (k : Nat) (u : SU) (t : List SU) :
    lastAt k (u :: t) = match lastAt k t with
      | some w => some w
      | none => if u.l1 = k then some u else none := rfl

theorem lastAt_some {k : Nat} {l : List SU} {u : SU} (h : lastAt k l = some u) :
    u ∈ l ∧ u.l1 = k := by
  induction l with
  | nil => cases h
  | cons a t ih =>
    unfold lastAt at h
    split at h
    · rename_i w hw
      cases h
      exact ⟨List.mem_cons_of_mem _ (ih hw).1, (ih hw).2⟩
    · split at h
      · cases h; exact ⟨by simp, by assumption⟩
      · cases h

theorem lastAt_isSome_of_mem {l : List SU} {u : SU} (h : u ∈ l) : ∃ w, lastAt u.l1 l = some w := by
  induction l with
  | nil => cases h
  | cons a t ih =>
    unfold lastAt
    cases ht : lastAt u.l1 t with
    | some w => exact ⟨w, rfl⟩
    | none =>
      rcases List.mem_cons.mp h with rfl | h'
      · exact ⟨u, by simp⟩
      · obtain ⟨w, hw⟩ := ih h'
        rw [ht] at hw; cases hw

theorem lastAt_filterLogs (k : Nat) (hist : List SU) (frm to : Nat) :
    lastAt k (filterLogs hist frm to) = if frm ≤ k ∧ k ≤ to then lastAt k hist else none := by
  induction hist with
  | nil => simp [filterLogs, lastAt]
  | cons a t ih =>
    unfold filterLogs at ih ⊢
    rw [List.filter_cons]
    by_cases ha : (decide (frm ≤ a.l1) && decide (a.l1 ≤ to)) = true
    · simp only [ha, if_true]
      have ha' : frm ≤ a.l1 ∧ a.l1 ≤ to := by simpa using ha
      unfold lastAt
      rw [ih]
      by_cases hk : frm ≤ k ∧ k ≤ to
      · simp only [hk, and_self, if_true]
      · simp only [hk, if_false]
        have : ¬ a.l1 = k := by intro h; subst h; exact hk ha'
        simp [this]
    · simp only [ha, Bool.false_eq_true, if_false]
      rw [ih]
      have ha' : ¬ (frm ≤ a.l1 ∧ a.l1 ≤ to) := by simpa using ha
      by_cases hk : frm ≤ k ∧ k ≤ to
      · simp only [hk, and_self, if_true]
        have : ¬ a.l1 = k := by intro h; subst h; exact ha' hk
        conv => rhs; unfold lastAt
        simp [this]
        cases lastAt k t <;> rfl
      · simp only [hk, if_false]

theorem mem_filterLogs {hist : List SU} {frm to : Nat} {u : SU} :
    u ∈ filterLogs hist frm to ↔ u ∈ hist ∧ frm ≤ u.l1 ∧ u.l1 ≤ to := by
  simp [filterLogs, List.mem_filter]

/-! ### `get?` after updates -/

theorem get?_insert {b : Buf} (hb : b.NodupKeys) (k : Nat) (v : SU) (k' : Nat) :
    (b.insert k v).get? k' = if k' = k then some v else b.get? k' := by
  apply Option.ext
  intro w
  rw [Buf.get?_eq_some (Buf.nodup_insert hb), Buf.mem_insert]
  by_cases hk : k' = k
  · subst hk
    simp only [if_true, Option.some.injEq]
    constructor
    · rintro (h | h)
      · exact (Prod.mk.inj h).2.symm
      · exact absurd rfl h.2
    · intro h; subst h; exact Or.inl rfl
  · simp only [hk, if_false]
    rw [Buf.get?_eq_some hb]
    constructor
    · rintro (h | h)
      · exact absurd (Prod.mk.inj h).1 hk
      · exact h.1
    · intro h; exact Or.inr ⟨h, hk⟩

theorem nodup_foldl_apply (evs : List SU) {b : Buf} (hb : b.NodupKeys) :
    (evs.foldl applyStateUpdate b).NodupKeys := by
  induction evs generalizing b with
  | nil => exact hb
  | cons u t ih => exact ih (nodup_applyStateUpdate hb)

theorem get?_foldl_apply (evs : List SU) (hne : ∀ u ∈ evs, u.removed = false) {b : Buf}
    (hb : b.NodupKeys) (k : Nat) :
    (evs.foldl applyStateUpdate b).get? k =
      match lastAt k evs with
      | some w => some w
      | none => b.get? k := by
  induction evs generalizing b with
  | nil => simp [lastAt]
  | cons u t ih =>
    have hu : u.removed = false := hne u (by simp)
    have ht : ∀ v ∈ t, v.removed = false := fun v hv => hne v (List.mem_cons_of_mem _ hv)
    rw [List.foldl_cons, ih ht (nodup_applyStateUpdate hb), lastAt_cons]
    cases lastAt k t with
    | some w => rfl
    | none =>
      simp only [applyStateUpdate, hu, Bool.false_eq_true, if_false]
      rw [get?_insert hb]
      by_cases hk : u.l1 = k
      · simp [hk]
      · have : ¬ k = u.l1 := fun h => hk h.symm
        simp [hk, this]

/-! ### the scan loop -/

/-- A buffer whose entries all stem from the log history (per L1 block the last log). -/
def HistConsistent (hist : List SU) (latest : Nat) (b : Buf) : Prop :=
  b.NodupKeys ∧ ∀ k u, b.get? k = some u → lastAt k hist = some u ∧ k ≤ latest

theorem histConsistent_nil (hist : List SU) (latest : Nat) : HistConsistent hist latest [] :=
  ⟨Buf.nodup_nil, by intro k u h; simp [Buf.get?] at h⟩

/-- Keys in `(lo, latest]` scanned on top of `b0`. -/
def ScannedAbove (hist : List SU) (latest : Nat) (b0 : Buf) (lo : Nat) (b : Buf) : Prop :=
  ∀ k, b.get? k = if lo < k ∧ k ≤ latest then lastAt k hist else b0.get? k

/-- Keys in `[lo, latest]` scanned on top of `b0`. -/
def ScannedFrom (hist : List SU) (latest : Nat) (b0 : Buf) (lo : Nat) (b : Buf) : Prop :=
  ∀ k, b.get? k = if lo ≤ k ∧ k ≤ latest then lastAt k hist else b0.get? k

theorem scan_step {hist : List SU} {latest : Nat} {b0 buf : Buf} {frm to : Nat}
    (hh : ∀ u ∈ hist, u.removed = false)
    (hb0 : ∀ k u, b0.get? k = some u → lastAt k hist = some u)
    (hnd : buf.NodupKeys) (hsc : ScannedAbove hist latest b0 to buf)
    (hfrm : frm ≤ to) (hto : to ≤ latest) :
    ScannedFrom hist latest b0 frm ((filterLogs hist frm to).foldl applyStateUpdate buf) := by
  have hev : ∀ u ∈ filterLogs hist frm to, u.removed = false :=
    fun u hu => hh u (mem_filterLogs.mp hu).1
  intro k
  rw [get?_foldl_apply _ hev hnd k, lastAt_filterLogs, hsc k]
  by_cases h1 : frm ≤ k ∧ k ≤ to
  · have h2 : ¬ (to < k ∧ k ≤ latest) := by omega
    have h3 : frm ≤ k ∧ k ≤ latest := by omega
    rw [if_pos h1, if_neg h2, if_pos h3]
    cases hl : lastAt k hist with
    | some w => rfl
    | none =>
      dsimp only
      cases hb : b0.get? k with
      | none => rfl
      | some w => have := hb0 k w hb; rw [hl] at this; cases this
  · rw [if_neg h1]
    dsimp only
    by_cases h2 : to < k ∧ k ≤ latest
    · have h3 : frm ≤ k ∧ k ≤ latest := by omega
      rw [if_pos h2, if_pos h3]
    · have h3 : ¬ (frm ≤ k ∧ k ≤ latest) := by omega
      rw [if_neg h2, if_neg h3]

theorem scannedAbove_of_from {hist : List SU} {latest : Nat} {b0 b : Buf} {frm : Nat}
    (h0 : frm ≠ 0) (h : ScannedFrom hist latest b0 frm b) :
    ScannedAbove hist latest b0 (frm - 1) b := by
  intro k
  rw [h k]
  by_cases h1 : frm ≤ k ∧ k ≤ latest
  · have h2 : frm - 1 < k ∧ k ≤ latest := by omega
    rw [if_pos h1, if_pos h2]
  · have h2 : ¬ (frm - 1 < k ∧ k ≤ latest) := by omega
    rw [if_neg h1, if_neg h2]

structure LoopPost (hist : List SU) (fin chunk : Nat) (failAt : Option Nat) (latest : Nat)
    (b0 : Buf) (buf : Buf) (applied : List SU) (o : CatchUpOut) : Prop where
  nodup : o.buf.NodupKeys
  hang : o.result = .hang → chunk = 0 ∧ o.buf = buf
  failed : o.result = .failed → failAt ≠ none ∧
    ∃ lo, ScannedAbove hist latest b0 lo o.buf ∧
      ∀ u ∈ hist, lo < u.l1 → u.l1 ≤ latest → fin < u.l1
  complete : o.result = .complete →
    ∃ lo, lo ≤ latest ∧ ScannedFrom hist latest b0 lo o.buf ∧
      (lo = 0 ∨ ∃ u ∈ hist, lo ≤ u.l1 ∧ u.l1 ≤ latest ∧ u.l1 ≤ fin)
  trace : ∃ evs, o.applied = applied ++ evs ∧ o.buf = evs.foldl applyStateUpdate buf

theorem catchUpLoop_post (hist : List SU) (fin chunk : Nat) (failAt : Option Nat) (latest : Nat)
    (b0 : Buf) (hh : ∀ u ∈ hist, u.removed = false)
    (hb0 : ∀ k u, b0.get? k = some u → lastAt k hist = some u)
    (to calls : Nat) (buf : Buf) (queries : List (Nat × Nat)) (applied : List SU)
    (hnd : buf.NodupKeys) (hto : to ≤ latest)
    (hsc : ScannedAbove hist latest b0 to buf)
    (hnf : ∀ u ∈ hist, to < u.l1 → u.l1 ≤ latest → fin < u.l1) :
    LoopPost hist fin chunk failAt latest b0 buf applied
      (catchUpLoop hist fin chunk failAt to calls buf queries applied) := by
  fun_induction catchUpLoop hist fin chunk failAt to calls buf queries applied with
  | case1 to calls buf queries applied hc =>
    exact ⟨hnd, fun _ => ⟨hc, rfl⟩, (fun h => by cases h), (fun h => by cases h), ⟨[], by simp, rfl⟩⟩
  | case2 to calls buf queries applied hc frm queries' hfail =>
    refine ⟨hnd, (fun h => by cases h), fun _ => ⟨?_, to, hsc, hnf⟩, (fun h => by cases h),
      ⟨[], by simp, rfl⟩⟩
    rw [hfail]; simp
  | case3 to calls buf queries applied hc frm queries' hfail events buf' found hstop =>
    have hfrm : frm ≤ to := chunkFrom_le hc
    refine ⟨nodup_foldl_apply _ hnd, (fun h => by cases h), (fun h => by cases h), fun _ => ?_,
      ⟨events, rfl, rfl⟩⟩
    refine ⟨frm, by omega, scan_step hh hb0 hnd hsc hfrm hto, ?_⟩
    simp only [Bool.or_eq_true, beq_iff_eq] at hstop
    rcases hstop with hf | h0
    · right
      have : ∃ ev ∈ events, ev.l1 ≤ fin := by
        simpa [found, List.any_eq_true] using hf
      obtain ⟨ev, hev', hle⟩ := this
      have hm := mem_filterLogs.mp hev'
      exact ⟨ev, hm.1, hm.2.1, by omega, hle⟩
    · exact Or.inl h0
  | case4 to calls buf queries applied hc frm queries' hfail events buf' found hstop ih =>
    have hfrm : frm ≤ to := chunkFrom_le hc
    simp only [Bool.or_eq_true, beq_iff_eq, not_or] at hstop
    have hf0 : frm ≠ 0 := hstop.2
    have hnofound : ∀ ev ∈ events, fin < ev.l1 := by
      have h1 : ¬ (found = true) := hstop.1
      intro ev hev'
      apply Classical.byContradiction
      intro hn
      apply h1
      show (events.any fun ev => decide (ev.l1 ≤ fin)) = true
      rw [List.any_eq_true]
      exact ⟨ev, hev', by simp; omega⟩
    have hnd' : buf'.NodupKeys := nodup_foldl_apply _ hnd
    have hsc' : ScannedAbove hist latest b0 (frm - 1) buf' :=
      scannedAbove_of_from hf0 (scan_step hh hb0 hnd hsc hfrm hto)
    have hnf' : ∀ u ∈ hist, frm - 1 < u.l1 → u.l1 ≤ latest → fin < u.l1 := by
      intro u hu h1 h2
      by_cases h3 : to < u.l1
      · exact hnf u hu h3 h2
      · exact hnofound u (mem_filterLogs.mpr ⟨hu, by omega, by omega⟩)
    have r := ih hnd' (by omega) hsc' hnf'
    refine ⟨r.nodup, fun h => absurd (r.hang h).1 hc, r.failed, r.complete, ?_⟩
    obtain ⟨evs, h1, h2⟩ := r.trace
    refine ⟨events ++ evs, by rw [h1]; simp, ?_⟩
    rw [h2, List.foldl_append]

/-! ### what a completed catch-up selects -/

/-- `u` is the last log of the highest L1 block at or below both `latest` and `fin₂` that has a
state-update log. -/
def CatchUpTop (hist : List SU) (latest fin₂ : Nat) (u : SU) : Prop :=
  ∃ k, lastAt k hist = some u ∧ k ≤ fin₂ ∧ k ≤ latest ∧
    ∀ k' w, lastAt k' hist = some w → k' ≤ fin₂ → k' ≤ latest → k' ≤ k

theorem CatchUpTop.unique {hist : List SU} {latest fin₂ : Nat} {u v : SU}
    (hu : CatchUpTop hist latest fin₂ u) (hv : CatchUpTop hist latest fin₂ v) : u = v := by
  obtain ⟨k, h1, h2, h3, h4⟩ := hu
  obtain ⟨k', h1', h2', h3', h4'⟩ := hv
  have a := h4 k' v h1' h2' h3'
  have b := h4' k u h1 h2 h3
  have : k = k' := by omega
  subst this
  rw [h1] at h1'; exact Option.some.inj h1'

theorem scannedAbove_init (hist : List SU) (latest : Nat) (b0 : Buf) :
    ScannedAbove hist latest b0 latest b0 := by
  intro k
  have : ¬ (latest < k ∧ k ≤ latest) := by omega
  rw [if_neg this]

theorem catchUp_pick {hist : List SU} {latest fin₁ fin₂ chunk : Nat} {b0 : Buf}
    (hh : ∀ u ∈ hist, u.removed = false) (hc : HistConsistent hist latest b0)
    (hchunk : chunk ≠ 0) (hfin : fin₁ ≤ fin₂) :
    (catchUpLoop hist fin₁ chunk none latest 0 b0 [] []).result = .complete ∧
    (∀ u, pickMax fin₂ (catchUpLoop hist fin₁ chunk none latest 0 b0 [] []).buf = some u →
      CatchUpTop hist latest fin₂ u) ∧
    (pickMax fin₂ (catchUpLoop hist fin₁ chunk none latest 0 b0 [] []).buf = none →
      ∀ u ∈ hist, ¬ (u.l1 ≤ fin₂ ∧ u.l1 ≤ latest)) := by
  have hb0 : ∀ k u, b0.get? k = some u → lastAt k hist = some u := fun k u h => (hc.2 k u h).1
  have r := catchUpLoop_post hist fin₁ chunk none latest b0 hh hb0 latest 0 b0 [] [] hc.1
    (Nat.le_refl _) (scannedAbove_init hist latest b0) (by intro u _ h1 h2; omega)
  generalize catchUpLoop hist fin₁ chunk none latest 0 b0 [] [] = o at r ⊢
  have hres : o.result = .complete := by
    cases hr : o.result with
    | complete => rfl
    | failed => exact absurd rfl (r.failed hr).1
    | hang => exact absurd (r.hang hr).1 hchunk
  obtain ⟨lo, hlo, hsc, hstop⟩ := r.complete hres
  -- an entry at or below fin₂ inside the scanned range exists whenever the scan stopped early
  have hwit : lo ≠ 0 → ∃ k0 w0, (k0, w0) ∈ o.buf ∧ lo ≤ k0 ∧ k0 ≤ fin₂ := by
    intro h0
    rcases hstop with h | ⟨u0, hu0, h1, h2, h3⟩
    · exact absurd h h0
    · obtain ⟨w0, hw0⟩ := lastAt_isSome_of_mem hu0
      refine ⟨u0.l1, w0, ?_, h1, by omega⟩
      rw [← Buf.get?_eq_some r.nodup, hsc u0.l1, if_pos ⟨h1, h2⟩]
      exact hw0
  refine ⟨hres, ?_, ?_⟩
  · intro u hpm
    obtain ⟨k, hm, hk, hmax⟩ := pickMax_some hpm
    have hget := (Buf.get?_eq_some r.nodup).mpr hm
    rw [hsc k] at hget
    have hin : lo ≤ k := by
      apply Classical.byContradiction
      intro hn
      have h0 : lo ≠ 0 := by omega
      obtain ⟨k0, w0, hm0, hl0, hf0⟩ := hwit h0
      have := hmax _ hm0 hf0
      simp only at this; omega
    by_cases hkl : k ≤ latest
    · rw [if_pos ⟨hin, hkl⟩] at hget
      refine ⟨k, hget, hk, hkl, ?_⟩
      intro k' w hw hk' hkl'
      by_cases hin' : lo ≤ k'
      · have : (k', w) ∈ o.buf := by
          rw [← Buf.get?_eq_some r.nodup, hsc k', if_pos ⟨hin', hkl'⟩]; exact hw
        exact hmax _ this hk'
      · omega
    · have : ¬ (lo ≤ k ∧ k ≤ latest) := fun h => hkl h.2
      rw [if_neg this] at hget
      exact absurd (hc.2 k u hget).2 hkl
  · intro hpm u hu hle
    have hnone := pickMax_none hpm
    obtain ⟨w, hw⟩ := lastAt_isSome_of_mem hu
    by_cases hin : lo ≤ u.l1
    · have : (u.l1, w) ∈ o.buf := by
        rw [← Buf.get?_eq_some r.nodup, hsc u.l1, if_pos ⟨hin, hle.2⟩]; exact hw
      exact hnone _ this hle.1
    · have h0 : lo ≠ 0 := by omega
      obtain ⟨k0, w0, hm0, _, hf0⟩ := hwit h0
      exact hnone _ hm0 hf0

/-- Two completed scans (any chunk sizes, any history-consistent starting buffers) select the
same log. -/
theorem catchUp_pick_eq {hist : List SU} {latest fin₁ fin₂ c c' : Nat} {b0 b0' : Buf}
    (hh : ∀ u ∈ hist, u.removed = false) (hb : HistConsistent hist latest b0)
    (hb' : HistConsistent hist latest b0') (hc : c ≠ 0) (hc' : c' ≠ 0) (hfin : fin₁ ≤ fin₂) :
    pickMax fin₂ (catchUpLoop hist fin₁ c none latest 0 b0 [] []).buf =
      pickMax fin₂ (catchUpLoop hist fin₁ c' none latest 0 b0' [] []).buf := by
  obtain ⟨_, hs, hn⟩ := catchUp_pick (fin₂ := fin₂) hh hb hc hfin
  obtain ⟨_, hs', hn'⟩ := catchUp_pick (fin₂ := fin₂) hh hb' hc' hfin
  cases h1 : pickMax fin₂ (catchUpLoop hist fin₁ c none latest 0 b0 [] []).buf with
  | none =>
    cases h2 : pickMax fin₂ (catchUpLoop hist fin₁ c' none latest 0 b0' [] []).buf with
    | none => rfl
    | some v =>
      obtain ⟨k, hk, hk1, hk2, _⟩ := hs' v h2
      have hv := lastAt_some hk
      exact absurd ⟨by rw [hv.2]; exact hk1, by rw [hv.2]; exact hk2⟩ (hn h1 v hv.1)
  | some u =>
    cases h2 : pickMax fin₂ (catchUpLoop hist fin₁ c' none latest 0 b0' [] []).buf with
    | none =>
      obtain ⟨k, hk, hk1, hk2, _⟩ := hs u h1
      have hv := lastAt_some hk
      exact absurd ⟨by rw [hv.2]; exact hk1, by rw [hv.2]; exact hk2⟩ (hn' h2 u hv.1)
    | some v => exact congrArg some ((hs u h1).unique (hs' v h2))

/-- A scan that was cut short by a failing log query leaves a history-consistent buffer. -/
theorem catchUp_failed_consistent {hist : List SU} {latest fin₁ chunk : Nat} {failAt : Option Nat}
    {b0 : Buf} (hh : ∀ u ∈ hist, u.removed = false) (hc : HistConsistent hist latest b0) :
    HistConsistent hist latest (catchUpLoop hist fin₁ chunk failAt latest 0 b0 [] []).buf := by
  have hb0 : ∀ k u, b0.get? k = some u → lastAt k hist = some u := fun k u h => (hc.2 k u h).1
  have r := catchUpLoop_post hist fin₁ chunk failAt latest b0 hh hb0 latest 0 b0 [] [] hc.1
    (Nat.le_refl _) (scannedAbove_init hist latest b0) (by intro u _ h1 h2; omega)
  generalize catchUpLoop hist fin₁ chunk failAt latest 0 b0 [] [] = o at r ⊢
  refine ⟨r.nodup, ?_⟩
  intro k u hget
  cases hr : o.result with
  | hang =>
    rw [(r.hang hr).2] at hget
    exact hc.2 k u hget
  | failed =>
    obtain ⟨_, lo, hsc, _⟩ := r.failed hr
    rw [hsc k] at hget
    by_cases h : lo < k ∧ k ≤ latest
    · rw [if_pos h] at hget; exact ⟨hget, h.2⟩
    · rw [if_neg h] at hget; exact hc.2 k u hget
  | complete =>
    obtain ⟨lo, _, hsc, _⟩ := r.complete hr
    rw [hsc k] at hget
    by_cases h : lo ≤ k ∧ k ≤ latest
    · rw [if_pos h] at hget; exact ⟨hget, h.2⟩
    · rw [if_neg h] at hget; exact hc.2 k u hget

/-! ### the catch-up is a trace of the event loop -/

theorem run_upds (g : Bool) (s : State) (evs : List SU) :
    run g s (evs.map Ev.upd) = ⟨evs.foldl applyStateUpdate s.buf, s.head⟩ := by
  induction evs generalizing s with
  | nil => rfl
  | cons u t ih =>
    have : run g s ((u :: t).map Ev.upd) = run g (step g s (.upd u)) (t.map Ev.upd) := rfl
    rw [this, ih]
    rfl

theorem catchUp_as_trace (g : Bool) (s : State) (hist : List SU) (latest fin₁ chunk : Nat)
    (failAt : Option Nat) (fin₂ : Nat) :
    let o := catchUpLoop hist fin₁ chunk failAt latest 0 s.buf [] []
    (catchUp g s hist latest fin₁ chunk failAt fin₂).1 =
      if o.result = .complete then run g s (o.applied.map Ev.upd ++ [Ev.tick fin₂])
      else run g s (o.applied.map Ev.upd) := by
  intro o
  have hb : o.buf = o.applied.foldl applyStateUpdate s.buf := by
    -- `trace` of the loop post-condition does not need any assumption on the buffer
    have key : ∀ (to calls : Nat) (buf : Buf) (q : List (Nat × Nat)) (ap : List SU),
        ∃ evs, (catchUpLoop hist fin₁ chunk failAt to calls buf q ap).applied = ap ++ evs ∧
          (catchUpLoop hist fin₁ chunk failAt to calls buf q ap).buf = evs.foldl applyStateUpdate buf := by
      intro to calls buf q ap
      fun_induction catchUpLoop hist fin₁ chunk failAt to calls buf q ap with
      | case1 => exact ⟨[], by simp, rfl⟩
      | case2 => exact ⟨[], by simp, rfl⟩
      | case3 to calls buf q ap hc frm q' hfail events buf' found hstop => exact ⟨events, rfl, rfl⟩
      | case4 to calls buf q ap hc frm q' hfail events buf' found hstop ih =>
        obtain ⟨evs, h1, h2⟩ := ih
        exact ⟨events ++ evs, by rw [h1]; simp, by rw [h2, List.foldl_append]⟩
    obtain ⟨evs, h1, h2⟩ := key latest 0 s.buf [] []
    show (catchUpLoop hist fin₁ chunk failAt latest 0 s.buf [] []).buf = _
    rw [h2]
    have : (catchUpLoop hist fin₁ chunk failAt latest 0 s.buf [] []).applied = evs := by
      rw [h1]; simp
    show _ = List.foldl applyStateUpdate s.buf o.applied
    rw [show o.applied = evs from this]
  unfold catchUp
  show (match o.result with
    | .complete => ((setL1Head g ⟨o.buf, s.head⟩ fin₂).1, o, (setL1Head g ⟨o.buf, s.head⟩ fin₂).2)
    | _ => (⟨o.buf, s.head⟩, o, none)).1 = _
  cases hr : o.result with
  | complete =>
    simp only [if_true]
    rw [run_snoc, run_upds, ← hb]
    rfl
  | failed =>
    simp only [reduceCtorEq, if_false]
    rw [run_upds, ← hb]
  | hang =>
    simp only [reduceCtorEq, if_false]
    rw [run_upds, ← hb]

end Juno.C17
