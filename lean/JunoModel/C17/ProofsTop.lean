import JunoModel.C17.ProofsLife
/-!
C17 — helper lemmas, part 8: the current code (`guard = true`) pins WHICH event is the head —
the lexicographic top (highest L1 block, delivered last in it) of the consumed events; the client's
`live` versus the property's `LiveExact`.
-/
namespace Juno.C17

theorem lexLe_trans {a b c : Stamped} (h1 : lexLe a b) (h2 : lexLe b c) : lexLe a c := by
  unfold lexLe at *; omega

/-- `StoredOrdered` for an optional stored head. -/
def StoredOrd (h0 : Option Head) (b0 : Nat) (tr : List Ev) : Prop :=
  ∀ h, h0 = some h → StoredOrdered h b0 tr

theorem StoredOrd.prefix {h0 : Option Head} {b0 : Nat} {tr : List Ev} {e : Ev}
    (h : StoredOrd h0 b0 (tr ++ [e])) : StoredOrd h0 b0 tr :=
  fun hd hh => (h hd hh).prefix

theorem L2OrderedStrict.prefix {tr : List Ev} {e : Ev} (h : L2OrderedStrict (tr ++ [e])) :
    L2OrderedStrict tr :=
  ⟨h.1.prefix, fun a b hab => h.2 a (b ++ [e]) (by simp [hab])⟩

/-- The consumed event is at or below the block of the stored head. -/
def Below (h0 : Option Head) (b0 : Nat) (c : Stamped) : Prop := h0 ≠ none ∧ c.2.l1 ≤ b0

structure GuardTop (h0 : Option Head) (b0 : Nat) (tr : List Ev) : Prop where
  later : ∀ p ∈ pend tr, ∀ c, Consumed tr c → p.2.l1 = c.2.l1 → c.1 < p.1
  head : ((∀ c, Consumed tr c → Below h0 b0 c) ∧ (run true (State.init h0) tr).head = h0) ∨
    ∃ e, Consumed tr e ∧ (∀ c, Consumed tr c → lexLe c e) ∧ (h0 ≠ none → b0 ≤ e.2.l1) ∧
      (run true (State.init h0) tr).head = some e.2.toHead

theorem guardTop_keep {h0 : Option Head} {b0 : Nat} {tr : List Ev} {x : Ev}
    (hc : ∀ e, Consumed (tr ++ [x]) e ↔ Consumed tr e)
    (hp : ∀ p ∈ pend (tr ++ [x]), p ∈ pend tr ∨ (p.1 = tr.length))
    (hst : ∀ c ∈ live tr, c.1 < tr.length)
    (hh : (run true (State.init h0) (tr ++ [x])).head = (run true (State.init h0) tr).head)
    (h : GuardTop h0 b0 tr) : GuardTop h0 b0 (tr ++ [x]) := by
  refine ⟨?_, ?_⟩
  · intro p hp' c hcc heq
    have hcc' := (hc c).mp hcc
    rcases hp p hp' with h1 | h1
    · exact h.later p h1 c hcc' heq
    · have := hst c hcc'.1; omega
  · rcases h.head with ⟨hall, hd⟩ | ⟨e, he, hmax, hb, hd⟩
    · exact Or.inl ⟨fun c hc' => hall c ((hc c).mp hc'), by rw [hh, hd]⟩
    · exact Or.inr ⟨e, (hc e).mpr he, fun c hc' => hmax c ((hc c).mp hc'), hb, by rw [hh, hd]⟩

theorem guardTop (h0 : Option Head) (b0 : Nat) (tr : List Ev) :
    FinMono tr → NoUnfinalise tr → L2OrderedStrict tr → StoredOrd h0 b0 tr → GuardTop h0 b0 tr := by
  refine snoc_ind (P := fun tr => FinMono tr → NoUnfinalise tr → L2OrderedStrict tr →
    StoredOrd h0 b0 tr → GuardTop h0 b0 tr) ?_ ?_ tr
  · intro _ _ _ _
    refine ⟨by intro p hp; simp [pend_nil] at hp, Or.inl ⟨?_, rfl⟩⟩
    intro c hc; simp [Consumed, live_nil] at hc
  · intro l x ih hF hU hL hS
    have h := ih hF.prefix hU.prefix hL.prefix hS.prefix
    have hle := consumedLe l hF.prefix hU.prefix
    have hb := basic true h0 l
    cases x with
    | upd u =>
      by_cases hr : u.removed = true
      · refine guardTop_keep (consumed_removal hr hle hU) ?_ hb.stamp
          (by rw [run_snoc, step_upd_head]) h
        intro p hp
        rw [pend_snoc] at hp
        simp only [pendStep, hr, if_true, List.mem_filter] at hp
        exact Or.inl hp.1
      · have hr' : u.removed = false := by simpa using hr
        refine guardTop_keep (consumed_upd (g := true) (h0 := h0) hr') ?_ hb.stamp
          (by rw [run_snoc, step_upd_head]) h
        intro p hp
        rw [pend_snoc] at hp
        simp only [pendStep, hr', Bool.false_eq_true, if_false, List.mem_cons] at hp
        rcases hp with hp | hp
        · exact Or.inr (by rw [hp])
        · exact Or.inl hp
    | subErr =>
      exact guardTop_keep (fun e => consumed_other e rfl rfl)
        (by intro p hp; rw [pend_snoc] at hp; exact Or.inl hp) hb.stamp (by rw [run_snoc]; rfl) h
    | resub ok =>
      exact guardTop_keep (fun e => consumed_other e rfl rfl)
        (by intro p hp; rw [pend_snoc] at hp; exact Or.inl hp) hb.stamp (by rw [run_snoc]; rfl) h
    | finErr =>
      exact guardTop_keep (fun e => consumed_other e rfl rfl)
        (by intro p hp; rw [pend_snoc] at hp; exact Or.inl hp) hb.stamp (by rw [run_snoc]; rfl) h
    | tick F =>
      have hcons := fun e => consumed_tick (g := true) (h0 := h0) (tr := l) (F := F) e
      have hord := hL.prefix.1.here
      have hin := hL.prefix.2 l [] (by simp)
      have hpend' : ∀ p, p ∈ pend (l ++ [.tick F]) ↔ (p ∈ pend l ∧ ¬ p.2.l1 ≤ F) := by
        intro p
        rw [pend_snoc]
        simp [pendStep]
      refine ⟨?_, ?_⟩
      · intro p hp c hc heq
        have hp' := (hpend' p).mp hp
        rcases (hcons c).mp hc with hc | hc
        · exact h.later p hp'.1 c hc heq
        · exact absurd (by omega : p.2.l1 ≤ F) hp'.2
      · rw [run_snoc]
        simp only [step, setL1Head]
        cases hpm : pickMax F (run true (State.init h0) l).buf with
        | none =>
          have hnone := pickMax_pend_none hpm
          have hsame : ∀ e, Consumed (l ++ [.tick F]) e ↔ Consumed l e := by
            intro e
            rw [hcons]
            constructor
            · rintro (hc | hc)
              · exact hc
              · exact absurd hc.2 (hnone e hc.1)
            · exact Or.inl
          simp only
          rcases h.head with ⟨hall, hd⟩ | ⟨e, he, hmax, hb0, hd⟩
          · exact Or.inl ⟨fun c hc => hall c ((hsame c).mp hc), hd⟩
          · exact Or.inr ⟨e, (hsame e).mpr he, fun c hc => hmax c ((hsame c).mp hc), hb0, hd⟩
        | some u =>
          obtain ⟨n, hn, huF, hmaxP⟩ := pickMax_pend_some hpm
          have hnl : (n, u) ∈ live l := hb.sub _ hn
          have hnew : Consumed (l ++ [.tick F]) (n, u) := (hcons _).mpr (Or.inr ⟨hn, huF⟩)
          simp only
          rcases h.head with ⟨hall, hd⟩ | ⟨e, he, hmax, hb0, hd⟩
          · -- the head is still the one found at start-up
            cases h0 with
            | none =>
              simp only [hd, skipCandidate, Bool.and_false, Bool.false_eq_true, if_false]
              refine Or.inr ⟨(n, u), hnew, ?_, by intro hne; exact absurd rfl hne, rfl⟩
              intro c hc
              rcases (hcons c).mp hc with hc | hc
              · exact absurd rfl (hall c hc).1
              · exact hmaxP c hc.1 hc.2
            | some hd0 =>
              have hsu := (hS.prefix hd0 rfl) l [] (by simp) (n, u) hnl
              simp only at hsu
              simp only [hd, skipCandidate, Bool.true_and]
              by_cases hlt : u.l2 < hd0.l2
              · simp only [hlt, decide_true, if_true]
                have hub : u.l1 ≤ b0 := by
                  apply Classical.byContradiction
                  intro hn'
                  have := hsu.2 (by omega)
                  omega
                refine Or.inl ⟨?_, by first | rfl | trivial⟩
                intro c hc
                rcases (hcons c).mp hc with hc | hc
                · exact hall c hc
                · have := lexLe_l1 (hmaxP c hc.1 hc.2)
                  exact ⟨by simp, by simp only at this; omega⟩
              · simp only [hlt, decide_false, Bool.false_eq_true, if_false]
                have hbu : b0 ≤ u.l1 := by
                  apply Classical.byContradiction
                  intro hn'
                  have := hsu.1 (by omega)
                  omega
                refine Or.inr ⟨(n, u), hnew, ?_, fun _ => hbu, rfl⟩
                intro c hc
                rcases (hcons c).mp hc with hc | hc
                · have hcb := (hall c hc).2
                  by_cases heq : c.2.l1 = u.l1
                  · exact Or.inr ⟨heq, Nat.le_of_lt (h.later (n, u) hn c hc heq.symm)⟩
                  · exact Or.inl (by simp only; omega)
                · exact hmaxP c hc.1 hc.2
          · simp only [hd, skipCandidate, SU.toHead]
            have hguard : (match h0 with | some _ => true | none => true) = true := by
              cases h0 <;> rfl
            by_cases hlt : u.l2 < e.2.l2
            · -- the candidate commits an older Starknet block: it lies in a lower L1 block
              have hul : u.l1 < e.2.l1 := by
                apply Classical.byContradiction
                intro hn'
                by_cases heq : u.l1 = e.2.l1
                · have hst := h.later (n, u) hn e he heq
                  have := hin e he.1 (n, u) hnl heq.symm (Nat.le_of_lt hst)
                  simp only at this; omega
                · have := hord e he.1 (n, u) hnl (by simp only; omega)
                  simp only at this; omega
              simp only [Bool.true_and, hlt, decide_true, if_true]
              refine Or.inr ⟨e, (hcons e).mpr (Or.inl he), ?_, hb0, rfl⟩
              intro c hc
              rcases (hcons c).mp hc with hc | hc
              · exact hmax c hc
              · exact lexLe_trans (hmaxP c hc.1 hc.2) (Or.inl hul)
            · simp only [Bool.true_and, hlt, decide_false, Bool.false_eq_true, if_false]
              have heu : lexLe e (n, u) := by
                by_cases heq : u.l1 = e.2.l1
                · exact Or.inr ⟨heq.symm, Nat.le_of_lt (h.later (n, u) hn e he heq)⟩
                · refine Or.inl ?_
                  apply Classical.byContradiction
                  intro hn'
                  have := hord (n, u) hnl e he.1 (by simp only at hn' ⊢; omega)
                  simp only at this; omega
              refine Or.inr ⟨(n, u), hnew, ?_, fun hne => Nat.le_trans (hb0 hne) (lexLe_l1 heu), rfl⟩
              intro c hc
              rcases (hcons c).mp hc with hc | hc
              · exact lexLe_trans (hmax c hc) heu
              · exact hmaxP c hc.1 hc.2

/-! ### `live` (the client's view) versus `LiveExact` (the property's) -/

theorem live_sub_exact {tr : List Ev} {n : Nat} {u : SU} (h : (n, u) ∈ live tr) :
    LiveExact tr n u := by
  obtain ⟨a, b, hab, hn, hr, hb⟩ := (mem_live_iff tr n u).mp h
  refine ⟨a, b, hab, hn, hr, ?_⟩
  intro r hr' hrm hs
  have := hb r hr' hrm
  have := hs.1
  omega

theorem app_cons_inj {tr a a' b b' : List Ev} {x x' : Ev} (h1 : tr = a ++ x :: b)
    (h2 : tr = a' ++ x' :: b') (hl : a.length = a'.length) : a = a' ∧ x = x' ∧ b = b' := by
  have h := h1.symm.trans h2
  have := List.append_inj h hl
  exact ⟨this.1, (List.cons.inj this.2).1, (List.cons.inj this.2).2⟩

theorem live_iff_exact {tr : List Ev} (hs : Settled tr) (n : Nat) (u : SU) :
    (n, u) ∈ live tr ↔ LiveExact tr n u := by
  constructor
  · exact live_sub_exact
  · rintro ⟨a, b, hab, hn, hr, hb⟩
    refine (mem_live_iff tr n u).mpr ⟨a, b, hab, hn, hr, ?_⟩
    intro r hr' hrm
    apply Classical.byContradiction
    intro hnot
    obtain ⟨r', hr'b, hr'm, hsame⟩ := hs a u b hab hr ⟨r, hr', hrm, by omega⟩
    exact hb r' hr'b hr'm hsame

/-- The head stems from an event that is STILL live (whole trace), for every trace of a provider
that never un-finalises; no hypothesis on commits or delivery order. -/
theorem head_consumed (h0 : Option Head) (tr : List Ev) : FinMono tr → NoUnfinalise tr →
    ((run true (State.init h0) tr).head = h0 ∨
      ∃ e, Consumed tr e ∧ (run true (State.init h0) tr).head = some e.2.toHead) := by
  refine snoc_ind (P := fun tr => FinMono tr → NoUnfinalise tr →
    ((run true (State.init h0) tr).head = h0 ∨
      ∃ e, Consumed tr e ∧ (run true (State.init h0) tr).head = some e.2.toHead)) ?_ ?_ tr
  · intro _ _; exact Or.inl rfl
  · intro l x ih hF hU
    have h := ih hF.prefix hU.prefix
    have hle := consumedLe l hF.prefix hU.prefix
    have keep : (∀ e, Consumed l e → Consumed (l ++ [x]) e) →
        (run true (State.init h0) (l ++ [x])).head = (run true (State.init h0) l).head →
        ((run true (State.init h0) (l ++ [x])).head = h0 ∨
          ∃ e, Consumed (l ++ [x]) e ∧
            (run true (State.init h0) (l ++ [x])).head = some e.2.toHead) := by
      intro hc hh
      rcases h with h | ⟨e, he, hd⟩
      · exact Or.inl (by rw [hh, h])
      · exact Or.inr ⟨e, hc e he, by rw [hh, hd]⟩
    cases x with
    | upd u =>
      by_cases hr : u.removed = true
      · exact keep (fun e he => (consumed_removal hr hle hU e).mpr he) (by rw [run_snoc]; rfl)
      · have hr' : u.removed = false := by simpa using hr
        exact keep (fun e he => (consumed_upd (g := true) (h0 := h0) hr' e).mpr he)
          (by rw [run_snoc]; rfl)
    | subErr => exact keep (fun e he => (consumed_other e rfl rfl).mpr he) (by rw [run_snoc]; rfl)
    | resub ok => exact keep (fun e he => (consumed_other e rfl rfl).mpr he) (by rw [run_snoc]; rfl)
    | finErr => exact keep (fun e he => (consumed_other e rfl rfl).mpr he) (by rw [run_snoc]; rfl)
    | tick F =>
      have hcons := fun e => consumed_tick (g := true) (h0 := h0) (tr := l) (F := F) e
      rcases tick_head_cases true (run true (State.init h0) l) F with hk | ⟨u, hpm, hh⟩
      · exact keep (fun e he => (hcons e).mpr (Or.inl he)) (by rw [run_snoc]; exact hk)
      · obtain ⟨n, hn, huF, _⟩ := pickMax_pend_some hpm
        exact Or.inr ⟨(n, u), (hcons _).mpr (Or.inr ⟨hn, huF⟩), by rw [run_snoc]; exact hh⟩

end Juno.C17
