import JunoModel.C17.Proofs
import JunoModel.C17.Spec
/-!
C17 — helper lemmas, part 2: invariants of the event loop over all traces.

Ghost state: `pend tr` — the live events that no poll has consumed yet. The buffer of the real
client represents exactly `pend tr` (`Basic.rep`), whatever the trace.
-/
namespace Juno.C17

/-! ### induction from the right and snoc equations -/

theorem snoc_ind {α : Type} {P : List α → Prop} (nil : P [])
    (snoc : ∀ l a, P l → P (l ++ [a])) : ∀ l, P l := by
  have h : ∀ r : List α, P r.reverse := by
    intro r
    induction r with
    | nil => simpa using nil
    | cons a r ih => rw [List.reverse_cons]; exact snoc _ _ ih
  intro l
  have := h l.reverse
  rwa [List.reverse_reverse] at this

theorem run_snoc (g : Bool) (s : State) (tr : List Ev) (e : Ev) :
    run g s (tr ++ [e]) = step g (run g s tr) e := by
  simp [run, List.foldl_append]

theorem live_nil : live [] = [] := rfl
theorem live_snoc (tr : List Ev) (e : Ev) : live (tr ++ [e]) = liveStep (live tr) tr.length e := by
  simp [live, liveR]

theorem lastFin_nil : lastFin [] = none := rfl
theorem lastFin_snoc (tr : List Ev) (e : Ev) : lastFin (tr ++ [e]) = finStep (lastFin tr) e := by
  simp [lastFin, lastFinR]

def pendStep (P : List Stamped) (n : Nat) : Ev → List Stamped
  | .upd u => if u.removed then P.filter (fun e => decide (e.2.l1 < u.l1)) else (n, u) :: P
  | .tick F => P.filter (fun e => !decide (e.2.l1 ≤ F))
  | _ => P

def pendR : List Ev → List Stamped
  | [] => []
  | e :: older => pendStep (pendR older) older.length e

/-- Live events not yet consumed by a poll (delivered after it, or above its finalised height). -/
def pend (tr : List Ev) : List Stamped := pendR tr.reverse

theorem pend_nil : pend [] = [] := rfl
theorem pend_snoc (tr : List Ev) (e : Ev) : pend (tr ++ [e]) = pendStep (pend tr) tr.length e := by
  simp [pend, pendR]

/-! ### hypotheses are prefix closed -/

theorem FinMono.prefix {tr : List Ev} {e : Ev} (h : FinMono (tr ++ [e])) : FinMono tr := by
  intro a F b hab
  exact h a F (b ++ [e]) (by simp [hab])

theorem NoUnfinalise.prefix {tr : List Ev} {e : Ev} (h : NoUnfinalise (tr ++ [e])) :
    NoUnfinalise tr := by
  intro a r b hab
  exact h a r (b ++ [e]) (by simp [hab])

theorem InOrder.prefix {tr : List Ev} {e : Ev} (h : InOrder (tr ++ [e])) : InOrder tr := by
  intro a u b hab
  exact h a u (b ++ [e]) (by simp [hab])

theorem L2Ordered.prefix {tr : List Ev} {e : Ev} (h : L2Ordered (tr ++ [e])) : L2Ordered tr := by
  intro a b hab
  exact h a (b ++ [e]) (by simp [hab])

theorem L2Ordered.here {tr : List Ev} (h : L2Ordered tr) :
    ∀ x ∈ live tr, ∀ y ∈ live tr, x.2.l1 < y.2.l1 → x.2.l2 < y.2.l2 :=
  h tr [] (by simp)

/-! ### existence of the latest event of an L1 block -/

theorem exists_max_stamp (P : List Stamped) (k : Nat) (p : Stamped) (hp : p ∈ P) (hk : p.2.l1 = k) :
    ∃ n u, (n, u) ∈ P ∧ u.l1 = k ∧ ∀ e ∈ P, e.2.l1 = k → e.1 ≤ n := by
  induction P generalizing p with
  | nil => cases hp
  | cons q t ih =>
    by_cases hex : ∃ p' ∈ t, p'.2.l1 = k
    · obtain ⟨p', hp', hk'⟩ := hex
      obtain ⟨n, u, hm, hu, hmax⟩ := ih p' hp' hk'
      by_cases hq : q.2.l1 = k ∧ n < q.1
      · refine ⟨q.1, q.2, by simp, hq.1, ?_⟩
        intro e he hek
        rcases List.mem_cons.mp he with rfl | he
        · exact Nat.le_refl _
        · exact Nat.le_of_lt (Nat.lt_of_le_of_lt (hmax e he hek) hq.2)
      · refine ⟨n, u, List.mem_cons_of_mem _ hm, hu, ?_⟩
        intro e he hek
        rcases List.mem_cons.mp he with rfl | he
        · have : ¬ n < e.1 := fun hlt => hq ⟨hek, hlt⟩
          omega
        · exact hmax e he hek
    · have hq : p = q := by
        rcases List.mem_cons.mp hp with h | h
        · exact h
        · exact absurd ⟨p, h, hk⟩ hex
      subst hq
      refine ⟨p.1, p.2, by simp, hk, ?_⟩
      intro e he hek
      rcases List.mem_cons.mp he with rfl | he
      · exact Nat.le_refl _
      · exact absurd ⟨e, he, hek⟩ hex

/-! ### the basic invariant: holds for every trace, both code variants -/

/-- The buffer represents the pending events: per L1 block the one delivered last. -/
def Rep (b : Buf) (P : List Stamped) : Prop :=
  ∀ k u, (k, u) ∈ b ↔ ∃ n, (n, u) ∈ P ∧ u.l1 = k ∧ ∀ e ∈ P, e.2.l1 = k → e.1 ≤ n

structure Basic (g : Bool) (h0 : Option Head) (tr : List Ev) : Prop where
  nodup : (run g (State.init h0) tr).buf.NodupKeys
  rep : Rep (run g (State.init h0) tr).buf (pend tr)
  sub : ∀ e ∈ pend tr, e ∈ live tr
  stamp : ∀ e ∈ live tr, e.1 < tr.length

theorem rep_filter {b : Buf} {P : List Stamped} (q : Nat → Bool) (h : Rep b P) :
    Rep (b.filter (fun e => q e.1)) (P.filter (fun e => q e.2.l1)) := by
  intro k u
  simp only [List.mem_filter]
  constructor
  · rintro ⟨hm, hq⟩
    obtain ⟨n, hn, hu, hmax⟩ := (h k u).mp hm
    refine ⟨n, ⟨hn, by simpa [hu] using hq⟩, hu, ?_⟩
    intro e he hek
    exact hmax e he.1 hek
  · rintro ⟨n, ⟨hn, hq⟩, hu, hmax⟩
    have hqk : q k = true := by simpa [hu] using hq
    refine ⟨(h k u).mpr ⟨n, hn, hu, ?_⟩, hqk⟩
    intro e he hek
    exact hmax e ⟨he, by simpa [hek] using hqk⟩ hek

theorem rep_insert {b : Buf} {P : List Stamped} {n : Nat} {u : SU} (h : Rep b P)
    (hn : ∀ e ∈ P, e.1 < n) : Rep (b.insert u.l1 u) ((n, u) :: P) := by
  intro k v
  rw [Buf.mem_insert]
  constructor
  · rintro (heq | ⟨hm, hne⟩)
    · cases heq
      refine ⟨n, by simp, rfl, ?_⟩
      intro e he _
      rcases List.mem_cons.mp he with rfl | he
      · exact Nat.le_refl _
      · exact Nat.le_of_lt (hn e he)
    · obtain ⟨m, hm', hv, hmax⟩ := (h k v).mp hm
      refine ⟨m, List.mem_cons_of_mem _ hm', hv, ?_⟩
      intro e he hek
      rcases List.mem_cons.mp he with rfl | he
      · exact absurd hek.symm (by simpa using hne)
      · exact hmax e he hek
  · rintro ⟨m, hm, hv, hmax⟩
    rcases List.mem_cons.mp hm with heq | hm'
    · cases heq
      exact Or.inl (by rw [← hv])
    · by_cases hk : k = u.l1
      · have := hmax (n, u) (by simp) hk.symm
        have := hn _ hm'
        simp at *
        omega
      · refine Or.inr ⟨(h k v).mpr ⟨m, hm', hv, ?_⟩, hk⟩
        intro e he hek
        exact hmax e (List.mem_cons_of_mem _ he) hek

theorem basic_nil (g : Bool) (h0 : Option Head) : Basic g h0 [] := by
  refine ⟨Buf.nodup_nil, ?_, ?_, ?_⟩
  · intro k u
    simp [run, State.init, pend_nil]
  · intro e he; simp [pend_nil] at he
  · intro e he; simp [live_nil] at he

theorem setL1Head_buf (g : Bool) (s : State) (F : Nat) :
    (setL1Head g s F).1.buf = s.buf.prune F := by
  unfold setL1Head
  split
  · rfl
  · split <;> rfl

theorem basic_snoc {g : Bool} {h0 : Option Head} {tr : List Ev} (e : Ev)
    (h : Basic g h0 tr) : Basic g h0 (tr ++ [e]) := by
  have hst : ∀ x ∈ pend tr, x.1 < tr.length := fun x hx => h.stamp x (h.sub x hx)
  cases e with
  | upd u =>
    by_cases hr : u.removed = true
    · refine ⟨?_, ?_, ?_, ?_⟩
      · rw [run_snoc]; simp only [step]; exact nodup_applyStateUpdate h.nodup
      · rw [run_snoc, pend_snoc]
        simp only [step, applyStateUpdate, hr, if_true, pendStep, Buf.dropFrom]
        exact rep_filter (fun k => decide (k < u.l1)) h.rep
      · rw [pend_snoc, live_snoc]
        simp only [pendStep, liveStep, hr, if_true, List.mem_filter]
        intro x hx; exact ⟨h.sub x hx.1, hx.2⟩
      · rw [live_snoc]
        simp only [liveStep, hr, if_true, List.mem_filter, List.length_append, List.length_cons,
          List.length_nil]
        intro x hx; have := h.stamp x hx.1; omega
    · have hr' : u.removed = false := by simpa using hr
      refine ⟨?_, ?_, ?_, ?_⟩
      · rw [run_snoc]; simp only [step]; exact nodup_applyStateUpdate h.nodup
      · rw [run_snoc, pend_snoc]
        simp only [step, applyStateUpdate, hr', pendStep, Bool.false_eq_true, if_false]
        exact rep_insert h.rep hst
      · rw [pend_snoc, live_snoc]
        simp only [pendStep, liveStep, hr', Bool.false_eq_true, if_false, List.mem_cons]
        intro x hx
        rcases hx with hx | hx
        · exact Or.inl hx
        · exact Or.inr (h.sub x hx)
      · rw [live_snoc]
        simp only [liveStep, hr', Bool.false_eq_true, if_false, List.mem_cons, List.length_append,
          List.length_cons, List.length_nil]
        intro x hx
        rcases hx with hx | hx
        · subst hx; simp
        · have := h.stamp x hx; omega
  | tick F =>
    refine ⟨?_, ?_, ?_, ?_⟩
    · rw [run_snoc]; simp only [step, setL1Head_buf]; exact Buf.nodup_prune h.nodup
    · rw [run_snoc, pend_snoc]
      simp only [step, setL1Head_buf, pendStep, Buf.prune]
      exact rep_filter (fun k => !decide (k ≤ F)) h.rep
    · rw [pend_snoc, live_snoc]
      simp only [pendStep, liveStep, List.mem_filter]
      intro x hx; exact h.sub x hx.1
    · rw [live_snoc]
      simp only [liveStep, List.length_append, List.length_cons, List.length_nil]
      intro x hx; have := h.stamp x hx; omega
  | subErr =>
    refine ⟨?_, ?_, ?_, ?_⟩
    · rw [run_snoc]; exact h.nodup
    · rw [run_snoc, pend_snoc]; exact h.rep
    · rw [pend_snoc, live_snoc]; exact h.sub
    · rw [live_snoc]
      simp only [liveStep, List.length_append, List.length_cons, List.length_nil]
      intro x hx; have := h.stamp x hx; omega
  | resub ok =>
    refine ⟨?_, ?_, ?_, ?_⟩
    · rw [run_snoc]; exact h.nodup
    · rw [run_snoc, pend_snoc]; exact h.rep
    · rw [pend_snoc, live_snoc]; exact h.sub
    · rw [live_snoc]
      simp only [liveStep, List.length_append, List.length_cons, List.length_nil]
      intro x hx; have := h.stamp x hx; omega
  | finErr =>
    refine ⟨?_, ?_, ?_, ?_⟩
    · rw [run_snoc]; exact h.nodup
    · rw [run_snoc, pend_snoc]; exact h.rep
    · rw [pend_snoc, live_snoc]; exact h.sub
    · rw [live_snoc]
      simp only [liveStep, List.length_append, List.length_cons, List.length_nil]
      intro x hx; have := h.stamp x hx; omega

theorem basic (g : Bool) (h0 : Option Head) (tr : List Ev) : Basic g h0 tr :=
  snoc_ind (P := Basic g h0) (basic_nil g h0) (fun _ e ih => basic_snoc e ih) tr

/-- What the selection loop returns, in terms of the pending events. -/
theorem pickMax_pend_some {g : Bool} {h0 : Option Head} {tr : List Ev} {F : Nat} {u : SU}
    (h : pickMax F (run g (State.init h0) tr).buf = some u) :
    ∃ n, (n, u) ∈ pend tr ∧ u.l1 ≤ F ∧
      ∀ c ∈ pend tr, c.2.l1 ≤ F → lexLe c (n, u) := by
  have hb := basic g h0 tr
  obtain ⟨k, hm, hk, hmax⟩ := pickMax_some h
  obtain ⟨n, hn, hu, hst⟩ := (hb.rep k u).mp hm
  refine ⟨n, hn, by omega, ?_⟩
  intro c hc hcF
  obtain ⟨m, w, hmw, hw, hmx⟩ := exists_max_stamp (pend tr) c.2.l1 c hc rfl
  have hin : (c.2.l1, w) ∈ (run g (State.init h0) tr).buf :=
    (hb.rep c.2.l1 w).mpr ⟨m, hmw, hw, hmx⟩
  have hle : c.2.l1 ≤ k := hmax _ hin hcF
  by_cases heq : c.2.l1 = k
  · exact Or.inr ⟨by simp [heq, hu], hst c hc heq⟩
  · exact Or.inl (by simp [hu]; omega)

theorem pickMax_pend_none {g : Bool} {h0 : Option Head} {tr : List Ev} {F : Nat}
    (h : pickMax F (run g (State.init h0) tr).buf = none) :
    ∀ c ∈ pend tr, ¬ c.2.l1 ≤ F := by
  have hb := basic g h0 tr
  intro c hc hcF
  obtain ⟨m, w, hmw, hw, hmx⟩ := exists_max_stamp (pend tr) c.2.l1 c hc rfl
  have hin : (c.2.l1, w) ∈ (run g (State.init h0) tr).buf :=
    (hb.rep c.2.l1 w).mpr ⟨m, hmw, hw, hmx⟩
  exact pickMax_none h _ hin hcF

end Juno.C17
