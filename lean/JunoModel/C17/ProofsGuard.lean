import JunoModel.C17.ProofsHead
/-!
C17 — helper lemmas, part 4: the repaired variant (`guard = true`): what the stored head is
without any delivery-order hypothesis, and monotonicity of the Starknet block number.
-/
namespace Juno.C17

theorem lexLe_l1 {a b : Stamped} (h : lexLe a b) : a.2.l1 ≤ b.2.l1 := by
  unfold lexLe at h; omega

theorem consumed_tick {g : Bool} {h0 : Option Head} {tr : List Ev} {F : Nat} (e : Stamped) :
    Consumed (tr ++ [.tick F]) e ↔ (Consumed tr e ∨ (e ∈ pend tr ∧ e.2.l1 ≤ F)) := by
  have hb := basic g h0 tr
  unfold Consumed
  rw [live_snoc, pend_snoc]
  simp only [liveStep, pendStep, List.mem_filter, Bool.not_eq_true', decide_eq_false_iff_not]
  constructor
  · rintro ⟨h1, h2⟩
    by_cases hp : e ∈ pend tr
    · refine Or.inr ⟨hp, ?_⟩
      apply Classical.byContradiction
      intro hn; exact h2 ⟨hp, hn⟩
    · exact Or.inl ⟨h1, hp⟩
  · rintro (⟨h1, h2⟩ | ⟨h1, h2⟩)
    · exact ⟨h1, fun hp => h2 hp.1⟩
    · exact ⟨hb.sub e h1, fun hp => hp.2 h2⟩

theorem consumed_removal {tr : List Ev} {u : SU} (hr : u.removed = true)
    (hle : ∀ e, Consumed tr e → ∃ F, lastFin tr = some F ∧ e.2.l1 ≤ F)
    (hU : NoUnfinalise (tr ++ [.upd u])) (e : Stamped) :
    Consumed (tr ++ [.upd u]) e ↔ Consumed tr e := by
  unfold Consumed
  rw [live_snoc, pend_snoc]
  simp only [liveStep, pendStep, hr, if_true, List.mem_filter, decide_eq_true_eq]
  constructor
  · rintro ⟨⟨h1, h2⟩, h3⟩
    exact ⟨h1, fun hp => h3 ⟨hp, h2⟩⟩
  · rintro ⟨h1, h2⟩
    obtain ⟨F, hF', hle'⟩ := hle e ⟨h1, h2⟩
    have := hU tr u [] rfl hr F hF'
    exact ⟨⟨h1, by omega⟩, fun hp => h2 hp.1⟩

/-- Everything a poll has consumed lies at or below the last reported finalised height. -/
theorem consumedLe (tr : List Ev) : FinMono tr → NoUnfinalise tr →
    ∀ e, Consumed tr e → ∃ F, lastFin tr = some F ∧ e.2.l1 ≤ F := by
  refine snoc_ind (P := fun tr => FinMono tr → NoUnfinalise tr →
    ∀ e, Consumed tr e → ∃ F, lastFin tr = some F ∧ e.2.l1 ≤ F) ?_ ?_ tr
  · intro _ _ e he; simp [Consumed, live_nil] at he
  · intro l x ih hF hU e he
    have ih' := ih hF.prefix hU.prefix
    cases x with
    | upd u =>
      rw [lastFin_snoc]; simp only [finStep]
      by_cases hr : u.removed = true
      · exact ih' e ((consumed_removal hr ih' hU e).mp he)
      · have hr' : u.removed = false := by simpa using hr
        exact ih' e ((consumed_upd (g := false) (h0 := none) hr' e).mp he)
    | tick F =>
      rw [lastFin_snoc]; simp only [finStep]
      refine ⟨F, rfl, ?_⟩
      rcases (consumed_tick (g := false) (h0 := none) e).mp he with hc | hc
      · obtain ⟨F', hF', hle⟩ := ih' e hc
        have := hF l F [] rfl F' hF'
        omega
      · exact hc.2
    | subErr => rw [lastFin_snoc]; exact ih' e ((consumed_other e rfl rfl).mp he)
    | resub ok => rw [lastFin_snoc]; exact ih' e ((consumed_other e rfl rfl).mp he)
    | finErr => rw [lastFin_snoc]; exact ih' e ((consumed_other e rfl rfl).mp he)

/-- Head invariant of the repaired variant, started with no stored head. -/
def GuardHead (tr : List Ev) : Prop :=
  ((∀ e ∈ live tr, e ∈ pend tr) ∧ (run true (State.init none) tr).head = none) ∨
  ∃ e, Consumed tr e ∧ (∀ c, Consumed tr c → c.2.l1 ≤ e.2.l1) ∧
    (run true (State.init none) tr).head = some e.2.toHead

theorem guardHead_keep {tr : List Ev} {x : Ev}
    (hc : ∀ e, Consumed (tr ++ [x]) e ↔ Consumed tr e)
    (hl : ∀ e, e ∈ live (tr ++ [x]) → e ∈ pend (tr ++ [x]) ∨ Consumed tr e)
    (hh : (run true (State.init none) (tr ++ [x])).head = (run true (State.init none) tr).head)
    (h : GuardHead tr) : GuardHead (tr ++ [x]) := by
  rcases h with ⟨hall, hd⟩ | ⟨e, he, hmax, hd⟩
  · refine Or.inl ⟨?_, by rw [hh, hd]⟩
    intro e he
    rcases hl e he with h1 | h1
    · exact h1
    · exact absurd (hall e h1.1) h1.2
  · exact Or.inr ⟨e, (hc e).mpr he, fun c hc' => hmax c ((hc c).mp hc'), by rw [hh, hd]⟩

theorem guardHead (tr : List Ev) : FinMono tr → NoUnfinalise tr → L2Ordered tr → GuardHead tr := by
  refine snoc_ind (P := fun tr => FinMono tr → NoUnfinalise tr → L2Ordered tr → GuardHead tr)
    ?_ ?_ tr
  · intro _ _ _
    exact Or.inl ⟨by intro e he; simp [live_nil] at he, rfl⟩
  · intro l x ih hF hU hL
    have h := ih hF.prefix hU.prefix hL.prefix
    have hle := consumedLe l hF.prefix hU.prefix
    have hb := basic true none l
    cases x with
    | upd u =>
      by_cases hr : u.removed = true
      · refine guardHead_keep (consumed_removal hr hle hU) ?_ (by rw [run_snoc, step_upd_head]) h
        intro e he
        by_cases hp : e ∈ pend (l ++ [.upd u])
        · exact Or.inl hp
        · exact Or.inr ((consumed_removal hr hle hU e).mp ⟨he, hp⟩)
      · have hr' : u.removed = false := by simpa using hr
        refine guardHead_keep (consumed_upd (g := true) (h0 := none) hr') ?_
          (by rw [run_snoc, step_upd_head]) h
        intro e he
        by_cases hp : e ∈ pend (l ++ [.upd u])
        · exact Or.inl hp
        · exact Or.inr ((consumed_upd (g := true) (h0 := none) hr' e).mp ⟨he, hp⟩)
    | subErr =>
      refine guardHead_keep (fun e => consumed_other e rfl rfl) ?_ (by rw [run_snoc]; rfl) h
      intro e he
      by_cases hp : e ∈ pend (l ++ [.subErr])
      · exact Or.inl hp
      · exact Or.inr ((consumed_other e rfl rfl).mp ⟨he, hp⟩)
    | resub ok =>
      refine guardHead_keep (fun e => consumed_other e rfl rfl) ?_ (by rw [run_snoc]; rfl) h
      intro e he
      by_cases hp : e ∈ pend (l ++ [.resub ok])
      · exact Or.inl hp
      · exact Or.inr ((consumed_other e rfl rfl).mp ⟨he, hp⟩)
    | finErr =>
      refine guardHead_keep (fun e => consumed_other e rfl rfl) ?_ (by rw [run_snoc]; rfl) h
      intro e he
      by_cases hp : e ∈ pend (l ++ [.finErr])
      · exact Or.inl hp
      · exact Or.inr ((consumed_other e rfl rfl).mp ⟨he, hp⟩)
    | tick F =>
      have hcons := fun e => consumed_tick (g := true) (h0 := none) (tr := l) (F := F) e
      have hord := hL.prefix.here
      unfold GuardHead
      rw [run_snoc]
      simp only [step, setL1Head]
      cases hpm : pickMax F (run true (State.init none) l).buf with
      | none =>
        have hnone := pickMax_pend_none hpm
        have hsame : ∀ e, Consumed (l ++ [.tick F]) e ↔ Consumed l e := by
          intro e
          rw [hcons]
          constructor
          · rintro (hc | hc)
            · exact hc
            · exact absurd hc.2 (hnone e hc.1)
          · exact Or.inl
        simp only
        rcases h with ⟨hall, hd⟩ | ⟨e, he, hmax, hd⟩
        · refine Or.inl ⟨?_, hd⟩
          intro e he
          rw [live_snoc] at he; rw [pend_snoc]
          simp only [liveStep, pendStep, List.mem_filter, Bool.not_eq_true',
            decide_eq_false_iff_not] at he ⊢
          exact ⟨hall e he, hnone e (hall e he)⟩
        · exact Or.inr ⟨e, (hsame e).mpr he, fun c hc => hmax c ((hsame c).mp hc), hd⟩
      | some u =>
        obtain ⟨n, hn, huF, hmaxP⟩ := pickMax_pend_some hpm
        have hnl : (n, u) ∈ live l := hb.sub _ hn
        simp only
        rcases h with ⟨hall, hd⟩ | ⟨e, he, hmax, hd⟩
        · -- nothing stored yet: the candidate is taken
          simp only [hd, skipCandidate, Bool.and_false, Bool.false_eq_true, if_false]
          refine Or.inr ⟨(n, u), (hcons _).mpr (Or.inr ⟨hn, huF⟩), ?_, rfl⟩
          intro c hc
          rcases (hcons c).mp hc with hc | hc
          · exact absurd (hall c hc.1) hc.2
          · exact lexLe_l1 (hmaxP c hc.1 hc.2)
        · simp only [hd, skipCandidate, Bool.true_and, SU.toHead]
          by_cases hlt : u.l2 < e.2.l2
          · -- candidate commits an older Starknet block: skipped
            simp only [hlt, decide_true, if_true]
            have hue : u.l1 ≤ e.2.l1 := by
              apply Classical.byContradiction
              intro hn'
              have := hord e he.1 (n, u) hnl (by simp only; omega)
              simp only at this; omega
            refine Or.inr ⟨e, (hcons e).mpr (Or.inl he), ?_, rfl⟩
            intro c hc
            rcases (hcons c).mp hc with hc | hc
            · exact hmax c hc
            · have := lexLe_l1 (hmaxP c hc.1 hc.2)
              simp only at this; omega
          · simp only [hlt, decide_false, Bool.false_eq_true, if_false]
            have heu : e.2.l1 ≤ u.l1 := by
              apply Classical.byContradiction
              intro hn'
              have := hord (n, u) hnl e he.1 (by simp only; omega)
              simp only at this; omega
            refine Or.inr ⟨(n, u), (hcons _).mpr (Or.inr ⟨hn, huF⟩), ?_, rfl⟩
            intro c hc
            rcases (hcons c).mp hc with hc | hc
            · have := hmax c hc
              simp only; omega
            · exact lexLe_l1 (hmaxP c hc.1 hc.2)

/-! ### monotonicity of the Starknet block number -/

/-- The Starknet block number of the stored head (`none`: nothing stored). -/
def headL2 (s : State) : Option Nat := s.head.map (·.l2)

/-- `a ≤ b` on optional block numbers, `none` (nothing stored) being the bottom. -/
def optLe : Option Nat → Option Nat → Prop
  | none, _ => True
  | some _, none => False
  | some a, some b => a ≤ b

theorem optLe_refl (a : Option Nat) : optLe a a := by
  cases a <;> simp [optLe]

theorem optLe_trans {a b c : Option Nat} (h1 : optLe a b) (h2 : optLe b c) : optLe a c := by
  cases a <;> cases b <;> cases c <;> simp_all [optLe]
  omega

theorem guard_step_mono (s : State) (x : Ev) : optLe (headL2 s) (headL2 (step true s x)) := by
  cases x with
  | upd u => exact optLe_refl _
  | subErr => exact optLe_refl _
  | resub ok => exact optLe_refl _
  | finErr => exact optLe_refl _
  | tick F =>
    simp only [step, setL1Head]
    cases pickMax F s.buf with
    | none => exact optLe_refl _
    | some c =>
      simp only
      cases hh : s.head with
      | none => simp [headL2, hh, optLe]
      | some hd =>
        simp only [skipCandidate, Bool.true_and]
        by_cases hlt : c.l2 < hd.l2
        · simp [hlt, headL2, hh, optLe]
        · simp [hlt, headL2, hh, optLe, SU.toHead]; omega

theorem guard_run_mono (s : State) (tr : List Ev) : optLe (headL2 s) (headL2 (run true s tr)) := by
  induction tr generalizing s with
  | nil => exact optLe_refl _
  | cons x t ih =>
    have : run true s (x :: t) = run true (step true s x) t := rfl
    rw [this]
    exact optLe_trans (guard_step_mono s x) (ih _)

end Juno.C17
