import JunoModel.C17.ProofsGlue
/-!
C17 — the recorded L1 head is always a finalised, still-canonical L1 state commit.
Property theorems about the code AS IT IS in /repo (`guard = true`, i.e. with commit 5084dce);
statements only, proofs in `Proofs*.lean`.

Vocabulary (`Spec.lean`). A trace `tr : List Ev` is the sequence of inputs the client's event loop
has processed (`upd`: update or removal notice received; `tick F`: completed finalised-height poll;
subscription errors, resubscription attempts, failed polls). `run true s tr` is the client after `tr`.

* `LiveExact tr n u`   — THE PROPERTY'S NOTION: `u` was delivered at position `n` and no later removal
                         notice names it (same L1 block, Starknet block, hash, root);
* `IsTopExact F tr n u` — `(n,u)` is the `LiveExact` event with the highest L1 block ≤ F, and of the
                         several events of that block the one delivered last;
* `live tr`            — the client's coarser view (a notice for block b retires everything ≥ b);
                         `live ⊆ LiveExact`, equal on `Settled` traces.

Provider assumptions granted by the property: `FinMono` + `NoUnfinalise` (never un-finalises), removal
notices are delivered. `L2OrderedStrict` is a fact about the core contract and L1 log order (a later
log commits a later Starknet block). `Settled` (a removal-ORDER assumption: no replacement log
overtakes a removal notice) is NOT granted; juno needs it (`head_spec_partial`) and violates the
property without it (`head_spec_needs_removal_order`).

Property clauses and where they are:
  head = highest delivered / not removed / finalised event ........ `head_spec_partial` (+ negation), `head_spec_life`
  never above the finalised height, never a removed log ........... `never_above_finalised`, `head_still_canonical`
  never regresses to an older Starknet block ...................... `l2_monotone`
  several events per Ethereum block ............................... `IsTopExact` in `head_spec_partial` (latest delivered)
  start-up catch-up, chunk sizes, failing log queries ............. `catchup_*`, `life_*`
  stored head of an earlier life ................................... `head_spec_partial` (`h0`), `head_spec_life`
  failing database under `setL1Head` .............................. `db_fault_keeps_head`
  subscription failures / resubscriptions ......................... in the flat trace model the transitions are
      identities by transcription (`run_filter_data` in Proofs); since round 5 `Props5.lean` has the event loop
      with its channel and subscription bookkeeping (`Loop`): `resubscription_loses_nothing`, `event_loop_is_trace`
  concurrent `L1Head()` / `SetL1Head` (round 5, `Props5.lean`) ...... `served_head_is_recorded_head`,
      `served_heads_never_go_back`, `served_l2_never_regresses`, `racy_cache_serves_stale_head`, `cas_cache_coherent`
  scan ranges, `uint64` chunk arithmetic, geth finalised height ... `catchup_queries_tile`,
      `chunk_arithmetic_is_uint64`, `geth_poll_uses_first_header` (`Props5.lean`)
  the geth forwarding layer ....................................... model `forwardStream = map decodeLog` is a
      transcription (`forward_map_facts` in Proofs); evidence is the harness
  what is handed to `Blockchain.SetL1Head` / listener / feed ...... `head_is_last_notification`,
      `notifications_never_above_finalised`, `notifications_l2_monotone` (every reachable state, by
      induction over the trace)
  consumers: finality status never flips back ..................... `finality_status_never_reverts`
             pruning anchor (feed) never moves back ............... `pruning_anchor_monotone`
      (the consumers' own code — RPC handlers, pruner — belongs to other properties)
  retry loops (`finalisedHeight`, `subscribeToUpdates`), cancellation `poll_retry_is_tick`, `subscribe_retry`
  the live subscription under back-pressure (64/128-slot channels) `forward_backpressure_lossless`,
      `forward_stalled_consumer_loses_nothing`, `forward_drains`
  construction defaults (`NewClient`, chunk 1000) ................. `default_chunk_scan_terminates`
  what `CatchUpL1Head` returning nil means ........................ `oneshot_success_records_top`
-/
namespace Juno.C17.Props
open Juno.C17

/-! ## the client's view versus the property's -/

/-- Everything the client still regards as valid is, in the property's sense, delivered and not
subsequently reported removed; the converse holds exactly on traces where no replacement log has
overtaken a removal notice. -/
theorem client_view_vs_property (tr : List Ev) (n : Nat) (u : SU) :
    ((n, u) ∈ live tr → LiveExact tr n u) ∧ (Settled tr → (LiveExact tr n u → (n, u) ∈ live tr)) :=
  ⟨live_sub_exact, fun hs => (live_iff_exact hs n u).mpr⟩

/-! ## never above the finalised height, never a removed log -/

/-- No assumption on the provider at all: the stored head is the one found at start-up, or the
commit of an event that at some completed poll was delivered, not reported removed, and at or
below the finalised height that poll reported. -/
theorem never_above_finalised (h0 : Option Head) (tr : List Ev) :
    (run true (State.init h0) tr).head = h0 ∨
    ∃ a F b, tr = a ++ Ev.tick F :: b ∧ ∃ n u, LiveExact a n u ∧ u.l1 ≤ F ∧
      (run true (State.init h0) tr).head = some u.toHead := by
  rcases head_origin true h0 tr with h | ⟨a, F, b, hab, e, he, hF, hh⟩
  · exact Or.inl h
  · exact Or.inr ⟨a, F, b, hab, e.1, e.2, live_sub_exact he, hF, hh⟩

/-- "Still canonical": for a provider that never un-finalises, at EVERY moment the stored head is
the one found at start-up or the commit of an event that is live with respect to the WHOLE trace
so far (no removal notice, exact or by block, has hit it) and lies at or below the last reported
finalised height. No hypothesis on delivery order or on the commits. -/
theorem head_still_canonical (h0 : Option Head) (tr : List Ev) (hF : FinMono tr)
    (hU : NoUnfinalise tr) :
    (run true (State.init h0) tr).head = h0 ∨
    ∃ n u, (n, u) ∈ live tr ∧ LiveExact tr n u ∧ (∃ F, lastFin tr = some F ∧ u.l1 ≤ F) ∧
      (run true (State.init h0) tr).head = some u.toHead := by
  rcases head_consumed h0 tr hF hU with h | ⟨e, he, hh⟩
  · exact Or.inl h
  · exact Or.inr ⟨e.1, e.2, he.1, live_sub_exact he.1, consumedLe tr hF hU e he, hh⟩

/-! ## head_spec -/

/-
Full-strength statement (the property as written), NOT true of juno:

  theorem head_spec … (hF : FinMono …) (hU : NoUnfinalise …) (hL : L2OrderedStrict …) (hS : StoredOrd …) :
      <conclusion of head_spec_partial>

i.e. without `Settled`. `head_spec_needs_removal_order` is the counterexample.
-/

/-- After every completed poll: if no delivered, not removed event at or below the reported
finalised height lies above the block `b0` of the head stored by an earlier life (`h0`; fresh
database: `h0 = none`, then: if there is no such event at all), the stored head is still `h0`;
otherwise it is the commit of exactly THE top event — highest L1 block at or below the finalised
height, and of the events of that block the one delivered last — and that block is at or above
`b0`. Holds for every trace (late deliveries, replays, any interleaving; no delivery-order
hypothesis) of a provider that never un-finalises, on one canonical chain, PROVIDED no replacement
log has overtaken a removal notice (`Settled`) — hence `_partial`. -/
theorem head_spec_partial (h0 : Option Head) (b0 : Nat) (tr : List Ev) (F : Nat)
    (hF : FinMono (tr ++ [.tick F])) (hU : NoUnfinalise (tr ++ [.tick F]))
    (hL : L2OrderedStrict (tr ++ [.tick F])) (hS : StoredOrd h0 b0 (tr ++ [.tick F]))
    (hT : Settled tr) :
    ((∀ n u, LiveExact tr n u → u.l1 ≤ F → h0 ≠ none ∧ u.l1 ≤ b0) ∧
      (run true (State.init h0) (tr ++ [.tick F])).head = h0) ∨
    (∃ n u, IsTopExact F tr n u ∧ (h0 ≠ none → b0 ≤ u.l1) ∧
      (run true (State.init h0) (tr ++ [.tick F])).head = some u.toHead) := by
  have hc := fun e => consumed_after_tick (tr := tr) (F := F) hF hU e
  have hx := fun n u => live_iff_exact hT n u
  rcases (guardTop h0 b0 (tr ++ [.tick F]) hF hU hL hS).head with ⟨hall, hh⟩ | ⟨e, he, hmax, hb, hh⟩
  · refine Or.inl ⟨?_, hh⟩
    intro n u hl hle
    exact hall (n, u) ((hc (n, u)).mpr ⟨(hx n u).mpr hl, hle⟩)
  · refine Or.inr ⟨e.1, e.2, ⟨(hx e.1 e.2).mp ((hc e).mp he).1, ((hc e).mp he).2, ?_⟩, hb, hh⟩
    intro m v hl hle
    exact hmax (m, v) ((hc (m, v)).mpr ⟨(hx m v).mpr hl, hle⟩)

/-! ### the defect: a replacement log that overtakes a removal notice is lost -/

def logA : SU := ⟨1, 0x10, 0x1010, 5, false⟩
def logB : SU := ⟨2, 0x20, 0x1020, 6, false⟩
/-- the log of the replacement chain in L1 block 6 -/
def logB' : SU := ⟨2, 0x21, 0x1021, 6, false⟩
def remB : SU := { logB with removed := true }
/-- A@5 and B@6 delivered, finalised 3; L1 block 6 is reorged: the replacement log B' is delivered
BEFORE the removal notice of B. -/
def overtakeTrace : List Ev := [.upd logA, .upd logB, .tick 3, .upd logB', .upd remB]

theorem overtake_hyps : FinMono (overtakeTrace ++ [.tick 10]) ∧
    NoUnfinalise (overtakeTrace ++ [.tick 10]) ∧ L2OrderedStrict (overtakeTrace ++ [.tick 10]) := by
  refine ⟨?_, ?_, ?_⟩
  · have h1 : FinMono ([] ++ [Ev.upd logA]) := finMono_snoc finMono_nil (by intro F h; cases h)
    have h2 := finMono_snoc (x := Ev.upd logB) h1 (by intro F h; cases h)
    have h3 := finMono_snoc (x := Ev.tick 3) h2 (by
      intro F _ F' h'; change none = some F' at h'; cases h')
    have h4 := finMono_snoc (x := Ev.upd logB') h3 (by intro F h; cases h)
    have h5 := finMono_snoc (x := Ev.upd remB) h4 (by intro F h; cases h)
    exact finMono_snoc h5 (by
      intro F h F' h'
      cases h
      change some 3 = some F' at h'
      cases h'
      decide)
  · have h1 : NoUnfinalise ([] ++ [Ev.upd logA]) :=
      noUnfinalise_snoc noUnfinalise_nil (by intro r h hr; cases h; cases hr)
    have h2 := noUnfinalise_snoc (x := Ev.upd logB) h1 (by intro r h hr; cases h; cases hr)
    have h3 := noUnfinalise_snoc (x := Ev.tick 3) h2 (by intro r h; cases h)
    have h4 := noUnfinalise_snoc (x := Ev.upd logB') h3 (by intro r h hr; cases h; cases hr)
    have h5 := noUnfinalise_snoc (x := Ev.upd remB) h4 (by
      intro r h _ F hF
      cases h
      change some 3 = some F at hF
      cases hF; decide)
    exact noUnfinalise_snoc h5 (by intro r h; cases h)
  · have h1 : L2OrderedStrict ([] ++ [Ev.upd logA]) :=
      l2OrderedStrict_snoc l2OrderedStrict_nil (by decide) (by decide)
    have h2 := l2OrderedStrict_snoc (x := Ev.upd logB) h1 (by decide) (by decide)
    have h3 := l2OrderedStrict_snoc (x := Ev.tick 3) h2 (by decide) (by decide)
    have h4 := l2OrderedStrict_snoc (x := Ev.upd logB') h3 (by decide) (by decide)
    have h5 := l2OrderedStrict_snoc (x := Ev.upd remB) h4 (by decide) (by decide)
    exact l2OrderedStrict_snoc h5 (by decide) (by decide)

/-- Without `Settled` juno violates `head_spec`: the provider never un-finalises, every reorged
log it delivered gets its removal notice (B), the commits are those of one canonical chain — the
replacement log B' (L1 block 6, Starknet block 2) is delivered, is never reported removed and is
finalised at the last poll, so the property demands it as head; juno's head is the commit of A
(L1 block 5, Starknet block 1), because the notice of B deleted every buffered entry at or above
L1 block 6, B' included. -/
theorem head_spec_needs_removal_order :
    FinMono (overtakeTrace ++ [.tick 10]) ∧ NoUnfinalise (overtakeTrace ++ [.tick 10]) ∧
    L2OrderedStrict (overtakeTrace ++ [.tick 10]) ∧ ¬ Settled overtakeTrace ∧
    IsTopExact 10 overtakeTrace 3 logB' ∧
    (run true (State.init none) (overtakeTrace ++ [.tick 10])).head = some logA.toHead ∧
    logA.toHead ≠ logB'.toHead := by
  refine ⟨overtake_hyps.1, overtake_hyps.2.1, overtake_hyps.2.2, ?_, ?_, by decide, by decide⟩
  · intro hs
    obtain ⟨r, hr, hrm, hsame⟩ := hs [.upd logA, .upd logB, .tick 3] logB' [.upd remB] rfl rfl
      ⟨remB, by simp, rfl, by decide⟩
    simp at hr
    subst hr
    exact absurd hsame.2.2.1 (by decide)
  · refine ⟨⟨[.upd logA, .upd logB, .tick 3], [.upd remB], rfl, rfl, rfl, ?_⟩, by decide, ?_⟩
    · intro r hr _ hsame
      simp at hr
      subst hr
      exact absurd hsame.2.2.1 (by decide)
    · intro m v ⟨a, b, hab, hlen, hrm, _⟩ _
      -- the updates of the trace are A (position 0), B (1), B' (3); the notice is not an update
      have hm : m < 5 := by
        have : (a ++ Ev.upd v :: b).length = 5 := by rw [← hab]; rfl
        simp at this; omega
      have hget : overtakeTrace[m]? = some (Ev.upd v) := by
        rw [hab, ← hlen]; simp
      match m, hm with
      | 0, _ => simp [overtakeTrace] at hget; subst hget; exact Or.inl (by decide)
      | 1, _ => simp [overtakeTrace] at hget; subst hget; exact Or.inr ⟨rfl, by decide⟩
      | 2, _ => simp [overtakeTrace] at hget
      | 3, _ => simp [overtakeTrace] at hget; subst hget; exact Or.inr ⟨rfl, Nat.le_refl _⟩
      | 4, _ =>
        simp [overtakeTrace] at hget
        subst hget
        exact absurd hrm (by decide)

/-! ## one whole life of the client: chain-id gate, catch-up, event loop -/

/-- A whole life under `Run` is ONE trace of the event loop: the logs applied by the catch-up scan
(and its poll, if it completed) followed by everything received afterwards. -/
theorem life_is_trace (g : Bool) (s : State) (cfg : Startup) (tr : List Ev) (la f1 : Nat)
    (hg : ensureChainID cfg.chainId = .proceed) (hla : cfg.latest = some la)
    (hf : cfg.fin₁ = some f1) :
    runLife g s cfg tr = run g s (startUpTrace s cfg la f1 ++ tr) :=
  runLife_trace g s cfg tr la f1 hg hla hf

/-- If a height cannot be read the scan is skipped and the life is the event loop alone. -/
theorem life_skips_catchup (g : Bool) (s : State) (cfg : Startup) (tr : List Ev)
    (hg : ensureChainID cfg.chainId = .proceed) (h : cfg.latest = none ∨ cfg.fin₁ = none) :
    runLife g s cfg tr = run g s tr :=
  runLife_skip g s cfg tr hg h

/-- The catch-up part of a life satisfies the provider hypotheses by itself whenever the node's log
history is what `eth_getLogs` of one canonical chain returns. -/
theorem startup_trace_wellbehaved (s : State) (cfg : Startup) (la f1 : Nat)
    (hn : ∀ u ∈ cfg.hist, u.removed = false)
    (ho : ∀ x ∈ cfg.hist, ∀ y ∈ cfg.hist, x.l1 < y.l1 → x.l2 < y.l2) :
    FinMono (startUpTrace s cfg la f1) ∧ NoUnfinalise (startUpTrace s cfg la f1) ∧
      L2Ordered (startUpTrace s cfg la f1) :=
  startUpTrace_wellbehaved s cfg la f1 hn ho

/-- `head_spec` for the combined start-up + run trace, fresh database or RESTART with a stored head
`h0`: whatever the chunk size, wherever a log query failed, whatever is delivered afterwards
(duplicates of scanned logs, late logs, reorgs) — after every poll of the life the stored head is
`h0` or the commit of the top event among ALL logs the life has received, scanned or subscribed. -/
theorem head_spec_life (h0 : Option Head) (b0 : Nat) (cfg : Startup) (tr : List Ev) (la f1 F : Nat)
    (hg : ensureChainID cfg.chainId = .proceed) (hla : cfg.latest = some la)
    (hf : cfg.fin₁ = some f1)
    (hF : FinMono (startUpTrace (State.init h0) cfg la f1 ++ tr ++ [.tick F]))
    (hU : NoUnfinalise (startUpTrace (State.init h0) cfg la f1 ++ tr ++ [.tick F]))
    (hL : L2OrderedStrict (startUpTrace (State.init h0) cfg la f1 ++ tr ++ [.tick F]))
    (hS : StoredOrd h0 b0 (startUpTrace (State.init h0) cfg la f1 ++ tr ++ [.tick F]))
    (hT : Settled (startUpTrace (State.init h0) cfg la f1 ++ tr)) :
    ((∀ n u, LiveExact (startUpTrace (State.init h0) cfg la f1 ++ tr) n u → u.l1 ≤ F →
        h0 ≠ none ∧ u.l1 ≤ b0) ∧
      (runLife true (State.init h0) cfg (tr ++ [.tick F])).head = h0) ∨
    (∃ n u, IsTopExact F (startUpTrace (State.init h0) cfg la f1 ++ tr) n u ∧
      (h0 ≠ none → b0 ≤ u.l1) ∧
      (runLife true (State.init h0) cfg (tr ++ [.tick F])).head = some u.toHead) := by
  have e := runLife_trace true (State.init h0) cfg (tr ++ [Ev.tick F]) la f1 hg hla hf
  rw [e, ← List.append_assoc]
  exact head_spec_partial h0 b0 _ F hF hU hL hS hT

/-! ## l2_monotone -/

/-- The Starknet block number of the stored head never decreases — for every state, every
trace, no assumption on the provider (`none`, nothing stored, is the bottom). -/
theorem l2_monotone (s : State) (tr : List Ev) :
    optLe (headL2 s) (headL2 (run true s tr)) :=
  guard_run_mono s tr

/-! ## setL1Head: iteration order, notifications, failing database -/

/-- The choice made by `setL1Head` does not depend on Go's map iteration order. -/
theorem pick_order_independent (fin : Nat) (b₁ b₂ : Buf) (hb : b₁.NodupKeys)
    (hp : ∀ e, e ∈ b₁ ↔ e ∈ b₂) : pickMax fin b₁ = pickMax fin b₂ :=
  pickMax_perm hb hp

/-- A failing stored-head read or write inside `setL1Head` never changes the stored head; what
`Blockchain.SetL1Head` has already sent on the feed before a failing write is the commit of the
candidate the poll selected (so `never_above_finalised` applies to it as well); a failure makes
`Run` terminate only when there was a candidate. -/
theorem db_fault_keeps_head (g : Bool) (s : State) (F : Nat) (f : DbFault) :
    (setL1HeadFault g s F f).1.head = s.head ∨
      (g = false ∧ f = .readErr ∧ (setL1HeadFault g s F f).1 = (setL1Head g s F).1) := by
  unfold setL1HeadFault setL1Head
  cases pickMax F s.buf with
  | none => exact Or.inl rfl
  | some c =>
    cases f with
    | readErr =>
      cases g with
      | true => exact Or.inl rfl
      | false => exact Or.inr ⟨rfl, rfl, by simp [skipCandidate]⟩
    | writeErr =>
      by_cases hs : skipCandidate g s.head c = true
      · simp [hs]
      · simp [hs]

theorem db_fault_feed (g : Bool) (s : State) (F : Nat) (f : DbFault) (h : Head)
    (hf : (setL1HeadFault g s F f).2.1 = some h) :
    ∃ c, pickMax F s.buf = some c ∧ h = c.toHead := by
  unfold setL1HeadFault at hf
  cases hp : pickMax F s.buf with
  | none => rw [hp] at hf; cases hf
  | some c =>
    rw [hp] at hf
    refine ⟨c, rfl, ?_⟩
    cases f with
    | readErr =>
      cases g with
      | true => cases hf
      | false => simp at hf; exact hf.symm
    | writeErr =>
      by_cases hs : skipCandidate g s.head c = true
      · simp [hs] at hf
      · simp [hs] at hf; exact hf.symm

/-! ## start-up catch-up -/

/-- The catch-up scan is a trace of the event loop: its effect is that of delivering the scanned
logs as updates and, if the scan completed, one poll. -/
theorem catchup_is_trace (g : Bool) (s : State) (hist : List SU) (latest fin₁ chunk : Nat)
    (failAt : Option Nat) (fin₂ : Nat) :
    let o := catchUpLoop hist fin₁ chunk failAt latest 0 s.buf [] []
    (catchUp g s hist latest fin₁ chunk failAt fin₂).1 =
      if o.result = .complete then run g s (o.applied.map Ev.upd ++ [Ev.tick fin₂])
      else run g s (o.applied.map Ev.upd) :=
  catchUp_as_trace g s hist latest fin₁ chunk failAt fin₂

/-- What a completed scan selects: the last log of the highest L1 block at or below both the
latest and the finalised height that has a log — whatever the chunk size (≥ 1; the Go loop does
not terminate for chunk size 0) and whatever history-consistent entries were already buffered. -/
theorem catchup_spec (hist : List SU) (latest fin₁ fin₂ chunk : Nat) (b0 : Buf)
    (hh : ∀ u ∈ hist, u.removed = false) (hb : HistConsistent hist latest b0)
    (hc : chunk ≠ 0) (hfin : fin₁ ≤ fin₂) :
    (catchUpLoop hist fin₁ chunk none latest 0 b0 [] []).result = .complete ∧
    (∀ u, pickMax fin₂ (catchUpLoop hist fin₁ chunk none latest 0 b0 [] []).buf = some u →
      CatchUpTop hist latest fin₂ u) ∧
    (pickMax fin₂ (catchUpLoop hist fin₁ chunk none latest 0 b0 [] []).buf = none →
      ∀ u ∈ hist, ¬ (u.l1 ≤ fin₂ ∧ u.l1 ≤ latest)) :=
  catchUp_pick hh hb hc hfin

/-- … stated on the resulting stored head (fresh database): it is the commit of that log, or
nothing is stored when the history has no log at or below both heights. -/
theorem catchup_head (hist : List SU) (latest fin₁ fin₂ chunk : Nat)
    (hh : ∀ u ∈ hist, u.removed = false) (hc : chunk ≠ 0) (hfin : fin₁ ≤ fin₂) :
    (∃ u, CatchUpTop hist latest fin₂ u ∧
      (catchUp true (State.init none) hist latest fin₁ chunk none fin₂).1.head = some u.toHead) ∨
    ((∀ u ∈ hist, ¬ (u.l1 ≤ fin₂ ∧ u.l1 ≤ latest)) ∧
      (catchUp true (State.init none) hist latest fin₁ chunk none fin₂).1.head = none) := by
  obtain ⟨hres, hs, hn⟩ := catchUp_pick (fin₂ := fin₂) hh (histConsistent_nil hist latest) hc hfin
  simp only [catchUp, State.init, hres, setL1Head]
  cases hp : pickMax fin₂ (catchUpLoop hist fin₁ chunk none latest 0 [] [] []).buf with
  | none => exact Or.inr ⟨hn hp, rfl⟩
  | some u => exact Or.inl ⟨u, hs u hp, by simp [skipCandidate]⟩

/-- Any two chunk sizes give the same stored head and the same notification. -/
theorem catchup_equiv (g : Bool) (h : Option Head) (hist : List SU) (latest fin₁ fin₂ c c' : Nat)
    (hh : ∀ u ∈ hist, u.removed = false) (hc : c ≠ 0) (hc' : c' ≠ 0) (hfin : fin₁ ≤ fin₂) :
    (catchUp g (State.init h) hist latest fin₁ c none fin₂).1.head =
      (catchUp g (State.init h) hist latest fin₁ c' none fin₂).1.head ∧
    (catchUp g (State.init h) hist latest fin₁ c none fin₂).2.2 =
      (catchUp g (State.init h) hist latest fin₁ c' none fin₂).2.2 :=
  catchUp_equiv g h hist latest fin₁ fin₂ c c' hh hc hc' hfin

/-- A scan cut short by a failing log query neither changes the stored head nor notifies (what
follows it — the event loop running on the partial buffer — is `life_is_trace`). -/
theorem catchup_failure_writes_nothing (g : Bool) (s : State) (hist : List SU)
    (latest fin₁ fin₂ c : Nat) (failAt : Option Nat)
    (hfail : (catchUpLoop hist fin₁ c failAt latest 0 s.buf [] []).result = .failed) :
    (catchUp g s hist latest fin₁ c failAt fin₂).1.head = s.head ∧
    (catchUp g s hist latest fin₁ c failAt fin₂).2.2 = none := by
  simp [catchUp, hfail]

/-! ## the L1-head feed -/

/-- A subscriber of the L1-head feed (one-slot buffer, a value is skipped when the slot is full)
receives, in order, a subsequence of the heads that were sent — whatever the interleaving. -/
theorem feed_in_order (ops : List FeedOp) :
    (subRun {} ops).received.Sublist (sentOf ops) := by
  have h := feed_invariant ops {} [] (by simp)
  simp only [List.nil_append] at h
  exact List.Sublist.trans (List.sublist_append_left _ _) h

/-! ## what is handed to `Blockchain.SetL1Head`, the listener and the L1-head feed (round 4)

`runNotes g s tr` is the list of heads passed to `Blockchain.SetL1Head` while the event loop processes
`tr` — each is sent on the feed, written under the `L1Height` key and reported to the listener. -/

/-- In every reachable state the stored head is the last head handed out, or — if none was — the head
found at start-up: the database record, the listener and the feed never disagree, and nothing else
changes the record (lifts the per-poll fact to all traces). -/
theorem head_is_last_notification (g : Bool) (s : State) (tr : List Ev) :
    (run g s tr).head = lastOr s.head (runNotes g s tr) :=
  run_head_lastOr g s tr

/-- EVERY head ever handed out (not only the last one: the feed's consumers see each of them) is the
commit of an event that, at the poll that produced it, was delivered, not reported removed and at or
below the finalised height that poll reported. No assumption on the provider. -/
theorem notifications_never_above_finalised (h0 : Option Head) (tr : List Ev) :
    ∀ h ∈ runNotes true (State.init h0) tr,
      ∃ a F b, tr = a ++ Ev.tick F :: b ∧ ∃ n u, LiveExact a n u ∧ u.l1 ≤ F ∧ h = u.toHead := by
  intro h hh
  obtain ⟨a, F, b, hab, e, he, hF, heq⟩ := runNotes_origin true h0 tr h hh
  exact ⟨a, F, b, hab, e.1, e.2, live_sub_exact he, hF, heq⟩

/-- The Starknet block numbers of the heads handed out never decrease, and none is below the head
the database held at the start — every state, every trace, no assumption. -/
theorem notifications_l2_monotone (s : State) (tr : List Ev) :
    (runNotes true s tr).Pairwise (fun a b => a.l2 ≤ b.l2) ∧
    ∀ h ∈ runNotes true s tr, optLe (headL2 s) (some h.l2) :=
  ⟨runNotes_sorted s tr, runNotes_ge s tr⟩

/-- Over a whole life under `Run` the heads handed out (the catch-up's own, then the event loop's) are
those of ONE trace — the same combined trace as in `life_is_trace`: the three theorems above cover
the catch-up's notification as well. -/
theorem life_notifications_are_trace (g : Bool) (s : State) (cfg : Startup) (tr : List Ev) (la f1 : Nat)
    (hg : ensureChainID cfg.chainId = .proceed) (hla : cfg.latest = some la)
    (hf : cfg.fin₁ = some f1) :
    lifeNotes g s cfg false tr = runNotes g s (startUpTrace s cfg la f1 ++ tr) :=
  lifeNotes_trace g s cfg tr la f1 hg hla hf

/-- Pruning anchor: whatever a subscriber of the L1-head feed (one-slot buffer, values skipped while
the slot is full, any interleaving of sends and receives) gets out of the heads of a trace, the
Starknet block numbers it sees never decrease. -/
theorem pruning_anchor_monotone (s : State) (tr : List Ev) (ops : List FeedOp)
    (hs : sentOf ops = runNotes true s tr) :
    (subRun {} ops).received.Pairwise (fun a b => a.l2 ≤ b.l2) := by
  have h := feed_invariant ops {} [] (by simp)
  simp only [List.nil_append] at h
  have hsub : (subRun {} ops).received.Sublist (sentOf ops) :=
    List.Sublist.trans (List.sublist_append_left _ _) h
  rw [hs] at hsub
  exact List.Pairwise.sublist hsub (runNotes_sorted s tr)

/-- Finality status: a Starknet block that `isL1Verified` (rpc `helpers.go`) reports as accepted on
L1 stays accepted on L1, whatever the L1 node delivers afterwards. -/
theorem finality_status_never_reverts (s : State) (tr : List Ev) (n : Nat)
    (h : isL1Verified n s.head = true) : isL1Verified n (run true s tr).head = true := by
  have hm := guard_run_mono s tr
  unfold isL1Verified at h ⊢
  cases hs : s.head with
  | none => rw [hs] at h; cases h
  | some a =>
    rw [hs] at h
    cases hr : (run true s tr).head with
    | none => simp [headL2, hs, hr, optLe] at hm
    | some b =>
      simp [headL2, hs, hr, optLe] at hm
      simp at h ⊢
      omega

/-! ## retry loops, cancellation, construction defaults (round 4) -/

/-- `setL1Head` behind `finalisedHeight`'s retry loop: failed attempts change nothing; the first
answer is the finalised height of the poll (exactly `k+1` provider calls after `k` failures); when the
context ends before any answer, `setL1Head` returns without touching buffer or head. -/
theorem poll_retry_is_tick (g : Bool) (s : State) (answers : List (Option Nat)) :
    ((∀ a ∈ answers, a = none) → pollStep g s answers = (s, none)) ∧
    (∀ k f t, answers = List.replicate k none ++ some f :: t →
      pollStep g s answers = setL1Head g s f ∧ (finalisedHeightLoop answers).2 = k + 1) := by
  refine ⟨?_, ?_⟩
  · intro h
    simp [pollStep, finalisedHeightLoop_none.mpr h]
  · intro k f t hl
    have h1 : (finalisedHeightLoop answers).1 = some f := by
      subst hl
      induction k with
      | zero => simp [finalisedHeightLoop]
      | succ k ih => simpa [List.replicate_succ, finalisedHeightLoop] using ih
    obtain ⟨k', t', hl', hk'⟩ := finalisedHeightLoop_some h1
    have : k' = k := by
      rw [hl] at hl'
      -- both splits put the first `some` at the same position
      have key : ∀ (a b : Nat) (x y : Nat) (u v : List (Option Nat)),
          List.replicate a none ++ some x :: u = List.replicate b none ++ some y :: v → a = b := by
        intro a
        induction a with
        | zero => intro b x y u v h; cases b with
          | zero => rfl
          | succ b => simp [List.replicate_succ] at h
        | succ a ih => intro b x y u v h; cases b with
          | zero => simp [List.replicate_succ] at h
          | succ b =>
            simp only [List.replicate_succ, List.cons_append, List.cons.injEq, true_and] at h
            rw [ih b x y u v h]
      exact (key _ _ _ _ _ _ hl').symm
    exact ⟨by simp [pollStep, h1], by rw [hk', this]⟩

/-- `subscribeToUpdates`: the subscription in use is the first successful `WatchStateUpdate` attempt;
every attempt before it failed; no success before the context ends = no subscription (`Run` returns). -/
theorem subscribe_retry (l : List Bool) :
    (subscribeLoop l = none ↔ ∀ b ∈ l, b = false) ∧
    (∀ k, subscribeLoop l = some k → ∃ t, l = List.replicate k false ++ true :: t) := by
  refine ⟨?_, fun k h => subscribeLoop_some h⟩
  induction l with
  | nil => simp [subscribeLoop]
  | cons a t ih => cases a <;> simp [subscribeLoop, ih]

/-- A client built by `NewClient` without `WithCatchUpChunkSize` scans with chunk 1000, and such a scan
always terminates (the `chunk ≠ 0` side condition of the catch-up theorems is discharged for the node's
own configuration); an explicit option is taken modulo 2^64 and only 0 can make the scan spin. -/
theorem default_chunk_scan_terminates (hist : List SU) (fin : Nat) (failAt : Option Nat)
    (latest : Nat) (buf : Buf) :
    newClientChunk {} = 1000 ∧
    (catchUpLoop hist fin (newClientChunk {}) failAt latest 0 buf [] []).result ≠ .hang ∧
    (∀ o : Options, (catchUpLoop hist fin (newClientChunk o) failAt latest 0 buf [] []).result = .hang →
      newClientChunk o = 0) := by
  refine ⟨rfl, ?_, fun o h => catchUpLoop_hang _ _ _ _ _ _ _ _ _ h⟩
  intro h
  have := catchUpLoop_hang _ _ _ _ _ _ _ _ _ h
  simp [newClientChunk, defaultCatchUpChunkSize] at this

/-- What `CatchUpL1Head` returning nil means (the pruning migration relies on it): with the chain id
verified at the first attempt, both heights read and no failing log query, the call returns nil and the
database then holds the commit of the highest finalised log of the node's history — unless the head
stored by an earlier life commits a later Starknet block, which is kept — or still `h0` when the
history has no log at or below both heights. -/
theorem oneshot_success_records_top (h0 : Option Head) (cfg : Startup) (rest : List ChainIdAns)
    (la f1 : Nat) (hid : cfg.chainId = .ok :: rest) (hla : cfg.latest = some la)
    (hf : cfg.fin₁ = some f1) (hq : cfg.failAt = none) (hh : ∀ u ∈ cfg.hist, u.removed = false)
    (hc : cfg.chunk ≠ 0) (hfin : f1 ≤ cfg.fin₂) :
    lifeErr cfg true = .none ∧
    ((∃ u, CatchUpTop cfg.hist la cfg.fin₂ u ∧
        (startUp true (State.init h0) cfg true).1.head =
          (if skipCandidate true h0 u then h0 else some u.toHead)) ∨
      ((∀ u ∈ cfg.hist, ¬ (u.l1 ≤ cfg.fin₂ ∧ u.l1 ≤ la)) ∧
        (startUp true (State.init h0) cfg true).1.head = h0)) := by
  refine ⟨?_, ?_⟩
  · have hnf := catchUpLoop_failed cfg.hist f1 cfg.chunk la 0 [] [] []
    -- the fall-through alternative of the `match` on the scan result needs `result ≠ failed`: `hnf`
    simp only [lifeErr, hid, hla, hf, hq, if_true]
  · have := catchUp_head_stored (latest := la) (fin₁ := f1) (fin₂ := cfg.fin₂) h0 hh hc hfin
    simpa [startUp, hid, checkChainIDOnce, hla, hf, hq] using this

/-- … and the stored head after a catch-up, in general (restart with a stored head included). -/
theorem catchup_head_stored (h0 : Option Head) (hist : List SU) (latest fin₁ fin₂ chunk : Nat)
    (hh : ∀ u ∈ hist, u.removed = false) (hc : chunk ≠ 0) (hfin : fin₁ ≤ fin₂) :
    (∃ u, CatchUpTop hist latest fin₂ u ∧
      (catchUp true (State.init h0) hist latest fin₁ chunk none fin₂).1.head =
        (if skipCandidate true h0 u then h0 else some u.toHead)) ∨
    ((∀ u ∈ hist, ¬ (u.l1 ≤ fin₂ ∧ u.l1 ≤ latest)) ∧
      (catchUp true (State.init h0) hist latest fin₁ chunk none fin₂).1.head = h0) :=
  catchUp_head_stored h0 hh hc hfin

/-! ## a live subscription under back-pressure: `forwardStateUpdates` between two bounded channels (round 4)

`Pipe` is the hand-off chain node → go-ethereum's queue → `gethEventsCh` (64) → the forwarder's hand →
the client's `updateCh` (128) → event loop; a schedule is any list of `PipeOp`s, a step that is not
enabled blocks (no-op). The forwarding layer has no timeout and no drop: these theorems are what a
stall timeout, a non-blocking send or a coalescing forwarder would break. -/

/-- For EVERY schedule — any pace of the client, any burst size: every log the L1 node pushed is in
the chain exactly once and in order (decoded); what the client has received so far is a prefix of the
decoded node stream; the two channels never exceed their capacities. -/
theorem forward_backpressure_lossless (ops : List PipeOp) :
    (Pipe.run {} ops).contents = forwardStream (arrivedOf ops) ∧
    (Pipe.run {} ops).out <+: forwardStream (arrivedOf ops) ∧
    (Pipe.run {} ops).ch.length ≤ watchForwarderBuffer ∧
    (Pipe.run {} ops).sink.length ≤ updateChBuffer := by
  have hc := pipe_run_contents {} ops
  have hcap := pipe_run_caps {} ops (by simp) (by simp)
  have h0 : ({} : Pipe).contents = [] := by simp [Pipe.contents, forwardStream]
  rw [h0, List.nil_append] at hc
  refine ⟨hc, ?_, hcap.1, hcap.2⟩
  rw [← hc]
  simp only [Pipe.contents, List.append_assoc]
  exact List.prefix_append _ _

/-- A client that does not receive at all (its event loop is busy — e.g. inside `finalisedHeight`'s
retry loop — for however long) gets nothing and loses nothing: everything pushed meanwhile is still
queued somewhere in the chain. -/
theorem forward_stalled_consumer_loses_nothing (ops : List PipeOp)
    (h : ∀ o ∈ ops, match o with | .consume => False | _ => True) :
    (Pipe.run {} ops).out = [] ∧ (Pipe.run {} ops).contents = forwardStream (arrivedOf ops) :=
  ⟨pipe_run_no_consume {} ops h, (forward_backpressure_lossless ops).1⟩

/-- … and back-pressure always resolves: from every reachable state there is a continuation without
new arrivals after which the client has received the whole decoded node stream. -/
theorem forward_drains (ops : List PipeOp) :
    ∃ more, (∀ o ∈ more, noArrive o = true) ∧
      (Pipe.run {} (ops ++ more)).out = forwardStream (arrivedOf ops) := by
  obtain ⟨more, hm, hw⟩ := pipe_drains (Pipe.run {} ops)
  refine ⟨more, hm, ?_⟩
  have hrun : Pipe.run {} (ops ++ more) = (Pipe.run {} ops).run more := by
    simp [Pipe.run, List.foldl_append]
  have h1 := (forward_backpressure_lossless (ops ++ more)).1
  rw [arrivedOf_append, arrivedOf_noArrive more hm, List.append_nil] at h1
  rw [hrun] at h1 ⊢
  rw [← h1, pipe_weight_zero _ hw]

/-! ## regression witness for the defect repaired by commit 5084dce (NOT about the current code) -/

def e100 : SU := ⟨50, 0x500, 0x1500, 100, false⟩
def e90 : SU := ⟨40, 0x400, 0x1400, 90, false⟩

/-- Before 5084dce (`guard = false`) a log delivered late moved the head back from Starknet block
50 to 40; the current code keeps 50 on the same trace. -/
theorem late_log_regress_before_5084dce :
    (run false (State.init none) [.upd e100, .tick 200, .upd e90, .tick 200]).head = some e90.toHead ∧
    (run true (State.init none) [.upd e100, .tick 200, .upd e90, .tick 200]).head = some e100.toHead := by
  decide

/-! ## non-vacuity: the hypothesis sets of the theorems above are satisfiable -/

def logC : SU := ⟨7, 0x70, 0x1070, 3, false⟩
def logD : SU := ⟨8, 0x80, 0x1080, 5, false⟩
def logD' : SU := ⟨8, 0x81, 0x1081, 6, false⟩
/-- A reorg in the right order: D@5 delivered, reported removed, replaced by D'@6. -/
def goodTrace : List Ev := [.upd logC, .tick 3, .upd logD, .upd { logD with removed := true }, .upd logD']

theorem goodTrace_hyps : FinMono (goodTrace ++ [.tick 7]) ∧ NoUnfinalise (goodTrace ++ [.tick 7]) ∧
    L2OrderedStrict (goodTrace ++ [.tick 7]) ∧ StoredOrd none 0 (goodTrace ++ [.tick 7]) ∧
    Settled goodTrace := by
  refine ⟨?_, ?_, ?_, (by intro h hh; cases hh), ?_⟩
  · have h1 : FinMono ([] ++ [Ev.upd logC]) := finMono_snoc finMono_nil (by intro F h; cases h)
    have h2 := finMono_snoc (x := Ev.tick 3) h1 (by
      intro F _ F' h'; change none = some F' at h'; cases h')
    have h3 := finMono_snoc (x := Ev.upd logD) h2 (by intro F h; cases h)
    have h4 := finMono_snoc (x := Ev.upd { logD with removed := true }) h3 (by intro F h; cases h)
    have h5 := finMono_snoc (x := Ev.upd logD') h4 (by intro F h; cases h)
    exact finMono_snoc h5 (by
      intro F h F' h'
      cases h
      change some 3 = some F' at h'
      cases h'
      decide)
  · have h1 : NoUnfinalise ([] ++ [Ev.upd logC]) :=
      noUnfinalise_snoc noUnfinalise_nil (by intro r h hr; cases h; cases hr)
    have h2 := noUnfinalise_snoc (x := Ev.tick 3) h1 (by intro r h; cases h)
    have h3 := noUnfinalise_snoc (x := Ev.upd logD) h2 (by intro r h hr; cases h; cases hr)
    have h4 := noUnfinalise_snoc (x := Ev.upd { logD with removed := true }) h3 (by
      intro r h _ F hF
      cases h
      change some 3 = some F at hF
      cases hF; decide)
    have h5 := noUnfinalise_snoc (x := Ev.upd logD') h4 (by intro r h hr; cases h; cases hr)
    exact noUnfinalise_snoc h5 (by intro r h; cases h)
  · have h1 : L2OrderedStrict ([] ++ [Ev.upd logC]) :=
      l2OrderedStrict_snoc l2OrderedStrict_nil (by decide) (by decide)
    have h2 := l2OrderedStrict_snoc (x := Ev.tick 3) h1 (by decide) (by decide)
    have h3 := l2OrderedStrict_snoc (x := Ev.upd logD) h2 (by decide) (by decide)
    have h4 := l2OrderedStrict_snoc (x := Ev.upd { logD with removed := true }) h3
      (by decide) (by decide)
    have h5 := l2OrderedStrict_snoc (x := Ev.upd logD') h4 (by decide) (by decide)
    exact l2OrderedStrict_snoc h5 (by decide) (by decide)
  · intro a u b hab hr ⟨r, hrb, hrm, hle⟩
    have hlen : a.length < 5 := by
      have : (a ++ Ev.upd u :: b).length = 5 := by rw [← hab]; rfl
      simp at this; omega
    have hget : goodTrace[a.length]? = some (Ev.upd u) := by rw [hab]; simp
    have hb : b = goodTrace.drop (a.length + 1) := by rw [hab]; simp
    match hl : a.length, hlen with
    | 0, _ =>
      rw [hl] at hget hb
      simp [goodTrace] at hget; subst hget
      rw [hb] at hrb
      simp [goodTrace] at hrb
      rcases hrb with h | h | h <;> subst h <;> first | exact absurd hrm (by decide) | exact absurd hle (by decide)
    | 1, _ => rw [hl] at hget; simp [goodTrace] at hget
    | 2, _ =>
      rw [hl] at hget hb
      simp [goodTrace] at hget; subst hget
      exact ⟨{ logD with removed := true }, by rw [hb]; simp [goodTrace], rfl, ⟨rfl, rfl, rfl, rfl⟩⟩
    | 3, _ => rw [hl] at hget; simp [goodTrace] at hget; subst hget; exact absurd hr (by decide)
    | 4, _ =>
      rw [hl] at hb
      rw [hb] at hrb
      simp [goodTrace] at hrb

/-- … and on it the theorem gives the replacement log D' as head. -/
example : (run true (State.init none) (goodTrace ++ [.tick 7])).head = some logD'.toHead := by decide

/-- `StoredOrd` on a trace that REPLACES an older stored head (stored: Starknet block 7 from L1
block 3; a log of block 2 arrives late, then one of block 6). -/
def storedTrace : List Ev := [.upd ⟨6, 0x60, 0x1060, 2, false⟩, .tick 4, .upd ⟨8, 0x81, 0x1081, 6, false⟩]
example : StoredOrd (some ⟨7, 0x70, 0x1070⟩) 3 (storedTrace ++ [.tick 6]) := by
  intro h hh a b hab x hx
  cases hh
  -- every prefix's live set consists of the two logs; check both
  have hmem : x.2 = ⟨6, 0x60, 0x1060, 2, false⟩ ∨ x.2 = ⟨8, 0x81, 0x1081, 6, false⟩ := by
    obtain ⟨a', b', hab', _, _, _⟩ := (mem_live_iff a x.1 x.2).mp hx
    have : Ev.upd x.2 ∈ storedTrace ++ [.tick 6] := by rw [hab, hab']; simp
    simp [storedTrace] at this
    exact this
  rcases hmem with h | h <;> rw [h] <;> decide
example : (run true (State.init (some ⟨7, 0x70, 0x1070⟩)) (storedTrace ++ [.tick 4])).head =
    some ⟨7, 0x70, 0x1070⟩ ∧
    (run true (State.init (some ⟨7, 0x70, 0x1070⟩)) (storedTrace ++ [.tick 6])).head =
    some ⟨8, 0x81, 0x1081⟩ := by decide

example : ensureChainID [.err, .err, .ok] = .proceed ∧ ensureChainID [.err, .mismatch] = .fatal ∧
    checkChainIDOnce [.err, .ok] = .fatal := by decide
example : (subRun {} [.send ⟨1, 1, 1⟩, .send ⟨2, 2, 2⟩, .recv, .send ⟨3, 3, 3⟩, .recv]).received =
    [⟨1, 1, 1⟩, ⟨3, 3, 3⟩] := by decide
example : (setL1HeadFault true ⟨[(5, logD)], some ⟨7, 0x70, 0x1070⟩⟩ 9 .writeErr) =
    (⟨[], some ⟨7, 0x70, 0x1070⟩⟩, some logD.toHead, true) := by decide

/-- Catch-up: a history with two logs in L1 block 3 and one in block 8, latest 9, finalised 5. -/
def hist3 : List SU := [⟨1, 0x10, 0x1010, 3, false⟩, ⟨2, 0x20, 0x1020, 3, false⟩, ⟨3, 0x30, 0x1030, 8, false⟩]
example : (∀ u ∈ hist3, u.removed = false) ∧ HistConsistent hist3 9 [] :=
  ⟨by decide, histConsistent_nil _ _⟩
example : (catchUpLoop hist3 5 2 (some 1) 9 0 [] [] []).result = .failed := by
  simp [catchUpLoop, chunkFrom, filterLogs, hist3]
example : CatchUpTop hist3 9 5 ⟨2, 0x20, 0x1020, 3, false⟩ := by
  refine ⟨3, by decide, by decide, by decide, ?_⟩
  intro k' w hw hk' _
  have := lastAt_some hw
  have hm : w ∈ hist3 := this.1
  simp [hist3] at hm
  rcases hm with rfl | rfl | rfl <;> simp at this <;> omega

/-! non-vacuity, round 4 -/

/-- A trace with two notifications, a guard skip and a removal in between. -/
def notesTrace : List Ev :=
  [.upd logC, .tick 3, .upd logD, .upd { logD with removed := true }, .upd logD', .upd e90, .tick 200]
example : runNotes true (State.init none) notesTrace = [logC.toHead, e90.toHead] := by decide
example : (run true (State.init none) notesTrace).head = some e90.toHead := by decide
example : runNotes true (State.init (some e100.toHead)) notesTrace = [] := by decide
example : sentOf [.send logC.toHead, .recv, .send e90.toHead, .recv] =
    runNotes true (State.init none) notesTrace := by decide
example : isL1Verified 7 (State.init (some logC.toHead)).head = true ∧
    isL1Verified 8 (State.init (some logC.toHead)).head = false ∧ isL1Verified 0 none = false := by decide
example : pollStep true ⟨[(5, logD)], none⟩ [none, none, some 9, some 1] =
    (⟨[], some logD.toHead⟩, some logD.toHead) ∧
    (finalisedHeightLoop [none, none, some 9, some 1]).2 = 3 ∧
    pollStep true ⟨[(5, logD)], none⟩ [none, none] = (⟨[(5, logD)], none⟩, none) := by decide
example : subscribeLoop [false, false, true, false] = some 2 ∧ subscribeLoop [false] = none := by decide
example : newClientChunk { chunk := some (2 ^ 64) } = 0 ∧ newClientChunk { chunk := some 7 } = 7 := by decide
/-- `oneshot_success_records_top`: hypotheses satisfiable, both with a fresh database and with a
stored head that is newer than everything the scan finds. -/
def oneshotCfg : Startup := ⟨[.ok], some 9, some 5, hist3, 2, none, 5⟩
example : oneshotCfg.chainId = .ok :: [] ∧ oneshotCfg.latest = some 9 ∧ oneshotCfg.fin₁ = some 5 ∧
    oneshotCfg.failAt = none ∧ (∀ u ∈ oneshotCfg.hist, u.removed = false) ∧ oneshotCfg.chunk ≠ 0 ∧
    5 ≤ oneshotCfg.fin₂ := by decide
example : lifeErr { oneshotCfg with failAt := some 1 } true = .provider ∧
    lifeErr { oneshotCfg with chainId := [.err, .ok] } true = .provider ∧
    lifeErr { oneshotCfg with chainId := [.mismatch] } true = .mismatch ∧
    lifeErr { oneshotCfg with chainId := [.err, .mismatch] } false = .mismatch ∧
    lifeErr { oneshotCfg with chainId := [.err], failAt := some 0 } false = .none := by
  refine ⟨?_, ?_, ?_, ?_, ?_⟩ <;> simp [lifeErr, oneshotCfg, ensureChainID, catchUpLoop, chunkFrom, filterLogs, hist3]
example : lifeNotes true (State.init none) oneshotCfg false [.upd logD', .tick 7] =
    [⟨2, 0x20, 0x1020⟩, logD'.toHead] := by
  simp [lifeNotes, oneshotCfg, ensureChainID, catchUp, catchUpLoop, chunkFrom, filterLogs, hist3, State.init,
    setL1Head, pickMax, pickStep, skipCandidate, applyStateUpdate, Buf.insert, Buf.prune, runNotes, stepNote, step,
    SU.toHead, logD']
example : skipCandidate true (some ⟨9, 0x90, 0x1090⟩) ⟨2, 0x20, 0x1020, 3, false⟩ = true ∧
    skipCandidate true none ⟨2, 0x20, 0x1020, 3, false⟩ = false := by decide

/-- The hand-off chain: a burst of 3 with a client that receives once in the middle. -/
def pipeOps : List PipeOp :=
  [.arrive ⟨1, 7, 2, 5, false⟩, .arrive ⟨1, 7, 2, 5, true⟩, .feed, .take, .put, .consume, .arrive ⟨3, 8, 4, 6, false⟩,
   .feed, .take, .feed, .put, .put]
example : (Pipe.run {} pipeOps).out = [⟨7, 2, 1, 5, false⟩] ∧ (Pipe.run {} pipeOps).sink = [⟨7, 2, 1, 5, true⟩] ∧
    (Pipe.run {} pipeOps).ch = [⟨3, 8, 4, 6, false⟩] ∧ (Pipe.run {} pipeOps).hand = none := by decide
example : ∀ o ∈ [PipeOp.arrive ⟨1, 7, 2, 5, false⟩, .feed, .take, .put, .put],
    (match o with | .consume => False | _ => True) := by
  intro o ho; simp at ho; rcases ho with rfl | rfl | rfl | rfl <;> trivial

end Juno.C17.Props
