import JunoModel.C17.ProofsLife
/-!
C17 — the recorded L1 head is always a finalised, still-canonical L1 state commit.
Property theorems (statements only; the proofs are in `Proofs*.lean`).

Vocabulary (`Spec.lean`): a trace `tr : List Ev` is the sequence of inputs the client's event loop
has processed — values received on the update channel (`upd`, an update or a removal notice),
completed finalised-height polls (`tick F`), subscription errors, resubscription attempts, failed
polls. `run g s tr` is the state of the client after `tr`; `g = false` is the code at the pinned
commit, `g = true` the variant with the proposed repair (`setL1Head` skips a candidate that
commits an older Starknet block than the stored head). `live tr` are the delivered events not
subsequently reported removed, `IsTop F L e` says `e` is the one with the highest L1 block at or
below `F` (latest delivered among several of that block).

Provider assumptions granted by the property: `FinMono` + `NoUnfinalise` (never un-finalises);
removal notices are delivered (that is what makes `live` the right set). `L2Ordered` is a fact
about the Starknet core contract (commits are sequential). `InOrder` is NOT granted by the
property: the code at the pinned commit needs it (`head_spec_partial`), and violates the property
without it (`head_spec_needs_delivery_order`, lead L11); the repaired variant does not need it
(`head_spec_guarded`, `l2_monotone_guarded`).
-/
namespace Juno.C17.Props
open Juno.C17

/-! ## What "delivered and not subsequently removed" means -/

/-- `live tr` is exactly: delivered at position `n`, an update (not a removal notice), and no
removal notice at or below its L1 block was delivered afterwards. -/
theorem live_spec (tr : List Ev) (n : Nat) (u : SU) :
    (n, u) ∈ live tr ↔
      ∃ a b, tr = a ++ Ev.upd u :: b ∧ a.length = n ∧ u.removed = false ∧
        ∀ r, Ev.upd r ∈ b → r.removed = true → u.l1 < r.l1 :=
  mem_live_iff tr n u

/-! ## never above the finalised height, never a removed log (all traces, both variants) -/

/-- Whatever the provider does (no assumption at all): the stored head is either the one found at
start-up or the commit of an event that, at some completed poll, was delivered, not reported
removed, and at or below the finalised height that poll reported. -/
theorem never_above_finalised (g : Bool) (h0 : Option Head) (tr : List Ev) :
    (run g (State.init h0) tr).head = h0 ∨
    ∃ a F b, tr = a ++ Ev.tick F :: b ∧ ∃ e ∈ live a, e.2.l1 ≤ F ∧
      (run g (State.init h0) tr).head = some e.2.toHead :=
  head_origin g h0 tr

/-- Updates and removal notices by themselves never move the stored head (only polls do). -/
theorem update_keeps_head (g : Bool) (s : State) (u : SU) : (step g s (.upd u)).head = s.head :=
  step_upd_head g s u

/-- The listener / L1-head feed is told exactly the head that is stored, and the stored head
never changes without a notification. -/
theorem notification_is_stored_head (g : Bool) (s : State) (F : Nat) :
    (∀ h, (setL1Head g s F).2 = some h → (setL1Head g s F).1.head = some h) ∧
    ((setL1Head g s F).2 = none → (setL1Head g s F).1.head = s.head) := by
  unfold setL1Head
  cases pickMax F s.buf with
  | none => simp
  | some c => by_cases hs : skipCandidate g s.head c = true <;> simp [hs]

/-! ## head_spec -/

/-
Full-strength statement (the property as written), NOT true of the code at the pinned commit:

  theorem head_spec (h0) (tr) (F) (hF : FinMono (tr ++ [.tick F])) (hU : NoUnfinalise (tr ++ [.tick F])) :
      ((∀ e ∈ live tr, ¬ e.2.l1 ≤ F) → (run false (State.init h0) (tr ++ [.tick F])).head = h0) ∧
      (∀ e, IsTop F (live tr) e → (run false (State.init h0) (tr ++ [.tick F])).head = some e.2.toHead)

It needs the delivery-order hypothesis `InOrder` (below); `head_spec_needs_delivery_order` is the
counterexample without it. The defect was repaired in /repo by commit 5084dce: the code as it is
NOW is `g = true`, for which `head_spec_guarded`, `head_spec_stored`, `head_spec_life` and
`l2_monotone_guarded` are the full-strength statements; `head_spec_partial` /
`l2_monotone_partial` document the code before the repair.
-/

/-- After every completed poll the stored head is the commit of the delivered, not removed event
with the highest L1 block at or below the reported finalised height (the latest delivered one of
that block); if there is none it is still the head found at start-up. For the code as it is this
holds for every trace of a provider that never un-finalises AND delivers in order (`InOrder`). -/
theorem head_spec_partial (h0 : Option Head) (tr : List Ev) (F : Nat)
    (hF : FinMono (tr ++ [.tick F])) (hU : NoUnfinalise (tr ++ [.tick F]))
    (hO : InOrder (tr ++ [.tick F])) :
    ((∀ e ∈ live tr, ¬ e.2.l1 ≤ F) ∧ (run false (State.init h0) (tr ++ [.tick F])).head = h0) ∨
    (∃ e, IsTop F (live tr) e ∧
      (run false (State.init h0) (tr ++ [.tick F])).head = some e.2.toHead) := by
  have h := headInv h0 (tr ++ [.tick F]) hF hU hO
  have hl : live (tr ++ [.tick F]) = live tr := by rw [live_snoc]; rfl
  have hc : ∀ e, Consumed (tr ++ [.tick F]) e ↔ (e ∈ live tr ∧ e.2.l1 ≤ F) := by
    intro e
    constructor
    · intro he
      obtain ⟨F', hF', hle⟩ := h.consumed_le e he
      rw [lastFin_snoc] at hF'
      cases hF'
      exact ⟨hl ▸ he.1, hle⟩
    · rintro ⟨h1, h2⟩
      refine ⟨hl.symm ▸ h1, ?_⟩
      rw [pend_snoc]
      simp [pendStep, h2]
  rcases h.head with ⟨hall, hh⟩ | ⟨e, he, hmax, hh⟩
  · refine Or.inl ⟨?_, hh⟩
    intro e he hle
    exact ((hc e).mpr ⟨he, hle⟩).2 (hall e (hl.symm ▸ he))
  · refine Or.inr ⟨e, ⟨((hc e).mp he).1, ((hc e).mp he).2, ?_⟩, hh⟩
    intro c hc1 hc2
    exact hmax c ((hc c).mpr ⟨hc1, hc2⟩)

/-- The same for the repaired variant, WITHOUT any delivery-order hypothesis (late deliveries,
replays after a resubscription, any interleaving): the stored head is the commit of an event of
the highest L1 block at or below the finalised height that has a delivered, not removed event.
Needs only what the property grants plus sequential commits on L1 (`L2Ordered`). -/
theorem head_spec_guarded (tr : List Ev) (F : Nat)
    (hF : FinMono (tr ++ [.tick F])) (hU : NoUnfinalise (tr ++ [.tick F]))
    (hL : L2Ordered (tr ++ [.tick F])) :
    ((∀ e ∈ live tr, ¬ e.2.l1 ≤ F) ∧ (run true (State.init none) (tr ++ [.tick F])).head = none) ∨
    (∃ e ∈ live tr, e.2.l1 ≤ F ∧ (∀ c ∈ live tr, c.2.l1 ≤ F → c.2.l1 ≤ e.2.l1) ∧
      (run true (State.init none) (tr ++ [.tick F])).head = some e.2.toHead) := by
  have h := guardHead (tr ++ [.tick F]) hF hU hL
  have hle := consumedLe (tr ++ [.tick F]) hF hU
  have hl : live (tr ++ [.tick F]) = live tr := by rw [live_snoc]; rfl
  have hc : ∀ e, Consumed (tr ++ [.tick F]) e ↔ (e ∈ live tr ∧ e.2.l1 ≤ F) := by
    intro e
    constructor
    · intro he
      obtain ⟨F', hF', hle'⟩ := hle e he
      rw [lastFin_snoc] at hF'
      cases hF'
      exact ⟨hl ▸ he.1, hle'⟩
    · rintro ⟨h1, h2⟩
      refine ⟨hl.symm ▸ h1, ?_⟩
      rw [pend_snoc]
      simp [pendStep, h2]
  rcases h with ⟨hall, hh⟩ | ⟨e, he, hmax, hh⟩
  · refine Or.inl ⟨?_, hh⟩
    intro e he hle'
    exact ((hc e).mpr ⟨he, hle'⟩).2 (hall e (hl.symm ▸ he))
  · refine Or.inr ⟨e, ((hc e).mp he).1, ((hc e).mp he).2, ?_, hh⟩
    intro c hc1 hc2
    exact hmax c ((hc c).mpr ⟨hc1, hc2⟩)

/-- Start-up with a head stored by an earlier life of the node (`h0`, the commit of an event of
L1 block `b0` of the same canonical chain — `StoredOrdered`; the buffer starts empty): after every
poll the stored head is still `h0` exactly when no delivered, not removed, finalised event lies
above `b0`; otherwise it is the commit of an event of the highest such block, which is at or above
`b0`. So a stored head NEWER than everything the catch-up scan or the subscription delivers is
kept, an OLDER one is replaced, and it never moves back. No delivery-order hypothesis. -/
theorem head_spec_stored (h0 : Head) (b0 : Nat) (tr : List Ev) (F : Nat)
    (hF : FinMono (tr ++ [.tick F])) (hU : NoUnfinalise (tr ++ [.tick F]))
    (hL : L2Ordered (tr ++ [.tick F])) (hS : StoredOrdered h0 b0 (tr ++ [.tick F])) :
    ((∀ e ∈ live tr, e.2.l1 ≤ F → e.2.l1 ≤ b0) ∧
      (run true (State.init (some h0)) (tr ++ [.tick F])).head = some h0) ∨
    (∃ e ∈ live tr, e.2.l1 ≤ F ∧ (∀ c ∈ live tr, c.2.l1 ≤ F → c.2.l1 ≤ e.2.l1) ∧ b0 ≤ e.2.l1 ∧
      (run true (State.init (some h0)) (tr ++ [.tick F])).head = some e.2.toHead) := by
  have hc := fun e => consumed_after_tick (tr := tr) (F := F) hF hU e
  rcases guardHeadS h0 b0 (tr ++ [.tick F]) hF hU hL hS with ⟨hall, hh⟩ | ⟨e, he, hmax, hb, hh⟩
  · exact Or.inl ⟨fun e he hle => hall e ((hc e).mpr ⟨he, hle⟩), hh⟩
  · exact Or.inr ⟨e, ((hc e).mp he).1, ((hc e).mp he).2,
      fun c h1 h2 => hmax c ((hc c).mpr ⟨h1, h2⟩), hb, hh⟩

/-! ### the defect (lead L11) as a proved negation with a concrete witness -/

def e100 : SU := ⟨50, 0x500, 0x1500, 100, false⟩
def e90 : SU := ⟨40, 0x400, 0x1400, 90, false⟩
/-- finalised height 200; the event of L1 block 100 is delivered and recorded; then the event of
L1 block 90 is delivered late. -/
def lateTrace : List Ev := [.upd e100, .tick 200, .upd e90]

theorem lateTrace_finMono : FinMono (lateTrace ++ [.tick 200]) := by
  have h1 : FinMono ([] ++ [Ev.upd e100]) := finMono_snoc finMono_nil (by intro F h; cases h)
  have h2 : FinMono ([] ++ [Ev.upd e100] ++ [Ev.tick 200]) :=
    finMono_snoc h1 (by intro F _ F' h'; simp [lastFin, lastFinR, finStep] at h')
  have h3 : FinMono ([] ++ [Ev.upd e100] ++ [Ev.tick 200] ++ [Ev.upd e90]) :=
    finMono_snoc h2 (by intro F h; cases h)
  exact finMono_snoc h3 (by
    intro F h F' h'
    cases h
    change some 200 = some F' at h'
    cases h'
    exact Nat.le_refl _)

theorem lateTrace_noUnfinalise : NoUnfinalise (lateTrace ++ [.tick 200]) := by
  intro a r b hab hr
  have : Ev.upd r ∈ lateTrace ++ [.tick 200] := by rw [hab]; simp
  simp [lateTrace] at this
  rcases this with h | h <;> (rw [h] at hr; cases hr)

theorem lateTrace_l2Ordered : L2OrderedStrict (lateTrace ++ [.tick 200]) := by
  have h1 : L2OrderedStrict ([] ++ [Ev.upd e100]) :=
    l2OrderedStrict_snoc l2OrderedStrict_nil (by decide) (by decide)
  have h2 : L2OrderedStrict ([] ++ [Ev.upd e100] ++ [Ev.tick 200]) :=
    l2OrderedStrict_snoc h1 (by decide) (by decide)
  have h3 : L2OrderedStrict ([] ++ [Ev.upd e100] ++ [Ev.tick 200] ++ [Ev.upd e90]) :=
    l2OrderedStrict_snoc h2 (by decide) (by decide)
  exact l2OrderedStrict_snoc h3 (by decide) (by decide)

/-- Without the delivery-order hypothesis the code at the pinned commit violates `head_spec`:
the provider never un-finalises, reports no removal, the events are consistent with one
canonical chain — and after the last poll the stored head is the commit of L1 block 90 (Starknet
block 40) although the event of L1 block 100 (Starknet block 50) is delivered, not removed and
finalised. The stored head regressed from Starknet block 50 to 40. -/
theorem head_spec_needs_delivery_order :
    FinMono (lateTrace ++ [.tick 200]) ∧ NoUnfinalise (lateTrace ++ [.tick 200]) ∧
    L2OrderedStrict (lateTrace ++ [.tick 200]) ∧
    IsTop 200 (live lateTrace) (0, e100) ∧
    (run false (State.init none) lateTrace).head = some e100.toHead ∧
    (run false (State.init none) (lateTrace ++ [.tick 200])).head = some e90.toHead ∧
    e90.toHead ≠ e100.toHead ∧ e90.l2 < e100.l2 := by
  refine ⟨lateTrace_finMono, lateTrace_noUnfinalise, lateTrace_l2Ordered, ?_, by decide,
    by decide, by decide, by decide⟩
  refine ⟨by decide, by decide, ?_⟩
  intro c hc _
  have : c = (2, e90) ∨ c = (0, e100) := by
    have : live lateTrace = [(2, e90), (0, e100)] := by decide
    rw [this] at hc
    simpa using hc
  rcases this with rfl | rfl
  · exact Or.inl (by decide)
  · exact Or.inr ⟨rfl, Nat.le_refl _⟩

/-- … and the repaired variant keeps the head of L1 block 100 on the same trace. -/
theorem guarded_on_late_trace :
    (run true (State.init none) (lateTrace ++ [.tick 200])).head = some e100.toHead := by decide

/-! ## l2_monotone -/

/-- Repaired variant: the Starknet block number of the stored head never decreases — for every
state, every trace, no assumption on the provider (`none`, nothing stored, is the bottom). -/
theorem l2_monotone_guarded (s : State) (tr : List Ev) :
    optLe (headL2 s) (headL2 (run true s tr)) :=
  guard_run_mono s tr

/-- Code as it is: every step keeps or raises the Starknet block number of the stored head,
provided the provider never un-finalises, delivers in order (`InOrder`) and the live events are
consistent with one canonical chain in which log order is delivery order (`L2OrderedStrict`).
Exactly `InOrder` is the delivery-order hypothesis: `head_spec_needs_delivery_order` shows the
regress 50 → 40 when only it is dropped. -/
theorem l2_monotone_partial (tr : List Ev) (x : Ev)
    (hF : FinMono (tr ++ [x])) (hU : NoUnfinalise (tr ++ [x])) (hO : InOrder (tr ++ [x]))
    (hL : L2OrderedStrict (tr ++ [x])) :
    optLe (headL2 (run false (State.init none) tr))
      (headL2 (run false (State.init none) (tr ++ [x]))) :=
  unguarded_step_mono hF hU hO hL

/-! ## subscription failures, resubscription, failed polls -/

/-- Subscription errors, (failed or successful) resubscription attempts and failed polls do not
touch the buffer or the stored head: the state after a trace is the state after its updates,
removal notices and completed polls alone. All theorems above therefore hold through them. -/
theorem resubscription_transparent (g : Bool) (s : State) (tr : List Ev) :
    run g s (tr.filter isData) = run g s tr :=
  run_filter_data g s tr

/-- The choice made by `setL1Head` does not depend on Go's map iteration order. -/
theorem pick_order_independent (fin : Nat) (b₁ b₂ : Buf) (hb : b₁.NodupKeys)
    (hp : ∀ e, e ∈ b₁ ↔ e ∈ b₂) : pickMax fin b₁ = pickMax fin b₂ :=
  pickMax_perm hb hp

/-! ## the geth forwarding layer -/

/-- What the forwarding layer (`WatchStateUpdate`/`forwardStateUpdates`, `FilterStateUpdate`)
hands to the client is, log by log and in order, what the L1 node delivered: same length, same L1
block, same `removed` flag — no removal notice is ever swallowed, whatever came before it on the
subscription (several reorgs, bursts of removed logs). Together with `live_spec` this is what makes
"reported removed by the L1 node" and "removal notice received by the client" the same thing. -/
theorem forward_preserves_every_log (rs : List RawLog) :
    (forwardStream rs).length = rs.length ∧
    (forwardStream rs).map (fun u => (u.l1, u.removed)) = rs.map (fun r => (r.l1, r.removed)) ∧
    ∀ a b, forwardStream (a ++ b) = forwardStream a ++ forwardStream b := by
  refine ⟨by simp [forwardStream], ?_, by intro a b; simp [forwardStream]⟩
  simp [forwardStream, decodeLog, Function.comp_def]

/-- Values in range are passed on unchanged (Starknet block numbers below 2^64, felts below P). -/
theorem decode_in_range (r : RawLog) (h1 : r.blockNumber < 2 ^ 64) (h2 : r.blockHash < feltP)
    (h3 : r.globalRoot < feltP) :
    decodeLog r = ⟨r.blockNumber, r.blockHash, r.globalRoot, r.l1, r.removed⟩ := by
  simp [decodeLog, Nat.mod_eq_of_lt h1, Nat.mod_eq_of_lt h2, Nat.mod_eq_of_lt h3]

example : forwardStream [⟨1, 7, 2, 5, false⟩, ⟨1, 7, 2, 5, true⟩, ⟨3, 8, feltP + 4, 6, true⟩] =
    [⟨7, 2, 1, 5, false⟩, ⟨7, 2, 1, 5, true⟩, ⟨8, 4, 3, 6, true⟩] := by decide

/-! ## start-up catch-up -/

/-- The catch-up scan is a trace of the event loop: its effect is that of delivering the scanned
logs as updates and, if the scan completed, one poll. So every theorem above covers it. -/
theorem catchup_is_trace (g : Bool) (s : State) (hist : List SU) (latest fin₁ chunk : Nat)
    (failAt : Option Nat) (fin₂ : Nat) :
    let o := catchUpLoop hist fin₁ chunk failAt latest 0 s.buf [] []
    (catchUp g s hist latest fin₁ chunk failAt fin₂).1 =
      if o.result = .complete then run g s (o.applied.map Ev.upd ++ [Ev.tick fin₂])
      else run g s (o.applied.map Ev.upd) :=
  catchUp_as_trace g s hist latest fin₁ chunk failAt fin₂

/-- What a completed scan selects: the last log of the highest L1 block at or below both the
latest and the finalised height that has a log — whatever the chunk size (≥ 1; the Go loop does
not terminate for chunk size 0) and whatever history-consistent entries were already buffered. -/
theorem catchup_spec (hist : List SU) (latest fin₁ fin₂ chunk : Nat) (b0 : Buf)
    (hh : ∀ u ∈ hist, u.removed = false) (hb : HistConsistent hist latest b0)
    (hc : chunk ≠ 0) (hfin : fin₁ ≤ fin₂) :
    (catchUpLoop hist fin₁ chunk none latest 0 b0 [] []).result = .complete ∧
    (∀ u, pickMax fin₂ (catchUpLoop hist fin₁ chunk none latest 0 b0 [] []).buf = some u →
      CatchUpTop hist latest fin₂ u) ∧
    (pickMax fin₂ (catchUpLoop hist fin₁ chunk none latest 0 b0 [] []).buf = none →
      ∀ u ∈ hist, ¬ (u.l1 ≤ fin₂ ∧ u.l1 ≤ latest)) :=
  catchUp_pick hh hb hc hfin

/-- Any two chunk sizes give the same stored head and the same notification. -/
theorem catchup_equiv (g : Bool) (h : Option Head) (hist : List SU) (latest fin₁ fin₂ c c' : Nat)
    (hh : ∀ u ∈ hist, u.removed = false) (hc : c ≠ 0) (hc' : c' ≠ 0) (hfin : fin₁ ≤ fin₂) :
    (catchUp g (State.init h) hist latest fin₁ c none fin₂).1.head =
      (catchUp g (State.init h) hist latest fin₁ c' none fin₂).1.head ∧
    (catchUp g (State.init h) hist latest fin₁ c none fin₂).2.2 =
      (catchUp g (State.init h) hist latest fin₁ c' none fin₂).2.2 := by
  have hb := histConsistent_nil hist latest
  have hpick := catchUp_pick_eq (fin₂ := fin₂) hh hb hb hc hc' hfin
  have r1 := (catchUp_pick (fin₂ := fin₂) hh hb hc hfin).1
  have r2 := (catchUp_pick (fin₂ := fin₂) hh hb hc' hfin).1
  simp only [catchUp, State.init, r1, r2, setL1Head, hpick]
  cases pickMax fin₂ (catchUpLoop hist fin₁ c' none latest 0 [] [] []).buf with
  | none => simp
  | some u => by_cases hs : skipCandidate g h u = true <;> simp [hs]

/-- A scan cut short by a failing log query changes neither the stored head nor notifies; and a
later complete scan on the buffer it left behind (any chunk size) ends with the same head and
notification as a single undisturbed scan: failures and retries do not change the result. -/
theorem catchup_retry (g : Bool) (h : Option Head) (hist : List SU)
    (latest fin₁ fin₂ c c' : Nat) (failAt : Option Nat)
    (hh : ∀ u ∈ hist, u.removed = false) (hc' : c' ≠ 0) (hfin : fin₁ ≤ fin₂)
    (hfail : (catchUpLoop hist fin₁ c failAt latest 0 [] [] []).result = .failed) :
    let s₁ := (catchUp g (State.init h) hist latest fin₁ c failAt fin₂).1
    s₁.head = h ∧ (catchUp g (State.init h) hist latest fin₁ c failAt fin₂).2.2 = none ∧
    (catchUp g s₁ hist latest fin₁ c' none fin₂).1.head =
      (catchUp g (State.init h) hist latest fin₁ c' none fin₂).1.head ∧
    (catchUp g s₁ hist latest fin₁ c' none fin₂).2.2 =
      (catchUp g (State.init h) hist latest fin₁ c' none fin₂).2.2 := by
  have hb := histConsistent_nil hist latest
  have hb1 : HistConsistent hist latest (catchUpLoop hist fin₁ c failAt latest 0 [] [] []).buf :=
    catchUp_failed_consistent hh hb
  have hpick := catchUp_pick_eq (fin₂ := fin₂) hh hb1 hb hc' hc' hfin
  have r1 := (catchUp_pick (fin₂ := fin₂) hh hb1 hc' hfin).1
  have r2 := (catchUp_pick (fin₂ := fin₂) hh hb hc' hfin).1
  simp only [catchUp, State.init, hfail, r1, r2, setL1Head, hpick]
  cases pickMax fin₂ (catchUpLoop hist fin₁ c' none latest 0 [] [] []).buf with
  | none => simp
  | some u => by_cases hs : skipCandidate g h u = true <;> simp [hs]

/-! ## one whole life of the client: chain-id gate, catch-up, event loop -/

/-- Unless the L1 node's chain id was verified, start-up touches neither the buffer nor the stored
head (`Run`: mismatch is fatal, cancellation while retrying; `CatchUpL1Head`: any failure). -/
theorem chainid_gate_writes_nothing (g : Bool) (s : State) (cfg : Startup) (oneshot : Bool)
    (h : (startUp g s cfg oneshot).2 ≠ .proceed) : (startUp g s cfg oneshot).1 = s :=
  startUp_gate g s cfg oneshot h

theorem life_blocked (g : Bool) (s : State) (cfg : Startup) (tr : List Ev)
    (hg : ensureChainID cfg.chainId ≠ .proceed) : runLife g s cfg tr = s :=
  runLife_blocked g s cfg tr hg

/-- A whole life under `Run` is ONE trace of the event loop: the logs applied by the catch-up scan
(and its poll, if it completed) followed by everything received afterwards; if a height could not
be read the scan is skipped. -/
theorem life_is_trace (g : Bool) (s : State) (cfg : Startup) (tr : List Ev) (la f1 : Nat)
    (hg : ensureChainID cfg.chainId = .proceed) (hla : cfg.latest = some la)
    (hf : cfg.fin₁ = some f1) :
    runLife g s cfg tr = run g s (startUpTrace s cfg la f1 ++ tr) :=
  runLife_trace g s cfg tr la f1 hg hla hf

theorem life_skips_catchup (g : Bool) (s : State) (cfg : Startup) (tr : List Ev)
    (hg : ensureChainID cfg.chainId = .proceed) (h : cfg.latest = none ∨ cfg.fin₁ = none) :
    runLife g s cfg tr = run g s tr :=
  runLife_skip g s cfg tr hg h

/-- `head_spec` for the combined start-up + run trace (fresh database): whatever the chunk size,
wherever a log query failed, whatever is delivered afterwards (duplicates of scanned logs, late
logs, reorgs) — after every poll of the life the stored head is the commit of an event of the
highest L1 block at or below the reported finalised height among ALL logs the life has received,
scanned or subscribed, that were not reported removed. -/
theorem head_spec_life (cfg : Startup) (tr : List Ev) (la f1 F : Nat)
    (hg : ensureChainID cfg.chainId = .proceed) (hla : cfg.latest = some la)
    (hf : cfg.fin₁ = some f1)
    (hF : FinMono (startUpTrace (State.init none) cfg la f1 ++ tr ++ [.tick F]))
    (hU : NoUnfinalise (startUpTrace (State.init none) cfg la f1 ++ tr ++ [.tick F]))
    (hL : L2Ordered (startUpTrace (State.init none) cfg la f1 ++ tr ++ [.tick F])) :
    ((∀ e ∈ live (startUpTrace (State.init none) cfg la f1 ++ tr), ¬ e.2.l1 ≤ F) ∧
      (runLife true (State.init none) cfg (tr ++ [.tick F])).head = none) ∨
    (∃ e ∈ live (startUpTrace (State.init none) cfg la f1 ++ tr), e.2.l1 ≤ F ∧
      (∀ c ∈ live (startUpTrace (State.init none) cfg la f1 ++ tr), c.2.l1 ≤ F → c.2.l1 ≤ e.2.l1) ∧
      (runLife true (State.init none) cfg (tr ++ [.tick F])).head = some e.2.toHead) := by
  have e := runLife_trace true (State.init none) cfg (tr ++ [Ev.tick F]) la f1 hg hla hf
  rw [e, ← List.append_assoc]
  exact head_spec_guarded _ F hF hU hL

/-- The provider hypotheses are not assumptions about the catch-up part of a life: the trace the
scan amounts to satisfies them by itself whenever the node's log history is what `eth_getLogs` of
one canonical chain returns (no removed logs, a later L1 block commits a later Starknet block). -/
theorem startup_trace_wellbehaved (s : State) (cfg : Startup) (la f1 : Nat)
    (hn : ∀ u ∈ cfg.hist, u.removed = false)
    (ho : ∀ x ∈ cfg.hist, ∀ y ∈ cfg.hist, x.l1 < y.l1 → x.l2 < y.l2) :
    FinMono (startUpTrace s cfg la f1) ∧ NoUnfinalise (startUpTrace s cfg la f1) ∧
      L2Ordered (startUpTrace s cfg la f1) :=
  startUpTrace_wellbehaved s cfg la f1 hn ho

/-! ## the L1-head feed -/

/-- A subscriber of the L1-head feed (one-slot buffer, a value is skipped when the slot is full)
receives, in order, a subsequence of the heads that were set — whatever the interleaving of sends
and receives. (It may miss heads, including the latest one, if it is slow; it never sees a head
that was not set, nor an older head after a newer one.) -/
theorem feed_in_order (ops : List FeedOp) :
    (subRun {} ops).received.Sublist (sentOf ops) := by
  have h := feed_invariant ops {} [] (by simp)
  simp only [List.nil_append] at h
  exact List.Sublist.trans (List.sublist_append_left _ _) h

/-! ## non-vacuity: the hypotheses are satisfiable by non-trivial traces -/

/-- Restart with the head of L1 block 3 stored; a log of block 2 (older) and one of block 6 arrive. -/
example : (run true (State.init (some ⟨7, 0x70, 0x1070⟩))
    [.upd ⟨6, 0x60, 0x1060, 2, false⟩, .tick 4, .upd ⟨8, 0x81, 0x1081, 6, false⟩, .tick 4]).head =
    some ⟨7, 0x70, 0x1070⟩ := by decide
example : (run true (State.init (some ⟨7, 0x70, 0x1070⟩))
    [.upd ⟨6, 0x60, 0x1060, 2, false⟩, .tick 4, .upd ⟨8, 0x81, 0x1081, 6, false⟩, .tick 6]).head =
    some ⟨8, 0x81, 0x1081⟩ := by decide
example : ensureChainID [.err, .err, .ok] = .proceed ∧ ensureChainID [.err, .mismatch] = .fatal ∧
    checkChainIDOnce [.err, .ok] = .fatal := by decide
example : (subRun {} [.send ⟨1, 1, 1⟩, .send ⟨2, 2, 2⟩, .recv, .send ⟨3, 3, 3⟩, .recv]).received =
    [⟨1, 1, 1⟩, ⟨3, 3, 3⟩] := by decide

/-- An in-order, well-behaved trace with a reorg: block 5 event, reorged away (removal notice),
replaced by a block 6 event, finalised at 7. -/
def goodTrace : List Ev :=
  [.upd ⟨7, 0x70, 0x1070, 3, false⟩, .tick 3, .upd ⟨8, 0x80, 0x1080, 5, false⟩,
   .upd ⟨8, 0x80, 0x1080, 5, true⟩, .upd ⟨8, 0x81, 0x1081, 6, false⟩]

example : (run false (State.init none) (goodTrace ++ [.tick 7])).head = some ⟨8, 0x81, 0x1081⟩ := by
  decide
example : live goodTrace = [(4, ⟨8, 0x81, 0x1081, 6, false⟩), (0, ⟨7, 0x70, 0x1070, 3, false⟩)] := by
  decide
example : IsTop 7 (live goodTrace) (4, ⟨8, 0x81, 0x1081, 6, false⟩) := by
  refine ⟨by decide, by decide, ?_⟩
  intro c hc _
  have : live goodTrace = [(4, ⟨8, 0x81, 0x1081, 6, false⟩), (0, ⟨7, 0x70, 0x1070, 3, false⟩)] := by
    decide
  rw [this] at hc
  simp at hc
  rcases hc with rfl | rfl
  · exact Or.inr ⟨rfl, Nat.le_refl _⟩
  · exact Or.inl (by decide)

example : FinMono (goodTrace ++ [.tick 7]) ∧ NoUnfinalise (goodTrace ++ [.tick 7]) ∧
    InOrder (goodTrace ++ [.tick 7]) := by
  refine ⟨?_, ?_, ?_⟩
  · have h1 : FinMono ([] ++ [Ev.upd ⟨7, 0x70, 0x1070, 3, false⟩]) :=
      finMono_snoc finMono_nil (by intro F h; cases h)
    have h2 := finMono_snoc (x := Ev.tick 3) h1
      (by intro F _ F' h'; simp [lastFin, lastFinR, finStep] at h')
    have h3 := finMono_snoc (x := Ev.upd ⟨8, 0x80, 0x1080, 5, false⟩) h2 (by intro F h; cases h)
    have h4 := finMono_snoc (x := Ev.upd ⟨8, 0x80, 0x1080, 5, true⟩) h3 (by intro F h; cases h)
    have h5 := finMono_snoc (x := Ev.upd ⟨8, 0x81, 0x1081, 6, false⟩) h4 (by intro F h; cases h)
    exact finMono_snoc h5 (by
      intro F h F' h'
      cases h
      change some 3 = some F' at h'
      cases h'
      decide)
  · have h1 : NoUnfinalise ([] ++ [Ev.upd ⟨7, 0x70, 0x1070, 3, false⟩]) :=
      noUnfinalise_snoc noUnfinalise_nil (by intro r h hr; cases h; cases hr)
    have h2 := noUnfinalise_snoc (x := Ev.tick 3) h1 (by intro r h; cases h)
    have h3 := noUnfinalise_snoc (x := Ev.upd ⟨8, 0x80, 0x1080, 5, false⟩) h2
      (by intro r h hr; cases h; cases hr)
    have h4 := noUnfinalise_snoc (x := Ev.upd ⟨8, 0x80, 0x1080, 5, true⟩) h3 (by
      intro r h _ F hF
      cases h
      simp [lastFin, lastFinR, finStep] at hF
      subst hF; decide)
    have h5 := noUnfinalise_snoc (x := Ev.upd ⟨8, 0x81, 0x1081, 6, false⟩) h4
      (by intro r h hr; cases h; cases hr)
    exact noUnfinalise_snoc h5 (by intro r h; cases h)
  · have h1 : InOrder ([] ++ [Ev.upd ⟨7, 0x70, 0x1070, 3, false⟩]) :=
      inOrder_snoc inOrder_nil (by intro u _ _ F hF; simp [lastFin, lastFinR] at hF)
    have h2 := inOrder_snoc (x := Ev.tick 3) h1 (by intro u h; cases h)
    have h3 := inOrder_snoc (x := Ev.upd ⟨8, 0x80, 0x1080, 5, false⟩) h2 (by
      intro u h _ F _ c hc _
      cases h
      have : c = (0, ⟨7, 0x70, 0x1070, 3, false⟩) := by
        have hl : live ([] ++ [Ev.upd ⟨7, 0x70, 0x1070, 3, false⟩] ++ [Ev.tick 3]) =
          [(0, ⟨7, 0x70, 0x1070, 3, false⟩)] := by decide
        rw [hl] at hc; simpa using hc
      subst this; decide)
    have h4 := inOrder_snoc (x := Ev.upd ⟨8, 0x80, 0x1080, 5, true⟩) h3
      (by intro u h hr; cases h; cases hr)
    have h5 := inOrder_snoc (x := Ev.upd ⟨8, 0x81, 0x1081, 6, false⟩) h4 (by
      intro u h _ F hF c hc hcF
      cases h
      simp [lastFin, lastFinR, finStep] at hF
      subst hF
      have hl : live ([] ++ [Ev.upd ⟨7, 0x70, 0x1070, 3, false⟩] ++ [Ev.tick 3] ++
          [Ev.upd ⟨8, 0x80, 0x1080, 5, false⟩] ++ [Ev.upd ⟨8, 0x80, 0x1080, 5, true⟩]) =
        [(0, ⟨7, 0x70, 0x1070, 3, false⟩)] := by decide
      rw [hl] at hc
      have : c = (0, ⟨7, 0x70, 0x1070, 3, false⟩) := by simpa using hc
      subst this; decide)
    exact inOrder_snoc h5 (by intro u h; cases h)

/-- Catch-up: chunk sizes 1 and 4 over a history with two logs in L1 block 3 and one in block 8,
latest 9, finalised 5: both pick the second log of block 3. -/
def hist3 : List SU := [⟨1, 0x10, 0x1010, 3, false⟩, ⟨2, 0x20, 0x1020, 3, false⟩, ⟨3, 0x30, 0x1030, 8, false⟩]
example : (∀ u ∈ hist3, u.removed = false) ∧ HistConsistent hist3 9 [] :=
  ⟨by decide, histConsistent_nil _ _⟩
example : (catchUpLoop hist3 5 2 (some 1) 9 0 [] [] []).result = .failed := by
  simp [catchUpLoop, chunkFrom, filterLogs, hist3]
example : CatchUpTop hist3 9 5 ⟨2, 0x20, 0x1020, 3, false⟩ := by
  refine ⟨3, by decide, by decide, by decide, ?_⟩
  intro k' w hw hk' _
  have := lastAt_some hw
  have hm : w ∈ hist3 := this.1
  simp [hist3] at hm
  rcases hm with rfl | rfl | rfl <;> simp at this <;> omega

end Juno.C17.Props
