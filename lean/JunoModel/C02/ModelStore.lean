import JunoModel.C02.ModelAccept
/-
C02 — model, part 3: `Store` on the level of the key/value store (round 4).

`ModelAccept.lean` keeps the head of the chain as an abstract value (`Chain.head`). The code has no
such value: `verifyBlockSuccession` (blockchain/statebackend/block_ops.go) DERIVES the head from
two buckets — `ChainHeight` and `BlockHeadersByNumber` — on every call, the new state backend reads
the head's state root from the stored header (`headStateRoot`), and everything `Store` does to the
"stored chain and indexes" of the property statement is a list of puts into one write batch
(`writeBlockContent`):

  WriteBlockHeader              BlockHeaderNumbersByHash[hash] = number, BlockHeadersByNumber[number] = header
  WriteTransactionsAndReceipts  TransactionBlockNumbersAndIndicesByHash[tx.hash] = (number, index) for
                                every index, then BlockTransactions[number]
  WriteStateUpdateByBlockNum    StateUpdatesByBlockNumber[number]
  WriteBlockCommitment          BlockCommitments[number]
  WriteL1HandlerMsgHashes       L1HandlerTxnHashByMsgHash[keccak256(message)] = tx.hash for every L1 handler
  storeCasmHashMetadata         ClassCasmHashMetadata[class] (casm_metadata.go; the only step of
                                `writeBlockContent` that can REJECT a block — after the state update)
  WriteChainHeight              ChainHeight = number

This file transcribes those functions over a concrete key/value store for the non-state buckets
(`IDB`), together with `core.ClassCasmHashMetadata` (core/class.go: constructors, `Migrate`,
`Unmigrate`, `CasmHash`, `CasmHashAt`, `MarshalBinary`) and `deleteBlockContent` (the index part of
`RevertHead`). The state itself stays the abstract `StateSem` of `ModelAccept.lean`; the node is the
pair (index store, abstract chain) and `ProofsStore.lean` proves that the store-level node refines
the abstract one for all histories. Core Lean only.
-/
namespace Juno.C02

/-! ## `core.ClassCasmHashMetadata` (core/class.go) -/

/-- `casmHashV1 = none` is the nil pointer ("declared with V2"); `migratedAt = 0` is "not migrated". -/
structure CasmMeta where
  declaredAt : UInt64
  casmHashV2 : Nat
  migratedAt : UInt64
  casmHashV1 : Option Nat
deriving DecidableEq, Repr, Inhabited

/-- `NewCasmHashMetadataDeclaredV1` -/
def CasmMeta.newV1 (declaredAt : UInt64) (v1 v2 : Nat) : CasmMeta := ⟨declaredAt, v2, 0, some v1⟩
/-- `NewCasmHashMetadataDeclaredV2` -/
def CasmMeta.newV2 (declaredAt : UInt64) (v2 : Nat) : CasmMeta := ⟨declaredAt, v2, 0, none⟩

def CasmMeta.isDeclaredWithV2 (c : CasmMeta) : Bool := c.casmHashV1.isNone
def CasmMeta.isMigrated (c : CasmMeta) : Bool := decide (c.migratedAt > 0)
def CasmMeta.isMigratedAt (c : CasmMeta) (height : UInt64) : Bool :=
  decide (c.migratedAt > 0) && decide (c.migratedAt ≤ height)

inductive MigrateErr
  | v2Declared | beforeDeclared | alreadyMigrated | notMigrated
deriving DecidableEq, Repr, Inhabited

/-- `Migrate(migratedAt)`: the three guards in the order of the code. -/
def CasmMeta.migrate (c : CasmMeta) (migratedAt : UInt64) : Except MigrateErr CasmMeta :=
  if c.isDeclaredWithV2 then .error .v2Declared
  else if migratedAt ≤ c.declaredAt then .error .beforeDeclared
  else if c.isMigrated then .error .alreadyMigrated
  else .ok { c with migratedAt := migratedAt }

/-- `Unmigrate()` -/
def CasmMeta.unmigrate (c : CasmMeta) : Except MigrateErr CasmMeta :=
  if !c.isMigrated then .error .notMigrated else .ok { c with migratedAt := 0 }

/-- `CasmHash()`: the hash valid at the most recent height. -/
def CasmMeta.casmHash (c : CasmMeta) : Nat :=
  if c.isDeclaredWithV2 || c.isMigrated then c.casmHashV2 else c.casmHashV1.getD 0

/-- `CasmHashAt(height)`; `none` is `db.ErrKeyNotFound`. -/
def CasmMeta.casmHashAt (c : CasmMeta) (height : UInt64) : Option Nat :=
  if c.declaredAt > height then none
  else if c.isDeclaredWithV2 || c.isMigratedAt height then some c.casmHashV2
  else some (c.casmHashV1.getD 0)

/-- big-endian bytes of fixed width (`binary.BigEndian.PutUint64`, `felt.Marshal`) -/
def beBytes : Nat → Nat → Bytes
  | 0, _ => []
  | w + 1, n => beBytes w (n / 256) ++ [UInt8.ofNat (n % 256)]

/-- `MarshalBinary`: declaredAt (8) ‖ casmHashV2 (32) ‖ flag ‖ [migratedAt (8)] ‖ flag ‖ [casmHashV1 (32)] -/
def CasmMeta.marshal (c : CasmMeta) : Bytes :=
  beBytes 8 c.declaredAt.toNat ++ beBytes 32 c.casmHashV2 ++
  (if c.migratedAt > 0 then 1 :: beBytes 8 c.migratedAt.toNat else [0]) ++
  (match c.casmHashV1 with | some h => 1 :: beBytes 32 h | none => [0])

/-! ## The index store -/

/-- keys of the non-state buckets `Store` / `RevertHead` touch -/
inductive IKey
  | chainHeight
  | headerByNumber (n : UInt64)
  | numberByHash (h : Term)
  | txIndexByHash (h : Term)
  | blockTxs (n : UInt64)
  | stateUpdate (n : UInt64)
  | commitments (n : UInt64)
  /-- `L1HandlerTxnHashByMsgHash`; the key is the legacy Keccak-256 of the 32-byte encodings of
  the listed felts (`L1HandlerTransaction.MessageHash`); the harness evaluates it -/
  | l1MsgHash (preimage : List Term)
  | casmMeta (classHash : Nat)
deriving DecidableEq, Repr, Inhabited

inductive IVal
  | num (n : UInt64)
  | header (h : Header)
  | txIdx (number index : UInt64)
  | body (txs : List Tx) (receipts : List Receipt)
  | su (u : StateUpdate)
  /-- the caller-supplied `*core.BlockCommitments` (what `SanityCheckNewHeight` returned): opaque -/
  | comms (id : Nat)
  | txHash (h : Term)
  | casm (m : CasmMeta)
deriving DecidableEq, Repr, Inhabited

/-- the store: at most one entry per key -/
abbrev IDB := List (IKey × IVal)

def IDB.get (db : IDB) (k : IKey) : Option IVal :=
  match db with
  | [] => none
  | (k', v) :: rest => if k' = k then some v else IDB.get rest k

def IDB.erase (db : IDB) (k : IKey) : IDB := db.filter (fun e => !decide (e.1 = k))

def IDB.put (db : IDB) (k : IKey) (v : IVal) : IDB := (k, v) :: db.erase k

/-- a write batch: puts (`some v`) and deletes (`none`), oldest first -/
abbrev IBatch := List (IKey × Option IVal)

def IDB.write (db : IDB) (op : IKey × Option IVal) : IDB :=
  match op.2 with
  | some v => db.put op.1 v
  | none => db.erase op.1

def IDB.applyBatch (db : IDB) (b : IBatch) : IDB := b.foldl IDB.write db

/-! ## Reading the head (block_ops.go `headNumberAndHash`, `verifyBlockSuccession`, `headStateRoot`) -/

inductive RdErr
  | notFound    -- db.ErrKeyNotFound
  | other       -- any other error (undecodable value, I/O)
deriving DecidableEq, Repr, Inhabited

/-- `core.GetChainHeight` -/
def getChainHeight (db : IDB) : Except RdErr UInt64 :=
  match db.get .chainHeight with
  | some (.num n) => .ok n
  | none => .error .notFound
  | some _ => .error .other

/-- `core.GetBlockHeaderByNumber` (the partial decoders `GetBlockHeaderHashByNumber` and
`GetGlobalStateRootByBlockNumber` read single fields of the same value) -/
def getHeaderByNumber (db : IDB) (n : UInt64) : Except RdErr Header :=
  match db.get (.headerByNumber n) with
  | some (.header h) => .ok h
  | none => .error .notFound
  | some _ => .error .other

/-- `headNumberAndHash` -/
def headNumberAndHash (db : IDB) : Except RdErr Head :=
  match getChainHeight db with
  | .error e => .error e
  | .ok height =>
    match getHeaderByNumber db height with
    | .error e => .error e
    | .ok h => .ok ⟨height, h.hash⟩

/-- rejection classes of `Store` on the level of the store: those of `accept`, the three state checks
told apart, and what only the concrete `Store` can answer -/
inductive CasmErr
  | classMissing      -- protocol < 0.14.1: a declared class has no definition in `newClasses`
  | notSierra         -- … or the definition is not a Sierra class
  | metaMissing       -- protocol ≥ 0.14.1: a migrated class has no metadata in the database
  | migrate (e : MigrateErr)
  | compiledHash      -- protocol < 0.14.1: the V2 hash of a declared class's compiled class cannot be computed
                      -- (`ClassDef.compiledBad`): a PANIC as the code is, an error with the repair
deriving DecidableEq, Repr, Inhabited

inductive RejectS
  | version | number | parent
  | io                      -- a read failed with something else than "not found"
  | stateOld | stateApply | stateNew
  | casm (e : CasmErr)
  | panicL1                 -- `MessageHash` indexes `CallData[0]` of an L1 handler without calldata
deriving DecidableEq, Repr, Inhabited

/-- `verifyBlockSuccession` over the store. NOTE `errors.Is(err, db.ErrKeyNotFound)`: a missing height
AND a height whose header is missing both read as "empty chain". -/
def verifySuccessionDB (db : IDB) (h : Header) : Except RejectS Unit :=
  if !versionSupported h.version then .error .version
  else
    match headNumberAndHash db with
    | .error .other => .error .io
    | r =>
      let head : Option Head := match r with | .ok hd => some hd | .error _ => none
      if expectedNumber head ≠ h.number then .error .number
      else if h.parentHash ≠ expectedParent head then .error .parent
      else .ok ()

/-- `headStateRoot`: zero for block 0, else the state root in the stored header of `number - 1`. -/
def headStateRootDB (db : IDB) (h : Header) : Except RdErr Term :=
  if h.number = 0 then .ok (.felt 0)
  else match getHeaderByNumber db (h.number - 1) with
    | .ok hd => .ok hd.stateRoot
    | .error e => .error e

/-! ## `writeBlockContent` -/

/-- `WriteBlockHeader` -/
def headerWrites (h : Header) : IBatch :=
  [(.numberByHash h.hash, some (.num h.number)), (.headerByNumber h.number, some (.header h))]

def txIndexWritesFrom (number : UInt64) : List Tx → UInt64 → IBatch
  | [], _ => []
  | t :: ts, i => (.txIndexByHash (t.hash.getD (.felt 0)), some (.txIdx number i)) :: txIndexWritesFrom number ts (i + 1)

/-- `WriteTransactionsAndReceipts`: one index entry per transaction IN ORDER (a hash that occurs
twice ends up pointing to its last position), then the block's transactions and receipts. -/
def txWrites (number : UInt64) (txs : List Tx) (rs : List Receipt) : IBatch :=
  txIndexWritesFrom number txs 0 ++ [(.blockTxs number, some (.body txs rs))]

/-- `L1HandlerTransaction.MessageHash` — the felts whose 32-byte encodings are hashed, in order.
`none`: `l.CallData[0]` on an empty calldata (index out of range, a panic). -/
def l1MsgPreimage (l : L1HandlerTx) : Option (List Term) :=
  match l.callData with
  | [] => none
  | «from» :: payload =>
    some (match l.nonce with
      | some nonce => [«from», l.contractAddress, nonce, l.entryPointSelector, len payload] ++ payload
      | none => [«from», l.contractAddress, len l.callData, l.entryPointSelector] ++ payload)

/-- `WriteL1HandlerMsgHashes`; `none` = panic -/
def l1Writes : List Tx → Option IBatch
  | [] => some []
  | .l1Handler l :: ts =>
    match l1MsgPreimage l, l1Writes ts with
    | some pre, some rest => some ((.l1MsgHash pre, some (.txHash l.hash)) :: rest)
    | _, _ => none
  | _ :: ts => l1Writes ts

def v0_14_1 : Ver := ⟨0, 14, 1⟩

def termNat : Term → Nat
  | .felt n => n
  | _ => 0

/-- `storeCasmHashMetadataV1` (protocol < 0.14.1). `v2of c` is the Blake2s hash juno computes from
the compiled class of `c`'s definition (`sierraClass.Compiled.Hash(HashVersionV2)`, a black box) — when that
computation returns; when it does not (`compiledBad`) the step ends with `compiledHash`. -/
def casmV1 (number : UInt64) (v2of : Nat → Nat) (classes : Classes) : FMap → Except CasmErr IBatch
  | [] => .ok []
  | (c, casm) :: rest =>
    match classes.find? (fun kc => kc.1 == c) with
    | none => .error .classMissing
    | some kc =>
      if kc.2.cairo0 then .error .notSierra
      else if kc.2.compiledBad then .error .compiledHash
      else match casmV1 number v2of classes rest with
        | .error e => .error e
        | .ok ws => .ok ((.casmMeta c, some (.casm (CasmMeta.newV1 number (termNat casm) (v2of c)))) :: ws)

def casmV2Declared (number : UInt64) (declared : FMap) : IBatch :=
  declared.map (fun kc => (.casmMeta kc.1, some (.casm (CasmMeta.newV2 number (termNat kc.2)))))

/-- the second loop of `storeCasmHashMetadataV2`. The metadata is read from `reader`, which in BOTH
`Store` variants is the committed database (`b.database`), not the batch. -/
def casmV2Migrated (db : IDB) (number : UInt64) : FMap → Except CasmErr IBatch
  | [] => .ok []
  | (c, _) :: rest =>
    match db.get (.casmMeta c) with
    | some (.casm m) =>
      (match m.migrate number with
       | .error e => .error (.migrate e)
       | .ok m' =>
         match casmV2Migrated db number rest with
         | .error e => .error e
         | .ok ws => .ok ((.casmMeta c, some (.casm m')) :: ws))
    | _ => .error .metaMissing

/-- `State.updateClassTrie` (core/state) / `updateDeclaredClassesTrie` (core/deprecatedstate): the (class,
compiled class hash) leaves a state update writes into the class trie — the declared classes WHOSE
DEFINITION IS IN `newClasses` (`if _, found := classDefs[classHash]; !found { continue }`), then every
migrated class. A declared class without definition leaves the class trie, hence the state root, untouched. -/
def classTrieUpdates (d : StateDiff) (classes : Classes) : FMap :=
  d.declaredV1.filter (fun kc => (classes.find? (fun x => x.1 == kc.1)).isSome) ++ d.migrated

/-- SWITCH (the model follows the code). `false`: `/repo` as it is — `storeCasmHashMetadataV2` (protocol
≥ 0.14.1) writes the metadata of every declared class WITHOUT looking at `newClasses`, unlike the V1
variant; together with `State.Update` skipping the class-trie leaf of a declared class whose definition
is missing, a declared-class entry without definition changes neither the state root nor anything
`Store` checks. `true`: with `proposed-fixes/C02-declared-class-without-definition-from-0-14-1.diff` the V2
variant requires the Sierra definition like the V1 variant does. -/
def casmV2RequiresDefinition : Bool := true

/-- the first loop of `storeCasmHashMetadataV2` with the repair: the definition must be there -/
def casmV2DeclaredChecked (number : UInt64) (classes : Classes) : FMap → Except CasmErr IBatch
  | [] => .ok []
  | (c, casm) :: rest =>
    match classes.find? (fun kc => kc.1 == c) with
    | none => .error .classMissing
    | some kc =>
      if kc.2.cairo0 then .error .notSierra
      else match casmV2DeclaredChecked number classes rest with
        | .error e => .error e
        | .ok ws => .ok ((.casmMeta c, some (.casm (CasmMeta.newV2 number (termNat casm)))) :: ws)

/-- `storeCasmHashMetadata`: dispatch on the protocol version (≥ 0.14.1: casm hash v2). An
unparsable version cannot reach this point (`verifyBlockSuccession` has checked it). -/
def casmStepWith (checked : Bool) (db : IDB) (h : Header) (d : StateDiff) (classes : Classes) (v2of : Nat → Nat) :
    Except CasmErr IBatch :=
  match parseVersion h.version with
  | none => .ok []
  | some v =>
    if v.ge v0_14_1 then
      match (if checked then casmV2DeclaredChecked h.number classes d.declaredV1
             else .ok (casmV2Declared h.number d.declaredV1)) with
      | .error e => .error e
      | .ok dw =>
        match casmV2Migrated db h.number d.migrated with
        | .error e => .error e
        | .ok ws => .ok (dw ++ ws)
    else casmV1 h.number v2of classes d.declaredV1

/-- the step of the code as it is -/
def casmStep (db : IDB) (h : Header) (d : StateDiff) (classes : Classes) (v2of : Nat → Nat) : Except CasmErr IBatch :=
  casmStepWith casmV2RequiresDefinition db h d classes v2of

/-- every casm error the step can report, whatever order the (randomly ordered) Go maps are walked in -/
def casmErrorsWith (checked : Bool) (db : IDB) (h : Header) (d : StateDiff) (classes : Classes) : List CasmErr :=
  let defErrs : List CasmErr := d.declaredV1.filterMap (fun kc =>
    match classes.find? (fun x => x.1 == kc.1) with
    | none => some .classMissing
    | some x => if x.2.cairo0 then some .notSierra else none)
  match parseVersion h.version with
  | none => []
  | some v =>
    if v.ge v0_14_1 then
      (if checked then defErrs else []) ++
      d.migrated.filterMap (fun kc =>
        match db.get (.casmMeta kc.1) with
        | some (.casm m) => (match m.migrate h.number with | .error e => some (.migrate e) | .ok _ => none)
        | _ => some .metaMissing)
    else defErrs ++ d.declaredV1.filterMap (fun kc =>
      match classes.find? (fun x => x.1 == kc.1) with
      | some x => if !x.2.cairo0 && x.2.compiledBad then some .compiledHash else none
      | none => none)

/-- what `writeBlockContent` appends to the batch, in the order of the code; `commitId` stands for the
`BlockCommitments` argument -/
def blockContentWritesWith (checked : Bool) (db : IDB) (B : Bundle) (commitId : Nat) (v2of : Nat → Nat) : Except RejectS IBatch :=
  let h := B.block.header
  let w1 : IBatch := headerWrites h ++ txWrites h.number B.block.txs B.block.receipts ++
    [(.stateUpdate h.number, some (.su B.su)), (.commitments h.number, some (.comms commitId))]
  match l1Writes B.block.txs with
  | none => .error .panicL1
  | some l1 =>
    match casmStepWith checked db h B.su.diff B.classes v2of with
    | .error e => .error (.casm e)
    | .ok cw => .ok (w1 ++ l1 ++ cw ++ [(.chainHeight, some (.num h.number))])

def blockContentWrites (db : IDB) (B : Bundle) (commitId : Nat) (v2of : Nat → Nat) : Except RejectS IBatch :=
  blockContentWritesWith casmV2RequiresDefinition db B commitId v2of

/-! ## The node: index store + abstract chain -/

structure NodeS (σ : Type) where
  db : IDB
  chain : Chain σ

/-- the callback of `database.Write` / `Update` in `Store`: the batch it builds and the new state.
`newBackend`: the new state backend additionally reads the head's state root from the stored header
(`headStateRoot`) and opens the state there. -/
def storeCallbackWith {σ : Type} (checked : Bool) (newBackend : Bool) (sem : StateSem σ) (n : NodeS σ) (B : Bundle)
    (commitId : Nat) (v2of : Nat → Nat) : Except RejectS (IBatch × σ) :=
  let h := B.block.header
  match verifySuccessionDB n.db h with
  | .error e => .error e
  | .ok () =>
    match (if newBackend then headStateRootDB n.db h else .ok (.felt 0)) with
    | .error _ => .error .io
    | .ok _ =>
      if sem.root n.chain.st h.version ≠ B.su.oldRoot then .error .stateOld
      else match sem.apply n.chain.st h.number B.su.diff B.classes with
        | none => .error .stateApply
        | some st' =>
          if sem.root st' h.version ≠ B.su.newRoot then .error .stateNew
          else match blockContentWritesWith checked n.db B commitId v2of with
            | .error e => .error e
            | .ok ws => .ok (ws, st')

def storeCallback {σ : Type} (newBackend : Bool) (sem : StateSem σ) (n : NodeS σ) (B : Bundle)
    (commitId : Nat) (v2of : Nat → Nat) : Except RejectS (IBatch × σ) :=
  storeCallbackWith casmV2RequiresDefinition newBackend sem n B commitId v2of

/-- `Store`: the batch is applied only when the callback returned nil. -/
def storeDB {σ : Type} (newBackend : Bool) (sem : StateSem σ) (n : NodeS σ) (B : Bundle)
    (commitId : Nat) (v2of : Nat → Nat) : Except RejectS (NodeS σ) :=
  match storeCallback newBackend sem n B commitId v2of with
  | .error e => .error e
  | .ok (ws, st') =>
    .ok ⟨n.db.applyBatch ws, ⟨some ⟨B.block.header.number, B.block.header.hash⟩, st', B :: n.chain.stored⟩⟩

inductive RejectA
  | sanity (e : Reject)
  | store (e : RejectS)
deriving DecidableEq, Repr, Inhabited

/-- `SanityCheckNewHeight` then `Store` on the store-level node -/
def acceptDB {σ : Type} (newBackend : Bool) (sem : StateSem σ) (net : Net) (n : NodeS σ) (B : Bundle)
    (commitId : Nat) (v2of : Nat → Nat) : Except RejectA (NodeS σ) :=
  match sanityCheck net B with
  | .error e => .error (.sanity e)
  | .ok () =>
    match storeDB newBackend sem n B commitId v2of with
    | .error e => .error (.store e)
    | .ok n' => .ok n'

def offerDB {σ : Type} (newBackend : Bool) (sem : StateSem σ) (net : Net) (v2of : Nat → Nat) (n : NodeS σ)
    (Bc : Bundle × Nat) : NodeS σ :=
  match acceptDB newBackend sem net n Bc.1 Bc.2 v2of with
  | .ok n' => n'
  | .error _ => n

/-- a history of offered (bundle, commitments) pairs -/
def runDB {σ : Type} (newBackend : Bool) (sem : StateSem σ) (net : Net) (v2of : Nat → Nat) :
    NodeS σ → List (Bundle × Nat) → NodeS σ
  | n, [] => n
  | n, Bc :: rest => runDB newBackend sem net v2of (offerDB newBackend sem net v2of n Bc) rest

def emptyNode {σ : Type} (st0 : σ) : NodeS σ := ⟨[], ⟨none, st0, []⟩⟩

/-! ## `deleteBlockContent` (the index part of `RevertHead`) -/

/-- `revertCasmHashMetadata` -/
def revertCasmMigrated (db : IDB) : FMap → Except CasmErr IBatch
  | [] => .ok []
  | (c, _) :: rest =>
    match db.get (.casmMeta c) with
    | some (.casm m) =>
      (match m.unmigrate with
       | .error e => .error (.migrate e)
       | .ok m' =>
         match revertCasmMigrated db rest with
         | .error e => .error e
         | .ok ws => .ok ((.casmMeta c, some (.casm m')) :: ws))
    | _ => .error .metaMissing

def txDeletes : List Tx → Option IBatch
  | [] => some []
  | t :: ts =>
    match txDeletes ts with
    | none => none
    | some rest =>
      let d : IBatch := [(.txIndexByHash (t.hash.getD (.felt 0)), none)]
      match t with
      | .l1Handler l =>
        (match l1MsgPreimage l with
         | some pre => some (d ++ [(.l1MsgHash pre, none)] ++ rest)
         | none => none)
      | _ => some (d ++ rest)

/-- `deleteBlockContent(reader, writer, stateUpdate, blockNumber)`: the batch it builds. -/
def deleteBlockContent (db : IDB) (u : StateUpdate) (number : UInt64) : Except RejectS IBatch :=
  match getHeaderByNumber db number with
  | .error _ => .error .io
  | .ok hdr =>
    let casmDeclared : IBatch := u.diff.declaredV1.map (fun kc => (.casmMeta kc.1, none))
    match revertCasmMigrated db u.diff.migrated with
    | .error e => .error (.casm e)
    | .ok casmMig =>
      let keys : IBatch := [(.headerByNumber number, none), (.numberByHash hdr.hash, none), (.commitments number, none)]
      match db.get (.blockTxs number) with
      | some (.body txs _) =>
        (match txDeletes txs with
         | none => .error .panicL1
         | some td =>
           let tail : IBatch := [(.blockTxs number, none), (.stateUpdate number, none)] ++
             (if number = 0 then [(.chainHeight, none)] else [(.chainHeight, some (.num (number - 1)))])
           .ok (casmDeclared ++ casmMig ++ keys ++ td ++ tail))
      | _ => .error .io

/-- the index part of `RevertHead`: height, stored state update, `deleteBlockContent` -/
def revertIndexDB (db : IDB) : Except RejectS IDB :=
  match getChainHeight db with
  | .error _ => .error .io
  | .ok height =>
    match db.get (.stateUpdate height) with
    | some (.su u) =>
      (match deleteBlockContent db u height with
       | .error e => .error e
       | .ok ws => .ok (db.applyBatch ws))
    | _ => .error .io

end Juno.C02
