import JunoModel.C02.ModelAccept
/-
C02 — model, part 4 (round 5): the relation between the HEADER's counts and the block's BODY, and the
Sierra class hash.

1. `core.Header.TransactionCount` / `EventCount` are plain header fields. Every block-hash format hashes
   the header's numbers (`ConcatCounts(b.TransactionCount, b.EventCount, …)`, `post07Hash`, `pre07Hash`)
   and — separately — commitments over the CONTENT (`b.Transactions`, `b.Receipts[i].Events`).
   Nothing in `core.VerifyBlockHash`, `Blockchain.SanityCheckNewHeight` or `Store` compares the two:
   the relation "count = length" is established where a block enters the node
   (`adapters/sn2core.AdaptBlock` DERIVES both counts from the content; p2p sync refuses a block whose
   header counts differ from the body it received). This file transcribes the derivation and states
   the relation, so that `ProofsBody.lean` can prove what the block hash itself guarantees: a body of
   another LENGTH under the same header is never accepted, and "count = length" is inherited by every
   accepted block from any valid block with the same hash.

2. `core.SierraClass.Hash()` (core/class.go), the function `core.VerifyClassHashes` recomputes for
   every new Sierra class of a block — until now a black box of the model (`ClassDef.computedHash`).

Core Lean only (linked into `c02drv`).
-/
namespace Juno.C02

/-! ## Header counts and body lengths -/

/-- the length of the flat event list both event commitments walk (`eventCounter` in
`eventCommitmentPoseidon` / `eventCommitmentPedersen`): Σ len(receipt.Events) -/
def eventTotal (rs : List Receipt) : Nat := (rs.map (fun r => r.events.length)).sum

/-- `sn2core.AdaptBlock`: `TransactionCount: uint64(len(response.Transactions))` -/
def adaptedTxCount (txs : List Tx) : UInt64 := UInt64.ofNat txs.length

/-- `sn2core.AdaptBlock`: `eventCount := uint64(0); for … { eventCount += uint64(len(receipt.Events)) }` -/
def adaptedEventCount (rs : List Receipt) : UInt64 :=
  rs.foldl (fun acc r => acc + UInt64.ofNat r.events.length) 0

/-- the header of a block as `sn2core.AdaptBlock` builds it: both counts derived from the content -/
def adaptCounts (b : Block) : Block :=
  { b with header := { b.header with txCount := adaptedTxCount b.txs, eventCount := adaptedEventCount b.receipts } }

/-- "count = length": the header's counts are the ones the adapter derives from this body -/
def countsMatch (b : Block) : Bool :=
  b.header.txCount == adaptedTxCount b.txs && b.header.eventCount == adaptedEventCount b.receipts

/-- the three lengths of a body that a tampering "content added / removed, header kept" changes -/
structure BodyLengths where
  txs : Nat
  receipts : Nat
  events : Nat
deriving DecidableEq, Repr

def bodyLengths (b : Block) : BodyLengths := ⟨b.txs.length, b.receipts.length, eventTotal b.receipts⟩

/-! ## `core.SierraClass.Hash()` (core/class.go) -/

/-- `core.SierraEntryPoint` -/
structure SierraEP where
  index : UInt64
  selector : Term
deriving DecidableEq, Repr, Inhabited

/-- `core.SierraClass`. `program` / `abi` are the definition itself; `Hash()` does NOT read them, it reads
the two precomputed fields `programHash` / `abiHash` (filled by `sn2core.AdaptSierraClass`). -/
structure SierraCls where
  semanticVersion : Bytes
  external : List SierraEP
  l1Handler : List SierraEP
  constructor : List SierraEP
  abiHash : Term
  programHash : Term
  program : List Term
  abi : Bytes
deriving DecidableEq, Repr, Inhabited

/-- `sierraEntryPointsHash`: one Poseidon digest fed `selector, index` per entry point, in order -/
def sierraEntryPointsHash (eps : List SierraEP) : Term :=
  .posN (eps.flatMap (fun ep => [ep.selector, u64 ep.index]))

/-- `felt.NewFromBytes([]byte("CONTRACT_CLASS_V" + c.SemanticVersion))`: `SetBytes`, i.e. REDUCED mod P —
the tag has 16 bytes, so a semantic version of 16 bytes or more does not fit a field element -/
def classVersionFelt (v : Bytes) : Term := setBytes (asciiBytes "CONTRACT_CLASS_V" ++ v)

/-- SWITCH (the model follows the code). `true`: `/repo` as it is since fix d902b5f — `Hash()` fails for a
`SemanticVersion` longer than 15 bytes (tag + version must fit 31 bytes). `false`: the code before that fix —
`SierraClass.Hash()` accepts a version of any length (`class_version_wrap_accepted`). The harness probes the
variant the code has (`probe-class-version-*`) and asks the driver for that variant. -/
def classVersionLengthLimited : Bool := true

/-- `SierraClass.Hash()`; `none` = it returns an error -/
def sierraClassHashWith (limited : Bool) (c : SierraCls) : Option Term :=
  if limited && c.semanticVersion.length > 15 then none
  else some (.posN [classVersionFelt c.semanticVersion, sierraEntryPointsHash c.external,
                    sierraEntryPointsHash c.l1Handler, sierraEntryPointsHash c.constructor,
                    c.abiHash, c.programHash])

/-- `SierraClass.Hash()` of the code as it is (since d902b5f: the length-limited variant) -/
def sierraClassHash (c : SierraCls) : Option Term := sierraClassHashWith classVersionLengthLimited c

/-- `sn2core.AdaptSierraClass`: `programHash := crypto.PoseidonArray(response.Program)`,
`abiHash := crypto.StarknetKeccak([]byte(response.Abi))`; everything else copied -/
def adaptSierra (c : SierraCls) : SierraCls :=
  { c with programHash := .posN c.program, abiHash := .keccak c.abi }

/-- a new class as `VerifyClassHashes` sees it: the key of the map and the definition -/
inductive ClsDef
  | cairo0
  | sierra (c : SierraCls)
deriving DecidableEq, Repr, Inhabited

/-- `core.VerifyClassHashes` with the Sierra hash spelled out: Cairo-0 classes are skipped, a Sierra class
must hash to its key; an error of `Hash()` fails the verification -/
def verifyClassHashesT (limited : Bool) (cs : List (Term × ClsDef)) : Bool :=
  cs.all (fun kc =>
    match kc.2 with
    | .cairo0 => true
    | .sierra c => (match sierraClassHashWith limited c with | some h => h == kc.1 | none => false))

/-! ## `core.CasmClass.Hash` / `core.SegmentedBytecodeHash` (core/class.go): WHEN IT PANICS

`storeCasmHashMetadataV1` (every block below protocol 0.14.1) calls `sierraClass.Compiled.Hash(HashVersionV2)`
for every declared class — inside `Store`'s write batch, on a compiled class that came from the feeder and that
nothing verifies. The hash VALUE stays a black box (`v2of` in `ModelStore.lean`); what is transcribed here is
the control flow that decides whether the call returns at all: a nil `Compiled` is dereferenced, and
`SegmentedBytecodeHash` slices `bytecode[startingOffset : startingOffset+segment.Length]` with NO bound check. -/

/-- `core.SegmentLengths` -/
inductive Seg where
  | mk (children : List Seg) (length : UInt64)
deriving Repr, Inhabited

mutual
/-- one iteration of the loop of `digestSegment` for `segment`, the closure variable `startingOffset` being
`start`: `(curSegmentLength, startingOffset after the recursive call)`; `none` = the slice expression panics
(`a > b`, which a wrapped `uint64` sum produces, or `b > cap(bytecode)`). -/
def Seg.cur (cap : Nat) : Seg → UInt64 → Option (UInt64 × UInt64)
  | .mk [] len, start =>
    if start.toNat ≤ (start + len).toNat ∧ (start + len).toNat ≤ cap then some (len, start) else none
  | .mk (c :: cs) _, start => Seg.digest cap (c :: cs) start 0
/-- `digestSegment(segments)`: `(totalLength, startingOffset afterwards)`. After EVERY segment — leaf or not —
the loop does `startingOffset += curSegmentLength`; for a segment with children the recursive call has
already advanced the (shared) variable, so nested segments advance it twice. Transcribed as it is. -/
def Seg.digest (cap : Nat) : List Seg → UInt64 → UInt64 → Option (UInt64 × UInt64)
  | [], start, total => some (total, start)
  | s :: rest, start, total =>
    match Seg.cur cap s start with
    | none => none
    | some (len, start') => Seg.digest cap rest (start' + len) (total + len)
end

/-- what `Hash` needs of a compiled class: `cap(c.Bytecode)` and `c.BytecodeSegmentLengths.Children` -/
structure CompiledShape where
  bytecodeCap : Nat
  segments : List Seg
deriving Repr, Inhabited

/-- does `sierraClass.Compiled.Hash(version)` panic? `none` is a nil `Compiled` (what `starknetdata/feeder`
passes for a class whose compiled class has the deprecated format); without segment lengths the whole
bytecode is hashed, no slicing. -/
def compiledHashPanics : Option CompiledShape → Bool
  | none => true
  | some c =>
    match c.segments with
    | [] => false
    | ss => (Seg.digest c.bytecodeCap ss 0 0).isNone

/-- SWITCH (the model follows the code). `true`: `/repo` as it is since fix 302c657 — `storeCasmHashMetadataV1`
turns the panic into an error (the block is rejected, the batch dropped). `false`: the code before that fix —
the panic leaves `Store` (sync does not recover: the process dies). -/
def compiledHashGuarded : Bool := true

inductive CasmHashOutcome | value | error | panic
deriving DecidableEq, Repr

/-- the outcome of the V2-hash computation inside `storeCasmHashMetadataV1` -/
def casmV2HashOutcomeWith (guarded : Bool) (c : Option CompiledShape) : CasmHashOutcome :=
  if compiledHashPanics c then (if guarded then .error else .panic) else .value

def casmV2HashOutcome (c : Option CompiledShape) : CasmHashOutcome := casmV2HashOutcomeWith compiledHashGuarded c

end Juno.C02
